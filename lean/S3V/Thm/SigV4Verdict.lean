import S3V.Thm.SigV4Canon
/-!
# Lemmas: the verdict logic of `v4_check_header_auth` / `v4_check_presigned_url` / `v4_check_post_signature`
-/
namespace S3V.SigV4
open S3V

/-- everything besides the signature comparison that `v4_check_header_auth` demands before it accepts -/
structure HeaderChecks (look : Bytes → Option Bytes) (c : Ctx) (a : Authorization) (secret : Bytes) (d : AmzDate)
    (payload : Payload) : Prop where
  parsed : (getUnique c.hs b!"authorization").bind parseAuthorization = some a
  algorithm : a.algorithm = b!"AWS4-HMAC-SHA256"
  service : a.credential.service = b!"s3" ∨ a.credential.service = b!"sts"
  mode : ∃ sha, extractContentSha c.hs = .ok sha ∧ (a.credential.service = b!"s3" → sha ≠ none) ∧
    headerPayload c sha = .ok payload ∧ (sha = some .multipleChunks → c.decodedContentLength ≠ none)
  key : look a.credential.accessKey = some secret
  /-- `x-amz-date` is a unique header whose value, edge blanks (SP / HTAB) removed, is a timestamp (d453cd3) -/
  date : ∃ dv, getUnique c.hs b!"x-amz-date" = some dv ∧ parseAmzDate (trimOws dv) = some d
  /-- the credential scope names the day of `x-amz-date` (4011296) -/
  scopeDate : a.credential.date = d.fmtDate
  /-- every listed header is in the request (10af2bf) -/
  present : signedHeaderMissing c a = false

/-- `extract_amz_date` yields a timestamp iff the unique `x-amz-date` value, trimmed of SP / HTAB, parses to it -/
theorem extractAmzDate_ok_some_iff (hs : List (Bytes × Bytes)) (d : AmzDate) :
    extractAmzDate hs = .ok (some d) ↔
      ∃ dv, getUnique hs b!"x-amz-date" = some dv ∧ parseAmzDate (trimOws dv) = some d := by
  unfold extractAmzDate
  cases hg : getUnique hs b!"x-amz-date" with
  | none => simp
  | some dv =>
    cases hp : parseAmzDate (trimOws dv) with
    | none => simp [hp]
    | some x =>
      simp only [Option.some.injEq, exists_eq_left', hp]
      constructor
      · intro h; injection h with h; injection h with h
      · intro h; rw [h]

theorem header_accept_iff (sha256hex : Bytes → Bytes) (hmac : Bytes → Bytes → Bytes) (look : Bytes → Option Bytes)
    (c : Ctx) (ak region service : Bytes) :
    v4CheckHeaderAuth sha256hex hmac (some look) c = .accept ak region service ↔
      ∃ a secret d payload, HeaderChecks look c a secret d payload ∧
        a.credential.accessKey = ak ∧ a.credential.region = region ∧ a.credential.service = service ∧
        headerSignature sha256hex hmac c a secret d payload = a.signature := by
  constructor
  · intro h
    unfold v4CheckHeaderAuth at h
    split at h
    · contradiction
    · rename_i a ha
      simp only [] at h
      split at h
      · contradiction
      · rename_i halg
        split at h
        · contradiction
        · rename_i hsvc
          split at h
          · contradiction
          · rename_i sha hsha
            split at h
            · contradiction
            · rename_i hs3
              split at h
              · contradiction
              · rename_i secret hkey
                split at h
                · contradiction
                · contradiction
                · rename_i d hd
                  split at h
                  · contradiction
                  · rename_i hscope
                    split at h
                    · contradiction
                    · rename_i hmiss
                      split at h
                      · contradiction
                      · rename_i payload hpl
                        split at h
                        · contradiction
                        · rename_i hsig
                          split at h
                          · contradiction
                          · rename_i hstream
                            injection h with h1 h2 h3
                            refine ⟨a, secret, d, payload,
                              ⟨ha, by simpa using halg, ?_, ⟨sha, hsha, ?_, hpl, ?_⟩, hkey,
                                (extractAmzDate_ok_some_iff c.hs d).mp hd,
                                by simpa using hscope, by simpa using hmiss⟩, h1, h2, h3, ?_⟩
                            · by_cases hs : a.credential.service = b!"s3"
                              · exact Or.inl hs
                              · by_cases ht : a.credential.service = b!"sts"
                                · exact Or.inr ht
                                · simp [hs, ht] at hsvc
                            · intro hs
                              simp only [hs, decide_true, Bool.true_and, decide_eq_true_eq] at hs3
                              exact hs3
                            · intro hm
                              simp only [hm, decide_true, Bool.true_and, decide_eq_true_eq] at hstream
                              exact hstream
                            · simpa using hsig
  · rintro ⟨a, secret, d, payload, ⟨ha, halg, hsvc, ⟨sha, hsha, hs3, hpl, hstream⟩, hkey, hdate, hscope, hmiss⟩,
      h1, h2, h3, hsig⟩
    have hd := (extractAmzDate_ok_some_iff c.hs d).mpr hdate
    unfold v4CheckHeaderAuth
    rw [ha]
    simp only []
    rw [if_neg (by simp [halg])]
    have e1 : (!(a.credential.service = b!"s3" || a.credential.service = b!"sts")) = false := by
      rcases hsvc with h | h <;> simp [h]
    rw [e1]
    simp only [Bool.false_eq_true, if_false, hsha]
    have e2 : (decide (a.credential.service = b!"s3") && decide (sha = none)) = false := by
      by_cases hs : a.credential.service = b!"s3"
      · simp [hs3 hs]
      · simp [hs]
    rw [e2]
    simp only [Bool.false_eq_true, if_false, hkey, hd]
    rw [if_neg (by simp [hscope]), hmiss]
    simp only [Bool.false_eq_true, if_false, hpl]
    have e3 : ¬ (headerSignature sha256hex hmac c a secret d payload ≠ a.signature) := by simp [hsig]
    rw [if_neg e3]
    have e4 : (decide (sha = some ContentSha.multipleChunks) && decide (c.decodedContentLength = none)) = false := by
      by_cases hm : sha = some ContentSha.multipleChunks
      · simp [hstream hm]
      · simp [hm]
    rw [e4]
    simp [h1, h2, h3]

/-! ## string to sign, signing key: model = specification -/

theorem hexLower_eq (b : Bytes) : hexLower b = SigV4Spec.hex b := rfl

theorem stringToSign_eq (sha256hex : Bytes → Bytes) (cr : Bytes) (d : AmzDate) (region service : Bytes) :
    createStringToSign sha256hex cr d region service =
      SigV4Spec.stringToSign sha256hex d.fmtIso8601 ⟨d.fmtDate, region, service⟩ cr := by
  simp [createStringToSign, SigV4Spec.stringToSign, SigV4Spec.scopeText, SigV4Spec.algorithm,
    SigV4Spec.aws4Request, List.append_assoc]

theorem calculateSignature_eq (hmac : Bytes → Bytes → Bytes) (sts secret : Bytes) (d : AmzDate)
    (region service : Bytes) :
    calculateSignature hmac sts secret d region service =
      SigV4Spec.sign hmac secret ⟨d.fmtDate, region, service⟩ sts := rfl

/-- the request `v4_check_header_auth` canonicalises, given the header lines `raw` the sorted list came from;
    on HTTP/2 without a `host` line the authority of the request URI stands in (`effectiveRaw`) -/
def Ctx.req (c : Ctx) (raw : List (Bytes × Bytes)) (signed : List Bytes) (payload : Payload) : Req :=
  { method := c.method, path := c.path, qs := c.qs, headers := effectiveRaw c.http2 c.authority raw, signed, payload }

theorem hs_of_orderedHeaders {c : Ctx} {raw : List (Bytes × Bytes)} (h : orderedHeaders raw = some c.hs) :
    c.hs = hsOf raw := by
  unfold orderedHeaders at h
  split at h
  · injection h with h; exact h.symm
  · cases h

/-- the selection of the code (with its `on_missing` closure) is the fallback-free selection from the effective lines -/
theorem select_eq {c : Ctx} {raw : List (Bytes × Bytes)} (h : orderedHeaders raw = some c.hs) (names signed : List Bytes)
    (payload : Payload) :
    findMultiple c.hs names (hostFallback c.http2 c.authority) =
      findMultiple (c.req raw signed payload).hs names (fun _ => none) := by
  rw [hs_of_orderedHeaders h, findMultiple_fallback]
  rfl

theorem wf_payload (r : Req) (p : Payload) : wf { r with payload := p } = wf r := rfl

/-- on well-formed requests the recomputed signature is the specification's signature
    (scope date = the date of `x-amz-date`, which is what the code uses) -/
theorem headerSignature_eq_spec (sha256hex : Bytes → Bytes) (hmac : Bytes → Bytes → Bytes) (c : Ctx)
    (raw : List (Bytes × Bytes)) (a : Authorization) (secret : Bytes) (d : AmzDate) (payload : Payload)
    (hraw : orderedHeaders raw = some c.hs) (hwf : wf (c.req raw a.signedHeaders payload) = true) :
    headerSignature sha256hex hmac c a secret d payload =
      SigV4Spec.signature sha256hex hmac secret d.fmtIso8601 ⟨d.fmtDate, a.credential.region, a.credential.service⟩
        ((c.req raw a.signedHeaders payload).toSpec sha256hex) := by
  have hcanon := canon_impl_eq_spec sha256hex (fun _ => none) _ hwf
  simp only [canonImpl, canonSpec] at hcanon
  simp only [headerSignature, headerSelection, SigV4Spec.signature, stringToSign_eq, calculateSignature_eq]
  have : createCanonicalRequest sha256hex c.method c.path c.qs
      (findMultiple c.hs (sortBytes a.signedHeaders) (hostFallback c.http2 c.authority)) payload =
      SigV4Spec.canonicalRequest ((c.req raw a.signedHeaders payload).toSpec sha256hex) := by
    rw [select_eq hraw _ a.signedHeaders payload]
    exact hcanon
  rw [this]

theorem dropWhile_head_false {α : Type} (p : α → Bool) : ∀ (l : List α) (x : α) (rest : List α),
    l.dropWhile p = x :: rest → p x = false := by
  intro l
  induction l with
  | nil => intro x rest h; cases h
  | cons y ys ih =>
    intro x rest h
    rw [List.dropWhile_cons] at h
    by_cases hy : p y = true
    · rw [if_pos hy] at h; exact ih x rest h
    · rw [if_neg hy] at h
      injection h with h1 _
      subst h1
      simpa using hy

/-- the first pair `get_all_pairs` returns carries the wanted name -/
theorem getAllPairs_ne_nil {l : List (Bytes × Bytes)} {n : Bytes} (h : getAllPairs l n ≠ []) : ∃ p ∈ l, p.1 = n := by
  unfold getAllPairs at h
  cases hd : (l.dropWhile fun x => bLt x.1 n) with
  | nil => rw [hd] at h; exact absurd rfl h
  | cons p rest =>
    rw [hd, List.takeWhile_cons] at h
    have hmem : p ∈ l := (List.dropWhile_sublist _).subset (by rw [hd]; simp)
    have hnlt : bLt p.1 n = false := dropWhile_head_false (fun x : Bytes × Bytes => bLt x.1 n) l p rest hd
    by_cases hle : bLe p.1 n = true
    · simp only [bLe, Bool.not_eq_true'] at hle
      exact ⟨p, hmem, bLt_total hnlt hle⟩
    · simp [hle] at h

/-- a name whose `get_all` on the code's selection is non-empty is carried by a header line of the request -/
theorem present_of_selection {c : Ctx} {raw : List (Bytes × Bytes)} (hraw : orderedHeaders raw = some c.hs)
    (names signed : List Bytes) (payload : Payload) {n : Bytes}
    (hne : getAllPairs (findMultiple c.hs names (hostFallback c.http2 c.authority)) n ≠ []) :
    (c.req raw signed payload).vals n ≠ [] := by
  obtain ⟨p, hp, hpn⟩ := getAllPairs_ne_nil hne
  rw [select_eq hraw _ signed payload] at hp
  unfold findMultiple at hp
  rw [List.mem_flatMap] at hp
  obtain ⟨m, _, hpm⟩ := hp
  rw [getAllPairs_hs_vals] at hpm
  cases hv : (c.req raw signed payload).vals m with
  | nil => rw [hv] at hpm; simp at hpm
  | cons v vs =>
    rw [hv] at hpm
    have : p.1 = m := by
      simp only [List.map_cons, List.mem_cons, List.mem_map] at hpm
      rcases hpm with rfl | ⟨_, _, rfl⟩ <;> rfl
    rw [← hpn, this, hv]
    simp

/-- the "every signed header is in the request" check of the code, in terms of the request's header lines -/
theorem present_of_not_missing {c : Ctx} {raw : List (Bytes × Bytes)} {a : Authorization}
    (hraw : orderedHeaders raw = some c.hs) (h : signedHeaderMissing c a = false) (payload : Payload) :
    ∀ n ∈ a.signedHeaders, (c.req raw a.signedHeaders payload).vals n ≠ [] := by
  intro n hn
  unfold signedHeaderMissing at h
  rw [List.any_eq_false] at h
  have hn' : n ∈ sortBytes a.signedHeaders := (sortBytes_perm _).mem_iff.mpr hn
  apply present_of_selection hraw (sortBytes a.signedHeaders)
  have := h n hn'
  intro e
  unfold headerSelection at this
  rw [e] at this
  simp at this

/-- WF of a header-authenticated context after the repairs: the listed names are distinct and do not include
    `authorization`, and duplicate query names carry ascending values (open class `sigv4-dup-query-unsorted`).
    Algorithm, scope date and presence of the listed headers are now checked by the code itself. -/
def wfHeaderAuth (c : Ctx) : Bool :=
  match (getUnique c.hs b!"authorization").bind parseAuthorization with
  | none => true
  | some a =>
    decide a.signedHeaders.Nodup && a.signedHeaders.all (fun n => n ≠ b!"authorization") &&
    dupOrdered (c.qs.map encPair)

theorem wf_of_checks {look : Bytes → Option Bytes} {c : Ctx} {raw : List (Bytes × Bytes)} {a : Authorization}
    {secret : Bytes} {d : AmzDate} {payload : Payload} (hraw : orderedHeaders raw = some c.hs)
    (hwf : wfHeaderAuth c = true) (hc : HeaderChecks look c a secret d payload) :
    wf (c.req raw a.signedHeaders payload) = true := by
  unfold wfHeaderAuth at hwf
  rw [hc.parsed] at hwf
  simp only [Bool.and_eq_true, decide_eq_true_eq, List.all_eq_true] at hwf
  obtain ⟨⟨hnd, hna⟩, hq⟩ := hwf
  have hpres := present_of_not_missing hraw hc.present payload
  simp only [wf, Bool.and_eq_true, List.all_eq_true, decide_eq_true_eq]
  refine ⟨⟨?_, hnd⟩, hq⟩
  intro n hn
  simp only [headerOK, Bool.and_eq_true, decide_eq_true_eq, Bool.not_eq_true', List.isEmpty_eq_false_iff]
  refine ⟨by simpa using hna n hn, ?_⟩
  intro e
  apply hpres n hn
  unfold Req.vals
  rw [e]
  rfl

theorem header_verdict_iff_spec (sha256hex : Bytes → Bytes) (hmac : Bytes → Bytes → Bytes)
    (look : Bytes → Option Bytes) (c : Ctx) (raw : List (Bytes × Bytes)) (ak region service : Bytes)
    (hraw : orderedHeaders raw = some c.hs) (hwf : wfHeaderAuth c = true) :
    v4CheckHeaderAuth sha256hex hmac (some look) c = .accept ak region service ↔
      ∃ a secret d payload, HeaderChecks look c a secret d payload ∧
        a.credential.accessKey = ak ∧ a.credential.region = region ∧ a.credential.service = service ∧
        a.signature = SigV4Spec.signature sha256hex hmac secret d.fmtIso8601 ⟨a.credential.date, region, service⟩
          ((c.req raw a.signedHeaders payload).toSpec sha256hex) := by
  rw [header_accept_iff]
  constructor
  · rintro ⟨a, secret, d, payload, hc, h1, h2, h3, hsig⟩
    have hw := wf_of_checks hraw hwf hc
    refine ⟨a, secret, d, payload, hc, h1, h2, h3, ?_⟩
    rw [← hsig, headerSignature_eq_spec sha256hex hmac c raw a secret d payload hraw hw, hc.scopeDate, h2, h3]
  · rintro ⟨a, secret, d, payload, hc, h1, h2, h3, hsig⟩
    have hw := wf_of_checks hraw hwf hc
    refine ⟨a, secret, d, payload, hc, h1, h2, h3, ?_⟩
    rw [hsig, headerSignature_eq_spec sha256hex hmac c raw a secret d payload hraw hw, hc.scopeDate, h2, h3]

/-! ## the payload line: what the code signs is what the request declares, whatever the method -/

/-- the payload line the AWS documents prescribe for a header-authenticated request: the value of the (unique)
    `x-amz-content-sha256` header, edge blanks removed, which is one of the two keywords or the digest of the body
    (`SigV4Spec.verifyHeaderAuth` refuses a digest that is not the body's). No condition on the method. -/
def SpecPayloadLine (sha256hex : Bytes → Bytes) (c : Ctx) (pl : Bytes) : Prop :=
  ∃ v, getUnique c.hs b!"x-amz-content-sha256" = some v ∧ pl = trimOws v ∧
    (pl = b!"UNSIGNED-PAYLOAD" ∨ pl = b!"STREAMING-AWS4-HMAC-SHA256-PAYLOAD" ∨ pl = sha256hex c.body)

/-- `extract_full_body` returns the body or an error -/
theorem extractFullBody_ok {c : Ctx} {bytes : Bytes} (h : extractFullBody c = .ok bytes) : bytes = c.body := by
  unfold extractFullBody at h
  split at h
  · injection h with h; exact h.symm
  · split at h
    · injection h with h; exact h.symm
    · split at h
      · cases h
      · split at h
        · injection h with h; exact h.symm
        · cases h

/-- the payload line `v4_check_header_auth` puts into the canonical request is the declared one, for every method
    (before the repair of `sigv4-get-head-body`: false for GET / HEAD with a body and a digest).
    `hempty`: the constant `EMPTY_STRING_SHA256_HASH` is the digest of the empty string. -/
theorem payloadLine_declared (sha256hex : Bytes → Bytes) (hempty : sha256hex [] = emptySha256) (c : Ctx)
    (sha : Option ContentSha) (payload : Payload) (hsha : extractContentSha c.hs = .ok sha)
    (hpl : headerPayload c sha = .ok payload) (pl : Bytes) (hspec : SpecPayloadLine sha256hex c pl) :
    payloadLine sha256hex payload = pl := by
  obtain ⟨v, hv, hplv, hcases⟩ := hspec
  unfold extractContentSha at hsha
  rw [hv] at hsha
  simp only [] at hsha
  rw [← hplv] at hsha
  cases hp : parseContentSha pl with
  | none => rw [hp] at hsha; cases hsha
  | some x =>
    rw [hp] at hsha
    injection hsha with hsha
    subst hsha
    unfold parseContentSha at hp
    unfold headerPayload at hpl
    by_cases hu : pl = b!"UNSIGNED-PAYLOAD"
    · rw [if_pos hu] at hp
      injection hp with hp
      subst hp
      rw [if_neg (by decide), if_pos rfl] at hpl
      injection hpl with hpl
      subst hpl
      exact hu.symm
    · rw [if_neg hu] at hp
      by_cases hs : pl = b!"STREAMING-AWS4-HMAC-SHA256-PAYLOAD"
      · rw [if_pos hs] at hp
        injection hp with hp
        subst hp
        rw [if_pos rfl] at hpl
        injection hpl with hpl
        subst hpl
        exact hs.symm
      · rw [if_neg hs] at hp
        have hbody : pl = sha256hex c.body := by
          rcases hcases with h | h | h
          · exact absurd h hu
          · exact absurd h hs
          · exact h
        by_cases hk : isSha256Checksum pl = true
        · rw [if_pos hk] at hp
          injection hp with hp
          subst hp
          rw [if_neg (by simp), if_neg (by simp)] at hpl
          cases hb : extractFullBody c with
          | error e => rw [hb] at hpl; cases hpl
          | ok bytes =>
            rw [hb] at hpl
            have hbytes := extractFullBody_ok hb
            injection hpl with hpl
            subst hpl
            by_cases he : bytes = []
            · rw [if_pos he, hbody, ← hbytes, he, hempty]
              rfl
            · rw [if_neg he, hbody, ← hbytes]
              rfl
        · rw [if_neg hk] at hp
          cases hp

/-- the specification's view of the request `v4_check_header_auth` authenticates, with the DECLARED payload line -/
def Ctx.specRequest (c : Ctx) (raw : List (Bytes × Bytes)) (signed : List Bytes) (pl : Bytes) : SigV4Spec.Request :=
  { method := c.method, path := c.path, query := c.qs, headers := effectiveRaw c.http2 c.authority raw,
    signedHeaders := signed, payload := pl }

/-- acceptance iff the presented signature is the specification's signature of the request WITH THE DECLARED PAYLOAD
    LINE — whatever the method: a GET or HEAD request that carries a body is treated like any other -/
theorem header_verdict_iff_spec_declared (sha256hex : Bytes → Bytes) (hmac : Bytes → Bytes → Bytes)
    (look : Bytes → Option Bytes) (c : Ctx) (raw : List (Bytes × Bytes)) (ak region service : Bytes)
    (hraw : orderedHeaders raw = some c.hs) (hwf : wfHeaderAuth c = true) (hempty : sha256hex [] = emptySha256)
    (pl : Bytes) (hspec : SpecPayloadLine sha256hex c pl) :
    v4CheckHeaderAuth sha256hex hmac (some look) c = .accept ak region service ↔
      ∃ a secret d payload, HeaderChecks look c a secret d payload ∧
        a.credential.accessKey = ak ∧ a.credential.region = region ∧ a.credential.service = service ∧
        a.signature = SigV4Spec.signature sha256hex hmac secret d.fmtIso8601 ⟨a.credential.date, region, service⟩
          (c.specRequest raw a.signedHeaders pl) := by
  rw [header_verdict_iff_spec sha256hex hmac look c raw ak region service hraw hwf]
  have key : ∀ (a : Authorization) (secret : Bytes) (d : AmzDate) (payload : Payload),
      HeaderChecks look c a secret d payload →
      (c.req raw a.signedHeaders payload).toSpec sha256hex = c.specRequest raw a.signedHeaders pl := by
    intro a secret d payload hc
    obtain ⟨sha, hsha, _, hpl, _⟩ := hc.mode
    simp only [Ctx.req, Req.toSpec, Ctx.specRequest, payloadLine_declared sha256hex hempty c sha payload hsha hpl pl hspec]
  constructor
  · rintro ⟨a, secret, d, payload, hc, h1, h2, h3, hsig⟩
    exact ⟨a, secret, d, payload, hc, h1, h2, h3, by rw [← key a secret d payload hc]; exact hsig⟩
  · rintro ⟨a, secret, d, payload, hc, h1, h2, h3, hsig⟩
    exact ⟨a, secret, d, payload, hc, h1, h2, h3, by rw [key a secret d payload hc]; exact hsig⟩

/-! ## presigned URLs -/

/-- everything besides window and signature that `v4_check_presigned_url` demands -/
structure PresignedChecks (look : Bytes → Option Bytes) (c : Ctx) (p : Presigned) (secret : Bytes) (date : Int) :
    Prop where
  parsed : parsePresigned c.qs = some p
  algorithm : p.algorithm = b!"AWS4-HMAC-SHA256"
  /-- the credential scope names the day of `X-Amz-Date` (4011296) -/
  scopeDate : p.credential.date = p.amzDate.fmtDate
  sha : ∃ s, extractContentSha c.hs = .ok s
  time : p.amzDate.toTime = some date
  key : look p.credential.accessKey = some secret
  /-- every name of `X-Amz-SignedHeaders` is in the request (d4ba65c) -/
  present : presignedHeaderMissing c p = false

/-- the code's two comparisons are exactly the window `date − 900 s ≤ now ≤ date + expires` -/
theorem window_iff (nowNs date : Int) (expires : Nat) :
    (¬ ((nowNs - date * 1000000000 < 0 && -(nowNs - date * 1000000000) > 900 * 1000000000) = true) ∧
     ¬ (nowNs - date * 1000000000 > (expires : Int) * 1000000000)) ↔ SigV4Spec.inWindow nowNs date expires := by
  simp only [SigV4Spec.inWindow, Bool.and_eq_true, decide_eq_true_eq]
  omega

theorem presigned_accept_iff (sha256hex : Bytes → Bytes) (hmac : Bytes → Bytes → Bytes)
    (look : Bytes → Option Bytes) (nowNs : Int) (c : Ctx) (ak region service : Bytes) :
    v4CheckPresignedUrl sha256hex hmac (some look) nowNs c = .accept ak region service ↔
      ∃ p secret date, PresignedChecks look c p secret date ∧
        p.credential.accessKey = ak ∧ p.credential.region = region ∧ p.credential.service = service ∧
        SigV4Spec.inWindow nowNs date p.expires ∧
        presignedSignature sha256hex hmac c p secret = p.signature := by
  constructor
  · intro h
    unfold v4CheckPresignedUrl at h
    split at h
    · contradiction
    · rename_i p hp
      split at h
      · contradiction
      · rename_i halg
        split at h
        · contradiction
        · rename_i hscope
          split at h
          · contradiction
          · rename_i s hs
            split at h
            · contradiction
            · rename_i date hdate
              simp only [] at h
              split at h
              · contradiction
              · rename_i hskew
                split at h
                · contradiction
                · rename_i hexp
                  split at h
                  · contradiction
                  · rename_i secret hkey
                    split at h
                    · contradiction
                    · rename_i hmiss
                      split at h
                      · contradiction
                      · rename_i hsig
                        injection h with h1 h2 h3
                        refine ⟨p, secret, date, ⟨hp, ?_, ?_, ⟨s, hs⟩, hdate, hkey, by simpa using hmiss⟩, h1, h2, h3, ?_, ?_⟩
                        · simpa using halg
                        · simpa using hscope
                        · exact (window_iff nowNs date p.expires).mp ⟨hskew, hexp⟩
                        · simpa using hsig
  · rintro ⟨p, secret, date, ⟨hp, halg, hscope, ⟨s, hs⟩, hdate, hkey, hmiss⟩, h1, h2, h3, hwin, hsig⟩
    obtain ⟨hskew, hexp⟩ := (window_iff nowNs date p.expires).mpr hwin
    unfold v4CheckPresignedUrl
    rw [hp]
    simp only [halg, hscope, ne_eq, not_true_eq_false, if_false, hs, hdate]
    rw [if_neg hskew, if_neg hexp]
    simp only [hkey, hmiss, Bool.false_eq_true, if_false]
    have e3 : ¬ (presignedSignature sha256hex hmac c p secret ≠ p.signature) := by simp [hsig]
    rw [if_neg e3]
    simp [h1, h2, h3]

/-- the request `v4_check_presigned_url` canonicalises -/
theorem presignedSignature_eq_spec (sha256hex : Bytes → Bytes) (hmac : Bytes → Bytes → Bytes) (c : Ctx)
    (raw : List (Bytes × Bytes)) (p : Presigned) (secret : Bytes)
    (hraw : orderedHeaders raw = some c.hs) (hwf : wfPresigned (c.req raw p.signedHeaders .unsigned) = true) :
    presignedSignature sha256hex hmac c p secret =
      SigV4Spec.signature sha256hex hmac secret p.amzDate.fmtIso8601
        ⟨p.amzDate.fmtDate, p.credential.region, p.credential.service⟩
        (SigV4Spec.presignedRequest c.method c.path c.qs (effectiveRaw c.http2 c.authority raw) p.signedHeaders) := by
  have hcanon := canon_presigned_impl_eq_spec (fun _ => none) _ hwf
  simp only [canonPresignedImpl, canonPresignedSpec] at hcanon
  simp only [presignedSignature, presignedSelection, SigV4Spec.signature, stringToSign_eq, calculateSignature_eq]
  have : createPresignedCanonicalRequest c.method c.path c.qs
      (findMultiple c.hs p.signedHeaders (hostFallback c.http2 c.authority)) =
      SigV4Spec.canonicalRequest
        (SigV4Spec.presignedRequest c.method c.path c.qs (effectiveRaw c.http2 c.authority raw) p.signedHeaders) := by
    rw [select_eq hraw _ p.signedHeaders .unsigned]
    exact hcanon
  rw [this]

/-- WF of a presigned context after the repairs: the names of `X-Amz-SignedHeaders` are sorted (as the documents
    require; the code uses the list as given), distinct and do not include `authorization`; duplicate parameter names
    carry ascending values (open class `sigv4-dup-query-unsorted`). Presence of the listed headers is the code's own
    check since d4ba65c. -/
def wfPresignedCtx (c : Ctx) : Bool :=
  match parsePresigned c.qs with
  | none => true
  | some p =>
    decide p.signedHeaders.Nodup && p.signedHeaders.all (fun n => n ≠ b!"authorization") &&
    (sortBytes p.signedHeaders = p.signedHeaders) &&
    dupOrdered ((c.qs.filter fun q => q.1 ≠ b!"X-Amz-Signature").map encPair)

theorem wfPresigned_of_checks {look : Bytes → Option Bytes} {c : Ctx} {raw : List (Bytes × Bytes)} {p : Presigned}
    {secret : Bytes} {date : Int} (hraw : orderedHeaders raw = some c.hs) (hwf : wfPresignedCtx c = true)
    (hc : PresignedChecks look c p secret date) : wfPresigned (c.req raw p.signedHeaders .unsigned) = true := by
  unfold wfPresignedCtx at hwf
  rw [hc.parsed] at hwf
  simp only [Bool.and_eq_true, decide_eq_true_eq, List.all_eq_true] at hwf
  obtain ⟨⟨⟨hnd, hna⟩, hsorted⟩, hq⟩ := hwf
  have hmiss := hc.present
  unfold presignedHeaderMissing presignedSelection at hmiss
  rw [List.any_eq_false] at hmiss
  simp only [wfPresigned, Bool.and_eq_true, List.all_eq_true, decide_eq_true_eq]
  refine ⟨⟨⟨?_, hnd⟩, hq⟩, hsorted⟩
  intro n hn
  simp only [headerOK, Bool.and_eq_true, decide_eq_true_eq, Bool.not_eq_true', List.isEmpty_eq_false_iff]
  refine ⟨by simpa using hna n hn, ?_⟩
  intro e
  have hne : getAllPairs (findMultiple c.hs p.signedHeaders (hostFallback c.http2 c.authority)) n ≠ [] := by
    have := hmiss n hn
    intro e'
    rw [e'] at this
    simp at this
  apply present_of_selection hraw p.signedHeaders p.signedHeaders .unsigned hne
  unfold Req.vals
  rw [e]
  rfl

theorem presigned_verdict_iff_spec (sha256hex : Bytes → Bytes) (hmac : Bytes → Bytes → Bytes)
    (look : Bytes → Option Bytes) (nowNs : Int) (c : Ctx) (raw : List (Bytes × Bytes)) (ak region service : Bytes)
    (hraw : orderedHeaders raw = some c.hs) (hwf : wfPresignedCtx c = true) :
    v4CheckPresignedUrl sha256hex hmac (some look) nowNs c = .accept ak region service ↔
      ∃ p secret date, PresignedChecks look c p secret date ∧
        p.credential.accessKey = ak ∧ p.credential.region = region ∧ p.credential.service = service ∧
        SigV4Spec.inWindow nowNs date p.expires ∧
        p.signature = SigV4Spec.signature sha256hex hmac secret p.amzDate.fmtIso8601
          ⟨p.credential.date, region, service⟩
          (SigV4Spec.presignedRequest c.method c.path c.qs (effectiveRaw c.http2 c.authority raw) p.signedHeaders) := by
  rw [presigned_accept_iff]
  constructor
  · rintro ⟨p, secret, date, hc, h1, h2, h3, hwin, hsig⟩
    have hw := wfPresigned_of_checks hraw hwf hc
    refine ⟨p, secret, date, hc, h1, h2, h3, hwin, ?_⟩
    rw [← hsig, presignedSignature_eq_spec sha256hex hmac c raw p secret hraw hw, hc.scopeDate, h2, h3]
  · rintro ⟨p, secret, date, hc, h1, h2, h3, hwin, hsig⟩
    have hw := wfPresigned_of_checks hraw hwf hc
    refine ⟨p, secret, date, hc, h1, h2, h3, hwin, ?_⟩
    rw [hsig, presignedSignature_eq_spec sha256hex hmac c raw p secret hraw hw, hc.scopeDate, h2, h3]

/-! ## POST policy signature -/

/-- the five form fields `PostSignatureInfo::extract` reads and what they parse to -/
structure PostChecks (look : Bytes → Option Bytes) (fields : List (Bytes × Bytes)) (policy sig : Bytes)
    (c : Credential) (d : AmzDate) (secret : Bytes) : Prop where
  hasPolicy : findFieldValue fields b!"policy" = some policy
  isB64 : isBase64 policy = true
  hasAlgorithm : findFieldValue fields b!"x-amz-algorithm" = some b!"AWS4-HMAC-SHA256"
  hasCredential : ∃ cv, findFieldValue fields b!"x-amz-credential" = some cv ∧ parseCredential cv = some c
  hasDate : ∃ dv, findFieldValue fields b!"x-amz-date" = some dv ∧ parseAmzDate dv = some d
  hasSignature : findFieldValue fields b!"x-amz-signature" = some sig
  /-- the credential scope names the day of `x-amz-date` (4011296) -/
  scopeDate : c.date = d.fmtDate
  knownKey : look c.accessKey = some secret

theorem post_accept_iff (hmac : Bytes → Bytes → Bytes) (look : Bytes → Option Bytes)
    (fields : List (Bytes × Bytes)) (ak region service : Bytes) :
    v4CheckPostSignature hmac (some look) fields = .accept ak region service ↔
      ∃ policy sig c d secret, PostChecks look fields policy sig c d secret ∧
        c.accessKey = ak ∧ c.region = region ∧ c.service = service ∧
        sig = SigV4Spec.postSignature hmac secret ⟨d.fmtDate, region, service⟩ policy := by
  constructor
  · intro h
    unfold v4CheckPostSignature at h
    simp only [] at h
    split at h
    · rename_i policy alg cred date sig hpol halg hcred hdate hsig
      split at h
      · contradiction
      · rename_i hb64
        split at h
        · contradiction
        · rename_i halg2
          split at h
          · contradiction
          · rename_i c hc
            split at h
            · contradiction
            · rename_i d hd
              split at h
              · contradiction
              · rename_i hscope
                split at h
                · contradiction
                · rename_i secret hkey
                  split at h
                  · contradiction
                  · rename_i hcmp
                    injection h with h1 h2 h3
                    have halg3 : alg = b!"AWS4-HMAC-SHA256" := by simpa using halg2
                    refine ⟨policy, sig, c, d, secret, ⟨hpol, by simpa using hb64, by rw [halg, halg3], ⟨cred, hcred, hc⟩,
                      ⟨date, hdate, hd⟩, hsig, by simpa using hscope, hkey⟩, h1, h2, h3, ?_⟩
                    have : calculateSignature hmac policy secret d c.region c.service = sig := by simpa using hcmp
                    rw [← this, calculateSignature_eq, h2, h3]
                    rfl
    · contradiction
  · rintro ⟨policy, sig, c, d, secret, ⟨hpol, hb64, halg, ⟨cred, hcred, hc⟩, ⟨date, hdate, hd⟩, hsig, hscope, hkey⟩,
      h1, h2, h3, hs⟩
    unfold v4CheckPostSignature
    simp only [hpol, halg, hcred, hdate, hsig, hb64, Bool.not_true, Bool.false_eq_true, if_false, ne_eq,
      not_true_eq_false, hc, hd, hscope, hkey]
    have : calculateSignature hmac policy secret d c.region c.service = sig := by
      rw [hs, calculateSignature_eq, h2, h3]; rfl
    rw [← h2, ← h3, ← h1]
    simp [this, hb64]

end S3V.SigV4
