import S3V.Model.Prepare
import S3V.Thm.SigV2Order
import S3V.Thm.SigV4Order
import S3V.Thm.RouteCompose
/-!
# Lemmas for the model of the middle of `ops::prepare`

* look-ups on the sorted query vector (`OrderedQs::has`, `get_unique`) computed from the *unsorted* decoded
  pairs — the SigV4 model's `getUnique` / `sortByFirst` are the SigV2 model's (the two files repeat the
  definitions), so the characterisation proved for C11 (`SigV2.getUnique_sortByFirst`) carries over;
* hence the router's view of the query depends on the multiset of decoded pairs only;
* case lemmas for `prepare`.
-/
namespace S3V.Prepare
open S3V S3V.Gen S3V.Route S3V.Path S3V.PostPolicyModel

/-! ## the two copies of the sorted-vector helpers coincide -/

theorem bLt_eq (a b : Bytes) : SigV4.bLt a b = SigV2.bLt a b := by
  induction a generalizing b with
  | nil => cases b <;> rfl
  | cons x xs ih =>
    cases b with
    | nil => rfl
    | cons y ys => simp only [SigV4.bLt, SigV2.bLt, ih]

theorem insertByFirst_eq (x : Bytes × Bytes) (l : List (Bytes × Bytes)) :
    SigV4.insertByFirst x l = SigV2.insertByFirst x l := by
  induction l with
  | nil => rfl
  | cons y ys ih => simp only [SigV4.insertByFirst, SigV2.insertByFirst, bLt_eq, ih]

theorem sortByFirst_eq (l : List (Bytes × Bytes)) : SigV4.sortByFirst l = SigV2.sortByFirst l := by
  induction l with
  | nil => rfl
  | cons x xs ih => simp only [SigV4.sortByFirst, SigV2.sortByFirst, ih, insertByFirst_eq]

theorem getUnique_eq (l : List (Bytes × Bytes)) (n : Bytes) : SigV4.getUnique l n = SigV2.getUnique l n := by
  have hf : (fun x : Bytes × Bytes => SigV4.bLt x.1 n) = (fun x => SigV2.bLt x.1 n) := by
    funext x; exact bLt_eq _ _
  unfold SigV4.getUnique SigV2.getUnique SigV2.lowerBound
  rw [hf]
  cases List.dropWhile (fun x : Bytes × Bytes => SigV2.bLt x.1 n) l with
  | nil => rfl
  | cons p rest => cases rest <;> rfl

/-- `get_unique` on the sorted vector: the value called `n` when exactly one decoded pair carries that name -/
theorem getUnique_sorted (l : List (Bytes × Bytes)) (n : Bytes) :
    SigV4.getUnique (SigV4.sortByFirst l) n = SigV2.theOnly ((l.filter fun p => p.1 = n).map (·.2)) := by
  rw [getUnique_eq, sortByFirst_eq, SigV2.getUnique_sortByFirst]

/-- `has` on the sorted vector: some decoded pair carries the name -/
theorem qsHas_sorted (l : List (Bytes × Bytes)) (n : Bytes) :
    SigV4.qsHas (SigV4.sortByFirst l) n = l.any fun p => p.1 = n := by
  unfold SigV4.qsHas
  rw [Bool.eq_iff_iff]
  simp only [List.any_eq_true, decide_eq_true_eq]
  constructor
  · rintro ⟨x, hx, e⟩; exact ⟨x, SigV4.mem_sortByFirst.mp hx, e⟩
  · rintro ⟨x, hx, e⟩; exact ⟨x, SigV4.mem_sortByFirst.mpr hx, e⟩

theorem theOnly_perm {l₁ l₂ : List Bytes} (h : l₁.Perm l₂) : SigV2.theOnly l₁ = SigV2.theOnly l₂ := by
  have hlen := h.length_eq
  match l₁, l₂, h, hlen with
  | [], [], _, _ => rfl
  | [a], [b], h, _ =>
    have : a = b := by simpa using h
    rw [this]
  | _ :: _ :: _, _ :: _ :: _, _, _ => rfl
  | [], _ :: _, _, hl => simp at hl
  | _ :: _, [], _, hl => simp at hl
  | [_], _ :: _ :: _, _, hl => simp at hl
  | _ :: _ :: _, [_], _, hl => simp at hl

/-- both look-ups depend on the multiset of decoded pairs only -/
theorem lookups_perm {l₁ l₂ : List (Bytes × Bytes)} (h : l₁.Perm l₂) (n : Bytes) :
    SigV4.qsHas (SigV4.sortByFirst l₁) n = SigV4.qsHas (SigV4.sortByFirst l₂) n ∧
    SigV4.getUnique (SigV4.sortByFirst l₁) n = SigV4.getUnique (SigV4.sortByFirst l₂) n := by
  constructor
  · rw [qsHas_sorted, qsHas_sorted, Bool.eq_iff_iff]
    simp only [List.any_eq_true, decide_eq_true_eq]
    constructor
    · rintro ⟨x, hx, e⟩; exact ⟨x, h.mem_iff.mp hx, e⟩
    · rintro ⟨x, hx, e⟩; exact ⟨x, h.mem_iff.mpr hx, e⟩
  · rw [getUnique_sorted, getUnique_sorted]
    exact theOnly_perm ((h.filter _).map _)

theorem presOf_perm {l₁ l₂ : List (Bytes × Bytes)} (h : l₁.Perm l₂) (n : Bytes) :
    presOf (some (SigV4.sortByFirst l₁)) n = presOf (some (SigV4.sortByFirst l₂)) n := by
  obtain ⟨h1, h2⟩ := lookups_perm h n
  simp only [presOf, h1, h2]

/-- `presOf` in terms of the decoded pairs: how many carry the name, and the value if exactly one does -/
theorem presOf_sorted (l : List (Bytes × Bytes)) (n : Bytes) :
    presOf (some (SigV4.sortByFirst l)) n =
      match (l.filter fun p => p.1 = n).map (·.2) with
      | [] => .absent
      | [v] => .once (valOf v)
      | _ => .many := by
  simp only [presOf, qsHas_sorted, getUnique_sorted]
  cases hf : (l.filter fun p => p.1 = n) with
  | nil =>
    have : (l.any fun p => decide (p.1 = n)) = false := by
      rw [List.any_eq_false]
      intro x hx hp
      have : x ∈ l.filter fun p => p.1 = n := List.mem_filter.mpr ⟨hx, hp⟩
      rw [hf] at this; cases this
    simp [this]
  | cons a rest =>
    have ha : a ∈ l.filter fun p => p.1 = n := by rw [hf]; simp
    have hany : (l.any fun p => decide (p.1 = n)) = true := by
      rw [List.any_eq_true]
      exact ⟨a, (List.mem_filter.mp ha).1, (List.mem_filter.mp ha).2⟩
    cases rest with
    | nil => simp [hany, SigV2.theOnly]
    | cons b rest' => simp [hany, SigV2.theOnly]

/-! ## the hand-over to the router is the one of `S3V.RouteCompose` -/

theorem pathKind_eq (p : S3Path) : pathKind p = RouteCompose.pathKind p := by
  cases p <;> rfl

theorem routerReq_eq_view (method : Meth) (path : S3Path) (qs : Option (List (Bytes × Bytes))) (h : HKey → Bool) :
    routerReq method path qs h = RouteCompose.view ⟨method, queryView qs, h⟩ path := by
  simp only [routerReq, RouteCompose.view, pathKind_eq]

/-! ## `fmt_content_length` -/

theorem fmtContentLength_eq (n : Nat) : fmtContentLength n = fmtDec n := by
  unfold fmtContentLength
  split
  · rfl
  · have : n = 0 := by omega
    subst this
    rw [fmtDec]; rfl

/-! ## case lemmas for `prepare` -/

section cases
variable {I E : Type} (ctx : Ctx I E) (path : S3Path) (r : Request I E)

/-- whether the configured custom route claims the request, shown the rewritten Content-Length header -/
def routeClaims (s : SigResult I) : Bool :=
  match ctx.route with
  | some isMatch =>
    isMatch (rewrite r.clHeader r.contentLength r.decodedContentLength (s.transformedBody || s.multipart.isSome)).1
  | none => false

theorem prepare_sig_error {e : E} (h : r.sig = .error e) :
    prepare ctx path r = ⟨.error (.sig e), r.clHeader, r.contentLength⟩ := by
  simp only [prepare, h]

theorem prepare_fields {s : SigResult I} (h : r.sig = .ok s) :
    (prepare ctx path r).clHeader =
      (rewrite r.clHeader r.contentLength r.decodedContentLength (s.transformedBody || s.multipart.isSome)).1 ∧
    (prepare ctx path r).contentLength =
      (rewrite r.clHeader r.contentLength r.decodedContentLength (s.transformedBody || s.multipart.isSome)).2 := by
  simp only [prepare, h, and_self]

theorem prepare_routed {s : SigResult I} (h : r.sig = .ok s) (hr : routeClaims ctx r s = true) :
    (prepare ctx path r).outcome = .customRoute := by
  unfold routeClaims at hr
  simp only [prepare, h]
  cases hc : ctx.route with
  | none => rw [hc] at hr; cases hr
  | some m => rw [hc] at hr; simp only [hr, if_true]

theorem prepare_not_routed {s : SigResult I} (h : r.sig = .ok s) (hr : routeClaims ctx r s = false) :
    (prepare ctx path r).outcome =
      match resolveOp r.method path (extractQs r.rawQuery) r.h s.multipart with
      | .error c => .error (.code c)
      | .ok (op, full) =>
        afterResolve ctx s.credentials path (extractQs r.rawQuery)
          (rewrite r.clHeader r.contentLength r.decodedContentLength (s.transformedBody || s.multipart.isSome)).2
          r.body op full := by
  unfold routeClaims at hr
  simp only [prepare, h]
  rw [if_neg (fun hpos => Bool.noConfusion (hpos.symm.trans hr))]
  cases resolveOp r.method path (extractQs r.rawQuery) r.h s.multipart with
  | error c => rfl
  | ok p => cases p; rfl

end cases

/-- `afterResolve` never changes the operation or the flag -/
theorem afterResolve_s3 {I E : Type} {ctx : Ctx I E} {cred : Option I} {path : S3Path}
    {qs : Option (List (Bytes × Bytes))} {cl : Option Nat} {body : BodyObs} {op op' : Op} {full full' : Bool}
    (h : afterResolve ctx cred path qs cl body op full = .s3 op' full') : op' = op ∧ full' = full := by
  unfold afterResolve at h
  split at h
  · cases h
  · split at h
    · cases h
    · split at h
      · split at h
        · cases h
        · injection h with h1 h2; exact ⟨h1.symm, h2.symm⟩
      · injection h with h1 h2; exact ⟨h1.symm, h2.symm⟩

/-- `afterResolve` lets the operation through exactly when the three gates pass -/
theorem afterResolve_eq_s3_iff {I E : Type} {ctx : Ctx I E} {cred : Option I} {path : S3Path}
    {qs : Option (List (Bytes × Bytes))} {cl : Option Nat} {body : BodyObs} {op : Op} {full : Bool} :
    afterResolve ctx cred path qs cl body op full = .s3 op full ↔
      eventsHack op qs = false ∧ accessCheck ctx cred path op = .ok () ∧
      (full = true → extractFullBody cl body = .ok ()) := by
  unfold afterResolve
  cases he : eventsHack op qs with
  | true => simp
  | false =>
    simp only [Bool.false_eq_true, if_false, true_and]
    cases ha : accessCheck ctx cred path op with
    | error e => simp
    | ok u =>
      cases u
      cases full with
      | false => simp
      | true =>
        simp only [if_true, true_and, forall_const]
        cases hb : extractFullBody cl body with
        | error c => simp
        | ok u => cases u; simp

end S3V.Prepare
