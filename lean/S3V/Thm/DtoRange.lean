import S3V.Model.DtoRange
import S3V.Spec.Dto
namespace S3V.Dto
open S3V.DtoSpec

def chk (v : Nat) : Option Nat := if v ≤ u64Max then some v else none

theorem atoiLoop_none (s : Bytes) (i : Nat) :
    atoiLoop s none i = (none, i + (s.takeWhile isDigit).length) := by
  induction s generalizing i with
  | nil => simp [atoiLoop]
  | cons c cs ih =>
    simp only [atoiLoop, List.takeWhile_cons]
    split
    · simp [ih]; omega
    · simp

theorem digitsVal_span (s : Bytes) (a : Nat) :
    ∃ v, digitsVal (s.takeWhile isDigit) a = some v ∧ a ≤ v := by
  induction s generalizing a with
  | nil => exact ⟨a, by simp [digitsVal], Nat.le_refl _⟩
  | cons c cs ih =>
    simp only [List.takeWhile_cons]
    split
    · rename_i h
      obtain ⟨v, hv, hle⟩ := ih (a * 10 + (c.toNat - 48))
      exact ⟨v, by simp [digitsVal, h, hv], by omega⟩
    · exact ⟨a, by simp [digitsVal], Nat.le_refl _⟩

theorem atoiLoop_some (s : Bytes) (a i : Nat) (ha : a ≤ u64Max) :
    ∃ v, digitsVal (s.takeWhile isDigit) a = some v ∧
      atoiLoop s (some a) i = (chk v, i + (s.takeWhile isDigit).length) := by
  induction s generalizing a i with
  | nil => exact ⟨a, by simp [digitsVal], by simp [atoiLoop, chk, ha]⟩
  | cons c cs ih =>
    simp only [List.takeWhile_cons, atoiLoop]
    split
    · rename_i h
      by_cases hov : a * 10 + (c.toNat - 48) ≤ u64Max
      · obtain ⟨v, hv, hl⟩ := ih (a * 10 + (c.toNat - 48)) (i + 1) hov
        refine ⟨v, by simp [digitsVal, h, hv], ?_⟩
        have h1 : a * 10 ≤ u64Max := by omega
        simp only [Option.bind_some, checkedMul10, checkedAdd, h1, hov, if_true, hl, List.length_cons]
        congr 1; omega
      · obtain ⟨v, hv, hle⟩ := digitsVal_span cs (a * 10 + (c.toNat - 48))
        refine ⟨v, by simp [digitsVal, h, hv], ?_⟩
        have hn : ((some a).bind checkedMul10).bind (checkedAdd · (c.toNat - 48)) = none := by
          simp only [Option.bind_some, checkedMul10]
          split
          · simp [checkedAdd, hov]
          · simp
        rw [hn, atoiLoop_none]
        have : ¬ v ≤ u64Max := by omega
        simp only [chk, this, if_false, List.length_cons]
        congr 1; omega
    · exact ⟨a, by simp [digitsVal], by simp [chk, ha]⟩

theorem digitsVal_all {s : Bytes} {a v : Nat} (h : digitsVal s a = some v) : ∀ c ∈ s, isDigit c = true := by
  induction s generalizing a with
  | nil => simp
  | cons c cs ih =>
    simp only [digitsVal] at h
    split at h
    · rename_i hc
      intro x hx
      rcases List.mem_cons.mp hx with rfl | hx
      · exact hc
      · exact ih h x hx
    · cases h

theorem takeWhile_all {s : Bytes} (h : ∀ c ∈ s, isDigit c = true) : s.takeWhile isDigit = s := by
  induction s with
  | nil => rfl
  | cons c cs ih =>
    simp only [List.takeWhile_cons, h c (List.mem_cons_self ..), if_true]
    rw [ih (fun x hx => h x (List.mem_cons_of_mem _ hx))]

theorem fromRadix10Checked_eq (s : Bytes) :
    ∃ v, digitsVal (s.takeWhile isDigit) 0 = some v ∧
      fromRadix10Checked s = (chk v, (s.takeWhile isDigit).length) := by
  obtain ⟨v, hv, hl⟩ := atoiLoop_some s 0 0 (by decide)
  exact ⟨v, hv, by simpa [fromRadix10Checked] using hl⟩

theorem chk_eq_some {v x : Nat} : chk v = some x ↔ v = x ∧ x ≤ u64Max := by
  unfold chk; split
  · constructor
    · intro h; cases h; exact ⟨rfl, by assumption⟩
    · rintro ⟨rfl, _⟩; rfl
  · constructor
    · intro h; cases h
    · rintro ⟨rfl, h⟩; contradiction

/-- `parse_u64_full` accepts exactly `1*DIGIT` with a value that fits `u64` -/
theorem parseU64Full_iff (s : Bytes) (x : Nat) :
    parseU64Full s = some x ↔ Digits s x ∧ x ≤ u64Max := by
  obtain ⟨v, hv, hl⟩ := fromRadix10Checked_eq s
  unfold parseU64Full
  rw [hl]
  constructor
  · intro h
    cases hc : chk v with
    | none => simp [hc] at h
    | some y =>
      simp only [hc] at h
      split at h
      · rename_i hcond
        cases h
        obtain ⟨rfl, hy⟩ := chk_eq_some.mp hc
        simp only [Bool.and_eq_true, decide_eq_true_eq, beq_iff_eq] at hcond
        have heq : s.takeWhile isDigit = s := (List.takeWhile_prefix _).eq_of_length hcond.2
        rw [heq] at hv
        refine ⟨⟨?_, hv⟩, hy⟩
        intro hs; subst hs; simp at hcond
      · cases h
  · rintro ⟨⟨hne, hd⟩, hx⟩
    have heq : s.takeWhile isDigit = s := takeWhile_all (digitsVal_all hd)
    rw [heq] at hv ⊢
    rw [hd] at hv; cases hv
    have : chk x = some x := chk_eq_some.mpr ⟨rfl, hx⟩
    have hpos : s.length > 0 := List.length_pos_iff.mpr hne
    simp [this, hpos]

/-- `parse_u64_once` takes the longest digit prefix (non-empty, value fits `u64`) -/
theorem parseU64Once_iff (s : Bytes) (x : Nat) (rest : Bytes) :
    parseU64Once s = some (x, rest) ↔
      Digits (s.takeWhile isDigit) x ∧ x ≤ u64Max ∧ rest = s.dropWhile isDigit := by
  obtain ⟨v, hv, hl⟩ := fromRadix10Checked_eq s
  have hdrop : s.drop (s.takeWhile isDigit).length = s.dropWhile isDigit := by
    have h := List.takeWhile_append_dropWhile (p := isDigit) (l := s)
    calc s.drop (s.takeWhile isDigit).length
        = (s.takeWhile isDigit ++ s.dropWhile isDigit).drop (s.takeWhile isDigit).length := by rw [h]
      _ = s.dropWhile isDigit := List.drop_left
  unfold parseU64Once
  rw [hl]
  constructor
  · intro h
    cases hc : chk v with
    | none => simp [hc] at h
    | some y =>
      simp only [hc] at h
      split at h
      · rename_i hcond
        simp only [Option.some.injEq, Prod.mk.injEq] at h
        obtain ⟨rfl, hr⟩ := h
        obtain ⟨rfl, hy⟩ := chk_eq_some.mp hc
        refine ⟨⟨?_, hv⟩, hy, by rw [← hr, hdrop]⟩
        intro hs; rw [hs] at hcond; simp at hcond
      · cases h
  · rintro ⟨⟨hne, hd⟩, hx, rfl⟩
    rw [hd] at hv; cases hv
    have : chk x = some x := chk_eq_some.mpr ⟨rfl, hx⟩
    have hpos : (s.takeWhile isDigit).length > 0 := List.length_pos_iff.mpr hne
    simp [this, hpos, hdrop]


theorem stripPrefix_iff (p s r : Bytes) : stripPrefix p s = some r ↔ s = p ++ r := by
  induction p generalizing s with
  | nil => simp [stripPrefix, eq_comm]
  | cons a p ih =>
    cases s with
    | nil => simp [stripPrefix]
    | cons c cs =>
      simp only [stripPrefix, List.cons_append, List.cons.injEq]
      split
      · rename_i h; subst h; simp [ih]
      · rename_i h
        constructor
        · intro h'; cases h'
        · rintro ⟨rfl, _⟩; exact absurd rfl h

theorem not_isDigit_dash : isDigit 45 = false := by decide

/-- a digit string followed by `-…` splits at the dash -/
theorem span_digits_dash {ds r : Bytes} (hd : ∀ c ∈ ds, isDigit c = true) :
    (ds ++ 45 :: r).takeWhile isDigit = ds ∧ (ds ++ 45 :: r).dropWhile isDigit = 45 :: r := by
  constructor
  · rw [List.takeWhile_append_of_pos hd]; simp [not_isDigit_dash]
  · rw [List.dropWhile_append_of_pos hd]; simp [not_isDigit_dash]

def toSpec : Range → ByteRange
  | .int f l => .int f l
  | .suffix n => .suffix n

def ofSpec : ByteRange → Range
  | .int f l => .int f l
  | .suffix n => .suffix n

theorem parseInt_iff (s : Bytes) (r : Range) :
    Range.parseInt s = some r ↔
      (∃ ds f, Digits ds f ∧ f ≤ i64Max ∧ s = ds ++ [45] ∧ r = .int f none) ∨
      (∃ d1 d2 f l, Digits d1 f ∧ Digits d2 l ∧ f ≤ l ∧ l ≤ i64Max ∧ s = d1 ++ 45 :: d2 ∧
        r = .int f (some l)) := by
  constructor
  · intro h
    unfold Range.parseInt at h
    cases hp : parseU64Once s with
    | none => simp [hp] at h
    | some pr =>
      obtain ⟨first, rest⟩ := pr
      obtain ⟨hd, hmax, hrest⟩ := (parseU64Once_iff s first rest).mp hp
      have hs := List.takeWhile_append_dropWhile (p := isDigit) (l := s)
      simp only [hp] at h
      split at h
      · cases h
      · rename_i hf
        have hf' : first ≤ i64Max := by omega
        cases hr : rest with
        | nil => simp [hr] at h
        | cons c s2 =>
          have hdw : s.dropWhile isDigit = c :: s2 := by rw [← hrest, hr]
          have hs' : s = s.takeWhile isDigit ++ c :: s2 := by rw [← hdw]; exact hs.symm
          simp only [hr] at h
          split at h
          · cases h
          · rename_i hc
            have hc' : c = 45 := by simpa [dash] using hc
            subst hc'
            split at h
            · rename_i he
              have : s2 = [] := by simpa using he
              subst this
              cases h
              left
              exact ⟨s.takeWhile isDigit, first, hd, hf', hs', rfl⟩
            · cases hl : parseU64Full s2 with
              | none => simp [hl] at h
              | some last =>
                simp only [hl] at h
                obtain ⟨hd2, _⟩ := (parseU64Full_iff s2 last).mp hl
                split at h
                · cases h
                · rename_i hl1
                  split at h
                  · cases h
                  · rename_i hl2
                    cases h
                    right
                    exact ⟨s.takeWhile isDigit, s2, first, last, hd, hd2, by omega, by omega, hs', rfl⟩
  · rintro (⟨ds, f, hd, hf, rfl, rfl⟩ | ⟨d1, d2, f, l, h1, h2, hfl, hl, rfl, rfl⟩)
    · obtain ⟨htw, hdw⟩ := span_digits_dash (r := []) (digitsVal_all hd.2)
      have hp : parseU64Once (ds ++ [45]) = some (f, [45]) :=
        (parseU64Once_iff _ _ _).mpr ⟨by rw [htw]; exact hd, by unfold i64Max at hf; unfold u64Max; omega, hdw.symm⟩
      have hf' : ¬ f > i64Max := by omega
      simp [Range.parseInt, hp, hf', dash]
    · obtain ⟨htw, hdw⟩ := span_digits_dash (r := d2) (digitsVal_all h1.2)
      have hfm : f ≤ i64Max := by omega
      have hp : parseU64Once (d1 ++ 45 :: d2) = some (f, 45 :: d2) :=
        (parseU64Once_iff _ _ _).mpr ⟨by rw [htw]; exact h1, by unfold i64Max at hfm; unfold u64Max; omega, hdw.symm⟩
      have hl' : parseU64Full d2 = some l :=
        (parseU64Full_iff _ _).mpr ⟨h2, by unfold i64Max at hl; unfold u64Max; omega⟩
      have hf' : ¬ f > i64Max := by omega
      have hl2 : ¬ l > i64Max := by omega
      have hfl' : ¬ f > l := by omega
      have hne : d2 ≠ [] := h2.1
      simp [Range.parseInt, hp, hf', dash, hl', hl2, hfl', hne]


/-- what the code accepts beyond the grammar: first-pos and last-pos at most i64::MAX, suffix-length at most u64::MAX -/
def InCodeDomain : Range → Prop
  | .int f l => f ≤ i64Max ∧ ∀ l', l = some l' → l' ≤ i64Max
  | .suffix n => n ≤ u64Max

instance (r : Range) : Decidable (InCodeDomain r) :=
  match r with
  | .int f none => decidable_of_iff (f ≤ i64Max) ⟨fun h => ⟨h, by intro l' h'; cases h'⟩, fun h => h.1⟩
  | .int f (some l) => decidable_of_iff (f ≤ i64Max ∧ l ≤ i64Max)
      ⟨fun h => ⟨h.1, by intro l' h'; cases h'; exact h.2⟩, fun h => ⟨h.1, h.2 l rfl⟩⟩
  | .suffix n => inferInstanceAs (Decidable (n ≤ u64Max))

theorem bytesEq_eq : bytesEq = bytesUnit := rfl

theorem parse_iff (h : Bytes) (r : Range) :
    Range.parse h = some r ↔ RangeHeader h (toSpec r) ∧ InCodeDomain r := by
  constructor
  · intro hp
    unfold Range.parse at hp
    cases hsp : stripPrefix bytesEq h with
    | none => simp [hsp] at hp
    | some s =>
      have hh : h = bytesUnit ++ s := (stripPrefix_iff _ _ _).mp hsp
      simp only [hsp] at hp
      have hint : Range.parseInt s = some r → RangeHeader h (toSpec r) ∧ InCodeDomain r := by
        intro hpi
        rcases (parseInt_iff s r).mp hpi with ⟨ds, f, hd, hf, rfl, rfl⟩ | ⟨d1, d2, f, l, h1, h2, hfl, hl, rfl, rfl⟩
        · subst hh
          exact ⟨.openEnded hd, hf, by intro l' h; cases h⟩
        · subst hh
          exact ⟨.closed h1 h2 hfl, by omega, by intro l' h; cases h; exact hl⟩
      cases s with
      | nil => exact hint hp
      | cons c s' =>
        simp only at hp
        split at hp
        · rename_i hc
          have hc' : c = 45 := by simpa [dash] using hc
          subst hc'
          cases hf : parseU64Full s' with
          | none => simp [hf] at hp
          | some n =>
            simp only [hf, Option.some.injEq] at hp
            subst hp
            obtain ⟨hd, hn⟩ := (parseU64Full_iff s' n).mp hf
            subst hh
            exact ⟨.suffix hd, hn⟩
        · exact hint hp
  · rintro ⟨hH, hD⟩
    cases r with
    | suffix n =>
      cases hH with
      | suffix hd =>
        rename_i ds
        have hsp : stripPrefix bytesEq (bytesUnit ++ 45 :: ds) = some (45 :: ds) := (stripPrefix_iff _ _ _).mpr rfl
        have hf : parseU64Full ds = some n := (parseU64Full_iff _ _).mpr ⟨hd, hD⟩
        simp [Range.parse, hsp, dash, hf]
    | int f l =>
      have hgo : ∀ s, (∃ c s', s = c :: s' ∧ isDigit c = true) → Range.parseInt s = some (.int f l) →
          Range.parse (bytesUnit ++ s) = some (.int f l) := by
        rintro s ⟨c, s', rfl, hc⟩ hpi
        have hsp : stripPrefix bytesEq (bytesUnit ++ c :: s') = some (c :: s') := (stripPrefix_iff _ _ _).mpr rfl
        have hcd : c ≠ dash := by
          intro h; subst h; simp [dash, not_isDigit_dash] at hc
        simp [Range.parse, hsp, hcd, hpi]
      cases hH with
      | openEnded hd =>
        rename_i ds
        apply hgo
        · obtain ⟨hne, hv⟩ := hd
          cases ds with
          | nil => exact absurd rfl hne
          | cons c ds' => exact ⟨c, ds' ++ [45], rfl, digitsVal_all hv c (List.mem_cons_self ..)⟩
        · exact (parseInt_iff _ _).mpr (Or.inl ⟨ds, f, hd, hD.1, rfl, rfl⟩)
      | closed h1 h2 hfl =>
        rename_i d1 d2 l
        apply hgo
        · obtain ⟨hne, hv⟩ := h1
          cases d1 with
          | nil => exact absurd rfl hne
          | cons c ds' => exact ⟨c, ds' ++ 45 :: d2, rfl, digitsVal_all hv c (List.mem_cons_self ..)⟩
        · exact (parseInt_iff _ _).mpr (Or.inr ⟨d1, d2, f, l, h1, h2, hfl, hD.2 l rfl, rfl, rfl⟩)

theorem digits_fmtDec (n : Nat) : Digits (fmtDec n) n := ⟨fmtDec_ne_nil n, digitsVal_fmtDec_zero n⟩

theorem header_of_format (r : Range) (hv : ∀ f l, r = .int f (some l) → f ≤ l) :
    RangeHeader r.toHeaderString (toSpec r) := by
  cases r with
  | suffix n =>
    have : (Range.suffix n).toHeaderString = bytesUnit ++ 45 :: fmtDec n := by
      simp [Range.toHeaderString, bytesEq_eq, dash]
    rw [this]; exact .suffix (digits_fmtDec n)
  | int f l =>
    cases l with
    | none =>
      have : (Range.int f none).toHeaderString = bytesUnit ++ (fmtDec f ++ [45]) := by
        simp [Range.toHeaderString, bytesEq_eq, dash]
      rw [this]; exact .openEnded (digits_fmtDec f)
    | some l =>
      have : (Range.int f (some l)).toHeaderString = bytesUnit ++ (fmtDec f ++ 45 :: fmtDec l) := by
        simp [Range.toHeaderString, bytesEq_eq, dash]
      rw [this]; exact .closed (digits_fmtDec f) (digits_fmtDec l) (hv f l rfl)

theorem check_eq_rfc (r : Range) (len : Nat) (hlen : len ≤ u64Max)
    (hr : match r with | .int f l => f ≤ u64Max ∧ ∀ l', l = some l' → l' ≤ u64Max | .suffix n => n ≤ u64Max) :
    r.check len = rfcInterval (toSpec r) len := by
  unfold u64Max at *
  cases r with
  | suffix n =>
    simp only [Range.check, rfcInterval, toSpec]
    by_cases hn : n = 0
    · simp [hn]
    · have hw : wsub len (min n len) = len - min n len := by unfold wsub; omega
      simp only [hn, if_false, hw, Option.some.injEq, Prod.mk.injEq, and_true]
      split <;> omega
  | int f l =>
    cases l with
    | none =>
      simp only [Range.check, rfcInterval, toSpec]
      by_cases h : f ≥ len
      · have : ¬ f < len := by omega
        simp [h, this]
      · have : f < len := by omega
        simp [h, this]
    | some l =>
      have hl := hr.2 l rfl
      simp only [Range.check, rfcInterval, toSpec]
      by_cases h : f ≥ len
      · have h' : ¬ f < len := by omega
        simp only [h, h', if_true, if_false]
        split <;> rfl
      · have h' : f < len := by omega
        have hw : wsub len 1 = len - 1 := by unfold wsub; omega
        have hwa : wadd (min l (len - 1)) 1 = min l (len - 1) + 1 := by unfold wadd; omega
        simp only [h, h', if_true, if_false, hw, hwa]
        by_cases hlf : l < f
        · have : f > min l (len - 1) := by omega
          simp only [hlf, this, if_true]
        · have : ¬ f > min l (len - 1) := by omega
          simp only [hlf, this, if_false, Option.some.injEq, Prod.mk.injEq, true_and]
          split <;> omega



theorem digitsOpt_iff (ds : Bytes) (v : Nat) : digitsOpt ds = some v ↔ Digits ds v := by
  unfold digitsOpt Digits
  by_cases h : ds = []
  · simp [h]
  · simp [h]

theorem ne_dash_of_digit {c : UInt8} (h : isDigit c = true) : notDash c = true := by
  unfold notDash
  simp only [Bool.not_eq_true', beq_eq_false_iff_ne, ne_eq]
  rintro rfl
  simp [not_isDigit_dash] at h

theorem span_nedash {ds r : Bytes} (hd : ∀ c ∈ ds, isDigit c = true) :
    (ds ++ 45 :: r).takeWhile notDash = ds := by
  rw [List.takeWhile_append_of_pos (fun c hc => ne_dash_of_digit (hd c hc))]
  have : notDash 45 = false := by decide
  simp [this]

theorem readRange_of_header {h : Bytes} {v : ByteRange} (hH : RangeHeader h v) : readRange h = some v := by
  have htake : ∀ s : Bytes, (bytesUnit ++ s).take 6 = bytesUnit := by intro s; rfl
  have hdrop : ∀ s : Bytes, (bytesUnit ++ s).drop 6 = s := by intro s; rfl
  cases hH with
  | suffix hd =>
    rename_i ds n
    have h45 : notDash 45 = false := by decide
    simp only [readRange, htake, hdrop, ne_eq, not_true_eq_false, if_false]
    simp [h45, (digitsOpt_iff ds n).mpr hd]
  | openEnded hd =>
    rename_i ds f
    have hall := digitsVal_all hd.2
    have hne : ds ≠ [] := hd.1
    have hsp : (ds ++ [45]).takeWhile notDash = ds := span_nedash (r := []) hall
    simp only [readRange, htake, hdrop, ne_eq, not_true_eq_false, if_false, hsp]
    simp [hne, (digitsOpt_iff ds f).mpr hd]
  | closed h1 h2 hfl =>
    rename_i d1 d2 f l
    have hall := digitsVal_all h1.2
    have hne : d1 ≠ [] := h1.1
    have hne2 : d2 ≠ [] := h2.1
    have hsp : (d1 ++ 45 :: d2).takeWhile notDash = d1 := span_nedash hall
    simp only [readRange, htake, hdrop, ne_eq, not_true_eq_false, if_false, hsp]
    simp [hne, hne2, (digitsOpt_iff d1 f).mpr h1, (digitsOpt_iff d2 l).mpr h2, hfl]

theorem take6_eq {h : Bytes} (ht : h.take 6 = bytesUnit) : h = bytesUnit ++ h.drop 6 := by
  conv => lhs; rw [← List.take_append_drop 6 h]
  rw [ht]

theorem header_of_readRange {h : Bytes} {v : ByteRange} (hr : readRange h = some v) : RangeHeader h v := by
  unfold readRange at hr
  split at hr
  · cases hr
  · rename_i ht
    have ht' : h.take 6 = bytesUnit := by simpa using ht
    have hh := take6_eq ht'
    generalize h.drop 6 = s at hr hh
    subst hh
    have hs := List.takeWhile_append_dropWhile (p := notDash) (l := s)
    have hdrop : s.drop (s.takeWhile notDash).length = s.dropWhile notDash := by
      calc s.drop (s.takeWhile notDash).length
          = (s.takeWhile notDash ++ s.dropWhile notDash).drop (s.takeWhile notDash).length := by rw [hs]
        _ = s.dropWhile notDash := List.drop_left
    simp only [hdrop] at hr
    cases hdw : s.dropWhile notDash with
    | nil => simp [hdw] at hr
    | cons c b =>
      have hc : c = 45 := by
        have := List.head_dropWhile_not notDash (l := s) (by rw [hdw]; simp)
        simpa [hdw, notDash] using this
      subst hc
      have hs' : s = s.takeWhile notDash ++ 45 :: b := by rw [← hdw]; exact hs.symm
      simp only [hdw] at hr
      split at hr
      · rename_i ha
        simp only [Option.map_eq_some_iff] at hr
        obtain ⟨n, hn, rfl⟩ := hr
        rw [hs', ha, List.nil_append]
        exact .suffix ((digitsOpt_iff _ _).mp hn)
      · cases hda : digitsOpt (s.takeWhile notDash) with
        | none => simp [hda] at hr
        | some f =>
          simp only [hda] at hr
          split at hr
          · rename_i hb
            cases hr
            rw [hs', hb]
            exact .openEnded ((digitsOpt_iff _ _).mp hda)
          · cases hdb : digitsOpt b with
            | none => simp [hdb] at hr
            | some l =>
              simp only [hdb] at hr
              split at hr
              · rename_i hfl
                cases hr
                rw [hs']
                exact .closed ((digitsOpt_iff _ _).mp hda) ((digitsOpt_iff _ _).mp hdb) hfl
              · cases hr

/-- the executable reader the driver judges with is the grammar -/
theorem readRange_iff (h : Bytes) (v : ByteRange) : readRange h = some v ↔ RangeHeader h v :=
  ⟨header_of_readRange, readRange_of_header⟩

theorem rangeHeader_functional {h : Bytes} {a b : ByteRange} (ha : RangeHeader h a) (hb : RangeHeader h b) :
    a = b := by
  have h1 := readRange_of_header ha
  have h2 := readRange_of_header hb
  rw [h1] at h2; exact Option.some.inj h2


end S3V.Dto
