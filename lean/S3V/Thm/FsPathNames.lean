import S3V.Thm.FsPath
import S3V.Spec.FsPathOwn
/-!
# Lemmas: the bookkeeping names are single good components starting with `.` (C17)
-/
namespace S3V.FsPath

theorem noSlash_natDigits (n : Nat) : (47 : UInt8) ∉ natDigits n := by
  intro h
  have := S3V.fmtDec_all_digits n 47 h
  simp [S3V.isDigit] at this

theorem noSlash_intText (i : Int) : (47 : UInt8) ∉ intText i := by
  unfold intText
  split
  · intro h
    rcases List.mem_cons.mp h with h | h
    · cases h
    · exact noSlash_natDigits _ h
  · exact noSlash_natDigits _

theorem hexNibble_ne_slash {c x : UInt8} (h : hexNibble c = some x) : x ≠ 47 := by
  unfold hexNibble at h
  split at h
  · rename_i hc
    cases h
    intro e; subst e; exact absurd hc.1 (by decide)
  · split at h
    · rename_i hc
      cases h
      intro e; subst e; exact absurd hc.1 (by decide)
    · split at h
      · rename_i hc
        cases h
        intro e
        have h1 := UInt8.le_iff_toNat_le.mp hc.1
        have h2 := UInt8.le_iff_toNat_le.mp hc.2
        have := congrArg UInt8.toNat e
        simp [UInt8.toNat_add] at this h1 h2
        omega
      · cases h

theorem mapM_hexNibble_noSlash : ∀ (l h : Bytes), l.mapM hexNibble = some h → (47 : UInt8) ∉ h := by
  intro l
  induction l with
  | nil => intro h hh; simp at hh; subst hh; simp
  | cons a r ih =>
    intro h hh
    rw [List.mapM_cons] at hh
    cases ha : hexNibble a with
    | none => simp [ha] at hh
    | some x =>
      cases hr : r.mapM hexNibble with
      | none => simp [ha, hr] at hh
      | some xs =>
        simp [ha, hr] at hh
        subst hh
        intro hm
        rcases List.mem_cons.mp hm with hm | hm
        · exact hexNibble_ne_slash ha hm.symm
        · exact ih xs hr hm

theorem uuidFromSimple_noSlash {s u : Bytes} (h : uuidFromSimple s = some u) : (47 : UInt8) ∉ u := by
  unfold uuidFromSimple at h
  split at h
  · cases h
  · split at h
    · cases h
    · rename_i hx hm
      cases h
      have hh := mapM_hexNibble_noSlash _ _ hm
      have ht : ∀ n, (47 : UInt8) ∉ hx.take n := fun n m => hh (List.mem_of_mem_take m)
      have hd : ∀ n, (47 : UInt8) ∉ hx.drop n := fun n m => hh (List.mem_of_mem_drop m)
      have htd : ∀ n k, (47 : UInt8) ∉ (hx.drop n).take k := fun n k m => hd n (List.mem_of_mem_take m)
      simp [ht, hd, htd]

theorem uuidFromHyphenated_noSlash {s u : Bytes} (h : uuidFromHyphenated s = some u) : (47 : UInt8) ∉ u := by
  unfold uuidFromHyphenated at h
  split at h
  · cases h
  · split at h
    · exact uuidFromSimple_noSlash h
    · cases h

theorem parseUuid_noSlash {s u : Bytes} (h : parseUuid s = some u) : (47 : UInt8) ∉ u := by
  unfold parseUuid at h
  split at h
  · exact uuidFromSimple_noSlash h
  · split at h
    · exact uuidFromHyphenated_noSlash h
    · split at h
      · exact uuidFromHyphenated_noSlash h
      · split at h
        · exact uuidFromHyphenated_noSlash h
        · cases h

/-- a string `.` `c` … with `c` neither `.` nor `/` and no `/` further on is one good component -/
theorem good_dot_cons {c : UInt8} {rest : Bytes} (h1 : c ≠ 46) (h2 : c ≠ 47) (h : (47 : UInt8) ∉ rest) :
    Good (46 :: c :: rest) := by
  refine ⟨by simp, ?_, ?_, ?_⟩
  · simp
  · intro e; simp at e; exact h1 e.1
  · intro m
    simp only [List.mem_cons] at m
    rcases m with m | m | m
    · cases m
    · exact h2 m.symm
    · exact h m

theorem good_metadataName {enc : Bytes → Bytes} (he : EncNoSlash enc) (b k : Bytes) {u : Option Bytes}
    (hu : ∀ x, u = some x → (47 : UInt8) ∉ x) :
    Good (metadataName enc b k u) ∧ (metadataName enc b k u).head? = some 46 := by
  have e : metadataName enc b k u = 46 :: 98 :: ([117, 99, 107, 101, 116, 45] ++ enc b ++ sObject ++ enc k ++
      (match u with | some u => sUpload ++ u | none => []) ++ sMetadataJson) := by
    cases u <;> simp [metadataName, sBucket]
  rw [e]
  refine ⟨good_dot_cons (by decide) (by decide) ?_, rfl⟩
  simp only [List.mem_append, not_or]
  refine ⟨⟨⟨⟨⟨by decide, he b⟩, by decide⟩, he k⟩, ?_⟩, by decide⟩
  cases u with
  | none => simp
  | some x =>
    simp only [List.mem_append, not_or]
    exact ⟨by decide, hu x rfl⟩

theorem good_internalInfoName {enc : Bytes → Bytes} (he : EncNoSlash enc) (b k : Bytes) :
    Good (internalInfoName enc b k) ∧ (internalInfoName enc b k).head? = some 46 := by
  have e : internalInfoName enc b k = 46 :: 98 :: ([117, 99, 107, 101, 116, 45] ++ enc b ++ sObject ++ enc k ++
      sInternalJson) := by
    simp [internalInfoName, sBucket]
  rw [e]
  refine ⟨good_dot_cons (by decide) (by decide) ?_, rfl⟩
  simp only [List.mem_append, not_or]
  exact ⟨⟨⟨⟨by decide, he b⟩, by decide⟩, he k⟩, by decide⟩

theorem good_uploadInfoName {u : Bytes} (hu : (47 : UInt8) ∉ u) :
    Good (uploadInfoName u) ∧ (uploadInfoName u).head? = some 46 := by
  have e : uploadInfoName u = 46 :: 117 :: ([112, 108, 111, 97, 100, 45] ++ u ++ sJson) := by
    simp [uploadInfoName, sUpload]
  rw [e]
  refine ⟨good_dot_cons (by decide) (by decide) ?_, rfl⟩
  simp only [List.mem_append, not_or]
  exact ⟨⟨by decide, hu⟩, by decide⟩

theorem good_uploadPartName {u : Bytes} (hu : (47 : UInt8) ∉ u) (n : Int) :
    Good (uploadPartName u n) ∧ (uploadPartName u n).head? = some 46 := by
  have e : uploadPartName u n = 46 :: 117 :: ([112, 108, 111, 97, 100, 95, 105, 100, 45] ++ u ++ sPart ++ intText n) := by
    simp [uploadPartName, uploadPartPrefix, sUploadId]
  rw [e]
  refine ⟨good_dot_cons (by decide) (by decide) ?_, rfl⟩
  simp only [List.mem_append, not_or]
  exact ⟨⟨⟨by decide, hu⟩, by decide⟩, noSlash_intText n⟩

theorem good_tmpName (c : Nat) : Good (tmpName c) ∧ (tmpName c).head? = some 46 := by
  have e : tmpName c = 46 :: 116 :: ([109, 112, 46] ++ natDigits c ++ sInternalPart) := by
    simp [tmpName, sTmp]
  rw [e]
  refine ⟨good_dot_cons (by decide) (by decide) ?_, rfl⟩
  simp only [List.mem_append, not_or]
  exact ⟨⟨by decide, noSlash_natDigits c⟩, by decide⟩

/-- `resolve_abs_path` of a good name: total, and the result is the root's child of that name -/
theorem resolve_good (e : Env) (hr : RootOk e.root) {n : Bytes} (hg : Good n) :
    ∃ p, resolveAbsPath e n = .ok p ∧ components p = components e.root ++ [.normal n] ∧ isAbsolute p = true :=
  resolve_single e hr (components_good hg)

theorem resolve_good_shape (e : Env) (hr : RootOk e.root) {n p : Bytes} (hg : Good n)
    (h : resolveAbsPath e n = .ok p) : components p = components e.root ++ [.normal n] ∧ isAbsolute p = true := by
  obtain ⟨p', hp', hc, ha⟩ := resolve_good e hr hg
  rw [h] at hp'; cases hp'
  exact ⟨hc, ha⟩

end S3V.FsPath
