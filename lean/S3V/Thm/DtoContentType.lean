import S3V.Model.DtoContentType
/-!
# Lemmas: the written text of a content type is read back as the same value

`splitOn` is characterised both ways (joining separator-free pieces / splitting a joined text), then the
`parseSubset` pipeline is followed piece by piece on the text it stores.
-/
namespace S3V.Dto.ContentType
open S3V S3V.Dto

/-! ## `splitOn` -/

theorem splitOn_cons (sep c : UInt8) (cs : Bytes) :
    splitOn sep (c :: cs) = (match splitOn sep cs with
      | [] => [[]]
      | g :: gs => if c = sep then [] :: g :: gs else (c :: g) :: gs) := rfl

theorem uint8_forall {P : UInt8 → Prop} (h : ∀ i : Fin 256, P (UInt8.ofNat i.val)) (c : UInt8) : P c := by
  have := h ⟨c.toNat, c.toNat_lt⟩
  simpa using this

theorem splitOn_ne_nil (sep : UInt8) (s : Bytes) : splitOn sep s ≠ [] := by
  cases s with
  | nil => simp [splitOn]
  | cons c cs =>
    rw [splitOn_cons]
    split
    · simp
    · split <;> simp

/-- a separator-free text is one piece -/
theorem splitOn_free (sep : UInt8) (s : Bytes) (h : ∀ x ∈ s, x ≠ sep) : splitOn sep s = [s] := by
  induction s with
  | nil => rfl
  | cons c cs ih =>
    have hc : c ≠ sep := h c (by simp)
    rw [splitOn_cons]
    rw [ih (fun x hx => h x (List.mem_cons_of_mem _ hx))]
    simp [hc]

/-- `g ++ sep :: rest` splits into `g` and the pieces of `rest` -/
theorem splitOn_append_sep (sep : UInt8) (g rest : Bytes) (h : ∀ x ∈ g, x ≠ sep) :
    splitOn sep (g ++ sep :: rest) = g :: splitOn sep rest := by
  induction g with
  | nil =>
    simp only [List.nil_append]
    rw [splitOn_cons]
    cases hr : splitOn sep rest with
    | nil => exact absurd hr (splitOn_ne_nil sep rest)
    | cons a as => simp
  | cons c cs ih =>
    have hc : c ≠ sep := h c (by simp)
    simp only [List.cons_append]
    rw [splitOn_cons]
    rw [ih (fun x hx => h x (List.mem_cons_of_mem _ hx))]
    simp [hc]

/-- joining a head and separator-prefixed pieces, all separator-free, is undone by `splitOn` -/
theorem splitOn_join (sep : UInt8) (head : Bytes) (segs : List Bytes)
    (hh : ∀ x ∈ head, x ≠ sep) (hs : ∀ g ∈ segs, ∀ x ∈ g, x ≠ sep) :
    splitOn sep (head ++ (segs.map fun g => sep :: g).flatten) = head :: segs := by
  induction segs generalizing head with
  | nil => simpa using splitOn_free sep head hh
  | cons g gs ih =>
    simp only [List.map_cons, List.flatten_cons, List.cons_append]
    rw [splitOn_append_sep sep head _ hh]
    rw [ih g (hs g (by simp)) (fun g' hg' => hs g' (List.mem_cons_of_mem _ hg'))]

/-- what `splitOn` returns: separator-free pieces whose join is the text -/
theorem splitOn_spec (sep : UInt8) (s : Bytes) :
    ∃ head segs, splitOn sep s = head :: segs ∧ s = head ++ (segs.map fun g => sep :: g).flatten ∧
      (∀ x ∈ head, x ≠ sep) ∧ (∀ g ∈ segs, ∀ x ∈ g, x ≠ sep) := by
  induction s with
  | nil => exact ⟨[], [], rfl, rfl, by simp, by simp⟩
  | cons c cs ih =>
    obtain ⟨h, sg, he, hj, hh, hs⟩ := ih
    rw [splitOn_cons]
    rw [he]
    by_cases hc : c = sep
    · subst hc
      refine ⟨[], h :: sg, by simp, ?_, by simp, ?_⟩
      · simp [hj]
      · intro g hg
        rcases List.mem_cons.1 hg with rfl | hg
        · exact hh
        · exact hs g hg
    · refine ⟨c :: h, sg, by simp [hc], by simp [hj], ?_, hs⟩
      intro x hx
      rcases List.mem_cons.1 hx with rfl | hx
      · exact hc
      · exact hh x hx

theorem mem_takeWhile_true (p : UInt8 → Bool) : ∀ (l : Bytes) (x : UInt8), x ∈ l.takeWhile p → p x = true := by
  intro l
  induction l with
  | nil => intro x hx; simp at hx
  | cons c cs ih =>
    intro x hx
    simp only [List.takeWhile_cons] at hx
    split at hx
    · rename_i hc
      rcases List.mem_cons.1 hx with rfl | hx
      · exact hc
      · exact ih x hx
    · simp at hx

/-! ## tokens -/

theorem isToken_lower (c : UInt8) (h : isToken c = true) : isToken (lower c) = true :=
  uint8_forall (P := fun c => isToken c = true → isToken (lower c) = true) (by decide +kernel) c h

theorem lower_lower (c : UInt8) : lower (lower c) = lower c :=
  uint8_forall (P := fun c => lower (lower c) = lower c) (by decide +kernel) c

theorem lowerAll_lowerAll (b : Bytes) : lowerAll (lowerAll b) = lowerAll b := by
  simp [lowerAll, List.map_map, Function.comp_def, lower_lower]

theorem isTok_lowerAll (b : Bytes) (h : isTok b = true) : isTok (lowerAll b) = true := by
  simp only [isTok, Bool.and_eq_true, Bool.not_eq_true', List.all_eq_true] at h ⊢
  refine ⟨?_, ?_⟩
  · cases b <;> simp_all [lowerAll]
  · intro x hx
    simp only [lowerAll, List.mem_map] at hx
    obtain ⟨y, hy, rfl⟩ := hx
    exact isToken_lower y (h.2 y hy)

theorem isToken_ne (c : UInt8) (h : isToken c = true) : c ≠ 59 ∧ c ≠ 47 ∧ c ≠ 61 ∧ c ≠ 32 :=
  uint8_forall (P := fun c => isToken c = true → c ≠ 59 ∧ c ≠ 47 ∧ c ≠ 61 ∧ c ≠ 32) (by decide +kernel) c h

theorem isTok_free (b : Bytes) (h : isTok b = true) (x : UInt8) (hx : x ∈ b) :
    x ≠ 59 ∧ x ≠ 47 ∧ x ≠ 61 ∧ x ≠ 32 := by
  simp only [isTok, Bool.and_eq_true, List.all_eq_true] at h
  exact isToken_ne x (h.2 x hx)

theorem isTok_ne_nil (b : Bytes) (h : isTok b = true) : b ≠ [] := by
  intro hb; subst hb; simp [isTok] at h

/-! ## one parameter -/

/-- a parameter segment the parser accepted is spaces, name, `=`, value; and the text stored for it is accepted
    again with the same result -/
theorem parseParam_text (seg : Bytes) (nv : Bytes × Bytes) (txt : Bytes) (h : parseParam seg = some (nv, txt)) :
    parseParam txt = some (nv, txt) ∧ (∀ x ∈ txt, x ≠ 59) := by
  unfold parseParam at h
  simp only at h
  split at h
  · rename_i name value hsplit
    split at h
    · rename_i htok
      simp only [Bool.and_eq_true] at htok
      simp only [Option.some.injEq, Prod.mk.injEq] at h
      obtain ⟨hnv, ht⟩ := h
      -- abbreviations
      have hnT : isTok (lowerAll name) = true := isTok_lowerAll name htok.1
      have hvT : isTok (if lowerAll name = charsetName then lowerAll value else value) = true := by
        split
        · exact isTok_lowerAll value htok.2
        · exact htok.2
      subst hnv
      generalize hsp : seg.takeWhile (· = 32) = sp at ht
      have hspAll : ∀ x ∈ sp, x = 32 := by
        intro x hx
        rw [← hsp] at hx
        simpa using (mem_takeWhile_true _ _ _ hx)
      generalize hN : lowerAll name = n at *
      generalize hV : (if n = charsetName then lowerAll value else value) = v at *
      have hVidem : (if n = charsetName then lowerAll v else v) = v := by
        subst hV
        split
        · simp [lowerAll_lowerAll]
        · rfl
      have hNidem : lowerAll n = n := by subst hN; exact lowerAll_lowerAll name
      subst ht
      refine ⟨?_, ?_⟩
      · unfold parseParam
        simp only
        -- takeWhile on the written text gives the spaces back
        have hn0 : n ≠ [] := isTok_ne_nil n hnT
        obtain ⟨n0, nr, rfl⟩ := List.exists_cons_of_ne_nil hn0
        have hn0ne : n0 ≠ 32 := (isTok_free _ hnT n0 (by simp)).2.2.2
        have htw : (sp ++ (n0 :: nr) ++ [61] ++ v).takeWhile (· = 32) = sp := by
          simp only [List.append_assoc, List.cons_append]
          rw [List.takeWhile_append_of_pos (by simpa using hspAll)]
          simp [hn0ne]
        rw [htw]
        have hdrop : (sp ++ (n0 :: nr) ++ [61] ++ v).drop sp.length = (n0 :: nr) ++ 61 :: v := by
          simp [List.append_assoc]
        rw [hdrop]
        have hsplit2 : splitOn 61 ((n0 :: nr) ++ 61 :: v) = [n0 :: nr, v] := by
          rw [splitOn_append_sep 61 _ _ (fun x hx => (isTok_free _ hnT x hx).2.2.1)]
          rw [splitOn_free 61 v (fun x hx => (isTok_free _ hvT x hx).2.2.1)]
        rw [hsplit2]
        simp only [hnT, hvT, Bool.and_self, if_true, hNidem, hVidem]
      · intro x hx
        simp only [List.append_assoc, List.mem_append, List.mem_singleton] at hx
        rcases hx with hx | hx | hx | hx
        · rw [hspAll x hx]; decide
        · exact (isTok_free _ hnT x hx).1
        · rw [hx]; decide
        · exact (isTok_free _ hvT x hx).1
    · cases h
  · cases h

theorem mapM_parseParam_text (segs : List Bytes) (ps : List ((Bytes × Bytes) × Bytes))
    (h : segs.mapM parseParam = some ps) :
    (ps.map (·.2)).mapM parseParam = some ps ∧ (∀ g ∈ ps.map (·.2), ∀ x ∈ g, x ≠ 59) := by
  induction segs generalizing ps with
  | nil =>
    simp at h; subst h; simp
  | cons g gs ih =>
    simp only [List.mapM_cons, Option.pure_def, Option.bind_eq_bind] at h
    cases hg : parseParam g with
    | none => simp [hg] at h
    | some p =>
      cases hgs : gs.mapM parseParam with
      | none => simp [hg, hgs] at h
      | some ps' =>
        simp [hg, hgs] at h
        subst h
        obtain ⟨nv, txt⟩ := p
        obtain ⟨h1, h2⟩ := parseParam_text g nv txt hg
        obtain ⟨i1, i2⟩ := ih ps' hgs
        refine ⟨?_, ?_⟩
        · simp only [List.map_cons, List.mapM_cons, h1, i1]
          rfl
        · intro g' hg'
          simp only [List.map_cons, List.mem_cons] at hg'
          rcases hg' with rfl | hg'
          · exact h2
          · exact i2 g' hg'

/-- a parameter written as spaces, token, `=`, token is read as (lower-cased name, value — lower-cased for `charset`) -/
theorem parseParam_build (sp n v : Bytes) (hsp : ∀ x ∈ sp, x = 32) (hn : isTok n = true) (hv : isTok v = true) :
    parseParam (sp ++ n ++ [61] ++ v) =
      some ((lowerAll n, if lowerAll n = charsetName then lowerAll v else v),
        sp ++ lowerAll n ++ [61] ++ (if lowerAll n = charsetName then lowerAll v else v)) := by
  unfold parseParam
  simp only
  have hn0 : n ≠ [] := isTok_ne_nil n hn
  obtain ⟨n0, nr, rfl⟩ := List.exists_cons_of_ne_nil hn0
  have hn0ne : n0 ≠ 32 := (isTok_free _ hn n0 (by simp)).2.2.2
  have htw : (sp ++ (n0 :: nr) ++ [61] ++ v).takeWhile (· = 32) = sp := by
    simp only [List.append_assoc, List.cons_append]
    rw [List.takeWhile_append_of_pos (by simpa using hsp)]
    simp [hn0ne]
  rw [htw]
  have hdrop : (sp ++ (n0 :: nr) ++ [61] ++ v).drop sp.length = (n0 :: nr) ++ 61 :: v := by
    simp [List.append_assoc]
  rw [hdrop]
  have hsplit2 : splitOn 61 ((n0 :: nr) ++ 61 :: v) = [n0 :: nr, v] := by
    rw [splitOn_append_sep 61 _ _ (fun x hx => (isTok_free _ hn x hx).2.2.1)]
    rw [splitOn_free 61 v (fun x hx => (isTok_free _ hv x hx).2.2.1)]
  rw [hsplit2]
  simp only [hn, hv, Bool.and_self, if_true]

end S3V.Dto.ContentType
