import S3V.Thm.SigV4Order
/-!
# Lemmas: the canonical request of the model equals the one of the specification on well-formed requests
-/
namespace S3V.SigV4
open S3V

/-! ## the two sides -/

/-- a request as the verifier sees it when it builds the canonical request -/
structure Req where
  method : Bytes
  /-- `decoded_uri_path` -/
  path : Bytes
  /-- the contents of `OrderedQs`: decoded pairs, stably sorted by name -/
  qs : List (Bytes × Bytes)
  /-- header lines in arrival order (names in any case; values `to_str`-able) -/
  headers : List (Bytes × Bytes)
  /-- the names listed in `SignedHeaders` -/
  signed : List Bytes
  payload : Payload

/-- `OrderedHeaders::from_headers` on the request's header lines -/
def Req.hs (r : Req) : List (Bytes × Bytes) := sortByFirst (r.headers.map fun p => (lower p.1, p.2))

/-- what `v4_check_header_auth` feeds into `create_canonical_request` -/
def canonImpl (sha256hex : Bytes → Bytes) (onMissing : Bytes → Option Bytes) (r : Req) : Bytes :=
  createCanonicalRequest sha256hex r.method r.path r.qs (findMultiple r.hs (sortBytes r.signed) onMissing) r.payload

/-- the specification's view of the same request -/
def Req.toSpec (sha256hex : Bytes → Bytes) (r : Req) : SigV4Spec.Request :=
  { method := r.method, path := r.path, query := r.qs, headers := r.headers, signedHeaders := r.signed,
    payload := payloadLine sha256hex r.payload }

def canonSpec (sha256hex : Bytes → Bytes) (r : Req) : Bytes := SigV4Spec.canonicalRequest (r.toSpec sha256hex)

/-! ## well-formedness: the region outside the three finding classes -/

/-- no two adjacent spaces -/
def noDoubleSpace : Bytes → Bool
  | a :: b :: rest => !(a = 32 && b = 32) && noDoubleSpace (b :: rest)
  | _ => true

/-- among parameters of one (encoded) name, the (encoded) values already ascend -/
def dupOrdered : List (Bytes × Bytes) → Bool
  | [] => true
  | x :: xs => xs.all (fun y => y.1 ≠ x.1 || bLe x.2 y.2) && dupOrdered xs

def encPair (p : Bytes × Bytes) : Bytes × Bytes := (uriEncode true p.1, uriEncode true p.2)

/-- a signed name is fine when it is not `authorization`, exactly one header line carries it and that
    line's value has no inner run of spaces -/
def headerOK (r : Req) (n : Bytes) : Bool :=
  n ≠ b!"authorization" &&
  match r.headers.filter (fun h => lower h.1 = n) with
  | [h] => noDoubleSpace (trim h.2)
  | _ => false

/-- WF: every signed header occurs exactly once (no `sigv4-repeated-header`, no
    `sigv4-absent-signed-header`) with a value free of inner space runs (no `sigv4-inner-whitespace`), and
    duplicate query names carry ascending values (no `sigv4-dup-query-unsorted`) -/
def wf (r : Req) : Bool := r.signed.all (headerOK r) && dupOrdered (r.qs.map encPair)

/-! ## small equalities between the twin definitions of model and specification -/

theorem lower_eq (s : Bytes) : lower s = SigV4Spec.lowercase s := rfl

theorem isTrimWs_eq : isTrimWs = SigV4Spec.isWs := rfl

theorem hexDigitUpper_eq (n : Nat) : hexDigitUpper n = SigV4Spec.upperHexDigit n := rfl

theorem isUnreserved_eq (c : UInt8) : isUnreserved c = SigV4Spec.unreserved c := by
  simp only [isUnreserved, SigV4Spec.unreserved]
  rw [Bool.eq_iff_iff]
  simp only [Bool.or_eq_true, Bool.and_eq_true, decide_eq_true_eq]
  omega

theorem uriEncodeByte_eq (slash : Bool) (c : UInt8) :
    uriEncodeByte slash c = SigV4Spec.uriEncodeByte (!slash) c := by
  simp only [uriEncodeByte, SigV4Spec.uriEncodeByte, isUnreserved_eq]
  by_cases hu : SigV4Spec.unreserved c = true
  · simp [hu]
  · by_cases h47 : c = 47
    · subst h47; cases slash <;> simp [hu] <;> decide
    · simp [hu, h47, hexDigitUpper_eq]

theorem uriEncode_eq (slash : Bool) (s : Bytes) : uriEncode slash s = SigV4Spec.uriEncode (!slash) s := by
  simp only [uriEncode, SigV4Spec.uriEncode]
  congr 1
  funext c
  exact uriEncodeByte_eq slash c

theorem intercalate_eq (sep : Bytes) (l : List Bytes) : intercalate sep l = SigV4Spec.joinWith sep l := by
  induction l with
  | nil => rfl
  | cons x xs ih =>
    cases xs with
    | nil => rfl
    | cons y ys => simp only [intercalate, SigV4Spec.joinWith, ih]

theorem sortBytes_eq (l : List Bytes) : sortBytes l = SigV4Spec.sortStrs l := by
  have hins : ∀ (x : Bytes) (l : List Bytes), insertBytes x l = SigV4Spec.insertStr x l := by
    intro x l
    induction l with
    | nil => rfl
    | cons y ys ih =>
      simp only [insertBytes, SigV4Spec.insertStr, SigV4Spec.strLe, strLt_eq_bLt, ih]
      cases bLt y x <;> simp
  induction l with
  | nil => rfl
  | cons x xs ih => simp only [sortBytes, SigV4Spec.sortStrs, ih, hins]

theorem mem_sortPairs {y : Bytes × Bytes} {l : List (Bytes × Bytes)} : y ∈ SigV4Spec.sortPairs l ↔ y ∈ l := by
  have hins : ∀ (x : Bytes × Bytes) (l : List (Bytes × Bytes)), y ∈ SigV4Spec.insertPair x l ↔ y = x ∨ y ∈ l := by
    intro x l
    induction l with
    | nil => simp [SigV4Spec.insertPair]
    | cons z zs ih =>
      simp only [SigV4Spec.insertPair]
      split
      · simp
      · simp only [List.mem_cons, ih]
        constructor
        · rintro (h | h | h) <;> simp [h]
        · rintro (h | h | h) <;> simp [h]
  induction l with
  | nil => simp [SigV4Spec.sortPairs]
  | cons x xs ih => simp [SigV4Spec.sortPairs, hins, ih]

/-- inserting by name only is inserting by (name, value) when the new value is minimal among its name -/
theorem insertByFirst_eq_insertPair (x : Bytes × Bytes) (l : List (Bytes × Bytes))
    (h : ∀ y ∈ l, y.1 = x.1 → bLe x.2 y.2 = true) : insertByFirst x l = SigV4Spec.insertPair x l := by
  induction l with
  | nil => rfl
  | cons y ys ih =>
    simp only [insertByFirst, SigV4Spec.insertPair, SigV4Spec.pairLe, SigV4Spec.strLe, strLt_eq_bLt]
    by_cases hyx : bLt y.1 x.1 = true
    · have h1 : bLt x.1 y.1 = false := bLt_asymm hyx
      have h2 : x.1 ≠ y.1 := by intro e; rw [e, bLt_irrefl] at hyx; cases hyx
      simp only [hyx, if_true, h1, h2, decide_false, Bool.false_and, Bool.or_false]
      rw [ih (fun z hz => h z (by simp [hz]))]
      simp
    · have hyx : bLt y.1 x.1 = false := by simpa using hyx
      simp only [hyx]
      by_cases hxy : bLt x.1 y.1 = true
      · simp [hxy]
      · have hxy : bLt x.1 y.1 = false := by simpa using hxy
        have e : x.1 = y.1 := bLt_total hxy hyx
        have := h y (by simp) e.symm
        simp only [bLe] at this
        simp [e, this]

theorem sortByFirst_eq_sortPairs (l : List (Bytes × Bytes)) (h : dupOrdered l = true) :
    sortByFirst l = SigV4Spec.sortPairs l := by
  induction l with
  | nil => rfl
  | cons x xs ih =>
    simp only [dupOrdered, Bool.and_eq_true, List.all_eq_true, Bool.or_eq_true, decide_eq_true_eq] at h
    simp only [sortByFirst, SigV4Spec.sortPairs, ih h.2]
    apply insertByFirst_eq_insertPair
    intro y hy e
    rcases h.1 y (mem_sortPairs.mp hy) with h1 | h1
    · exact absurd e h1
    · exact h1

theorem joinQuery_eq (l : List (Bytes × Bytes)) :
    joinQuery l = SigV4Spec.joinWith [38] (l.map fun p => p.1 ++ [61] ++ p.2) := by
  induction l with
  | nil => rfl
  | cons x xs ih =>
    obtain ⟨n, v⟩ := x
    cases xs with
    | nil => rfl
    | cons y ys =>
      simp only [joinQuery, List.map_cons, SigV4Spec.joinWith] at ih ⊢
      rw [ih]

theorem collapse_id (t : Bytes) (h : noDoubleSpace t = true) : SigV4Spec.collapseSpaces t = t := by
  induction t with
  | nil => rfl
  | cons a rest ih =>
    cases rest with
    | nil => rfl
    | cons b rest' =>
      simp only [noDoubleSpace, Bool.and_eq_true, Bool.not_eq_true'] at h
      simp only [SigV4Spec.collapseSpaces]
      rw [h.1]
      simp [ih h.2]

theorem trimAll_eq_trim (v : Bytes) (h : noDoubleSpace (trim v) = true) : SigV4Spec.trimAll v = trim v := by
  have : SigV4Spec.trimAll v = SigV4Spec.collapseSpaces (trim v) := rfl
  rw [this, collapse_id _ h]

/-! ## the header block -/

/-- the one header line a well-formed signed name selects -/
theorem headerOK_unique {r : Req} {n : Bytes} (h : headerOK r n = true) :
    n ≠ b!"authorization" ∧ ∃ k v, r.headers.filter (fun h => lower h.1 = n) = [(k, v)] ∧ noDoubleSpace (trim v) = true := by
  simp only [headerOK, Bool.and_eq_true, decide_eq_true_eq] at h
  refine ⟨h.1, ?_⟩
  have h2 := h.2
  split at h2
  · rename_i hd heq
    exact ⟨hd.1, hd.2, heq, h2⟩
  · cases h2

theorem filter_map_lower (headers : List (Bytes × Bytes)) (n : Bytes) :
    (headers.map fun p => (lower p.1, p.2)).filter (fun p => p.1 = n) =
      (headers.filter fun h => lower h.1 = n).map fun p => (lower p.1, p.2) := by
  induction headers with
  | nil => rfl
  | cons x xs ih =>
    simp only [List.map_cons, List.filter_cons, ih]
    by_cases hx : lower x.1 = n <;> simp [hx]

/-- `get_all_pairs` on the sorted header list = the lines of that name, in arrival order -/
theorem getAllPairs_hs (r : Req) (n : Bytes) :
    getAllPairs r.hs n = (r.headers.filter fun h => lower h.1 = n).map fun p => (lower p.1, p.2) := by
  unfold Req.hs
  rw [getAllPairs_sorted (sortByFirst_sorted _), filter_sortByFirst, filter_map_lower]

theorem findMultiple_wf (r : Req) (onMissing : Bytes → Option Bytes) (names : List Bytes)
    (h : ∀ n ∈ names, headerOK r n = true) :
    canonicalHeadersImpl (findMultiple r.hs names onMissing) =
      names.flatMap (fun n => n ++ [58] ++ SigV4Spec.joinWith [44] (SigV4Spec.headerValues r.headers n) ++ [10]) ∧
    signedHeadersImpl (findMultiple r.hs names onMissing) = intercalate [59] names := by
  induction names with
  | nil => exact ⟨rfl, rfl⟩
  | cons n ns ih =>
    obtain ⟨hna, k, v, hf, hv⟩ := headerOK_unique (h n (by simp))
    have ih := ih (fun m hm => h m (by simp [hm]))
    have hlow : lower k = n := by
      have : (k, v) ∈ r.headers.filter (fun h => lower h.1 = n) := by rw [hf]; simp
      simpa using (List.mem_filter.mp this).2
    have hsel : findMultiple r.hs (n :: ns) onMissing = (n, v) :: findMultiple r.hs ns onMissing := by
      simp only [findMultiple, List.flatMap_cons, getAllPairs_hs, hf, List.map_cons, List.map_nil, hlow]
      rfl
    have hvals : SigV4Spec.headerValues r.headers n = [trim v] := by
      simp only [SigV4Spec.headerValues]
      have : (r.headers.filter fun h => SigV4Spec.lowercase h.1 = n) = [(k, v)] := hf
      rw [this]
      simp [trimAll_eq_trim v hv]
    constructor
    · rw [hsel]
      simp only [canonicalHeadersImpl] at ih ⊢
      rw [List.filter_cons]
      simp only [hna, ne_eq, not_false_eq_true, decide_true, if_true, List.flatMap_cons, ih.1, hvals,
        SigV4Spec.joinWith]
    · rw [hsel]
      simp only [signedHeadersImpl] at ih ⊢
      rw [List.filter_cons]
      simp only [hna, ne_eq, not_false_eq_true, decide_true, if_true, List.map_cons]
      cases hns : ns with
      | nil => simp [findMultiple, intercalate]
      | cons m ms =>
        rw [hns] at ih
        -- the rest of the selection starts with a pair, so the separator is inserted
        obtain ⟨_, k', v', hf', _⟩ := headerOK_unique (h m (by simp [hns]))
        have hlow' : lower k' = m := by
          have : (k', v') ∈ r.headers.filter (fun h => lower h.1 = m) := by rw [hf']; simp
          simpa using (List.mem_filter.mp this).2
        have hsel' : findMultiple r.hs (m :: ms) onMissing = (m, v') :: findMultiple r.hs ms onMissing := by
          simp only [findMultiple, List.flatMap_cons, getAllPairs_hs, hf', List.map_cons, List.map_nil, hlow']
          rfl
        have hma : m ≠ b!"authorization" := (headerOK_unique (h m (by simp [hns]))).1
        rw [hsel'] at ih ⊢
        rw [List.filter_cons] at ih ⊢
        simp only [hma, ne_eq, not_false_eq_true, decide_true, if_true, List.map_cons] at ih ⊢
        simp only [intercalate] at ih ⊢
        rw [ih.2]

/-! ## the main equality -/

theorem canon_impl_eq_spec (sha256hex : Bytes → Bytes) (onMissing : Bytes → Option Bytes) (r : Req)
    (h : wf r = true) : canonImpl sha256hex onMissing r = canonSpec sha256hex r := by
  simp only [wf, Bool.and_eq_true, List.all_eq_true] at h
  obtain ⟨hh, hq⟩ := h
  have hnames : ∀ n ∈ sortBytes r.signed, headerOK r n = true := by
    intro n hn
    apply hh
    have : ∀ (l : List Bytes), n ∈ sortBytes l → n ∈ l := by
      intro l
      induction l with
      | nil => simp [sortBytes]
      | cons x xs ih =>
        have hins : ∀ (l : List Bytes), n ∈ insertBytes x l → n = x ∨ n ∈ l := by
          intro l
          induction l with
          | nil => simp [insertBytes]
          | cons y ys ih2 =>
            simp only [insertBytes]
            split
            · simp only [List.mem_cons]
              rintro (h | h)
              · simp [h]
              · rcases ih2 h with h | h <;> simp [h]
            · simp
        intro hm
        rcases hins _ hm with h | h
        · simp [h]
        · simp [ih h]
    exact this _ hn
  obtain ⟨hc, hs⟩ := findMultiple_wf r onMissing (sortBytes r.signed) hnames
  have hquery : canonicalQueryImpl false r.qs = SigV4Spec.canonicalQuery r.qs := by
    simp only [canonicalQueryImpl, SigV4Spec.canonicalQuery, Bool.false_eq_true, if_false]
    have : (r.qs.map fun p => (uriEncode true p.1, uriEncode true p.2)) =
        (r.qs.map fun p => (SigV4Spec.uriEncode false p.1, SigV4Spec.uriEncode false p.2)) := by
      apply List.map_congr_left
      intro p _
      simp [uriEncode_eq]
    rw [joinQuery_eq, ← this]
    have hq' : dupOrdered (r.qs.map fun p => (uriEncode true p.1, uriEncode true p.2)) = true := hq
    rw [sortByFirst_eq_sortPairs _ hq']
  rw [sortBytes_eq] at hc hs
  rw [intercalate_eq] at hs
  simp only [canonImpl, canonSpec, createCanonicalRequest, SigV4Spec.canonicalRequest, Req.toSpec,
    SigV4Spec.canonicalHeaders, SigV4Spec.signedHeadersLine, hquery, uriEncode_eq, sortBytes_eq, hc, hs,
    Bool.not_false]

/-! ## HTTP/2: `:authority` stands in for a missing `host` line -/

/-- the header lines the specification sees -/
def effectiveRaw (http2 : Bool) (authority : Option Bytes) (raw : List (Bytes × Bytes)) : List (Bytes × Bytes) :=
  if http2 && !(raw.any fun h => lower h.1 = b!"host") then
    match authority with
    | some a => (b!"host", a) :: raw
    | none => raw
  else raw

def hsOf (raw : List (Bytes × Bytes)) : List (Bytes × Bytes) := sortByFirst (raw.map fun p => (lower p.1, p.2))

theorem getAllPairs_hsOf (raw : List (Bytes × Bytes)) (n : Bytes) :
    getAllPairs (hsOf raw) n = (raw.filter fun h => lower h.1 = n).map fun p => (lower p.1, p.2) :=
  getAllPairs_hs { method := [], path := [], qs := [], headers := raw, signed := [], payload := .empty } n

/-- selecting with the `on_missing` closure of the code = selecting, without any fallback, from the lines the
    specification sees -/
theorem findMultiple_fallback (http2 : Bool) (authority : Option Bytes) (raw : List (Bytes × Bytes)) (names : List Bytes) :
    findMultiple (hsOf raw) names (hostFallback http2 authority) =
      findMultiple (hsOf (effectiveRaw http2 authority raw)) names (fun _ => none) := by
  unfold findMultiple
  congr 1
  funext n
  rw [getAllPairs_hsOf, getAllPairs_hsOf]
  unfold effectiveRaw hostFallback
  by_cases hcond : (http2 && !(raw.any fun h => lower h.1 = b!"host")) = true
  · rw [if_pos hcond]
    simp only [Bool.and_eq_true, Bool.not_eq_true', List.any_eq_false, decide_eq_true_eq] at hcond
    obtain ⟨h2, hnohost⟩ := hcond
    cases authority with
    | none =>
      simp only []
      cases hsel : (raw.filter fun h => lower h.1 = n).map fun p => (lower p.1, p.2) with
      | nil => by_cases hn : n = b!"host" <;> simp [hn, h2]
      | cons x xs => rfl
    | some a =>
      simp only []
      by_cases hn : n = b!"host"
      · subst hn
        have hempty : (raw.filter fun h => lower h.1 = b!"host") = [] := by
          rw [List.filter_eq_nil_iff]
          intro h hh
          simpa using hnohost h hh
        have hl : lower b!"host" = b!"host" := by decide
        simp [hempty, h2, List.filter_cons, hl]
      · have hl : lower b!"host" ≠ n := by
          have : lower b!"host" = b!"host" := by decide
          rw [this]; exact fun e => hn e.symm
        rw [List.filter_cons]
        simp only [hl, decide_false, Bool.false_eq_true, if_false]
        cases hsel : (raw.filter fun h => lower h.1 = n).map fun p => (lower p.1, p.2) with
        | nil => simp [hn]
        | cons x xs => rfl
  · rw [if_neg hcond]
    cases hsel : (raw.filter fun h => lower h.1 = n).map fun p => (lower p.1, p.2) with
    | cons x xs => rfl
    | nil =>
      simp only []
      by_cases hn : n = b!"host"
      · subst hn
        -- no `host` line, so the condition fails because the request is not HTTP/2 (or has no authority)
        have hnohost : (raw.any fun h => lower h.1 = b!"host") = false := by
          rw [List.any_eq_false]
          intro h hh
          have : (raw.filter fun h => lower h.1 = b!"host") = [] := by simpa using hsel
          rw [List.filter_eq_nil_iff] at this
          simpa using this h hh
        have h2 : http2 = false := by
          cases http2 with
          | false => rfl
          | true => simp [hnohost] at hcond
        simp [h2]
      · simp [hn]

/-! ## the presigned twin -/

/-- what `v4_check_presigned_url` feeds into `create_presigned_canonical_request` (the list of
    `X-Amz-SignedHeaders` is used in the order given) -/
def canonPresignedImpl (onMissing : Bytes → Option Bytes) (r : Req) : Bytes :=
  createPresignedCanonicalRequest r.method r.path r.qs (findMultiple r.hs r.signed onMissing)

def canonPresignedSpec (r : Req) : Bytes :=
  SigV4Spec.canonicalRequest (SigV4Spec.presignedRequest r.method r.path r.qs r.headers r.signed)

/-- the query parameters a presigned URL signs -/
def Req.signedQs (r : Req) : List (Bytes × Bytes) := r.qs.filter fun p => p.1 ≠ b!"X-Amz-Signature"

/-- WF for presigned URLs: as `wf`, on the parameters other than `X-Amz-Signature`, and the
    `X-Amz-SignedHeaders` list is sorted as the documents require -/
def wfPresigned (r : Req) : Bool :=
  r.signed.all (headerOK r) && dupOrdered (r.signedQs.map encPair) && (sortBytes r.signed = r.signed)

theorem canon_presigned_impl_eq_spec (onMissing : Bytes → Option Bytes) (r : Req) (h : wfPresigned r = true) :
    canonPresignedImpl onMissing r = canonPresignedSpec r := by
  simp only [wfPresigned, Bool.and_eq_true, List.all_eq_true, decide_eq_true_eq] at h
  obtain ⟨⟨hh, hq⟩, hsorted⟩ := h
  obtain ⟨hc, hs⟩ := findMultiple_wf r onMissing r.signed hh
  have hquery : canonicalQueryImpl true r.qs = SigV4Spec.canonicalQuery r.signedQs := by
    simp only [canonicalQueryImpl, SigV4Spec.canonicalQuery, if_true]
    have : (r.signedQs.map fun p => (uriEncode true p.1, uriEncode true p.2)) =
        (r.signedQs.map fun p => (SigV4Spec.uriEncode false p.1, SigV4Spec.uriEncode false p.2)) := by
      apply List.map_congr_left
      intro p _
      simp [uriEncode_eq]
    rw [joinQuery_eq, ← this]
    have hq' : dupOrdered (r.signedQs.map fun p => (uriEncode true p.1, uriEncode true p.2)) = true := hq
    have e : (r.qs.filter fun p => p.1 ≠ b!"X-Amz-Signature") = r.signedQs := rfl
    rw [e, sortByFirst_eq_sortPairs _ hq']
  have hsorted' : SigV4Spec.sortStrs r.signed = r.signed := by rw [← sortBytes_eq]; exact hsorted
  have e2 : (r.qs.filter fun p => p.1 ≠ SigV4Spec.xAmzSignature) = r.signedQs := rfl
  rw [intercalate_eq] at hs
  simp only [canonPresignedImpl, canonPresignedSpec, createPresignedCanonicalRequest, SigV4Spec.canonicalRequest,
    SigV4Spec.presignedRequest, SigV4Spec.canonicalHeaders, SigV4Spec.signedHeadersLine, hquery, uriEncode_eq,
    hsorted', hc, hs, e2, Bool.not_false]
  rfl

end S3V.SigV4
