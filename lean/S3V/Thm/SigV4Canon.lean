import S3V.Thm.SigV4Order
/-!
# Lemmas: the canonical request of the model equals the one of the specification on well-formed requests
-/
namespace S3V.SigV4
open S3V

/-! ## the two sides -/

/-- a request as the verifier sees it when it builds the canonical request -/
structure Req where
  method : Bytes
  /-- `decoded_uri_path` -/
  path : Bytes
  /-- the contents of `OrderedQs`: decoded pairs, stably sorted by name -/
  qs : List (Bytes × Bytes)
  /-- header lines in arrival order (names in any case; values `to_str`-able) -/
  headers : List (Bytes × Bytes)
  /-- the names listed in `SignedHeaders` -/
  signed : List Bytes
  payload : Payload

/-- `OrderedHeaders::from_headers` on the request's header lines -/
def Req.hs (r : Req) : List (Bytes × Bytes) := sortByFirst (r.headers.map fun p => (lower p.1, p.2))

/-- what `v4_check_header_auth` feeds into `create_canonical_request` -/
def canonImpl (sha256hex : Bytes → Bytes) (onMissing : Bytes → Option Bytes) (r : Req) : Bytes :=
  createCanonicalRequest sha256hex r.method r.path r.qs (findMultiple r.hs (sortBytes r.signed) onMissing) r.payload

/-- the specification's view of the same request -/
def Req.toSpec (sha256hex : Bytes → Bytes) (r : Req) : SigV4Spec.Request :=
  { method := r.method, path := r.path, query := r.qs, headers := r.headers, signedHeaders := r.signed,
    payload := payloadLine sha256hex r.payload }

def canonSpec (sha256hex : Bytes → Bytes) (r : Req) : Bytes := SigV4Spec.canonicalRequest (r.toSpec sha256hex)

/-! ## well-formedness: the region in which the (repaired) code and the specification agree -/

/-- among parameters of one (encoded) name, the (encoded) values already ascend -/
def dupOrdered : List (Bytes × Bytes) → Bool
  | [] => true
  | x :: xs => xs.all (fun y => y.1 ≠ x.1 || bLe x.2 y.2) && dupOrdered xs

def encPair (p : Bytes × Bytes) : Bytes × Bytes := (uriEncode true p.1, uriEncode true p.2)

/-- a signed name is fine when it is not `authorization` and at least one header line carries it
    (`v4_check_header_auth` itself refuses a listed name without a line since 10af2bf) -/
def headerOK (r : Req) (n : Bytes) : Bool :=
  n ≠ b!"authorization" && !(r.headers.filter (fun h => lower h.1 = n)).isEmpty

/-- WF after the repairs b7c08fd / 10af2bf: the signed names are distinct, none is `authorization`, each is carried
    by a header line, and duplicate query names carry ascending values (the open class `sigv4-dup-query-unsorted`).
    Header values are unrestricted: inner space runs and repeated lines are canonicalised as specified. -/
def wf (r : Req) : Bool :=
  r.signed.all (headerOK r) && decide r.signed.Nodup && dupOrdered (r.qs.map encPair)

/-! ## small equalities between the twin definitions of model and specification -/

theorem lower_eq (s : Bytes) : lower s = SigV4Spec.lowercase s := rfl

theorem isTrimWs_eq : isTrimWs = SigV4Spec.isWs := rfl

theorem hexDigitUpper_eq (n : Nat) : hexDigitUpper n = SigV4Spec.upperHexDigit n := rfl

theorem isUnreserved_eq (c : UInt8) : isUnreserved c = SigV4Spec.unreserved c := by
  simp only [isUnreserved, SigV4Spec.unreserved]
  rw [Bool.eq_iff_iff]
  simp only [Bool.or_eq_true, Bool.and_eq_true, decide_eq_true_eq]
  omega

theorem uriEncodeByte_eq (slash : Bool) (c : UInt8) :
    uriEncodeByte slash c = SigV4Spec.uriEncodeByte (!slash) c := by
  simp only [uriEncodeByte, SigV4Spec.uriEncodeByte, isUnreserved_eq]
  by_cases hu : SigV4Spec.unreserved c = true
  · simp [hu]
  · by_cases h47 : c = 47
    · subst h47; cases slash <;> simp [hu] <;> decide
    · simp [hu, h47, hexDigitUpper_eq]

theorem uriEncode_eq (slash : Bool) (s : Bytes) : uriEncode slash s = SigV4Spec.uriEncode (!slash) s := by
  simp only [uriEncode, SigV4Spec.uriEncode]
  congr 1
  funext c
  exact uriEncodeByte_eq slash c

theorem intercalate_eq (sep : Bytes) (l : List Bytes) : intercalate sep l = SigV4Spec.joinWith sep l := by
  induction l with
  | nil => rfl
  | cons x xs ih =>
    cases xs with
    | nil => rfl
    | cons y ys => simp only [intercalate, SigV4Spec.joinWith, ih]

theorem sortBytes_eq (l : List Bytes) : sortBytes l = SigV4Spec.sortStrs l := by
  have hins : ∀ (x : Bytes) (l : List Bytes), insertBytes x l = SigV4Spec.insertStr x l := by
    intro x l
    induction l with
    | nil => rfl
    | cons y ys ih =>
      simp only [insertBytes, SigV4Spec.insertStr, SigV4Spec.strLe, strLt_eq_bLt, ih]
      cases bLt y x <;> simp
  induction l with
  | nil => rfl
  | cons x xs ih => simp only [sortBytes, SigV4Spec.sortStrs, ih, hins]

theorem mem_sortPairs {y : Bytes × Bytes} {l : List (Bytes × Bytes)} : y ∈ SigV4Spec.sortPairs l ↔ y ∈ l := by
  have hins : ∀ (x : Bytes × Bytes) (l : List (Bytes × Bytes)), y ∈ SigV4Spec.insertPair x l ↔ y = x ∨ y ∈ l := by
    intro x l
    induction l with
    | nil => simp [SigV4Spec.insertPair]
    | cons z zs ih =>
      simp only [SigV4Spec.insertPair]
      split
      · simp
      · simp only [List.mem_cons, ih]
        constructor
        · rintro (h | h | h) <;> simp [h]
        · rintro (h | h | h) <;> simp [h]
  induction l with
  | nil => simp [SigV4Spec.sortPairs]
  | cons x xs ih => simp [SigV4Spec.sortPairs, hins, ih]

/-- inserting by name only is inserting by (name, value) when the new value is minimal among its name -/
theorem insertByFirst_eq_insertPair (x : Bytes × Bytes) (l : List (Bytes × Bytes))
    (h : ∀ y ∈ l, y.1 = x.1 → bLe x.2 y.2 = true) : insertByFirst x l = SigV4Spec.insertPair x l := by
  induction l with
  | nil => rfl
  | cons y ys ih =>
    simp only [insertByFirst, SigV4Spec.insertPair, SigV4Spec.pairLe, SigV4Spec.strLe, strLt_eq_bLt]
    by_cases hyx : bLt y.1 x.1 = true
    · have h1 : bLt x.1 y.1 = false := bLt_asymm hyx
      have h2 : x.1 ≠ y.1 := by intro e; rw [e, bLt_irrefl] at hyx; cases hyx
      simp only [hyx, if_true, h1, h2, decide_false, Bool.false_and, Bool.or_false]
      rw [ih (fun z hz => h z (by simp [hz]))]
      simp
    · have hyx : bLt y.1 x.1 = false := by simpa using hyx
      simp only [hyx]
      by_cases hxy : bLt x.1 y.1 = true
      · simp [hxy]
      · have hxy : bLt x.1 y.1 = false := by simpa using hxy
        have e : x.1 = y.1 := bLt_total hxy hyx
        have := h y (by simp) e.symm
        simp only [bLe] at this
        simp [e, this]

theorem sortByFirst_eq_sortPairs (l : List (Bytes × Bytes)) (h : dupOrdered l = true) :
    sortByFirst l = SigV4Spec.sortPairs l := by
  induction l with
  | nil => rfl
  | cons x xs ih =>
    simp only [dupOrdered, Bool.and_eq_true, List.all_eq_true, Bool.or_eq_true, decide_eq_true_eq] at h
    simp only [sortByFirst, SigV4Spec.sortPairs, ih h.2]
    apply insertByFirst_eq_insertPair
    intro y hy e
    rcases h.1 y (mem_sortPairs.mp hy) with h1 | h1
    · exact absurd e h1
    · exact h1

theorem joinQuery_eq (l : List (Bytes × Bytes)) :
    joinQuery l = SigV4Spec.joinWith [38] (l.map fun p => p.1 ++ [61] ++ p.2) := by
  induction l with
  | nil => rfl
  | cons x xs ih =>
    obtain ⟨n, v⟩ := x
    cases xs with
    | nil => rfl
    | cons y ys =>
      simp only [joinQuery, List.map_cons, SigV4Spec.joinWith] at ih ⊢
      rw [ih]

/-- the code's run-collapsing loop is the specification's `collapseSpaces` -/
theorem collapseRuns_eq (l : Bytes) :
    collapseRuns false l = SigV4Spec.collapseSpaces l ∧
    SigV4Spec.collapseSpaces (32 :: l) = 32 :: collapseRuns true l := by
  induction l with
  | nil => exact ⟨rfl, rfl⟩
  | cons c cs ih =>
    have hfalse : collapseRuns false (c :: cs) = SigV4Spec.collapseSpaces (c :: cs) := by
      by_cases hc : c = 32
      · subst hc
        rw [ih.2]
        simp [collapseRuns]
      · cases cs with
        | nil => simp [collapseRuns, SigV4Spec.collapseSpaces]
        | cons d ds =>
          have : collapseRuns false (c :: d :: ds) = c :: collapseRuns false (d :: ds) := by
            simp [collapseRuns, hc]
          rw [this, ih.1]
          simp [SigV4Spec.collapseSpaces, hc]
    refine ⟨hfalse, ?_⟩
    by_cases hc : c = 32
    · subst hc
      have : SigV4Spec.collapseSpaces (32 :: 32 :: cs) = SigV4Spec.collapseSpaces (32 :: cs) := by
        simp [SigV4Spec.collapseSpaces]
      rw [this, ih.2]
      simp [collapseRuns]
    · have : SigV4Spec.collapseSpaces (32 :: c :: cs) = 32 :: SigV4Spec.collapseSpaces (c :: cs) := by
        simp [SigV4Spec.collapseSpaces, hc]
      rw [this, ← hfalse]
      simp [collapseRuns, hc]

/-- the canonical value of the code is `Trim()` of the specification -/
theorem canonValue_eq (v : Bytes) : collapseRuns false (trim v) = SigV4Spec.trimAll v := by
  rw [(collapseRuns_eq _).1]
  rfl

/-! ## the header block -/

theorem filter_map_lower (headers : List (Bytes × Bytes)) (n : Bytes) :
    (headers.map fun p => (lower p.1, p.2)).filter (fun p => p.1 = n) =
      (headers.filter fun h => lower h.1 = n).map fun p => (lower p.1, p.2) := by
  induction headers with
  | nil => rfl
  | cons x xs ih =>
    simp only [List.map_cons, List.filter_cons, ih]
    by_cases hx : lower x.1 = n <;> simp [hx]

/-- `get_all_pairs` on the sorted header list = the lines of that name, in arrival order -/
theorem getAllPairs_hs (r : Req) (n : Bytes) :
    getAllPairs r.hs n = (r.headers.filter fun h => lower h.1 = n).map fun p => (lower p.1, p.2) := by
  unfold Req.hs
  rw [getAllPairs_sorted (sortByFirst_sorted _), filter_sortByFirst, filter_map_lower]

/-- the raw values of the lines carrying name `n` -/
def Req.vals (r : Req) (n : Bytes) : List Bytes := (r.headers.filter fun h => lower h.1 = n).map (·.2)

theorem getAllPairs_hs_vals (r : Req) (n : Bytes) : getAllPairs r.hs n = (r.vals n).map fun v => (n, v) := by
  rw [getAllPairs_hs]
  unfold Req.vals
  rw [List.map_map]
  apply List.map_congr_left
  intro p hp
  have : lower p.1 = n := by simpa using (List.mem_filter.mp hp).2
  simp [this]

/-- continuing a line: further values of the name just emitted replace the line feed by `,` -/
theorem pushHeaderLines_continue (n : Bytes) (hn : n ≠ b!"authorization") (vs : List Bytes) (x : Bytes)
    (rest : List (Bytes × Bytes)) :
    pushHeaderLines (some n) (x ++ [10]) (vs.map (fun v => (n, v)) ++ rest) =
      pushHeaderLines (some n) (x ++ vs.flatMap (fun v => [44] ++ collapseRuns false (trim v)) ++ [10]) rest := by
  induction vs generalizing x with
  | nil => simp
  | cons v vs ih =>
    simp only [List.map_cons, List.cons_append, pushHeaderLines, hn, if_false, if_true, List.dropLast_concat]
    have := ih (x ++ [44] ++ collapseRuns false (trim v))
    simp only [List.append_assoc] at this ⊢
    rw [this]
    simp [List.flatMap_cons, List.append_assoc]

theorem joinWith_cons_flatMap (c : Bytes) (cs : List Bytes) :
    SigV4Spec.joinWith [44] (c :: cs) = c ++ cs.flatMap (fun v => [44] ++ v) := by
  induction cs generalizing c with
  | nil => simp [SigV4Spec.joinWith]
  | cons d ds ih =>
    simp only [SigV4Spec.joinWith, List.flatMap_cons, ih d, List.append_assoc]

/-- a whole group of lines of one name, after a different (or no) name -/
theorem pushHeaderLines_group (n : Bytes) (hn : n ≠ b!"authorization") (last : Option Bytes) (hl : last ≠ some n)
    (v : Bytes) (vs : List Bytes) (ans : Bytes) (rest : List (Bytes × Bytes)) :
    pushHeaderLines last ans (((v :: vs).map fun v => (n, v)) ++ rest) =
      pushHeaderLines (some n)
        (ans ++ (n ++ [58] ++ SigV4Spec.joinWith [44] ((v :: vs).map fun v => collapseRuns false (trim v)) ++ [10])) rest := by
  simp only [List.map_cons, List.cons_append, pushHeaderLines, hn, if_false, hl]
  have := pushHeaderLines_continue n hn vs (ans ++ n ++ [58] ++ collapseRuns false (trim v)) rest
  rw [this, joinWith_cons_flatMap, List.flatMap_map]
  simp [List.append_assoc]

/-- the selection of distinct names, each with at least one value, renders as one line per name -/
theorem pushHeaderLines_groups (vals : Bytes → List Bytes) (names : List Bytes) (last : Option Bytes) (ans : Bytes)
    (hok : ∀ n ∈ names, n ≠ b!"authorization" ∧ vals n ≠ []) (hnd : names.Nodup) (hlast : ∀ n ∈ names, last ≠ some n) :
    pushHeaderLines last ans (names.flatMap fun n => (vals n).map fun v => (n, v)) =
      ans ++ names.flatMap (fun n =>
        n ++ [58] ++ SigV4Spec.joinWith [44] ((vals n).map fun v => collapseRuns false (trim v)) ++ [10]) := by
  induction names generalizing last ans with
  | nil => simp [pushHeaderLines]
  | cons n ns ih =>
    obtain ⟨hna, hv⟩ := hok n (by simp)
    rw [List.nodup_cons] at hnd
    cases hvals : vals n with
    | nil => exact absurd hvals hv
    | cons v vs =>
      rw [List.flatMap_cons, hvals, pushHeaderLines_group n hna last (hlast n (by simp)) v vs ans,
        ih (some n) _ (fun m hm => hok m (by simp [hm])) hnd.2
          (fun m hm e => hnd.1 (by injection e with e; rw [e]; exact hm))]
      simp [List.flatMap_cons, hvals, List.append_assoc]

theorem signedNamesGo_skip (n : Bytes) (vs : List Bytes) (rest : List (Bytes × Bytes)) :
    signedNamesGo (some n) ((vs.map fun v => (n, v)) ++ rest) = signedNamesGo (some n) rest := by
  induction vs with
  | nil => rfl
  | cons v vs ih => simp [signedNamesGo, ih]

theorem signedNamesGo_groups (vals : Bytes → List Bytes) (names : List Bytes) (last : Option Bytes)
    (hok : ∀ n ∈ names, n ≠ b!"authorization" ∧ vals n ≠ []) (hnd : names.Nodup) (hlast : ∀ n ∈ names, last ≠ some n) :
    signedNamesGo last (names.flatMap fun n => (vals n).map fun v => (n, v)) =
      (if last.isSome && !names.isEmpty then [59] else []) ++ SigV4Spec.joinWith [59] names := by
  induction names generalizing last with
  | nil => simp [signedNamesGo, SigV4Spec.joinWith]
  | cons n ns ih =>
    obtain ⟨hna, hv⟩ := hok n (by simp)
    rw [List.nodup_cons] at hnd
    cases hvals : vals n with
    | nil => exact absurd hvals hv
    | cons v vs =>
      have hl := hlast n (by simp)
      rw [List.flatMap_cons, hvals]
      simp only [List.map_cons, List.cons_append, signedNamesGo, hna, hl, decide_false, Bool.or_self,
        Bool.false_eq_true, if_false]
      rw [signedNamesGo_skip, ih (some n) (fun m hm => hok m (by simp [hm])) hnd.2
          (fun m hm e => hnd.1 (by injection e with e; rw [e]; exact hm))]
      cases ns with
      | nil => cases last <;> simp [SigV4Spec.joinWith]
      | cons m ms => cases last <;> simp [SigV4Spec.joinWith, List.append_assoc]

theorem headerOK_iff {r : Req} {n : Bytes} (h : headerOK r n = true) : n ≠ b!"authorization" ∧ r.vals n ≠ [] := by
  simp only [headerOK, Bool.and_eq_true, decide_eq_true_eq, Bool.not_eq_true', List.isEmpty_eq_false_iff] at h
  refine ⟨h.1, ?_⟩
  unfold Req.vals
  intro e
  exact h.2 (List.map_eq_nil_iff.mp e)

theorem flatMap_congr' {α β : Type} {f g : α → List β} (l : List α) (h : ∀ x ∈ l, f x = g x) :
    l.flatMap f = l.flatMap g := by
  induction l with
  | nil => rfl
  | cons x xs ih => rw [List.flatMap_cons, List.flatMap_cons, h x (by simp), ih (fun y hy => h y (by simp [hy]))]

theorem insertBytes_perm (x : Bytes) (l : List Bytes) : (insertBytes x l).Perm (x :: l) := by
  induction l with
  | nil => exact List.Perm.refl _
  | cons y ys ih =>
    simp only [insertBytes]
    split
    · exact (List.Perm.cons y ih).trans (List.Perm.swap x y ys)
    · exact List.Perm.refl _

theorem sortBytes_perm (l : List Bytes) : (sortBytes l).Perm l := by
  induction l with
  | nil => exact List.Perm.refl _
  | cons x xs ih => exact (insertBytes_perm x _).trans (List.Perm.cons x ih)

/-- what the code selects for well-formed names: all lines of each name, name by name -/
theorem findMultiple_groups (r : Req) (onMissing : Bytes → Option Bytes) (names : List Bytes)
    (h : ∀ n ∈ names, headerOK r n = true) :
    findMultiple r.hs names onMissing = names.flatMap fun n => (r.vals n).map fun v => (n, v) := by
  unfold findMultiple
  apply flatMap_congr'
  intro n hn
  rw [getAllPairs_hs_vals]
  have hv := (headerOK_iff (h n hn)).2
  cases hvals : r.vals n with
  | nil => exact absurd hvals hv
  | cons v vs => rfl

theorem findMultiple_wf (r : Req) (onMissing : Bytes → Option Bytes) (names : List Bytes)
    (h : ∀ n ∈ names, headerOK r n = true) (hnd : names.Nodup) :
    canonicalHeadersImpl (findMultiple r.hs names onMissing) =
      names.flatMap (fun n => n ++ [58] ++ SigV4Spec.joinWith [44] (SigV4Spec.headerValues r.headers n) ++ [10]) ∧
    signedHeadersImpl (findMultiple r.hs names onMissing) = SigV4Spec.joinWith [59] names := by
  have hok : ∀ n ∈ names, n ≠ b!"authorization" ∧ r.vals n ≠ [] := fun n hn => headerOK_iff (h n hn)
  have hvals : ∀ n, (r.vals n).map (fun v => collapseRuns false (trim v)) = SigV4Spec.headerValues r.headers n := by
    intro n
    unfold Req.vals SigV4Spec.headerValues
    rw [List.map_map]
    apply List.map_congr_left
    intro p _
    exact canonValue_eq p.2
  rw [findMultiple_groups r onMissing names h]
  constructor
  · unfold canonicalHeadersImpl
    rw [pushHeaderLines_groups r.vals names none [] hok hnd (fun _ _ e => by cases e)]
    simp only [List.nil_append, hvals]
  · unfold signedHeadersImpl
    rw [signedNamesGo_groups r.vals names none hok hnd (fun _ _ e => by cases e)]
    simp

/-! ## the main equality -/

theorem canon_impl_eq_spec (sha256hex : Bytes → Bytes) (onMissing : Bytes → Option Bytes) (r : Req)
    (h : wf r = true) : canonImpl sha256hex onMissing r = canonSpec sha256hex r := by
  simp only [wf, Bool.and_eq_true, List.all_eq_true, decide_eq_true_eq] at h
  obtain ⟨⟨hh, hnd⟩, hq⟩ := h
  have hnames : ∀ n ∈ sortBytes r.signed, headerOK r n = true :=
    fun n hn => hh n ((sortBytes_perm r.signed).mem_iff.mp hn)
  have hnd' : (sortBytes r.signed).Nodup := (sortBytes_perm r.signed).nodup_iff.mpr hnd
  obtain ⟨hc, hs⟩ := findMultiple_wf r onMissing (sortBytes r.signed) hnames hnd'
  have hquery : canonicalQueryImpl false r.qs = SigV4Spec.canonicalQuery r.qs := by
    simp only [canonicalQueryImpl, SigV4Spec.canonicalQuery, Bool.false_eq_true, if_false]
    have : (r.qs.map fun p => (uriEncode true p.1, uriEncode true p.2)) =
        (r.qs.map fun p => (SigV4Spec.uriEncode false p.1, SigV4Spec.uriEncode false p.2)) := by
      apply List.map_congr_left
      intro p _
      simp [uriEncode_eq]
    rw [joinQuery_eq, ← this]
    have hq' : dupOrdered (r.qs.map fun p => (uriEncode true p.1, uriEncode true p.2)) = true := hq
    rw [sortByFirst_eq_sortPairs _ hq']
  rw [sortBytes_eq] at hc hs
  simp only [canonImpl, canonSpec, createCanonicalRequest, SigV4Spec.canonicalRequest, Req.toSpec,
    SigV4Spec.canonicalHeaders, SigV4Spec.signedHeadersLine, hquery, uriEncode_eq, sortBytes_eq, hc, hs,
    Bool.not_false]

/-! ## HTTP/2: `:authority` stands in for a missing `host` line -/

/-- the header lines the specification sees -/
def effectiveRaw (http2 : Bool) (authority : Option Bytes) (raw : List (Bytes × Bytes)) : List (Bytes × Bytes) :=
  if http2 && !(raw.any fun h => lower h.1 = b!"host") then
    match authority with
    | some a => (b!"host", a) :: raw
    | none => raw
  else raw

def hsOf (raw : List (Bytes × Bytes)) : List (Bytes × Bytes) := sortByFirst (raw.map fun p => (lower p.1, p.2))

theorem getAllPairs_hsOf (raw : List (Bytes × Bytes)) (n : Bytes) :
    getAllPairs (hsOf raw) n = (raw.filter fun h => lower h.1 = n).map fun p => (lower p.1, p.2) :=
  getAllPairs_hs { method := [], path := [], qs := [], headers := raw, signed := [], payload := .empty } n

/-- selecting with the `on_missing` closure of the code = selecting, without any fallback, from the lines the
    specification sees -/
theorem findMultiple_fallback (http2 : Bool) (authority : Option Bytes) (raw : List (Bytes × Bytes)) (names : List Bytes) :
    findMultiple (hsOf raw) names (hostFallback http2 authority) =
      findMultiple (hsOf (effectiveRaw http2 authority raw)) names (fun _ => none) := by
  unfold findMultiple
  congr 1
  funext n
  rw [getAllPairs_hsOf, getAllPairs_hsOf]
  unfold effectiveRaw hostFallback
  by_cases hcond : (http2 && !(raw.any fun h => lower h.1 = b!"host")) = true
  · rw [if_pos hcond]
    simp only [Bool.and_eq_true, Bool.not_eq_true', List.any_eq_false, decide_eq_true_eq] at hcond
    obtain ⟨h2, hnohost⟩ := hcond
    cases authority with
    | none =>
      simp only []
      cases hsel : (raw.filter fun h => lower h.1 = n).map fun p => (lower p.1, p.2) with
      | nil => by_cases hn : n = b!"host" <;> simp [hn, h2]
      | cons x xs => rfl
    | some a =>
      simp only []
      by_cases hn : n = b!"host"
      · subst hn
        have hempty : (raw.filter fun h => lower h.1 = b!"host") = [] := by
          rw [List.filter_eq_nil_iff]
          intro h hh
          simpa using hnohost h hh
        have hl : lower b!"host" = b!"host" := by decide
        simp [hempty, h2, List.filter_cons, hl]
      · have hl : lower b!"host" ≠ n := by
          have : lower b!"host" = b!"host" := by decide
          rw [this]; exact fun e => hn e.symm
        rw [List.filter_cons]
        simp only [hl, decide_false, Bool.false_eq_true, if_false]
        cases hsel : (raw.filter fun h => lower h.1 = n).map fun p => (lower p.1, p.2) with
        | nil => simp [hn]
        | cons x xs => rfl
  · rw [if_neg hcond]
    cases hsel : (raw.filter fun h => lower h.1 = n).map fun p => (lower p.1, p.2) with
    | cons x xs => rfl
    | nil =>
      simp only []
      by_cases hn : n = b!"host"
      · subst hn
        -- no `host` line, so the condition fails because the request is not HTTP/2 (or has no authority)
        have hnohost : (raw.any fun h => lower h.1 = b!"host") = false := by
          rw [List.any_eq_false]
          intro h hh
          have : (raw.filter fun h => lower h.1 = b!"host") = [] := by simpa using hsel
          rw [List.filter_eq_nil_iff] at this
          simpa using this h hh
        have h2 : http2 = false := by
          cases http2 with
          | false => rfl
          | true => simp [hnohost] at hcond
        simp [h2]
      · simp [hn]

/-! ## the presigned twin -/

/-- what `v4_check_presigned_url` feeds into `create_presigned_canonical_request` (the list of
    `X-Amz-SignedHeaders` is used in the order given) -/
def canonPresignedImpl (onMissing : Bytes → Option Bytes) (r : Req) : Bytes :=
  createPresignedCanonicalRequest r.method r.path r.qs (findMultiple r.hs r.signed onMissing)

def canonPresignedSpec (r : Req) : Bytes :=
  SigV4Spec.canonicalRequest (SigV4Spec.presignedRequest r.method r.path r.qs r.headers r.signed)

/-- the query parameters a presigned URL signs -/
def Req.signedQs (r : Req) : List (Bytes × Bytes) := r.qs.filter fun p => p.1 ≠ b!"X-Amz-Signature"

/-- WF for presigned URLs: as `wf`, on the parameters other than `X-Amz-Signature`, and the
    `X-Amz-SignedHeaders` list is sorted as the documents require (the presigned path neither sorts the list nor
    refuses a listed name without a header line: open class `sigv4-absent-signed-header` of `sigv4pre`) -/
def wfPresigned (r : Req) : Bool :=
  r.signed.all (headerOK r) && decide r.signed.Nodup && dupOrdered (r.signedQs.map encPair) &&
  (sortBytes r.signed = r.signed)

theorem canon_presigned_impl_eq_spec (onMissing : Bytes → Option Bytes) (r : Req) (h : wfPresigned r = true) :
    canonPresignedImpl onMissing r = canonPresignedSpec r := by
  simp only [wfPresigned, Bool.and_eq_true, List.all_eq_true, decide_eq_true_eq] at h
  obtain ⟨⟨⟨hh, hnd⟩, hq⟩, hsorted⟩ := h
  obtain ⟨hc, hs⟩ := findMultiple_wf r onMissing r.signed hh hnd
  have hquery : canonicalQueryImpl true r.qs = SigV4Spec.canonicalQuery r.signedQs := by
    simp only [canonicalQueryImpl, SigV4Spec.canonicalQuery, if_true]
    have : (r.signedQs.map fun p => (uriEncode true p.1, uriEncode true p.2)) =
        (r.signedQs.map fun p => (SigV4Spec.uriEncode false p.1, SigV4Spec.uriEncode false p.2)) := by
      apply List.map_congr_left
      intro p _
      simp [uriEncode_eq]
    rw [joinQuery_eq, ← this]
    have hq' : dupOrdered (r.signedQs.map fun p => (uriEncode true p.1, uriEncode true p.2)) = true := hq
    have e : (r.qs.filter fun p => p.1 ≠ b!"X-Amz-Signature") = r.signedQs := rfl
    rw [e, sortByFirst_eq_sortPairs _ hq']
  have hsorted' : SigV4Spec.sortStrs r.signed = r.signed := by rw [← sortBytes_eq]; exact hsorted
  have e2 : (r.qs.filter fun p => p.1 ≠ SigV4Spec.xAmzSignature) = r.signedQs := rfl
  simp only [canonPresignedImpl, canonPresignedSpec, createPresignedCanonicalRequest, SigV4Spec.canonicalRequest,
    SigV4Spec.presignedRequest, SigV4Spec.canonicalHeaders, SigV4Spec.signedHeadersLine, hquery, uriEncode_eq,
    hsorted', hc, hs, e2, Bool.not_false]
  rfl

end S3V.SigV4
