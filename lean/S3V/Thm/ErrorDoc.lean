import S3V.Model.ErrorDoc
import S3V.Spec.ErrorDoc
/-!
# Lemmas for C04: the independent reader reads back what the model of `serialize_error` writes
-/
namespace S3V.ErrorDocThm
open S3V S3V.Gen.Errors S3V.ErrorDoc S3V.ErrorDocSpec

/-! ## escape / unescape -/

/-- the bytes `xml::ser::text` rewrites: the five of quick-xml `escape`, and CR -/
def special (c : UInt8) : Bool := c = 60 || c = 62 || c = 38 || c = 39 || c = 34 || c = 13

theorem escByte_of_not_special {c : UInt8} (h : special c = false) : escByte c = [c] := by
  simp only [special, Bool.or_eq_false_iff, decide_eq_false_iff_not] at h
  obtain ⟨⟨⟨⟨⟨h1, h2⟩, h3⟩, h4⟩, h5⟩, h6⟩ := h
  simp [escByte, h1, h2, h3, h4, h5, h6]

theorem escByte_cases (c : UInt8) :
    (c = 60 ∧ escByte c = [38, 108, 116, 59]) ∨ (c = 62 ∧ escByte c = [38, 103, 116, 59])
    ∨ (c = 38 ∧ escByte c = [38, 97, 109, 112, 59]) ∨ (c = 39 ∧ escByte c = [38, 97, 112, 111, 115, 59])
    ∨ (c = 34 ∧ escByte c = [38, 113, 117, 111, 116, 59]) ∨ (c = 13 ∧ escByte c = [38, 35, 49, 51, 59])
    ∨ (special c = false ∧ escByte c = [c]) := by
  by_cases h1 : c = 60
  · subst h1; left; exact ⟨rfl, by decide⟩
  by_cases h2 : c = 62
  · subst h2; right; left; exact ⟨rfl, by decide⟩
  by_cases h3 : c = 38
  · subst h3; right; right; left; exact ⟨rfl, by decide⟩
  by_cases h4 : c = 39
  · subst h4; right; right; right; left; exact ⟨rfl, by decide⟩
  by_cases h5 : c = 34
  · subst h5; right; right; right; right; left; exact ⟨rfl, by decide⟩
  by_cases h6 : c = 13
  · subst h6; right; right; right; right; right; left; exact ⟨rfl, by decide⟩
  · have hs : special c = false := by simp [special, h1, h2, h3, h4, h5, h6]
    right; right; right; right; right; right
    exact ⟨hs, escByte_of_not_special hs⟩

/-- no byte of an escaped byte is `<`, and none is CR -/
theorem escByte_mem {c b : UInt8} (hb : b ∈ escByte c) : b ≠ 60 ∧ b ≠ 13 := by
  rcases escByte_cases c with ⟨_, h⟩ | ⟨_, h⟩ | ⟨_, h⟩ | ⟨_, h⟩ | ⟨_, h⟩ | ⟨_, h⟩ | ⟨hs, h⟩
  all_goals rw [h] at hb
  · simp at hb; rcases hb with rfl | rfl | rfl | rfl <;> decide
  · simp at hb; rcases hb with rfl | rfl | rfl | rfl <;> decide
  · simp at hb; rcases hb with rfl | rfl | rfl | rfl | rfl <;> decide
  · simp at hb; rcases hb with rfl | rfl | rfl | rfl | rfl | rfl <;> decide
  · simp at hb; rcases hb with rfl | rfl | rfl | rfl | rfl | rfl <;> decide
  · simp at hb; rcases hb with rfl | rfl | rfl | rfl | rfl <;> decide
  · simp at hb; subst hb
    constructor
    · intro h60; subst h60; simp [special] at hs
    · intro h13; subst h13; simp [special] at hs

/-- escaped text contains neither `<` nor a carriage return, whatever the text was -/
theorem escape_mem {s : Bytes} {b : UInt8} (hb : b ∈ escape s) : b ≠ 60 ∧ b ≠ 13 := by
  induction s with
  | nil => simp [escape] at hb
  | cons c r ih =>
    simp only [escape, List.mem_append] at hb
    rcases hb with hb | hb
    · exact escByte_mem hb
    · exact ih hb

/-- `&#13;` is read as U+000D -/
theorem resolve_cr : resolveEntity [35, 49, 51] = some [13] := by decide

/-- reading an escaped byte followed by anything: the byte comes back -/
theorem unescapeGo_escByte (c : UInt8) (t : Bytes) :
    unescapeGo (escByte c ++ t) none = (unescapeGo t none).map (c :: ·) := by
  rcases escByte_cases c with ⟨rfl, h⟩ | ⟨rfl, h⟩ | ⟨rfl, h⟩ | ⟨rfl, h⟩ | ⟨rfl, h⟩ | ⟨rfl, h⟩ | ⟨hs, h⟩
  all_goals rw [h]
  · simp [unescapeGo, resolveEntity]
  · simp [unescapeGo, resolveEntity]
  · simp [unescapeGo, resolveEntity]
  · simp [unescapeGo, resolveEntity]
  · simp [unescapeGo, resolveEntity]
  · simp [unescapeGo, resolve_cr]
  · have h38 : c ≠ 38 := by intro h38; subst h38; simp [special] at hs
    simp [unescapeGo, h38]

/-- `unescape ∘ escape = id`, with any continuation: the small lemma the round trip rests on -/
theorem unescapeGo_escape (s t : Bytes) :
    unescapeGo (escape s ++ t) none = (unescapeGo t none).map (s ++ ·) := by
  induction s with
  | nil => simp [escape]
  | cons c r ih =>
    simp only [escape, List.append_assoc]
    rw [unescapeGo_escByte, ih]
    cases unescapeGo t none <;> simp

theorem unescape_escape (s : Bytes) : unescape (escape s) = some s := by
  have := unescapeGo_escape s []
  simpa [unescape, unescapeGo] using this

theorem textValue_escape {s : Bytes} (h : xmlText s = true) : textValue (escape s) = some s := by
  simp [textValue, unescape_escape, h]

/-! ## end-of-line normalisation is the identity without CR -/

theorem normalizeEolGo_id {s : Bytes} (h : (13 : UInt8) ∉ s) : normalizeEolGo s false = s := by
  induction s with
  | nil => rfl
  | cons c r ih =>
    have hc : c ≠ 13 := fun hc => h (by simp [hc])
    have hr : (13 : UInt8) ∉ r := fun hr => h (by simp [hr])
    simp [normalizeEolGo, hc, ih hr]

/-! ## tokens -/

theorem stripPrefix_append (p r : Bytes) : stripPrefix p (p ++ r) = some r := by
  induction p with
  | nil => simp [stripPrefix]
  | cons a p ih => simp [stripPrefix, ih]

theorem spanBytes_append {p : UInt8 → Bool} {a : Bytes} {c : UInt8} {r : Bytes}
    (ha : ∀ b ∈ a, p b = true) (hc : p c = false) : spanBytes p (a ++ c :: r) = (a, c :: r) := by
  induction a with
  | nil => simp [spanBytes, hc]
  | cons x a ih =>
    have hx : p x = true := ha x (by simp)
    have := ih (fun b hb => ha b (by simp [hb]))
    simp [spanBytes, hx, this]

theorem afterPiEnd_append {p r : Bytes} (hp : (63 : UInt8) ∉ p) :
    afterPiEnd (p ++ 63 :: 62 :: r) = some r := by
  induction p with
  | nil => simp [afterPiEnd]
  | cons c p ih =>
    have hc : c ≠ 63 := fun hc => hp (by simp [hc])
    have hr : (63 : UInt8) ∉ p := fun hr => hp (by simp [hr])
    simp [afterPiEnd, hc, ih hr]

theorem skipWs_lt (r : Bytes) : skipWs (60 :: r) = 60 :: r := by
  simp [skipWs, isWs]

/-- a tag name of the model is a `Name`, and the byte after it in a start tag is not a name byte -/
def goodName (n : Bytes) : Prop := isName n = true ∧ ∀ b ∈ n, isNameChar b = true

theorem readChild_element {name : Bytes} (hn : goodName name) (text rest : Bytes) :
    readChild (element name text ++ rest) = some (name, escape text, rest) := by
  obtain ⟨h1, h2⟩ := hn
  have e1 : element name text ++ rest
      = [60] ++ (name ++ 62 :: (escape text ++ 60 :: (47 :: (name ++ 62 :: rest)))) := by
    simp [element]
  have hspan1 : spanBytes isNameChar (name ++ 62 :: (escape text ++ 60 :: (47 :: (name ++ 62 :: rest))))
      = (name, 62 :: (escape text ++ 60 :: (47 :: (name ++ 62 :: rest)))) :=
    spanBytes_append h2 (by decide)
  have hspan2 : spanBytes (fun b => b != 60) (escape text ++ 60 :: (47 :: (name ++ 62 :: rest)))
      = (escape text, 60 :: (47 :: (name ++ 62 :: rest))) :=
    spanBytes_append (fun b hb => by simpa using (escape_mem hb).1) (by decide)
  have hclose : stripPrefix ([60, 47] ++ name ++ [62]) (60 :: (47 :: (name ++ 62 :: rest))) = some rest := by
    have : (60 : UInt8) :: (47 :: (name ++ 62 :: rest)) = ([60, 47] ++ name ++ [62]) ++ rest := by simp
    rw [this]; exact stripPrefix_append _ _
  rw [e1]
  unfold readChild
  rw [stripPrefix_append]
  simp only [hspan1, h1, if_true]
  have h62 : stripPrefix [62] (62 :: (escape text ++ 60 :: (47 :: (name ++ 62 :: rest))))
      = some (escape text ++ 60 :: (47 :: (name ++ 62 :: rest))) := by
    simp [stripPrefix]
  simp only [h62, hspan2, hclose]

theorem good_tCode : goodName tCode := by
  refine ⟨by decide, by decide⟩

theorem good_tMessage : goodName tMessage := by
  refine ⟨by decide, by decide⟩

theorem good_tRequestId : goodName tRequestId := by
  refine ⟨by decide, by decide⟩

end S3V.ErrorDocThm

namespace S3V.ErrorDocThm
open S3V S3V.Gen.Errors S3V.ErrorDoc S3V.ErrorDocSpec

/-! ## the children loop on what the model writes -/

/-- `</Error>` -/
def closing : Bytes := [60, 47] ++ tError ++ [62]

theorem goodName_head {n : Bytes} (hn : goodName n) : ∃ c r, n = c :: r ∧ isNameStart c = true := by
  obtain ⟨h1, _⟩ := hn
  cases n with
  | nil => simp [isName] at h1
  | cons c r => exact ⟨c, r, rfl, by simpa [isName] using h1⟩

theorem readChildren_element {n : Bytes} (hn : goodName n) (t rest : Bytes) (fuel : Nat) :
    readChildren (fuel + 1) (element n t ++ rest)
      = (readChildren fuel rest).map (fun kt => ((n, escape t) :: kt.1, kt.2)) := by
  obtain ⟨c, r, rfl, hc⟩ := goodName_head hn
  have hc47 : c ≠ 47 := by intro h; subst h; simp [isNameStart] at hc
  have hshape : element (c :: r) t ++ rest = 60 :: c :: (r ++ 62 :: (escape t ++ 60 :: 47 :: (c :: r ++ 62 :: rest))) := by
    simp [element]
  have hws : skipWs (element (c :: r) t ++ rest) = element (c :: r) t ++ rest := by
    rw [hshape]; exact skipWs_lt _
  have hcl : startsWithClose (element (c :: r) t ++ rest) = false := by
    rw [hshape]; simp [startsWithClose, hc47]
  rw [readChildren, hws, hcl, readChild_element hn]
  cases hrc : readChildren fuel rest with
  | none => simp [hrc]
  | some kt => obtain ⟨k, tl⟩ := kt; simp [hrc]

theorem readChildren_closing (rest : Bytes) (fuel : Nat) :
    readChildren (fuel + 1) (closing ++ rest) = some ([], closing ++ rest) := by
  have hshape : closing ++ rest = 60 :: 47 :: (tError ++ 62 :: rest) := by simp [closing]
  rw [readChildren, hshape, skipWs_lt]
  simp [startsWithClose]

/-- the children `serialize_error` writes, as the reader sees them -/
def kidsOf (name : Bytes) (msg rid : Option Bytes) : List (Bytes × Bytes) :=
  (tCode, escape name) :: ((msg.map fun m => (tMessage, escape m)).toList ++ (rid.map fun r => (tRequestId, escape r)).toList)

theorem readChildren_kids (name : Bytes) (msg rid : Option Bytes) (rest : Bytes) (fuel : Nat) (hf : 4 ≤ fuel) :
    readChildren fuel
        (element tCode name ++ (optElement tMessage msg ++ (optElement tRequestId rid ++ (closing ++ rest))))
      = some (kidsOf name msg rid, closing ++ rest) := by
  obtain ⟨f, rfl⟩ : ∃ f, fuel = f + 4 := ⟨fuel - 4, by omega⟩
  cases msg <;> cases rid <;>
    simp [optElement, kidsOf, readChildren_element good_tCode, readChildren_element good_tMessage,
      readChildren_element good_tRequestId, readChildren_closing]

/-! ## the whole document -/

/-- the body `serialize_error` writes for an error whose code is called `name` -/
def bodyOf (name : Bytes) (e : S3Error) (noDecl : Bool) : Bytes :=
  (if noDecl then [] else xmlDecl) ++ errorXml name e

theorem errorXml_shape (name : Bytes) (e : S3Error) :
    errorXml name e = [60] ++ tError ++ [62]
      ++ (element tCode name ++ (optElement tMessage e.message ++ (optElement tRequestId e.requestId ++ (closing ++ [])))) := by
  simp [errorXml, closing]

theorem cr_escape (t : Bytes) : (13 : UInt8) ∉ escape t :=
  fun h => (escape_mem h).2 rfl

theorem cr_element {n : Bytes} (t : Bytes) (hn : (13 : UInt8) ∉ n) : (13 : UInt8) ∉ element n t := by
  have ht' := cr_escape t
  simp [element, hn, ht']

theorem cr_optElement {n : Bytes} (t : Option Bytes) (hn : (13 : UInt8) ∉ n) : (13 : UInt8) ∉ optElement n t := by
  cases t with
  | none => simp [optElement]
  | some x => exact cr_element x hn

/-- the body never contains a carriage return: the fixed parts have none and the text writer turns each
    into a character reference -/
theorem cr_bodyOf (name : Bytes) (e : S3Error) (noDecl : Bool) : (13 : UInt8) ∉ bodyOf name e noDecl := by
  have h0 : (13 : UInt8) ∉ xmlDecl := by decide
  have h1 : (13 : UInt8) ∉ tError := by decide
  have h2 := cr_element (n := tCode) name (by decide)
  have h3 := cr_optElement (n := tMessage) e.message (by decide)
  have h4 := cr_optElement (n := tRequestId) e.requestId (by decide)
  cases noDecl <;> simp [bodyOf, errorXml, h0, h1, h2, h3, h4]

theorem skipDecl_bodyOf (name : Bytes) (e : S3Error) (noDecl : Bool) :
    skipDecl (bodyOf name e noDecl) = some (errorXml name e) := by
  cases noDecl with
  | true =>
    have : bodyOf name e true = 60 :: 69 :: ([114, 114, 111, 114] ++ [62]
        ++ (element tCode name ++ (optElement tMessage e.message ++ (optElement tRequestId e.requestId ++ (closing ++ []))))) := by
      rw [bodyOf, errorXml_shape]; simp [tError]
    have h2 : stripPrefix declOpen (bodyOf name e true) = none := by
      rw [this]; simp [declOpen, stripPrefix]
    simp only [skipDecl, h2]
    simp [bodyOf]
  | false =>
    have hsplit : bodyOf name e false
        = declOpen ++ (([32, 118, 101, 114, 115, 105, 111, 110, 61, 34, 49, 46, 48, 34, 32,
            101, 110, 99, 111, 100, 105, 110, 103, 61, 34, 85, 84, 70, 45, 56, 34] : Bytes) ++ 63 :: 62 :: errorXml name e) := by
      simp [bodyOf, xmlDecl, declOpen]
    rw [skipDecl, hsplit, stripPrefix_append]
    exact afterPiEnd_append (by decide)

theorem childrenNamed_code (name : Bytes) (msg rid : Option Bytes) :
    childrenNamed nCode (kidsOf name msg rid) = [escape name] := by
  cases msg <;> cases rid <;> simp [childrenNamed, kidsOf, nCode, tCode, tMessage, tRequestId]

theorem optChild_message (name : Bytes) (msg rid : Option Bytes) (hm : ∀ x, msg = some x → xmlText x = true) :
    optChild nMessage (kidsOf name msg rid) = some msg := by
  cases msg with
  | none => cases rid <;> simp [optChild, childrenNamed, kidsOf, nMessage, tCode, tMessage, tRequestId]
  | some m =>
    have := textValue_escape (hm m rfl)
    cases rid <;> simp [optChild, childrenNamed, kidsOf, nMessage, tCode, tMessage, tRequestId, this]

theorem optChild_requestId (name : Bytes) (msg rid : Option Bytes) (hr : ∀ x, rid = some x → xmlText x = true) :
    optChild nRequestId (kidsOf name msg rid) = some rid := by
  cases rid with
  | none => cases msg <;> simp [optChild, childrenNamed, kidsOf, nRequestId, tCode, tMessage, tRequestId]
  | some r =>
    have := textValue_escape (hr r rfl)
    cases msg <;> simp [optChild, childrenNamed, kidsOf, nRequestId, tCode, tMessage, tRequestId, this]

/-- the reader reads back code, message and request id from the document the model writes -/
theorem parseErrorDoc_bodyOf (name : Bytes) (e : S3Error) (noDecl : Bool)
    (hn : xmlText name = true) (hm : ∀ x, e.message = some x → xmlText x = true)
    (hr : ∀ x, e.requestId = some x → xmlText x = true) :
    parseErrorDoc (bodyOf name e noDecl)
      = some { code := name, message := e.message, requestId := e.requestId } := by
  have hnorm : normalizeEol (bodyOf name e noDecl) = bodyOf name e noDecl :=
    normalizeEolGo_id (cr_bodyOf name e noDecl)
  have hopen : stripPrefix ([60] ++ nError ++ [62]) (skipWs (errorXml name e))
      = some (element tCode name ++ (optElement tMessage e.message ++ (optElement tRequestId e.requestId ++ (closing ++ [])))) := by
    rw [errorXml_shape]
    have : ([60] ++ tError ++ [62] ++ (element tCode name ++ (optElement tMessage e.message
        ++ (optElement tRequestId e.requestId ++ (closing ++ [])))))
        = 60 :: (tError ++ [62] ++ (element tCode name ++ (optElement tMessage e.message
        ++ (optElement tRequestId e.requestId ++ (closing ++ []))))) := by simp
    rw [this, skipWs_lt]
    have h2 : (60 : UInt8) :: (tError ++ [62] ++ (element tCode name ++ (optElement tMessage e.message
        ++ (optElement tRequestId e.requestId ++ (closing ++ [])))))
        = ([60] ++ nError ++ [62]) ++ (element tCode name ++ (optElement tMessage e.message
        ++ (optElement tRequestId e.requestId ++ (closing ++ [])))) := by simp [tError, nError]
    rw [h2]; exact stripPrefix_append _ _
  have hkids := readChildren_kids name e.message e.requestId []
    ((element tCode name ++ (optElement tMessage e.message ++ (optElement tRequestId e.requestId ++ (closing ++ [])))).length + 1)
    (by simp [closing, tError]; omega)
  have hclose : stripPrefix ([60, 47] ++ nError ++ [62]) (closing ++ []) = some [] := by
    have : closing ++ [] = ([60, 47] ++ nError ++ [62]) ++ [] := by simp [closing, tError, nError]
    rw [this]; exact stripPrefix_append _ _
  unfold parseErrorDoc
  rw [hnorm, skipDecl_bodyOf]
  simp only [hopen, hkids, hclose]
  simp [skipWs, childrenNamed_code, optChild_message name e.message e.requestId hm,
    optChild_requestId name e.message e.requestId hr, textValue_escape hn]

end S3V.ErrorDocThm
