import S3V.Spec.Route
/-!
# Certified checkers for the route table

`checkRules` walks an arm's rule list symbolically for one operation: every rule that is not the operation's own
must be *refuted* by `Denotes` (one of its atoms cannot hold), the operation's own rule may fire (then the answer
is right) and must fire if all its atoms are *forced* by `Denotes`. Soundness is proved once, by induction on the
rule list, for every table; the table obligation `∀ op, checkOp op = true` is then decided by kernel evaluation
on the regenerated table.
-/
namespace S3V.RouteThm
open S3V.Gen S3V.Route S3V.RouteSpec

/-- under `Denotes s`, the atom cannot hold -/
def refuted (s : OpSpec) : Atom → Bool
  | .qHas k => !allowedQ s k
  | .qPat k v => !allowedQ s k || s.litPats.any (fun kv => kv.1 == k && kv.2 != v)
  | .hHas h => !allowedH s h

/-- under `Denotes s`, the atom must hold -/
def forced (s : OpSpec) : Atom → Bool
  | .qHas k => s.litFlags.contains k || (s.litPats.map (·.1)).contains k || s.reqQ.contains k
  | .qPat k v => s.litPats.contains (k, v)
  | .hHas h => s.reqH.contains h

theorem refuted_sound {s r a} (hd : Denotes s r) (h : refuted s a = true) : Atom.holds r a = false := by
  cases a with
  | qHas k =>
    simp only [refuted, Bool.not_eq_true'] at h
    simp only [Atom.holds, decide_eq_false_iff_not, Decidable.not_not]
    by_cases hk : r.q k = .absent
    · exact hk
    · have := hd.onlyQ k hk; rw [h] at this; cases this
  | qPat k v =>
    simp only [Atom.holds, decide_eq_false_iff_not]
    intro hq
    simp only [refuted, Bool.or_eq_true, Bool.not_eq_true', List.any_eq_true, Bool.and_eq_true, beq_iff_eq,
      bne_iff_ne, ne_eq] at h
    rcases h with h | ⟨kv, hkv, hk, hv⟩
    · have := hd.onlyQ k (by rw [hq]; intro hc; cases hc); rw [h] at this; cases this
    · have := hd.pats kv hkv
      rw [hk, hq] at this
      injection this with this
      exact hv this.symm
  | hHas h' =>
    simp only [refuted, Bool.not_eq_true'] at h
    simp only [Atom.holds]
    cases hh : r.h h' with
    | false => rfl
    | true => have := hd.onlyH h' hh; rw [h] at this; cases this

theorem forced_sound {s r a} (hd : Denotes s r) (h : forced s a = true) : Atom.holds r a = true := by
  cases a with
  | qHas k =>
    simp only [forced, Bool.or_eq_true, List.contains_iff_mem, List.mem_map] at h
    simp only [Atom.holds, decide_eq_true_eq]
    rcases h with (h | ⟨kv, hkv, hk⟩) | h
    · exact hd.flags k h
    · have := hd.pats kv hkv; rw [hk] at this; rw [this]; intro hc; cases hc
    · exact hd.reqQ k h
  | qPat k v =>
    simp only [forced, List.contains_iff_mem] at h
    simp only [Atom.holds, decide_eq_true_eq]
    exact hd.pats (k, v) h
  | hHas h' =>
    simp only [forced, List.contains_iff_mem] at h
    exact hd.reqH h' h

/-- symbolic walk for operation `op` expecting the buffered-body flag `full` -/
def checkRules (s : OpSpec) (op : Op) (full : Bool) : List Rule → Option (Op × Bool) → Bool
  | [], d => d == some (op, full)
  | rule :: rest, d =>
    if rule.op == op && rule.full == full then
      rule.conds.all (forced s) || checkRules s op full rest d
    else
      rule.conds.any (refuted s) && checkRules s op full rest d

theorem checkRules_sound {s op full r} (hd : Denotes s r) :
    ∀ (rules : List Rule) (d : Option (Op × Bool)),
      checkRules s op full rules d = true → resolveRules r rules d = some (op, full) := by
  intro rules
  induction rules with
  | nil => intro d h; simpa [checkRules, resolveRules] using h
  | cons rule rest ih =>
    intro d h
    simp only [checkRules] at h
    simp only [resolveRules]
    split at h
    · rename_i hown
      simp only [Bool.and_eq_true, beq_iff_eq] at hown
      by_cases hfire : rule.conds.all (Atom.holds r) = true
      · simp [hfire, hown.1, hown.2]
      · simp only [hfire, Bool.false_eq_true, if_false]
        simp only [Bool.or_eq_true] at h
        rcases h with h | h
        · exfalso; apply hfire
          rw [List.all_eq_true] at h ⊢
          intro a ha; exact forced_sound hd (h a ha)
        · exact ih d h
    · simp only [Bool.and_eq_true, List.any_eq_true] at h
      obtain ⟨⟨a, ha, hr⟩, hrest⟩ := h
      have : rule.conds.all (Atom.holds r) = false := by
        rw [List.all_eq_false]
        exact ⟨a, ha, by rw [refuted_sound hd hr]; simp⟩
      simp only [this, Bool.false_eq_true, if_false]
      exact ih d hrest

/-- the per-operation table obligation -/
def checkOp (op : Op) : Bool :=
  let s := smithySpec op
  checkRules s op (usesBufferedBody op) (routeTable s.method s.pk).rules (routeTable s.method s.pk).dflt

theorem checkOp_sound {op r} (h : checkOp op = true) (hd : Denotes (smithySpec op) r) :
    resolve r = some (op, usesBufferedBody op) := by
  unfold resolve
  rw [hd.method, hd.pk]
  exact checkRules_sound hd _ _ h

/-! ## Converse direction: whatever the router answers is weakly denoted -/

/-- the rule's atoms carry the literal parts of its operation's Smithy URI and its required discriminating headers -/
def ruleCarries (s : OpSpec) (conds : List Atom) : Bool :=
  s.litFlags.all (fun k => conds.any fun a => match a with
    | .qHas k' => k' == k
    | .qPat k' _ => k' == k
    | _ => false)
  && s.litPats.all (fun kv => conds.contains (.qPat kv.1 kv.2))
  && s.reqH.all (fun h => conds.contains (.hHas h))

def checkArm (m : Meth) (pk : PK) : Bool :=
  let arm := routeTable m pk
  arm.rules.all (fun rule =>
    let s := smithySpec rule.op
    s.method == m && s.pk == pk && ruleCarries s rule.conds)
  && (match arm.dflt with
      | none => true
      | some (op, _) =>
        let s := smithySpec op
        s.method == m && s.pk == pk && ruleCarries s [])

theorem ruleCarries_sound {s : OpSpec} {conds r} (hc : ruleCarries s conds = true)
    (hall : conds.all (Atom.holds r) = true) :
    (∀ k ∈ s.litFlags, r.q k ≠ .absent) ∧ (∀ kv ∈ s.litPats, r.q kv.1 = .once kv.2) ∧
      (∀ h ∈ s.reqH, r.h h = true) := by
  simp only [ruleCarries, Bool.and_eq_true, List.all_eq_true] at hc
  rw [List.all_eq_true] at hall
  obtain ⟨⟨h1, h2⟩, h3⟩ := hc
  refine ⟨?_, ?_, ?_⟩
  · intro k hk
    have := h1 k hk
    rw [List.any_eq_true] at this
    obtain ⟨a, ha, hm⟩ := this
    have hh := hall a ha
    cases a with
    | qHas k' =>
      simp only [beq_iff_eq] at hm; subst hm
      simpa [Atom.holds] using hh
    | qPat k' v =>
      simp only [beq_iff_eq] at hm; subst hm
      simp only [Atom.holds, decide_eq_true_eq] at hh
      rw [hh]; intro hc; cases hc
    | hHas _ => cases hm
  · intro kv hkv
    have := h2 kv hkv
    rw [List.contains_iff_mem] at this
    simpa [Atom.holds] using hall _ this
  · intro h hh
    have := h3 h hh
    rw [List.contains_iff_mem] at this
    simpa [Atom.holds] using hall _ this

theorem resolveRules_weak {m pk r} (hm : r.method = m) (hpk : r.pk = pk) :
    ∀ (rules : List Rule) (d : Option (Op × Bool)),
      (rules.all (fun rule =>
        let s := smithySpec rule.op
        s.method == m && s.pk == pk && ruleCarries s rule.conds) = true) →
      (match d with
        | none => True
        | some (op, _) => (smithySpec op).method = m ∧ (smithySpec op).pk = pk ∧ ruleCarries (smithySpec op) [] = true) →
      ∀ op b, resolveRules r rules d = some (op, b) → WeaklyDenotes (smithySpec op) r := by
  intro rules
  induction rules with
  | nil =>
    intro d _ hd op b hres
    simp only [resolveRules] at hres
    subst hres
    simp only at hd
    obtain ⟨h1, h2, h3⟩ := hd
    obtain ⟨f, p, hh⟩ := ruleCarries_sound (r := r) h3 (by simp)
    exact ⟨by rw [hm, h1], by rw [hpk, h2], f, p, hh⟩
  | cons rule rest ih =>
    intro d hall hd op b hres
    rw [List.all_cons, Bool.and_eq_true] at hall
    simp only [resolveRules] at hres
    split at hres
    · rename_i hfire
      injection hres with hres
      injection hres with h1 h2
      subst h1
      have hr := hall.1
      simp only [Bool.and_eq_true, beq_iff_eq] at hr
      obtain ⟨f, p, hh⟩ := ruleCarries_sound hr.2 hfire
      exact ⟨by rw [hm, hr.1.1], by rw [hpk, hr.1.2], f, p, hh⟩
    · exact ih d hall.2 hd op b hres

theorem checkArm_sound {r op b} (h : checkArm r.method r.pk = true) (hres : resolve r = some (op, b)) :
    WeaklyDenotes (smithySpec op) r := by
  unfold checkArm at h
  simp only [Bool.and_eq_true] at h
  unfold resolve at hres
  refine resolveRules_weak rfl rfl _ _ h.1 ?_ op b hres
  have h2 := h.2
  cases hd : (routeTable r.method r.pk).dflt with
  | none => trivial
  | some p =>
    obtain ⟨op', b'⟩ := p
    rw [hd] at h2
    simpa [Bool.and_eq_true, beq_iff_eq, and_assoc] using h2

/-- an operation reached through arm `(m, pk)` unwraps exactly that path kind (or none), and an operation taking
    a buffered body is reached only with the full-body flag -/
def armConsistent (m : Meth) (pk : PK) : Bool :=
  let ok := fun (op : Op) (full : Bool) =>
    (unwrapsKind op == pk || unwrapsKind op == .root) && (!usesBufferedBody op || full)
  (routeTable m pk).rules.all (fun rule => ok rule.op rule.full)
    && (match (routeTable m pk).dflt with
        | none => true
        | some (op, full) => ok op full)

end S3V.RouteThm
