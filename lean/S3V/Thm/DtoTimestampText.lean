import S3V.Model.DtoTimestamp
namespace S3V.Dto

theorem digitChar_val {k : Nat} (hk : k < 10) : (digitChar k).toNat - 48 = k := by
  have := digitChar_toNat hk; omega

theorem exactlyDigits_cons (n k acc : Nat) (rest : Bytes) (hk : k < 10) :
    exactlyDigits (n + 1) (digitChar k :: rest) acc = exactlyDigits n rest (acc * 10 + k) := by
  simp only [exactlyDigits, isDigit_digitChar hk, if_true, digitChar_val hk]

theorem exactlyDigits_zero (rest : Bytes) (acc : Nat) : exactlyDigits 0 rest acc = some (acc, rest) := by
  simp [exactlyDigits]

theorem exactlyDigits_pad2 (n : Nat) (h : n < 100) (rest : Bytes) :
    exactlyDigits 2 (pad2 n ++ rest) 0 = some (n, rest) := by
  simp only [pad2, List.cons_append, List.nil_append]
  rw [exactlyDigits_cons _ _ _ _ (by omega), exactlyDigits_cons _ _ _ _ (by omega), exactlyDigits_zero]
  congr 2; omega

theorem exactlyDigits_pad4 (n : Nat) (h : n < 10000) (rest : Bytes) :
    exactlyDigits 4 (pad4 n ++ rest) 0 = some (n, rest) := by
  simp only [pad4, List.cons_append, List.nil_append]
  rw [exactlyDigits_cons _ _ _ _ (by omega), exactlyDigits_cons _ _ _ _ (by omega),
    exactlyDigits_cons _ _ _ _ (by omega), exactlyDigits_cons _ _ _ _ (by omega), exactlyDigits_zero]
  congr 2; omega

theorem expectChar_cons (c : UInt8) (r : Bytes) : expectChar c (c :: r) = some r := by
  simp [expectChar]

theorem subsecLoop_digit (k value mult : Nat) (rest : Bytes) (hk : k < 10) :
    subsecLoop (digitChar k :: rest) value mult = subsecLoop rest (value + k * mult) (mult / 10) := by
  simp only [subsecLoop, isDigit_digitChar hk, if_true, digitChar_val hk]

theorem subsecLoop_stop (c : UInt8) (hc : isDigit c = false) (value mult : Nat) (rest : Bytes) :
    subsecLoop (c :: rest) value mult = (value, c :: rest) := by
  simp [subsecLoop, hc]

theorem parseSubsec_dot_digit (k : Nat) (hk : k < 10) (rest : Bytes) :
    parseSubsec (46 :: digitChar k :: rest) = some (subsecLoop rest (k * 100000000) 10000000) := by
  show (if (46 : UInt8) = 46 then
        (if isDigit (digitChar k) = true then some (subsecLoop rest (((digitChar k).toNat - 48) * 100000000) 10000000) else none)
      else some (0, 46 :: digitChar k :: rest)) = _
  rw [if_pos rfl, if_pos (isDigit_digitChar hk), digitChar_val hk]

/-- `.` and three digits, then a non-digit: milliseconds as nanoseconds -/
theorem parseSubsec_pad3 (ms : Nat) (h : ms < 1000) (c : UInt8) (hc : isDigit c = false) (rest : Bytes) :
    parseSubsec (46 :: (pad3 ms ++ c :: rest)) = some (ms * 1000000, c :: rest) := by
  show parseSubsec (46 :: digitChar (ms / 100 % 10) :: digitChar (ms / 10 % 10) :: digitChar (ms % 10) :: c :: rest) = _
  rw [parseSubsec_dot_digit _ (by omega), subsecLoop_digit _ _ _ _ (by omega),
    subsecLoop_digit _ _ _ _ (by omega), subsecLoop_stop _ hc]
  have : ms / 100 % 10 * 100000000 + ms / 10 % 10 * 10000000 + ms % 10 * (10000000 / 10) = ms * 1000000 := by omega
  rw [this]

theorem parseSubsec_none (c : UInt8) (hc : c ≠ 46) (rest : Bytes) :
    parseSubsec (c :: rest) = some (0, c :: rest) := by
  simp [parseSubsec, hc]


theorem parse_canonical (Y m d H Mi S : Nat) (sep : UInt8) (tail offTxt : Bytes) (nanos : Nat) (off : Int)
    (hY : Y < 10000) (hm : m < 100) (hd : d < 100) (hH : H < 100) (hMi : Mi < 100) (hS : S < 60)
    (hfrac : parseSubsec tail = some (nanos, offTxt))
    (hoff : parseOffset offTxt = some (off, [])) :
    parseRfc3339Time (pad4 Y ++ 45 :: (pad2 m ++ 45 :: (pad2 d ++ sep :: (pad2 H ++ 58 :: (pad2 Mi ++ 58 :: (pad2 S ++ tail)))))) =
      if validFields Y m d H Mi S then some ⟨localSeconds Y m d H Mi S - off, nanos, off⟩ else none := by
  unfold parseRfc3339Time
  simp only [exactlyDigits_pad4 Y hY, exactlyDigits_pad2 m hm, exactlyDigits_pad2 d hd, exactlyDigits_pad2 H hH,
    exactlyDigits_pad2 Mi hMi, exactlyDigits_pad2 S (by omega : S < 100), expectChar_cons, hfrac, hoff,
    bind, Option.bind]
  have h60 : (S == 60) = false := by simp; omega
  simp only [h60, Bool.false_eq_true, if_false, Bool.false_and, List.isEmpty_nil, Bool.not_true]
  cases validFields (↑Y) m d H Mi S <;> simp


theorem parseOffset_Z : parseOffset [90] = some (0, []) := by decide

/-- `+hh:mm` / `-hh:mm` with hh ≤ 23, mm ≤ 59 -/
theorem parseOffset_hm (neg : Bool) (oh om : Nat) (hoh : oh ≤ 23) (hom : om ≤ 59) :
    parseOffset ((if neg then 45 else 43) :: (pad2 oh ++ 58 :: pad2 om)) =
      some ((if neg then -((oh * 3600 + om * 60 : Nat) : Int) else ((oh * 3600 + om * 60 : Nat) : Int)), []) := by
  have h2 : exactlyDigits 2 (pad2 om) 0 = some (om, []) := by
    have := exactlyDigits_pad2 om (by omega) []
    simpa using this
  have hoh' : ¬ oh > 23 := by omega
  have hom' : ¬ om > 59 := by omega
  cases neg
  · show parseOffset (43 :: _) = _
    unfold parseOffset
    simp only [exactlyDigits_pad2 oh (by omega), expectChar_cons, h2, bind, Option.bind, hoh', hom']
    simp
  · show parseOffset (45 :: _) = _
    unfold parseOffset
    simp only [exactlyDigits_pad2 oh (by omega), expectChar_cons, h2, bind, Option.bind, hoh', hom']
    simp

/-! ### the nanosecond of a parsed RFC 3339 text -/

theorem subsecLoop_le (s : Bytes) (value mult : Nat) :
    (subsecLoop s value mult).1 ≤ value + 10 * mult - (if mult = 0 then 0 else 1) := by
  induction s generalizing value mult with
  | nil => simp [subsecLoop]; split <;> omega
  | cons c s ih =>
    simp only [subsecLoop]
    split
    · rename_i hd
      have hc : c.toNat - 48 ≤ 9 := by
        simp [isDigit] at hd
        omega
      have := ih (value + (c.toNat - 48) * mult) (mult / 10)
      have h9 : (c.toNat - 48) * mult ≤ 9 * mult := Nat.mul_le_mul_right _ hc
      split at this <;> split <;> omega
    · simp; split <;> omega

theorem parseSubsec_lt {input : Bytes} {p : Nat × Bytes} (h : parseSubsec input = some p) :
    p.1 < 1000000000 := by
  unfold parseSubsec at h
  split at h
  · split at h
    · split at h
      · split at h
        · rename_i d r' hd
          injection h with h
          have := subsecLoop_le r' ((d.toNat - 48) * 100000000) 10000000
          have hd9 : d.toNat - 48 ≤ 9 := by simp [isDigit] at hd; omega
          rw [h] at this
          have h0 : (10000000 : Nat) ≠ 0 := by omega
          rw [if_neg h0] at this
          omega
        · cases h
      · cases h
    · injection h with h; subst h; simp
  · injection h with h; subst h; simp

theorem parseRfc3339Time_nanos_lt {e : Bytes} {t : Ts} (h : parseRfc3339Time e = some t) : t.nanos < 1000000000 := by
  unfold parseRfc3339Time at h
  simp only [Option.bind_eq_bind, Option.bind_eq_some_iff] at h
  obtain ⟨a, -, a1, -, a2, -, a3, -, a4, -, a5, -, a6, -, a7, -, a8, -, a9, -, a10, -, a11, h11, a12, -, h⟩ := h
  have hn := parseSubsec_lt h11
  repeat' split at h
  all_goals first
    | (simp at h; done)
    | (simp at h; rw [← h]; simp only []; first | omega | (split <;> omega))

/-- the `DateTime` arm of `Timestamp::parse` hands on what `time` parsed (the year check of b7ef08a only refuses) -/
theorem parseRfc3339_time {e : Bytes} {t : Ts} (h : parseRfc3339 e = some t) : parseRfc3339Time e = some t := by
  unfold parseRfc3339 at h
  cases ht : parseRfc3339Time e with
  | none => simp [ht] at h
  | some t' =>
    simp only [ht] at h
    split at h
    · split at h
      · exact h
      · cases h
    · cases h

theorem parseRfc3339_nanos_lt {e : Bytes} {t : Ts} (h : parseRfc3339 e = some t) : t.nanos < 1000000000 :=
  parseRfc3339Time_nanos_lt (parseRfc3339_time h)

end S3V.Dto
