import S3V.Model.DtoTimestamp
namespace S3V.Dto

theorem digitChar_val {k : Nat} (hk : k < 10) : (digitChar k).toNat - 48 = k := by
  have := digitChar_toNat hk; omega

theorem exactlyDigits_cons (n k acc : Nat) (rest : Bytes) (hk : k < 10) :
    exactlyDigits (n + 1) (digitChar k :: rest) acc = exactlyDigits n rest (acc * 10 + k) := by
  simp only [exactlyDigits, isDigit_digitChar hk, if_true, digitChar_val hk]

theorem exactlyDigits_zero (rest : Bytes) (acc : Nat) : exactlyDigits 0 rest acc = some (acc, rest) := by
  simp [exactlyDigits]

theorem exactlyDigits_pad2 (n : Nat) (h : n < 100) (rest : Bytes) :
    exactlyDigits 2 (pad2 n ++ rest) 0 = some (n, rest) := by
  simp only [pad2, List.cons_append, List.nil_append]
  rw [exactlyDigits_cons _ _ _ _ (by omega), exactlyDigits_cons _ _ _ _ (by omega), exactlyDigits_zero]
  congr 2; omega

theorem exactlyDigits_pad4 (n : Nat) (h : n < 10000) (rest : Bytes) :
    exactlyDigits 4 (pad4 n ++ rest) 0 = some (n, rest) := by
  simp only [pad4, List.cons_append, List.nil_append]
  rw [exactlyDigits_cons _ _ _ _ (by omega), exactlyDigits_cons _ _ _ _ (by omega),
    exactlyDigits_cons _ _ _ _ (by omega), exactlyDigits_cons _ _ _ _ (by omega), exactlyDigits_zero]
  congr 2; omega

theorem expectChar_cons (c : UInt8) (r : Bytes) : expectChar c (c :: r) = some r := by
  simp [expectChar]

theorem subsecLoop_digit (k value mult : Nat) (rest : Bytes) (hk : k < 10) :
    subsecLoop (digitChar k :: rest) value mult = subsecLoop rest (value + k * mult) (mult / 10) := by
  simp only [subsecLoop, isDigit_digitChar hk, if_true, digitChar_val hk]

theorem subsecLoop_stop (c : UInt8) (hc : isDigit c = false) (value mult : Nat) (rest : Bytes) :
    subsecLoop (c :: rest) value mult = (value, c :: rest) := by
  simp [subsecLoop, hc]

theorem parseSubsec_dot_digit (k : Nat) (hk : k < 10) (rest : Bytes) :
    parseSubsec (46 :: digitChar k :: rest) = some (subsecLoop rest (k * 100000000) 10000000) := by
  show (if (46 : UInt8) = 46 then
        (if isDigit (digitChar k) = true then some (subsecLoop rest (((digitChar k).toNat - 48) * 100000000) 10000000) else none)
      else some (0, 46 :: digitChar k :: rest)) = _
  rw [if_pos rfl, if_pos (isDigit_digitChar hk), digitChar_val hk]

/-- `.` and three digits, then a non-digit: milliseconds as nanoseconds -/
theorem parseSubsec_pad3 (ms : Nat) (h : ms < 1000) (c : UInt8) (hc : isDigit c = false) (rest : Bytes) :
    parseSubsec (46 :: (pad3 ms ++ c :: rest)) = some (ms * 1000000, c :: rest) := by
  show parseSubsec (46 :: digitChar (ms / 100 % 10) :: digitChar (ms / 10 % 10) :: digitChar (ms % 10) :: c :: rest) = _
  rw [parseSubsec_dot_digit _ (by omega), subsecLoop_digit _ _ _ _ (by omega),
    subsecLoop_digit _ _ _ _ (by omega), subsecLoop_stop _ hc]
  have : ms / 100 % 10 * 100000000 + ms / 10 % 10 * 10000000 + ms % 10 * (10000000 / 10) = ms * 1000000 := by omega
  rw [this]

theorem parseSubsec_none (c : UInt8) (hc : c ≠ 46) (rest : Bytes) :
    parseSubsec (c :: rest) = some (0, c :: rest) := by
  simp [parseSubsec, hc]

end S3V.Dto
