import S3V.Model.PrepareBody
import S3V.Thm.Body
import S3V.Thm.Prepare
import S3V.Thm.HttpLabel
/-!
# Lemmas for `S3V/Props/C02Length.lean`: the two models of `extract_full_body` agree; the router's flag is the
operation's need (regenerated table)
-/
namespace S3V.PrepareBody
open S3V S3V.Gen S3V.Route S3V.Prepare S3V.MultipartSpec

/-- `S3V.Prepare.extractFullBody` on the observation of a body is `extractFull` on the body, result dropped -/
theorem extractFullBody_obs (cl : Option Nat) (body : ReqBody) :
    Prepare.extractFullBody cl body.obs = (extractFull cl body).map fun _ => () := by
  cases body with
  | once b => rfl
  | stream fs =>
    simp only [ReqBody.obs, extractFull, Body.extractFullBody]
    cases hs : Body.storeAll fs with
    | none => rfl
    | some bytes =>
      simp only [Option.map_some, Prepare.extractFullBody]
      by_cases hb : bytes = []
      · subst hb; simp [Except.map]
      · have hl : bytes.length ≠ 0 := fun h => hb (List.eq_nil_of_length_eq_zero h)
        simp only [hl, if_false, hb, ne_eq, not_false_eq_true, if_true]
        cases cl with
        | none => rfl
        | some n =>
          by_cases hn : bytes.length = n
          · simp [hn, Except.map]
          · simp [hn, Except.map]

/-- `extractFull` on a streamed body in terms of C09's specification of buffered bodies -/
theorem extractFull_stream (cl : Option Nat) (fs : List Body.Frame) :
    extractFull cl (.stream fs) =
      match specBuffered cl (dataBeforeError fs) (hasError fs) with
      | .ok b => .ok b
      | .internalError => .error .internalError
      | .missingContentLength => .error .missingContentLength
      | .incompleteBody => .error .incompleteBody := by
  have h := Body.extractFullBody_spec cl fs
  simp only [extractFull]
  cases he : Body.extractFullBody cl fs <;> rw [he] at h <;> simp only [Body.Full.toSpec] at h <;> rw [← h]

/-- every rule and default of the generated router carries exactly the flag the operation's decoder needs -/
theorem route_flags : ∀ (m : Meth) (pk : PK),
    ((routeTable m pk).rules.all fun rule => rule.full == usesBufferedBody rule.op) = true ∧
    (∀ q ∈ (routeTable m pk).dflt, q.2 = usesBufferedBody q.1) := by
  intro m pk; cases m <;> cases pk <;> decide +kernel

theorem resolve_flag {r : RReq} {op : Op} {full : Bool} (h : resolve r = some (op, full)) :
    full = usesBufferedBody op := by
  have hc := route_flags r.method r.pk
  unfold resolve at h
  rcases HttpLabel.resolveRules_mem h with ⟨rule, hm, h1, h2⟩ | hd
  · have := List.all_eq_true.mp hc.1 rule hm
    rw [h1, h2] at this
    exact beq_iff_eq.mp this
  · exact hc.2 (op, full) (by rw [hd]; rfl)

end S3V.PrepareBody
