import S3V.Thm.FsStoreInv
/-!
# C18 lemmas: the names both sides accept (bucket names, keys)
-/
namespace S3V.FsStore
open S3V.StoreSpec

theorem splitSlash_no_slash_eq : ∀ (b : Bytes), slash ∉ b → FsStore.splitSlash b = [b] := by
  intro b
  induction b with
  | nil => intro _; rfl
  | cons c cs ih =>
    intro h
    have hc : c ≠ slash := fun e => h (by simp [e])
    have hcs : slash ∉ cs := fun hm => h (List.mem_cons_of_mem _ hm)
    unfold FsStore.splitSlash
    simp [hc, ih hcs]

theorem bucketDir_of_bucketOk {b : Bytes} (h : bucketOk b = true) : bucketDir b = some b := by
  unfold bucketOk at h
  simp only [Bool.and_eq_true, Bool.not_eq_true', decide_eq_true_eq] at h
  obtain ⟨⟨⟨h1, h2⟩, h3⟩, h4⟩ := h
  have hs : slash ∉ b := by
    intro hm
    have : b.contains 47 = true := List.contains_iff_mem.mpr hm
    rw [h2] at this; exact absurd this (by simp)
  have hh : b.head? ≠ some slash := by
    intro e
    exact hs (List.mem_of_mem_head? e)
  unfold bucketDir
  simp only [hh, if_false, splitSlash_no_slash_eq b hs]
  have h3' : b ≠ dot := h3
  have h4' : b ≠ dotdot := h4
  simp [h1, h3', h4']


theorem splitSlash_eq (k : Bytes) : StoreSpec.splitSlash k = FsStore.splitSlash k := by
  induction k with
  | nil => rfl
  | cons c cs ih =>
    unfold StoreSpec.splitSlash FsStore.splitSlash
    rw [ih]; rfl

/-- the store refuses exactly the keys the backend's path mapping refuses -/
theorem keyOk_iff_keyPath (k : Bytes) : keyOk k = (keyPath k).isSome := by
  have hA : (FsStore.splitSlash k).any (fun x => decide (x = dotdot)) =
      ((FsStore.splitSlash k).filter fun s => decide (s ≠ [] ∧ s ≠ dot)).any (fun x => decide (x = dotdot)) := by
    rw [Bool.eq_iff_iff, List.any_eq_true, List.any_eq_true]
    constructor
    · rintro ⟨x, hx, hxe⟩
      refine ⟨x, List.mem_filter.mpr ⟨hx, ?_⟩, hxe⟩
      have : x = dotdot := by simpa using hxe
      subst this
      decide
    · rintro ⟨x, hx, hxe⟩
      exact ⟨x, (List.mem_filter.mp hx).1, hxe⟩
  have hB : (FsStore.splitSlash k).any (fun s => decide (s ≠ [] ∧ s ≠ dot)) =
      decide (((FsStore.splitSlash k).filter fun s => decide (s ≠ [] ∧ s ≠ dot)) ≠ []) := by
    rw [Bool.eq_iff_iff, List.any_eq_true, decide_eq_true_eq]
    constructor
    · rintro ⟨x, hx, hxe⟩ he
      have : x ∈ (FsStore.splitSlash k).filter fun s => decide (s ≠ [] ∧ s ≠ dot) :=
        List.mem_filter.mpr ⟨hx, hxe⟩
      rw [he] at this
      exact absurd this (by simp)
    · intro he
      obtain ⟨x, hx⟩ := List.exists_mem_of_ne_nil _ he
      exact ⟨x, (List.mem_filter.mp hx).1, (List.mem_filter.mp hx).2⟩
  unfold keyOk keyPath
  rw [splitSlash_eq]
  show (decide (k.head? ≠ some slash) && !(FsStore.splitSlash k).any (fun x => decide (x = dotdot)) &&
      (FsStore.splitSlash k).any (fun s => decide (s ≠ [] ∧ s ≠ dot))) = _
  rw [hA, hB]
  generalize (FsStore.splitSlash k).filter (fun s => decide (s ≠ [] ∧ s ≠ dot)) = X
  by_cases hh : k.head? = some slash
  · rw [if_pos hh]; simp [hh]
  · rw [if_neg hh]
    by_cases hd : X.any (fun x => decide (x = dotdot)) = true
    · rw [if_pos hd]; rw [hd]; simp
    · rw [if_neg hd]
      rw [Bool.not_eq_true] at hd
      rw [hd]
      by_cases he : X = []
      · rw [if_pos he]; simp [he]
      · rw [if_neg he]; simp [he, hh]

end S3V.FsStore
