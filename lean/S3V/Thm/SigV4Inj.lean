import S3V.Thm.SigV4Canon
/-!
# Lemmas: the canonical request determines the signed view (unique line splitting)
-/
namespace S3V.SigV4
open S3V

/-! ## splitting at a separator -/

theorem splitOn_ne_nil (sep : UInt8) (s : Bytes) : splitOn sep s ≠ [] := by
  induction s with
  | nil => simp [splitOn]
  | cons c cs ih =>
    simp only [splitOn]
    split
    · simp
    · split <;> simp

theorem splitOn_no_sep {sep : UInt8} {a : Bytes} (h : sep ∉ a) : splitOn sep a = [a] := by
  induction a with
  | nil => rfl
  | cons c cs ih =>
    have hc : c ≠ sep := fun e => h (by simp [e])
    have hcs : sep ∉ cs := fun e => h (by simp [e])
    simp [splitOn, hc, ih hcs]

theorem splitOn_append_sep {sep : UInt8} {a : Bytes} (rest : Bytes) (h : sep ∉ a) :
    splitOn sep (a ++ sep :: rest) = a :: splitOn sep rest := by
  induction a with
  | nil => simp [splitOn]
  | cons c cs ih =>
    have hc : c ≠ sep := fun e => h (by simp [e])
    have hcs : sep ∉ cs := fun e => h (by simp [e])
    simp only [List.cons_append, splitOn, hc, if_false, ih hcs]

/-- a block of lines, each terminated by the separator -/
theorem splitOn_lines {sep : UInt8} (lines : List Bytes) (rest : Bytes) (h : ∀ l ∈ lines, sep ∉ l) :
    splitOn sep (lines.flatMap (· ++ [sep]) ++ rest) = lines ++ splitOn sep rest := by
  induction lines with
  | nil => rfl
  | cons l ls ih =>
    simp only [List.flatMap_cons, List.append_assoc, List.singleton_append, List.cons_append, List.nil_append]
    rw [splitOn_append_sep _ (h l (by simp)), ih (fun x hx => h x (by simp [hx]))]

/-! ## `UriEncode` can be undone -/

theorem hexVal8_upper : ∀ n, n < 16 → hexVal8 (SigV4Spec.upperHexDigit n) = some n := by decide

theorem not_unreserved_37 : SigV4Spec.unreserved 37 = false := by decide

theorem pctGo_encodeByte (keep : Bool) (c : UInt8) (rest : Bytes) :
    pctGo 0 (SigV4Spec.uriEncodeByte keep c ++ rest) = c :: pctGo 0 rest := by
  unfold SigV4Spec.uriEncodeByte
  have h37u : c = 37 → SigV4Spec.unreserved c = false := fun e => e ▸ not_unreserved_37
  by_cases hu : SigV4Spec.unreserved c = true
  · have : c ≠ 37 := fun e => by rw [h37u e] at hu; cases hu
    simp [hu, pctGo, this]
  · by_cases hs : (c = 47 && keep) = true
    · have : c ≠ 37 := by
        intro e; subst e; simp at hs
      simp [hu, hs, pctGo, this]
    · simp only [hu, hs, Bool.false_eq_true, if_false, List.cons_append, List.nil_append]
      have hhi : c.toNat / 16 < 16 := by have := c.toNat_lt; omega
      have hlo : c.toNat % 16 < 16 := by omega
      have hp : hexPair (SigV4Spec.upperHexDigit (c.toNat / 16) :: SigV4Spec.upperHexDigit (c.toNat % 16) :: rest) = some c := by
        simp only [hexPair, hexVal8_upper _ hhi, hexVal8_upper _ hlo]
        congr 1
        apply UInt8.toNat_inj.mp
        simp [UInt8.toNat_ofNat]
        have := c.toNat_lt
        omega
      simp [pctGo, hp]

theorem pctDecode_uriEncode (keep : Bool) (s : Bytes) : pctDecode (SigV4Spec.uriEncode keep s) = s := by
  unfold pctDecode SigV4Spec.uriEncode
  induction s with
  | nil => rfl
  | cons c cs ih =>
    rw [List.flatMap_cons, pctGo_encodeByte, ih]

theorem uriEncode_injective (keep : Bool) {a b : Bytes} (h : SigV4Spec.uriEncode keep a = SigV4Spec.uriEncode keep b) :
    a = b := by
  have := congrArg pctDecode h
  rwa [pctDecode_uriEncode, pctDecode_uriEncode] at this

/-- no reserved byte survives encoding: the output consists of unreserved bytes, `%`, and `/` when kept -/
theorem mem_uriEncode {keep : Bool} {s : Bytes} {x : UInt8} (h : x ∈ SigV4Spec.uriEncode keep s) :
    SigV4Spec.unreserved x = true ∨ x = 37 ∨ (x = 47 ∧ keep = true) := by
  unfold SigV4Spec.uriEncode at h
  rw [List.mem_flatMap] at h
  obtain ⟨c, _, hx⟩ := h
  unfold SigV4Spec.uriEncodeByte at hx
  by_cases hu : SigV4Spec.unreserved c = true
  · simp [hu] at hx; subst hx; exact Or.inl hu
  · by_cases hs : (c = 47 && keep) = true
    · simp [hu, hs] at hx; subst hx
      simp at hs
      exact Or.inr (Or.inr hs)
    · simp only [hu, hs, Bool.false_eq_true, if_false, List.mem_cons, List.not_mem_nil, or_false] at hx
      have hex : ∀ n, n < 16 → SigV4Spec.unreserved (SigV4Spec.upperHexDigit n) = true := by decide
      have hhi : c.toNat / 16 < 16 := by have := c.toNat_lt; omega
      have hlo : c.toNat % 16 < 16 := by omega
      rcases hx with hx | hx | hx
      · exact Or.inr (Or.inl hx)
      · subst hx; exact Or.inl (hex _ hhi)
      · subst hx; exact Or.inl (hex _ hlo)

theorem uriEncode_no (keep : Bool) (s : Bytes) (x : UInt8) (h1 : SigV4Spec.unreserved x = false) (h2 : x ≠ 37)
    (h3 : x ≠ 47) : x ∉ SigV4Spec.uriEncode keep s := by
  intro h
  rcases mem_uriEncode h with h | h | h
  · rw [h1] at h; cases h
  · exact h2 h
  · exact h3 h.1

/-! ## joining and splitting -/

theorem mem_joinWith {sep : Bytes} {l : List Bytes} {x : UInt8} (h : x ∈ SigV4Spec.joinWith sep l) :
    x ∈ sep ∨ ∃ i ∈ l, x ∈ i := by
  induction l with
  | nil => simp [SigV4Spec.joinWith] at h
  | cons a rest ih =>
    cases rest with
    | nil => exact Or.inr ⟨a, by simp, by simpa [SigV4Spec.joinWith] using h⟩
    | cons b rest' =>
      simp only [SigV4Spec.joinWith, List.mem_append] at h
      rcases h with (h | h) | h
      · exact Or.inr ⟨a, by simp, h⟩
      · exact Or.inl h
      · rcases ih h with h | ⟨i, hi, hx⟩
        · exact Or.inl h
        · exact Or.inr ⟨i, by simp [hi], hx⟩

theorem splitOn_joinWith {sep : UInt8} (items : List Bytes) (hne : items ≠ []) (h : ∀ i ∈ items, sep ∉ i) :
    splitOn sep (SigV4Spec.joinWith [sep] items) = items := by
  induction items with
  | nil => exact absurd rfl hne
  | cons a rest ih =>
    cases rest with
    | nil => simp [SigV4Spec.joinWith, splitOn_no_sep (h a (by simp))]
    | cons b rest' =>
      simp only [SigV4Spec.joinWith, List.append_assoc, List.singleton_append]
      rw [splitOn_append_sep _ (h a (by simp)), ih (by simp) (fun i hi => h i (by simp [hi]))]

theorem joinWith_inj {sep : UInt8} {l₁ l₂ : List Bytes} (h₁ : ∀ i ∈ l₁, sep ∉ i ∧ i ≠ []) (h₂ : ∀ i ∈ l₂, sep ∉ i ∧ i ≠ [])
    (h : SigV4Spec.joinWith [sep] l₁ = SigV4Spec.joinWith [sep] l₂) : l₁ = l₂ := by
  have nonempty : ∀ (l : List Bytes), (∀ i ∈ l, sep ∉ i ∧ i ≠ []) → l ≠ [] → SigV4Spec.joinWith [sep] l ≠ [] := by
    intro l hl hne
    cases l with
    | nil => exact absurd rfl hne
    | cons a rest =>
      have ha := (hl a (by simp)).2
      cases rest with
      | nil => simpa [SigV4Spec.joinWith] using ha
      | cons b r => simp [SigV4Spec.joinWith, ha]
  by_cases e1 : l₁ = []
  · by_cases e2 : l₂ = []
    · rw [e1, e2]
    · subst e1
      exact absurd h.symm (nonempty l₂ h₂ e2)
  · by_cases e2 : l₂ = []
    · subst e2
      exact absurd h (nonempty l₁ h₁ e1)
    · have := congrArg (splitOn sep) h
      rwa [splitOn_joinWith _ e1 (fun i hi => (h₁ i hi).1), splitOn_joinWith _ e2 (fun i hi => (h₂ i hi).1)] at this

theorem splitFirst_append' {sep : UInt8} {n : Bytes} (v : Bytes) (h : sep ∉ n) :
    splitFirst sep (n ++ sep :: v) = (n, v) := by
  induction n with
  | nil => simp [splitFirst]
  | cons c cs ih =>
    have hc : c ≠ sep := fun e => h (by simp [e])
    have hcs : sep ∉ cs := fun e => h (by simp [e])
    simp only [List.cons_append, splitFirst, hc, if_false, ih hcs]

theorem splitFirst_append {sep : UInt8} {n : Bytes} (v : Bytes) (h : sep ∉ n) :
    splitFirst sep (n ++ [sep] ++ v) = (n, v) := by
  rw [List.append_assoc, List.singleton_append]
  exact splitFirst_append' v h

/-- `name sep value` items determine the pairs when the names are free of the separator -/
theorem keyed_items_inj {sep : UInt8} {l₁ l₂ : List (Bytes × Bytes)} (h₁ : ∀ p ∈ l₁, sep ∉ p.1) (h₂ : ∀ p ∈ l₂, sep ∉ p.1)
    (h : l₁.map (fun p => p.1 ++ [sep] ++ p.2) = l₂.map (fun p => p.1 ++ [sep] ++ p.2)) : l₁ = l₂ := by
  have back : ∀ (l : List (Bytes × Bytes)), (∀ p ∈ l, sep ∉ p.1) →
      (l.map (fun p => p.1 ++ [sep] ++ p.2)).map (splitFirst sep) = l := by
    intro l hl
    induction l with
    | nil => rfl
    | cons p ps ih =>
      simp only [List.map_cons]
      rw [splitFirst_append _ (hl p (by simp)), ih (fun q hq => hl q (by simp [hq]))]
  have := congrArg (List.map (splitFirst sep)) h
  rwa [back l₁ h₁, back l₂ h₂] at this

/-! ## the signed view -/

/-- what the canonical request says about a request: method, path, the canonical parameter list,
    each signed header with its canonical value, the payload line -/
structure SignedView where
  method : Bytes
  path : Bytes
  /-- encoded parameters in canonical order -/
  query : List (Bytes × Bytes)
  /-- (name, canonical value) of each signed header, sorted by name -/
  headers : List (Bytes × Bytes)
  payload : Bytes
  deriving DecidableEq

def encodedQuery (q : List (Bytes × Bytes)) : List (Bytes × Bytes) :=
  SigV4Spec.sortPairs (q.map fun p => (SigV4Spec.uriEncode false p.1, SigV4Spec.uriEncode false p.2))

def signedView (r : SigV4Spec.Request) : SignedView :=
  { method := r.method, path := r.path, query := encodedQuery r.query,
    headers := (SigV4Spec.sortStrs r.signedHeaders).map fun n =>
      (n, SigV4Spec.joinWith [44] (SigV4Spec.headerValues r.headers n)),
    payload := r.payload }

/-- no component may contain a line feed; header names contain no colon (HTTP guarantees both for
    names, `HeaderValue::to_str` guarantees it for values, `Method` for the method) -/
structure LineSafe (r : SigV4Spec.Request) : Prop where
  method : 10 ∉ r.method
  names : ∀ n ∈ r.signedHeaders, 10 ∉ n ∧ 58 ∉ n
  values : ∀ h ∈ r.headers, 10 ∉ h.2
  payload : 10 ∉ r.payload

theorem mem_collapseSpaces {x : UInt8} {l : Bytes} (h : x ∈ SigV4Spec.collapseSpaces l) : x ∈ l := by
  induction l with
  | nil => simp [SigV4Spec.collapseSpaces] at h
  | cons a rest ih =>
    cases rest with
    | nil => simpa [SigV4Spec.collapseSpaces] using h
    | cons b rest' =>
      simp only [SigV4Spec.collapseSpaces] at h
      split at h
      · exact List.mem_cons_of_mem _ (ih h)
      · rcases List.mem_cons.mp h with h | h
        · simp [h]
        · exact List.mem_cons_of_mem _ (ih h)

theorem mem_trimAll {x : UInt8} {v : Bytes} (h : x ∈ SigV4Spec.trimAll v) : x ∈ v := by
  unfold SigV4Spec.trimAll at h
  have h1 := mem_collapseSpaces h
  rw [List.mem_reverse] at h1
  have h2 := (List.dropWhile_sublist _).subset h1
  rw [List.mem_reverse] at h2
  exact (List.dropWhile_sublist _).subset h2

theorem mem_sortStrs {n : Bytes} {l : List Bytes} (h : n ∈ SigV4Spec.sortStrs l) : n ∈ l := by
  have hins : ∀ (x : Bytes) (l : List Bytes), n ∈ SigV4Spec.insertStr x l → n = x ∨ n ∈ l := by
    intro x l
    induction l with
    | nil => simp [SigV4Spec.insertStr]
    | cons y ys ih2 =>
      simp only [SigV4Spec.insertStr]
      split
      · simp
      · simp only [List.mem_cons]
        rintro (h | h)
        · simp [h]
        · rcases ih2 h with h | h <;> simp [h]
  induction l with
  | nil => simp [SigV4Spec.sortStrs] at h
  | cons x xs ih =>
    rcases hins _ _ h with h | h
    · simp [h]
    · simp [ih h]

/-- the header lines of the canonical request -/
def headerLines (r : SigV4Spec.Request) : List Bytes :=
  (signedView r).headers.map fun p => p.1 ++ [58] ++ p.2

theorem canonicalHeaders_lines (r : SigV4Spec.Request) :
    SigV4Spec.canonicalHeaders r = (headerLines r).flatMap (· ++ [10]) := by
  unfold SigV4Spec.canonicalHeaders headerLines signedView
  simp only [List.map_map]
  induction SigV4Spec.sortStrs r.signedHeaders with
  | nil => rfl
  | cons n ns ih => simp only [List.flatMap_cons, List.map_cons, ih, Function.comp]

theorem no_lf_in_lines {r : SigV4Spec.Request} (hs : LineSafe r) : ∀ l ∈ headerLines r, (10 : UInt8) ∉ l := by
  intro l hl
  unfold headerLines signedView at hl
  simp only [List.map_map, List.mem_map, Function.comp] at hl
  obtain ⟨n, hn, rfl⟩ := hl
  have hn' := hs.names n (mem_sortStrs hn)
  intro hmem
  simp only [List.mem_append, List.mem_singleton] at hmem
  rcases hmem with (hmem | hmem) | hmem
  · exact hn'.1 hmem
  · cases hmem
  · rcases mem_joinWith hmem with h | ⟨i, hi, hx⟩
    · simp at h
    · unfold SigV4Spec.headerValues at hi
      rw [List.mem_map] at hi
      obtain ⟨hd, hhd, rfl⟩ := hi
      exact hs.values hd (List.mem_filter.mp hhd).1 (mem_trimAll hx)

/-- the lines of the canonical request -/
theorem splitOn_canonical (r : SigV4Spec.Request) (hs : LineSafe r) :
    splitOn 10 (SigV4Spec.canonicalRequest r) =
      r.method :: SigV4Spec.uriEncode true r.path :: SigV4Spec.canonicalQuery r.query ::
        (headerLines r ++ [[], SigV4Spec.signedHeadersLine r, r.payload]) := by
  have hpath : (10 : UInt8) ∉ SigV4Spec.uriEncode true r.path := uriEncode_no _ _ _ (by decide) (by decide) (by decide)
  have hquery : (10 : UInt8) ∉ SigV4Spec.canonicalQuery r.query := by
    intro h
    unfold SigV4Spec.canonicalQuery at h
    rcases mem_joinWith h with h | ⟨i, hi, hx⟩
    · simp at h
    · rw [List.mem_map] at hi
      obtain ⟨p, hp, rfl⟩ := hi
      have hp' := mem_sortPairs.mp hp
      rw [List.mem_map] at hp'
      obtain ⟨q, _, rfl⟩ := hp'
      simp only [List.mem_append, List.mem_singleton] at hx
      rcases hx with (hx | hx) | hx
      · exact uriEncode_no _ _ _ (by decide) (by decide) (by decide) hx
      · cases hx
      · exact uriEncode_no _ _ _ (by decide) (by decide) (by decide) hx
  have hsigned : (10 : UInt8) ∉ SigV4Spec.signedHeadersLine r := by
    intro h
    unfold SigV4Spec.signedHeadersLine at h
    rcases mem_joinWith h with h | ⟨i, hi, hx⟩
    · simp at h
    · exact (hs.names i (mem_sortStrs hi)).1 hx
  unfold SigV4Spec.canonicalRequest
  rw [canonicalHeaders_lines]
  simp only [List.append_assoc, List.singleton_append, List.cons_append, List.nil_append]
  rw [splitOn_append_sep _ hs.method, splitOn_append_sep _ hpath, splitOn_append_sep _ hquery,
    splitOn_lines _ _ (no_lf_in_lines hs)]
  have e : splitOn 10 (10 :: (SigV4Spec.signedHeadersLine r ++ 10 :: r.payload)) =
      [] :: splitOn 10 (SigV4Spec.signedHeadersLine r ++ 10 :: r.payload) := by simp [splitOn]
  rw [e, splitOn_append_sep _ hsigned, splitOn_no_sep hs.payload]

theorem canon_injective {r₁ r₂ : SigV4Spec.Request} (h₁ : LineSafe r₁) (h₂ : LineSafe r₂)
    (h : SigV4Spec.canonicalRequest r₁ = SigV4Spec.canonicalRequest r₂) : signedView r₁ = signedView r₂ := by
  have hsplit := congrArg (splitOn 10) h
  rw [splitOn_canonical r₁ h₁, splitOn_canonical r₂ h₂] at hsplit
  injection hsplit with hm hrest
  injection hrest with hp hrest
  injection hrest with hq hrest
  have hlen : ([[], SigV4Spec.signedHeadersLine r₁, r₁.payload] : List Bytes).length =
      ([[], SigV4Spec.signedHeadersLine r₂, r₂.payload] : List Bytes).length := rfl
  obtain ⟨hlines, htail⟩ := List.append_inj' hrest hlen
  have hpl : r₁.payload = r₂.payload := by
    injection htail with _ t; injection t with _ t; injection t
  -- header lines → (name, value) pairs
  have hnames : ∀ (r : SigV4Spec.Request), LineSafe r → ∀ p ∈ (signedView r).headers, (58 : UInt8) ∉ p.1 := by
    intro r hr p hp
    unfold signedView at hp
    simp only [List.mem_map] at hp
    obtain ⟨n, hn, rfl⟩ := hp
    exact (hr.names n (mem_sortStrs hn)).2
  have hheaders : (signedView r₁).headers = (signedView r₂).headers :=
    keyed_items_inj (hnames r₁ h₁) (hnames r₂ h₂) hlines
  -- query line → encoded parameter list
  have hqsafe : ∀ (q : List (Bytes × Bytes)), ∀ p ∈ encodedQuery q, (61 : UInt8) ∉ p.1 ∧ (38 : UInt8) ∉ p.1 ∧ (38 : UInt8) ∉ p.2 := by
    intro q p hp
    unfold encodedQuery at hp
    have hp' := mem_sortPairs.mp hp
    rw [List.mem_map] at hp'
    obtain ⟨x, _, rfl⟩ := hp'
    exact ⟨uriEncode_no _ _ _ (by decide) (by decide) (by decide), uriEncode_no _ _ _ (by decide) (by decide) (by decide),
      uriEncode_no _ _ _ (by decide) (by decide) (by decide)⟩
  have hitems : ∀ (q : List (Bytes × Bytes)), ∀ i ∈ (encodedQuery q).map (fun p => p.1 ++ [61] ++ p.2),
      (38 : UInt8) ∉ i ∧ i ≠ [] := by
    intro q i hi
    rw [List.mem_map] at hi
    obtain ⟨p, hp, rfl⟩ := hi
    obtain ⟨_, ha, hb⟩ := hqsafe q p hp
    constructor
    · simp only [List.mem_append, List.mem_singleton, not_or]
      exact ⟨⟨ha, by decide⟩, hb⟩
    · simp
  have hquery : encodedQuery r₁.query = encodedQuery r₂.query := by
    apply keyed_items_inj (sep := 61) (fun p hp => (hqsafe _ p hp).1) (fun p hp => (hqsafe _ p hp).1)
    exact joinWith_inj (hitems _) (hitems _) hq
  have hpath : r₁.path = r₂.path := uriEncode_injective true hp
  unfold signedView at hheaders ⊢
  simp only [SignedView.mk.injEq]
  exact ⟨hm, hpath, hquery, hheaders, hpl⟩

end S3V.SigV4
