import S3V.Thm.FsStoreList
/-!
# C18: `copy_object` refines the store
-/
namespace S3V.FsStore
open S3V.StoreSpec

/-- abstraction and invariant after a file was written at `p` (key `k`) of an existing bucket `b`, the side
    tables changed at most under `(b, k)` -/
theorem write_core {s s' : State} (hi : Inv s) {b k c : Bytes} {t ds : Tree} {p : Path}
    (ht : s.tree b = some t) (hp : PathOk p) (hcanon : joinWith [slash] p = k) (hw : t.node p ≠ some Node.dir)
    (hds : ∀ e ∈ ds, e.2 = Node.dir ∧ e.1 ∈ prefixes p.dropLast) (hnd : keysNodup (t ++ ds))
    (hb' : s'.buckets = alInsert b (alInsert p (.file c) (t ++ ds)) s.buckets)
    (hm : ∀ x, x ≠ (b, k) → alLookup x s'.metas = alLookup x s.metas)
    (hin : ∀ x, x ≠ (b, k) → alLookup x s'.infos = alLookup x s.infos)
    (_hmok : ∀ e ∈ s'.metas, e.2 ≠ MetaFile.corrupt) :
    (abs s').buckets = ((abs s).setObj b k ⟨c, absMeta s' b k, (alLookup (b, k) s'.infos).getD {}⟩).buckets ∧
    keysNodup s'.buckets ∧ (∀ e ∈ s'.buckets, keysNodup e.2) ∧ (∀ e ∈ s'.buckets, ∀ x ∈ e.2, PathOk x.1) := by
  have habs : (abs s).bucket b = some (absTree s b t) := by rw [abs_bucket, ht]; rfl
  constructor
  · rw [abs_write hi ht hp hcanon hw hds hnd hb' hm hin]
    unfold Store.setObj
    simp only [habs, Option.getD_some]
  · exact inv_write_buckets hi ht hp hds hnd hb'

/-- `copy_object` may be compared with the store: names agree and side-file names fit; for admissible names the source
    bucket exists [else fs:missing-bucket-reported-as-missing-key] and the source is not a leftover directory; when the
    copy can happen, source and destination differ [fs:copy-onto-itself-destroys-object], the destination path is free,
    the destination has no metadata file the source lacks [fs:stale-metadata-after-copy] and both have the same recorded
    checksums [fs:stale-checksum-after-copy] -/
def CopyOk (s : State) (sb sk db dk : Bytes) : Prop :=
  NameOk sb ∧ CanonKey sk ∧ NameOk db ∧ CanonKey dk ∧
  sideTooLong sb sk false = false ∧ sideTooLong db dk false = false ∧
  (bucketOk sb = true → bucketOk db = true →
    match keyPath sk, keyPath dk with
    | some sp, some dp =>
      match s.tree sb with
      | none => False
      | some st =>
        match st.node sp with
        | none => True
        | some .dir => False
        | some (.file _) =>
          match s.tree db with
          | none => True
          | some dt =>
            (sb, sk) ≠ (db, dk) ∧ WriteOk dt dp ∧
            (alLookup (sb, sk) s.metas ≠ none ∨ alLookup (db, dk) s.metas = none) ∧
            (alLookup (db, dk) s.infos).getD {} = (alLookup (sb, sk) s.infos).getD {}
    | _, _ => True)

theorem copy_refines (H : Hashes) (dl : Nat) {s : State} (hi : Inv s) {sb sk db dk : Bytes}
    (hg : CopyOk s sb sk db dk) :
    (step H dl s (.copyObject sb sk db dk)).2 = (StoreSpec.step H (abs s) (.copyObject sb sk db dk)).2 ∧
    abs (step H dl s (.copyObject sb sk db dk)).1 = (StoreSpec.step H (abs s) (.copyObject sb sk db dk)).1 ∧
    Inv (step H dl s (.copyObject sb sk db dk)).1 := by
  obtain ⟨hsname, ⟨_, hscanon⟩, hdname, ⟨_, hdcanon⟩, hsshort, hdshort, hmain⟩ := hg
  rcases hsname.cases with ⟨hsbo, hsbd⟩ | ⟨hsbo, hsbd⟩
  · cases hskp : keyPath sk with
    | none =>
      have hko : keyOk sk = false := by rw [keyOk_iff_keyPath, hskp]; rfl
      simp [step, StoreSpec.step, objPath, hsbd, hskp, hsbo, hko, hi]
    | some sp =>
      have hsko : keyOk sk = true := by rw [keyOk_iff_keyPath, hskp]; rfl
      rcases hdname.cases with ⟨hdbo, hdbd⟩ | ⟨hdbo, hdbd⟩
      · cases hdkp : keyPath dk with
        | none =>
          have hko : keyOk dk = false := by rw [keyOk_iff_keyPath, hdkp]; rfl
          simp [step, StoreSpec.step, objPath, hsbd, hskp, hsbo, hsko, hdbd, hdkp, hdbo, hko, hi]
        | some dp =>
          have hdko : keyOk dk = true := by rw [keyOk_iff_keyPath, hdkp]; rfl
          have hmain := hmain hsbo hdbo
          rw [hskp, hdkp] at hmain
          rw [hskp] at hscanon
          rw [hdkp] at hdcanon
          simp only at hmain hscanon hdcanon
          have hsp : PathOk sp := keyPath_pathOk hskp
          have hdp : PathOk dp := keyPath_pathOk hdkp
          cases hst : s.tree sb with
          | none => rw [hst] at hmain; exact absurd hmain (by simp)
          | some st =>
            rw [hst] at hmain
            simp only at hmain
            have hsabs : (abs s).bucket sb = some (absTree s sb st) := by rw [abs_bucket, hst]; rfl
            have hslook := abs_lookup_obj hi hst hsp
            rw [hscanon] at hslook
            have hsnode : s.node sb sp = st.node sp := by simp [State.node, hst]
            cases hsn : st.node sp with
            | none =>
              rw [hsn] at hslook
              simp [step, StoreSpec.step, objPath, hsbd, hskp, hsbo, hsko, hdbd, hdkp, hdbo, hdko, hsabs, hsnode, hsn,
                hslook, hi]
            | some n =>
              cases n with
              | dir => rw [hsn] at hmain; exact absurd hmain (by simp)
              | file c =>
                rw [hsn] at hslook hmain
                simp only [Option.bind_some, nodeObj] at hslook
                simp only at hmain
                cases hdt : s.tree db with
                | none =>
                  have hh : alHas db (abs s).buckets = false := by
                    rw [abs_alHas]; unfold State.tree at hdt; simp [alHas, hdt]
                  simp [step, StoreSpec.step, objPath, hsbd, hskp, hsbo, hsko, hdbd, hdkp, hdbo, hdko, hsabs, hsnode,
                    hsn, hslook, hdt, hh, hi]
                | some dt =>
                  rw [hdt] at hmain
                  simp only at hmain
                  obtain ⟨hne, hw, hmeta, hcks⟩ := hmain
                  have hh : alHas db (abs s).buckets = true := by
                    rw [abs_alHas]; unfold State.tree at hdt; simp [alHas, hdt]
                  have hdmem := tree_mem hdt
                  -- source and destination are different files
                  have hpne : ¬ (sb = db ∧ sp = dp) := by
                    rintro ⟨h1, h2⟩
                    apply hne
                    rw [h1, ← hscanon, ← hdcanon, h2]
                  obtain ⟨ds, hds, hnd, hcommit⟩ :=
                    commitFile_ok s db dp c dt (by rw [hdt]; rfl) hw (hi.tnd _ hdmem) hdp
                  have hkne : ¬ (sb = db ∧ sk = dk) := by
                    rintro ⟨h1, h2⟩; exact hne (by rw [h1, h2])
                  have hspec : StoreSpec.step H (abs s) (.copyObject sb sk db dk) =
                      ((abs s).setObj db dk ⟨c, absMeta s sb sk, (alLookup (sb, sk) s.infos).getD {}⟩,
                        .copied (some (etagOf H c))) := by
                    simp [StoreSpec.step, hsbo, hsko, hdbo, hdko, hsabs, hslook, hh, hkne]
                  cases hsm : alLookup (sb, sk) s.metas with
                  | none =>
                    have hdm : alLookup (db, dk) s.metas = none := by
                      rcases hmeta with h | h
                      · exact absurd hsm h
                      · exact h
                    have hstep : step H dl s (.copyObject sb sk db dk) =
                        ({ s with buckets := alInsert db (alInsert dp (.file c) (dt ++ ds)) s.buckets },
                          .copied (some (etagOf H c))) := by
                      simp [step, objPath, hsbd, hskp, hdbd, hdkp, hsnode, hsn, hdt, hpne, hcommit, hsshort, hsm]
                    rw [hstep, hspec]
                    obtain ⟨h1, i1, i2, i3⟩ := write_core (s' := { s with buckets := alInsert db (alInsert dp (.file c) (dt ++ ds)) s.buckets }) hi hdt hdp hdcanon hw.2 hds hnd rfl
                      (fun _ _ => rfl) (fun _ _ => rfl) hi.metaOk
                    refine ⟨rfl, ?_, ⟨i1, i2, i3, hi.metaOk, hi.und, hi.pnd, hi.upIds, hi.partIds, hi.upMetaIds⟩⟩
                    apply Store.ext'
                    · rw [h1]
                      have e1 : absMeta { s with buckets := alInsert db (alInsert dp (.file c) (dt ++ ds)) s.buckets } db dk = absMeta s sb sk := by
                        simp [absMeta, hsm, hdm]
                      rw [e1]
                      show ((abs s).setObj db dk ⟨c, absMeta s sb sk, (alLookup (db, dk) s.infos).getD {}⟩).buckets = _
                      rw [hcks]
                    · exact abs_uploads_congr rfl rfl rfl
                    · rfl
                  | some m =>
                    have hmgood : m ≠ MetaFile.corrupt := hi.metaOk _ (alLookup_mem hsm)
                    have hstep : step H dl s (.copyObject sb sk db dk) =
                        ({ s with buckets := alInsert db (alInsert dp (.file c) (dt ++ ds)) s.buckets,
                                  metas := alInsert (db, dk) m s.metas },
                          .copied (some (etagOf H c))) := by
                      simp [step, objPath, hsbd, hskp, hdbd, hdkp, hsnode, hsn, hdt, hpne, hcommit, hsshort, hsm,
                        hdshort, hne]
                    rw [hstep, hspec]
                    have hmok : ∀ e ∈ alInsert (db, dk) m s.metas, e.2 ≠ MetaFile.corrupt := by
                      intro e he
                      rcases alInsert_mem he with he | he
                      · subst he; exact hmgood
                      · exact hi.metaOk e he
                    obtain ⟨h1, i1, i2, i3⟩ := write_core (s' := { s with buckets := alInsert db (alInsert dp (.file c) (dt ++ ds)) s.buckets, metas := alInsert (db, dk) m s.metas }) hi hdt hdp hdcanon hw.2 hds hnd rfl
                      (fun x hx => alLookup_alInsert_ne hx _ _) (fun _ _ => rfl) hmok
                    refine ⟨rfl, ?_, ⟨i1, i2, i3, hmok, hi.und, hi.pnd, hi.upIds, hi.partIds, hi.upMetaIds⟩⟩
                    apply Store.ext'
                    · rw [h1]
                      have e1 : absMeta { s with buckets := alInsert db (alInsert dp (.file c) (dt ++ ds)) s.buckets, metas := alInsert (db, dk) m s.metas } db dk = absMeta s sb sk := by
                        simp [absMeta, hsm, alLookup_alInsert_self]
                      rw [e1]
                      show ((abs s).setObj db dk ⟨c, absMeta s sb sk, (alLookup (db, dk) s.infos).getD {}⟩).buckets = _
                      rw [hcks]
                    · exact abs_uploads_congr rfl rfl rfl
                    · rfl
      · simp [step, StoreSpec.step, objPath, hsbd, hskp, hsbo, hsko, hdbd, hdbo, hi]
  · simp [step, StoreSpec.step, objPath, hsbd, hsbo, hi]

end S3V.FsStore
