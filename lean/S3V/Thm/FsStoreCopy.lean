import S3V.Thm.FsStoreList
/-!
# C18: `copy_object` refines the store
-/
namespace S3V.FsStore
open S3V.StoreSpec

/-- abstraction and invariant after a file was written at `p` (key `k`) of an existing bucket `b`, the side
    tables changed at most under `(b, k)` -/
theorem write_core {s s' : State} (hi : Inv s) {b k c : Bytes} {t ds : Tree} {p : Path}
    (ht : s.tree b = some t) (hp : PathOk p) (hcanon : joinWith [slash] p = k) (hw : t.node p ≠ some Node.dir)
    (hds : ∀ e ∈ ds, e.2 = Node.dir ∧ e.1 ∈ prefixes p.dropLast) (hnd : keysNodup (t ++ ds))
    (hb' : s'.buckets = alInsert b (alInsert p (.file c) (t ++ ds)) s.buckets)
    (hm : ∀ x, x ≠ (b, k) → alLookup x s'.metas = alLookup x s.metas)
    (hin : ∀ x, x ≠ (b, k) → alLookup x s'.infos = alLookup x s.infos)
    (_hmok : ∀ e ∈ s'.metas, e.2 ≠ MetaFile.corrupt) :
    (abs s').buckets = ((abs s).setObj b k ⟨c, absMeta s' b k, (alLookup (b, k) s'.infos).getD {}⟩).buckets ∧
    keysNodup s'.buckets ∧ (∀ e ∈ s'.buckets, keysNodup e.2) ∧ (∀ e ∈ s'.buckets, ∀ x ∈ e.2, PathOk x.1) := by
  have habs : (abs s).bucket b = some (absTree s b t) := by rw [abs_bucket, ht]; rfl
  constructor
  · rw [abs_write hi ht hp hcanon hw hds hnd hb' hm hin]
    unfold Store.setObj
    simp only [habs, Option.getD_some]
  · exact inv_write_buckets hi ht hp hds hnd hb'

/-- `copy_object` may be compared with the store (a copy of an object onto itself included): names agree and side-file
    names fit; for admissible names the source is not a leftover directory (a missing source bucket is inside since
    cc244fc: `NoSuchBucket` on both sides; before: fs:missing-bucket-reported-as-missing-key); when the copy can happen the
    destination path is free. Nothing is demanded of the side files: the destination takes over the source's metadata and
    recorded checksums, or loses its own when the source has none (8faafe7; before: fs:stale-metadata-after-copy,
    fs:stale-checksum-after-copy) -/
def CopyOk (s : State) (sb sk db dk : Bytes) : Prop :=
  NameOk sb ∧ CanonKey sk ∧ NameOk db ∧ CanonKey dk ∧
  sideTooLong sb sk false = false ∧ sideTooLong db dk false = false ∧
  (bucketOk sb = true → bucketOk db = true →
    match keyPath sk, keyPath dk with
    | some sp, some dp =>
      match s.tree sb with
      | none => True
      | some st =>
        match st.node sp with
        | none => True
        | some .dir => False
        | some (.file _) =>
          match s.tree db with
          | none => True
          | some dt =>
            WriteOk dt dp
    | _, _ => True)

/-- `create_dir_all` below an existing bucket, when no prefix is a file: directories are appended -/
theorem mkdirAll_ok (s : State) (b : Bytes) (q : Path) (t : Tree) (ht : s.tree b = some t) (hnd : keysNodup t)
    (hq : ∀ x ∈ prefixes q, isFile (t.node x) = false) :
    ∃ ds : Tree, (∀ e ∈ ds, e.2 = Node.dir ∧ e.1 ∈ prefixes q) ∧ keysNodup (t ++ ds) ∧
      s.mkdirAll b q = some { s with buckets := alInsert b (t ++ ds) s.buckets } := by
  obtain ⟨ds, h1, h2, h3⟩ := addDirs_spec (prefixes q) t hnd
  refine ⟨ds, h2, h3, ?_⟩
  have hany : (prefixes q).any (fun x => isFile (t.node x)) = false := by
    rw [List.any_eq_false]
    intro x hx
    simp [hq x hx]
  unfold State.mkdirAll
  rw [ht]
  simp only [Option.getD_some, mkdirAll_eq, hany, Bool.false_eq_true, if_false, h1]
  rfl

/-- directories appended to a tree do not show in the abstraction, and keep the invariant -/
theorem dirs_core {s s' : State} (hi : Inv s) {b : Bytes} {t ds : Tree} {q : Path}
    (ht : s.tree b = some t) (hqok : ∀ x ∈ prefixes q, PathOk x)
    (hds : ∀ e ∈ ds, e.2 = Node.dir ∧ e.1 ∈ prefixes q) (hnd : keysNodup (t ++ ds))
    (hb : s'.buckets = alInsert b (t ++ ds) s.buckets) (hm : s'.metas = s.metas) (hin : s'.infos = s.infos)
    (hu : s'.uploads = s.uploads) (hpa : s'.parts = s.parts) (hum : s'.upMetas = s.upMetas)
    (hiss : s'.issued = s.issued) : abs s' = abs s ∧ Inv s' := by
  have hmem := tree_mem ht
  constructor
  · apply Store.ext'
    · rw [abs_buckets_congr hm hin, hb, alInsert_map_val (fun b t => absTree s b t)]
      rw [absTree_append_dirs s b t ds fun e he => (hds e he).1, ← abs_buckets]
      apply alInsert_same
      have := abs_bucket s b
      unfold Store.bucket at this
      rw [this, ht]; rfl
    · exact abs_uploads_congr hu hum hpa
    · exact hiss
  · refine ⟨hb ▸ keysNodup_alInsert hi.bnd, ?_, ?_, hm ▸ hi.metaOk, hu ▸ hi.und, hpa ▸ hi.pnd, ?_, ?_, ?_⟩
    · rw [hb]
      intro e he
      rcases alInsert_mem he with he | he
      · subst he; exact hnd
      · exact hi.tnd e he
    · rw [hb]
      intro e he x hx
      rcases alInsert_mem he with he | he
      · subst he
        rcases List.mem_append.mp hx with hx | hx
        · exact hi.paths _ hmem _ hx
        · exact hqok _ (hds x hx).2
      · exact hi.paths e he x hx
    · rw [hu, hiss]; exact hi.upIds
    · rw [hpa, hiss]; exact hi.partIds
    · rw [hum, hiss]; exact hi.upMetaIds

/-- abstraction and invariant after the successful path of `copy_object` between two different objects: the destination
    file is written, its metadata and internal-info side files become the source's (removed when the source has none) -/
theorem copy_core {s s' : State} (hi : Inv s) {sb sk b k c : Bytes} {t ds : Tree} {p : Path}
    (ht : s.tree b = some t) (hp : PathOk p) (hcanon : joinWith [slash] p = k) (hw : t.node p ≠ some Node.dir)
    (hds : ∀ e ∈ ds, e.2 = Node.dir ∧ e.1 ∈ prefixes p.dropLast) (hnd : keysNodup (t ++ ds))
    (hb' : s'.buckets = alInsert b (alInsert p (.file c) (t ++ ds)) s.buckets)
    (hmetas : s'.metas = (alLookup (sb, sk) s.metas).elim (alErase (b, k) s.metas) (fun m => alInsert (b, k) m s.metas))
    (hinfos : s'.infos = (alLookup (sb, sk) s.infos).elim (alErase (b, k) s.infos) (fun x => alInsert (b, k) x s.infos))
    (hu : s'.uploads = s.uploads) (hpa : s'.parts = s.parts) (hum : s'.upMetas = s.upMetas)
    (hiss : s'.issued = s.issued) :
    abs s' = (abs s).setObj b k ⟨c, absMeta s sb sk, (alLookup (sb, sk) s.infos).getD {}⟩ ∧ Inv s' := by
  have habs : (abs s).bucket b = some (absTree s b t) := by rw [abs_bucket, ht]; rfl
  have hm : ∀ x, x ≠ (b, k) → alLookup x s'.metas = alLookup x s.metas := by
    intro x hx
    rw [hmetas]
    cases alLookup (sb, sk) s.metas with
    | none => exact alLookup_alErase_ne hx _
    | some m => exact alLookup_alInsert_ne hx _ _
  have hin : ∀ x, x ≠ (b, k) → alLookup x s'.infos = alLookup x s.infos := by
    intro x hx
    rw [hinfos]
    cases alLookup (sb, sk) s.infos with
    | none => exact alLookup_alErase_ne hx _
    | some m => exact alLookup_alInsert_ne hx _ _
  constructor
  · apply Store.ext'
    · rw [abs_write hi ht hp hcanon hw hds hnd hb' hm hin]
      unfold Store.setObj
      simp only [habs, Option.getD_some]
      congr 2
      have h1 : absMeta s' b k = absMeta s sb sk := by
        unfold absMeta
        rw [hmetas]
        cases alLookup (sb, sk) s.metas with
        | none => simp [alLookup_alErase_self]
        | some m => simp [alLookup_alInsert_self]
      have h2 : (alLookup (b, k) s'.infos).getD {} = (alLookup (sb, sk) s.infos).getD {} := by
        rw [hinfos]
        cases alLookup (sb, sk) s.infos with
        | none => simp [alLookup_alErase_self]
        | some x => simp [alLookup_alInsert_self]
      rw [h1, h2]
    · unfold Store.setObj
      exact abs_uploads_congr hu hum hpa
    · unfold Store.setObj
      show s'.issued = s.issued
      exact hiss
  · obtain ⟨i1, i2, i3⟩ := inv_write_buckets hi ht hp hds hnd hb'
    refine ⟨i1, i2, i3, ?_, ?_, ?_, ?_, ?_, ?_⟩
    · intro e he
      rw [hmetas] at he
      cases hsm : alLookup (sb, sk) s.metas with
      | none => rw [hsm] at he; exact hi.metaOk e (alErase_mem he)
      | some m =>
        rw [hsm] at he
        rcases alInsert_mem he with he | he
        · subst he; exact hi.metaOk ((sb, sk), m) (alLookup_mem hsm)
        · exact hi.metaOk e he
    · rw [hu]; exact hi.und
    · rw [hpa]; exact hi.pnd
    · rw [hu, hiss]; exact hi.upIds
    · rw [hpa, hiss]; exact hi.partIds
    · rw [hum, hiss]; exact hi.upMetaIds

theorem copy_refines (H : Hashes) (dl : Nat) {s : State} (hi : Inv s) {sb sk db dk : Bytes}
    (hg : CopyOk s sb sk db dk) :
    (step H dl s (.copyObject sb sk db dk)).2 = (StoreSpec.step H (abs s) (.copyObject sb sk db dk)).2 ∧
    abs (step H dl s (.copyObject sb sk db dk)).1 = (StoreSpec.step H (abs s) (.copyObject sb sk db dk)).1 ∧
    Inv (step H dl s (.copyObject sb sk db dk)).1 := by
  obtain ⟨hsname, ⟨_, hscanon⟩, hdname, ⟨_, hdcanon⟩, hsshort, hdshort, hmain⟩ := hg
  rcases hsname.cases with ⟨hsbo, hsbd⟩ | ⟨hsbo, hsbd⟩
  · cases hskp : keyPath sk with
    | none =>
      have hko : keyOk sk = false := by rw [keyOk_iff_keyPath, hskp]; rfl
      simp [step, StoreSpec.step, objPath, hsbd, hskp, hsbo, hko, hi]
    | some sp =>
      have hsko : keyOk sk = true := by rw [keyOk_iff_keyPath, hskp]; rfl
      rcases hdname.cases with ⟨hdbo, hdbd⟩ | ⟨hdbo, hdbd⟩
      · cases hdkp : keyPath dk with
        | none =>
          have hko : keyOk dk = false := by rw [keyOk_iff_keyPath, hdkp]; rfl
          simp [step, StoreSpec.step, objPath, hsbd, hskp, hsbo, hsko, hdbd, hdkp, hdbo, hko, hi]
        | some dp =>
          have hdko : keyOk dk = true := by rw [keyOk_iff_keyPath, hdkp]; rfl
          have hmain := hmain hsbo hdbo
          rw [hskp, hdkp] at hmain
          rw [hskp] at hscanon
          rw [hdkp] at hdcanon
          simp only at hmain hscanon hdcanon
          have hsp : PathOk sp := keyPath_pathOk hskp
          have hdp : PathOk dp := keyPath_pathOk hdkp
          cases hst : s.tree sb with
          | none =>
            have hsabs : (abs s).bucket sb = none := by rw [abs_bucket, hst]; rfl
            have hh : alHas sb s.buckets = false := by
              unfold State.tree at hst; simp [alHas, hst]
            simp [step, StoreSpec.step, objPath, hsbd, hskp, hsbo, hsko, hdbd, hdkp, hdbo, hdko, hsabs, State.node, hst,
              hh, hi]
          | some st =>
            rw [hst] at hmain
            simp only at hmain
            have hsabs : (abs s).bucket sb = some (absTree s sb st) := by rw [abs_bucket, hst]; rfl
            have hslook := abs_lookup_obj hi hst hsp
            rw [hscanon] at hslook
            have hsnode : s.node sb sp = st.node sp := by simp [State.node, hst]
            cases hsn : st.node sp with
            | none =>
              have hh : alHas sb s.buckets = true := by
                unfold State.tree at hst; simp [alHas, hst]
              rw [hsn] at hslook
              simp [step, StoreSpec.step, objPath, hsbd, hskp, hsbo, hsko, hdbd, hdkp, hdbo, hdko, hsabs, hsnode, hsn,
                hslook, hh, hi]
            | some n =>
              cases n with
              | dir => rw [hsn] at hmain; exact absurd hmain (by simp)
              | file c =>
                rw [hsn] at hslook hmain
                simp only [Option.bind_some, nodeObj] at hslook
                simp only at hmain
                cases hdt : s.tree db with
                | none =>
                  have hh : alHas db (abs s).buckets = false := by
                    rw [abs_alHas]; unfold State.tree at hdt; simp [alHas, hdt]
                  simp [step, StoreSpec.step, objPath, hsbd, hskp, hsbo, hsko, hdbd, hdkp, hdbo, hdko, hsabs, hsnode,
                    hsn, hslook, hdt, hh, hi]
                | some dt =>
                  rw [hdt] at hmain
                  simp only at hmain
                  have hw := hmain
                  by_cases hne : (sb, sk) = (db, dk)
                  · -- the object onto itself: nothing is copied, nothing changes
                    simp only [Prod.mk.injEq] at hne
                    obtain ⟨rfl, rfl⟩ := hne
                    have hpp : sp = dp := by rw [hskp] at hdkp; exact Option.some.inj hdkp
                    subst hpp
                    rw [hst] at hdt
                    have hdt' : st = dt := Option.some.inj hdt
                    subst hdt'
                    obtain ⟨ds, hds, hnd, hmk⟩ := mkdirAll_ok s sb sp.dropLast st hst (hi.tnd _ (tree_mem hst)) hw.1
                    have hstep : step H dl s (.copyObject sb sk sb sk) =
                        ({ s with buckets := alInsert sb (st ++ ds) s.buckets }, .copied (some (etagOf H c))) := by
                      simp [step, objPath, hsbd, hskp, hsnode, hsn, hst, hmk]
                    have hhas : alHas sb (abs s).buckets = true := by
                      rw [abs_alHas]; unfold State.tree at hst; simp [alHas, hst]
                    have hspec : StoreSpec.step H (abs s) (.copyObject sb sk sb sk) =
                        ((abs s).setObj sb sk ⟨c, absMeta s sb sk, (alLookup (sb, sk) s.infos).getD {}⟩,
                          .copied (some (etagOf H c))) := by
                      simp [StoreSpec.step, hsbo, hsko, hsabs, hslook, hhas]
                    rw [hstep, hspec]
                    obtain ⟨h1, h2⟩ := dirs_core (s' := { s with buckets := alInsert sb (st ++ ds) s.buckets }) hi hst
                      (fun x hx => (hsp.prefix_dropLast hx).1) hds hnd rfl rfl rfl rfl rfl rfl rfl
                    refine ⟨rfl, ?_, h2⟩
                    rw [h1]
                    -- writing back the object that is there is the identity on the store
                    unfold Store.setObj
                    simp only [hsabs, Option.getD_some]
                    rw [alInsert_same hslook]
                    have hb : alLookup sb (abs s).buckets = some (absTree s sb st) := hsabs
                    rw [alInsert_same hb]
                  · have hh : alHas db (abs s).buckets = true := by
                      rw [abs_alHas]; unfold State.tree at hdt; simp [alHas, hdt]
                    have hdmem := tree_mem hdt
                    -- source and destination are different files
                    have hpne : ¬ (sb = db ∧ sp = dp) := by
                      rintro ⟨h1, h2⟩
                      apply hne
                      rw [h1, ← hscanon, ← hdcanon, h2]
                    obtain ⟨ds, hds, hnd, hcommit⟩ :=
                      commitFile_ok s db dp c dt (by rw [hdt]; rfl) hw (hi.tnd _ hdmem) hdp
                    have hspec : StoreSpec.step H (abs s) (.copyObject sb sk db dk) =
                        ((abs s).setObj db dk ⟨c, absMeta s sb sk, (alLookup (sb, sk) s.infos).getD {}⟩,
                          .copied (some (etagOf H c))) := by
                      simp [StoreSpec.step, hsbo, hsko, hdbo, hdko, hsabs, hslook, hh]
                    -- the side files of the destination become the source's, or disappear with them
                    have hstep : step H dl s (.copyObject sb sk db dk) =
                        ({ buckets := alInsert db (alInsert dp (.file c) (dt ++ ds)) s.buckets,
                           metas := (alLookup (sb, sk) s.metas).elim (alErase (db, dk) s.metas)
                             (fun m => alInsert (db, dk) m s.metas),
                           upMetas := s.upMetas,
                           infos := (alLookup (sb, sk) s.infos).elim (alErase (db, dk) s.infos)
                             (fun x => alInsert (db, dk) x s.infos),
                           uploads := s.uploads, parts := s.parts, issued := s.issued },
                          .copied (some (etagOf H c))) := by
                      cases hsm : alLookup (sb, sk) s.metas <;> cases hsi : alLookup (sb, sk) s.infos <;>
                        simp [step, objPath, hsbd, hskp, hdbd, hdkp, hsnode, hsn, hdt, hpne, hcommit, hsshort, hdshort,
                          hsm, hsi]
                    rw [hstep, hspec]
                    exact ⟨rfl, copy_core hi hdt hdp hdcanon hw.2 hds hnd rfl rfl rfl rfl rfl rfl rfl⟩
      · simp [step, StoreSpec.step, objPath, hsbd, hskp, hsbo, hsko, hdbd, hdbo, hi]
  · simp [step, StoreSpec.step, objPath, hsbd, hsbo, hi]

end S3V.FsStore
