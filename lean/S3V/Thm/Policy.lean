import S3V.Model.Policy
/-!
# Lemmas: encode-then-decode on policy values (`fromJson (toJson p) = .ok p`)
-/
namespace S3V.Policy
open S3V

/-! ## leaves -/

theorem strList_map_str (ss : List Bytes) : strList (ss.map Json.str) = some ss := by
  induction ss with
  | nil => simp [strList]
  | cons s ss ih => simp [strList] at ih ⊢; simp [strOf, ih]

theorem oomOfJson_oomJson (v : OneOrMore Bytes) : oomOfJson (oomJson v) = some v := by
  cases v with
  | one s => rfl
  | more ss => simp [oomJson, oomOfJson, strList_map_str]

theorem woomOfJson_woomJson (w : WildcardOneOrMore Bytes) (h : w.isOneStar = false) :
    woomOfJson (woomJson w) = some w := by
  cases w with
  | wildcard => simp [woomJson, woomOfJson]
  | one s =>
    have : s ≠ nStar := by simpa [WildcardOneOrMore.isOneStar] using h
    simp [woomJson, woomOfJson, this]
  | more ss => simp [woomJson, woomOfJson, strList_map_str]

theorem optString_optStrJson (o : Option Bytes) : optString (optStrJson o) = some o := by
  cases o <;> rfl

theorem optVersion_optVersionJson (o : Option Version) : optVersion (optVersionJson o) = some o := by
  cases o with
  | none => rfl
  | some v => cases v <;> simp [optVersionJson, optVersion, nameEnum, versionName, versionOfName, n2012, n2008]

theorem effect_effectName (e : Effect) : nameEnum effectOfName (.str (effectName e)) = some e := by
  cases e <;> simp [nameEnum, effectName, effectOfName, nAllow, nDeny]

/-! ## maps -/

theorem imInsert_new {β : Type} (m : IMap β) (k : Bytes) (v : β) (h : k ∉ m.map (·.1)) :
    imInsert m k v = m ++ [(k, v)] := by
  induction m with
  | nil => rfl
  | cons e m ih =>
    obtain ⟨k', v'⟩ := e
    simp only [List.map_cons, List.mem_cons, not_or] at h
    have hne : ¬ k' = k := fun hh => h.1 hh.symm
    simp [imInsert, hne, ih h.2]

/-- reading back a written map: fresh names are appended one by one -/
theorem imOfMembers_append {α β : Type} (f : Json → Option β) (g : α → Json) (m : List (Bytes × α)) :
    ∀ (acc : IMap β) (m' : List (Bytes × β)),
      (∀ kv ∈ m, ∃ b, f (g kv.2) = some b) →
      (m'.map (·.1) = m.map (·.1)) →
      (∀ kv ∈ m.zip m', f (g kv.1.2) = some kv.2.2) →
      ((acc.map (·.1)) ++ (m.map (·.1))).Nodup →
      List.foldlM (fun a (kv : Bytes × Json) => (f kv.2).map (imInsert a kv.1)) acc (m.map fun kv => (kv.1, g kv.2))
        = some (acc ++ m') := by
  induction m with
  | nil =>
    intro acc m' _ hk _ _
    cases m' with
    | nil => simp
    | cons _ _ => simp at hk
  | cons e m ih =>
    intro acc m' hf hk hz hnd
    cases m' with
    | nil => simp at hk
    | cons e' m' =>
      simp only [List.map_cons, List.cons.injEq] at hk
      have h1 : f (g e.2) = some e'.2 := hz (e, e') (by simp)
      have hnew : e.1 ∉ acc.map (·.1) := by
        intro hmem
        rw [List.nodup_append] at hnd
        exact hnd.2.2 _ hmem _ (by simp) rfl
      simp only [List.map_cons, List.foldlM_cons, h1, Option.map_some, Option.bind_eq_bind, Option.bind_some]
      rw [imInsert_new _ _ _ hnew]
      have := ih (acc ++ [(e.1, e'.2)]) m' (fun kv h => hf kv (List.mem_cons_of_mem _ h)) hk.2
        (fun kv h => hz kv (by simp only [List.zip_cons_cons, List.mem_cons]; exact Or.inr h))
        (by
          simp only [List.map_append, List.map_cons, List.map_nil, List.append_assoc, List.cons_append, List.nil_append]
          simpa using hnd)
      rw [this]
      have : e' = (e.1, e'.2) := by rw [← hk.1]
      rw [List.append_assoc]; simp [← this]

theorem imOfMembers_written {β : Type} (f : Json → Option β) (g : β → Json) (m : IMap β)
    (hf : ∀ kv ∈ m, f (g kv.2) = some kv.2) (hu : keysUnique m) :
    imOfMembers f (m.map fun kv => (kv.1, g kv.2)) = some m := by
  have := imOfMembers_append f g m [] m (fun kv h => ⟨_, hf kv h⟩) rfl
    (by
      intro kv h
      have : kv.1 = kv.2 := by
        have := List.of_mem_zip h
        clear hf hu
        induction m with
        | nil => simp at h
        | cons a m ih =>
          simp only [List.zip_cons_cons, List.mem_cons] at h
          rcases h with h | h
          · rw [h]
          · exact ih h (List.of_mem_zip h)
      rw [← this]; exact hf _ (List.of_mem_zip h).1)
    (by simpa [keysUnique] using hu)
  simpa [imOfMembers] using this

theorem principalOfJson_principalJson (p : Principal) (h : p.wf) :
    principalOfJson (principalJson p) = some p := by
  cases p with
  | wildcard => simp [principalJson, principalOfJson]
  | map m =>
    simp only [principalJson, kvsJson, principalOfJson]
    rw [imOfMembers_written oomOfJson oomJson m (fun kv _ => oomOfJson_oomJson kv.2) h]
    rfl

theorem condKeyValues_written (m : CondKeyValues) (h : keysUnique m) :
    condKeyValuesOfJson (kvsJson m) = some m := by
  simp only [kvsJson, condKeyValuesOfJson]
  exact imOfMembers_written oomOfJson oomJson m (fun kv _ => oomOfJson_oomJson kv.2) h

theorem optCondition_written (c : Option ConditionRule) (h : ∀ c', c = some c' → conditionWf c') :
    optCondition (optConditionJson c) = some c := by
  cases c with
  | none => rfl
  | some c =>
    obtain ⟨hu, hin⟩ := h c rfl
    simp only [optConditionJson, conditionJson, optCondition, conditionOfJson]
    rw [imOfMembers_written condKeyValuesOfJson kvsJson c (fun kv hkv => condKeyValues_written kv.2 (hin kv hkv)) hu]
    rfl

/-! ## one round of the two `visit_map` loops, per member name -/

theorem stmtField_sid (acc : StAcc) (v : Json) :
    stmtField acc (kSid, v) =
      if acc.sid.isSome then none else (optString v).map fun x => { acc with sid := some x } := by
  simp [stmtField]

theorem stmtField_principal (acc : StAcc) (v : Json) :
    stmtField acc (kPrincipal, v) =
      if acc.principal.isSome then none
      else (principalOfJson v).map fun p => { acc with principal := some (.principal p) } := by
  simp [stmtField, kSid, kPrincipal]

theorem stmtField_notPrincipal (acc : StAcc) (v : Json) :
    stmtField acc (kNotPrincipal, v) =
      if acc.principal.isSome then none
      else (principalOfJson v).map fun p => { acc with principal := some (.notPrincipal p) } := by
  simp [stmtField, kSid, kPrincipal, kNotPrincipal]

theorem stmtField_effect (acc : StAcc) (v : Json) :
    stmtField acc (kEffect, v) =
      if acc.effect.isSome then none else (nameEnum effectOfName v).map fun x => { acc with effect := some x } := by
  simp [stmtField, kSid, kPrincipal, kNotPrincipal, kEffect]

theorem stmtField_action (acc : StAcc) (v : Json) :
    stmtField acc (kAction, v) =
      if acc.action.isSome then none else (woomOfJson v).map fun w => { acc with action := some (.action w) } := by
  simp [stmtField, kSid, kPrincipal, kNotPrincipal, kEffect, kAction]

theorem stmtField_notAction (acc : StAcc) (v : Json) :
    stmtField acc (kNotAction, v) =
      if acc.action.isSome then none else (woomOfJson v).map fun w => { acc with action := some (.notAction w) } := by
  simp [stmtField, kSid, kPrincipal, kNotPrincipal, kEffect, kAction, kNotAction]

theorem stmtField_resource (acc : StAcc) (v : Json) :
    stmtField acc (kResource, v) =
      if acc.resource.isSome then none
      else (woomOfJson v).map fun w => { acc with resource := some (.resource w) } := by
  simp [stmtField, kSid, kPrincipal, kNotPrincipal, kEffect, kAction, kNotAction, kResource]

theorem stmtField_notResource (acc : StAcc) (v : Json) :
    stmtField acc (kNotResource, v) =
      if acc.resource.isSome then none
      else (woomOfJson v).map fun w => { acc with resource := some (.notResource w) } := by
  simp [stmtField, kSid, kPrincipal, kNotPrincipal, kEffect, kAction, kNotAction, kResource, kNotResource]

theorem stmtField_condition (acc : StAcc) (v : Json) :
    stmtField acc (kCondition, v) =
      if acc.condition.isSome then none else (optCondition v).map fun x => { acc with condition := some x } := by
  simp [stmtField, kSid, kPrincipal, kNotPrincipal, kEffect, kAction, kNotAction, kResource, kNotResource, kCondition]

/-- the member is named like none of the six blocks -/
def foreignName (k : Bytes) : Prop :=
  k ≠ kSid ∧ k ≠ kPrincipal ∧ k ≠ kNotPrincipal ∧ k ≠ kEffect ∧ k ≠ kAction ∧ k ≠ kNotAction ∧
  k ≠ kResource ∧ k ≠ kNotResource ∧ k ≠ kCondition

theorem stmtField_other (acc : StAcc) (k : Bytes) (v : Json) (h : foreignName k) : stmtField acc (k, v) = some acc := by
  obtain ⟨h1, h2, h3, h4, h5, h6, h7, h8, h9⟩ := h
  simp [stmtField, h1, h2, h3, h4, h5, h6, h7, h8, h9]

/-! ## statement -/

def ActionRule.isOneStar : ActionRule → Bool
  | .action w => w.isOneStar
  | .notAction w => w.isOneStar

def ResourceRule.isOneStar : ResourceRule → Bool
  | .resource w => w.isOneStar
  | .notResource w => w.isOneStar

theorem hasOneStar_eq (s : Statement) : s.hasOneStar = (s.action.isOneStar || s.resource.isOneStar) := by
  cases s with
  | mk sid pr ef ac re co => cases ac <;> cases re <;> rfl

/-- the loop of `Statement::visit_map` over the members written for a statement fills every slot with
    the value written -/
theorem statementOfJson_statementJson (s : Statement) (hw : s.mapsWf) (hs : s.hasOneStar = false) :
    statementOfJson (statementJson s) = some s := by
  rw [hasOneStar_eq] at hs
  simp only [Bool.or_eq_false_iff] at hs
  obtain ⟨sid, pr, ef, ac, re, co⟩ := s
  obtain ⟨hwp, hwc⟩ := hw
  obtain ⟨hsa, hsr⟩ := hs
  have hc := optCondition_written co hwc
  have hA : ∀ w, ac = .action w ∨ ac = .notAction w → woomOfJson (woomJson w) = some w := by
    intro w h
    apply woomOfJson_woomJson
    rcases h with h | h <;> subst h <;> exact hsa
  have hR : ∀ w, re = .resource w ∨ re = .notResource w → woomOfJson (woomJson w) = some w := by
    intro w h
    apply woomOfJson_woomJson
    rcases h with h | h <;> subst h <;> exact hsr
  have hP : ∀ p, pr = some (.principal p) ∨ pr = some (.notPrincipal p) → principalOfJson (principalJson p) = some p := by
    intro p h
    apply principalOfJson_principalJson
    rcases h with h | h <;> exact hwp _ h
  rcases pr with _ | ⟨p | p⟩ <;> cases ac <;> cases re <;>
    simp [statementJson, statementOfJson, statementOfMembers, principalMembers, actionMember, resourceMember,
      List.foldlM_cons, stmtField_sid, stmtField_principal, stmtField_notPrincipal, stmtField_effect,
      stmtField_action, stmtField_notAction, stmtField_resource, stmtField_notResource, stmtField_condition,
      optString_optStrJson, effect_effectName, hc, hA, hR, hP]

theorem statementsOfJson_statementsJson (st : OneOrMore Statement)
    (hw : ∀ s ∈ st.toList, s.mapsWf) (hs : ∀ s ∈ st.toList, s.hasOneStar = false) :
    statementsOfJson (statementsJson st) = some st := by
  cases st with
  | one s =>
    have := statementOfJson_statementJson s (hw s (by simp [OneOrMore.toList])) (hs s (by simp [OneOrMore.toList]))
    simp only [statementJson, statementOfJson] at this
    simp only [statementsJson, statementJson, statementsOfJson, this]
    rfl
  | more ss =>
    simp only [statementsJson, statementsOfJson]
    have : (ss.map statementJson).mapM statementOfJson = some ss := by
      simp only [OneOrMore.toList] at hw hs
      induction ss with
      | nil => simp
      | cons s ss ih =>
        simp only [List.map_cons, List.mapM_cons]
        rw [statementOfJson_statementJson s (hw s (by simp)) (hs s (by simp)),
          ih (fun x hx => hw x (List.mem_cons_of_mem _ hx)) (fun x hx => hs x (List.mem_cons_of_mem _ hx))]
        rfl
    rw [this]; rfl

/-! ## policy -/

theorem policyField_version (acc : PolAcc) (v : Json) :
    policyField acc (kVersion, v) =
      if acc.version.isSome then none else (optVersion v).map fun x => { acc with version := some x } := by
  simp [policyField]

theorem policyField_id (acc : PolAcc) (v : Json) :
    policyField acc (kId, v) =
      if acc.id.isSome then none else (optString v).map fun x => { acc with id := some x } := by
  simp [policyField, kId, kVersion]

theorem policyField_statement (acc : PolAcc) (v : Json) :
    policyField acc (kStatement, v) =
      if acc.statement.isSome then none
      else (statementsOfJson v).map fun x => { acc with statement := some x } := by
  simp [policyField, kId, kVersion, kStatement]

theorem policyField_other (acc : PolAcc) (k : Bytes) (v : Json) (h1 : k ≠ kVersion) (h2 : k ≠ kId)
    (h3 : k ≠ kStatement) : policyField acc (k, v) = some acc := by
  simp [policyField, h1, h2, h3]

theorem fromJson?_toJson (p : Policy) (hw : p.mapsWf) (hs : p.hasOneStar = false) :
    fromJson? (toJson p) = some p := by
  have hs' : ∀ s ∈ p.statement.toList, s.hasOneStar = false := by
    simpa [Policy.hasOneStar] using hs
  simp [toJson, fromJson?, policyOfMembers, List.foldlM_cons, policyField_version, policyField_id,
    policyField_statement, optVersion_optVersionJson, optString_optStrJson,
    statementsOfJson_statementsJson p.statement hw hs']

theorem fromJson_ok_iff (j : Json) (p : Policy) : fromJson j = .ok p ↔ fromJson? j = some p := by
  unfold fromJson
  cases fromJson? j <;> simp

end S3V.Policy
