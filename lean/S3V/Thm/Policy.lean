import S3V.Model.Policy
/-!
# Lemmas: encode-then-decode on policy values (`fromJson (toJson p) = .ok p`)
-/
namespace S3V.Policy
open S3V

/-! ## leaves -/

theorem strList_map_str (ss : List Bytes) : strList (ss.map Json.str) = some ss := by
  induction ss with
  | nil => simp [strList]
  | cons s ss ih => simp [strList] at ih ⊢; simp [strOf, ih]

theorem oomOfJson_oomJson (v : OneOrMore Bytes) : oomOfJson (oomJson v) = some v := by
  cases v with
  | one s => rfl
  | more ss => simp [oomJson, oomOfJson, strList_map_str]

theorem woomOfJson_woomJson (w : WildcardOneOrMore Bytes) (h : w.isOneStar = false) :
    woomOfJson (woomJson w) = some w := by
  cases w with
  | wildcard => simp [woomJson, woomOfJson]
  | one s =>
    have : s ≠ nStar := by simpa [WildcardOneOrMore.isOneStar] using h
    simp [woomJson, woomOfJson, this]
  | more ss => simp [woomJson, woomOfJson, strList_map_str]

theorem optString_optStrJson (o : Option Bytes) : optString (optStrJson o) = some o := by
  cases o <;> rfl

theorem optVersion_optVersionJson (o : Option Version) : optVersion (optVersionJson o) = some o := by
  cases o with
  | none => rfl
  | some v => cases v <;> simp [optVersionJson, optVersion, unitEnum, versionName, versionOfName, n2012, n2008]

theorem effect_effectName (e : Effect) : unitEnum effectOfName (.str (effectName e)) = some e := by
  cases e <;> simp [unitEnum, effectName, effectOfName, nAllow, nDeny]

/-! ## maps -/

theorem imInsert_new {β : Type} (m : IMap β) (k : Bytes) (v : β) (h : k ∉ m.map (·.1)) :
    imInsert m k v = m ++ [(k, v)] := by
  induction m with
  | nil => rfl
  | cons e m ih =>
    obtain ⟨k', v'⟩ := e
    simp only [List.map_cons, List.mem_cons, not_or] at h
    have hne : ¬ k' = k := fun hh => h.1 hh.symm
    simp [imInsert, hne, ih h.2]

/-- reading back a written map: fresh names are appended one by one -/
theorem imOfMembers_append {α β : Type} (f : Json → Option β) (g : α → Json) (m : List (Bytes × α)) :
    ∀ (acc : IMap β) (m' : List (Bytes × β)),
      (∀ kv ∈ m, ∃ b, f (g kv.2) = some b) →
      (m'.map (·.1) = m.map (·.1)) →
      (∀ kv ∈ m.zip m', f (g kv.1.2) = some kv.2.2) →
      ((acc.map (·.1)) ++ (m.map (·.1))).Nodup →
      List.foldlM (fun a (kv : Bytes × Json) => (f kv.2).map (imInsert a kv.1)) acc (m.map fun kv => (kv.1, g kv.2))
        = some (acc ++ m') := by
  induction m with
  | nil =>
    intro acc m' _ hk _ _
    cases m' with
    | nil => simp
    | cons _ _ => simp at hk
  | cons e m ih =>
    intro acc m' hf hk hz hnd
    cases m' with
    | nil => simp at hk
    | cons e' m' =>
      simp only [List.map_cons, List.cons.injEq] at hk
      have h1 : f (g e.2) = some e'.2 := hz (e, e') (by simp)
      have hnew : e.1 ∉ acc.map (·.1) := by
        intro hmem
        rw [List.nodup_append] at hnd
        exact hnd.2.2 _ hmem _ (by simp) rfl
      simp only [List.map_cons, List.foldlM_cons, h1, Option.map_some, Option.bind_eq_bind, Option.bind_some]
      rw [imInsert_new _ _ _ hnew]
      have := ih (acc ++ [(e.1, e'.2)]) m' (fun kv h => hf kv (List.mem_cons_of_mem _ h)) hk.2
        (fun kv h => hz kv (by simp only [List.zip_cons_cons, List.mem_cons]; exact Or.inr h))
        (by
          simp only [List.map_append, List.map_cons, List.map_nil, List.append_assoc, List.cons_append, List.nil_append]
          simpa using hnd)
      rw [this]
      have : e' = (e.1, e'.2) := by rw [← hk.1]
      rw [List.append_assoc]; simp [← this]

theorem imOfMembers_written {β : Type} (f : Json → Option β) (g : β → Json) (m : IMap β)
    (hf : ∀ kv ∈ m, f (g kv.2) = some kv.2) (hu : keysUnique m) :
    imOfMembers f (m.map fun kv => (kv.1, g kv.2)) = some m := by
  have := imOfMembers_append f g m [] m (fun kv h => ⟨_, hf kv h⟩) rfl
    (by
      intro kv h
      have : kv.1 = kv.2 := by
        have := List.of_mem_zip h
        clear hf hu
        induction m with
        | nil => simp at h
        | cons a m ih =>
          simp only [List.zip_cons_cons, List.mem_cons] at h
          rcases h with h | h
          · rw [h]
          · exact ih h (List.of_mem_zip h)
      rw [← this]; exact hf _ (List.of_mem_zip h).1)
    (by simpa [keysUnique] using hu)
  simpa [imOfMembers] using this

theorem principalOfJson_principalJson (p : Principal) (h : p.wf) :
    principalOfJson (principalJson p) = some p := by
  cases p with
  | wildcard => simp [principalJson, principalOfJson]
  | map m =>
    simp only [principalJson, kvsJson, principalOfJson]
    rw [imOfMembers_written oomOfJson oomJson m (fun kv _ => oomOfJson_oomJson kv.2) h]
    rfl

theorem condKeyValues_written (m : CondKeyValues) (h : keysUnique m) :
    condKeyValuesOfJson (kvsJson m) = some m := by
  simp only [kvsJson, condKeyValuesOfJson]
  exact imOfMembers_written oomOfJson oomJson m (fun kv _ => oomOfJson_oomJson kv.2) h

theorem optCondition_written (c : Option ConditionRule) (h : ∀ c', c = some c' → conditionWf c') :
    optCondition (optConditionJson c) = some c := by
  cases c with
  | none => rfl
  | some c =>
    obtain ⟨hu, hin⟩ := h c rfl
    simp only [optConditionJson, conditionJson, optCondition, conditionOfJson]
    rw [imOfMembers_written condKeyValuesOfJson kvsJson c (fun kv hkv => condKeyValues_written kv.2 (hin kv hkv)) hu]
    rfl

/-! ## one round of the two derived `visit_map` loops, per member name -/

theorem stmtField_sid (acc : StAcc) (v : Json) :
    stmtField acc (kSid, v) =
      if acc.sid.isSome then none else (optString v).map fun x => { acc with sid := some x } := by
  simp [stmtField]

theorem stmtField_effect (acc : StAcc) (v : Json) :
    stmtField acc (kEffect, v) =
      if acc.effect.isSome then none else (unitEnum effectOfName v).map fun x => { acc with effect := some x } := by
  simp [stmtField, kEffect, kSid]

theorem stmtField_condition (acc : StAcc) (v : Json) :
    stmtField acc (kCondition, v) =
      if acc.condition.isSome then none else (optCondition v).map fun x => { acc with condition := some x } := by
  simp [stmtField, kEffect, kSid, kCondition]

theorem stmtField_other (acc : StAcc) (k : Bytes) (v : Json) (h1 : k ≠ kSid) (h2 : k ≠ kEffect)
    (h3 : k ≠ kCondition) : stmtField acc (k, v) = some { acc with collect := acc.collect ++ [(k, v)] } := by
  simp [stmtField, h1, h2, h3]

theorem actionMember_key (a : ActionRule) : (actionMember a).1 = kAction ∨ (actionMember a).1 = kNotAction := by
  cases a <;> simp [actionMember]

theorem resourceMember_key (r : ResourceRule) :
    (resourceMember r).1 = kResource ∨ (resourceMember r).1 = kNotResource := by
  cases r <;> simp [resourceMember]

/-! ## statement -/

def ActionRule.isOneStar : ActionRule → Bool
  | .action w => w.isOneStar
  | .notAction w => w.isOneStar

def ResourceRule.isOneStar : ResourceRule → Bool
  | .resource w => w.isOneStar
  | .notResource w => w.isOneStar

theorem hasOneStar_eq (s : Statement) : s.hasOneStar = (s.action.isOneStar || s.resource.isOneStar) := by
  cases s with
  | mk sid pr ef ac re co => cases ac <;> cases re <;> rfl

theorem actionRuleOf_written (a : ActionRule) (h : a.isOneStar = false) (pre post : List (Bytes × Json))
    (hpre : ∀ kv ∈ pre, kv.1 ≠ kAction ∧ kv.1 ≠ kNotAction) :
    actionRuleOf (pre ++ actionMember a :: post) = some a := by
  have hfind : takeVariant kAction kNotAction (pre ++ actionMember a :: post) = some (actionMember a) := by
    unfold takeVariant
    rw [List.find?_append]
    have : List.find? (fun kv : Bytes × Json => decide (kv.1 = kAction) || decide (kv.1 = kNotAction)) pre = none := by
      rw [List.find?_eq_none]; intro kv hkv; have := hpre kv hkv; simp [this.1, this.2]
    rw [this]
    rcases actionMember_key a with hk | hk <;> simp [hk]
  unfold actionRuleOf
  rw [hfind]
  cases a with
  | action w => simp [actionMember, woomOfJson_woomJson w h]
  | notAction w => simp [actionMember, woomOfJson_woomJson w h, kAction, kNotAction]

theorem resourceRuleOf_written (a : ResourceRule) (h : a.isOneStar = false) (pre post : List (Bytes × Json))
    (hpre : ∀ kv ∈ pre, kv.1 ≠ kResource ∧ kv.1 ≠ kNotResource) :
    resourceRuleOf (pre ++ resourceMember a :: post) = some a := by
  have hfind : takeVariant kResource kNotResource (pre ++ resourceMember a :: post) = some (resourceMember a) := by
    unfold takeVariant
    rw [List.find?_append]
    have : List.find? (fun kv : Bytes × Json => decide (kv.1 = kResource) || decide (kv.1 = kNotResource)) pre = none := by
      rw [List.find?_eq_none]; intro kv hkv; have := hpre kv hkv; simp [this.1, this.2]
    rw [this]
    rcases resourceMember_key a with hk | hk <;> simp [hk]
  unfold resourceRuleOf
  rw [hfind]
  cases a with
  | resource w => simp [resourceMember, woomOfJson_woomJson w h]
  | notResource w => simp [resourceMember, woomOfJson_woomJson w h, kResource, kNotResource]

theorem principalRuleOf_written (pr : Option PrincipalRule) (h : ∀ r, pr = some r → r.wf)
    (post : List (Bytes × Json)) (hpost : ∀ kv ∈ post, kv.1 ≠ kPrincipal ∧ kv.1 ≠ kNotPrincipal) :
    principalRuleOf (principalMembers pr ++ post) = pr := by
  unfold principalRuleOf takeVariant
  cases pr with
  | none =>
    have : List.find? (fun kv : Bytes × Json => decide (kv.1 = kPrincipal) || decide (kv.1 = kNotPrincipal)) post = none := by
      rw [List.find?_eq_none]; intro kv hkv; have := hpost kv hkv; simp [this.1, this.2]
    simp [principalMembers, this]
  | some r =>
    cases r with
    | principal p =>
      have := principalOfJson_principalJson p (h _ rfl)
      simp [principalMembers, this]
    | notPrincipal p =>
      have := principalOfJson_principalJson p (h _ rfl)
      simp [principalMembers, this, kPrincipal, kNotPrincipal]

theorem principalMembers_keys (pr : Option PrincipalRule) :
    ∀ kv ∈ principalMembers pr, kv.1 = kPrincipal ∨ kv.1 = kNotPrincipal := by
  intro kv h
  cases pr with
  | none => simp [principalMembers] at h
  | some r => cases r <;> simp [principalMembers] at h <;> simp [h]

/-- the loop of `Statement::visit_map` over the members written for a statement -/
theorem stmt_fold_written (s : Statement) :
    List.foldlM stmtField {} ([(kSid, optStrJson s.sid)] ++ principalMembers s.principal ++
        [(kEffect, .str (effectName s.effect)), actionMember s.action, resourceMember s.resource,
         (kCondition, optConditionJson s.condition)]) =
    (optCondition (optConditionJson s.condition)).map fun c =>
      { sid := some s.sid, effect := some s.effect, condition := some c,
        collect := principalMembers s.principal ++ [actionMember s.action, resourceMember s.resource] } := by
  have ha : ∀ acc : StAcc, stmtField acc (actionMember s.action)
      = some { acc with collect := acc.collect ++ [actionMember s.action] } := by
    intro acc
    cases s.action <;> simp [actionMember, stmtField, kAction, kNotAction, kSid, kEffect, kCondition]
  have hr : ∀ acc : StAcc, stmtField acc (resourceMember s.resource)
      = some { acc with collect := acc.collect ++ [resourceMember s.resource] } := by
    intro acc
    cases s.resource <;> simp [resourceMember, stmtField, kResource, kNotResource, kSid, kEffect, kCondition]
  cases hp : s.principal with
  | none =>
    simp [principalMembers, List.foldlM_cons, stmtField_sid, stmtField_effect, stmtField_condition, ha, hr,
      optString_optStrJson, effect_effectName]
  | some r =>
    cases r with
    | principal p =>
      simp [principalMembers, List.foldlM_cons, stmtField_sid, stmtField_effect, stmtField_condition, ha, hr,
        optString_optStrJson, effect_effectName,
        stmtField_other _ kPrincipal _ (by decide) (by decide) (by decide)]
    | notPrincipal p =>
      simp [principalMembers, List.foldlM_cons, stmtField_sid, stmtField_effect, stmtField_condition, ha, hr,
        optString_optStrJson, effect_effectName,
        stmtField_other _ kNotPrincipal _ (by decide) (by decide) (by decide)]

theorem statementOfJson_statementJson (s : Statement) (hw : s.mapsWf) (hs : s.hasOneStar = false) :
    statementOfJson (statementJson s) = some s := by
  rw [hasOneStar_eq] at hs
  simp only [Bool.or_eq_false_iff] at hs
  simp only [statementJson, statementOfJson, statementOfMembers]
  rw [stmt_fold_written s, optCondition_written s.condition hw.2]
  simp only [Option.map_some, Option.bind_some, Option.getD_some]
  have hpk := principalMembers_keys s.principal
  have hA : actionRuleOf (principalMembers s.principal ++ [actionMember s.action, resourceMember s.resource])
      = some s.action := by
    apply actionRuleOf_written s.action hs.1
    intro kv hkv
    rcases hpk kv hkv with h | h <;> rw [h] <;> decide
  have hR : resourceRuleOf (principalMembers s.principal ++ [actionMember s.action, resourceMember s.resource])
      = some s.resource := by
    have := resourceRuleOf_written s.resource hs.2 (principalMembers s.principal ++ [actionMember s.action]) []
      (by
        intro kv hkv
        simp only [List.mem_append, List.mem_singleton] at hkv
        rcases hkv with hkv | hkv
        · rcases hpk kv hkv with h | h <;> rw [h] <;> decide
        · rcases actionMember_key s.action with h | h <;> rw [hkv, h] <;> decide)
    simpa using this
  have hP : principalRuleOf (principalMembers s.principal ++ [actionMember s.action, resourceMember s.resource])
      = s.principal := by
    apply principalRuleOf_written s.principal hw.1
    intro kv hkv
    simp only [List.mem_cons, List.not_mem_nil, or_false] at hkv
    rcases hkv with hkv | hkv
    · rcases actionMember_key s.action with h | h <;> rw [hkv, h] <;> decide
    · rcases resourceMember_key s.resource with h | h <;> rw [hkv, h] <;> decide
  rw [hA, hR, hP]
  rfl

theorem statementsOfJson_statementsJson (st : OneOrMore Statement)
    (hw : ∀ s ∈ st.toList, s.mapsWf) (hs : ∀ s ∈ st.toList, s.hasOneStar = false) :
    statementsOfJson (statementsJson st) = some st := by
  cases st with
  | one s =>
    have := statementOfJson_statementJson s (hw s (by simp [OneOrMore.toList])) (hs s (by simp [OneOrMore.toList]))
    simp only [statementJson, statementOfJson] at this
    simp only [statementsJson, statementJson, statementsOfJson, this]
    rfl
  | more ss =>
    simp only [statementsJson, statementsOfJson]
    have : (ss.map statementJson).mapM statementOfJson = some ss := by
      simp only [OneOrMore.toList] at hw hs
      induction ss with
      | nil => simp
      | cons s ss ih =>
        simp only [List.map_cons, List.mapM_cons]
        rw [statementOfJson_statementJson s (hw s (by simp)) (hs s (by simp)),
          ih (fun x hx => hw x (List.mem_cons_of_mem _ hx)) (fun x hx => hs x (List.mem_cons_of_mem _ hx))]
        rfl
    rw [this]; rfl

/-! ## policy -/

theorem policyField_version (acc : PolAcc) (v : Json) :
    policyField acc (kVersion, v) =
      if acc.version.isSome then none else (optVersion v).map fun x => { acc with version := some x } := by
  simp [policyField]

theorem policyField_id (acc : PolAcc) (v : Json) :
    policyField acc (kId, v) =
      if acc.id.isSome then none else (optString v).map fun x => { acc with id := some x } := by
  simp [policyField, kId, kVersion]

theorem policyField_statement (acc : PolAcc) (v : Json) :
    policyField acc (kStatement, v) =
      if acc.statement.isSome then none
      else (statementsOfJson v).map fun x => { acc with statement := some x } := by
  simp [policyField, kId, kVersion, kStatement]

theorem policyField_other (acc : PolAcc) (k : Bytes) (v : Json) (h1 : k ≠ kVersion) (h2 : k ≠ kId)
    (h3 : k ≠ kStatement) : policyField acc (k, v) = some acc := by
  simp [policyField, h1, h2, h3]

theorem fromJson?_toJson (p : Policy) (hw : p.mapsWf) (hs : p.hasOneStar = false) :
    fromJson? (toJson p) = some p := by
  have hs' : ∀ s ∈ p.statement.toList, s.hasOneStar = false := by
    simpa [Policy.hasOneStar] using hs
  simp [toJson, fromJson?, policyOfMembers, List.foldlM_cons, policyField_version, policyField_id,
    policyField_statement, optVersion_optVersionJson, optString_optStrJson,
    statementsOfJson_statementsJson p.statement hw hs']

theorem fromJson_ok_iff (j : Json) (p : Policy) : fromJson j = .ok p ↔ fromJson? j = some p := by
  unfold fromJson
  cases fromJson? j <;> simp

end S3V.Policy
