import S3V.Thm.XmlUtf8
/-!
More UTF-8 facts for the XML codec: validity of concatenations, of encoded scalar values and of `unescape` output.
-/
namespace S3V.Xml
open S3V

/-- fuel beyond the length does not matter -/
theorem decodeFuel_isSome_mono : ∀ (n : Nat) (b : Bytes), b.length ≤ n → (utf8DecodeFuel n b).isSome = true →
    ∀ m, b.length ≤ m → (utf8DecodeFuel m b).isSome = true := by
  intro n b hn hv m hm
  have := decodeFuel_expand
    { f := id, g := fun c => [c], nil := rfl, cons := fun _ _ => rfl,
      ascii := fun c h x hx => by simp only [List.mem_singleton] at hx; subst hx; exact h,
      high := fun _ _ => rfl } n b hn hv m hm
  exact this

theorem decodeOne_append {b0 : UInt8} {rest r : Bytes} {cp : Nat} (h : utf8DecodeOne (b0 :: rest) = some (cp, r))
    (x : Bytes) : utf8DecodeOne (b0 :: (rest ++ x)) = some (cp, r ++ x) := by
  rcases decodeOne_shape h with ⟨hascii, hr⟩ | ⟨_, mid, hrest, _, hsame⟩
  · subst hr
    have := decodeOne_ascii hascii r
    rw [this] at h
    cases h
    exact decodeOne_ascii hascii _
  · subst hrest
    rw [List.append_assoc]
    exact hsame (r ++ x)

theorem decodeOne_length {b : Bytes} {cp : Nat} {r : Bytes} (h : utf8DecodeOne b = some (cp, r)) : r.length < b.length := by
  cases b with
  | nil => simp [utf8DecodeOne] at h
  | cons b0 rest =>
    rcases decodeOne_shape h with ⟨_, hr⟩ | ⟨_, mid, hrest, _, _⟩
    · subst hr; simp
    · subst hrest; simp; omega

/-- concatenation of valid strings -/
theorem decodeFuel_append : ∀ (n : Nat) (a x : Bytes), a.length ≤ n → (utf8DecodeFuel n a).isSome = true →
    utf8Valid x = true → ∀ m, (a ++ x).length ≤ m → (utf8DecodeFuel m (a ++ x)).isSome = true
  | _, [], x, _, _, hx, m, hm => by
    unfold utf8Valid utf8Decode at hx
    exact decodeFuel_isSome_mono x.length x (Nat.le_refl _) hx m (by simpa using hm)
  | 0, _ :: _, _, hn, _, _, _, _ => by simp at hn
  | k + 1, b0 :: rest, x, hn, hv, hx, m, hm => by
    simp only [utf8DecodeFuel] at hv
    cases hd : utf8DecodeOne (b0 :: rest) with
    | none => simp [hd] at hv
    | some p =>
      obtain ⟨cp, r⟩ := p
      simp only [hd, Option.isSome_map] at hv
      have hlen := decodeOne_length hd
      cases m with
      | zero => simp at hm
      | succ m' =>
        simp only [List.cons_append, utf8DecodeFuel, decodeOne_append hd x, Option.isSome_map]
        exact decodeFuel_append k r x (by simp at hn hlen; omega) hv hx m'
          (by simp only [List.cons_append, List.length_cons, List.length_append] at hm hlen ⊢; omega)

theorem utf8Valid_append {a x : Bytes} (ha : utf8Valid a = true) (hx : utf8Valid x = true) : utf8Valid (a ++ x) = true := by
  unfold utf8Valid utf8Decode at ha ⊢
  exact decodeFuel_append a.length a x (Nat.le_refl _) ha hx _ (Nat.le_refl _)

/-- dropping an ASCII prefix of a valid string -/
theorem utf8Valid_drop_ascii {E x : Bytes} (hE : ∀ c ∈ E, c.toNat < 128) (h : utf8Valid (E ++ x) = true) :
    utf8Valid x = true := by
  unfold utf8Valid utf8Decode at h ⊢
  rw [decodeFuel_ascii E x _ hE (by simp)] at h
  exact decodeFuel_isSome_mono _ x (by simp) h _ (Nat.le_refl _)

theorem utf8Valid_ascii {E : Bytes} (hE : ∀ c ∈ E, c.toNat < 128) : utf8Valid E = true := by
  unfold utf8Valid utf8Decode
  have := decodeFuel_ascii E [] E.length hE (Nat.le_refl _)
  simp only [List.append_nil] at this
  rw [this]
  simp [utf8DecodeFuel]


theorem toNat_ofNat_lt {n : Nat} (h : n < 256) : (UInt8.ofNat n).toNat = n := by
  simp [UInt8.toNat_ofNat, Nat.mod_eq_of_lt h]

/-- a scalar value (not a surrogate, ≤ U+10FFFF) encodes to a valid UTF-8 string -/
theorem decodeOne_encodeOne {c : Nat} (h1 : c ≤ 0x10FFFF) (h2 : ¬ (0xD800 ≤ c ∧ c ≤ 0xDFFF)) :
    ∃ cp, utf8DecodeOne (utf8EncodeOne c) = some (cp, []) := by
  unfold utf8EncodeOne
  split
  · rename_i h
    exact ⟨_, by simp [utf8DecodeOne, toNat_ofNat_lt (show c < 256 by omega), h]⟩
  split
  · rename_i h0 h
    have e0 := toNat_ofNat_lt (show 0xC0 + c / 64 < 256 by omega)
    have e1 := toNat_ofNat_lt (show 0x80 + c % 64 < 256 by omega)
    refine ⟨_, ?_⟩
    simp only [utf8DecodeOne, e0, e1, isCont]
    rw [if_neg (by omega), if_neg (by omega), if_pos (by omega)]
    simp only [show (0x80 + c % 64) / 64 = 2 by omega, decide_true, if_true]
  split
  · rename_i h0 h00 h
    have e0 := toNat_ofNat_lt (show 0xE0 + c / 4096 < 256 by omega)
    have e1 := toNat_ofNat_lt (show 0x80 + c / 64 % 64 < 256 by omega)
    have e2 := toNat_ofNat_lt (show 0x80 + c % 64 < 256 by omega)
    refine ⟨_, ?_⟩
    simp only [utf8DecodeOne, e0, e1, e2, isCont]
    rw [if_neg (by omega), if_neg (by omega), if_neg (by omega), if_pos (by omega)]
    simp only [show (0x80 + c / 64 % 64) / 64 = 2 by omega, show (0x80 + c % 64) / 64 = 2 by omega, decide_true,
      Bool.and_self, if_true]
    have hcp : (0xE0 + c / 4096 - 0xE0) * 4096 + (0x80 + c / 64 % 64 - 0x80) * 64 + (0x80 + c % 64 - 0x80) = c := by
      omega
    rw [hcp]
    rw [if_neg]
    simp only [Bool.or_eq_true, Bool.and_eq_true, decide_eq_true_eq]
    omega
  · rename_i h0 h00 h000
    have e0 := toNat_ofNat_lt (show 0xF0 + c / 262144 < 256 by omega)
    have e1 := toNat_ofNat_lt (show 0x80 + c / 4096 % 64 < 256 by omega)
    have e2 := toNat_ofNat_lt (show 0x80 + c / 64 % 64 < 256 by omega)
    have e3 := toNat_ofNat_lt (show 0x80 + c % 64 < 256 by omega)
    refine ⟨_, ?_⟩
    simp only [utf8DecodeOne, e0, e1, e2, e3, isCont]
    rw [if_neg (by omega), if_neg (by omega), if_neg (by omega), if_neg (by omega), if_pos (by omega)]
    simp only [show (0x80 + c / 4096 % 64) / 64 = 2 by omega, show (0x80 + c / 64 % 64) / 64 = 2 by omega,
      show (0x80 + c % 64) / 64 = 2 by omega, decide_true, Bool.and_self, if_true]
    have hcp : (0xF0 + c / 262144 - 0xF0) * 262144 + (0x80 + c / 4096 % 64 - 0x80) * 4096 +
        (0x80 + c / 64 % 64 - 0x80) * 64 + (0x80 + c % 64 - 0x80) = c := by omega
    rw [hcp]
    rw [if_neg]
    simp only [Bool.or_eq_true, decide_eq_true_eq]
    omega

theorem utf8Valid_encodeOne {c : Nat} (h1 : c ≤ 0x10FFFF) (h2 : ¬ (0xD800 ≤ c ∧ c ≤ 0xDFFF)) :
    utf8Valid (utf8EncodeOne c) = true := by
  obtain ⟨cp, h⟩ := decodeOne_encodeOne h1 h2
  have hl := decodeOne_length h
  unfold utf8Valid utf8Decode
  cases hn : (utf8EncodeOne c).length with
  | zero => rw [hn] at hl; simp at hl
  | succ k =>
    cases he : utf8EncodeOne c with
    | nil => rw [he] at hn; simp at hn
    | cons b0 rest =>
      rw [he] at h
      simp [utf8DecodeFuel, h]
      cases k <;> simp [utf8DecodeFuel]

end S3V.Xml
