import S3V.Thm.XmlUtf8
/-!
More UTF-8 facts for the XML codec: validity of concatenations, of encoded scalar values and of `unescape` output.
-/
namespace S3V.Xml
open S3V

/-- fuel beyond the length does not matter -/
theorem decodeFuel_isSome_mono : ∀ (n : Nat) (b : Bytes), b.length ≤ n → (utf8DecodeFuel n b).isSome = true →
    ∀ m, b.length ≤ m → (utf8DecodeFuel m b).isSome = true := by
  intro n b hn hv m hm
  have := decodeFuel_expand
    { f := id, g := fun c _ => [c], nil := rfl, cons := fun _ _ => rfl,
      ascii := fun c _ h x hx => by simp only [List.mem_singleton] at hx; subst hx; exact h,
      high := fun _ _ _ => rfl } n b hn hv m hm
  exact this

theorem decodeOne_append {b0 : UInt8} {rest r : Bytes} {cp : Nat} (h : utf8DecodeOne (b0 :: rest) = some (cp, r))
    (x : Bytes) : utf8DecodeOne (b0 :: (rest ++ x)) = some (cp, r ++ x) := by
  rcases decodeOne_shape h with ⟨hascii, hr⟩ | ⟨_, mid, hrest, _, hsame⟩
  · subst hr
    have := decodeOne_ascii hascii r
    rw [this] at h
    cases h
    exact decodeOne_ascii hascii _
  · subst hrest
    rw [List.append_assoc]
    exact hsame (r ++ x)

theorem decodeOne_length {b : Bytes} {cp : Nat} {r : Bytes} (h : utf8DecodeOne b = some (cp, r)) : r.length < b.length := by
  cases b with
  | nil => simp [utf8DecodeOne] at h
  | cons b0 rest =>
    rcases decodeOne_shape h with ⟨_, hr⟩ | ⟨_, mid, hrest, _, _⟩
    · subst hr; simp
    · subst hrest; simp; omega

/-- concatenation of valid strings -/
theorem decodeFuel_append : ∀ (n : Nat) (a x : Bytes), a.length ≤ n → (utf8DecodeFuel n a).isSome = true →
    utf8Valid x = true → ∀ m, (a ++ x).length ≤ m → (utf8DecodeFuel m (a ++ x)).isSome = true
  | _, [], x, _, _, hx, m, hm => by
    unfold utf8Valid utf8Decode at hx
    exact decodeFuel_isSome_mono x.length x (Nat.le_refl _) hx m (by simpa using hm)
  | 0, _ :: _, _, hn, _, _, _, _ => by simp at hn
  | k + 1, b0 :: rest, x, hn, hv, hx, m, hm => by
    simp only [utf8DecodeFuel] at hv
    cases hd : utf8DecodeOne (b0 :: rest) with
    | none => simp [hd] at hv
    | some p =>
      obtain ⟨cp, r⟩ := p
      simp only [hd, Option.isSome_map] at hv
      have hlen := decodeOne_length hd
      cases m with
      | zero => simp at hm
      | succ m' =>
        simp only [List.cons_append, utf8DecodeFuel, decodeOne_append hd x, Option.isSome_map]
        exact decodeFuel_append k r x (by simp at hn hlen; omega) hv hx m'
          (by simp only [List.cons_append, List.length_cons, List.length_append] at hm hlen ⊢; omega)

theorem utf8Valid_append {a x : Bytes} (ha : utf8Valid a = true) (hx : utf8Valid x = true) : utf8Valid (a ++ x) = true := by
  unfold utf8Valid utf8Decode at ha ⊢
  exact decodeFuel_append a.length a x (Nat.le_refl _) ha hx _ (Nat.le_refl _)

/-- dropping an ASCII prefix of a valid string -/
theorem utf8Valid_drop_ascii {E x : Bytes} (hE : ∀ c ∈ E, c.toNat < 128) (h : utf8Valid (E ++ x) = true) :
    utf8Valid x = true := by
  unfold utf8Valid utf8Decode at h ⊢
  rw [decodeFuel_ascii E x _ hE (by simp)] at h
  exact decodeFuel_isSome_mono _ x (by simp) h _ (Nat.le_refl _)

theorem utf8Valid_ascii {E : Bytes} (hE : ∀ c ∈ E, c.toNat < 128) : utf8Valid E = true := by
  unfold utf8Valid utf8Decode
  have := decodeFuel_ascii E [] E.length hE (Nat.le_refl _)
  simp only [List.append_nil] at this
  rw [this]
  simp [utf8DecodeFuel]


theorem toNat_ofNat_lt {n : Nat} (h : n < 256) : (UInt8.ofNat n).toNat = n := by
  simp [UInt8.toNat_ofNat, Nat.mod_eq_of_lt h]

/-- a scalar value (not a surrogate, ≤ U+10FFFF) encodes to a valid UTF-8 string -/
theorem decodeOne_encodeOne {c : Nat} (h1 : c ≤ 0x10FFFF) (h2 : ¬ (0xD800 ≤ c ∧ c ≤ 0xDFFF)) :
    (utf8DecodeOne (utf8EncodeOne c)).map Prod.snd = some [] := by
  unfold utf8EncodeOne
  split
  · rename_i h
    simp [utf8DecodeOne, toNat_ofNat_lt (show c < 256 by omega), h]
  split
  · rename_i h0 h
    have e0 := toNat_ofNat_lt (show 0xC0 + c / 64 < 256 by omega)
    have e1 := toNat_ofNat_lt (show 0x80 + c % 64 < 256 by omega)
    simp only [utf8DecodeOne, e0, e1, isCont]
    rw [if_neg (by omega), if_neg (by omega), if_pos (by omega)]
    simp only [show (0x80 + c % 64) / 64 = 2 by omega, decide_true, if_true, Option.map_some]
  split
  · rename_i h0 h00 h
    have e0 := toNat_ofNat_lt (show 0xE0 + c / 4096 < 256 by omega)
    have e1 := toNat_ofNat_lt (show 0x80 + c / 64 % 64 < 256 by omega)
    have e2 := toNat_ofNat_lt (show 0x80 + c % 64 < 256 by omega)
    simp only [utf8DecodeOne, e0, e1, e2, isCont]
    rw [if_neg (by omega), if_neg (by omega), if_neg (by omega), if_pos (by omega)]
    simp only [show (0x80 + c / 64 % 64) / 64 = 2 by omega, show (0x80 + c % 64) / 64 = 2 by omega, decide_true,
      Bool.and_self, if_true]
    have hcp : (0xE0 + c / 4096 - 0xE0) * 4096 + (0x80 + c / 64 % 64 - 0x80) * 64 + (0x80 + c % 64 - 0x80) = c := by
      omega
    rw [hcp]
    rw [if_neg, Option.map_some]
    simp only [Bool.or_eq_true, Bool.and_eq_true, decide_eq_true_eq]
    omega
  · rename_i h0 h00 h000
    have e0 := toNat_ofNat_lt (show 0xF0 + c / 262144 < 256 by omega)
    have e1 := toNat_ofNat_lt (show 0x80 + c / 4096 % 64 < 256 by omega)
    have e2 := toNat_ofNat_lt (show 0x80 + c / 64 % 64 < 256 by omega)
    have e3 := toNat_ofNat_lt (show 0x80 + c % 64 < 256 by omega)
    simp only [utf8DecodeOne, e0, e1, e2, e3, isCont]
    rw [if_neg (by omega), if_neg (by omega), if_neg (by omega), if_neg (by omega), if_pos (by omega)]
    simp only [show (0x80 + c / 4096 % 64) / 64 = 2 by omega, show (0x80 + c / 64 % 64) / 64 = 2 by omega,
      show (0x80 + c % 64) / 64 = 2 by omega, decide_true, Bool.and_self, if_true]
    have hcp : (0xF0 + c / 262144 - 0xF0) * 262144 + (0x80 + c / 4096 % 64 - 0x80) * 4096 +
        (0x80 + c / 64 % 64 - 0x80) * 64 + (0x80 + c % 64 - 0x80) = c := by omega
    rw [hcp]
    rw [if_neg, Option.map_some]
    simp only [Bool.or_eq_true, decide_eq_true_eq]
    omega

theorem utf8Valid_encodeOne {c : Nat} (h1 : c ≤ 0x10FFFF) (h2 : ¬ (0xD800 ≤ c ∧ c ≤ 0xDFFF)) :
    utf8Valid (utf8EncodeOne c) = true := by
  have h' := decodeOne_encodeOne h1 h2
  obtain ⟨cp, h⟩ : ∃ cp, utf8DecodeOne (utf8EncodeOne c) = some (cp, []) := by
    cases hd : utf8DecodeOne (utf8EncodeOne c) with
    | none => simp [hd] at h'
    | some p => obtain ⟨cp, r⟩ := p; simp [hd] at h'; subst h'; exact ⟨cp, rfl⟩
  have hl := decodeOne_length h
  unfold utf8Valid utf8Decode
  cases hn : (utf8EncodeOne c).length with
  | zero => rw [hn] at hl; simp at hl
  | succ k =>
    cases he : utf8EncodeOne c with
    | nil => rw [he] at hn; simp at hn
    | cons b0 rest =>
      rw [he] at h
      simp [utf8DecodeFuel, h]


/-! ### one decoding step -/

theorem utf8Valid_step {b0 : UInt8} {rest : Bytes} (h : utf8Valid (b0 :: rest) = true) :
    ∃ cp r, utf8DecodeOne (b0 :: rest) = some (cp, r) ∧ utf8Valid r = true := by
  unfold utf8Valid utf8Decode at h
  simp only [List.length_cons, utf8DecodeFuel] at h
  cases hd : utf8DecodeOne (b0 :: rest) with
  | none => simp [hd] at h
  | some p =>
    obtain ⟨cp, r⟩ := p
    simp only [hd, Option.isSome_map] at h
    have hl := decodeOne_length hd
    refine ⟨cp, r, rfl, ?_⟩
    unfold utf8Valid utf8Decode
    exact decodeFuel_isSome_mono rest.length r (by simp at hl; omega) h _ (Nat.le_refl _)

theorem utf8Valid_of_step {b : Bytes} {cp : Nat} {r : Bytes} (hd : utf8DecodeOne b = some (cp, r))
    (hr : utf8Valid r = true) : utf8Valid b = true := by
  have hl := decodeOne_length hd
  unfold utf8Valid utf8Decode at hr ⊢
  cases hb : b.length with
  | zero => rw [hb] at hl; simp at hl
  | succ k =>
    cases b with
    | nil => simp at hb
    | cons b0 rest =>
      simp only [utf8DecodeFuel, hd, Option.isSome_map]
      exact decodeFuel_isSome_mono r.length r (Nat.le_refl _) hr k (by simp at hb hl; omega)

/-! ### `unescape` keeps UTF-8 valid -/

theorem radixVal_ascii (radix : Nat) (dig : UInt8 → Option Nat) (hdig : ∀ c, dig c ≠ none → c.toNat < 128) :
    ∀ (bs : Bytes) (acc v : Nat), radixVal radix dig bs acc = some v → ∀ c ∈ bs, c.toNat < 128
  | [], _, _, _, c, hc => by simp at hc
  | b :: bs, acc, v, h, c, hc => by
    simp only [radixVal] at h
    cases hd : dig b with
    | none => simp [hd] at h
    | some d =>
      simp only [hd] at h
      rcases List.mem_cons.mp hc with hc | hc
      · subst hc; exact hdig c (by simp [hd])
      · exact radixVal_ascii radix dig hdig bs _ v h c hc

theorem hexDigit_ascii (c : UInt8) (h : hexDigitVal c ≠ none) : c.toNat < 128 := by
  unfold hexDigitVal at h
  split at h
  · omega
  split at h
  · omega
  split at h
  · omega
  · exact absurd rfl h

theorem decDigit_ascii (c : UInt8) (h : decDigitVal c ≠ none) : c.toNat < 128 := by
  unfold decDigitVal at h
  split at h
  · omega
  · exact absurd rfl h

theorem charRef_ok {num r : Bytes} (h : charRef num = some r) : (∀ c ∈ num, c.toNat < 128) ∧ utf8Valid r = true := by
  unfold charRef at h
  simp only at h
  split at h
  · cases h
  · rename_i c hcode
    have hval : utf8Valid r = true := by
      split at h
      · cases h
      split at h
      · cases h
      split at h
      · cases h
      · rename_i h0 h1 h2
        cases h
        exact utf8Valid_encodeOne (by omega) h2
    refine ⟨?_, hval⟩
    split at hcode
    · rename_i hex
      split at hcode
      · cases hcode
      · intro x hx
        rcases List.mem_cons.mp hx with hx | hx
        · subst hx; decide
        · exact radixVal_ascii 16 hexDigitVal hexDigit_ascii hex 0 c hcode x hx
    · split at hcode
      · cases hcode
      · exact radixVal_ascii 10 decDigitVal decDigit_ascii num 0 c hcode

theorem resolveEntity_ok {pat r : Bytes} (h : resolveEntity pat = some r) :
    (∀ c ∈ pat, c.toNat < 128) ∧ utf8Valid r = true := by
  unfold resolveEntity at h
  split at h
  · rename_i num
    obtain ⟨h1, h2⟩ := charRef_ok h
    refine ⟨?_, h2⟩
    intro c hc
    rcases List.mem_cons.mp hc with hc | hc
    · subst hc; decide
    · exact h1 c hc
  all_goals first
    | (cases h; exact ⟨by decide, by decide⟩)
    | cases h

/-- what a successful entity reference consumed -/
theorem unescapeEnt_ok : ∀ (cs acc a : Bytes), unescapeEnt acc cs = some a →
    ∃ name cs' r a', cs = name ++ cSemi :: cs' ∧ resolveEntity (acc.reverse ++ name) = some r ∧
      unescape cs' = some a' ∧ a = r ++ a'
  | [], _, _, h => by simp [unescapeEnt] at h
  | c :: cs, acc, a, h => by
    simp only [unescapeEnt] at h
    split at h
    · rename_i hc
      subst hc
      cases hr : resolveEntity acc.reverse with
      | none => simp [hr] at h
      | some r =>
        simp only [hr, Option.map_eq_some_iff] at h
        obtain ⟨a', ha', he⟩ := h
        exact ⟨[], cs, r, a', by simp, by simpa using hr, ha', he.symm⟩
    · split at h
      · cases h
      · obtain ⟨name, cs', r, a', h1, h2, h3, h4⟩ := unescapeEnt_ok cs (c :: acc) a h
        refine ⟨c :: name, cs', r, a', by simp [h1], ?_, h3, h4⟩
        simpa using h2

/-- bytes other than `&` pass through `unescape` -/
theorem unescape_passthrough : ∀ (p x : Bytes), (∀ c ∈ p, c ≠ cAmp) → unescape (p ++ x) = (unescape x).map (p ++ ·)
  | [], x, _ => by simp
  | c :: cs, x, h => by
    rw [List.cons_append, unescape_cons_of_ne_amp (h c (by simp)),
      unescape_passthrough cs x (fun y hy => h y (by simp [hy]))]
    cases unescape x <;> simp

theorem unescape_valid : ∀ (n : Nat) (raw a : Bytes), raw.length ≤ n → utf8Valid raw = true → unescape raw = some a →
    utf8Valid a = true
  | _, [], a, _, _, h => by simp [unescape] at h; subst h; decide
  | 0, _ :: _, _, hn, _, _ => by simp at hn
  | k + 1, c :: cs, a, hn, hv, h => by
    by_cases hc : c = cAmp
    · subst hc
      simp only [unescape, if_true] at h
      obtain ⟨name, cs', r, a', h1, h2, h3, h4⟩ := unescapeEnt_ok cs [] a h
      simp only [List.reverse_nil, List.nil_append] at h2
      obtain ⟨hname, hr⟩ := resolveEntity_ok h2
      subst h1 h4
      have hE : ∀ x ∈ (cAmp :: (name ++ [cSemi]) : Bytes), x.toNat < 128 := by
        intro x hx
        simp only [List.mem_cons, List.mem_append, List.not_mem_nil, or_false] at hx
        rcases hx with hx | hx | hx
        · subst hx; decide
        · exact hname x hx
        · subst hx; decide
      have hcs' : utf8Valid cs' = true := by
        apply utf8Valid_drop_ascii hE
        simpa using hv
      exact utf8Valid_append hr
        (unescape_valid k cs' a' (by simp at hn ⊢; omega) hcs' h3)
    · obtain ⟨cp, r, hd, hr⟩ := utf8Valid_step hv
      have hl := decodeOne_length hd
      rcases decodeOne_shape hd with ⟨hascii, hrr⟩ | ⟨hhigh, mid, hrest, hmid, hsame⟩
      · subst hrr
        rw [unescape_cons_of_ne_amp hc, Option.map_eq_some_iff] at h
        obtain ⟨a', ha', he⟩ := h
        subst he
        have := unescape_valid k r a' (by simpa using hn) hr ha'
        exact utf8Valid_append (a := [c]) (utf8Valid_ascii (by
          intro x hx; simp only [List.mem_singleton] at hx; subst hx; exact hascii)) this
      · subst hrest
        have hp : ∀ x ∈ (c :: mid : Bytes), x ≠ cAmp := by
          intro x hx
          rcases List.mem_cons.mp hx with hx | hx
          · subst hx; exact hc
          · intro hxa; subst hxa; have := hmid _ hx; simp [cAmp] at this
        have he : c :: (mid ++ r) = (c :: mid) ++ r := rfl
        rw [he, unescape_passthrough _ _ hp, Option.map_eq_some_iff] at h
        obtain ⟨a', ha', hea⟩ := h
        subst hea
        have hva := unescape_valid k r a' (by simp at hn ⊢; omega) hr ha'
        have hhead : utf8Valid (c :: mid) = true := by
          have := hsame []
          simp only [List.append_nil] at this
          exact utf8Valid_of_step this (by decide)
        exact utf8Valid_append hhead hva

/-- **`unescape` of a valid UTF-8 string is a valid UTF-8 string** -/
theorem utf8Valid_unescape {raw a : Bytes} (hv : utf8Valid raw = true) (h : unescape raw = some a) :
    utf8Valid a = true :=
  unescape_valid raw.length raw a (Nat.le_refl _) hv h

end S3V.Xml
