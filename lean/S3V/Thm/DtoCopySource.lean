import S3V.Model.DtoCopySource
import S3V.Spec.Dto
namespace S3V.Dto

theorem hex_roundtrip : ∀ d : Fin 16, fromHexDigit (toHexDigit d.val) = some d.val := by decide

theorem toHexDigit_unreserved : ∀ d : Fin 16, isUnreserved (toHexDigit d.val) = true := by decide

theorem pct_not_unreserved : isUnreserved pct = false := by decide

theorem pctDecode_cons_ne (c : UInt8) (t : Bytes) (h : c ≠ pct) : pctDecode (c :: t) = c :: pctDecode t := by
  match t with
  | [] => simp [pctDecode]
  | [a] => simp [pctDecode, h]
  | a :: b :: r => simp [pctDecode, h]

theorem pctDecode_pct_hex (a b : UInt8) (rest : Bytes) (x y : Nat)
    (ha : fromHexDigit a = some x) (hb : fromHexDigit b = some y) :
    pctDecode (pct :: a :: b :: rest) = UInt8.ofNat (x * 16 + y) :: pctDecode rest := by
  simp [pctDecode, ha, hb]

theorem pctDecode_pctEncode (b : Bytes) : pctDecode (pctEncode b) = b := by
  induction b with
  | nil => simp [pctEncode, pctDecode]
  | cons c cs ih =>
    simp only [pctEncode]
    split
    · rename_i hu
      have hc : c ≠ pct := by
        intro h; subst h; simp [pct_not_unreserved] at hu
      rw [pctDecode_cons_ne _ _ hc, ih]
    · have h1 := hex_roundtrip ⟨c.toNat / 16, by have := c.toNat_lt; omega⟩
      have h2 := hex_roundtrip ⟨c.toNat % 16, by omega⟩
      rw [pctDecode_pct_hex _ _ _ _ _ h1 h2, ih]
      congr 1
      have : c.toNat / 16 * 16 + c.toNat % 16 = c.toNat := by omega
      simp only [this, UInt8.ofNat_toNat]

theorem pctDecode_append_noPct (xs ys : Bytes) (h : ∀ c ∈ xs, c ≠ pct) :
    pctDecode (xs ++ ys) = xs ++ pctDecode ys := by
  induction xs with
  | nil => rfl
  | cons c cs ih =>
    rw [List.cons_append, pctDecode_cons_ne _ _ (h c (List.mem_cons_self ..)),
      ih (fun x hx => h x (List.mem_cons_of_mem _ hx)), List.cons_append]

theorem pctDecode_noPct (xs : Bytes) (h : ∀ c ∈ xs, c ≠ pct) : pctDecode xs = xs := by
  have := pctDecode_append_noPct xs [] h
  simpa [pctDecode] using this

/-- `urlencoding::decode` is percent-decoding whenever the result is UTF-8 -/
theorem urlDecode_eq (s : Bytes) (h : utf8Valid (pctDecode s) = true) : urlDecode s = some (pctDecode s) := by
  unfold urlDecode
  split
  · rename_i hall
    rw [pctDecode_noPct s (by simpa using hall)]
  · simp [h]

theorem utf8Valid_cons_ascii (c : UInt8) (rest : Bytes) (hc : c.toNat < 128) :
    utf8Valid (c :: rest) = utf8Valid rest := by
  simp [utf8Valid, utf8Decode, utf8DecodeFuel, utf8DecodeOne, hc]

theorem utf8Valid_append_ascii (xs ys : Bytes) (h : ∀ c ∈ xs, c.toNat < 128) :
    utf8Valid (xs ++ ys) = utf8Valid ys := by
  induction xs with
  | nil => rfl
  | cons c cs ih =>
    rw [List.cons_append, utf8Valid_cons_ascii _ _ (h c (List.mem_cons_self ..)),
      ih (fun x hx => h x (List.mem_cons_of_mem _ hx))]

theorem splitOnce_append (c : UInt8) (xs ys : Bytes) (h : ∀ x ∈ xs, x ≠ c) :
    splitOnce c (xs ++ c :: ys) = some (xs, ys) := by
  induction xs with
  | nil => simp [splitOnce]
  | cons x xs ih =>
    have hx : x ≠ c := h x (List.mem_cons_self ..)
    simp [splitOnce, hx, ih (fun y hy => h y (List.mem_cons_of_mem _ hy))]

theorem splitOnce_none (c : UInt8) (xs : Bytes) (h : ∀ x ∈ xs, x ≠ c) : splitOnce c xs = none := by
  induction xs with
  | nil => rfl
  | cons x xs ih =>
    have hx : x ≠ c := h x (List.mem_cons_self ..)
    simp [splitOnce, hx, ih (fun y hy => h y (List.mem_cons_of_mem _ hy))]

/-- every byte `encode` writes is unreserved or `%` -/
theorem pctEncode_bytes (k : Bytes) : ∀ c ∈ pctEncode k, isUnreserved c = true ∨ c = pct := by
  induction k with
  | nil => simp [pctEncode]
  | cons x xs ih =>
    simp only [pctEncode]
    split
    · rename_i hu
      intro c hc
      rcases List.mem_cons.mp hc with rfl | hc
      · exact Or.inl hu
      · exact ih c hc
    · intro c hc
      simp only [List.mem_cons] at hc
      rcases hc with rfl | rfl | rfl | hc
      · exact Or.inr rfl
      · exact Or.inl (toHexDigit_unreserved ⟨x.toNat / 16, by have := x.toNat_lt; omega⟩)
      · exact Or.inl (toHexDigit_unreserved ⟨x.toNat % 16, by omega⟩)
      · exact ih c hc

theorem unreserved_facts (c : UInt8) (h : isUnreserved c = true ∨ c = pct) :
    c ≠ qmark ∧ c ≠ slash ∧ c ≠ eqSign ∧ c.toNat < 128 := by
  rcases h with h | rfl
  · refine ⟨?_, ?_, ?_, ?_⟩
    · rintro rfl; revert h; decide
    · rintro rfl; revert h; decide
    · rintro rfl; revert h; decide
    · simp only [isUnreserved, Bool.or_eq_true, Bool.and_eq_true, decide_eq_true_eq] at h; omega
  · decide

theorem bucketChar_facts (c : UInt8) (h : isBucketChar c = true) :
    c ≠ qmark ∧ c ≠ slash ∧ c ≠ pct ∧ c.toNat < 128 := by
  refine ⟨?_, ?_, ?_, ?_⟩
  · rintro rfl; revert h; decide
  · rintro rfl; revert h; decide
  · rintro rfl; revert h; decide
  · simp only [isBucketChar, isLowerOrDigit, Bool.or_eq_true, Bool.and_eq_true, decide_eq_true_eq] at h; omega



/-- a copy source the property quantifies over: bucket accepted by `check_bucket_name`, key any UTF-8
    text of at most 1024 bytes, version id any UTF-8 text -/
structure Legal (c : CopySource) : Prop where
  bucket : checkBucketName c.bucket = true
  keyUtf8 : utf8Valid c.key = true
  keyLen : c.key.length ≤ 1024
  version : ∀ v, c.versionId = some v → utf8Valid v = true

theorem bucket_facts {b : Bytes} (h : checkBucketName b = true) :
    (∀ c ∈ b, isBucketChar c = true) ∧ ∃ c0 b', b = c0 :: b' := by
  simp only [checkBucketName, Bool.and_eq_true, decide_eq_true_eq, List.all_eq_true] at h
  refine ⟨h.1.1.1.1.1.2, ?_⟩
  cases b with
  | nil => simp at h
  | cons c0 b' => exact ⟨c0, b', rfl⟩

/-- the path part `bucket/<encoded key>` decodes to `bucket/key` and splits there -/
theorem decode_path {b key : Bytes} (hb : checkBucketName b = true) (hk : utf8Valid key = true) :
    urlDecode (b ++ [slash] ++ pctEncode key) = some (b ++ slash :: key) := by
  obtain ⟨hall, _⟩ := bucket_facts hb
  have hd : pctDecode (b ++ [slash] ++ pctEncode key) = b ++ slash :: key := by
    rw [List.append_assoc, pctDecode_append_noPct b _ (fun c hc => (bucketChar_facts c (hall c hc)).2.2.1)]
    rw [List.singleton_append, pctDecode_cons_ne _ _ (by decide), pctDecode_pctEncode]
  have hu : utf8Valid (b ++ slash :: key) = true := by
    rw [utf8Valid_append_ascii b _ (fun c hc => (bucketChar_facts c (hall c hc)).2.2.2),
      utf8Valid_cons_ascii _ _ (by decide), hk]
  rw [urlDecode_eq _ (by rw [hd]; exact hu), hd]

theorem path_no_qmark {b key : Bytes} (hb : checkBucketName b = true) :
    ∀ x ∈ b ++ [slash] ++ pctEncode key, x ≠ qmark := by
  obtain ⟨hall, _⟩ := bucket_facts hb
  intro x hx
  simp only [List.mem_append, List.mem_singleton] at hx
  rcases hx with (hx | rfl) | hx
  · exact (bucketChar_facts x (hall x hx)).1
  · decide
  · exact (unreserved_facts x (pctEncode_bytes key x hx)).1

/-- the tail of `parse` after the query has been split off -/
theorem parse_format (c : CopySource) (h : Legal c) : CopySource.parse c.format = .ok c := by
  obtain ⟨b, key, ver⟩ := c
  obtain ⟨hb, hk, hlen, hver⟩ := h
  simp only at hb hk hlen hver
  obtain ⟨hall, c0, b', hbe⟩ := bucket_facts hb
  have hc0 : c0 ≠ slash := by
    have := hall c0 (by rw [hbe]; exact List.mem_cons_self ..)
    exact (bucketChar_facts c0 this).2.1
  have hsl : splitOnce slash (b ++ slash :: key) = some (b, key) :=
    splitOnce_append slash b key (fun x hx => (bucketChar_facts x (hall x hx)).2.1)
  have hkey : checkKey key = true := by simp [checkKey, hlen]
  cases ver with
  | none =>
    have hsp : splitOnce qmark (b ++ [slash] ++ pctEncode key) = none := splitOnce_none _ _ (path_no_qmark hb)
    simp only [CopySource.format, List.append_nil, CopySource.parse, hsp, decode_path hb hk]
    subst hbe
    simp only [List.cons_append, hc0, if_false]
    rw [← List.cons_append, hsl]
    simp [hb, hkey]
  | some v =>
    have hv : utf8Valid v = true := hver v rfl
    have hsp : splitOnce qmark (b ++ [slash] ++ pctEncode key ++ (versionIdQuery ++ pctEncode v)) =
        some (b ++ [slash] ++ pctEncode key, versionIdName ++ eqSign :: pctEncode v) := by
      have : versionIdQuery ++ pctEncode v = qmark :: (versionIdName ++ eqSign :: pctEncode v) := by
        simp [versionIdQuery]
      rw [this]
      exact splitOnce_append qmark _ _ (path_no_qmark hb)
    have hsp2 : splitOnce eqSign (versionIdName ++ eqSign :: pctEncode v) = some (versionIdName, pctEncode v) :=
      splitOnce_append eqSign _ _ (by decide)
    have hdv : urlDecode (pctEncode v) = some v := by
      rw [urlDecode_eq _ (by rw [pctDecode_pctEncode]; exact hv), pctDecode_pctEncode]
    simp only [CopySource.format, CopySource.parse, hsp, hsp2, Option.bind_some, if_true, decode_path hb hk, hdv]
    subst hbe
    simp only [List.cons_append, hc0, if_false]
    rw [← List.cons_append, hsl]
    simp [hb, hkey]


open S3V.DtoSpec

theorem hexv_eq (c : UInt8) : fromHexDigit c = hexv c := by
  unfold fromHexDigit hexv
  simp only [Bool.and_eq_true, decide_eq_true_eq]
  split
  · rfl
  · split
    · congr 1; omega
    · split
      · congr 1; omega
      · rfl

theorem hexv_ne_qmark {a : UInt8} {x : Nat} (h : hexv a = some x) : a ≠ qmark := by
  rintro rfl
  have : hexv qmark = none := by decide
  rw [this] at h; cases h

theorem spells_decode {t k : Bytes} (h : Spells t k) : pctDecode t = k ∧ ∀ c ∈ t, c ≠ qmark := by
  induction h with
  | nil => exact ⟨by simp [pctDecode], by simp⟩
  | lit h1 h2 _ ih =>
    refine ⟨by rw [pctDecode_cons_ne _ _ h1, ih.1], ?_⟩
    intro c hc
    rcases List.mem_cons.mp hc with rfl | hc
    · exact h2
    · exact ih.2 c hc
  | @esc a b x y t' k' ha hb _ ih =>
    refine ⟨?_, ?_⟩
    · have := pctDecode_pct_hex a b t' x y ((hexv_eq _).trans ha) ((hexv_eq _).trans hb)
      rw [show (37 : UInt8) = pct from rfl, this, ih.1]
    · intro c hc
      simp only [List.mem_cons] at hc
      rcases hc with rfl | rfl | rfl | hc
      · decide
      · exact hexv_ne_qmark ha
      · exact hexv_ne_qmark hb
      · exact ih.2 c hc

/-- a header `bucket/<spelling of key>` (no query) parses to that bucket and key -/
theorem parse_spelling (b t k : Bytes) (hb : checkBucketName b = true) (hs : Spells t k)
    (hk : utf8Valid k = true) (hlen : k.length ≤ 1024) :
    CopySource.parse (b ++ slash :: t) = .ok ⟨b, k, none⟩ := by
  obtain ⟨hdec, hnoq⟩ := spells_decode hs
  obtain ⟨hall, c0, b', hbe⟩ := bucket_facts hb
  have hc0 : c0 ≠ slash := by
    have := hall c0 (by rw [hbe]; exact List.mem_cons_self ..)
    exact (bucketChar_facts c0 this).2.1
  have hsl : splitOnce slash (b ++ slash :: k) = some (b, k) :=
    splitOnce_append slash b k (fun x hx => (bucketChar_facts x (hall x hx)).2.1)
  have hkey : checkKey k = true := by simp [checkKey, hlen]
  have hsp : splitOnce qmark (b ++ slash :: t) = none := by
    apply splitOnce_none
    intro x hx
    simp only [List.mem_append, List.mem_cons] at hx
    rcases hx with hx | rfl | hx
    · exact (bucketChar_facts x (hall x hx)).1
    · decide
    · exact hnoq x hx
  have hd : pctDecode (b ++ slash :: t) = b ++ slash :: k := by
    rw [pctDecode_append_noPct b _ (fun c hc => (bucketChar_facts c (hall c hc)).2.2.1),
      pctDecode_cons_ne _ _ (by decide), hdec]
  have hu : utf8Valid (b ++ slash :: k) = true := by
    rw [utf8Valid_append_ascii b _ (fun c hc => (bucketChar_facts c (hall c hc)).2.2.2),
      utf8Valid_cons_ascii _ _ (by decide), hk]
  have hud : urlDecode (b ++ slash :: t) = some (b ++ slash :: k) := by
    rw [urlDecode_eq _ (by rw [hd]; exact hu), hd]
  simp only [CopySource.parse, hsp, hud]
  subst hbe
  simp only [List.cons_append, hc0, if_false]
  rw [← List.cons_append, hsl]
  simp [hb, hkey]


end S3V.Dto
