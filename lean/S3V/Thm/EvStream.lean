import S3V.Model.EvStream
import S3V.Spec.EvStream
/-!
# Lemmas for C15: the event-stream encoder model against the independent decoder

* big-endian write/read round trips (`rdU32_be32`, `rdU16_be16`);
* `serialize_eq`: a closed form of `Message::serialize` — exactly when it fails, with which error, and the
  bytes it produces otherwise (`frameOf`);
* `decodeFrame_frameOf`: the spec decoder inverts `frameOf`, for an arbitrary CRC function;
* stream level: `decodeAll` over concatenated frames; the S3 Select reading (`interpret`) of every item.
-/
namespace S3V.EvStreamThm
open S3V S3V.EvStream S3V.EvStreamSpec

/-! ## big-endian fields -/

theorem rdU32_be32 (n : Nat) (r : Bytes) : rdU32 (be32 n ++ r) = some (n % 4294967296, r) := by
  simp only [be32, List.cons_append, List.nil_append, rdU32, UInt8.toNat_ofNat', Nat.reducePow]
  congr 2
  omega

theorem rdU16_be16 (n : Nat) (r : Bytes) : rdU16 (be16 n ++ r) = some (n % 65536, r) := by
  simp only [be16, List.cons_append, List.nil_append, rdU16, UInt8.toNat_ofNat', Nat.reducePow]
  congr 2
  omega

theorem takeN_append (a r : Bytes) : takeN a.length (a ++ r) = some (a, r) := by
  simp [takeN]

theorem takeN_append' (a r : Bytes) (n : Nat) (h : a.length = n) : takeN n (a ++ r) = some (a, r) := by
  subst h; exact takeN_append a r

def hdrSize : List Header → Nat
  | [] => 0
  | h :: hs => 4 + h.name.length + h.value.length + hdrSize hs

theorem headerLenStep_eq (acc : Nat) (h : Header) :
    headerLenStep acc h =
      if acc + (4 + h.name.length + h.value.length) < usizeLimit
      then some (acc + (4 + h.name.length + h.value.length)) else none := by
  unfold headerLenStep checkedAdd
  by_cases h1 : acc + 4 < usizeLimit
  · by_cases h2 : acc + 4 + h.name.length < usizeLimit
    · by_cases h3 : acc + 4 + h.name.length + h.value.length < usizeLimit
      · have : acc + (4 + h.name.length + h.value.length) < usizeLimit := by omega
        simp [h1, h2, h3, this]; omega
      · have : ¬ acc + (4 + h.name.length + h.value.length) < usizeLimit := by omega
        simp [h1, h2, h3, this]
    · have : ¬ acc + (4 + h.name.length + h.value.length) < usizeLimit := by omega
      simp [h1, h2, this]
  · have : ¬ acc + (4 + h.name.length + h.value.length) < usizeLimit := by omega
    simp [h1, this]

theorem headersLenFrom_eq (hs : List Header) : ∀ acc, acc < usizeLimit →
    headersLenFrom acc hs = if acc + hdrSize hs < usizeLimit then some (acc + hdrSize hs) else none := by
  induction hs with
  | nil => intro acc hacc; simp [headersLenFrom, hdrSize, hacc]
  | cons h hs ih =>
    intro acc hacc
    simp only [headersLenFrom, headerLenStep_eq, hdrSize]
    by_cases h1 : acc + (4 + h.name.length + h.value.length) < usizeLimit
    · simp only [h1, if_true, Option.bind_some, ih _ h1]
      by_cases h2 : acc + (4 + h.name.length + h.value.length + hdrSize hs) < usizeLimit
      · have : acc + (4 + h.name.length + h.value.length) + hdrSize hs < usizeLimit := by omega
        simp [h2, this]; omega
      · have : ¬ acc + (4 + h.name.length + h.value.length) + hdrSize hs < usizeLimit := by omega
        simp [h2, this]
    · have : ¬ acc + (4 + h.name.length + h.value.length + hdrSize hs) < usizeLimit := by omega
      simp [h1, this]

def fits (h : Header) : Bool := decide (h.name.length < 256) && decide (h.value.length < 65536)

def encHeader (h : Header) : Bytes :=
  UInt8.ofNat h.name.length :: (h.name ++ 7 :: (be16 h.value.length ++ h.value))

def encHeaders : List Header → Bytes
  | [] => []
  | h :: hs => encHeader h ++ encHeaders hs

def sizesOk (m : Message) : Bool :=
  m.headers.all fits && decide (16 + hdrSize m.headers + (payloadBytes m).length < 4294967296)

def frameOf (crc32 : Bytes → Nat) (m : Message) : Bytes :=
  let pre := be32 (16 + hdrSize m.headers + (payloadBytes m).length) ++ be32 (hdrSize m.headers)
  let buf := pre ++ be32 (crc32 pre) ++ (encHeaders m.headers ++ payloadBytes m)
  buf ++ be32 (crc32 buf)

theorem putHeader_eq (h : Header) :
    putHeader h = if fits h then .ok (encHeader h) else .error .intOverflow := by
  unfold putHeader fits encHeader
  by_cases h1 : 256 ≤ h.name.length
  · have : ¬ h.name.length < 256 := by omega
    simp [h1, this]
  · have h1' : h.name.length < 256 := by omega
    by_cases h2 : 65536 ≤ h.value.length
    · have : ¬ h.value.length < 65536 := by omega
      simp [h1, h2, this]
    · have : h.value.length < 65536 := by omega
      simp [h1, h2, h1', this]

theorem putHeaders_eq (hs : List Header) :
    putHeaders hs = if hs.all fits then .ok (encHeaders hs) else .error .intOverflow := by
  induction hs with
  | nil => simp [putHeaders, encHeaders]
  | cons h hs ih =>
    simp only [putHeaders, putHeader_eq, ih, List.all_cons, encHeaders]
    by_cases hf : fits h = true
    · by_cases ha : hs.all fits = true
      · simp [hf, ha]
      · simp [hf, ha]
    · simp [hf]

theorem encHeader_length (h : Header) : (encHeader h).length = 4 + h.name.length + h.value.length := by
  simp [encHeader, be16]; omega

theorem encHeaders_length (hs : List Header) : (encHeaders hs).length = hdrSize hs := by
  induction hs with
  | nil => rfl
  | cons h hs ih => simp [encHeaders, hdrSize, encHeader_length, ih]

theorem serialize_eq (crc32 : Bytes → Nat) (m : Message) :
    serialize crc32 m =
      if usizeLimit ≤ 16 + hdrSize m.headers + (payloadBytes m).length then .error .lengthOverflow
      else if sizesOk m then .ok (frameOf crc32 m) else .error .intOverflow := by
  unfold serialize headersLen
  rw [headersLenFrom_eq _ 0 (by decide)]
  simp only [Nat.zero_add, checkedAdd, putHeaders_eq, sizesOk, frameOf]
  by_cases h0 : usizeLimit ≤ 16 + hdrSize m.headers + (payloadBytes m).length
  · simp only [h0, if_true]
    by_cases h1 : hdrSize m.headers < usizeLimit
    · by_cases h2 : hdrSize m.headers + 16 < usizeLimit
      · have h3 : ¬ hdrSize m.headers + 16 + (payloadBytes m).length < usizeLimit := by omega
        simp [h1, h2, h3]
      · simp [h1, h2]
    · simp [h1]
  · have h1 : hdrSize m.headers < usizeLimit := by omega
    have h2 : hdrSize m.headers + 16 < usizeLimit := by omega
    have h3 : hdrSize m.headers + 16 + (payloadBytes m).length < usizeLimit := by omega
    simp only [h0, if_false, h1, h2, h3, if_true, Option.bind_some]
    by_cases h4 : 4294967296 ≤ hdrSize m.headers + 16 + (payloadBytes m).length
    · have : ¬ 16 + hdrSize m.headers + (payloadBytes m).length < 4294967296 := by omega
      simp [h4, this]
    · have h5 : 16 + hdrSize m.headers + (payloadBytes m).length < 4294967296 := by omega
      have h6 : ¬ 4294967296 ≤ hdrSize m.headers := by omega
      have h7 : hdrSize m.headers + 16 + (payloadBytes m).length = 16 + hdrSize m.headers + (payloadBytes m).length := by omega
      simp only [if_false, h6, h5, decide_true, Bool.and_true, h7]
      by_cases ha : m.headers.all fits = true
      · simp [ha]; omega
      · simp [ha]

def toDecoded (m : Message) : DecodedMessage :=
  ⟨m.headers.map fun h => (h.name, HVal.string h.value), payloadBytes m⟩

theorem fits_iff (h : Header) : fits h = true ↔ h.name.length < 256 ∧ h.value.length < 65536 := by
  simp [fits]

theorem decodeHeader_enc (h : Header) (hf : fits h = true) (r : Bytes) :
    decodeHeader (encHeader h ++ r) = some ((h.name, .string h.value), r) := by
  obtain ⟨h1, h2⟩ := (fits_iff h).mp hf
  have e1 : h.name.length % 256 = h.name.length := Nat.mod_eq_of_lt h1
  have e2 : h.value.length % 65536 = h.value.length := Nat.mod_eq_of_lt h2
  simp only [decodeHeader, encHeader, List.cons_append, List.append_assoc, rdU8, UInt8.toNat_ofNat',
    Nat.reducePow, e1, Option.bind_some, takeN_append, decodeValue, rdU16_be16, e2]
  simp

theorem decodeHeadersFuel_enc (hs : List Header) (hall : hs.all fits = true) :
    ∀ fuel, hs.length ≤ fuel →
      decodeHeadersFuel fuel (encHeaders hs) = some (hs.map fun h => (h.name, HVal.string h.value)) := by
  induction hs with
  | nil => intro fuel _; cases fuel <;> simp [encHeaders, decodeHeadersFuel]
  | cons h hs ih =>
    intro fuel hfuel
    simp only [List.all_cons, Bool.and_eq_true] at hall
    cases fuel with
    | zero => simp at hfuel
    | succ f =>
      have hd := decodeHeader_enc h hall.1 (encHeaders hs)
      have hne : encHeaders (h :: hs) = UInt8.ofNat h.name.length ::
          ((h.name ++ 7 :: (be16 h.value.length ++ h.value)) ++ encHeaders hs) := by
        simp [encHeaders, encHeader]
      rw [hne, decodeHeadersFuel]
      rw [← List.cons_append]
      change (decodeHeader (encHeader h ++ encHeaders hs)).bind _ = _
      rw [hd]
      simp [ih hall.2 f (by simpa using hfuel)]

theorem length_le_hdrSize (hs : List Header) : hs.length ≤ hdrSize hs := by
  induction hs with
  | nil => simp [hdrSize]
  | cons h hs ih => simp [hdrSize]; omega

theorem decodeHeaders_enc (hs : List Header) (hall : hs.all fits = true) :
    decodeHeaders (encHeaders hs) = some (hs.map fun h => (h.name, HVal.string h.value)) := by
  unfold decodeHeaders
  exact decodeHeadersFuel_enc hs hall _ (by rw [encHeaders_length]; exact length_le_hdrSize hs)

theorem be32_length (n : Nat) : (be32 n).length = 4 := rfl

theorem decodeFrame_raw (crc32 : Bytes → Nat) (T H : Nat) (enc p rest : Bytes) (hs : List (Bytes × HVal))
    (hH : enc.length = H) (hTdef : T = 16 + H + p.length) (hT : T < 4294967296)
    (hdec : decodeHeaders enc = some hs) :
    decodeFrame crc32 (be32 T ++ (be32 H ++ (be32 (crc32 (be32 T ++ be32 H)) ++ (enc ++ (p ++
      (be32 (crc32 (be32 T ++ (be32 H ++ (be32 (crc32 (be32 T ++ be32 H)) ++ (enc ++ p))))) ++ rest))))))
      = some (⟨hs, p⟩, rest) := by
  generalize hc1 : crc32 (be32 T ++ be32 H) = c1
  generalize hc2 : crc32 (be32 T ++ (be32 H ++ (be32 c1 ++ (enc ++ p)))) = c2
  have eT : T % 4294967296 = T := Nat.mod_eq_of_lt hT
  have eH : H % 4294967296 = H := Nat.mod_eq_of_lt (by omega)
  have t8 : ∀ X : Bytes, List.take 8 (be32 T ++ (be32 H ++ X)) = be32 T ++ be32 H := by
    intro X; simp [be32]
  have tT : List.take (T - 4) (be32 T ++ (be32 H ++ (be32 c1 ++ (enc ++ (p ++ (be32 c2 ++ rest))))))
      = be32 T ++ (be32 H ++ (be32 c1 ++ (enc ++ p))) := by
    have : be32 T ++ (be32 H ++ (be32 c1 ++ (enc ++ (p ++ (be32 c2 ++ rest)))))
        = (be32 T ++ (be32 H ++ (be32 c1 ++ (enc ++ p)))) ++ (be32 c2 ++ rest) := by
      simp [List.append_assoc]
    rw [this]
    apply List.take_left'
    simp [be32_length]; omega
  have n1 : ¬ T < H + 16 := by omega
  have e3 : T - H - 16 = p.length := by omega
  unfold decodeFrame
  simp only [rdU32_be32, Option.bind_some, t8, tT, hc1, hc2, eT, eH, ne_eq, not_true_eq_false, if_false, n1,
    takeN_append' enc _ H hH, e3, takeN_append, hdec, Option.map_some]

/-! ## one frame, many frames -/

theorem sizesOk_iff (m : Message) :
    sizesOk m = true ↔ (∀ h ∈ m.headers, h.name.length < 256 ∧ h.value.length < 65536)
      ∧ 16 + hdrSize m.headers + (payloadBytes m).length < 4294967296 := by
  simp [sizesOk, List.all_eq_true, fits_iff]

theorem decodeFrame_frameOf (crc32 : Bytes → Nat) (m : Message) (hok : sizesOk m = true) (rest : Bytes) :
    decodeFrame crc32 (frameOf crc32 m ++ rest) = some (toDecoded m, rest) := by
  have hall : m.headers.all fits = true := by simp [sizesOk] at hok; simpa [List.all_eq_true] using hok.1
  have hT := ((sizesOk_iff m).mp hok).2
  have := decodeFrame_raw crc32 (16 + hdrSize m.headers + (payloadBytes m).length) (hdrSize m.headers)
    (encHeaders m.headers) (payloadBytes m) rest _ (encHeaders_length _) rfl hT (decodeHeaders_enc _ hall)
  simpa [frameOf, toDecoded, List.append_assoc] using this

theorem frameOf_length (crc32 : Bytes → Nat) (m : Message) :
    (frameOf crc32 m).length = 16 + hdrSize m.headers + (payloadBytes m).length := by
  simp [frameOf, be32_length, encHeaders_length]; omega

theorem frameOf_ne_nil (crc32 : Bytes → Nat) (m : Message) : frameOf crc32 m ≠ [] := by
  intro h
  have := frameOf_length crc32 m
  rw [h] at this; simp at this; omega

/-- the frames of a list of messages, concatenated, decode to the messages -/
theorem decodeAllFuel_frames (crc32 : Bytes → Nat) (ms : List Message) (hok : ∀ m ∈ ms, sizesOk m = true) :
    ∀ fuel, ms.length ≤ fuel →
      decodeAllFuel crc32 fuel (ms.map (frameOf crc32)).flatten = some (ms.map toDecoded) := by
  induction ms with
  | nil => intro fuel _; cases fuel <;> simp [decodeAllFuel]
  | cons m ms ih =>
    intro fuel hfuel
    cases fuel with
    | zero => simp at hfuel
    | succ f =>
      have hm := hok m (by simp)
      have hd := decodeFrame_frameOf crc32 m hm (ms.map (frameOf crc32)).flatten
      simp only [List.map_cons, List.flatten_cons]
      cases hfr : frameOf crc32 m ++ (ms.map (frameOf crc32)).flatten with
      | nil =>
        have := frameOf_ne_nil crc32 m
        simp at hfr; exact absurd hfr.1 this
      | cons a b =>
        rw [decodeAllFuel, ← hfr, hd]
        simp [ih (fun m' hm' => hok m' (by simp [hm'])) f (by simpa using hfuel)]

theorem decodeAll_frames (crc32 : Bytes → Nat) (ms : List Message) (hok : ∀ m ∈ ms, sizesOk m = true) :
    decodeAll crc32 (ms.map (frameOf crc32)).flatten = some (ms.map toDecoded) := by
  unfold decodeAll
  apply decodeAllFuel_frames crc32 ms hok
  induction ms with
  | nil => simp
  | cons m ms ih =>
    have := frameOf_length crc32 m
    simp only [List.map_cons, List.flatten_cons, List.length_append, List.length_cons]
    have := ih (fun m' hm' => hok m' (by simp [hm']))
    omega


/-! ## items and the wrapper stream -/

theorem serialize_ok_iff (crc32 : Bytes → Nat) (m : Message) (b : Bytes) :
    serialize crc32 m = .ok b ↔ sizesOk m = true ∧ b = frameOf crc32 m := by
  rw [serialize_eq]
  by_cases h0 : usizeLimit ≤ 16 + hdrSize m.headers + (payloadBytes m).length
  · have : sizesOk m = false := by
      have h : ¬ 16 + hdrSize m.headers + (payloadBytes m).length < 4294967296 := by
        unfold usizeLimit at h0; omega
      simp [sizesOk, h]
    simp [h0, this]
  · by_cases h1 : sizesOk m = true
    · simp [h0, h1, eq_comm]
    · simp [h0, h1]

/-- the wrapper yielded only frames (no `Err` item) iff every item's message has encodable sizes; the
    frames are then the closed-form frames of the items' messages -/
theorem wrapper_ok_iff (crc32 : Bytes → Nat) (items : List Item) (frames : List Bytes) :
    wrapper crc32 items = frames.map .ok ↔
      (∀ it ∈ items, sizesOk (itemMessage it) = true) ∧ frames = items.map fun it => frameOf crc32 (itemMessage it) := by
  induction items generalizing frames with
  | nil => cases frames <;> simp [wrapper]
  | cons it items ih =>
    cases frames with
    | nil => simp [wrapper]
    | cons f fs =>
      have ih' := ih fs
      simp only [wrapper] at ih' ⊢
      simp only [List.map_cons, List.cons.injEq, eventIntoBytes, serialize_ok_iff, ih', List.mem_cons,
        forall_eq_or_imp]
      constructor
      · rintro ⟨⟨h1, h2⟩, h3, h4⟩; exact ⟨⟨h1, h3⟩, h2, h4⟩
      · rintro ⟨⟨h1, h3⟩, h2, h4⟩; exact ⟨⟨h1, h2⟩, h3, h4⟩

/-! ## the S3 Select reading -/

/-- what a client should read out of the frame of a backend item -/
def abstractEvent : Item → SelEvent
  | .ok .cont => .cont
  | .ok .endEv => .endEv
  | .ok (.records p) => .records (p.getD [])
  | .ok (.progress d) => .progress ((d.map (xmlPayload vProgress)).getD [])
  | .ok (.stats d) => .stats ((d.map (xmlPayload vStats)).getD [])
  | .error e => .error (truncateHeaderValue e.code) ((e.message.map truncateHeaderValue).getD [])

theorem interpret_item (it : Item) : interpret (toDecoded (itemMessage it)) = some (abstractEvent it) := by
  cases it with
  | error e => 
    simp [itemMessage, requestLevelError, toDecoded, interpret, strHeader, hdr, abstractEvent, payloadBytes,
      hErrorCode, hErrorMessage, hMessageType, kMessageType, kErrorCode, kErrorMessage, tEvent, tError, vError, List.filter]
  | ok ev =>
    cases ev with
    | cont => rfl
    | endEv => rfl
    | records p => rfl
    | progress d => rfl
    | stats d => rfl

/-- the documented kind of an event -/
def kindOf : Event → Kind
  | .cont => .cont | .endEv => .endEv | .progress _ => .progress | .records _ => .records | .stats _ => .stats

/-! ## `truncate_header_value` -/

theorem truncEnd_le (s : Bytes) : ∀ n, truncEnd s n ≤ n := by
  intro n
  induction n with
  | zero => simp [truncEnd]
  | succ e ih => unfold truncEnd; split <;> omega

theorem truncEnd_boundary (s : Bytes) : ∀ n, isCharBoundary s (truncEnd s n) = true := by
  intro n
  induction n with
  | zero => simp [truncEnd, isCharBoundary]
  | succ e ih =>
    unfold truncEnd
    split
    · assumption
    · exact ih

theorem isCharBoundary_length (s : Bytes) : isCharBoundary s s.length = true := by
  unfold isCharBoundary
  by_cases h : s.length = 0 <;> simp [h]

theorem truncEnd_length (s : Bytes) : truncEnd s s.length = s.length := by
  cases h : s.length with
  | zero => rfl
  | succ e => rw [truncEnd, ← h, isCharBoundary_length]; simp

/-- text that fits a string header is not changed -/
theorem truncateHeaderValue_eq_self (s : Bytes) (h : s.length ≤ 65535) : truncateHeaderValue s = s := by
  unfold truncateHeaderValue
  rw [Nat.min_eq_left h, truncEnd_length, List.take_length]

/-- the result always fits a string header -/
theorem truncateHeaderValue_length_le (s : Bytes) : (truncateHeaderValue s).length ≤ 65535 := by
  unfold truncateHeaderValue
  have := truncEnd_le s (min s.length 65535)
  simp only [List.length_take]
  omega

/-- the result is a prefix of the text -/
theorem truncateHeaderValue_prefix (s : Bytes) : truncateHeaderValue s <+: s := List.take_prefix _ _

/-- … that ends at a character boundary of the text (not inside a multi-byte sequence) -/
theorem truncateHeaderValue_boundary (s : Bytes) :
    isCharBoundary s (truncateHeaderValue s).length = true := by
  unfold truncateHeaderValue
  have h1 := truncEnd_le s (min s.length 65535)
  have h2 := truncEnd_boundary s (min s.length 65535)
  have : (List.take (truncEnd s (min s.length 65535)) s).length = truncEnd s (min s.length 65535) := by
    simp only [List.length_take]; omega
  rw [this]; exact h2

end S3V.EvStreamThm
