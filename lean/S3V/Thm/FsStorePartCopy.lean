import S3V.Thm.FsStoreComplete
/-!
# C18: `upload_part_copy` (whole source or an admissible `bytes=first-last` range) refines the store
-/
namespace S3V.FsStore
open S3V.StoreSpec

/-! ## the two readers of `x-amz-copy-source-range` agree on what the store accepts -/

theorem digitsVal_all_digits : ∀ (s : Bytes) (acc v : Nat), digitsVal s acc = some v → ∀ c ∈ s, isDigit c = true := by
  intro s
  induction s with
  | nil => intro _ _ _ c hc; simp at hc
  | cons x xs ih =>
    intro acc v h c hc
    unfold digitsVal at h
    by_cases hx : isDigit x = true
    · simp only [hx, if_true] at h
      simp only [List.mem_cons] at hc
      rcases hc with hc | hc
      · subst hc; exact hx
      · exact ih _ _ h c hc
    · simp [hx] at h

theorem isDigit_ne_dash {c : UInt8} (h : isDigit c = true) : c ≠ 45 := by
  intro e; subst e; simp [isDigit] at h

theorem isDigit_ne_plus {c : UInt8} (h : isDigit c = true) : c ≠ 43 := by
  intro e; subst e; simp [isDigit] at h

theorem splitOnByte_no (d : UInt8) : ∀ (s : Bytes), d ∉ s → splitOnByte d s = [s] := by
  intro s
  induction s with
  | nil => intro _; rfl
  | cons c cs ih =>
    intro h
    have hc : c ≠ d := fun e => h (by simp [e])
    have hcs : d ∉ cs := fun hm => h (List.mem_cons_of_mem _ hm)
    unfold splitOnByte
    simp [hc, ih hcs]

theorem splitOnByte_one (d : UInt8) : ∀ (a z : Bytes), d ∉ a → d ∉ z → splitOnByte d (a ++ d :: z) = [a, z] := by
  intro a
  induction a with
  | nil => intro z _ hz; simp [splitOnByte, splitOnByte_no d z hz]
  | cons c cs ih =>
    intro z ha hz
    have hc : c ≠ d := fun e => ha (by simp [e])
    have hcs : d ∉ cs := fun hm => ha (List.mem_cons_of_mem _ hm)
    simp only [List.cons_append]
    unfold splitOnByte
    simp [hc, ih z hcs hz]

theorem parseU64_digits {s : Bytes} {v : Nat} (hne : s ≠ []) (h : digitsVal s 0 = some v) (hv : v < u64Mod) :
    parseU64 s = some v := by
  have hall := digitsVal_all_digits s 0 v h
  have hstrip : stripPlus s = s := by
    cases s with
    | nil => rfl
    | cons x xs =>
      have hx : x ≠ 43 := isDigit_ne_plus (hall x (by simp))
      unfold stripPlus
      split
      · rename_i r heq; simp at heq; exact absurd heq.1 hx
      · rfl
  unfold parseU64
  simp [hstrip, hne, h, hv]

theorem drop_takeWhile_length {α : Type} (p : α → Bool) : ∀ (l : List α),
    l.drop (l.takeWhile p).length = l.dropWhile p := by
  intro l
  induction l with
  | nil => rfl
  | cons x xs ih =>
    by_cases hx : p x = true
    · simp [List.takeWhile_cons, List.dropWhile_cons, hx, ih]
    · simp [List.takeWhile_cons, List.dropWhile_cons, hx]

/-- a copy-source-range the store accepts is read by the backend's hand-written parser as the same positions -/
theorem copyRange_agree {r : Bytes} {len st en : Nat} (hlen : len < u64Mod)
    (h : StoreSpec.copyRange r len = some (st, en)) :
    ∃ l, en = l + 1 ∧ st ≤ l ∧ l < len ∧ FsStore.copyRange (some r) len = some (st, l) := by
  unfold StoreSpec.copyRange at h
  by_cases h6 : r.take 6 ≠ StoreSpec.sBytesEq
  · simp [h6] at h
  · simp only [h6, if_false] at h
    generalize hbody : r.drop 6 = body at h
    generalize ha : body.takeWhile (fun x => decide (x ≠ 45)) = a at h
    by_cases hcond : a = [] ∨ ((body.drop a.length).drop 1) = [] ∨ (body.drop a.length).head? ≠ some 45
    · rw [if_pos hcond] at h; simp at h
    · rw [if_neg hcond] at h
      have hcond' := not_or.mp hcond
      have hcond2 := not_or.mp hcond'.2
      cases hf : digitsVal a 0 with
      | none => rw [hf] at h; simp at h
      | some f =>
        cases hl : digitsVal ((body.drop a.length).drop 1) 0 with
        | none => rw [hf, hl] at h; simp at h
        | some l =>
          rw [hf, hl] at h
          simp only at h
          by_cases hb : f ≤ l ∧ l < len
          · simp only [hb, and_self, if_true, Option.some.injEq, Prod.mk.injEq] at h
            obtain ⟨rfl, rfl⟩ := h
            refine ⟨l, rfl, hb.1, hb.2, ?_⟩
            -- the body is `a - z`
            have hhead : (body.drop a.length).head? = some 45 := by
              have := hcond2.2; simpa using this
            have hz : body.drop a.length = 45 :: (body.drop a.length).drop 1 := by
              cases hd : body.drop a.length with
              | nil => rw [hd] at hhead; simp at hhead
              | cons y ys => rw [hd] at hhead; simp at hhead; subst hhead; rfl
            have hsplit : body = a ++ 45 :: (body.drop a.length).drop 1 := by
              have h1 : body = body.takeWhile (fun x => decide (x ≠ 45)) ++ body.dropWhile (fun x => decide (x ≠ 45)) :=
                (List.takeWhile_append_dropWhile).symm
              have h2 : body.drop a.length = body.dropWhile (fun x => decide (x ≠ 45)) := by
                rw [← ha]
                exact drop_takeWhile_length _ body
              rw [ha] at h1
              rw [← h2] at h1
              rw [hz] at h1
              exact h1
            have hda : (45 : UInt8) ∉ a := fun hm => isDigit_ne_dash (digitsVal_all_digits a 0 f hf 45 hm) rfl
            have hdz : (45 : UInt8) ∉ (body.drop a.length).drop 1 := fun hm =>
              isDigit_ne_dash (digitsVal_all_digits _ 0 l hl 45 hm) rfl
            have h6' : r.take 6 = FsStore.sBytesEq := by
              have : ¬ r.take 6 ≠ StoreSpec.sBytesEq := h6
              have e : StoreSpec.sBytesEq = FsStore.sBytesEq := rfl
              rw [← e]
              simpa using this
            have hfl : f < u64Mod := by omega
            have hll : l < u64Mod := by omega
            unfold FsStore.copyRange
            simp only [h6', ne_eq, not_true_eq_false, if_false, hbody]
            rw [hsplit, splitOnByte_one 45 a _ hda hdz]
            simp only [parseU64_digits hcond'.1 hf hfl, hcond2.1, if_false, parseU64_digits hcond2.1 hl hll]
          · simp [hb] at h

/-- `upload_part_copy` comparable: any part number (outside 1..10000: `InvalidArgument` on both sides since 205d9a8; before:
    fs:part-number-not-validated); otherwise the upload does not exist
    (`NoSuchUpload` on both sides) or was created for this bucket and key [else fs:upload-not-bound-to-key], source names agree (a missing source bucket is
    inside since cc244fc: `NoSuchBucket` on both sides), the source is not a directory and its size fits `i64`; a
    `x-amz-copy-source-range`, if given, is one the store accepts: `bytes=first-last` inside the source
    [else fs:part-copy-range-unchecked] -/
def UploadPartCopyOk (s : State) (b k : Bytes) (u : UploadRef) (n : Int) (sb sk : Bytes) (range : Option Bytes) : Prop :=
  (n < 1 ∨ n > 10000) ∨
  UploadOk s u b k ∧ NameOk sb ∧ CanonKey sk ∧
  (bucketOk sb = true →
    match keyPath sk with
    | none => True
    | some sp =>
      match s.tree sb with
      | none => True
      | some st =>
        match st.node sp with
        | none => True
        | some .dir => False
        | some (.file c) =>
          c.length ≤ i64Max ∧
          match range with
          | none => True
          | some r => (StoreSpec.copyRange r c.length).isSome = true)

theorem i64Max_lt_u64Mod : i64Max < u64Mod := by decide

theorem wrap_len (l st : Nat) (h1 : l + 1 < 18446744073709551616) (h2 : st ≤ l) :
    (l + 18446744073709551616 - st + 1) % 18446744073709551616 = l + 1 - st := by
  have e : l + 18446744073709551616 - st + 1 = (l + 1 - st) + 18446744073709551616 := by omega
  rw [e, Nat.add_mod_right, Nat.mod_eq_of_lt (by omega)]

theorem copyWhole (c : Bytes) (h : c.length < u64Mod) :
    c.take (((c.length + u64Mod - 1) % u64Mod + u64Mod + 1) % u64Mod) = c := by
  have : ((c.length + u64Mod - 1) % u64Mod + u64Mod + 1) % u64Mod = c.length := by
    unfold u64Mod at h ⊢
    by_cases h0 : c.length = 0
    · rw [h0]
    · have e1 : (c.length + 2 ^ 64 - 1) % 2 ^ 64 = c.length - 1 := by omega
      rw [e1]; omega
  rw [this]
  simp

theorem uploadPartCopy_refines (H : Hashes) (dl : Nat) {s : State} (hi : Inv s) {who : Who} {b k : Bytes}
    {u : UploadRef} {n : Int} {sb sk : Bytes} {range : Option Bytes} (hg : UploadPartCopyOk s b k u n sb sk range) :
    (step H dl s (.uploadPartCopy who b k u n sb sk range)).2 =
      (StoreSpec.step H (abs s) (.uploadPartCopy who b k u n sb sk range)).2 ∧
    abs (step H dl s (.uploadPartCopy who b k u n sb sk range)).1 =
      (StoreSpec.step H (abs s) (.uploadPartCopy who b k u n sb sk range)).1 ∧
    Inv (step H dl s (.uploadPartCopy who b k u n sb sk range)).1 := by
  by_cases hnr : n < 1 ∨ n > 10000
  · simp [step, StoreSpec.step, hnr, hi]
  obtain ⟨hbound, hsname, ⟨_, hscanon⟩, hsrc⟩ := hg.resolve_left hnr
  rcases hbound.cases with hbound | habs
  case inr =>
    have hup := habs.upload b k
    cases u with
    | none => simp [step, StoreSpec.step, hnr, hup, hi]
    | some id => simp [step, StoreSpec.step, hnr, hup, habs.verify who, hi]
  obtain ⟨id, ui, rfl, hl, hb, hk, hup⟩ := hbound.spec
  by_cases hown : ui.owner = who
  · have hown' : ¬ (upOf s id ui).owner ≠ who := by simp [upOf, hown]
    rcases hsname.cases with ⟨hsbo, hsbd⟩ | ⟨hsbo, hsbd⟩
    · have hsrc := hsrc hsbo
      cases hskp : keyPath sk with
      | none =>
        have hko : keyOk sk = false := by rw [keyOk_iff_keyPath, hskp]; rfl
        simp [step, StoreSpec.step, State.verify, hl, hown, hnr, hup, hown', objPath, hsbd, hskp, hsbo, hko, hi]
      | some sp =>
        have hsko : keyOk sk = true := by rw [keyOk_iff_keyPath, hskp]; rfl
        rw [hskp] at hsrc hscanon
        simp only at hsrc hscanon
        have hsp : PathOk sp := keyPath_pathOk hskp
        cases hst : s.tree sb with
        | none =>
          have hsabs : (abs s).bucket sb = none := by rw [abs_bucket, hst]; rfl
          have hh : alHas sb s.buckets = false := by
            unfold State.tree at hst; simp [alHas, hst]
          simp [step, StoreSpec.step, State.verify, hl, hown, hnr, hup, hown', objPath, hsbd, hskp, hsbo, hsko,
            hsabs, State.node, hst, hh, hi]
        | some st =>
          rw [hst] at hsrc
          simp only at hsrc
          have hsabs : (abs s).bucket sb = some (absTree s sb st) := by rw [abs_bucket, hst]; rfl
          have hslook := abs_lookup_obj hi hst hsp
          rw [hscanon] at hslook
          have hsnode : s.node sb sp = st.node sp := by simp [State.node, hst]
          cases hsn : st.node sp with
          | none =>
            have hh : alHas sb s.buckets = true := by
              unfold State.tree at hst; simp [alHas, hst]
            rw [hsn] at hslook
            simp [step, StoreSpec.step, State.verify, hl, hown, hnr, hup, hown', objPath, hsbd, hskp, hsbo, hsko,
              hsabs, hsnode, hsn, hslook, hh, hi]
          | some nd =>
            cases nd with
            | dir => rw [hsn] at hsrc; exact absurd hsrc (by simp)
            | file c =>
              rw [hsn] at hslook hsrc
              simp only [Option.bind_some, nodeObj] at hslook
              simp only at hsrc
              obtain ⟨hlen, hrng⟩ := hsrc
              have hlen' : c.length < u64Mod := Nat.lt_of_le_of_lt hlen i64Max_lt_u64Mod
              cases range with
              | none =>
                have hbody := copyWhole c hlen'
                have hstep : step H dl s (.uploadPartCopy who b k (some id) n sb sk none) =
                    ({ s with parts := alInsert (id, n) c s.parts }, .part (some (etagOf H c))) := by
                  have h0 : ¬ (0 > i64Max) := by decide
                  simp [step, hnr, State.verify, hl, hown, objPath, hsbd, hskp, hsnode, hsn, copyRange, h0, hbody]
                have hspec : StoreSpec.step H (abs s) (.uploadPartCopy who b k (some id) n sb sk none) =
                    ({ abs s with uploads := alInsert id (withPart (upOf s id ui) n c) (abs s).uploads },
                      .part (some (etagOf H c))) := by
                  simp [StoreSpec.step, hnr, hup, hown', hsbo, hsko, hsabs, hslook, withPart]
                rw [hstep, hspec]
                obtain ⟨e1, e2⟩ := writePart_core (s' := { s with parts := alInsert (id, n) c s.parts }) hi hl rfl rfl rfl rfl rfl rfl rfl
                exact ⟨rfl, e1, e2⟩
              | some r =>
                simp only at hrng
                cases hcr : StoreSpec.copyRange r c.length with
                | none => rw [hcr] at hrng; simp at hrng
                | some se =>
                  obtain ⟨st, en⟩ := se
                  obtain ⟨l, rfl, hstl, hll, hmodel⟩ := copyRange_agree hlen' hcr
                  have hcl : (l + u64Mod - st + 1) % u64Mod = l + 1 - st := by
                    have e : u64Mod = 18446744073709551616 := by decide
                    have h0 : i64Max < u64Mod := i64Max_lt_u64Mod
                    have h1 : l + 1 < u64Mod := by omega
                    rw [e] at h1 ⊢
                    exact wrap_len l st h1 hstl
                  have hst : ¬ st > i64Max := by omega
                  have hstep : step H dl s (.uploadPartCopy who b k (some id) n sb sk (some r)) =
                      ({ s with parts := alInsert (id, n) (slice c st (l + 1)) s.parts },
                        .part (some (etagOf H (slice c st (l + 1))))) := by
                    simp [step, hnr, State.verify, hl, hown, objPath, hsbd, hskp, hsnode, hsn, hmodel, hcl, hst, slice]
                  have hspec : StoreSpec.step H (abs s) (.uploadPartCopy who b k (some id) n sb sk (some r)) =
                      ({ abs s with uploads := alInsert id (withPart (upOf s id ui) n (slice c st (l + 1))) (abs s).uploads },
                        .part (some (etagOf H (slice c st (l + 1))))) := by
                    simp [StoreSpec.step, hnr, hup, hown', hsbo, hsko, hsabs, hslook, withPart, hcr]
                  rw [hstep, hspec]
                  obtain ⟨e1, e2⟩ := writePart_core (s' := { s with parts := alInsert (id, n) (slice c st (l + 1)) s.parts }) hi hl rfl rfl rfl rfl rfl rfl rfl
                  exact ⟨rfl, e1, e2⟩
    · simp [step, StoreSpec.step, State.verify, hl, hown, hnr, hup, hown', objPath, hsbd, hsbo, hi]
  · have hown' : (upOf s id ui).owner ≠ who := hown
    simp [step, StoreSpec.step, State.verify, hl, hown, hnr, hup, hown', hi]

end S3V.FsStore
