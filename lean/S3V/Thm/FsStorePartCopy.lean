import S3V.Thm.FsStoreComplete
/-!
# C18: `upload_part_copy` (whole source or an admissible `bytes=first-last` range) refines the store
-/
namespace S3V.FsStore
open S3V.StoreSpec

/-! ## the two readers of `x-amz-copy-source-range` agree on what the store accepts -/

theorem digitsVal_all_digits : ∀ (s : Bytes) (acc v : Nat), digitsVal s acc = some v → ∀ c ∈ s, isDigit c = true := by
  intro s
  induction s with
  | nil => intro _ _ _ c hc; simp at hc
  | cons x xs ih =>
    intro acc v h c hc
    unfold digitsVal at h
    by_cases hx : isDigit x = true
    · simp only [hx, if_true] at h
      simp only [List.mem_cons] at hc
      rcases hc with hc | hc
      · subst hc; exact hx
      · exact ih _ _ h c hc
    · simp [hx] at h

theorem isDigit_ne_dash {c : UInt8} (h : isDigit c = true) : c ≠ 45 := by
  intro e; subst e; simp [isDigit] at h

theorem isDigit_ne_plus {c : UInt8} (h : isDigit c = true) : c ≠ 43 := by
  intro e; subst e; simp [isDigit] at h

theorem stripPlus_digits {s : Bytes} (hall : ∀ c ∈ s, isDigit c = true) : stripPlus s = s := by
  cases s with
  | nil => rfl
  | cons x xs =>
    have hx : x ≠ 43 := isDigit_ne_plus (hall x (by simp))
    unfold stripPlus
    split
    · rename_i r heq; simp at heq; exact absurd heq.1 hx
    · rfl

theorem digitsVal_isSome_of_all : ∀ (s : Bytes) (acc : Nat), (∀ c ∈ s, isDigit c = true) → (digitsVal s acc).isSome = true := by
  intro s
  induction s with
  | nil => intro _ _; rfl
  | cons x xs ih =>
    intro acc h
    unfold digitsVal
    simp only [h x (by simp), if_true]
    exact ih _ (fun c hc => h c (List.mem_cons_of_mem _ hc))

/-- `position` reads exactly the non-empty all-digit strings whose value fits `u64` -/
theorem parsePos_eq (s : Bytes) :
    parsePos s = if s = [] then none else
      match digitsVal s 0 with
      | some v => if v < u64Mod then some v else none
      | none => none := by
  by_cases hs : s = []
  · simp [parsePos, hs]
  · simp only [hs, if_false]
    cases hd : digitsVal s 0 with
    | none =>
      have hnall : ¬ (∀ c ∈ s, isDigit c = true) := fun hall => by
        have := digitsVal_isSome_of_all s 0 hall
        rw [hd] at this; simp at this
      have : s.all isDigit = false := by
        cases hb : s.all isDigit with
        | false => rfl
        | true => exact absurd (fun c hc => (List.all_eq_true.mp hb) c hc) hnall
      simp [parsePos, this]
    | some v =>
      have hall := digitsVal_all_digits s 0 v hd
      have hb : s.all isDigit = true := List.all_eq_true.mpr hall
      have hstrip := stripPlus_digits hall
      simp [parsePos, hs, hb, parseU64, hstrip, hd]

/-- `split_once('-')` is the store's way of cutting the range at its first `-` -/
theorem splitOnce_eq : ∀ (body : Bytes),
    splitOnce 45 body =
      if (body.drop (body.takeWhile (fun x => decide (x ≠ 45))).length).head? = some 45 then
        some (body.takeWhile (fun x => decide (x ≠ 45)), (body.drop (body.takeWhile (fun x => decide (x ≠ 45))).length).drop 1)
      else none := by
  intro body
  induction body with
  | nil => simp [splitOnce]
  | cons c cs ih =>
    by_cases hc : c = 45
    · subst hc; simp [splitOnce]
    · unfold splitOnce
      simp only [hc, if_false]
      rw [ih]
      have htw : (c :: cs).takeWhile (fun x => decide (x ≠ 45)) = c :: cs.takeWhile (fun x => decide (x ≠ 45)) := by
        simp [hc]
      rw [htw]
      simp only [List.length_cons, List.drop_succ_cons]
      by_cases hh : (cs.drop (cs.takeWhile (fun x => decide (x ≠ 45))).length).head? = some 45
      · simp only [hh, if_true]
      · simp only [hh, if_false]

/-- the backend's reader of `x-amz-copy-source-range` (18203b6) accepts exactly what the store accepts, with the same
    positions — for every byte string and every source length a file can have -/
theorem copyRange_eq (r : Bytes) {len : Nat} (hlen : len < u64Mod) :
    FsStore.copyRange (some r) len = StoreSpec.copyRange r len := by
  unfold FsStore.copyRange StoreSpec.copyRange
  have e6 : StoreSpec.sBytesEq = FsStore.sBytesEq := rfl
  rw [e6]
  dsimp only
  by_cases h6 : r.take 6 ≠ FsStore.sBytesEq
  · rw [if_pos h6, if_pos h6]
  · rw [if_neg h6, if_neg h6]
    generalize r.drop 6 = body
    rw [splitOnce_eq]
    generalize body.takeWhile (fun x => decide (x ≠ 45)) = a
    generalize (body.drop a.length).drop 1 = z
    by_cases hh : (body.drop a.length).head? = some 45
    · rw [if_pos hh]
      dsimp only
      rw [parsePos_eq a, parsePos_eq z]
      by_cases ha0 : a = []
      · rw [if_pos ha0, if_pos (Or.inl ha0)]
      · rw [if_neg ha0]
        by_cases hz0 : z = []
        · rw [if_pos hz0, if_pos (Or.inr (Or.inl hz0))]
          cases digitsVal a 0 with
          | none => rfl
          | some f => by_cases hf : f < u64Mod <;> simp [hf]
        · rw [if_neg hz0, if_neg (by simp [ha0, hz0, hh])]
          cases digitsVal a 0 with
          | none => rfl
          | some f =>
            cases digitsVal z 0 with
            | none => by_cases hf : f < u64Mod <;> simp [hf]
            | some l =>
              by_cases hf : f < u64Mod
              · by_cases hl : l < u64Mod
                · simp [hf, hl]
                · have : ¬ (f ≤ l ∧ l < len) := by omega
                  simp [hf, hl, this]
              · have : ¬ (f ≤ l ∧ l < len) := by omega
                simp [hf, this]
    · rw [if_neg hh, if_pos (Or.inr (Or.inr hh))]

/-- what the store accepts selects at least one byte inside the source -/
theorem copyRange_bounds {r : Bytes} {len st en : Nat} (h : StoreSpec.copyRange r len = some (st, en)) :
    st < en ∧ en ≤ len := by
  unfold StoreSpec.copyRange at h
  dsimp only at h
  split at h
  · simp at h
  · split at h
    · simp at h
    · split at h
      · split at h
        · rename_i hb
          simp only [Option.some.injEq, Prod.mk.injEq] at h
          omega
        · simp at h
      · simp at h

/-- `upload_part_copy` comparable: any part number (outside 1..10000: `InvalidArgument` on both sides since 205d9a8; before:
    fs:part-number-not-validated); otherwise (whatever upload is named: one that does not exist under this bucket and key is
    `NoSuchUpload` on both sides since 41e1cf2; before: fs:upload-not-bound-to-key) source names agree (a missing source bucket is
    inside since cc244fc: `NoSuchBucket` on both sides), the source is not a directory and its size fits `i64`. Any
    `x-amz-copy-source-range` is inside — whatever the byte string: one that is not `bytes=first-last` inside the source is
    `InvalidArgument` on both sides (18203b6, `copyRange_eq`; before, the backend accepted open-ended ranges and ranges beyond
    the end: fs:part-copy-range-unchecked) -/
def UploadPartCopyOk (s : State) (_b _k : Bytes) (_u : UploadRef) (n : Int) (sb sk : Bytes) (_range : Option Bytes) : Prop :=
  (n < 1 ∨ n > 10000) ∨
  NameOk sb ∧ CanonKey sk ∧
  (bucketOk sb = true →
    match keyPath sk with
    | none => True
    | some sp =>
      match s.tree sb with
      | none => True
      | some st =>
        match st.node sp with
        | none => True
        | some .dir => False
        | some (.file c) => c.length ≤ i64Max)

theorem i64Max_lt_u64Mod : i64Max < u64Mod := by decide

theorem uploadPartCopy_refines (H : Hashes) (dl : Nat) {s : State} (hi : Inv s) {who : Who} {b k : Bytes}
    {u : UploadRef} {n : Int} {sb sk : Bytes} {range : Option Bytes} (hg : UploadPartCopyOk s b k u n sb sk range) :
    (step H dl s (.uploadPartCopy who b k u n sb sk range)).2 =
      (StoreSpec.step H (abs s) (.uploadPartCopy who b k u n sb sk range)).2 ∧
    abs (step H dl s (.uploadPartCopy who b k u n sb sk range)).1 =
      (StoreSpec.step H (abs s) (.uploadPartCopy who b k u n sb sk range)).1 ∧
    Inv (step H dl s (.uploadPartCopy who b k u n sb sk range)).1 := by
  by_cases hnr : n < 1 ∨ n > 10000
  · simp [step, StoreSpec.step, hnr, hi]
  obtain ⟨hsname, ⟨_, hscanon⟩, hsrc⟩ := hg.resolve_left hnr
  rcases upload_cases s u b k with hbound | habs
  case inr =>
    have hup := habs.upload
    cases u with
    | none => simp [step, StoreSpec.step, hnr, hup, hi]
    | some id => simp [step, StoreSpec.step, hnr, hup, habs.verify who, hi]
  obtain ⟨id, ui, rfl, hl, hb, hk, hup⟩ := hbound.spec
  by_cases hown : ui.owner = who
  · have hown' : ¬ (upOf s id ui).owner ≠ who := by simp [upOf, hown]
    rcases hsname.cases with ⟨hsbo, hsbd⟩ | ⟨hsbo, hsbd⟩
    · have hsrc := hsrc hsbo
      cases hskp : keyPath sk with
      | none =>
        have hko : keyOk sk = false := by rw [keyOk_iff_keyPath, hskp]; rfl
        simp [step, StoreSpec.step, State.verify, findUpload_bound hl hb hk, hown, hnr, hup, hown', objPath, hsbd, hskp, hsbo, hko, hi]
      | some sp =>
        have hsko : keyOk sk = true := by rw [keyOk_iff_keyPath, hskp]; rfl
        rw [hskp] at hsrc hscanon
        simp only at hsrc hscanon
        have hsp : PathOk sp := keyPath_pathOk hskp
        cases hst : s.tree sb with
        | none =>
          have hsabs : (abs s).bucket sb = none := by rw [abs_bucket, hst]; rfl
          have hh : alHas sb s.buckets = false := by
            unfold State.tree at hst; simp [alHas, hst]
          simp [step, StoreSpec.step, State.verify, findUpload_bound hl hb hk, hown, hnr, hup, hown', objPath, hsbd, hskp, hsbo, hsko,
            hsabs, State.node, hst, hh, hi]
        | some st =>
          rw [hst] at hsrc
          simp only at hsrc
          have hsabs : (abs s).bucket sb = some (absTree s sb st) := by rw [abs_bucket, hst]; rfl
          have hslook := abs_lookup_obj hi hst hsp
          rw [hscanon] at hslook
          have hsnode : s.node sb sp = st.node sp := by simp [State.node, hst]
          cases hsn : st.node sp with
          | none =>
            have hh : alHas sb s.buckets = true := by
              unfold State.tree at hst; simp [alHas, hst]
            rw [hsn] at hslook
            simp [step, StoreSpec.step, State.verify, findUpload_bound hl hb hk, hown, hnr, hup, hown', objPath, hsbd, hskp, hsbo, hsko,
              hsabs, hsnode, hsn, hslook, hh, hi]
          | some nd =>
            cases nd with
            | dir => rw [hsn] at hsrc; exact absurd hsrc (by simp)
            | file c =>
              rw [hsn] at hslook hsrc
              simp only [Option.bind_some, nodeObj] at hslook
              simp only at hsrc
              have hlen : c.length ≤ i64Max := hsrc
              have hlen' : c.length < u64Mod := Nat.lt_of_le_of_lt hlen i64Max_lt_u64Mod
              cases range with
              | none =>
                have hstep : step H dl s (.uploadPartCopy who b k (some id) n sb sk none) =
                    ({ s with parts := alInsert (id, n) c s.parts }, .part (some (etagOf H c))) := by
                  have h0 : ¬ (0 > i64Max) := by decide
                  simp [step, hnr, State.verify, findUpload_bound hl hb hk, hown, objPath, hsbd, hskp, hsnode, hsn, copyRange, h0]
                have hspec : StoreSpec.step H (abs s) (.uploadPartCopy who b k (some id) n sb sk none) =
                    ({ abs s with uploads := alInsert id (withPart (upOf s id ui) n c) (abs s).uploads },
                      .part (some (etagOf H c))) := by
                  simp [StoreSpec.step, hnr, hup, hown', hsbo, hsko, hsabs, hslook, withPart]
                rw [hstep, hspec]
                obtain ⟨e1, e2⟩ := writePart_core (s' := { s with parts := alInsert (id, n) c s.parts }) hi hl rfl rfl rfl rfl rfl rfl rfl
                exact ⟨rfl, e1, e2⟩
              | some r =>
                have hmodel := copyRange_eq r hlen'
                cases hcr : StoreSpec.copyRange r c.length with
                | none =>
                  -- not `bytes=first-last` inside the source: `InvalidArgument` on both sides, nothing changes
                  rw [hcr] at hmodel
                  have hstep : step H dl s (.uploadPartCopy who b k (some id) n sb sk (some r)) =
                      (s, .err .InvalidArgument) := by
                    simp [step, hnr, State.verify, findUpload_bound hl hb hk, hown, objPath, hsbd, hskp, hsnode, hsn, hmodel]
                  have hspec : StoreSpec.step H (abs s) (.uploadPartCopy who b k (some id) n sb sk (some r)) =
                      (abs s, .err .InvalidArgument) := by
                    simp [StoreSpec.step, hnr, hup, hown', hsbo, hsko, hsabs, hslook, hcr]
                  rw [hstep, hspec]
                  exact ⟨rfl, rfl, hi⟩
                | some se =>
                  obtain ⟨st, en⟩ := se
                  rw [hcr] at hmodel
                  have hbnd : st < en ∧ en ≤ c.length := copyRange_bounds hcr
                  have hst : ¬ st > i64Max := by omega
                  have hstep : step H dl s (.uploadPartCopy who b k (some id) n sb sk (some r)) =
                      ({ s with parts := alInsert (id, n) (slice c st en) s.parts },
                        .part (some (etagOf H (slice c st en)))) := by
                    simp [step, hnr, State.verify, findUpload_bound hl hb hk, hown, objPath, hsbd, hskp, hsnode, hsn, hmodel, hst, slice]
                  have hspec : StoreSpec.step H (abs s) (.uploadPartCopy who b k (some id) n sb sk (some r)) =
                      ({ abs s with uploads := alInsert id (withPart (upOf s id ui) n (slice c st en)) (abs s).uploads },
                        .part (some (etagOf H (slice c st en)))) := by
                    simp [StoreSpec.step, hnr, hup, hown', hsbo, hsko, hsabs, hslook, withPart, hcr]
                  rw [hstep, hspec]
                  obtain ⟨e1, e2⟩ := writePart_core (s' := { s with parts := alInsert (id, n) (slice c st en) s.parts }) hi hl rfl rfl rfl rfl rfl rfl rfl
                  exact ⟨rfl, e1, e2⟩
    · simp [step, StoreSpec.step, State.verify, findUpload_bound hl hb hk, hown, hnr, hup, hown', objPath, hsbd, hsbo, hi]
  · have hown' : (upOf s id ui).owner ≠ who := hown
    simp [step, StoreSpec.step, State.verify, findUpload_bound hl hb hk, hown, hnr, hup, hown', hi]

end S3V.FsStore
