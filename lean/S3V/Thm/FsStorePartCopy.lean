import S3V.Thm.FsStoreComplete
/-!
# C18: `upload_part_copy` of a whole source object refines the store
-/
namespace S3V.FsStore
open S3V.StoreSpec

/-- `upload_part_copy` comparable: part number within 1..10000 [else fs:part-number-not-validated], the upload exists for this
    bucket and key [fs:unknown-upload-code, fs:upload-not-bound-to-key], the whole source is copied (no
    `x-amz-copy-source-range`) [ranges: fs:part-copy-range-unchecked; not covered by this theorem], source names agree,
    the source bucket exists [fs:missing-bucket-reported-as-missing-key], the source is not a directory and its size fits
    `u64` -/
def UploadPartCopyOk (s : State) (b k : Bytes) (u : UploadRef) (n : Int) (sb sk : Bytes) (range : Option Bytes) : Prop :=
  1 ≤ n ∧ n ≤ 10000 ∧ BoundUpload s u b k ∧ range = none ∧ NameOk sb ∧ CanonKey sk ∧
  (bucketOk sb = true →
    match keyPath sk with
    | none => True
    | some sp =>
      match s.tree sb with
      | none => False
      | some st =>
        match st.node sp with
        | none => True
        | some .dir => False
        | some (.file c) => c.length < u64Mod)

theorem copyWhole (c : Bytes) (h : c.length < u64Mod) :
    c.take (((c.length + u64Mod - 1) % u64Mod + u64Mod + 1) % u64Mod) = c := by
  have : ((c.length + u64Mod - 1) % u64Mod + u64Mod + 1) % u64Mod = c.length := by
    unfold u64Mod at h ⊢
    by_cases h0 : c.length = 0
    · rw [h0]
    · have e1 : (c.length + 2 ^ 64 - 1) % 2 ^ 64 = c.length - 1 := by omega
      rw [e1]; omega
  rw [this]
  simp

theorem uploadPartCopy_refines (H : Hashes) (dl : Nat) {s : State} (hi : Inv s) {who : Who} {b k : Bytes}
    {u : UploadRef} {n : Int} {sb sk : Bytes} {range : Option Bytes} (hg : UploadPartCopyOk s b k u n sb sk range) :
    (step H dl s (.uploadPartCopy who b k u n sb sk range)).2 =
      (StoreSpec.step H (abs s) (.uploadPartCopy who b k u n sb sk range)).2 ∧
    abs (step H dl s (.uploadPartCopy who b k u n sb sk range)).1 =
      (StoreSpec.step H (abs s) (.uploadPartCopy who b k u n sb sk range)).1 ∧
    Inv (step H dl s (.uploadPartCopy who b k u n sb sk range)).1 := by
  obtain ⟨h1, h2, hbound, hrange, hsname, ⟨_, hscanon⟩, hsrc⟩ := hg
  subst hrange
  have hnr : ¬ (n < 1 ∨ n > 10000) := by omega
  obtain ⟨id, ui, rfl, hl, hb, hk, hup⟩ := hbound.spec
  by_cases hown : ui.owner = who
  · have hown' : ¬ (upOf s id ui).owner ≠ who := by simp [upOf, hown]
    rcases hsname.cases with ⟨hsbo, hsbd⟩ | ⟨hsbo, hsbd⟩
    · have hsrc := hsrc hsbo
      cases hskp : keyPath sk with
      | none =>
        have hko : keyOk sk = false := by rw [keyOk_iff_keyPath, hskp]; rfl
        simp [step, StoreSpec.step, State.verify, hl, hown, hnr, hup, hown', objPath, hsbd, hskp, hsbo, hko, hi]
      | some sp =>
        have hsko : keyOk sk = true := by rw [keyOk_iff_keyPath, hskp]; rfl
        rw [hskp] at hsrc hscanon
        simp only at hsrc hscanon
        have hsp : PathOk sp := keyPath_pathOk hskp
        cases hst : s.tree sb with
        | none => rw [hst] at hsrc; exact absurd hsrc (by simp)
        | some st =>
          rw [hst] at hsrc
          simp only at hsrc
          have hsabs : (abs s).bucket sb = some (absTree s sb st) := by rw [abs_bucket, hst]; rfl
          have hslook := abs_lookup_obj hi hst hsp
          rw [hscanon] at hslook
          have hsnode : s.node sb sp = st.node sp := by simp [State.node, hst]
          cases hsn : st.node sp with
          | none =>
            rw [hsn] at hslook
            simp [step, StoreSpec.step, State.verify, hl, hown, hnr, hup, hown', objPath, hsbd, hskp, hsbo, hsko,
              hsabs, hsnode, hsn, hslook, hi]
          | some nd =>
            cases nd with
            | dir => rw [hsn] at hsrc; exact absurd hsrc (by simp)
            | file c =>
              rw [hsn] at hslook hsrc
              simp only [Option.bind_some, nodeObj] at hslook
              simp only at hsrc
              have hbody := copyWhole c hsrc
              have hstep : step H dl s (.uploadPartCopy who b k (some id) n sb sk none) =
                  ({ s with parts := alInsert (id, n) c s.parts }, .part (some (etagOf H c))) := by
                have h0 : ¬ (0 > i64Max) := by decide
                simp [step, State.verify, hl, hown, objPath, hsbd, hskp, hsnode, hsn, copyRange, h0, hbody]
              have hspec : StoreSpec.step H (abs s) (.uploadPartCopy who b k (some id) n sb sk none) =
                  ({ abs s with uploads := alInsert id (withPart (upOf s id ui) n c) (abs s).uploads },
                    .part (some (etagOf H c))) := by
                simp [StoreSpec.step, hnr, hup, hown', hsbo, hsko, hsabs, hslook, withPart]
              rw [hstep, hspec]
              obtain ⟨e1, e2⟩ := writePart_core (s' := { s with parts := alInsert (id, n) c s.parts }) hi hl rfl rfl rfl rfl rfl rfl rfl
              exact ⟨rfl, e1, e2⟩
    · simp [step, StoreSpec.step, State.verify, hl, hown, hnr, hup, hown', objPath, hsbd, hsbo, hi]
  · have hown' : (upOf s id ui).owner ≠ who := hown
    simp [step, StoreSpec.step, State.verify, hl, hown, hnr, hup, hown', hi]

end S3V.FsStore
