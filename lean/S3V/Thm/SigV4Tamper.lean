import S3V.Thm.SigV4Inj
import S3V.Thm.SigV4Verdict
import S3V.Thm.Crypto
/-!
# Lemmas: a request with a different signed view has a different signature (given no collision on the two
concrete messages), and rewrites that keep the signed view keep the canonical request
-/
namespace S3V.SigV4
open S3V

theorem specHex_eq (b : Bytes) : SigV4Spec.hex b = Crypto.hexLower b := rfl

theorem specHex_injective {a b : Bytes} (h : SigV4Spec.hex a = SigV4Spec.hex b) : a = b :=
  Crypto.hexLower_injective (by rwa [← specHex_eq, ← specHex_eq])

/-- the two no-collision hypotheses, about exactly the two messages involved -/
structure NoCollision (sha256hex : Bytes → Bytes) (hmac : Bytes → Bytes → Bytes) (secret timestamp : Bytes)
    (s : SigV4Spec.Scope) (r r' : SigV4Spec.Request) : Prop where
  /-- SHA-256 does not collide on the two canonical requests -/
  hash : sha256hex (SigV4Spec.canonicalRequest r) = sha256hex (SigV4Spec.canonicalRequest r') →
    SigV4Spec.canonicalRequest r = SigV4Spec.canonicalRequest r'
  /-- HMAC under the signing key does not collide on the two strings to sign -/
  mac : hmac (SigV4Spec.signingKey hmac secret s) (SigV4Spec.stringToSign sha256hex timestamp s (SigV4Spec.canonicalRequest r)) =
      hmac (SigV4Spec.signingKey hmac secret s) (SigV4Spec.stringToSign sha256hex timestamp s (SigV4Spec.canonicalRequest r')) →
    SigV4Spec.stringToSign sha256hex timestamp s (SigV4Spec.canonicalRequest r) =
      SigV4Spec.stringToSign sha256hex timestamp s (SigV4Spec.canonicalRequest r')

theorem tamper_changes_signature (sha256hex : Bytes → Bytes) (hmac : Bytes → Bytes → Bytes) (secret timestamp : Bytes)
    (s : SigV4Spec.Scope) (r r' : SigV4Spec.Request) (h₁ : LineSafe r) (h₂ : LineSafe r')
    (hview : signedView r ≠ signedView r') (hnc : NoCollision sha256hex hmac secret timestamp s r r') :
    SigV4Spec.signature sha256hex hmac secret timestamp s r ≠ SigV4Spec.signature sha256hex hmac secret timestamp s r' := by
  intro h
  unfold SigV4Spec.signature SigV4Spec.sign at h
  have h1 := hnc.mac (specHex_injective h)
  unfold SigV4Spec.stringToSign at h1
  have h2 := List.append_cancel_left h1
  exact hview (canon_injective h₁ h₂ (hnc.hash h2))

/-! ## the canonical request is a function of the signed view -/

def renderView (v : SignedView) : Bytes :=
  v.method ++ [10] ++ SigV4Spec.uriEncode true v.path ++ [10] ++
  SigV4Spec.joinWith [38] (v.query.map fun p => p.1 ++ [61] ++ p.2) ++ [10] ++
  (v.headers.flatMap fun p => p.1 ++ [58] ++ p.2 ++ [10]) ++ [10] ++
  SigV4Spec.joinWith [59] (v.headers.map (·.1)) ++ [10] ++ v.payload

theorem canonical_eq_render (r : SigV4Spec.Request) : SigV4Spec.canonicalRequest r = renderView (signedView r) := by
  unfold SigV4Spec.canonicalRequest renderView signedView SigV4Spec.canonicalQuery encodedQuery
    SigV4Spec.canonicalHeaders SigV4Spec.signedHeadersLine
  simp only [List.map_map, Function.comp]
  congr 4
  · congr 1
    induction SigV4Spec.sortStrs r.signedHeaders with
    | nil => rfl
    | cons n ns ih => simp only [List.flatMap_cons, List.map_cons, ih]
  · congr 1
    induction SigV4Spec.sortStrs r.signedHeaders with
    | nil => rfl
    | cons n ns ih => simp only [List.map_cons, ← ih]; rfl

/-- hence: whatever rewrite keeps the signed view keeps the canonical request -/
theorem canonical_of_view_eq {r r' : SigV4Spec.Request} (h : signedView r = signedView r') :
    SigV4Spec.canonicalRequest r = SigV4Spec.canonicalRequest r' := by
  rw [canonical_eq_render, canonical_eq_render, h]

/-! ## rewrites that keep the signed view -/

/-- header lines: only the sub-list of each signed name, with names compared case-insensitively and values
    `Trim`med, matters — so line order across names, name case and unsigned lines do not -/
theorem view_headers_congr {r r' : SigV4Spec.Request} (hm : r.method = r'.method) (hp : r.path = r'.path)
    (hq : r.query = r'.query) (hs : r.signedHeaders = r'.signedHeaders) (hpl : r.payload = r'.payload)
    (hh : ∀ n ∈ r.signedHeaders,
      (r.headers.filter fun h => SigV4Spec.lowercase h.1 = n).map (fun h => SigV4Spec.trimAll h.2) =
      (r'.headers.filter fun h => SigV4Spec.lowercase h.1 = n).map (fun h => SigV4Spec.trimAll h.2)) :
    signedView r = signedView r' := by
  unfold signedView
  rw [hm, hp, hq, hpl, ← hs]
  simp only [SignedView.mk.injEq, true_and, and_true]
  apply List.map_congr_left
  intro n hn
  have := hh n (mem_sortStrs hn)
  simp only [SigV4Spec.headerValues, this]

/-- white space added at the edges of a header value does not change its canonical value -/
theorem trimAll_edge (ws₁ ws₂ v : Bytes) (h₁ : ∀ c ∈ ws₁, SigV4Spec.isWs c = true)
    (h₂ : ∀ c ∈ ws₂, SigV4Spec.isWs c = true) : SigV4Spec.trimAll (ws₁ ++ v ++ ws₂) = SigV4Spec.trimAll v := by
  unfold SigV4Spec.trimAll
  congr 2
  rw [List.append_assoc, List.dropWhile_append_of_pos h₁, List.dropWhile_append]
  have hws : ws₂.dropWhile SigV4Spec.isWs = [] := by
    have := List.dropWhile_append_of_pos (p := SigV4Spec.isWs) (l₂ := []) h₂
    simpa using this
  split
  · rename_i he
    rw [hws, List.isEmpty_iff.mp he]
  · rw [List.reverse_append, List.dropWhile_append_of_pos (fun c hc => h₂ c (List.mem_reverse.mp hc))]

end S3V.SigV4
