import S3V.Model.FsStore
/-!
# C18 lemmas: keys and paths (joining components is injective on admissible paths)
-/
namespace S3V.FsStore

def CompOk (c : Bytes) : Prop := c ≠ [] ∧ slash ∉ c
def PathOk (p : Path) : Prop := p ≠ [] ∧ ∀ c ∈ p, CompOk c

theorem split_first_slash : ∀ (a a' r r' : Bytes), slash ∉ a → slash ∉ a' →
    a ++ slash :: r = a' ++ slash :: r' → a = a' ∧ r = r' := by
  intro a
  induction a with
  | nil =>
    intro a' r r' _ h' h
    cases a' with
    | nil => simp at h; exact ⟨rfl, h⟩
    | cons x xs =>
      simp at h
      exact absurd (by simp [h.1]) h'
  | cons y ys ih =>
    intro a' r r' h1 h' h
    cases a' with
    | nil =>
      simp at h
      exact absurd (by simp [h.1]) h1
    | cons x xs =>
      simp only [List.cons_append, List.cons.injEq] at h
      have h1' : slash ∉ ys := fun hm => h1 (List.mem_cons_of_mem _ hm)
      have h2' : slash ∉ xs := fun hm => h' (List.mem_cons_of_mem _ hm)
      obtain ⟨e1, e2⟩ := ih xs r r' h1' h2' h.2
      exact ⟨by rw [h.1, e1], e2⟩

theorem joinWith_cons2 (sep a b : Bytes) (t : List Bytes) :
    joinWith sep (a :: b :: t) = a ++ sep ++ joinWith sep (b :: t) := rfl

theorem slash_mem_join_cons2 (a b : Bytes) (t : List Bytes) : slash ∈ joinWith [slash] (a :: b :: t) := by
  rw [joinWith_cons2]; simp

theorem joinWith_inj : ∀ (p q : Path), (∀ c ∈ p, CompOk c) → (∀ c ∈ q, CompOk c) → p ≠ [] → q ≠ [] →
    joinWith [slash] p = joinWith [slash] q → p = q := by
  intro p
  induction p with
  | nil => intro q _ _ h; exact absurd rfl h
  | cons a t ih =>
    intro q hp hq _ hqn h
    cases q with
    | nil => exact absurd rfl hqn
    | cons a' t' =>
      have ha : slash ∉ a := (hp a (by simp)).2
      have ha' : slash ∉ a' := (hq a' (by simp)).2
      cases t with
      | nil =>
        cases t' with
        | nil => simp [joinWith] at h; rw [h]
        | cons b' u' =>
          have : slash ∈ joinWith [slash] [a] := by rw [h]; exact slash_mem_join_cons2 _ _ _
          simp [joinWith] at this
          exact absurd this ha
      | cons b u =>
        cases t' with
        | nil =>
          have : slash ∈ joinWith [slash] [a'] := by rw [← h]; exact slash_mem_join_cons2 _ _ _
          simp [joinWith] at this
          exact absurd this ha'
        | cons b' u' =>
          rw [joinWith_cons2, joinWith_cons2] at h
          simp only [List.append_assoc, List.singleton_append] at h
          obtain ⟨e1, e2⟩ := split_first_slash a a' _ _ ha ha' h
          have := ih (b' :: u') (fun c hc => hp c (List.mem_cons_of_mem _ hc))
            (fun c hc => hq c (List.mem_cons_of_mem _ hc)) (by simp) (by simp) e2
          rw [e1, this]

theorem PathOk.join_inj {p q : Path} (hp : PathOk p) (hq : PathOk q)
    (h : joinWith [slash] p = joinWith [slash] q) : p = q :=
  joinWith_inj p q hp.2 hq.2 hp.1 hq.1 h

/-- segments produced by `splitSlash` contain no slash -/
theorem splitSlash_no_slash : ∀ (k : Bytes) (s : Bytes), s ∈ splitSlash k → slash ∉ s := by
  intro k
  induction k with
  | nil => intro s hs; simp [splitSlash] at hs; subst hs; simp
  | cons c cs ih =>
    intro s hs
    unfold splitSlash at hs
    split at hs
    · simp only [List.mem_cons] at hs
      rcases hs with hs | hs
      · subst hs; simp
      · exact ih s hs
    · rename_i hne
      split at hs
      · simp at hs; subst hs; simp; exact fun h => hne h.symm
      · rename_i h t heq
        simp only [List.mem_cons] at hs
        rcases hs with hs | hs
        · subst hs
          have : slash ∉ h := ih h (by rw [heq]; simp)
          simp only [List.mem_cons, not_or]
          exact ⟨fun e => hne e.symm, this⟩
        · exact ih s (by rw [heq]; exact List.mem_cons_of_mem _ hs)

theorem keyPath_pathOk {k : Bytes} {p : Path} (h : keyPath k = some p) : PathOk p := by
  unfold keyPath at h
  split at h
  · simp at h
  · simp only at h
    split at h
    · simp at h
    · split at h
      · simp at h
      · rename_i hne
        simp only [Option.some.injEq] at h
        subst h
        refine ⟨hne, ?_⟩
        intro c hc
        have hc' := List.mem_filter.mp hc
        refine ⟨?_, splitSlash_no_slash k c hc'.1⟩
        have := hc'.2
        simp at this
        exact this.1

/-- prefixes of an admissible path are admissible -/
theorem prefixes_mem {p q : Path} (h : q ∈ prefixes p) : q ≠ [] ∧ (∀ c ∈ q, c ∈ p) ∧ q.length ≤ p.length := by
  induction p generalizing q with
  | nil => simp [prefixes] at h
  | cons a t ih =>
    simp only [prefixes, List.mem_cons, List.mem_map] at h
    rcases h with h | ⟨q', hq', rfl⟩
    · subst h; simp
    · obtain ⟨_, h2, h3⟩ := ih hq'
      refine ⟨by simp, ?_, by simp; omega⟩
      intro c hc
      simp only [List.mem_cons] at hc ⊢
      rcases hc with hc | hc
      · exact Or.inl hc
      · exact Or.inr (h2 c hc)

theorem dropLast_mem {α} {l : List α} {x : α} (h : x ∈ l.dropLast) : x ∈ l := by
  rw [List.dropLast_eq_take] at h
  exact List.mem_of_mem_take h

theorem PathOk.prefix_dropLast {p q : Path} (hp : PathOk p) (h : q ∈ prefixes p.dropLast) :
    PathOk q ∧ q.length < p.length := by
  obtain ⟨h1, h2, h3⟩ := prefixes_mem h
  refine ⟨⟨h1, fun c hc => hp.2 c (dropLast_mem (h2 c hc))⟩, ?_⟩
  have : p.dropLast.length = p.length - 1 := List.length_dropLast
  have hpl : p.length ≠ 0 := by
    intro h0; exact hp.1 (List.length_eq_zero_iff.mp h0)
  omega

end S3V.FsStore
