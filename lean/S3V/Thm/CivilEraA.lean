import S3V.Thm.CivilEraDefs
/-! finite check 1 of 2: every day of the era decodes to a valid triple that encodes back (kernel evaluation) -/
namespace S3V.Dto
theorem okDec_0 : allBin okDec 15 0 = true := by decide +kernel
theorem okDec_1 : allBin okDec 15 32768 = true := by decide +kernel
theorem okDec_2 : allBin okDec 15 65536 = true := by decide +kernel
theorem okDec_3 : allBin okDec 15 98304 = true := by decide +kernel
theorem okDec_4 : allBin okDec 15 131072 = true := by decide +kernel
end S3V.Dto
