import S3V.Thm.ChunkedSpec
/-!
# Lemmas: the headers and chunks written by the document's encoder are well-formed

`hexOfNat` (lower-case hex without leading zeros) is read back by the size-token reader for every
size below 2^32; an encoded chunk is `Chunk.WF` as soon as the signature function returns 64 bytes
without a line feed (64 hex digits in reality); the encoder's chunks verify along the chain.
-/
namespace S3V.ChunkedSpec
open S3V S3V.Chunked

theorem hexDigit?_hexNib : ∀ d : Fin 16, hexDigit? (hexNib d.val) = some d.val := by decide

theorem hexNib_ne : ∀ d : Fin 16, hexNib d.val ≠ 59 ∧ hexNib d.val ≠ 10 := by decide

theorem hexDigit?_hexNib' {d : Nat} (h : d < 16) : hexDigit? (hexNib d) = some d :=
  hexDigit?_hexNib ⟨d, h⟩

/-- value of an all-hex-digit string -/
def hexFold (ds : Bytes) (a : Nat) : Nat := ds.foldl (fun a c => a * 16 + (hexDigit? c).getD 0) a

theorem hexFold_append (xs ys : Bytes) (a : Nat) : hexFold (xs ++ ys) a = hexFold ys (hexFold xs a) := by
  simp [hexFold, List.foldl_append]

theorem hexOfNat_all (n : Nat) : ∀ c ∈ hexOfNat n, (hexDigit? c).isSome ∧ c ≠ 59 ∧ c ≠ 10 := by
  induction n using Nat.strongRecOn with
  | _ n ih =>
    rw [hexOfNat]
    split
    · rename_i h
      intro c hc
      simp only [List.mem_singleton] at hc
      subst hc
      exact ⟨by simp [hexDigit?_hexNib' h], (hexNib_ne ⟨n, h⟩).1, (hexNib_ne ⟨n, h⟩).2⟩
    · rename_i h
      intro c hc
      simp only [List.mem_append, List.mem_singleton] at hc
      rcases hc with hc | hc
      · exact ih (n / 16) (by omega) c hc
      · subst hc
        have h16 : n % 16 < 16 := Nat.mod_lt _ (by omega)
        exact ⟨by simp [hexDigit?_hexNib' h16], (hexNib_ne ⟨n % 16, h16⟩).1, (hexNib_ne ⟨n % 16, h16⟩).2⟩

theorem hexOfNat_ne_nil (n : Nat) : hexOfNat n ≠ [] := by
  rw [hexOfNat]; split <;> simp

theorem hexFold_hexOfNat (n : Nat) : ∀ a, hexFold (hexOfNat n) a = a * 16 ^ (hexOfNat n).length + n := by
  induction n using Nat.strongRecOn with
  | _ n ih =>
    intro a
    rw [hexOfNat]
    split
    · rename_i h
      simp [hexFold, hexDigit?_hexNib' h]
    · rename_i h
      have h16 : n % 16 < 16 := Nat.mod_lt _ (by omega)
      rw [hexFold_append, ih (n / 16) (by omega)]
      simp only [hexFold, List.foldl_cons, List.foldl_nil, hexDigit?_hexNib' h16, Option.getD_some,
        List.length_append, List.length_singleton, Nat.pow_succ]
      have := Nat.div_add_mod n 16
      rw [Nat.add_mul, Nat.mul_assoc]
      omega

theorem hexOfNat_length_le : ∀ (k n : Nat), n < 16 ^ (k + 1) → (hexOfNat n).length ≤ k + 1 := by
  intro k
  induction k with
  | zero =>
    intro n h
    rw [hexOfNat, dif_pos (by simpa using h)]
    simp
  | succ k ih =>
    intro n h
    rw [hexOfNat]
    split
    · simp
    · have : n / 16 < 16 ^ (k + 1) := by
        rw [Nat.div_lt_iff_lt_mul (by omega)]
        rw [Nat.pow_succ] at h
        exact h
      have := ih (n / 16) this
      simp only [List.length_append, List.length_singleton]
      omega

/-- the size-token reader on a string of at most `k` hex digits -/
theorem sizeOfToken_digits : ∀ (ds : Bytes) (k : Nat) (acc : Option Nat),
    (∀ c ∈ ds, (hexDigit? c).isSome) → ds.length ≤ k → ds ≠ [] →
    sizeOfToken ds k acc = some (hexFold ds (acc.getD 0)) := by
  intro ds
  induction ds with
  | nil => intro k acc _ _ h; exact absurd rfl h
  | cons c cs ih =>
    intro k acc hall hlen _
    cases k with
    | zero => simp at hlen
    | succ k =>
      rw [sizeOfToken]
      have hc := hall c (List.mem_cons_self ..)
      cases hd : hexDigit? c with
      | none => rw [hd] at hc; simp at hc
      | some d =>
        simp only []
        by_cases hcs : cs = []
        · subst hcs
          cases k <;> simp [sizeOfToken, hexFold, hd]
        · rw [ih k _ (fun x hx => hall x (List.mem_cons_of_mem _ hx)) (by simpa using hlen) hcs]
          simp [hexFold, hd]

theorem sizeOfToken_hexOfNat {n : Nat} (h : n < 2 ^ 32) : sizeOfToken (hexOfNat n) 8 none = some n := by
  have hl := hexOfNat_length_le 7 n (by simpa using h)
  rw [sizeOfToken_digits _ 8 none (fun c hc => (hexOfNat_all n c hc).1) hl (hexOfNat_ne_nil n)]
  rw [hexFold_hexOfNat]
  simp

theorem takeWhile_stop {α} (p : α → Bool) (xs : List α) (y : α) (ys : List α)
    (hx : ∀ x ∈ xs, p x = true) (hy : p y = false) : (xs ++ y :: ys).takeWhile p = xs := by
  induction xs with
  | nil => simp [hy]
  | cons a l ih =>
    have ha := hx a (List.mem_cons_self ..)
    simp only [List.cons_append, List.takeWhile_cons, ha, if_true]
    rw [ih (fun x hx' => hx x (List.mem_cons_of_mem _ hx'))]

/-- **canonical headers are read with their value**: `hex(size) ";chunk-signature=" sig CRLF` -/
theorem parseHeader_canonical {n : Nat} (hn : n < 2 ^ 32) {s : Bytes} (hs : s.length = 64) :
    parseHeader (hexOfNat n ++ tag ++ s ++ crlf) = some (n, s) := by
  have htok : (hexOfNat n ++ tag ++ s ++ crlf).takeWhile (· != 59) = hexOfNat n := by
    have : hexOfNat n ++ tag ++ s ++ crlf = hexOfNat n ++ 59 :: (tag.drop 1 ++ s ++ crlf) := by
      simp [tag]
    rw [this]
    apply takeWhile_stop
    · intro x hx
      have := (hexOfNat_all n x hx).2.1
      simp [this]
    · simp
  unfold parseHeader
  simp only [htok]
  have hafter : (hexOfNat n ++ tag ++ s ++ crlf).drop (hexOfNat n).length = tag ++ s ++ crlf := by
    rw [List.append_assoc, List.append_assoc, List.drop_left]
    simp
  rw [hafter]
  have h1 : (tag ++ s ++ crlf).length = 17 + 64 + 2 := by simp [tag, crlf, hs]
  have h2 : (tag ++ s ++ crlf).take 17 = tag := by
    rw [List.append_assoc, List.take_left' (by rfl)]
  have h3 : (tag ++ s ++ crlf).drop 81 = crlf := by
    rw [List.drop_left' (by simp [tag, hs])]
  have h4 : ((tag ++ s ++ crlf).drop 17).take 64 = s := by
    rw [List.append_assoc, List.drop_left' (by rfl), List.take_left' hs]
  rw [if_pos ⟨h1, h2, h3⟩, sizeOfToken_hexOfNat hn, h4]
  rfl

/-- an encoded chunk is well-formed when the signature is 64 bytes without a line feed -/
theorem encodeChunk_wf (sig : Bytes → Bytes → Bytes) (prev data : Bytes) (hlen : data.length < 2 ^ 32)
    (hs : (sig prev data).length = 64) (hnl : (10 : UInt8) ∉ sig prev data) :
    (encodeChunk sig prev data).WF := by
  refine ⟨⟨hexOfNat data.length ++ tag ++ sig prev data ++ [13], ?_, ?_⟩, ?_⟩
  · simp [encodeChunk, crlf]
  · simp only [List.mem_append, not_or, List.mem_singleton]
    refine ⟨⟨⟨?_, by decide⟩, hnl⟩, by decide⟩
    intro h
    exact (hexOfNat_all _ _ h).2.2 rfl
  · exact parseHeader_canonical hlen hs

theorem encodeChunks_props (sig : Bytes → Bytes → Bytes)
    (hsig : ∀ p d, (sig p d).length = 64 ∧ (10 : UInt8) ∉ sig p d) :
    ∀ (pieces : List Bytes) (prev : Bytes), (∀ d ∈ pieces, d ≠ [] ∧ d.length < 2 ^ 32) →
      (∀ c ∈ encodeChunks sig prev pieces, c.WF ∧ c.data ≠ []) ∧
      Verified sig prev (encodeChunks sig prev pieces) ∧
      dataOf (encodeChunks sig prev pieces) = pieces.flatten := by
  intro pieces
  induction pieces with
  | nil => intro prev _; simp [encodeChunks, Verified, dataOf]
  | cons d ds ih =>
    intro prev h
    have hd := h d (List.mem_cons_self ..)
    obtain ⟨i1, i2, i3⟩ := ih (encodeChunk sig prev d).sgn (fun x hx => h x (List.mem_cons_of_mem _ hx))
    simp only [encodeChunks]
    refine ⟨?_, ⟨rfl, i2⟩, ?_⟩
    · intro c hc
      simp only [List.mem_cons] at hc
      rcases hc with hc | hc
      · subst hc
        exact ⟨encodeChunk_wf sig prev d hd.2 (hsig prev d).1 (hsig prev d).2, hd.1⟩
      · exact i1 c hc
    · rw [dataOf_cons, i3]; simp [encodeChunk]

end S3V.ChunkedSpec
