import S3V.Model.HttpDe
/-!
# Lemmas: `parse_opt_metadata` (model `S3V.HttpDe.parseOptMetadata`) reads back the `httpPrefixHeaders` encoding of a
metadata map

`metaStep` is the loop body of the helper (the model's local `step`, `parseOptMetadata_eq` by `rfl`); foreign names leave
the accumulator alone, each metadata name present exactly once appends its pair; `HeaderMap::keys` (`keys` =
`eraseDups` of the names) over `metaHeaders md ++ extra` is the metadata names followed by foreign names.
-/
namespace S3V.HttpDe

/-- the loop body of `parse_opt_metadata` -/
def metaStep (decStr : Bytes → Option Bytes) (H : List (Name × Bytes))
    (acc : Except Err (List (Bytes × Bytes))) (name : Name) : Except Err (List (Bytes × Bytes)) :=
  match acc with
  | .error e => .error e
  | .ok m =>
    match stripPrefix metaPrefix name with
    | none => .ok m
    | some key =>
      if key.isEmpty then .ok m
      else match getAll H name with
        | [v] => match decStr v with
          | some s => .ok (m ++ [(key, s)])
          | none => .error .invalidHeader
        | _ => .error .duplicateHeader

theorem parseOptMetadata_eq (decStr : Bytes → Option Bytes) (r : Req) :
    parseOptMetadata decStr r =
      match (keys r.headers).foldl (metaStep decStr r.headers) (.ok []) with
      | .error e => .error e
      | .ok [] => .ok none
      | .ok m => .ok (some m) := rfl

/-- the Smithy `httpPrefixHeaders` encoding of a metadata map: one header `x-amz-meta-<key>: <value>` per pair -/
def metaHeaders (enc : Bytes → Bytes) (md : List (Bytes × Bytes)) : List (Name × Bytes) :=
  md.map fun kv => (metaPrefix ++ kv.1, enc kv.2)

theorem stripPrefix_append (p k : Bytes) : stripPrefix p (p ++ k) = some k := by
  simp [stripPrefix, List.isPrefixOf_iff_prefix]

/-- names that do not start with `x-amz-meta-` leave the accumulator alone -/
theorem foldl_metaStep_foreign (decStr : Bytes → Option Bytes) (H : List (Name × Bytes)) :
    ∀ (ns : List Name) (m : List (Bytes × Bytes)), (∀ n ∈ ns, stripPrefix metaPrefix n = none) →
      ns.foldl (metaStep decStr H) (.ok m) = .ok m
  | [], _, _ => rfl
  | n :: ns, m, h => by
    have hn := h n (by simp)
    simp only [List.foldl_cons, metaStep, hn]
    exact foldl_metaStep_foreign decStr H ns m fun x hx => h x (by simp [hx])

/-- the metadata names, each present exactly once with a decodable value, are appended in order -/
theorem foldl_metaStep_meta (decStr : Bytes → Option Bytes) (enc : Bytes → Bytes) (H : List (Name × Bytes)) :
    ∀ (md m : List (Bytes × Bytes)),
      (∀ kv ∈ md, kv.1 ≠ [] ∧ getAll H (metaPrefix ++ kv.1) = [enc kv.2] ∧ decStr (enc kv.2) = some kv.2) →
      (md.map fun kv => metaPrefix ++ kv.1).foldl (metaStep decStr H) (.ok m) = .ok (m ++ md)
  | [], m, _ => by simp
  | kv :: md, m, h => by
    obtain ⟨h1, h2, h3⟩ := h kv (by simp)
    have hne : kv.1.isEmpty = false := by
      cases hk : kv.1 with
      | nil => exact absurd hk h1
      | cons _ _ => rfl
    simp only [List.map_cons, List.foldl_cons, metaStep, stripPrefix_append, hne, Bool.false_eq_true, if_false, h2, h3]
    rw [foldl_metaStep_meta decStr enc H md (m ++ [kv]) fun x hx => h x (by simp [hx])]
    simp

theorem getAll_append (A B : List (Name × Bytes)) (n : Name) : getAll (A ++ B) n = getAll A n ++ getAll B n := by
  simp [getAll]

theorem getAll_foreign (B : List (Name × Bytes)) (n : Name) (h : ∀ p ∈ B, p.1 ≠ n) : getAll B n = [] := by
  simp only [getAll, List.map_eq_nil_iff, List.filter_eq_nil_iff]
  intro p hp
  simpa using h p hp

theorem getAll_metaHeaders_absent (enc : Bytes → Bytes) (k : Bytes) :
    ∀ md : List (Bytes × Bytes), k ∉ md.map (·.1) → getAll (metaHeaders enc md) (metaPrefix ++ k) = [] := by
  intro md hk
  apply getAll_foreign
  intro p hp
  simp only [metaHeaders, List.mem_map] at hp
  obtain ⟨kv, hkv, rfl⟩ := hp
  intro he
  have : kv.1 = k := List.append_cancel_left he
  exact hk (List.mem_map.mpr ⟨kv, hkv, this⟩)

theorem getAll_metaHeaders (enc : Bytes → Bytes) :
    ∀ md : List (Bytes × Bytes), (md.map (·.1)).Nodup → ∀ kv ∈ md,
      getAll (metaHeaders enc md) (metaPrefix ++ kv.1) = [enc kv.2]
  | [], _, kv, h => by simp at h
  | kv0 :: md, hn, kv, h => by
    simp only [List.map_cons, List.nodup_cons] at hn
    have hcons : metaHeaders enc (kv0 :: md) = [(metaPrefix ++ kv0.1, enc kv0.2)] ++ metaHeaders enc md := rfl
    rw [hcons, getAll_append]
    rcases List.mem_cons.mp h with rfl | h'
    · rw [getAll_metaHeaders_absent enc kv.1 md hn.1]
      simp [getAll]
    · have hne : kv0.1 ≠ kv.1 := fun he => hn.1 (he ▸ List.mem_map.mpr ⟨kv, h', rfl⟩)
      rw [getAll_metaHeaders enc md hn.2 kv h']
      have : getAll [(metaPrefix ++ kv0.1, enc kv0.2)] (metaPrefix ++ kv.1) = [] :=
        getAll_foreign _ _ (by
          intro p hp he
          simp only [List.mem_singleton] at hp
          subst hp
          exact hne (List.append_cancel_left he))
      rw [this]; rfl

theorem eraseDups_of_nodup : ∀ (l : List Name), l.Nodup → l.eraseDups = l
  | [], _ => rfl
  | a :: as, h => by
    simp only [List.nodup_cons] at h
    rw [List.eraseDups_cons]
    have : as.filter (fun b => !b == a) = as := by
      rw [List.filter_eq_self]
      intro b hb
      have : b ≠ a := fun he => h.1 (he ▸ hb)
      simpa using this
    rw [this, eraseDups_of_nodup as h.2]

theorem stripPrefix_none_of_not_prefix {p s : Bytes} (h : ¬ p <+: s) : stripPrefix p s = none := by
  simp [stripPrefix, List.isPrefixOf_iff_prefix, h]

/-- **`parse_opt_metadata` reads back the Smithy `httpPrefixHeaders` encoding of a metadata map**: for every map `md`
    with pairwise distinct, non-empty keys whose values survive the header text codec, sent as one header
    `x-amz-meta-<key>` per pair in front of any other headers `extra` (any number, repeated or not, none named
    `x-amz-meta-…`), the helper yields exactly `md` — `None` for the empty map. -/
theorem parseOptMetadata_roundtrip (decStr : Bytes → Option Bytes) (enc : Bytes → Bytes) (md : List (Bytes × Bytes))
    (extra : List (Name × Bytes)) (q : Option (List (Name × Bytes)))
    (hk : (md.map (·.1)).Nodup) (hne : ∀ kv ∈ md, kv.1 ≠ []) (hdec : ∀ kv ∈ md, decStr (enc kv.2) = some kv.2)
    (hex : ∀ p ∈ extra, ¬ metaPrefix <+: p.1) :
    parseOptMetadata decStr ⟨metaHeaders enc md ++ extra, q⟩ = .ok (if md = [] then none else some md) := by
  have hnames : (metaHeaders enc md).map (·.1) = md.map fun kv => metaPrefix ++ kv.1 := by
    simp [metaHeaders]
  have hnd : ((metaHeaders enc md).map (·.1)).Nodup := by
    rw [hnames]
    have : (md.map fun kv => metaPrefix ++ kv.1) = (md.map (·.1)).map (metaPrefix ++ ·) := by simp
    rw [this]
    exact List.Pairwise.map (metaPrefix ++ ·) (fun a b hab he => hab (List.append_cancel_left he)) hk
  have hkeys : keys (metaHeaders enc md ++ extra)
      = (md.map fun kv => metaPrefix ++ kv.1) ++ ((extra.map (·.1)).removeAll ((metaHeaders enc md).map (·.1))).eraseDups := by
    simp only [keys, List.map_append, List.eraseDups_append]
    rw [eraseDups_of_nodup _ hnd, hnames]
  have hforeign : ∀ n ∈ ((extra.map (·.1)).removeAll ((metaHeaders enc md).map (·.1))).eraseDups,
      stripPrefix metaPrefix n = none := by
    intro n hn
    rw [List.mem_eraseDups] at hn
    have hn' : n ∈ extra.map (·.1) := by
      simp only [List.removeAll, List.mem_filter] at hn
      exact hn.1
    obtain ⟨p, hp, rfl⟩ := List.mem_map.mp hn'
    exact stripPrefix_none_of_not_prefix (hex p hp)
  have hget : ∀ kv ∈ md, kv.1 ≠ [] ∧ getAll (metaHeaders enc md ++ extra) (metaPrefix ++ kv.1) = [enc kv.2] ∧
      decStr (enc kv.2) = some kv.2 := by
    intro kv hkv
    refine ⟨hne kv hkv, ?_, hdec kv hkv⟩
    rw [getAll_append, getAll_metaHeaders enc md hk kv hkv, getAll_foreign extra _ ?_]
    · rfl
    · intro p hp he
      exact hex p hp (he ▸ List.prefix_append _ _)
  rw [parseOptMetadata_eq]
  simp only [hkeys, List.foldl_append]
  rw [foldl_metaStep_meta decStr enc _ md [] hget, foldl_metaStep_foreign decStr _ _ _ hforeign]
  cases md with
  | nil => simp
  | cons kv t => simp

end S3V.HttpDe
