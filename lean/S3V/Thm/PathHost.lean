import S3V.Model.Host
/-!
# Lemmas for C12: `MultiDomain::new`, uniqueness of the matching base domain
-/
namespace S3V.Host
open S3V S3V.Net

/-- one text `ends_with` the other -/
def Overlap (a b : Bytes) : Prop := a <:+ b ∨ b <:+ a

theorem Overlap.symm {a b : Bytes} (h : Overlap a b) : Overlap b a := h.elim Or.inr Or.inl

/-- two domains overlap as the code defines it: once ASCII case is ignored
    (`to_ascii_lowercase` of both), one `ends_with` the other — the notion that matters for the
    (case-insensitive) resolution of hosts -/
def OverlapCI (a b : Bytes) : Prop := Overlap (toAsciiLower a) (toAsciiLower b)

theorem OverlapCI.symm {a b : Bytes} (h : OverlapCI a b) : OverlapCI b a := Overlap.symm h

theorem overlapsAny_iff (v : List Bytes) (d : Bytes) :
    overlapsAny v d = true ↔ ∃ o ∈ v, OverlapCI o d := by
  simp [overlapsAny, Overlap, OverlapCI, List.any_eq_true]

/-- the loop of `MultiDomain::new` started with accepted vector `v` -/
theorem multiNewLoop_ok (ds v w : List Bytes) :
    multiNewLoop ds v = .ok w ↔
      w = v ++ ds ∧ v ++ ds ≠ [] ∧ (∀ d ∈ ds, isValidDomain d = true) ∧
      (∀ d ∈ ds, ∀ o ∈ v, ¬ OverlapCI o d) ∧ ds.Pairwise (fun a b => ¬ OverlapCI a b) := by
  induction ds generalizing v with
  | nil =>
    cases v with
    | nil => simp [multiNewLoop]
    | cons x xs =>
      simp only [multiNewLoop, List.isEmpty_cons, List.append_nil]
      constructor
      · intro h; injection h with h; subst h; simp
      · rintro ⟨h, _⟩; simp [h]
  | cons d rest ih =>
    unfold multiNewLoop
    by_cases hv : isValidDomain d = true
    · by_cases ho : overlapsAny v d = true
      · simp only [hv, ho, Bool.not_true, if_true]
        constructor
        · intro h; cases h
        · rintro ⟨_, _, _, hcross, _⟩
          obtain ⟨o, ho1, ho2⟩ := (overlapsAny_iff v d).mp ho
          exact absurd ho2 (hcross d (by simp) o ho1)
      · have ho' : ¬ ∃ o ∈ v, OverlapCI o d := fun h => ho ((overlapsAny_iff v d).mpr h)
        have ho2 : overlapsAny v d = false := by
          cases h : overlapsAny v d with
          | false => rfl
          | true => exact absurd h ho
        rw [hv, ho2]
        rw [show (if (!true) = true then (Except.error DomainError.invalidDomain : Except DomainError (List Bytes))
              else if false = true then Except.error DomainError.overlappingSubdomains
              else multiNewLoop rest (v ++ [d])) = multiNewLoop rest (v ++ [d]) from by simp]
        rw [ih]
        simp only [List.append_assoc, List.singleton_append, List.mem_cons, List.mem_append,
          List.pairwise_cons, forall_eq_or_imp]
        constructor
        · rintro ⟨h1, h2, h3, h4, h5⟩
          refine ⟨h1, h2, ⟨hv, h3⟩, ⟨fun o ho1 => fun h => ho' ⟨o, ho1, h⟩, ?_⟩, ⟨?_, h5⟩⟩
          · intro d' hd' o ho1; exact h4 d' hd' o (Or.inl ho1)
          · intro d' hd'; exact h4 d' hd' d (Or.inr (Or.inl rfl))
        · rintro ⟨h1, h2, ⟨_, h3⟩, ⟨_, h4⟩, ⟨h5, h6⟩⟩
          refine ⟨h1, h2, h3, ?_, h6⟩
          intro d' hd' o ho1
          rcases ho1 with ho1 | rfl | ho1
          · exact h4 d' hd' o ho1
          · exact h5 d' hd'
          · cases ho1
    · simp only [hv, Bool.not_false, if_true]
      constructor
      · intro h; cases h
      · rintro ⟨_, _, hval, _, _⟩
        exact absurd (hval d (by simp)) hv

/-- `MultiDomain::new` succeeds exactly on non-empty lists of valid domains no two of which
    overlap once ASCII case is ignored, and keeps them in the order given -/
theorem multiNew_ok (ds w : List Bytes) :
    multiNew ds = .ok w ↔
      w = ds ∧ ds ≠ [] ∧ (∀ d ∈ ds, isValidDomain d = true) ∧
      ds.Pairwise (fun a b => ¬ OverlapCI a b) := by
  unfold multiNew
  rw [multiNewLoop_ok]
  simp

theorem toAsciiLower_length (s : Bytes) : (toAsciiLower s).length = s.length := by
  simp [toAsciiLower]

theorem toAsciiLower_append (a b : Bytes) : toAsciiLower (a ++ b) = toAsciiLower a ++ toAsciiLower b := by
  simp [toAsciiLower]

theorem eqIgnoreAsciiCase_iff (a b : Bytes) : eqIgnoreAsciiCase a b = true ↔ toAsciiLower a = toAsciiLower b := by
  simp [eqIgnoreAsciiCase]

theorem stripSuffixIgnoreAsciiCase_some {s suf r : Bytes} (h : stripSuffixIgnoreAsciiCase s suf = some r) :
    ∃ t, s = r ++ t ∧ toAsciiLower t = toAsciiLower suf := by
  unfold stripSuffixIgnoreAsciiCase at h
  split at h
  · cases h
  · simp only at h
    split at h
    · cases h
    · split at h
      · rename_i heq
        injection h with h
        refine ⟨s.drop (s.length - suf.length), ?_, (eqIgnoreAsciiCase_iff _ _).mp heq⟩
        rw [← h, List.take_append_drop]
      · cases h

/-- a base domain that the host belongs to is, case ignored, a suffix of the host -/
theorem suffix_of_parseHostHeader {base host : Bytes} {vh : VirtualHost}
    (h : parseHostHeader base host = some vh) : toAsciiLower base <:+ toAsciiLower host := by
  unfold parseHostHeader at h
  by_cases he : eqIgnoreAsciiCase host base = true
  · rw [(eqIgnoreAsciiCase_iff _ _).mp he]; exact List.suffix_refl _
  · rw [if_neg he] at h
    cases hs : stripSuffixIgnoreAsciiCase host base with
    | none => rw [hs] at h; simp at h
    | some r =>
      obtain ⟨t, rfl, ht⟩ := stripSuffixIgnoreAsciiCase_some hs
      rw [toAsciiLower_append, ← ht]
      exact List.suffix_append _ _

theorem overlap_of_both_match {d1 d2 host : Bytes} {v1 v2 : VirtualHost}
    (h1 : parseHostHeader d1 host = some v1) (h2 : parseHostHeader d2 host = some v2) :
    OverlapCI d1 d2 := by
  have s1 := suffix_of_parseHostHeader h1
  have s2 := suffix_of_parseHostHeader h2
  by_cases hl : (toAsciiLower d1).length ≤ (toAsciiLower d2).length
  · exact Or.inl (List.suffix_of_suffix_length_le s1 s2 hl)
  · exact Or.inr (List.suffix_of_suffix_length_le s2 s1 (by omega))

theorem pairwise_forall {R : Bytes → Bytes → Prop} (hs : ∀ a b, R a b → R b a) {l : List Bytes}
    (hp : l.Pairwise R) {a b : Bytes} (ha : a ∈ l) (hb : b ∈ l) (hne : a ≠ b) : R a b := by
  induction l with
  | nil => cases ha
  | cons x xs ih =>
    rw [List.pairwise_cons] at hp
    rcases List.mem_cons.mp ha with rfl | ha'
    · rcases List.mem_cons.mp hb with rfl | hb'
      · exact absurd rfl hne
      · exact hp.1 b hb'
    · rcases List.mem_cons.mp hb with rfl | hb'
      · exact hs _ _ (hp.1 a ha')
      · exact ih hp.2 ha' hb'

/-- among domains that do not overlap even with case ignored, at most one matches a host -/
theorem unique_match {ds : List Bytes} (hp : ds.Pairwise (fun a b => ¬ OverlapCI a b))
    {d1 d2 host : Bytes} {v1 v2 : VirtualHost} (m1 : d1 ∈ ds) (m2 : d2 ∈ ds)
    (h1 : parseHostHeader d1 host = some v1) (h2 : parseHostHeader d2 host = some v2) : d1 = d2 := by
  by_cases he : d1 = d2
  · exact he
  · exact absurd (overlap_of_both_match h1 h2)
      (pairwise_forall (fun a b h hba => h (Overlap.symm hba)) hp m1 m2 he)

/-- the members of an accepted configuration do not overlap, ASCII case ignored -/
theorem pairwiseCI_of_accepted {ds v : List Bytes} (h : multiNew ds = .ok v) :
    v.Pairwise (fun a b => ¬ OverlapCI a b) := by
  obtain ⟨rfl, _, _, hp⟩ := (multiNew_ok ds v).mp h
  exact hp

/-- ASCII lower-casing keeps suffixes -/
theorem toAsciiLower_suffix {a b : Bytes} (h : a <:+ b) : toAsciiLower a <:+ toAsciiLower b := by
  obtain ⟨t, rfl⟩ := h
  rw [toAsciiLower_append]
  exact List.suffix_append _ _

/-- overlap as written is overlap with case ignored -/
theorem OverlapCI.of_overlap {a b : Bytes} (h : Overlap a b) : OverlapCI a b :=
  h.elim (fun h => Or.inl (toAsciiLower_suffix h)) (fun h => Or.inr (toAsciiLower_suffix h))

theorem firstMatch_some {ds : List Bytes} {host : Bytes} {vh : VirtualHost}
    (h : firstMatch ds host = some vh) : ∃ d ∈ ds, parseHostHeader d host = some vh := by
  induction ds with
  | nil => simp [firstMatch] at h
  | cons b bs ih =>
    unfold firstMatch at h
    cases hb : parseHostHeader b host with
    | some v => rw [hb] at h; injection h with h; exact ⟨b, by simp, by rw [hb, h]⟩
    | none =>
      rw [hb] at h
      obtain ⟨d, hd, hm⟩ := ih h
      exact ⟨d, by simp [hd], hm⟩

theorem firstMatch_none {ds : List Bytes} {host : Bytes} :
    firstMatch ds host = none ↔ ∀ d ∈ ds, parseHostHeader d host = none := by
  induction ds with
  | nil => simp [firstMatch]
  | cons b bs ih =>
    unfold firstMatch
    cases hb : parseHostHeader b host with
    | some v => simp [hb]
    | none => simp [hb, ih]

/-- with pairwise non-overlapping domains, the first match is *the* match -/
theorem firstMatch_eq_of_mem {ds : List Bytes} (hp : ds.Pairwise (fun a b => ¬ OverlapCI a b))
    {d host : Bytes} {vh : VirtualHost} (hd : d ∈ ds) (hm : parseHostHeader d host = some vh) :
    firstMatch ds host = some vh := by
  cases hf : firstMatch ds host with
  | none => rw [firstMatch_none.mp hf d hd] at hm; cases hm
  | some v =>
    obtain ⟨d', hd', hm'⟩ := firstMatch_some hf
    have := unique_match hp hd' hd hm' hm
    subst this
    rw [hm'] at hm; exact hm

/-- the answer of `MultiDomain::parse_host_header` does not depend on the order of the domains -/
theorem multiParse_perm {ds ds' : List Bytes} (hp : ds.Pairwise (fun a b => ¬ OverlapCI a b))
    (hperm : ds'.Perm ds) (host : Bytes) : multiParse ds' host = multiParse ds host := by
  have hp' : ds'.Pairwise (fun a b => ¬ OverlapCI a b) :=
    (hperm.pairwise_iff (fun h hba => h (Overlap.symm hba))).mpr hp
  unfold multiParse
  cases hf : firstMatch ds host with
  | none =>
    have : firstMatch ds' host = none :=
      firstMatch_none.mpr fun d hd => firstMatch_none.mp hf d (hperm.subset hd)
    rw [this]
  | some v =>
    obtain ⟨d, hd, hm⟩ := firstMatch_some hf
    rw [firstMatch_eq_of_mem hp' (hperm.symm.subset hd) hm]

end S3V.Host
