import S3V.Model.Host
/-!
# Lemmas for C12: `MultiDomain::new`, uniqueness of the matching base domain
-/
namespace S3V.Host
open S3V S3V.Net

/-- one text `ends_with` the other -/
def Overlap (a b : Bytes) : Prop := a <:+ b ∨ b <:+ a

theorem Overlap.symm {a b : Bytes} (h : Overlap a b) : Overlap b a := h.elim Or.inr Or.inl

/-- two domains overlap as the code defines it: once ASCII case is ignored
    (`to_ascii_lowercase` of both), one `ends_with` the other — the notion that matters for the
    (case-insensitive) resolution of hosts -/
def OverlapCI (a b : Bytes) : Prop := Overlap (toAsciiLower a) (toAsciiLower b)

theorem OverlapCI.symm {a b : Bytes} (h : OverlapCI a b) : OverlapCI b a := Overlap.symm h

theorem overlapsAny_iff (v : List Bytes) (d : Bytes) :
    overlapsAny v d = true ↔ ∃ o ∈ v, OverlapCI o d := by
  simp [overlapsAny, Overlap, OverlapCI, List.any_eq_true]

/-- the loop of `MultiDomain::new` started with accepted vector `v` -/
theorem multiNewLoop_ok (ds v w : List Bytes) :
    multiNewLoop ds v = .ok w ↔
      w = v ++ ds ∧ v ++ ds ≠ [] ∧ (∀ d ∈ ds, isValidDomain d = true) ∧
      (∀ d ∈ ds, ∀ o ∈ v, ¬ OverlapCI o d) ∧ ds.Pairwise (fun a b => ¬ OverlapCI a b) := by
  induction ds generalizing v with
  | nil =>
    cases v with
    | nil => simp [multiNewLoop]
    | cons x xs =>
      simp only [multiNewLoop, List.isEmpty_cons, List.append_nil]
      constructor
      · intro h; injection h with h; subst h; simp
      · rintro ⟨h, _⟩; simp [h]
  | cons d rest ih =>
    unfold multiNewLoop
    by_cases hv : isValidDomain d = true
    · by_cases ho : overlapsAny v d = true
      · simp only [hv, ho, Bool.not_true, if_true]
        constructor
        · intro h; cases h
        · rintro ⟨_, _, _, hcross, _⟩
          obtain ⟨o, ho1, ho2⟩ := (overlapsAny_iff v d).mp ho
          exact absurd ho2 (hcross d (by simp) o ho1)
      · have ho' : ¬ ∃ o ∈ v, OverlapCI o d := fun h => ho ((overlapsAny_iff v d).mpr h)
        have ho2 : overlapsAny v d = false := by
          cases h : overlapsAny v d with
          | false => rfl
          | true => exact absurd h ho
        rw [hv, ho2]
        rw [show (if (!true) = true then (Except.error DomainError.invalidDomain : Except DomainError (List Bytes))
              else if false = true then Except.error DomainError.overlappingSubdomains
              else multiNewLoop rest (v ++ [d])) = multiNewLoop rest (v ++ [d]) from by simp]
        rw [ih]
        simp only [List.append_assoc, List.singleton_append, List.mem_cons, List.mem_append,
          List.pairwise_cons, forall_eq_or_imp]
        constructor
        · rintro ⟨h1, h2, h3, h4, h5⟩
          refine ⟨h1, h2, ⟨hv, h3⟩, ⟨fun o ho1 => fun h => ho' ⟨o, ho1, h⟩, ?_⟩, ⟨?_, h5⟩⟩
          · intro d' hd' o ho1; exact h4 d' hd' o (Or.inl ho1)
          · intro d' hd'; exact h4 d' hd' d (Or.inr (Or.inl rfl))
        · rintro ⟨h1, h2, ⟨_, h3⟩, ⟨_, h4⟩, ⟨h5, h6⟩⟩
          refine ⟨h1, h2, h3, ?_, h6⟩
          intro d' hd' o ho1
          rcases ho1 with ho1 | rfl | ho1
          · exact h4 d' hd' o ho1
          · exact h5 d' hd'
          · cases ho1
    · simp only [hv, Bool.not_false, if_true]
      constructor
      · intro h; cases h
      · rintro ⟨_, _, hval, _, _⟩
        exact absurd (hval d (by simp)) hv

/-- `MultiDomain::new` succeeds exactly on non-empty lists of valid domains no two of which
    overlap once ASCII case is ignored, and keeps them in the order given -/
theorem multiNew_ok (ds w : List Bytes) :
    multiNew ds = .ok w ↔
      w = ds ∧ ds ≠ [] ∧ (∀ d ∈ ds, isValidDomain d = true) ∧
      ds.Pairwise (fun a b => ¬ OverlapCI a b) := by
  unfold multiNew
  rw [multiNewLoop_ok]
  simp

theorem toAsciiLower_length (s : Bytes) : (toAsciiLower s).length = s.length := by
  simp [toAsciiLower]

theorem toAsciiLower_append (a b : Bytes) : toAsciiLower (a ++ b) = toAsciiLower a ++ toAsciiLower b := by
  simp [toAsciiLower]

theorem eqIgnoreAsciiCase_iff (a b : Bytes) : eqIgnoreAsciiCase a b = true ↔ toAsciiLower a = toAsciiLower b := by
  simp [eqIgnoreAsciiCase]

theorem stripSuffixIgnoreAsciiCase_some {s suf r : Bytes} (h : stripSuffixIgnoreAsciiCase s suf = some r) :
    ∃ t, s = r ++ t ∧ toAsciiLower t = toAsciiLower suf := by
  unfold stripSuffixIgnoreAsciiCase at h
  split at h
  · cases h
  · simp only at h
    split at h
    · cases h
    · split at h
      · rename_i heq
        injection h with h
        refine ⟨s.drop (s.length - suf.length), ?_, (eqIgnoreAsciiCase_iff _ _).mp heq⟩
        rw [← h, List.take_append_drop]
      · cases h

/-- a base domain that the host belongs to is, case ignored, a suffix of the host -/
theorem suffix_of_parseHostHeader {base host : Bytes} {vh : VirtualHost}
    (h : parseHostHeader base host = some vh) : toAsciiLower base <:+ toAsciiLower host := by
  unfold parseHostHeader at h
  by_cases he : eqIgnoreAsciiCase host base = true
  · rw [(eqIgnoreAsciiCase_iff _ _).mp he]; exact List.suffix_refl _
  · rw [if_neg he] at h
    cases hs : stripSuffixIgnoreAsciiCase host base with
    | none => rw [hs] at h; simp at h
    | some r =>
      obtain ⟨t, rfl, ht⟩ := stripSuffixIgnoreAsciiCase_some hs
      rw [toAsciiLower_append, ← ht]
      exact List.suffix_append _ _

theorem overlap_of_both_match {d1 d2 host : Bytes} {v1 v2 : VirtualHost}
    (h1 : parseHostHeader d1 host = some v1) (h2 : parseHostHeader d2 host = some v2) :
    OverlapCI d1 d2 := by
  have s1 := suffix_of_parseHostHeader h1
  have s2 := suffix_of_parseHostHeader h2
  by_cases hl : (toAsciiLower d1).length ≤ (toAsciiLower d2).length
  · exact Or.inl (List.suffix_of_suffix_length_le s1 s2 hl)
  · exact Or.inr (List.suffix_of_suffix_length_le s2 s1 (by omega))

theorem pairwise_forall {R : Bytes → Bytes → Prop} (hs : ∀ a b, R a b → R b a) {l : List Bytes}
    (hp : l.Pairwise R) {a b : Bytes} (ha : a ∈ l) (hb : b ∈ l) (hne : a ≠ b) : R a b := by
  induction l with
  | nil => cases ha
  | cons x xs ih =>
    rw [List.pairwise_cons] at hp
    rcases List.mem_cons.mp ha with rfl | ha'
    · rcases List.mem_cons.mp hb with rfl | hb'
      · exact absurd rfl hne
      · exact hp.1 b hb'
    · rcases List.mem_cons.mp hb with rfl | hb'
      · exact hs _ _ (hp.1 a ha')
      · exact ih hp.2 ha' hb'

/-- among domains that do not overlap even with case ignored, at most one matches a host -/
theorem unique_match {ds : List Bytes} (hp : ds.Pairwise (fun a b => ¬ OverlapCI a b))
    {d1 d2 host : Bytes} {v1 v2 : VirtualHost} (m1 : d1 ∈ ds) (m2 : d2 ∈ ds)
    (h1 : parseHostHeader d1 host = some v1) (h2 : parseHostHeader d2 host = some v2) : d1 = d2 := by
  by_cases he : d1 = d2
  · exact he
  · exact absurd (overlap_of_both_match h1 h2)
      (pairwise_forall (fun a b h hba => h (Overlap.symm hba)) hp m1 m2 he)

/-- the members of an accepted configuration do not overlap, ASCII case ignored -/
theorem pairwiseCI_of_accepted {ds v : List Bytes} (h : multiNew ds = .ok v) :
    v.Pairwise (fun a b => ¬ OverlapCI a b) := by
  obtain ⟨rfl, _, _, hp⟩ := (multiNew_ok ds v).mp h
  exact hp

/-- ASCII lower-casing keeps suffixes -/
theorem toAsciiLower_suffix {a b : Bytes} (h : a <:+ b) : toAsciiLower a <:+ toAsciiLower b := by
  obtain ⟨t, rfl⟩ := h
  rw [toAsciiLower_append]
  exact List.suffix_append _ _

/-- overlap as written is overlap with case ignored -/
theorem OverlapCI.of_overlap {a b : Bytes} (h : Overlap a b) : OverlapCI a b :=
  h.elim (fun h => Or.inl (toAsciiLower_suffix h)) (fun h => Or.inr (toAsciiLower_suffix h))

theorem firstMatch_some {ds : List Bytes} {host : Bytes} {vh : VirtualHost}
    (h : firstMatch ds host = some vh) : ∃ d ∈ ds, parseHostHeader d host = some vh := by
  induction ds with
  | nil => simp [firstMatch] at h
  | cons b bs ih =>
    unfold firstMatch at h
    cases hb : parseHostHeader b host with
    | some v => rw [hb] at h; injection h with h; exact ⟨b, by simp, by rw [hb, h]⟩
    | none =>
      rw [hb] at h
      obtain ⟨d, hd, hm⟩ := ih h
      exact ⟨d, by simp [hd], hm⟩

theorem firstMatch_none {ds : List Bytes} {host : Bytes} :
    firstMatch ds host = none ↔ ∀ d ∈ ds, parseHostHeader d host = none := by
  induction ds with
  | nil => simp [firstMatch]
  | cons b bs ih =>
    unfold firstMatch
    cases hb : parseHostHeader b host with
    | some v => simp [hb]
    | none => simp [hb, ih]

/-- with pairwise non-overlapping domains, the first match is *the* match -/
theorem firstMatch_eq_of_mem {ds : List Bytes} (hp : ds.Pairwise (fun a b => ¬ OverlapCI a b))
    {d host : Bytes} {vh : VirtualHost} (hd : d ∈ ds) (hm : parseHostHeader d host = some vh) :
    firstMatch ds host = some vh := by
  cases hf : firstMatch ds host with
  | none => rw [firstMatch_none.mp hf d hd] at hm; cases hm
  | some v =>
    obtain ⟨d', hd', hm'⟩ := firstMatch_some hf
    have := unique_match hp hd' hd hm' hm
    subst this
    rw [hm'] at hm; exact hm

/-- the answer of `MultiDomain::parse_host_header` does not depend on the order of the domains -/
theorem multiParse_perm {ds ds' : List Bytes} (hp : ds.Pairwise (fun a b => ¬ OverlapCI a b))
    (hperm : ds'.Perm ds) (host : Bytes) : multiParse ds' host = multiParse ds host := by
  have hp' : ds'.Pairwise (fun a b => ¬ OverlapCI a b) :=
    (hperm.pairwise_iff (fun h hba => h (Overlap.symm hba))).mpr hp
  unfold multiParse
  cases hf : firstMatch ds host with
  | none =>
    have : firstMatch ds' host = none :=
      firstMatch_none.mpr fun d hd => firstMatch_none.mp hf d (hperm.subset hd)
    rw [this]
  | some v =>
    obtain ⟨d, hd, hm⟩ := firstMatch_some hf
    rw [firstMatch_eq_of_mem hp' (hperm.symm.subset hd) hm]

/-! ## a host outside the base domains: the port of the `Host` value is no part of the bucket -/

/-- `host` is not base domain `d` and not a sub-domain of it, ASCII case ignored -/
def Outside (d host : Bytes) : Prop :=
  toAsciiLower host ≠ toAsciiLower d ∧ ¬ (dot :: toAsciiLower d) <:+ toAsciiLower host

/-- a host name: labels of ASCII letters, digits and `-`, none empty, separated by `.` -/
def HostName (h : Bytes) : Prop := (splitAll dot h).all labelOk = true

/-- a decimal port: one or more ASCII digits, value at most 65535 -/
def DecimalPort (p : Bytes) : Prop := p ≠ [] ∧ p.all isDigit = true ∧ decVal p ≤ 65535

instance (d host : Bytes) : Decidable (Outside d host) := by unfold Outside; infer_instance
instance (h : Bytes) : Decidable (HostName h) := by unfold HostName; infer_instance
instance (p : Bytes) : Decidable (DecimalPort p) := by unfold DecimalPort; infer_instance

theorem splitOnce_append {c : UInt8} {h : Bytes} (hc : c ∉ h) (r : Bytes) :
    splitOnce c (h ++ c :: r) = some (h, r) := by
  induction h with
  | nil => simp [splitOnce]
  | cons x xs ih =>
    have hx : x ≠ c := fun e => hc (by simp [e])
    have hxs : c ∉ xs := fun e => hc (by simp [e])
    simp [splitOnce, hx, ih hxs]

theorem splitOnce_none {c : UInt8} {h : Bytes} (hc : c ∉ h) : splitOnce c h = none := by
  induction h with
  | nil => rfl
  | cons x xs ih =>
    have hx : x ≠ c := fun e => hc (by simp [e])
    have hxs : c ∉ xs := fun e => hc (by simp [e])
    simp [splitOnce, hx, ih hxs]

/-- every byte of a text is the separator or lies in one of the parts -/
theorem mem_splitAll (c : UInt8) (h : Bytes) : ∀ x ∈ h, x = c ∨ ∃ p ∈ splitAll c h, x ∈ p := by
  induction h with
  | nil => intro x hx; cases hx
  | cons y r ih =>
    intro x hx
    unfold splitAll
    by_cases hy : y = c
    · rw [if_pos hy]
      rcases List.mem_cons.mp hx with rfl | hx
      · exact Or.inl hy
      · rcases ih x hx with h1 | ⟨p, hp, hxp⟩
        · exact Or.inl h1
        · exact Or.inr ⟨p, List.mem_cons_of_mem _ hp, hxp⟩
    · rw [if_neg hy]
      rcases List.mem_cons.mp hx with rfl | hx
      · right
        cases hs : splitAll c r with
        | nil => exact ⟨[x], by simp, by simp⟩
        | cons q qs => exact ⟨x :: q, by simp, by simp⟩
      · rcases ih x hx with h1 | ⟨p, hp, hxp⟩
        · exact Or.inl h1
        · right
          cases hs : splitAll c r with
          | nil => rw [hs] at hp; cases hp
          | cons q qs =>
            rw [hs] at hp
            rcases List.mem_cons.mp hp with rfl | hp
            · exact ⟨y :: p, by simp, by simp [hxp]⟩
            · exact ⟨p, by simp [hp], hxp⟩

/-- a host name holds no `:` -/
theorem HostName.no_colon {h : Bytes} (hn : HostName h) : colon ∉ h := by
  intro hc
  rcases mem_splitAll dot h colon hc with h1 | ⟨p, hp, hcp⟩
  · exact absurd h1 (by decide)
  · have h2 := List.all_eq_true.mp hn p hp
    unfold labelOk at h2
    rw [Bool.and_eq_true] at h2
    have h3 := List.all_eq_true.mp h2.2 colon hcp
    exact absurd h3 (by decide)

theorem HostName.ne_nil {h : Bytes} (hn : HostName h) : h ≠ [] := by
  rintro rfl
  exact absurd hn (by decide)

/-- `name:port` is a valid domain for `is_valid_domain` -/
theorem isValidDomain_name_port {h p : Bytes} (hn : HostName h) (hp : DecimalPort p) :
    isValidDomain (h ++ colon :: p) = true := by
  obtain ⟨hp0, hpd, hpv⟩ := hp
  unfold isValidDomain
  rw [splitOnce_append hn.no_colon]
  have hu : parseU16Ok p = true := by
    cases p with
    | nil => exact absurd rfl hp0
    | cons c r =>
      have hc : c ≠ 43 := by
        intro e
        have := List.all_eq_true.mp hpd c (by simp)
        rw [e] at this
        exact absurd this (by decide)
      simp only [parseU16Ok, if_neg hc, hpd, List.isEmpty_cons, Bool.not_false, Bool.true_and,
        decide_eq_true_eq]
      exact hpv
  have he : (h ++ colon :: p).isEmpty = false := by cases h <;> rfl
  have hpe : p.isEmpty = false := by cases p with | nil => exact absurd rfl hp0 | cons _ _ => rfl
  simp only [he, hpe, hpd, hu]
  exact hn

/-- a port-free host name is a valid domain too -/
theorem isValidDomain_name {h : Bytes} (hn : HostName h) : isValidDomain h = true := by
  unfold isValidDomain
  rw [splitOnce_none hn.no_colon]
  have he : h.isEmpty = false := by
    cases h with | nil => exact absurd rfl hn.ne_nil | cons _ _ => rfl
  simp only [he]
  exact hn

/-- `bucket_of_host("name:port")` is `name` in lower case — whatever stands after the first `:` -/
theorem bucketOfHost_name_port {h : Bytes} (hc : colon ∉ h) (p : Bytes) :
    bucketOfHost (h ++ colon :: p) = toAsciiLower h := by
  simp [bucketOfHost, splitOnce_append hc]

theorem bucketOfHost_name {h : Bytes} (hc : colon ∉ h) : bucketOfHost h = toAsciiLower h := by
  simp [bucketOfHost, splitOnce_none hc]

/-- the bucket derived from a host never holds a `:` -/
theorem bucketOfHost_no_colon (host : Bytes) : colon ∉ bucketOfHost host := by
  have hl : ∀ s : Bytes, colon ∉ s → colon ∉ toAsciiLower s := by
    intro s hs hc
    obtain ⟨c, hcs, he⟩ := List.mem_map.mp hc
    by_cases hu : (65 ≤ c.toNat && c.toNat ≤ 90) = true
    · rw [if_pos hu] at he
      simp only [Bool.and_eq_true, decide_eq_true_eq] at hu
      have h1 : (c + 32).toNat = 58 := by rw [he]; rfl
      rw [UInt8.toNat_add] at h1
      have h2 : (32 : UInt8).toNat = 32 := rfl
      omega
    · rw [if_neg hu] at he
      exact hs (he ▸ hcs)
  have hs : ∀ (s a b : Bytes), splitOnce colon s = some (a, b) → colon ∉ a := by
    intro s
    induction s with
    | nil => intro a b h; cases h
    | cons x r ih =>
      intro a b h
      unfold splitOnce at h
      by_cases hx : x = colon
      · rw [if_pos hx] at h; injection h with h; injection h with h1 _; rw [← h1]; simp
      · rw [if_neg hx] at h
        cases hr : splitOnce colon r with
        | none => rw [hr] at h; cases h
        | some ab =>
          obtain ⟨a', b'⟩ := ab
          rw [hr] at h; injection h with h; injection h with h1 _
          rw [← h1]
          intro hm
          rcases List.mem_cons.mp hm with e | hm
          · exact hx e.symm
          · exact ih a' b' hr hm
  have hn : ∀ s : Bytes, splitOnce colon s = none → colon ∉ s := by
    intro s
    induction s with
    | nil => intro _ h; cases h
    | cons x r ih =>
      intro h
      unfold splitOnce at h
      by_cases hx : x = colon
      · rw [if_pos hx] at h; cases h
      · rw [if_neg hx] at h
        cases hr : splitOnce colon r with
        | some ab => rw [hr] at h; cases h
        | none =>
          intro hm
          rcases List.mem_cons.mp hm with e | hm
          · exact hx e.symm
          · exact ih hr hm
  unfold bucketOfHost
  cases h : splitOnce colon host with
  | none => exact hl _ (hn host h)
  | some ab => obtain ⟨a, b⟩ := ab; exact hl _ (hs host a b h)

/-- whatever `parse_host_header(d, host)` answers, the host is `d` or ends with `.d`, case ignored -/
theorem member_of_parseHostHeader {d host : Bytes} {vh : VirtualHost}
    (h : parseHostHeader d host = some vh) :
    toAsciiLower host = toAsciiLower d ∨ (dot :: toAsciiLower d) <:+ toAsciiLower host := by
  unfold parseHostHeader at h
  by_cases he : eqIgnoreAsciiCase host d = true
  · exact Or.inl ((eqIgnoreAsciiCase_iff _ _).mp he)
  · rw [if_neg he] at h
    right
    cases hs : stripSuffixIgnoreAsciiCase host d with
    | none => rw [hs] at h; simp at h
    | some r =>
      obtain ⟨t, rfl, ht⟩ := stripSuffixIgnoreAsciiCase_some hs
      rw [hs] at h
      simp only [Option.bind_some] at h
      unfold stripSuffix at h
      by_cases hd : ([dot] : Bytes).isSuffixOf r = true
      · obtain ⟨r', hr'⟩ := List.isSuffixOf_iff_suffix.mp hd
        rw [← hr', toAsciiLower_append, toAsciiLower_append, ht, List.append_assoc]
        exact List.suffix_append _ _
      · rw [if_neg hd] at h; simp at h

/-- a host outside base domain `d` is not matched by it -/
theorem parseHostHeader_none_of_outside {d host : Bytes} (ho : Outside d host) :
    parseHostHeader d host = none := by
  cases h : parseHostHeader d host with
  | none => rfl
  | some vh =>
    rcases member_of_parseHostHeader h with h1 | h1
    · exact absurd h1 ho.1
    · exact absurd h1 ho.2

/-- `SingleDomain`: `name:port` outside the base domain names the bucket `name` -/
theorem singleParse_name_port {d h p : Bytes} (hn : HostName h) (hp : DecimalPort p)
    (ho : Outside d (h ++ colon :: p)) :
    singleParse d (h ++ colon :: p) = some ⟨h ++ colon :: p, some (toAsciiLower h)⟩ := by
  simp [singleParse, parseHostHeader_none_of_outside ho, fallback, isValidDomain_name_port hn hp,
    bucketOfHost_name_port hn.no_colon]

/-- `MultiDomain`: `name:port` outside every base domain names the bucket `name` -/
theorem multiParse_name_port {ds : List Bytes} {h p : Bytes} (hn : HostName h) (hp : DecimalPort p)
    (ho : ∀ d ∈ ds, Outside d (h ++ colon :: p)) :
    multiParse ds (h ++ colon :: p) = some ⟨h ++ colon :: p, some (toAsciiLower h)⟩ := by
  have hf : firstMatch ds (h ++ colon :: p) = none :=
    firstMatch_none.mpr fun d hd => parseHostHeader_none_of_outside (ho d hd)
  simp [multiParse, hf, fallback, isValidDomain_name_port hn hp, bucketOfHost_name_port hn.no_colon]

/-- the same host without a port names the same bucket -/
theorem singleParse_name {d h : Bytes} (hn : HostName h) (ho : Outside d h) :
    singleParse d h = some ⟨h, some (toAsciiLower h)⟩ := by
  simp [singleParse, parseHostHeader_none_of_outside ho, fallback, isValidDomain_name hn,
    bucketOfHost_name hn.no_colon]

theorem multiParse_name {ds : List Bytes} {h : Bytes} (hn : HostName h) (ho : ∀ d ∈ ds, Outside d h) :
    multiParse ds h = some ⟨h, some (toAsciiLower h)⟩ := by
  have hf : firstMatch ds h = none :=
    firstMatch_none.mpr fun d hd => parseHostHeader_none_of_outside (ho d hd)
  simp [multiParse, hf, fallback, isValidDomain_name hn, bucketOfHost_name hn.no_colon]

end S3V.Host
