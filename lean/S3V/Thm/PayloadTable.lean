import S3V.Gen.Payloads
import S3V.Thm.HttpBody
import S3V.Thm.XmlRoundtrip
/-!
# Lemmas: the per-operation body table (`Gen/Payloads.lean`) against the Smithy model, and the body helpers over
any XML type

Shared by `Props/C02Payload.lean` (request body) and `Props/C03Payload.lean` (response body).
-/
namespace S3V.PayloadTable
open S3V S3V.Gen S3V.Xml S3V.XmlGen S3V.HttpBody

/-- does a body statement of the generated code fit what the Smithy model binds to the body?
* an XML payload member: the Rust type is the one named like the member's target shape, and the member is taken
  with `take_opt_xml_body` / written under `if let Some` exactly when Smithy does not mark it `required`;
* a structure that is itself the body: the type that carries its body members (`take_xml_body`, always required, on
  the input side; `set_xml_body(&x)` on the output side);
* a string payload: the raw body as text, optional exactly when not `required`;
* a streaming blob: the raw body; a streaming union: the event stream. -/
def bodyMatch : BodyImpl → BodySmithy → Bool
  | .xml ty o, .xml ty' _ req => ty == ty' && o == !req
  | .xml ty o, .xmlSelf ty' _ => ty == ty' && o == false
  | .xmlSelf ty _, .xmlSelf ty' _ => ty == ty'
  | .text o, .text req => o == !req
  | .stream, .blob streaming => streaming
  | .eventStream, .eventStream => true
  | _, _ => false

/-- the body rows of the code and of the model: both empty, or one row each, for the same member, fitting -/
def rowsMatch : List BodyRow → List SmithyBodyRow → Bool
  | [], [] => true
  | [r], [s] => r.member == s.member && bodyMatch r.body s.body
  | _, _ => false

/-- the root element name the model prescribes for the XML body of an operation, if it has one -/
def smithyRootOf : List SmithyBodyRow → Option Bytes
  | [s] => match s.body with
    | .xml _ root _ => some root
    | .xmlSelf _ root => some root
    | _ => none
  | _ => none

/-- the member names of the rows bound to the payload in the binding table of C02 / C03 (`Gen/Bindings.lean`) -/
def payloadMembers (bs : List Binding) : List (List UInt8) :=
  (bs.filter fun b => b.loc == .payload || b.loc == .bodySelf).map (·.member)

/-- the XML body statement of a `serialize_http`: the type written and whether the XML declaration goes in front
    (`set_xml_body` on a payload member or on the output itself: yes; `set_xml_body_no_decl`: no) -/
def _root_.S3V.Gen.BodyImpl.xmlOut : BodyImpl → Option (Ty × Bool)
  | .xml ty _ => some (ty, true)
  | .xmlSelf ty decl => some (ty, decl)
  | _ => none

/-- the values a root can carry (normal form): under a generated root every value of the schema in normal form; the
    hand-written `GetBucketLocationOutput` root carries `None` or a non-empty constraint (`Some("")` is written like
    `None`) -/
def FitsDoc (X : Ext) : SerRoot → Sch → Val → Prop
  | .location _ _, _, v => v = .struct [.absent] ∨ ∃ b : Bytes, b ≠ [] ∧ utf8Valid b = true ∧ v = .struct [.one (.str b)]
  | _, s, v => Fits X s v

theorem rows_of_match {rs : List BodyRow} {ss : List SmithyBodyRow} (h : rowsMatch rs ss = true) :
    (rs = [] ∧ ss = []) ∨ ∃ r s, rs = [r] ∧ ss = [s] ∧ r.member = s.member ∧ bodyMatch r.body s.body = true := by
  match rs, ss, h with
  | [], [], _ => exact Or.inl ⟨rfl, rfl⟩
  | [r], [s], h =>
    simp only [rowsMatch, Bool.and_eq_true, beq_iff_eq] at h
    exact Or.inr ⟨r, s, rfl, rfl, h.1, h.2⟩

/-- at most one body row -/
theorem length_le_one_of_match {rs : List BodyRow} {ss : List SmithyBodyRow} (h : rowsMatch rs ss = true) :
    rs.length ≤ 1 ∧ rs.length = ss.length := by
  rcases rows_of_match h with ⟨h1, h2⟩ | ⟨r, s, h1, h2, _⟩ <;> simp [h1, h2]

/-- **the request side of an XML body, any type**: given that the deserialiser of the type reads back what a
    conforming encoder writes as events (`hdoc`, C13) and that the element names are plain (C13), `take_xml_body` and
    `take_opt_xml_body` applied to the BYTES of the document — with or without an XML declaration in front, whatever
    namespace the root declares — yield the value; and the empty body is the absent optional member. -/
theorem take_xml_body_roundtrip (X : Ext) (root : Bytes) (sd ss : Sch) (hg : goodName root = true)
    (hsg : ss.tagsGood = true) (v : Val)
    (hdoc : ∀ ns, decodeDoc X (.named root) sd (encodeDoc (.named root ns) ss v) = .ok v)
    (decl : Bool) (ns : Option Bytes) :
    takeXmlBody X (.named root) sd (setXmlBody decl (.named root ns) ss v) = .ok v ∧
    takeOptXmlBody X (.named root) sd (setXmlBody decl (.named root ns) ss v) = .ok (some v) := by
  have hne := setXmlBody_ne_nil decl (.named root ns) ss v
  have hev := deEvents_setXmlBody decl (.named root ns) ss v (by simpa [SerRoot.tagsGood] using hg) hsg
  have hd : deserializeXml X (.named root) sd (setXmlBody decl (.named root ns) ss v) = .ok v :=
    deserializeXml_of_decodeDoc (by rw [hev]; exact hdoc ns)
  exact ⟨by rw [takeXmlBody_of_ne_nil hne]; exact hd, takeOptXmlBody_of_ok hne hd⟩

/-- **the response side of an XML body, any type and any root kind**: a client that runs the document decoder of the
    type over the BYTES `set_xml_body` / `set_xml_body_no_decl` put into the response gets the value, given the
    round trip on events -/
theorem set_xml_body_roundtrip (X : Ext) (root : SerRoot) (ss : Sch) (hg : root.tagsGood = true)
    (hsg : ss.tagsGood = true) (v : Val)
    (hdoc : decodeDoc X root.forget ss (encodeDoc root ss v) = .ok v) (decl : Bool) :
    deserializeXml X root.forget ss (setXmlBody decl root ss v) = .ok v :=
  deserializeXml_of_decodeDoc (by rw [deEvents_setXmlBody decl root ss v hg hsg]; exact hdoc)

end S3V.PayloadTable
