import S3V.Thm.DtoTimestampText
import S3V.Thm.DtoCivil
import S3V.Spec.Dto
/-! # Timestamp theorems (C14): round trips of the text forms, instant preservation -/
namespace S3V.Dto

theorem daysInMonth_le_31 (y : Int) (m : Nat) : daysInMonth y m ≤ 31 := by
  unfold daysInMonth; split
  · split <;> omega
  · split <;> omega

/-- the UTC year of an instant, by range of the instant: years 0000 … 9999 are exactly the seconds
    −62167219200 … 253402300799; the range of `time` (−9999 … 9999) is `unixMin … unixMax` -/
theorem utcYear_of_range (unix : Int) :
    (-62167219200 ≤ unix → unix ≤ 253402300799 → 0 ≤ (utcFields unix).1 ∧ (utcFields unix).1 ≤ 9999) ∧
    (unix < -62167219200 → (utcFields unix).1 < 0) ∧
    (253402300799 < unix → 9999 < (utcFields unix).1) ∧
    (unixMin ≤ unix → unix ≤ unixMax → -9999 ≤ (utcFields unix).1 ∧ (utcFields unix).1 ≤ 9999) := by
  obtain ⟨hz, hm1, hm2, hd1, hd2⟩ := civil_days_civil (unix / 86400)
  have hd31 : (civilFromDays (unix / 86400)).2.2 ≤ 31 := by
    have := daysInMonth_le_31 (civilFromDays (unix / 86400)).1 (civilFromDays (unix / 86400)).2.1
    omega
  have hy : (utcFields unix).1 = (civilFromDays (unix / 86400)).1 := rfl
  rw [hy]
  refine ⟨fun h1 h2 => ⟨?_, ?_⟩, fun h => ?_, fun h => ?_, fun h1 h2 => ⟨?_, ?_⟩⟩
  · by_cases hlt : (civilFromDays (unix / 86400)).1 ≤ -1
    · have := daysFromCivil_le_of_year_le_neg1 _ _ _ hlt hm1 hm2 hd1 hd31
      omega
    · omega
  · by_cases hgt : 10000 ≤ (civilFromDays (unix / 86400)).1
    · have := daysFromCivil_ge_of_year_ge _ _ _ hgt hm1 hm2 hd1 hd31
      omega
    · omega
  · by_cases hge : 0 ≤ (civilFromDays (unix / 86400)).1
    · have := daysFromCivil_ge_of_year_ge_zero _ _ _ hge hm1 hm2 hd1
      omega
    · omega
  · by_cases hle : (civilFromDays (unix / 86400)).1 ≤ 9999
    · have := daysFromCivil_le_of_year_le_9999 _ _ _ hle hm1 hm2 hd1 hd31
      omega
    · omega
  · unfold unixMin at h1
    by_cases hlt : (civilFromDays (unix / 86400)).1 ≤ -10000
    · have := daysFromCivil_le_of_year_le_neg10000 _ _ _ hlt hm1 hm2 hd1 hd31
      omega
    · omega
  · unfold unixMax at h2
    by_cases hgt : 10000 ≤ (civilFromDays (unix / 86400)).1
    · have := daysFromCivil_ge_of_year_ge _ _ _ hgt hm1 hm2 hd1 hd31
      omega
    · omega

/-- the UTC fields of an instant of the years 0000 … 9999 are a valid date-time that denotes it -/
theorem utcFields_facts (unix : Int) (h1 : -62167219200 ≤ unix) (h2 : unix ≤ 253402300799) :
    ∃ (y : Int) (m d sod : Nat), utcFields unix = (y, m, d, sod) ∧
      0 ≤ y ∧ y ≤ 9999 ∧ 1 ≤ m ∧ m ≤ 12 ∧ 1 ≤ d ∧ d ≤ daysInMonth y m ∧ sod < 86400 ∧
      daysFromCivil y m d * 86400 + (sod : Int) = unix ∧ daysFromCivil y m d = unix / 86400 := by
  obtain ⟨hz, hm1, hm2, hd1, hd2⟩ := civil_days_civil (unix / 86400)
  obtain ⟨hy1, hy2⟩ := (utcYear_of_range unix).1 h1 h2
  exact ⟨(civilFromDays (unix / 86400)).1, (civilFromDays (unix / 86400)).2.1, (civilFromDays (unix / 86400)).2.2,
    (unix % 86400).toNat, rfl, hy1, hy2, hm1, hm2, hd1, hd2, by omega, by rw [hz]; omega, hz⟩

/-- `checked_to_offset(UTC)` succeeds on every instant `time` can hold in UTC -/
theorem toUtc_isSome_of_range (t : Ts) (h1 : unixMin ≤ t.unix) (h2 : t.unix ≤ unixMax) : ∃ f, toUtc t = some f := by
  obtain ⟨hy1, hy2⟩ := (utcYear_of_range t.unix).2.2.2 h1 h2
  refine ⟨utcFields t.unix, ?_⟩
  unfold toUtc
  simp only [Bool.and_eq_true, decide_eq_true_eq, hy1, hy2, and_self, if_true]

/-- **the year check of the `DateTime` arm** (code since b7ef08a), as a range of instants: a text `time` parses is
    accepted exactly when its instant lies in the years 0000 … 9999 of UTC -/
theorem parseRfc3339_of_time {e : Bytes} {t : Ts} (h : parseRfc3339Time e = some t) :
    parseRfc3339 e = if -62167219200 ≤ t.unix ∧ t.unix ≤ 253402300799 then some t else none := by
  obtain ⟨hin, hlow, hhigh, _⟩ := utcYear_of_range t.unix
  unfold parseRfc3339 toUtc
  simp only [h]
  by_cases hr : -62167219200 ≤ t.unix ∧ t.unix ≤ 253402300799
  · obtain ⟨hy1, hy2⟩ := hin hr.1 hr.2
    have c1 : (decide (-9999 ≤ (utcFields t.unix).1) && decide ((utcFields t.unix).1 ≤ 9999)) = true := by
      simp only [Bool.and_eq_true, decide_eq_true_eq]; omega
    have c2 : (decide (0 ≤ (utcFields t.unix).1) && decide ((utcFields t.unix).1 ≤ 9999)) = true := by
      simp only [Bool.and_eq_true, decide_eq_true_eq]; omega
    simp only [c1, if_true, c2, if_pos hr]
  · rw [if_neg hr]
    have hbad : (decide (0 ≤ (utcFields t.unix).1) && decide ((utcFields t.unix).1 ≤ 9999)) = false := by
      by_cases hl : t.unix < -62167219200
      · have := hlow hl
        simp only [Bool.and_eq_false_iff, decide_eq_false_iff_not]; omega
      · have := hhigh (by omega)
        simp only [Bool.and_eq_false_iff, decide_eq_false_iff_not]; omega
    split
    · rename_i y a b c heq
      split at heq
      · injection heq with heq
        have : y = (utcFields t.unix).1 := by rw [heq]
        subst this
        simp only [hbad, Bool.false_eq_true, if_false]
      · cases heq
    · rfl

/-- what is accepted is what `time` parsed, and its instant lies in the years 0000 … 9999 of UTC -/
theorem parseRfc3339_some {e : Bytes} {t : Ts} (h : parseRfc3339 e = some t) :
    parseRfc3339Time e = some t ∧ -62167219200 ≤ t.unix ∧ t.unix ≤ 253402300799 := by
  cases ht : parseRfc3339Time e with
  | none => simp [parseRfc3339, ht] at h
  | some t' =>
    rw [parseRfc3339_of_time ht] at h
    split at h
    · rename_i hr
      injection h with h
      subst h
      exact ⟨rfl, hr⟩
    · cases h

theorem validFields_of (y : Int) (m d sod : Nat) (hy1 : -9999 ≤ y) (hy2 : y ≤ 9999) (hm1 : 1 ≤ m) (hm2 : m ≤ 12)
    (hd1 : 1 ≤ d) (hd2 : d ≤ daysInMonth y m) (hs : sod < 86400) :
    validFields y m d (sod / 3600) (sod / 60 % 60) (sod % 60) = true := by
  simp only [validFields, Bool.and_eq_true, decide_eq_true_eq]
  omega

theorem localSeconds_sod (y : Int) (m d sod : Nat) (hs : sod < 86400) :
    localSeconds y m d (sod / 3600) (sod / 60 % 60) (sod % 60) = daysFromCivil y m d * 86400 + (sod : Int) := by
  unfold localSeconds
  have : sod / 3600 * 3600 + sod / 60 % 60 * 60 + sod % 60 = sod := by omega
  rw [this]

/-- text of `formatDateTime` for an instant of the years 0000 … 9999, in right-nested form -/
theorem formatDateTime_eq (t : Ts) (y : Int) (m d sod : Nat) (hf : utcFields t.unix = (y, m, d, sod))
    (hy1 : 0 ≤ y) (hy2 : y ≤ 9999) :
    formatDateTime t = some (pad4 y.natAbs ++ 45 :: (pad2 m ++ 45 :: (pad2 d ++ 84 :: (pad2 (sod / 3600) ++ 58 ::
      (pad2 (sod / 60 % 60) ++ 58 :: (pad2 (sod % 60) ++ 46 :: (pad3 (t.nanos / 1000000) ++ [90]))))))) := by
  have hr : (decide (-9999 ≤ y) && decide (y ≤ 9999)) = true := by simp; omega
  have hneg : ¬ y < 0 := by omega
  simp only [formatDateTime, toUtc, hf, hr, if_true, fmtYear, hneg, if_false, fmtHms, List.nil_append,
    List.append_assoc, List.cons_append]

theorem datetime_roundtrip (t : Ts) (h1 : -62167219200 ≤ t.unix) (h2 : t.unix ≤ 253402300799)
    (hn : t.nanos < 1000000000) :
    ∃ txt, formatDateTime t = some txt ∧
      parseRfc3339 txt = some ⟨t.unix, t.nanos / 1000000 * 1000000, 0⟩ := by
  obtain ⟨y, m, d, sod, hf, hy1, hy2, hm1, hm2, hd1, hd2, hs, hden, _⟩ := utcFields_facts t.unix h1 h2
  refine ⟨_, formatDateTime_eq t y m d sod hf hy1 hy2, ?_⟩
  have hd31 : d ≤ 31 := by
    have : daysInMonth y m ≤ 31 := by
      unfold daysInMonth; split
      · split <;> omega
      · split <;> omega
    omega
  have hya : ((y.natAbs : Nat) : Int) = y := by omega
  have htime := parse_canonical y.natAbs m d (sod / 3600) (sod / 60 % 60) (sod % 60) 84
    (46 :: (pad3 (t.nanos / 1000000) ++ [90])) [90]
    (t.nanos / 1000000 * 1000000) 0 (by omega) (by omega) (by omega) (by omega) (by omega) (by omega)
    (parseSubsec_pad3 _ (by omega) 90 (by decide) []) parseOffset_Z
  rw [hya, validFields_of y m d sod (by omega) hy2 hm1 hm2 hd1 hd2 hs, if_pos rfl, localSeconds_sod _ _ _ _ hs, hden,
    Int.sub_zero] at htime
  rw [parseRfc3339_of_time htime]
  exact if_pos ⟨h1, h2⟩



theorem stripPrefix_append (p rest : Bytes) : stripPrefix p (p ++ rest) = some rest := by
  induction p with
  | nil => simp [stripPrefix]
  | cons a p ih => simp [stripPrefix, ih]

theorem firstMatch_weekday (i : Nat) (hi : i < 7) (rest : Bytes) :
    firstMatch weekdayNames (weekdayNames.getD i [] ++ rest) 0 = some (i, rest) := by
  have : i = 0 ∨ i = 1 ∨ i = 2 ∨ i = 3 ∨ i = 4 ∨ i = 5 ∨ i = 6 := by omega
  rcases this with rfl | rfl | rfl | rfl | rfl | rfl | rfl <;>
    simp [weekdayNames, firstMatch, stripPrefix]

theorem firstMatch_month (i : Nat) (hi : i < 12) (rest : Bytes) :
    firstMatch monthNames (monthNames.getD i [] ++ rest) 0 = some (i, rest) := by
  have : i = 0 ∨ i = 1 ∨ i = 2 ∨ i = 3 ∨ i = 4 ∨ i = 5 ∨ i = 6 ∨ i = 7 ∨ i = 8 ∨ i = 9 ∨ i = 10 ∨ i = 11 := by omega
  rcases this with rfl | rfl | rfl | rfl | rfl | rfl | rfl | rfl | rfl | rfl | rfl | rfl <;>
    simp [monthNames, firstMatch, stripPrefix]



theorem digitChar_ne (k : Nat) (hk : k < 10) (c : UInt8) (hc : c.toNat < 48) : digitChar k ≠ c := by
  intro h
  have := congrArg UInt8.toNat h
  rw [digitChar_toNat hk] at this
  omega

theorem parseYearSigned_pad4 (Y : Nat) (hY : Y < 10000) (rest : Bytes) :
    parseYearSigned (pad4 Y ++ rest) = some ((Y : Int), rest) := by
  have h := exactlyDigits_pad4 Y hY rest
  have h43 := digitChar_ne (Y / 1000 % 10) (by omega) 43 (by decide)
  have h45 := digitChar_ne (Y / 1000 % 10) (by omega) 45 (by decide)
  simp only [pad4, List.cons_append, List.nil_append] at h ⊢
  unfold parseYearSigned
  simp only [h43, h45, Bool.or_self, Bool.false_eq_true, if_false, decide_false, h, bind, Option.bind]

theorem parse_http_canonical (wd mi Y d H Mi S : Nat) (hwd : wd < 7) (hmi : mi < 12) (hY : Y < 10000) (hd : d < 100)
    (hH : H < 100) (hMi : Mi < 100) (hS : S < 100) :
    parseHttpDate (weekdayNames.getD wd [] ++ 44 :: 32 :: (pad2 d ++ 32 :: (monthNames.getD mi [] ++ 32 ::
      (pad4 Y ++ 32 :: (pad2 H ++ 58 :: (pad2 Mi ++ 58 :: (pad2 S ++ gmtSuffix))))))) =
      if validFields Y (mi + 1) d H Mi S then some ⟨localSeconds Y (mi + 1) d H Mi S, 0, 0⟩ else none := by
  unfold parseHttpDate
  have hsp : ∀ r : Bytes, stripPrefix [44, 32] (44 :: 32 :: r) = some r := by intro r; simp [stripPrefix]
  have hg : stripPrefix gmtSuffix gmtSuffix = some [] := by decide
  have hS' : exactlyDigits 2 (pad2 S ++ gmtSuffix) 0 = some (S, gmtSuffix) := exactlyDigits_pad2 S hS _
  simp only [firstMatch_weekday wd hwd, firstMatch_month mi hmi, hsp, exactlyDigits_pad2 d hd, exactlyDigits_pad2 H hH,
    exactlyDigits_pad2 Mi hMi, hS', parseYearSigned_pad4 Y hY, expectChar_cons, hg, bind, Option.bind]
  cases validFields (↑Y) (mi + 1) d H Mi S <;> simp



theorem formatHttpDate_eq (t : Ts) (y : Int) (m d sod : Nat) (hf : utcFields t.unix = (y, m, d, sod))
    (hy1 : 0 ≤ y) (hy2 : y ≤ 9999) :
    formatHttpDate t = some (weekdayNames.getD (weekdayOfDays (t.unix / 86400)) [] ++ 44 :: 32 :: (pad2 d ++ 32 ::
      (monthNames.getD (m - 1) [] ++ 32 :: (pad4 y.natAbs ++ 32 :: (pad2 (sod / 3600) ++ 58 ::
      (pad2 (sod / 60 % 60) ++ 58 :: (pad2 (sod % 60) ++ gmtSuffix))))))) := by
  have hr : (decide (-9999 ≤ y) && decide (y ≤ 9999)) = true := by simp; omega
  have hneg : ¬ y < 0 := by omega
  simp only [formatHttpDate, toUtc, hf, hr, if_true, fmtYear, hneg, if_false, fmtHms, List.nil_append,
    List.append_assoc, List.cons_append]

theorem httpdate_roundtrip (t : Ts) (h1 : -62167219200 ≤ t.unix) (h2 : t.unix ≤ 253402300799) :
    ∃ txt, formatHttpDate t = some txt ∧ parseHttpDate txt = some ⟨t.unix, 0, 0⟩ := by
  obtain ⟨y, m, d, sod, hf, hy1, hy2, hm1, hm2, hd1, hd2, hs, hden, _⟩ := utcFields_facts t.unix h1 h2
  refine ⟨_, formatHttpDate_eq t y m d sod hf hy1 hy2, ?_⟩
  have hd31 : d ≤ 31 := by
    have : daysInMonth y m ≤ 31 := by
      unfold daysInMonth; split
      · split <;> omega
      · split <;> omega
    omega
  have hwd : weekdayOfDays (t.unix / 86400) < 7 := by unfold weekdayOfDays; omega
  rw [parse_http_canonical _ (m - 1) y.natAbs d (sod / 3600) (sod / 60 % 60) (sod % 60) hwd (by omega) (by omega)
    (by omega) (by omega) (by omega) (by omega)]
  have hya : ((y.natAbs : Nat) : Int) = y := by omega
  have hm : m - 1 + 1 = m := by omega
  rw [hya, hm, validFields_of y m d sod (by omega) hy2 hm1 hm2 hd1 hd2 hs, if_pos rfl, localSeconds_sod _ _ _ _ hs, hden]


open S3V.DtoSpec


theorem daysFromCivil_eq_specDays (y m d : Nat) (hy : 1 ≤ y) (hm1 : 1 ≤ m) (hm2 : m ≤ 12) (hd : 1 ≤ d) :
    daysFromCivil (y : Int) m d = specDays y m d := by
  have h4 : (leapYear y = true) ↔ (y % 4 = 0 ∧ (y % 100 ≠ 0 ∨ y % 400 = 0)) := by
    simp [leapYear]
  have hm : m = 1 ∨ m = 2 ∨ m = 3 ∨ m = 4 ∨ m = 5 ∨ m = 6 ∨ m = 7 ∨ m = 8 ∨ m = 9 ∨ m = 10 ∨ m = 11 ∨ m = 12 := by omega
  unfold daysFromCivil encDoe specDays daysBeforeYear
  by_cases hl : leapYear y = true
  · have := h4.mp hl
    rcases hm with rfl | rfl | rfl | rfl | rfl | rfl | rfl | rfl | rfl | rfl | rfl | rfl <;>
      simp [daysBeforeMonth, monthLength, hl] <;> omega
  · have := mt h4.mpr hl
    rcases hm with rfl | rfl | rfl | rfl | rfl | rfl | rfl | rfl | rfl | rfl | rfl | rfl <;>
      simp [daysBeforeMonth, monthLength, hl] <;> omega

theorem isLeap_eq_leapYear (y : Nat) : isLeap (y : Int) = leapYear y := by
  have h4 : (((y : Int)) % 4 = 0) ↔ (y % 4 = 0) := by omega
  have h100 : (((y : Int)) % 100 = 0) ↔ (y % 100 = 0) := by omega
  have h400 : (((y : Int)) % 400 = 0) ↔ (y % 400 = 0) := by omega
  simp only [isLeap, leapYear, ne_eq, h4, h100, h400]

theorem daysInMonth_eq_monthLength (y m : Nat) (hm1 : 1 ≤ m) (hm2 : m ≤ 12) :
    daysInMonth (y : Int) m = monthLength y m := by
  have hm : m = 1 ∨ m = 2 ∨ m = 3 ∨ m = 4 ∨ m = 5 ∨ m = 6 ∨ m = 7 ∨ m = 8 ∨ m = 9 ∨ m = 10 ∨ m = 11 ∨ m = 12 := by omega
  rcases hm with rfl | rfl | rfl | rfl | rfl | rfl | rfl | rfl | rfl | rfl | rfl | rfl <;>
    simp [daysInMonth, monthLength, isLeap_eq_leapYear]

theorem two_eq (n : Nat) : two n = pad2 n := rfl
theorem three_eq (n : Nat) : three n = pad3 n := rfl
theorem fracText_eq (ms : Option Nat) : fracText ms = (match ms with | none => [] | some x => 46 :: pad3 x) := by cases ms <;> rfl
theorem four_eq (n : Nat) : four n = pad4 n := rfl

/-- `time` parses an RFC 3339 text with any offset in [−23:59, +23:59] to the instant local − offset -/
theorem parseTime_rfc3339Text (Y m d H Mi S : Nat) (ms : Option Nat) (neg : Bool) (oh om : Nat)
    (hdate : validDate Y m d = true) (hH : H ≤ 23) (hMi : Mi ≤ 59) (hS : S ≤ 59)
    (hms : ∀ x, ms = some x → x < 1000) (hoh : oh ≤ 23) (hom : om ≤ 59) :
    parseRfc3339Time (rfc3339Text Y m d H Mi S ms neg oh om) =
      some ⟨rfc3339Instant Y m d H Mi S neg oh om, fracNanosOf ms, offsetSeconds neg oh om⟩ := by
  simp only [validDate, Bool.and_eq_true, decide_eq_true_eq] at hdate
  obtain ⟨⟨⟨⟨⟨hy1, hy2⟩, hm1⟩, hm2⟩, hd1⟩, hd2⟩ := hdate
  have hd31 : d ≤ 31 := by
    have : monthLength Y m ≤ 31 := by
      unfold monthLength; split <;> (try split) <;> omega
    omega
  have hoff := parseOffset_hm neg oh om hoh hom
  have hsign : isDigit (if neg then 45 else 43) = false := by cases neg <;> decide
  have hne46 : (if neg then (45 : UInt8) else 43) ≠ 46 := by cases neg <;> decide
  have hfrac : parseSubsec (fracText ms ++ ((if neg then 45 else 43) :: (pad2 oh ++ 58 :: pad2 om))) =
      some (fracNanosOf ms, (if neg then 45 else 43) :: (pad2 oh ++ 58 :: pad2 om)) := by
    cases ms with
    | none => exact parseSubsec_none _ hne46 _
    | some x => exact parseSubsec_pad3 x (hms x rfl) _ hsign _
  unfold rfc3339Text
  simp only [two_eq, three_eq, four_eq]
  rw [parse_canonical Y m d H Mi S 84 _ _ _ _ (by omega) (by omega) (by omega) (by omega) (by omega) (by omega) hfrac hoff]
  have hv : validFields (Y : Int) m d H Mi S = true := by
    simp only [validFields, Bool.and_eq_true, decide_eq_true_eq, daysInMonth_eq_monthLength Y m hm1 hm2]
    omega
  rw [if_pos hv]
  simp only [localSeconds, rfc3339Instant, offsetSeconds, daysFromCivil_eq_specDays Y m d hy1 hm1 hm2 hd1]

/-- an RFC 3339 text with any offset in [−23:59, +23:59] is parsed to the instant local − offset — exactly when
    that instant lies in the years 0000 … 9999 of UTC; otherwise the text is refused (code since b7ef08a: the
    type's own text forms could not express the instant) -/
theorem parse_rfc3339Text (Y m d H Mi S : Nat) (ms : Option Nat) (neg : Bool) (oh om : Nat)
    (hdate : validDate Y m d = true) (hH : H ≤ 23) (hMi : Mi ≤ 59) (hS : S ≤ 59)
    (hms : ∀ x, ms = some x → x < 1000) (hoh : oh ≤ 23) (hom : om ≤ 59) :
    parseRfc3339 (rfc3339Text Y m d H Mi S ms neg oh om) =
      if -62167219200 ≤ rfc3339Instant Y m d H Mi S neg oh om ∧ rfc3339Instant Y m d H Mi S neg oh om ≤ 253402300799
      then some ⟨rfc3339Instant Y m d H Mi S neg oh om, fracNanosOf ms, offsetSeconds neg oh om⟩ else none :=
  parseRfc3339_of_time (parseTime_rfc3339Text Y m d H Mi S ms neg oh om hdate hH hMi hS hms hoh hom)

/-! ### an accepted timestamp can be written (code since b7ef08a: `fmt_timestamp(..).unwrap()` cannot fail on it) -/

theorem formatDateTime_isSome_of_toUtc (t : Ts) (f : Int × Nat × Nat × Nat) (h : toUtc t = some f) :
    ∃ txt, formatDateTime t = some txt := by
  obtain ⟨y, m, d, sod⟩ := f
  unfold formatDateTime
  rw [h]
  exact ⟨_, rfl⟩

theorem formatHttpDate_isSome_of_toUtc (t : Ts) (f : Int × Nat × Nat × Nat) (h : toUtc t = some f) :
    ∃ txt, formatHttpDate t = some txt := by
  obtain ⟨y, m, d, sod⟩ := f
  unfold formatHttpDate
  rw [h]
  exact ⟨_, rfl⟩

theorem formatEpochSeconds_isSome (t : Ts) : ∃ txt, formatEpochSeconds t = some txt := by
  unfold formatEpochSeconds
  simp only
  split
  · exact ⟨_, rfl⟩
  · exact ⟨_, rfl⟩

/-- every instant `time` can hold in UTC is written by all three arms of `Timestamp::format` -/
theorem format_total_of_range (t : Ts) (h1 : unixMin ≤ t.unix) (h2 : t.unix ≤ unixMax) :
    (∃ a, formatDateTime t = some a) ∧ (∃ b, formatHttpDate t = some b) ∧ (∃ c, formatEpochSeconds t = some c) := by
  obtain ⟨f, hf⟩ := toUtc_isSome_of_range t h1 h2
  exact ⟨formatDateTime_isSome_of_toUtc t f hf, formatHttpDate_isSome_of_toUtc t f hf, formatEpochSeconds_isSome t⟩

/-- a timestamp accepted in the `DateTime` form lies within `time`'s range -/
theorem parseRfc3339_range {e : Bytes} {t : Ts} (h : parseRfc3339 e = some t) : unixMin ≤ t.unix ∧ t.unix ≤ unixMax := by
  obtain ⟨_, h1, h2⟩ := parseRfc3339_some h
  unfold unixMin unixMax
  omega

theorem epochFromNanos_range {n : Int} {t : Ts} (h : epochFromNanos n = some t) :
    unixMin ≤ t.unix ∧ t.unix ≤ unixMax := by
  unfold epochFromNanos at h
  simp only at h
  split at h
  · cases h
  · rename_i hr
    injection h with h
    subst h
    simp only [Bool.or_eq_true, decide_eq_true_eq, not_or, Int.not_lt] at hr
    show unixMin ≤ n / 1000000000 ∧ n / 1000000000 ≤ unixMax
    exact ⟨hr.1, by omega⟩

/-- … so does one accepted in the `EpochSeconds` form (`from_unix_timestamp_nanos`) -/
theorem parseEpochSeconds_range {e : Bytes} {t : Ts} (h : parseEpochSeconds e = some t) :
    unixMin ≤ t.unix ∧ t.unix ≤ unixMax := by
  unfold parseEpochSeconds at h
  split at h
  · cases h
  · split at h
    · cases h
    · split at h
      · cases h
      · exact epochFromNanos_range h

/-- a valid calendar date-time of the years −9999 … 9999 is within `time`'s range -/
theorem localSeconds_range (y : Int) (mo d h mi s : Nat) (hv : validFields y mo d h mi s = true) :
    unixMin ≤ localSeconds y mo d h mi s ∧ localSeconds y mo d h mi s ≤ unixMax := by
  simp only [validFields, Bool.and_eq_true, decide_eq_true_eq] at hv
  obtain ⟨⟨⟨⟨⟨⟨hy1, hy2⟩, hm1, hm2⟩, hd1, hd2⟩, hh⟩, hmi⟩, hs⟩ := hv
  have hd31 : d ≤ 31 := by have := daysInMonth_le_31 y mo; omega
  have hlo := daysFromCivil_ge_of_year_ge_neg9999 y mo d hy1 hm1 hm2 hd1
  have hhi := daysFromCivil_le_of_year_le_9999 y mo d hy2 hm1 hm2 hd1 hd31
  unfold localSeconds unixMin unixMax
  omega

/-- a valid calendar date-time of the years 0000 … 9999, read in UTC, passes the year check of the `DateTime` arm -/
theorem localSeconds_range_year0 (y : Int) (mo d h mi s : Nat) (hy0 : 0 ≤ y) (hv : validFields y mo d h mi s = true) :
    -62167219200 ≤ localSeconds y mo d h mi s ∧ localSeconds y mo d h mi s ≤ 253402300799 := by
  simp only [validFields, Bool.and_eq_true, decide_eq_true_eq] at hv
  obtain ⟨⟨⟨⟨⟨⟨hy1, hy2⟩, hm1, hm2⟩, hd1, hd2⟩, hh⟩, hmi⟩, hs⟩ := hv
  have hd31 : d ≤ 31 := by have := daysInMonth_le_31 y mo; omega
  have hlo := daysFromCivil_ge_of_year_ge_zero y mo d hy0 hm1 hm2 hd1
  have hhi := daysFromCivil_le_of_year_le_9999 y mo d hy2 hm1 hm2 hd1 hd31
  unfold localSeconds
  omega

/-- … and one accepted in the `HttpDate` form (a valid date-time of the years −9999 … 9999, in UTC) -/
theorem parseHttpDate_range {e : Bytes} {t : Ts} (h : parseHttpDate e = some t) :
    unixMin ≤ t.unix ∧ t.unix ≤ unixMax := by
  unfold parseHttpDate at h
  simp only [Option.bind_eq_bind, Option.bind_eq_some_iff] at h
  obtain ⟨a1, -, a2, -, a3, -, a4, -, a5, -, a6, -, a7, -, a8, -, a9, -, a10, -, a11, -, a12, -, a13, -, a14, -, h⟩ := h
  split at h
  · simp at h
  · split at h
    · simp at h
    · rename_i hv
      injection h with h
      subst h
      exact localSeconds_range _ _ _ _ _ _ (by simpa using hv)

/-- **whatever form a timestamp was accepted in, it can be written in every form**: `Timestamp::format` succeeds, so
    `fmt_timestamp(..).unwrap()` does not panic on a parsed value -/
theorem parse_format_total (f : TsFormat) {e : Bytes} {t : Ts} (h : Ts.parse f e = some t) :
    (∃ a, formatDateTime t = some a) ∧ (∃ b, formatHttpDate t = some b) ∧ (∃ c, formatEpochSeconds t = some c) := by
  have hr : unixMin ≤ t.unix ∧ t.unix ≤ unixMax := by
    cases f with
    | dateTime => exact parseRfc3339_range h
    | httpDate => exact parseHttpDate_range h
    | epochSeconds => exact parseEpochSeconds_range h
  exact format_total_of_range t hr.1 hr.2

end S3V.Dto
