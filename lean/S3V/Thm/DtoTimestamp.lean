import S3V.Thm.DtoTimestampText
import S3V.Thm.DtoCivil
import S3V.Spec.Dto
/-! # Timestamp theorems (C14): round trips of the text forms, instant preservation -/
namespace S3V.Dto

/-- the UTC fields of an instant of the years 1 … 9999 are a valid date-time that denotes it -/
theorem utcFields_facts (unix : Int) (h1 : -62135596800 ≤ unix) (h2 : unix ≤ 253402300799) :
    ∃ (y : Int) (m d sod : Nat), utcFields unix = (y, m, d, sod) ∧
      1 ≤ y ∧ y ≤ 9999 ∧ 1 ≤ m ∧ m ≤ 12 ∧ 1 ≤ d ∧ d ≤ daysInMonth y m ∧ sod < 86400 ∧
      daysFromCivil y m d * 86400 + (sod : Int) = unix ∧ daysFromCivil y m d = unix / 86400 := by
  obtain ⟨hz, hm1, hm2, hd1, hd2⟩ := civil_days_civil (unix / 86400)
  refine ⟨(civilFromDays (unix / 86400)).1, (civilFromDays (unix / 86400)).2.1, (civilFromDays (unix / 86400)).2.2,
    (unix % 86400).toNat, rfl, ?_, ?_, hm1, hm2, hd1, hd2, by omega, by rw [hz]; omega, hz⟩
  · -- year ≥ 1
    have hd31 : (civilFromDays (unix / 86400)).2.2 ≤ 31 := by
      have : daysInMonth (civilFromDays (unix / 86400)).1 (civilFromDays (unix / 86400)).2.1 ≤ 31 := by
        unfold daysInMonth; split
        · split <;> omega
        · split <;> omega
      omega
    have hlow : unix / 86400 ≥ -719162 := by omega
    by_cases hlt : (civilFromDays (unix / 86400)).1 < 1
    · have := daysFromCivil_le_of_year_le_zero _ _ _ (by omega : (civilFromDays (unix / 86400)).1 ≤ 0) hm1 hm2 hd1 hd31
      omega
    · omega
  · have hd31 : (civilFromDays (unix / 86400)).2.2 ≤ 31 := by
      have : daysInMonth (civilFromDays (unix / 86400)).1 (civilFromDays (unix / 86400)).2.1 ≤ 31 := by
        unfold daysInMonth; split
        · split <;> omega
        · split <;> omega
      omega
    have hhigh : unix / 86400 ≤ 2932896 := by omega
    by_cases hlt : 9999 < (civilFromDays (unix / 86400)).1
    · have := daysFromCivil_ge_of_year_ge _ _ _ (by omega : 10000 ≤ (civilFromDays (unix / 86400)).1) hm1 hm2 hd1 hd31
      omega
    · omega



theorem validFields_of (y : Int) (m d sod : Nat) (hy1 : -9999 ≤ y) (hy2 : y ≤ 9999) (hm1 : 1 ≤ m) (hm2 : m ≤ 12)
    (hd1 : 1 ≤ d) (hd2 : d ≤ daysInMonth y m) (hs : sod < 86400) :
    validFields y m d (sod / 3600) (sod / 60 % 60) (sod % 60) = true := by
  simp only [validFields, Bool.and_eq_true, decide_eq_true_eq]
  omega

theorem localSeconds_sod (y : Int) (m d sod : Nat) (hs : sod < 86400) :
    localSeconds y m d (sod / 3600) (sod / 60 % 60) (sod % 60) = daysFromCivil y m d * 86400 + (sod : Int) := by
  unfold localSeconds
  have : sod / 3600 * 3600 + sod / 60 % 60 * 60 + sod % 60 = sod := by omega
  rw [this]

/-- text of `formatDateTime` for an instant of the years 1 … 9999, in right-nested form -/
theorem formatDateTime_eq (t : Ts) (y : Int) (m d sod : Nat) (hf : utcFields t.unix = (y, m, d, sod))
    (hy1 : 1 ≤ y) (hy2 : y ≤ 9999) :
    formatDateTime t = some (pad4 y.natAbs ++ 45 :: (pad2 m ++ 45 :: (pad2 d ++ 84 :: (pad2 (sod / 3600) ++ 58 ::
      (pad2 (sod / 60 % 60) ++ 58 :: (pad2 (sod % 60) ++ 46 :: (pad3 (t.nanos / 1000000) ++ [90]))))))) := by
  have hr : (decide (-9999 ≤ y) && decide (y ≤ 9999)) = true := by simp; omega
  have hneg : ¬ y < 0 := by omega
  simp only [formatDateTime, toUtc, hf, hr, if_true, fmtYear, hneg, if_false, fmtHms, List.nil_append,
    List.append_assoc, List.cons_append]

theorem datetime_roundtrip (t : Ts) (h1 : -62135596800 ≤ t.unix) (h2 : t.unix ≤ 253402300799)
    (hn : t.nanos < 1000000000) :
    ∃ txt, formatDateTime t = some txt ∧
      parseRfc3339 txt = some ⟨t.unix, t.nanos / 1000000 * 1000000, 0⟩ := by
  obtain ⟨y, m, d, sod, hf, hy1, hy2, hm1, hm2, hd1, hd2, hs, hden, _⟩ := utcFields_facts t.unix h1 h2
  refine ⟨_, formatDateTime_eq t y m d sod hf hy1 hy2, ?_⟩
  have hd31 : d ≤ 31 := by
    have : daysInMonth y m ≤ 31 := by
      unfold daysInMonth; split
      · split <;> omega
      · split <;> omega
    omega
  rw [parse_canonical y.natAbs m d (sod / 3600) (sod / 60 % 60) (sod % 60) 84 (46 :: (pad3 (t.nanos / 1000000) ++ [90])) [90]
    (t.nanos / 1000000 * 1000000) 0 (by omega) (by omega) (by omega) (by omega) (by omega) (by omega)
    (parseSubsec_pad3 _ (by omega) 90 (by decide) []) parseOffset_Z]
  have hya : ((y.natAbs : Nat) : Int) = y := by omega
  rw [hya, validFields_of y m d sod (by omega) hy2 hm1 hm2 hd1 hd2 hs, if_pos rfl, localSeconds_sod _ _ _ _ hs, hden]
  simp



theorem stripPrefix_append (p rest : Bytes) : stripPrefix p (p ++ rest) = some rest := by
  induction p with
  | nil => simp [stripPrefix]
  | cons a p ih => simp [stripPrefix, ih]

theorem firstMatch_weekday (i : Nat) (hi : i < 7) (rest : Bytes) :
    firstMatch weekdayNames (weekdayNames.getD i [] ++ rest) 0 = some (i, rest) := by
  have : i = 0 ∨ i = 1 ∨ i = 2 ∨ i = 3 ∨ i = 4 ∨ i = 5 ∨ i = 6 := by omega
  rcases this with rfl | rfl | rfl | rfl | rfl | rfl | rfl <;>
    simp [weekdayNames, firstMatch, stripPrefix]

theorem firstMatch_month (i : Nat) (hi : i < 12) (rest : Bytes) :
    firstMatch monthNames (monthNames.getD i [] ++ rest) 0 = some (i, rest) := by
  have : i = 0 ∨ i = 1 ∨ i = 2 ∨ i = 3 ∨ i = 4 ∨ i = 5 ∨ i = 6 ∨ i = 7 ∨ i = 8 ∨ i = 9 ∨ i = 10 ∨ i = 11 := by omega
  rcases this with rfl | rfl | rfl | rfl | rfl | rfl | rfl | rfl | rfl | rfl | rfl | rfl <;>
    simp [monthNames, firstMatch, stripPrefix]



theorem digitChar_ne (k : Nat) (hk : k < 10) (c : UInt8) (hc : c.toNat < 48) : digitChar k ≠ c := by
  intro h
  have := congrArg UInt8.toNat h
  rw [digitChar_toNat hk] at this
  omega

theorem parseYearSigned_pad4 (Y : Nat) (hY : Y < 10000) (rest : Bytes) :
    parseYearSigned (pad4 Y ++ rest) = some ((Y : Int), rest) := by
  have h := exactlyDigits_pad4 Y hY rest
  have h43 := digitChar_ne (Y / 1000 % 10) (by omega) 43 (by decide)
  have h45 := digitChar_ne (Y / 1000 % 10) (by omega) 45 (by decide)
  simp only [pad4, List.cons_append, List.nil_append] at h ⊢
  unfold parseYearSigned
  simp only [h43, h45, Bool.or_self, Bool.false_eq_true, if_false, decide_false, h, bind, Option.bind]

theorem parse_http_canonical (wd mi Y d H Mi S : Nat) (hwd : wd < 7) (hmi : mi < 12) (hY : Y < 10000) (hd : d < 100)
    (hH : H < 100) (hMi : Mi < 100) (hS : S < 100) :
    parseHttpDate (weekdayNames.getD wd [] ++ 44 :: 32 :: (pad2 d ++ 32 :: (monthNames.getD mi [] ++ 32 ::
      (pad4 Y ++ 32 :: (pad2 H ++ 58 :: (pad2 Mi ++ 58 :: (pad2 S ++ gmtSuffix))))))) =
      if validFields Y (mi + 1) d H Mi S then some ⟨localSeconds Y (mi + 1) d H Mi S, 0, 0⟩ else none := by
  unfold parseHttpDate
  have hsp : ∀ r : Bytes, stripPrefix [44, 32] (44 :: 32 :: r) = some r := by intro r; simp [stripPrefix]
  have hg : stripPrefix gmtSuffix gmtSuffix = some [] := by decide
  have hS' : exactlyDigits 2 (pad2 S ++ gmtSuffix) 0 = some (S, gmtSuffix) := exactlyDigits_pad2 S hS _
  simp only [firstMatch_weekday wd hwd, firstMatch_month mi hmi, hsp, exactlyDigits_pad2 d hd, exactlyDigits_pad2 H hH,
    exactlyDigits_pad2 Mi hMi, hS', parseYearSigned_pad4 Y hY, expectChar_cons, hg, bind, Option.bind]
  cases validFields (↑Y) (mi + 1) d H Mi S <;> simp



theorem formatHttpDate_eq (t : Ts) (y : Int) (m d sod : Nat) (hf : utcFields t.unix = (y, m, d, sod))
    (hy1 : 1 ≤ y) (hy2 : y ≤ 9999) :
    formatHttpDate t = some (weekdayNames.getD (weekdayOfDays (t.unix / 86400)) [] ++ 44 :: 32 :: (pad2 d ++ 32 ::
      (monthNames.getD (m - 1) [] ++ 32 :: (pad4 y.natAbs ++ 32 :: (pad2 (sod / 3600) ++ 58 ::
      (pad2 (sod / 60 % 60) ++ 58 :: (pad2 (sod % 60) ++ gmtSuffix))))))) := by
  have hr : (decide (-9999 ≤ y) && decide (y ≤ 9999)) = true := by simp; omega
  have hneg : ¬ y < 0 := by omega
  simp only [formatHttpDate, toUtc, hf, hr, if_true, fmtYear, hneg, if_false, fmtHms, List.nil_append,
    List.append_assoc, List.cons_append]

theorem httpdate_roundtrip (t : Ts) (h1 : -62135596800 ≤ t.unix) (h2 : t.unix ≤ 253402300799) :
    ∃ txt, formatHttpDate t = some txt ∧ parseHttpDate txt = some ⟨t.unix, 0, 0⟩ := by
  obtain ⟨y, m, d, sod, hf, hy1, hy2, hm1, hm2, hd1, hd2, hs, hden, _⟩ := utcFields_facts t.unix h1 h2
  refine ⟨_, formatHttpDate_eq t y m d sod hf hy1 hy2, ?_⟩
  have hd31 : d ≤ 31 := by
    have : daysInMonth y m ≤ 31 := by
      unfold daysInMonth; split
      · split <;> omega
      · split <;> omega
    omega
  have hwd : weekdayOfDays (t.unix / 86400) < 7 := by unfold weekdayOfDays; omega
  rw [parse_http_canonical _ (m - 1) y.natAbs d (sod / 3600) (sod / 60 % 60) (sod % 60) hwd (by omega) (by omega)
    (by omega) (by omega) (by omega) (by omega)]
  have hya : ((y.natAbs : Nat) : Int) = y := by omega
  have hm : m - 1 + 1 = m := by omega
  rw [hya, hm, validFields_of y m d sod (by omega) hy2 hm1 hm2 hd1 hd2 hs, if_pos rfl, localSeconds_sod _ _ _ _ hs, hden]


open S3V.DtoSpec


theorem daysFromCivil_eq_specDays (y m d : Nat) (hy : 1 ≤ y) (hm1 : 1 ≤ m) (hm2 : m ≤ 12) (hd : 1 ≤ d) :
    daysFromCivil (y : Int) m d = specDays y m d := by
  have h4 : (leapYear y = true) ↔ (y % 4 = 0 ∧ (y % 100 ≠ 0 ∨ y % 400 = 0)) := by
    simp [leapYear]
  have hm : m = 1 ∨ m = 2 ∨ m = 3 ∨ m = 4 ∨ m = 5 ∨ m = 6 ∨ m = 7 ∨ m = 8 ∨ m = 9 ∨ m = 10 ∨ m = 11 ∨ m = 12 := by omega
  unfold daysFromCivil encDoe specDays daysBeforeYear
  by_cases hl : leapYear y = true
  · have := h4.mp hl
    rcases hm with rfl | rfl | rfl | rfl | rfl | rfl | rfl | rfl | rfl | rfl | rfl | rfl <;>
      simp [daysBeforeMonth, monthLength, hl] <;> omega
  · have := mt h4.mpr hl
    rcases hm with rfl | rfl | rfl | rfl | rfl | rfl | rfl | rfl | rfl | rfl | rfl | rfl <;>
      simp [daysBeforeMonth, monthLength, hl] <;> omega

theorem isLeap_eq_leapYear (y : Nat) : isLeap (y : Int) = leapYear y := by
  have h4 : (((y : Int)) % 4 = 0) ↔ (y % 4 = 0) := by omega
  have h100 : (((y : Int)) % 100 = 0) ↔ (y % 100 = 0) := by omega
  have h400 : (((y : Int)) % 400 = 0) ↔ (y % 400 = 0) := by omega
  simp only [isLeap, leapYear, ne_eq, h4, h100, h400]

theorem daysInMonth_eq_monthLength (y m : Nat) (hm1 : 1 ≤ m) (hm2 : m ≤ 12) :
    daysInMonth (y : Int) m = monthLength y m := by
  have hm : m = 1 ∨ m = 2 ∨ m = 3 ∨ m = 4 ∨ m = 5 ∨ m = 6 ∨ m = 7 ∨ m = 8 ∨ m = 9 ∨ m = 10 ∨ m = 11 ∨ m = 12 := by omega
  rcases hm with rfl | rfl | rfl | rfl | rfl | rfl | rfl | rfl | rfl | rfl | rfl | rfl <;>
    simp [daysInMonth, monthLength, isLeap_eq_leapYear]

theorem two_eq (n : Nat) : two n = pad2 n := rfl
theorem three_eq (n : Nat) : three n = pad3 n := rfl
theorem fracText_eq (ms : Option Nat) : fracText ms = (match ms with | none => [] | some x => 46 :: pad3 x) := by cases ms <;> rfl
theorem four_eq (n : Nat) : four n = pad4 n := rfl

/-- an RFC 3339 text with any offset in [−23:59, +23:59] is parsed to the instant local − offset -/
theorem parse_rfc3339Text (Y m d H Mi S : Nat) (ms : Option Nat) (neg : Bool) (oh om : Nat)
    (hdate : validDate Y m d = true) (hH : H ≤ 23) (hMi : Mi ≤ 59) (hS : S ≤ 59)
    (hms : ∀ x, ms = some x → x < 1000) (hoh : oh ≤ 23) (hom : om ≤ 59) :
    parseRfc3339 (rfc3339Text Y m d H Mi S ms neg oh om) =
      some ⟨rfc3339Instant Y m d H Mi S neg oh om, fracNanosOf ms, offsetSeconds neg oh om⟩ := by
  simp only [validDate, Bool.and_eq_true, decide_eq_true_eq] at hdate
  obtain ⟨⟨⟨⟨⟨hy1, hy2⟩, hm1⟩, hm2⟩, hd1⟩, hd2⟩ := hdate
  have hd31 : d ≤ 31 := by
    have : monthLength Y m ≤ 31 := by
      unfold monthLength; split <;> (try split) <;> omega
    omega
  have hoff := parseOffset_hm neg oh om hoh hom
  have hsign : isDigit (if neg then 45 else 43) = false := by cases neg <;> decide
  have hne46 : (if neg then (45 : UInt8) else 43) ≠ 46 := by cases neg <;> decide
  have hfrac : parseSubsec (fracText ms ++ ((if neg then 45 else 43) :: (pad2 oh ++ 58 :: pad2 om))) =
      some (fracNanosOf ms, (if neg then 45 else 43) :: (pad2 oh ++ 58 :: pad2 om)) := by
    cases ms with
    | none => exact parseSubsec_none _ hne46 _
    | some x => exact parseSubsec_pad3 x (hms x rfl) _ hsign _
  unfold rfc3339Text
  simp only [two_eq, three_eq, four_eq]
  rw [parse_canonical Y m d H Mi S 84 _ _ _ _ (by omega) (by omega) (by omega) (by omega) (by omega) (by omega) hfrac hoff]
  have hv : validFields (Y : Int) m d H Mi S = true := by
    simp only [validFields, Bool.and_eq_true, decide_eq_true_eq, daysInMonth_eq_monthLength Y m hm1 hm2]
    omega
  rw [if_pos hv]
  simp only [localSeconds, rfc3339Instant, offsetSeconds, daysFromCivil_eq_specDays Y m d hy1 hm1 hm2 hd1]



end S3V.Dto
