import S3V.Model.FsStoreApi
/-!
# C18 lemmas: association lists, byte order, insertion sort
-/
namespace S3V.FsStore

/-! ## association lists -/

section AL
variable {α β : Type} [DecidableEq α]

@[simp] theorem alLookup_nil (k : α) : alLookup k ([] : List (α × β)) = none := rfl

theorem alLookup_cons (k a : α) (b : β) (t : List (α × β)) :
    alLookup k ((a, b) :: t) = if a = k then some b else alLookup k t := rfl

theorem alLookup_alInsert_self (k : α) (v : β) (l : List (α × β)) :
    alLookup k (alInsert k v l) = some v := by
  induction l with
  | nil => simp [alInsert, alLookup_cons]
  | cons e t ih =>
    obtain ⟨a, b⟩ := e
    by_cases h : a = k
    · simp [alInsert, h, alLookup_cons]
    · simp [alInsert, h, alLookup_cons, ih]

theorem alLookup_alInsert_ne {k a : α} (h : a ≠ k) (v : β) (l : List (α × β)) :
    alLookup a (alInsert k v l) = alLookup a l := by
  induction l with
  | nil => simp [alInsert, alLookup_cons, Ne.symm h]
  | cons e t ih =>
    obtain ⟨a', b⟩ := e
    by_cases h' : a' = k
    · subst h'
      simp [alInsert, alLookup_cons, Ne.symm h]
    · simp only [alInsert, h', if_false, alLookup_cons, ih]

theorem alLookup_alErase_self (k : α) (l : List (α × β)) : alLookup k (alErase k l) = none := by
  induction l with
  | nil => rfl
  | cons e t ih =>
    obtain ⟨a, b⟩ := e
    by_cases h : a = k
    · simp [alErase, h, ih]
    · simp [alErase, h, alLookup_cons, ih]

theorem alLookup_alErase_ne {k a : α} (h : a ≠ k) (l : List (α × β)) :
    alLookup a (alErase k l) = alLookup a l := by
  induction l with
  | nil => rfl
  | cons e t ih =>
    obtain ⟨a', b⟩ := e
    by_cases h' : a' = k
    · subst h'
      simp [alErase, alLookup_cons, Ne.symm h, ih]
    · simp only [alErase, h', if_false, alLookup_cons, ih]

theorem alLookup_append (k : α) (l m : List (α × β)) :
    alLookup k (l ++ m) = (alLookup k l).or (alLookup k m) := by
  induction l with
  | nil => simp
  | cons e t ih =>
    obtain ⟨a, b⟩ := e
    by_cases h : a = k
    · simp [alLookup_cons, h]
    · simp [alLookup_cons, h, ih]

theorem alLookup_mem {k : α} {v : β} {l : List (α × β)} (h : alLookup k l = some v) : (k, v) ∈ l := by
  induction l with
  | nil => simp at h
  | cons e t ih =>
    obtain ⟨a, b⟩ := e
    by_cases h' : a = k
    · simp [alLookup_cons, h'] at h
      simp [h', h]
    · simp [alLookup_cons, h'] at h
      exact List.mem_cons_of_mem _ (ih h)

theorem alLookup_none_of_not_mem {k : α} {l : List (α × β)} (h : ∀ e ∈ l, e.1 ≠ k) : alLookup k l = none := by
  induction l with
  | nil => rfl
  | cons e t ih =>
    obtain ⟨a, b⟩ := e
    have h1 : a ≠ k := h (a, b) (by simp)
    simp only [alLookup_cons, h1, if_false]
    exact ih fun e he => h e (List.mem_cons_of_mem _ he)

theorem alHas_eq (k : α) (l : List (α × β)) : alHas k l = (alLookup k l).isSome := rfl

theorem alInsert_mem {k : α} {v : β} {l : List (α × β)} {e : α × β} (h : e ∈ alInsert k v l) :
    e = (k, v) ∨ e ∈ l := by
  induction l with
  | nil => simp [alInsert] at h; exact Or.inl h
  | cons x t ih =>
    obtain ⟨a, b⟩ := x
    by_cases h' : a = k
    · simp only [alInsert, h', if_true, List.mem_cons] at h
      rcases h with h | h
      · exact Or.inl h
      · exact Or.inr (List.mem_cons_of_mem _ h)
    · simp only [alInsert, h', if_false, List.mem_cons] at h
      rcases h with h | h
      · exact Or.inr (by simp [h])
      · rcases ih h with h | h
        · exact Or.inl h
        · exact Or.inr (List.mem_cons_of_mem _ h)

theorem alErase_mem {k : α} {l : List (α × β)} {e : α × β} (h : e ∈ alErase k l) : e ∈ l := by
  induction l with
  | nil => simp [alErase] at h
  | cons x t ih =>
    obtain ⟨a, b⟩ := x
    by_cases h' : a = k
    · simp only [alErase, h', if_true] at h
      exact List.mem_cons_of_mem _ (ih h)
    · simp only [alErase, h', if_false, List.mem_cons] at h
      rcases h with h | h
      · simp [h]
      · exact List.mem_cons_of_mem _ (ih h)

theorem alInsert_same {α β : Type} [DecidableEq α] {k : α} {v : β} {l : List (α × β)} (h : alLookup k l = some v) :
    alInsert k v l = l := by
  induction l with
  | nil => simp at h
  | cons e t ih =>
    obtain ⟨a, b⟩ := e
    by_cases h' : a = k
    · subst h'
      simp only [alLookup_cons, if_true, Option.some.injEq] at h
      subst h
      simp [alInsert]
    · simp only [alLookup_cons, h', if_false] at h
      simp only [alInsert, h', if_false, ih h]

theorem alErase_absent {k : α} {l : List (α × β)} (h : alLookup k l = none) : alErase k l = l := by
  induction l with
  | nil => rfl
  | cons e t ih =>
    obtain ⟨a, b⟩ := e
    by_cases h' : a = k
    · simp [alLookup_cons, h'] at h
    · simp only [alLookup_cons, h', if_false] at h
      simp [alErase, h', ih h]

/-- mapping the values of an association list (keys kept) commutes with lookup -/
theorem alLookup_map_val {γ : Type} (g : α → β → γ) (k : α) (l : List (α × β)) :
    alLookup k (l.map fun e => (e.1, g e.1 e.2)) = (alLookup k l).map (g k) := by
  induction l with
  | nil => rfl
  | cons e t ih =>
    obtain ⟨a, b⟩ := e
    by_cases h : a = k
    · subst h; simp [alLookup_cons]
    · simp [alLookup_cons, h, ih]

theorem alInsert_map_val {γ : Type} (g : α → β → γ) (k : α) (v : β) (l : List (α × β)) :
    (alInsert k v l).map (fun e => (e.1, g e.1 e.2)) = alInsert k (g k v) (l.map fun e => (e.1, g e.1 e.2)) := by
  induction l with
  | nil => rfl
  | cons e t ih =>
    obtain ⟨a, b⟩ := e
    by_cases h : a = k
    · simp [alInsert, h]
    · simp [alInsert, h, ih]

theorem alErase_map_val {γ : Type} (g : α → β → γ) (k : α) (l : List (α × β)) :
    (alErase k l).map (fun e => (e.1, g e.1 e.2)) = alErase k (l.map fun e => (e.1, g e.1 e.2)) := by
  induction l with
  | nil => rfl
  | cons e t ih =>
    obtain ⟨a, b⟩ := e
    by_cases h : a = k
    · simp [alErase, h, ih]
    · simp [alErase, h, ih]

end AL

/-! ## `filterMap` views of association lists (the shape of `abs` on a directory tree) -/

def keysNodup {α β : Type} (l : List (α × β)) : Prop := (l.map (·.1)).Nodup

section View
variable {α β γ δ : Type} [DecidableEq α] [DecidableEq γ]

omit [DecidableEq α] [DecidableEq γ] in
theorem keysNodup_cons {a : α} {b : β} {t : List (α × β)} (h : keysNodup ((a, b) :: t)) :
    (∀ b', (a, b') ∉ t) ∧ keysNodup t := by
  unfold keysNodup at h ⊢
  simp only [List.map_cons, List.nodup_cons] at h
  refine ⟨fun b' hb => h.1 ?_, h.2⟩
  exact List.mem_map.mpr ⟨(a, b'), hb, rfl⟩

omit [DecidableEq α] [DecidableEq γ] in
theorem filterMap_congr_mem {f' f : α × β → Option (γ × δ)} {l : List (α × β)}
    (h : ∀ e ∈ l, f' e = f e) : l.filterMap f' = l.filterMap f := by
  induction l with
  | nil => rfl
  | cons e t ih =>
    simp only [List.filterMap_cons, h e (by simp)]
    rw [ih fun e he => h e (List.mem_cons_of_mem _ he)]

/-- inserting under key `a` shows as inserting under key `c` in the view, when the view is injective on keys -/
theorem filterMap_alInsert (f' f : α × β → Option (γ × δ)) (a : α) (b : β) (c : γ) (d : δ) (l : List (α × β))
    (hnd : keysNodup l)
    (hf : f' (a, b) = some (c, d))
    (hold : ∀ b', (a, b') ∈ l → ∃ d', f (a, b') = some (c, d'))
    (hagree : ∀ a' b', (a', b') ∈ l → a' ≠ a → f' (a', b') = f (a', b'))
    (hinj : ∀ a' b' c' d', (a', b') ∈ l → a' ≠ a → f (a', b') = some (c', d') → c' ≠ c) :
    (alInsert a b l).filterMap f' = alInsert c d (l.filterMap f) := by
  induction l with
  | nil => simp [alInsert, hf]
  | cons e t ih =>
    obtain ⟨a', b'⟩ := e
    obtain ⟨hfresh, hnd'⟩ := keysNodup_cons hnd
    by_cases h : a' = a
    · subst h
      obtain ⟨d', hd'⟩ := hold b' (by simp)
      have htail : t.filterMap f' = t.filterMap f := by
        apply filterMap_congr_mem
        intro e he
        obtain ⟨a'', b''⟩ := e
        apply hagree a'' b'' (List.mem_cons_of_mem _ he)
        intro h; subst h; exact hfresh b'' he
      simp [alInsert, hf, hd', htail]
    · have ih' := ih hnd' (fun b'' h => hold b'' (List.mem_cons_of_mem _ h))
        (fun a'' b'' h => hagree a'' b'' (List.mem_cons_of_mem _ h))
        (fun a'' b'' c' d' h => hinj a'' b'' c' d' (List.mem_cons_of_mem _ h))
      have hag := hagree a' b' (by simp) h
      simp only [alInsert, h, if_false, List.filterMap_cons, hag]
      cases hfe : f (a', b') with
      | none => simpa using ih'
      | some cd =>
        obtain ⟨c', d'⟩ := cd
        have hne := hinj a' b' c' d' (by simp) h hfe
        simp [alInsert, hne, ih']

theorem filterMap_alErase (f' f : α × β → Option (γ × δ)) (a : α) (c : γ) (l : List (α × β))
    (hold : ∀ b', (a, b') ∈ l → (f (a, b') = none ∨ ∃ d', f (a, b') = some (c, d')))
    (hagree : ∀ a' b', (a', b') ∈ l → a' ≠ a → f' (a', b') = f (a', b'))
    (hinj : ∀ a' b' c' d', (a', b') ∈ l → a' ≠ a → f (a', b') = some (c', d') → c' ≠ c) :
    (alErase a l).filterMap f' = alErase c (l.filterMap f) := by
  induction l with
  | nil => rfl
  | cons e t ih =>
    obtain ⟨a', b'⟩ := e
    have ih' := ih (fun b'' h => hold b'' (List.mem_cons_of_mem _ h))
        (fun a'' b'' h => hagree a'' b'' (List.mem_cons_of_mem _ h))
        (fun a'' b'' c' d' h => hinj a'' b'' c' d' (List.mem_cons_of_mem _ h))
    by_cases h : a' = a
    · subst h
      rcases hold b' (by simp) with hn | ⟨d', hd'⟩
      · simp [alErase, hn, ih']
      · simp [alErase, hd', ih']
    · have hag := hagree a' b' (by simp) h
      simp only [alErase, h, if_false, List.filterMap_cons, hag]
      cases hfe : f (a', b') with
      | none => simpa using ih'
      | some cd =>
        obtain ⟨c', d'⟩ := cd
        have hne := hinj a' b' c' d' (by simp) h hfe
        simp [alErase, hne, ih']

/-- lookup through an injective view -/
theorem alLookup_filterMap (f : α × β → Option (γ × δ)) (a : α) (c : γ) (l : List (α × β))
    (hnd : keysNodup l)
    (hkey : ∀ b' cd, (a, b') ∈ l → f (a, b') = some cd → cd.1 = c)
    (hinj : ∀ a' b' c' d', (a', b') ∈ l → a' ≠ a → f (a', b') = some (c', d') → c' ≠ c) :
    alLookup c (l.filterMap f) = (alLookup a l).bind fun b => (f (a, b)).map (·.2) := by
  induction l with
  | nil => rfl
  | cons e t ih =>
    obtain ⟨a', b'⟩ := e
    obtain ⟨hfresh, hnd'⟩ := keysNodup_cons hnd
    have ih' := ih hnd' (fun b'' cd h => hkey b'' cd (List.mem_cons_of_mem _ h))
        (fun a'' b'' c' d' h => hinj a'' b'' c' d' (List.mem_cons_of_mem _ h))
    by_cases h : a' = a
    · subst h
      simp only [alLookup_cons, if_true, Option.bind_some, List.filterMap_cons]
      cases hfe : f (a', b') with
      | none =>
        simp only [Option.map_none]
        -- nothing else in `t` has key `a'`, and other keys do not map to `c`
        apply alLookup_none_of_not_mem
        intro e he
        obtain ⟨e', he', hfe'⟩ := List.mem_filterMap.mp he
        obtain ⟨a'', b''⟩ := e'
        obtain ⟨c', d'⟩ := e
        have hne : a'' ≠ a' := by intro h; subst h; exact hfresh b'' he'
        exact hinj a'' b'' c' d' (List.mem_cons_of_mem _ he') hne hfe'
      | some cd =>
        have := hkey b' cd (by simp) hfe
        obtain ⟨c', d'⟩ := cd
        simp at this; subst this
        simp [alLookup_cons]
    · simp only [alLookup_cons, h, if_false, List.filterMap_cons]
      cases hfe : f (a', b') with
      | none => simpa using ih'
      | some cd =>
        obtain ⟨c', d'⟩ := cd
        have hne := hinj a' b' c' d' (by simp) h hfe
        simp [alLookup_cons, hne, ih']

end View
end S3V.FsStore
