import S3V.Model.Path
import S3V.Spec.Path
/-!
# Lemmas for C12: path parsing (`parse_path_style` vs `parse_virtual_hosted_style`)
-/
namespace S3V.Path
open S3V S3V.Net S3V.Host

theorem splitOnce_append_of_not_mem {c : UInt8} {b k : Bytes} (h : c ∉ b) :
    splitOnce c (b ++ c :: k) = some (b, k) := by
  induction b with
  | nil => simp [splitOnce]
  | cons x xs ih =>
    have hx : x ≠ c := fun e => h (by simp [e])
    have hxs : c ∉ xs := fun e => h (by simp [e])
    simp [splitOnce, hx, ih hxs]

theorem splitOnce_none_of_not_mem {c : UInt8} {b : Bytes} (h : c ∉ b) : splitOnce c b = none := by
  induction b with
  | nil => simp [splitOnce]
  | cons x xs ih =>
    have hx : x ≠ c := fun e => h (by simp [e])
    have hxs : c ∉ xs := fun e => h (by simp [e])
    simp [splitOnce, hx, ih hxs]

theorem stripSlash_cons (r : Bytes) : stripSlash (slash :: r) = some r := by simp [stripSlash]

/-- both styles on the object / trailing-slash forms -/
theorem style_equiv (b k : Bytes) (h : slash ∉ b) :
    parsePathStyle (slash :: (b ++ slash :: k)) = parseVirtualHostedStyle (some b) (slash :: k) := by
  unfold parsePathStyle parseVirtualHostedStyle
  simp only [stripSlash_cons]
  have hne : (b ++ slash :: k).isEmpty = false := by cases b <;> simp
  simp only [hne, splitBucketKey, splitOnce_append_of_not_mem h]
  cases k with
  | nil => simp
  | cons x xs => simp

/-- both styles on the bucket-only form -/
theorem style_equiv_bucket (b : Bytes) (h : slash ∉ b) (hne : b ≠ []) :
    parsePathStyle (slash :: b) = parseVirtualHostedStyle (some b) [slash] := by
  unfold parsePathStyle parseVirtualHostedStyle
  simp only [stripSlash_cons]
  have hne' : b.isEmpty = false := by cases b <;> simp_all
  simp [hne', splitBucketKey, splitOnce_none_of_not_mem h]

end S3V.Path
