import S3V.Spec.SigV2
/-!
# Lemmas: the string to sign determines its six components (C11)

`render` writes method, Content-MD5, Content-Type and Date each followed by `\n`, then one line
`name:value\n` per canonical `x-amz-` header, then the resource. No component but the last can contain
`\n`, header names contain no `:` and start with `x`, the resource starts with `/`: so the text splits
back uniquely.
-/
namespace S3V.SigV2Spec
open S3V

/-- side conditions under which a view can be read back from its rendering -/
def View.ok (v : View) : Bool :=
  v.method.all (· ≠ 10) && v.contentMd5.all (· ≠ 10) && v.contentType.all (· ≠ 10) && v.date.all (· ≠ 10)
    && v.amz.all (fun h => h.1.head? = some 120 && h.1.all (fun c => c ≠ 58 && c ≠ 10) && h.2.all (· ≠ 10))
    && v.resource.head? = some 47

/-- text up to a separator that it does not contain is determined by the whole -/
theorem split_unique (c : UInt8) {a a' x x' : Bytes} (ha : a.all (· ≠ c) = true) (ha' : a'.all (· ≠ c) = true)
    (h : a ++ c :: x = a' ++ c :: x') : a = a' ∧ x = x' := by
  induction a generalizing a' with
  | nil =>
    cases a' with
    | nil => simp at h; exact ⟨rfl, h⟩
    | cons b bs =>
      simp at h ha'
      exact absurd h.1.symm ha'.1
  | cons b bs ih =>
    cases a' with
    | nil =>
      simp at h ha
      exact absurd h.1 ha.1
    | cons b' bs' =>
      simp only [List.cons_append, List.cons.injEq] at h
      simp only [List.all_cons, Bool.and_eq_true] at ha ha'
      obtain ⟨rfl, h⟩ := h
      obtain ⟨rfl, hx⟩ := ih ha.2 ha'.2 h
      exact ⟨rfl, hx⟩

theorem amz_block_unique {l l' : List (Bytes × Bytes)} {res res' : Bytes}
    (hl : l.all (fun h => h.1.head? = some 120 && h.1.all (fun c => c ≠ 58 && c ≠ 10) && h.2.all (· ≠ 10)) = true)
    (hl' : l'.all (fun h => h.1.head? = some 120 && h.1.all (fun c => c ≠ 58 && c ≠ 10) && h.2.all (· ≠ 10)) = true)
    (hr : res.head? = some 47) (hr' : res'.head? = some 47)
    (h : l.flatMap amzLine ++ res = l'.flatMap amzLine ++ res') : l = l' ∧ res = res' := by
  induction l generalizing l' with
  | nil =>
    cases l' with
    | nil => simpa using h
    | cons p ps =>
      exfalso
      simp only [List.all_cons, Bool.and_eq_true] at hl'
      obtain ⟨n, v⟩ := p
      cases n with
      | nil => simp at hl'
      | cons c cs =>
        simp at hl'
        cases res with
        | nil => simp at hr
        | cons d ds =>
          simp at hr
          simp [amzLine] at h
          have := h.1
          rw [hr, hl'.1.1.1] at this
          cases this
  | cons p ps ih =>
    cases l' with
    | nil =>
      exfalso
      simp only [List.all_cons, Bool.and_eq_true] at hl
      obtain ⟨n, v⟩ := p
      cases n with
      | nil => simp at hl
      | cons c cs =>
        simp at hl
        cases res' with
        | nil => simp at hr'
        | cons d ds =>
          simp at hr'
          simp [amzLine] at h
          have := h.1
          rw [hr', hl.1.1.1] at this
          cases this
    | cons p' ps' =>
      simp only [List.all_cons, Bool.and_eq_true] at hl hl'
      obtain ⟨n, v⟩ := p
      obtain ⟨n', v'⟩ := p'
      simp only [List.flatMap_cons, amzLine, List.append_assoc, List.cons_append, List.nil_append] at h
      have hn : n.all (· ≠ 58) = true := by
        have := hl.1.1.2
        rw [List.all_eq_true] at this ⊢
        intro c hc; have := this c hc; simp at this ⊢; exact this.1
      have hn' : n'.all (· ≠ 58) = true := by
        have := hl'.1.1.2
        rw [List.all_eq_true] at this ⊢
        intro c hc; have := this c hc; simp at this ⊢; exact this.1
      obtain ⟨e1, g1⟩ := split_unique 58 hn hn' h
      obtain ⟨e2, g2⟩ := split_unique 10 hl.1.2 hl'.1.2 g1
      obtain ⟨e3, hres⟩ := ih hl.2 hl'.2 g2
      subst e1 e2 e3
      exact ⟨rfl, hres⟩

/-- the rendering is injective on views that satisfy the side conditions -/
theorem render_injective {v v' : View} (hv : v.ok = true) (hv' : v'.ok = true) (h : render v = render v') :
    v = v' := by
  obtain ⟨m, md5, ct, d, amz, res⟩ := v
  obtain ⟨m', md5', ct', d', amz', res'⟩ := v'
  simp only [View.ok, Bool.and_eq_true, decide_eq_true_eq] at hv hv'
  obtain ⟨⟨⟨⟨⟨h1, h2⟩, h3⟩, h4⟩, h5⟩, h6⟩ := hv
  obtain ⟨⟨⟨⟨⟨h1', h2'⟩, h3'⟩, h4'⟩, h5'⟩, h6'⟩ := hv'
  simp only [render, List.append_assoc, List.cons_append] at h
  obtain ⟨e1, g1⟩ := split_unique 10 h1 h1' h
  obtain ⟨e2, g2⟩ := split_unique 10 h2 h2' g1
  obtain ⟨e3, g3⟩ := split_unique 10 h3 h3' g2
  obtain ⟨e4, g4⟩ := split_unique 10 h4 h4' g3
  obtain ⟨e5, e6⟩ := amz_block_unique h5 h5' h6 h6' g4
  subst e1 e2 e3 e4 e5 e6
  rfl

end S3V.SigV2Spec
