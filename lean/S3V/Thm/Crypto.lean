import S3V.Crypto.All
/-!
# Facts about the executable crypto library that models and drivers may rely on

Output lengths, the hex round trip, the base64 round trip. (What the functions *compute* is validated against the
Rust crates by component `crypto`, not proved: a proof that this SHA-256 is "the" SHA-256 has nothing to be
stated against except the same definition again.)
-/
namespace S3V.Crypto

/-! ## output lengths -/

theorem sha256_length (m : Bytes) : (sha256 m).length = 32 := rfl
theorem sha1_length (m : Bytes) : (sha1 m).length = 20 := rfl
theorem md5_length (m : Bytes) : (md5 m).length = 16 := rfl

theorem hmac_length {H : Bytes → Bytes} {n : Nat} (hH : ∀ x, (H x).length = n) (bs : Nat) (key msg : Bytes) :
    (hmac H bs key msg).length = n := hH _

theorem hmacSha256_length (key msg : Bytes) : (hmacSha256 key msg).length = 32 := rfl
theorem hmacSha1_length (key msg : Bytes) : (hmacSha1 key msg).length = 20 := rfl

theorem crc32_lt (m : Bytes) : crc32 m < 4294967296 := UInt32.toNat_lt _
theorem crc32c_lt (m : Bytes) : crc32c m < 4294967296 := UInt32.toNat_lt _
theorem u32BE_length (n : Nat) : (u32BE n).length = 4 := rfl

theorem hexLower_length (b : Bytes) : (hexLower b).length = 2 * b.length := by
  induction b with
  | nil => rfl
  | cons x xs ih => simp [hexLower, List.flatMap_cons] at ih ⊢; omega

/-! ## hex round trip -/

theorem hexNib_toNat {n : Nat} (h : n < 16) :
    (hexNib n).toNat = if n < 10 then 48 + n else 87 + n := by
  unfold hexNib
  split <;> simp [UInt8.toNat_ofNat] <;> omega

theorem hexNibVal_hexNib {n : Nat} (h : n < 16) : hexNibVal (hexNib n) = some n := by
  have := hexNib_toNat h
  unfold hexNibVal
  simp only [this]
  split <;> rename_i h10
  · simp; omega
  · have h1 : ¬ (48 ≤ 87 + n ∧ 87 + n ≤ 57) := by omega
    have h2 : 97 ≤ 87 + n ∧ 87 + n ≤ 102 := by omega
    simp [h1, h2]

theorem hexNibValAny_hexNib {n : Nat} (h : n < 16) : hexNibValAny (hexNib n) = some n := by
  have := hexNib_toNat h
  unfold hexNibValAny
  simp only [this]
  split <;> rename_i h10
  · simp; omega
  · have h1 : ¬ (48 ≤ 87 + n ∧ 87 + n ≤ 57) := by omega
    have h2 : 97 ≤ 87 + n ∧ 87 + n ≤ 102 := by omega
    simp [h1, h2]

theorem byte_of_nibbles (x : UInt8) : UInt8.ofNat (x.toNat / 16 * 16 + x.toNat % 16) = x := by
  have : x.toNat / 16 * 16 + x.toNat % 16 = x.toNat := by omega
  rw [this, UInt8.ofNat_toNat]

theorem hexDecodeAux_hexLower (val : UInt8 → Option Nat) (hval : ∀ n, n < 16 → val (hexNib n) = some n)
    (b : Bytes) : ∀ acc, hexDecodeAux val (hexLower b) acc = some (acc.reverse ++ b) := by
  induction b with
  | nil => intro acc; simp [hexLower, hexDecodeAux]
  | cons x xs ih =>
    intro acc
    have hx := x.toNat_lt
    have e : hexLower (x :: xs) = hexNib (x.toNat / 16) :: hexNib (x.toNat % 16) :: hexLower xs := by
      simp [hexLower, List.flatMap_cons]
    rw [e, hexDecodeAux, hval _ (by omega), hval _ (by omega)]
    simp only []
    rw [ih, byte_of_nibbles]
    simp

/-- decoding what `hexLower` produced gives the bytes back -/
theorem hexLowerDecode_hexLower (b : Bytes) : hexLowerDecode (hexLower b) = some b := by
  simpa [hexLowerDecode] using hexDecodeAux_hexLower hexNibVal (fun _ h => hexNibVal_hexNib h) b []

theorem hexAnyDecode_hexLower (b : Bytes) : hexAnyDecode (hexLower b) = some b := by
  simpa [hexAnyDecode] using hexDecodeAux_hexLower hexNibValAny (fun _ h => hexNibValAny_hexNib h) b []

/-- `hexLower` is injective (distinct digests have distinct hex texts) -/
theorem hexLower_injective {a b : Bytes} (h : hexLower a = hexLower b) : a = b := by
  have := hexLowerDecode_hexLower a
  rw [h, hexLowerDecode_hexLower] at this
  exact (Option.some.inj this).symm

/-! ## base64 round trip -/

theorem b64Val_b64Char_all : ∀ v, v < 64 → b64Val (b64Char false v) = some v ∧ b64Char false v ≠ 61 := by
  decide +kernel

theorem b64Val_b64Char {v : Nat} (h : v < 64) : b64Val (b64Char false v) = some v :=
  (b64Val_b64Char_all v h).1

theorem b64Char_ne_pad {v : Nat} (h : v < 64) : b64Char false v ≠ 61 :=
  (b64Val_b64Char_all v h).2

theorem b64EncAux_eq (url pad : Bool) (l : Bytes) :
    ∀ acc, b64EncAux url pad l acc = acc.reverse ++ b64EncRef url pad l := by
  fun_induction b64EncRef url pad l with
  | case1 a b c rest n ih =>
    intro acc
    rw [b64EncAux, ih]
    simp [n]
  | case2 l hl =>
    intro acc
    rw [b64EncAux]
    · simp [List.reverseAux_eq]
    · exact hl

theorem base64Encode_eq_ref (b : Bytes) : base64Encode b = b64EncRef false true b := by
  simp [base64Encode, b64EncAux_eq]

theorem base64UrlNoPadEncode_eq_ref (b : Bytes) : base64UrlNoPadEncode b = b64EncRef true false b := by
  simp [base64UrlNoPadEncode, b64EncAux_eq]

theorem b64DecAux_eq (s : Bytes) :
    ∀ acc, b64DecAux s acc = (b64DecRef s).map (acc.reverse ++ ·) := by
  fun_induction b64DecRef s with
  | case1 => intro acc; simp [b64DecAux]
  | case2 a b c d rest hr =>
    intro acc
    rw [b64DecAux]
    simp [hr, List.reverseAux_eq]
  | case3 a b c d rest hr q hq ih =>
    intro acc
    rw [b64DecAux]
    simp [hr, hq, ih, List.reverseAux_eq]
    rfl
  | case4 a b c d rest hr hq =>
    intro acc
    rw [b64DecAux]
    simp [hr, hq]
  | case5 s h1 h2 =>
    intro acc
    rw [b64DecAux]
    · simp
    · exact h1
    · exact h2

theorem base64Decode_eq_ref (s : Bytes) : base64Decode s = b64DecRef s := by
  simp [base64Decode, b64DecAux_eq]


theorem b64EncRef_eq_nil {url pad : Bool} {l : Bytes} (h : b64EncRef url pad l = []) : l = [] := by
  match l with
  | [] => rfl
  | [a] => simp [b64EncRef, b64Tail] at h
  | [a, b] => simp [b64EncRef, b64Tail] at h
  | a :: b :: c :: rest => simp [b64EncRef] at h

theorem quad_arith (a b c : Nat) (ha : a < 256) (hb : b < 256) (hc : c < 256) :
    let n := a * 65536 + b * 256 + c
    n / 262144 < 64 ∧ n / 4096 % 64 < 64 ∧ n / 64 % 64 < 64 ∧ n % 64 < 64 ∧
    (let m := n / 262144 * 262144 + n / 4096 % 64 * 4096 + n / 64 % 64 * 64 + n % 64
     m / 65536 = a ∧ m / 256 % 256 = b ∧ m % 256 = c) := by
  intro n
  have e : n / 262144 * 262144 + n / 4096 % 64 * 4096 + n / 64 % 64 * 64 + n % 64 = n := by omega
  simp only [e]
  omega

theorem toNat_lt_256 (a : UInt8) : a.toNat < 256 := a.toNat_lt

theorem b64Quad_enc (a b c : UInt8) :
    b64Quad (b64Char false ((a.toNat * 65536 + b.toNat * 256 + c.toNat) / 262144))
      (b64Char false ((a.toNat * 65536 + b.toNat * 256 + c.toNat) / 4096 % 64))
      (b64Char false ((a.toNat * 65536 + b.toNat * 256 + c.toNat) / 64 % 64))
      (b64Char false ((a.toNat * 65536 + b.toNat * 256 + c.toNat) % 64)) = some [a, b, c] := by
  obtain ⟨h1, h2, h3, h4, e1, e2, e3⟩ :=
    quad_arith a.toNat b.toNat c.toNat (toNat_lt_256 a) (toNat_lt_256 b) (toNat_lt_256 c)
  unfold b64Quad
  rw [b64Val_b64Char h1, b64Val_b64Char h2, b64Val_b64Char h3, b64Val_b64Char h4]
  simp only []
  rw [e1, e2, e3]
  simp [UInt8.ofNat_toNat]


theorem tail1_arith (a : Nat) (ha : a < 256) :
    let n := a * 65536
    n / 262144 < 64 ∧ n / 4096 % 64 < 64 ∧ n / 4096 % 64 % 16 = 0 ∧
      (n / 262144 * 64 + n / 4096 % 64) / 16 = a := by
  intro n; omega

theorem tail2_arith (a b : Nat) (ha : a < 256) (hb : b < 256) :
    let n := a * 65536 + b * 256
    n / 262144 < 64 ∧ n / 4096 % 64 < 64 ∧ n / 64 % 64 < 64 ∧ n / 64 % 64 % 4 = 0 ∧
      (n / 262144 * 4096 + n / 4096 % 64 * 64 + n / 64 % 64) / 1024 = a ∧
      (n / 262144 * 4096 + n / 4096 % 64 * 64 + n / 64 % 64) / 4 % 256 = b := by
  intro n; omega

theorem b64LastQuad_enc1 (a : UInt8) :
    b64LastQuad (b64Char false (a.toNat * 65536 / 262144)) (b64Char false (a.toNat * 65536 / 4096 % 64)) 61 61
      = some [a] := by
  obtain ⟨h1, h2, h3, e⟩ := tail1_arith a.toNat (toNat_lt_256 a)
  unfold b64LastQuad
  rw [b64Val_b64Char h1, b64Val_b64Char h2]
  simp only [if_true, h3, e]
  simp [UInt8.ofNat_toNat]

theorem b64LastQuad_enc2 (a b : UInt8) :
    b64LastQuad (b64Char false ((a.toNat * 65536 + b.toNat * 256) / 262144))
      (b64Char false ((a.toNat * 65536 + b.toNat * 256) / 4096 % 64))
      (b64Char false ((a.toNat * 65536 + b.toNat * 256) / 64 % 64)) 61 = some [a, b] := by
  obtain ⟨h1, h2, h3, h4, e1, e2⟩ := tail2_arith a.toNat b.toNat (toNat_lt_256 a) (toNat_lt_256 b)
  unfold b64LastQuad
  rw [if_pos rfl, if_neg (b64Char_ne_pad h3), b64Val_b64Char h1, b64Val_b64Char h2, b64Val_b64Char h3]
  simp only [h4, if_true, e1, e2]
  simp [UInt8.ofNat_toNat]

theorem b64LastQuad_enc3 (a b c : UInt8) :
    b64LastQuad (b64Char false ((a.toNat * 65536 + b.toNat * 256 + c.toNat) / 262144))
      (b64Char false ((a.toNat * 65536 + b.toNat * 256 + c.toNat) / 4096 % 64))
      (b64Char false ((a.toNat * 65536 + b.toNat * 256 + c.toNat) / 64 % 64))
      (b64Char false ((a.toNat * 65536 + b.toNat * 256 + c.toNat) % 64)) = some [a, b, c] := by
  obtain ⟨_, _, _, h4, _⟩ :=
    quad_arith a.toNat b.toNat c.toNat (toNat_lt_256 a) (toNat_lt_256 b) (toNat_lt_256 c)
  unfold b64LastQuad
  rw [if_neg (b64Char_ne_pad h4)]
  exact b64Quad_enc a b c

/-- the strict decoder inverts the padded standard encoder (reference forms) -/
theorem b64DecRef_b64EncRef (l : Bytes) : b64DecRef (b64EncRef false true l) = some l := by
  fun_induction b64EncRef false true l with
  | case1 a b c rest n ih =>
    rw [b64DecRef]
    by_cases hr : rest = []
    · subst hr
      have : b64EncRef false true [] = [] := by simp [b64EncRef, b64Tail]
      rw [this]
      simp only [List.isEmpty_nil, if_true]
      exact b64LastQuad_enc3 a b c
    · have hne : (b64EncRef false true rest).isEmpty = false := by
        cases h : b64EncRef false true rest with
        | nil => exact absurd (b64EncRef_eq_nil h) hr
        | cons _ _ => rfl
      rw [hne]
      simp only [Bool.false_eq_true, if_false]
      rw [show b64Quad _ _ _ _ = some [a, b, c] from b64Quad_enc a b c, ih]
      simp
  | case2 l hl =>
    match l, hl with
    | [], _ => simp [b64Tail, b64DecRef]
    | [a], _ =>
      simp only [b64Tail, if_true, List.cons_append, List.nil_append, b64DecRef, List.isEmpty_nil]
      exact b64LastQuad_enc1 a
    | [a, b], _ =>
      simp only [b64Tail, if_true, List.cons_append, List.nil_append, b64DecRef, List.isEmpty_nil]
      exact b64LastQuad_enc2 a b
    | a :: b :: c :: rest, hl => exact absurd rfl (hl a b c rest)

/-- `base64Decode (base64Encode b) = some b` -/
theorem base64Decode_base64Encode (b : Bytes) : base64Decode (base64Encode b) = some b := by
  rw [base64Encode_eq_ref, base64Decode_eq_ref, b64DecRef_b64EncRef]

theorem base64Encode_injective {a b : Bytes} (h : base64Encode a = base64Encode b) : a = b := by
  have := base64Decode_base64Encode a
  rw [h, base64Decode_base64Encode] at this
  exact (Option.some.inj this).symm

end S3V.Crypto

/-! ## base64 lengths -/
namespace S3V.Crypto

theorem b64EncRef_pad_length (url : Bool) (l : Bytes) :
    (b64EncRef url true l).length = 4 * ((l.length + 2) / 3) := by
  fun_induction b64EncRef url true l with
  | case1 a b c rest n ih => simp only [List.length_cons, ih]; omega
  | case2 l hl =>
    match l, hl with
    | [], _ => simp [b64Tail]
    | [a], _ => simp [b64Tail]
    | [a, b], _ => simp [b64Tail]
    | a :: b :: c :: rest, hl => exact absurd rfl (hl a b c rest)

/-- padded base64 text of `n` bytes has `4 * ⌈n / 3⌉` characters (28 for SHA-1, 44 for SHA-256, 8 for CRC-32) -/
theorem base64Encode_length (b : Bytes) : (base64Encode b).length = 4 * ((b.length + 2) / 3) := by
  rw [base64Encode_eq_ref, b64EncRef_pad_length]

end S3V.Crypto

/-! ## the strict decoders accept only canonical text (two-sided inverses) -/
namespace S3V.Crypto

theorem hexNib_of_hexNibVal {c : UInt8} {n : Nat} (h : hexNibVal c = some n) : n < 16 ∧ hexNib n = c := by
  unfold hexNibVal at h
  simp only [] at h
  split at h
  · rename_i hc
    injection h with h; subst h
    refine ⟨by omega, ?_⟩
    unfold hexNib
    rw [if_pos (by omega)]
    have : 48 + (c.toNat - 48) = c.toNat := by omega
    rw [this, UInt8.ofNat_toNat]
  · split at h
    · rename_i hc
      injection h with h; subst h
      refine ⟨by omega, ?_⟩
      unfold hexNib
      rw [if_neg (by omega)]
      have : 87 + (c.toNat - 87) = c.toNat := by omega
      rw [this, UInt8.ofNat_toNat]
    · cases h

theorem hexDecodeAux_eq_ref (val : UInt8 → Option Nat) (s : Bytes) :
    ∀ acc, hexDecodeAux val s acc = (hexDecodeRef val s).map (acc.reverse ++ ·) := by
  fun_induction hexDecodeRef val s with
  | case1 => intro acc; simp [hexDecodeAux]
  | case2 => intro acc; simp [hexDecodeAux]
  | case3 a b rest x y hx hy ih =>
    intro acc
    rw [hexDecodeAux]
    simp only [hx, hy, ih, Option.map_map]
    congr 1
    funext l
    simp
  | case4 a b rest h =>
    intro acc
    rw [hexDecodeAux]
    split
    · rename_i x y hx hy; exact absurd hy (by simpa using h x y hx)
    · simp

theorem hexLowerDecode_eq_ref (s : Bytes) : hexLowerDecode s = hexDecodeRef hexNibVal s := by
  simp [hexLowerDecode, hexDecodeAux_eq_ref]

theorem hexLower_of_hexDecodeRef (s : Bytes) :
    ∀ b, hexDecodeRef hexNibVal s = some b → hexLower b = s := by
  fun_induction hexDecodeRef hexNibVal s with
  | case1 => intro b h; injection h with h; subst h; rfl
  | case2 => intro b h; cases h
  | case3 a c rest x y hx hy ih =>
    intro b h
    cases hr : hexDecodeRef hexNibVal rest with
    | none => simp [hr] at h
    | some r =>
      simp only [hr, Option.map_some, Option.some.injEq] at h
      subst h
      obtain ⟨hx16, hxc⟩ := hexNib_of_hexNibVal hx
      obtain ⟨hy16, hyc⟩ := hexNib_of_hexNibVal hy
      have e : hexLower (UInt8.ofNat (x * 16 + y) :: r) =
          hexNib ((UInt8.ofNat (x * 16 + y)).toNat / 16) :: hexNib ((UInt8.ofNat (x * 16 + y)).toNat % 16) ::
            hexLower r := by
        simp [hexLower, List.flatMap_cons]
      have t : (UInt8.ofNat (x * 16 + y)).toNat = x * 16 + y := by
        simp [UInt8.toNat_ofNat]; omega
      rw [e, t, ih r hr]
      have d1 : (x * 16 + y) / 16 = x := by omega
      have d2 : (x * 16 + y) % 16 = y := by omega
      rw [d1, d2, hxc, hyc]
  | case4 a c rest h => intro b hb; cases hb

/-- the strict decoder accepts only what `hexLower` produces: it is a two-sided inverse -/
theorem hexLower_of_hexLowerDecode {s b : Bytes} (h : hexLowerDecode s = some b) : hexLower b = s :=
  hexLower_of_hexDecodeRef s b (by rw [← hexLowerDecode_eq_ref]; exact h)

/-- exact characterisation of the strict hex decoder -/
theorem hexLowerDecode_eq_some_iff (s b : Bytes) : hexLowerDecode s = some b ↔ s = hexLower b :=
  ⟨fun h => (hexLower_of_hexLowerDecode h).symm, fun h => h ▸ hexLowerDecode_hexLower b⟩

end S3V.Crypto

namespace S3V.Crypto

theorem b64Char_of_b64Val {c : UInt8} {v : Nat} (h : b64Val c = some v) : v < 64 ∧ b64Char false v = c := by
  unfold b64Val at h
  simp only [] at h
  have key : ∀ k, k = c.toNat → UInt8.ofNat k = c := fun k hk => by rw [hk, UInt8.ofNat_toNat]
  split at h
  · injection h with h; subst h
    refine ⟨by omega, ?_⟩
    unfold b64Char; rw [if_pos (by omega)]; exact key _ (by omega)
  · split at h
    · injection h with h; subst h
      refine ⟨by omega, ?_⟩
      unfold b64Char; rw [if_neg (by omega), if_pos (by omega)]; exact key _ (by omega)
    · split at h
      · injection h with h; subst h
        refine ⟨by omega, ?_⟩
        unfold b64Char; rw [if_neg (by omega), if_neg (by omega), if_pos (by omega)]; exact key _ (by omega)
      · split at h
        · rename_i h43
          injection h with h; subst h
          refine ⟨by omega, ?_⟩
          have : (43 : UInt8) = c := key 43 h43.symm
          rw [← this]; decide
        · split at h
          · rename_i h47
            injection h with h; subst h
            refine ⟨by omega, ?_⟩
            have : (47 : UInt8) = c := key 47 h47.symm
            rw [← this]; decide
          · cases h

theorem b64Val_pad : b64Val 61 = none := by decide

theorem unquad_arith (w x y z : Nat) (hw : w < 64) (hx : x < 64) (hy : y < 64) (hz : z < 64) :
    let n := w * 262144 + x * 4096 + y * 64 + z
    n / 65536 < 256 ∧ n / 256 % 256 < 256 ∧ n % 256 < 256 ∧
    (let m := n / 65536 * 65536 + n / 256 % 256 * 256 + n % 256
     m / 262144 = w ∧ m / 4096 % 64 = x ∧ m / 64 % 64 = y ∧ m % 64 = z) := by
  intro n
  have e : n / 65536 * 65536 + n / 256 % 256 * 256 + n % 256 = n := by omega
  simp only [e]
  omega

theorem toNat_ofNat_lt {k : Nat} (h : k < 256) : (UInt8.ofNat k).toNat = k := by
  simp; omega

/-- a full quad decodes to three bytes whose encoding is the quad -/
theorem b64Quad_sound {a b c d : UInt8} {q : Bytes} (h : b64Quad a b c d = some q) :
    ∃ A B C, q = [A, B, C] ∧ ∀ rest, b64EncRef false true (A :: B :: C :: rest) =
      a :: b :: c :: d :: b64EncRef false true rest := by
  unfold b64Quad at h
  split at h
  · rename_i w x y z hw hx hy hz
    obtain ⟨hw64, hwc⟩ := b64Char_of_b64Val hw
    obtain ⟨hx64, hxc⟩ := b64Char_of_b64Val hx
    obtain ⟨hy64, hyc⟩ := b64Char_of_b64Val hy
    obtain ⟨hz64, hzc⟩ := b64Char_of_b64Val hz
    obtain ⟨l1, l2, l3, e1, e2, e3, e4⟩ := unquad_arith w x y z hw64 hx64 hy64 hz64
    injection h with h
    refine ⟨_, _, _, h.symm, fun rest => ?_⟩
    rw [b64EncRef]
    simp only [toNat_ofNat_lt l1, toNat_ofNat_lt l2, toNat_ofNat_lt l3, e1, e2, e3, e4, hwc, hxc, hyc, hzc]
  · cases h

theorem untail1_arith (w x : Nat) (hw : w < 64) (hx : x < 64) (h0 : x % 16 = 0) :
    (w * 64 + x) / 16 < 256 ∧ (w * 64 + x) / 16 * 65536 / 262144 = w ∧
      (w * 64 + x) / 16 * 65536 / 4096 % 64 = x := by omega

theorem untail2_arith (w x y : Nat) (hw : w < 64) (hx : x < 64) (hy : y < 64) (h0 : y % 4 = 0) :
    let n := w * 4096 + x * 64 + y
    n / 1024 < 256 ∧ n / 4 % 256 < 256 ∧
    (let m := n / 1024 * 65536 + n / 4 % 256 * 256
     m / 262144 = w ∧ m / 4096 % 64 = x ∧ m / 64 % 64 = y) := by
  intro n
  have e : n / 1024 * 65536 + n / 4 % 256 * 256 = n * 64 := by omega
  simp only [e]
  omega

theorem b64EncRef_nil : b64EncRef false true [] = [] := by simp [b64EncRef, b64Tail]

theorem b64LastQuad_sound {a b c d : UInt8} {q : Bytes} (h : b64LastQuad a b c d = some q) :
    b64EncRef false true q = [a, b, c, d] := by
  unfold b64LastQuad at h
  split at h
  · rename_i hd
    split at h
    · rename_i hc
      split at h
      · rename_i w x hw hx
        split at h
        · rename_i h0
          obtain ⟨hw64, hwc⟩ := b64Char_of_b64Val hw
          obtain ⟨hx64, hxc⟩ := b64Char_of_b64Val hx
          obtain ⟨l, e1, e2⟩ := untail1_arith w x hw64 hx64 h0
          injection h with h
          subst h
          simp only [b64EncRef, b64Tail, toNat_ofNat_lt l, e1, e2, hwc, hxc, hc, hd, if_true,
            List.cons_append, List.nil_append]
        · cases h
      · cases h
    · split at h
      · rename_i w x y hw hx hy
        split at h
        · rename_i h0
          obtain ⟨hw64, hwc⟩ := b64Char_of_b64Val hw
          obtain ⟨hx64, hxc⟩ := b64Char_of_b64Val hx
          obtain ⟨hy64, hyc⟩ := b64Char_of_b64Val hy
          obtain ⟨l1, l2, e1, e2, e3⟩ := untail2_arith w x y hw64 hx64 hy64 h0
          injection h with h
          subst h
          simp only [b64EncRef, b64Tail, toNat_ofNat_lt l1, toNat_ofNat_lt l2, e1, e2, e3, hwc, hxc, hyc, hd,
            if_true, List.cons_append, List.nil_append]
        · cases h
      · cases h
  · obtain ⟨A, B, C, hq, henc⟩ := b64Quad_sound h
    rw [hq, henc [], b64EncRef_nil]

/-- the strict decoder accepts only canonical text: whatever it decodes re-encodes to the same string -/
theorem b64EncRef_of_b64DecRef (s : Bytes) : ∀ b, b64DecRef s = some b → b64EncRef false true b = s := by
  fun_induction b64DecRef s with
  | case1 => intro b h; injection h with h; subst h; exact b64EncRef_nil
  | case2 a b c d rest hr =>
    intro q h
    have : rest = [] := by simpa using hr
    subst this
    exact b64LastQuad_sound h
  | case3 a b c d rest hr q hq ih =>
    intro r h
    cases hd : b64DecRef rest with
    | none => simp [hd] at h
    | some t =>
      simp only [hd, Option.map_some, Option.some.injEq] at h
      subst h
      obtain ⟨A, B, C, hq', henc⟩ := b64Quad_sound hq
      rw [hq']
      simp only [List.cons_append, List.nil_append]
      rw [henc t, ih t hd]
  | case4 a b c d rest hr hq => intro b h; cases h
  | case5 s h1 h2 => intro b h; cases h

theorem base64Encode_of_base64Decode {s b : Bytes} (h : base64Decode s = some b) : base64Encode b = s := by
  rw [base64Encode_eq_ref]
  exact b64EncRef_of_b64DecRef s b (by rw [← base64Decode_eq_ref]; exact h)

/-- exact characterisation of the strict decoder -/
theorem base64Decode_eq_some_iff (s b : Bytes) : base64Decode s = some b ↔ s = base64Encode b :=
  ⟨fun h => (base64Encode_of_base64Decode h).symm, fun h => h ▸ base64Decode_base64Encode b⟩

end S3V.Crypto
