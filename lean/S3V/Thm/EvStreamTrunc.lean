import S3V.Thm.EvStream
import S3V.Thm.Utf8Prefix
/-!
# Lemmas for C15: the cut of `truncate_header_value` is the longest valid UTF-8 prefix

`truncate_header_value` (model: `truncateHeaderValue`, `truncEnd`, `isCharBoundary`) walks back from byte
`min(len, 65535)` to the nearest `str::is_char_boundary`. `is_char_boundary` only looks at one byte (is it a
continuation byte `0b10xxxxxx`?). The spec (`expectedHeaderText`) talks about well-formed UTF-8 (`utf8Valid`,
the strict decoder of `S3V/Base/Utf8.lean`). This file connects the two for every text that is well-formed
UTF-8 (the invariant of a Rust `&str`), for a generic limit `n` (the code uses 65 535):

* `utf8Valid_take_iff_boundary` — a prefix `s.take k` is well-formed iff `k` is a character boundary of `s`;
* `truncEnd_max` — `truncEnd s n` is the largest boundary `≤ n`;
* `truncEnd_near` — a boundary is never more than 3 bytes below `n` (a sequence has at most 4 bytes);
* `truncateTo_valid`, `truncateTo_maximal` — the cut is well-formed and no longer prefix within the limit is;
* `expectedTextN_eq_truncateTo` — the spec's executable "first well-formed of the four candidates
  `n … n-3`" is that cut.
-/
namespace S3V.EvStreamThm
open S3V S3V.EvStream S3V.EvStreamSpec

/-! ## the cut and the spec function with a generic limit -/

/-- `truncate_header_value` with limit `n` in place of `u16::MAX` -/
def truncateTo (n : Nat) (s : Bytes) : Bytes := s.take (truncEnd s (min s.length n))

theorem truncateHeaderValue_eq_truncateTo (s : Bytes) : truncateHeaderValue s = truncateTo 65535 s := rfl

/-- `expectedHeaderText` with limit `n` in place of `maxHeaderValue` -/
def expectedTextN (n : Nat) (orig : Bytes) : Option Bytes :=
  if orig.length ≤ n then some orig
  else ([n, n - 1, n - 2, n - 3].find? fun k => utf8Valid (orig.take k)).map fun k => orig.take k

theorem expectedHeaderText_eq_expectedTextN (s : Bytes) : expectedHeaderText s = expectedTextN 65535 s := rfl

/-! ## bytes -/

theorem isCont_iff (b : UInt8) : isCont b = true ↔ (128 ≤ b.toNat ∧ b.toNat < 192) := by
  unfold isCont
  simp only [decide_eq_true_eq]
  omega

theorem boundaryByte_iff (b : UInt8) :
    (decide (b.toNat < 128) || decide (192 ≤ b.toNat)) = true ↔ isCont b = false := by
  have := isCont_iff b
  cases hc : isCont b
  · simp only [hc, Bool.false_eq_true, false_iff] at this
    simp only [Bool.or_eq_true, decide_eq_true_eq, iff_true]
    omega
  · simp only [hc, true_iff] at this
    simp only [Bool.or_eq_true, decide_eq_true_eq, Bool.true_eq_false, iff_false]
    omega

/-- `is_char_boundary` said with `isCont` -/
theorem isCharBoundary_iff (s : Bytes) (k : Nat) :
    isCharBoundary s k = true ↔ k = 0 ∨ k = s.length ∨ ∃ b, s[k]? = some b ∧ isCont b = false := by
  unfold isCharBoundary
  by_cases h0 : k = 0
  · simp [h0]
  · rw [if_neg h0]
    by_cases hl : s.length ≤ k
    · rw [if_pos hl]
      have : s[k]? = none := List.getElem?_eq_none hl
      simp [this, h0]
    · rw [if_neg hl]
      have hlt : k < s.length := by omega
      have hg : s[k]? = some s[k] := List.getElem?_eq_getElem hlt
      rw [hg]
      simp only [boundaryByte_iff, Option.some.injEq, exists_eq_left', h0, false_or]
      constructor
      · intro h; exact Or.inr h
      · rintro (h | h)
        · omega
        · exact h

/-- the first byte of a sequence is not a continuation byte -/
theorem utf8DecodeOne_lead {c : UInt8} {x r : Bytes} {cp : Nat} (h : utf8DecodeOne (c :: x) = some (cp, r)) :
    isCont c = false := by
  by_cases h1 : c.toNat < 0x80
  · unfold isCont; simp only [decide_eq_false_iff_not]; omega
  · by_cases h2 : c.toNat < 0xC2
    · unfold utf8DecodeOne at h
      simp only [if_neg h1, if_pos h2] at h
      exact absurd h (by simp)
    · unfold isCont; simp only [decide_eq_false_iff_not]; omega

/-- a sequence has at most 4 bytes -/
theorem utf8DecodeOne_consumed_le {b r : Bytes} {cp : Nat} (h : utf8DecodeOne b = some (cp, r)) :
    b.length ≤ r.length + 4 := by
  cases b with
  | nil => exact absurd h (by simp [utf8DecodeOne])
  | cons b0 rest =>
    unfold utf8DecodeOne at h
    simp only at h
    by_cases h1 : b0.toNat < 0x80
    · rw [if_pos h1] at h
      simp only [Option.some.injEq, Prod.mk.injEq] at h
      obtain ⟨_, rfl⟩ := h
      simp only [List.length_cons]; omega
    · rw [if_neg h1] at h
      by_cases h2 : b0.toNat < 0xC2
      · rw [if_pos h2] at h; exact absurd h (by simp)
      · rw [if_neg h2] at h
        by_cases h3 : b0.toNat < 0xE0
        · rw [if_pos h3] at h
          match rest, h with
          | [], h => exact absurd h (by simp)
          | b1 :: r1, h =>
            simp only at h
            split at h
            · simp only [Option.some.injEq, Prod.mk.injEq] at h
              obtain ⟨_, rfl⟩ := h
              simp only [List.length_cons]; omega
            · exact absurd h (by simp)
        · rw [if_neg h3] at h
          by_cases h4 : b0.toNat < 0xF0
          · rw [if_pos h4] at h
            match rest, h with
            | [], h => exact absurd h (by simp)
            | [_], h => exact absurd h (by simp)
            | b1 :: b2 :: r2, h =>
              simp only at h
              split at h
              · split at h
                · exact absurd h (by simp)
                · simp only [Option.some.injEq, Prod.mk.injEq] at h
                  obtain ⟨_, rfl⟩ := h
                  simp only [List.length_cons]; omega
              · exact absurd h (by simp)
          · rw [if_neg h4] at h
            by_cases h5 : b0.toNat < 0xF5
            · rw [if_pos h5] at h
              match rest, h with
              | [], h => exact absurd h (by simp)
              | [_], h => exact absurd h (by simp)
              | [_, _], h => exact absurd h (by simp)
              | b1 :: b2 :: b3 :: r3, h =>
                simp only at h
                split at h
                · split at h
                  · exact absurd h (by simp)
                  · simp only [Option.some.injEq, Prod.mk.injEq] at h
                    obtain ⟨_, rfl⟩ := h
                    simp only [List.length_cons]; omega
                · exact absurd h (by simp)
            · rw [if_neg h5] at h; exact absurd h (by simp)

theorem utf8_inv {b : Bytes} (h : Utf8 b) : b = [] ∨ ∃ cp r, utf8DecodeOne b = some (cp, r) ∧ Utf8 r := by
  cases h with
  | nil => exact Or.inl rfl
  | step hd hr => exact Or.inr ⟨_, _, hd, hr⟩

/-- a well-formed text is empty or starts with a byte that is not a continuation byte -/
theorem utf8_head_not_cont {c : UInt8} {x : Bytes} (h : Utf8 (c :: x)) : isCont c = false := by
  rcases utf8_inv h with h | ⟨_, _, hd, _⟩
  · exact absurd h (by simp)
  · exact utf8DecodeOne_lead hd

/-! ## one decoding step: the first character of `b` has `L` bytes (1 ≤ L ≤ 4), the rest is `r` -/

theorem step_structure {b r : Bytes} {cp : Nat} (hd : utf8DecodeOne b = some (cp, r)) (hr : Utf8 r) :
    ∃ L, 1 ≤ L ∧ L ≤ 4 ∧ b.length = L + r.length ∧
      (∀ k, k ≤ b.length →
        (isCharBoundary b k = true ↔ k = 0 ∨ (L ≤ k ∧ isCharBoundary r (k - L) = true))) ∧
      (∀ k, L ≤ k → utf8DecodeOne (b.take k) = some (cp, r.take (k - L))) ∧
      (∀ k, 0 < k → k < L → ¬ Utf8 (b.take k)) := by
  have h4 := utf8DecodeOne_consumed_le hd
  cases b with
  | nil => exact absurd hd (by simp [utf8DecodeOne])
  | cons b0 rest =>
    obtain ⟨k0, hk0, rfl, hcont, hall⟩ := utf8DecodeOne_shape hd
    simp only [List.length_cons, List.length_drop] at h4
    refine ⟨k0 + 1, by omega, by omega, by simp only [List.length_cons, List.length_drop]; omega, ?_, ?_, ?_⟩
    · -- boundaries
      intro k hk
      simp only [List.length_cons] at hk
      cases k with
      | zero => simp [isCharBoundary]
      | succ j =>
        rw [isCharBoundary_iff, isCharBoundary_iff]
        simp only [List.length_cons, List.getElem?_cons_succ, Nat.add_right_cancel_iff, List.length_drop,
          Nat.add_one_ne_zero, false_or, Nat.add_le_add_iff_right, Nat.add_sub_add_right]
        constructor
        · rintro (h | ⟨c, hc, hnc⟩)
          · subst h; exact ⟨hk0, Or.inr (Or.inl rfl)⟩
          · have hle : k0 ≤ j := by
              apply Nat.le_of_not_lt
              intro hlt
              have hm : c ∈ rest.take k0 := by
                apply List.mem_of_getElem? (i := j)
                rw [List.getElem?_take, if_pos hlt, hc]
              rw [hcont c hm] at hnc
              exact absurd hnc (by simp)
            refine ⟨hle, Or.inr (Or.inr ⟨c, ?_, hnc⟩)⟩
            rw [List.getElem?_drop, ← hc]
            congr 1; omega
        · rintro ⟨hle, h | h | ⟨c, hc, hnc⟩⟩
          · have hj : j = k0 := by omega
            subst hj
            cases hrd : rest.drop j with
            | nil =>
              left
              have := congrArg List.length hrd
              simp only [List.length_drop, List.length_nil] at this
              omega
            | cons c x =>
              right
              rw [hrd] at hr
              refine ⟨c, ?_, utf8_head_not_cont hr⟩
              have : (rest.drop j)[0]? = some c := by rw [hrd]; rfl
              rw [List.getElem?_drop] at this
              simpa using this
          · left; omega
          · right
            refine ⟨c, ?_, hnc⟩
            rw [List.getElem?_drop] at hc
            rw [← hc]; congr 1; omega
    · -- a cut at or after the first character decodes the same first character
      intro k hk
      obtain ⟨i, rfl⟩ : ∃ i, k = (k0 + i) + 1 := ⟨k - (k0 + 1), by omega⟩
      rw [List.take_succ_cons]
      have := hall (rest.take (k0 + i)) (by rw [List.take_take]; congr 1; omega)
        (by rw [List.length_take]; omega)
      rw [this, List.drop_take]
      congr 3
      omega
    · -- a cut inside the first character is not well-formed
      intro k hk0' hkL hu
      obtain ⟨j, rfl⟩ : ∃ j, k = j + 1 := ⟨k - 1, by omega⟩
      rw [List.take_succ_cons] at hu
      rcases utf8_inv hu with h | ⟨cp', r', hd', _⟩
      · exact absurd h (by simp)
      · obtain ⟨k', hk', rfl, _, hall'⟩ := utf8DecodeOne_shape hd'
        rw [List.length_take] at hk'
        have := hall' rest (by rw [List.take_take]; congr 1; omega) (by omega)
        rw [hd] at this
        simp only [Option.some.injEq, Prod.mk.injEq] at this
        have hlen := congrArg List.length this.2
        simp only [List.length_drop] at hlen
        omega

/-! ## prefixes of a well-formed text -/

/-- a prefix of a well-formed text is well-formed iff it ends at a character boundary -/
theorem utf8_take_iff_boundary {s : Bytes} (hs : Utf8 s) :
    ∀ k, k ≤ s.length → (Utf8 (s.take k) ↔ isCharBoundary s k = true) := by
  induction hs with
  | nil =>
    intro k hk
    have : k = 0 := by simpa using hk
    subst this
    simp [isCharBoundary, Utf8.nil]
  | @step b r cp hd hr ih =>
    intro k hk
    obtain ⟨L, hL1, _, hlen, hb, hdec, hmid⟩ := step_structure hd hr
    rw [hb k hk]
    by_cases h0 : k = 0
    · subst h0; simp [Utf8.nil]
    · by_cases hkL : k < L
      · constructor
        · intro hu; exact absurd hu (hmid k (by omega) hkL)
        · rintro (h | ⟨h, _⟩) <;> omega
      · have hLk : L ≤ k := by omega
        have hd' := hdec k hLk
        rw [← ih (k - L) (by omega)]
        constructor
        · intro hu
          rcases utf8_inv hu with h | ⟨cp', r', hd'', hr'⟩
          · rw [h] at hd'; exact absurd hd' (by simp [utf8DecodeOne])
          · rw [hd'] at hd''
            simp only [Option.some.injEq, Prod.mk.injEq] at hd''
            obtain ⟨_, rfl⟩ := hd''
            exact Or.inr ⟨hLk, hr'⟩
        · rintro (h | ⟨_, h⟩)
          · omega
          · exact Utf8.step hd' h

/-- a well-formed text has a character boundary within 3 bytes below every index -/
theorem utf8_boundary_near {s : Bytes} (hs : Utf8 s) :
    ∀ n, n ≤ s.length → ∃ j, j ≤ n ∧ n ≤ j + 3 ∧ isCharBoundary s j = true := by
  induction hs with
  | nil =>
    intro n hn
    exact ⟨0, by omega, by simp at hn; omega, by simp [isCharBoundary]⟩
  | @step b r cp hd hr ih =>
    intro n hn
    obtain ⟨L, hL1, hL4, hlen, hb, _, _⟩ := step_structure hd hr
    by_cases hnL : n < L
    · exact ⟨0, by omega, by omega, by simp [isCharBoundary]⟩
    · obtain ⟨j, hj1, hj2, hj3⟩ := ih (n - L) (by omega)
      refine ⟨L + j, by omega, by omega, ?_⟩
      rw [hb (L + j) (by omega)]
      exact Or.inr ⟨by omega, by rwa [Nat.add_sub_cancel_left]⟩

/-- `utf8Valid` form: `s.take k` is valid UTF-8 iff `k` is a character boundary of `s` (for `k ≤ |s|`) -/
theorem utf8Valid_take_iff_boundary {s : Bytes} (hs : utf8Valid s = true) (k : Nat) (hk : k ≤ s.length) :
    utf8Valid (s.take k) = true ↔ isCharBoundary s k = true := by
  rw [utf8Valid_iff]
  exact utf8_take_iff_boundary ((utf8Valid_iff s).mp hs) k hk

/-! ## `truncEnd` is the largest boundary -/

/-- no boundary lies between `truncEnd s n` and `n` -/
theorem truncEnd_max (s : Bytes) : ∀ n k, k ≤ n → isCharBoundary s k = true → k ≤ truncEnd s n := by
  intro n
  induction n with
  | zero => intro k hk _; simp only [truncEnd]; omega
  | succ e ih =>
    intro k hk hb
    unfold truncEnd
    by_cases he : isCharBoundary s (e + 1) = true
    · rw [if_pos he]; exact hk
    · rw [if_neg he]
      have : k ≠ e + 1 := by intro h; subst h; exact he hb
      exact ih k (by omega) hb

/-- in a well-formed text the walk back is at most 3 bytes long -/
theorem truncEnd_near {s : Bytes} (hs : utf8Valid s = true) (n : Nat) (hn : n ≤ s.length) :
    n ≤ truncEnd s n + 3 := by
  obtain ⟨j, hj1, hj2, hj3⟩ := utf8_boundary_near ((utf8Valid_iff s).mp hs) n hn
  have := truncEnd_max s n j hj1 hj3
  omega

/-! ## the cut -/

theorem truncateTo_length (n : Nat) (s : Bytes) : (truncateTo n s).length = truncEnd s (min s.length n) := by
  unfold truncateTo
  have := truncEnd_le s (min s.length n)
  rw [List.length_take]
  omega

theorem truncateTo_length_le (n : Nat) (s : Bytes) : (truncateTo n s).length ≤ n := by
  rw [truncateTo_length]
  have := truncEnd_le s (min s.length n)
  omega

theorem truncateTo_prefix (n : Nat) (s : Bytes) : truncateTo n s <+: s := List.take_prefix _ _

theorem truncateTo_eq_self (n : Nat) (s : Bytes) (h : s.length ≤ n) : truncateTo n s = s := by
  unfold truncateTo
  rw [Nat.min_eq_left h, truncEnd_length, List.take_length]

/-- the cut of a well-formed text is well-formed -/
theorem truncateTo_valid (n : Nat) {s : Bytes} (hs : utf8Valid s = true) : utf8Valid (truncateTo n s) = true := by
  unfold truncateTo
  have h1 := truncEnd_le s (min s.length n)
  exact (utf8Valid_take_iff_boundary hs _ (by omega)).mpr (truncEnd_boundary s _)

/-- … and no longer prefix of the text of at most `n` bytes is -/
theorem truncateTo_maximal (n : Nat) {s : Bytes} (hs : utf8Valid s = true) (p : Bytes) (hp : p <+: s)
    (hpn : p.length ≤ n) (hlt : (truncateTo n s).length < p.length) : utf8Valid p = false := by
  have hpl : p.length ≤ s.length := hp.length_le
  have hpe : p = s.take p.length := List.prefix_iff_eq_take.mp hp
  cases hv : utf8Valid p with
  | false => rfl
  | true =>
    rw [hpe] at hv
    have hb := (utf8Valid_take_iff_boundary hs _ hpl).mp hv
    have := truncEnd_max s (min s.length n) p.length (by omega) hb
    rw [truncateTo_length] at hlt
    omega

/-- the spec's executable form (first well-formed candidate among `n, n-1, n-2, n-3`) is the cut -/
theorem expectedTextN_eq_truncateTo (n : Nat) (hn : 3 ≤ n) {s : Bytes} (hs : utf8Valid s = true) :
    expectedTextN n s = some (truncateTo n s) := by
  unfold expectedTextN
  by_cases hl : s.length ≤ n
  · rw [if_pos hl, truncateTo_eq_self n s hl]
  · rw [if_neg hl]
    have hmin : min s.length n = n := by omega
    have hlen := truncateTo_length n s
    rw [hmin] at hlen
    have hle := truncEnd_le s n
    have hnear := truncEnd_near hs n (by omega)
    have hval := truncateTo_valid n hs
    have hmax : ∀ k, truncEnd s n < k → k ≤ n → utf8Valid (s.take k) = false := by
      intro k h1 h2
      apply truncateTo_maximal n hs _ (List.take_prefix _ _)
      · rw [List.length_take]; omega
      · rw [hlen, List.length_take]; omega
    have hT : truncateTo n s = s.take (truncEnd s n) := by unfold truncateTo; rw [hmin]
    rw [hT] at hval ⊢
    generalize truncEnd s n = e at *
    have he : e = n ∨ e = n - 1 ∨ e = n - 2 ∨ e = n - 3 := by omega
    rcases he with rfl | rfl | rfl | rfl
    · simp [List.find?, hval]
    · simp [List.find?, hval, hmax n (by omega) (by omega)]
    · simp [List.find?, hval, hmax n (by omega) (by omega), hmax (n - 1) (by omega) (by omega)]
    · simp [List.find?, hval, hmax n (by omega) (by omega), hmax (n - 1) (by omega) (by omega),
        hmax (n - 2) (by omega) (by omega)]

/-- the declarative demand has at most one answer -/
theorem isLongestValidPrefix_unique {n : Nat} {s t t' : Bytes} (h : IsLongestValidPrefix n s t)
    (h' : IsLongestValidPrefix n s t') : t = t' := by
  obtain ⟨hp, hn, hv, hmax⟩ := h
  obtain ⟨hp', hn', hv', hmax'⟩ := h'
  have h1 := hmax t' hp' hn' hv'
  have h2 := hmax' t hp hn hv
  rw [List.prefix_iff_eq_take.mp hp, List.prefix_iff_eq_take.mp hp', show t.length = t'.length by omega]

/-- the cut is the longest well-formed prefix of at most `n` bytes -/
theorem truncateTo_isLongest (n : Nat) {s : Bytes} (hs : utf8Valid s = true) :
    IsLongestValidPrefix n s (truncateTo n s) := by
  refine ⟨truncateTo_prefix n s, truncateTo_length_le n s, truncateTo_valid n hs, ?_⟩
  intro p hp hpn hv
  apply Nat.le_of_not_lt
  intro hlt
  rw [truncateTo_maximal n hs p hp hpn hlt] at hv
  exact absurd hv (by simp)

end S3V.EvStreamThm
