import S3V.Thm.FsStorePartCopy
/-!
# C18: `delete_objects` refines the store (any keys: missing, repeated)
-/
namespace S3V.FsStore
open S3V.StoreSpec

theorem exceptMapM_ok {α β ε : Type} (f : α → Except ε β) (g : α → β) :
    ∀ (l : List α), (∀ a ∈ l, f a = .ok (g a)) → l.mapM f = .ok (l.map g) := by
  intro l
  induction l with
  | nil => intro _; rfl
  | cons a t ih =>
    intro h
    rw [List.mapM_cons, h a (by simp), ih fun x hx => h x (List.mem_cons_of_mem _ hx)]
    rfl

/-- the path a key names (for keys the backend accepts) -/
def pathOf (k : Bytes) : Path := (keyPath k).getD []

/-- `delete_objects` comparable: admissible bucket; when it exists the keys are canonical (or refused by both sides) and none
    names a directory left behind [fs:leftover-directory]. Keys that do not exist and keys named more than once are inside
    since c55c267 (every requested key is reported as deleted; before: fs:delete-objects-omits-missing-keys,
    fs:delete-objects-duplicate-key), and so is a request with a key both sides refuse (`InvalidArgument`). A bucket that does
    not exist is inside since 0f31b61, with any keys (`NoSuchBucket` on both sides, `InvalidArgument` when a key is refused;
    before: fs:delete-objects-in-missing-bucket) -/
def DeleteObjectsOk (s : State) (b : Bytes) (keys : List Bytes) : Prop :=
  bucketOk b = true ∧
  match s.tree b with
  | none => True
  | some t => ∀ k ∈ keys, CanonKey k ∧ t.node (pathOf k) ≠ some .dir

/-- resolving the keys of `delete_objects` under an admissible bucket: all of them, or `InvalidArgument` -/
theorem resolveKeys (b : Bytes) (hbd : bucketDir b = some b) : ∀ keys : List Bytes,
    keys.mapM (fun k => (objPath b k).map fun r => (r, k)) =
      if keys.all keyOk = true then .ok (keys.map fun k => (((b, pathOf k), k) : (Bytes × Path) × Bytes))
      else .error .InvalidArgument := by
  intro keys
  induction keys with
  | nil => rfl
  | cons k t ih =>
    rw [List.mapM_cons, ih]
    cases hkp : keyPath k with
    | none =>
      have hko : keyOk k = false := by rw [keyOk_iff_keyPath, hkp]; rfl
      simp [objPath, hbd, hkp, hko, Except.map, bind, Except.bind]
    | some p =>
      have hko : keyOk k = true := by rw [keyOk_iff_keyPath, hkp]; rfl
      by_cases hall : t.all keyOk = true
      · simp [objPath, hbd, hkp, hko, hall, Except.map, bind, Except.bind, pure, Except.pure, pathOf]
      · simp [objPath, hbd, hkp, hko, hall, Except.map, bind, Except.bind]

theorem pathOf_spec {k : Bytes} (hc : CanonKey k) (hs : (keyPath k).isSome = true) :
    keyPath k = some (pathOf k) ∧ joinWith [slash] (pathOf k) = k ∧ PathOk (pathOf k) := by
  unfold pathOf
  cases hkp : keyPath k with
  | none => rw [hkp] at hs; simp at hs
  | some p =>
    have := hc.2
    rw [hkp] at this
    exact ⟨rfl, this, keyPath_pathOk hkp⟩

theorem node_alErase_ne {t : Tree} {p q : Path} (h : q ≠ p) : Tree.node (alErase p t) q = t.node q :=
  alLookup_alErase_ne h t

theorem absTree_erase {s : State} (hi : Inv s) {b k : Bytes} {t : Tree} {p : Path}
    (ht : s.tree b = some t) (hp : PathOk p) (hk : joinWith [slash] p = k) :
    absTree s b (alErase p t) = alErase k (absTree s b t) := by
  have hmem := tree_mem ht
  unfold absTree
  apply filterMap_alErase (absObj s b) (absObj s b) p k t
  · intro n _
    cases n with
    | dir => left; rfl
    | file c0 => right; exact ⟨⟨c0, absMeta s b k, (alLookup (b, k) s.infos).getD {}⟩, by simp [absObj, hk]⟩
  · intro _ _ _ _; rfl
  · intro q n c' d' hq hne h
    rw [absObj_eq] at h
    cases hn : nodeObj s b (joinWith [slash] q) n with
    | none => simp [hn] at h
    | some o =>
      simp [hn] at h
      rw [← h.1]
      intro heq
      exact hne ((hi.paths _ hmem _ hq).join_inj hp (heq.trans hk.symm))

/-- the removal loop of `delete_objects` over any keys — missing ones, repeated ones — none of which names a directory:
    every key is reported, and the store loses exactly the named objects -/
theorem removeFiles_ok (b : Bytes) :
    ∀ (L : List Bytes) (s : State) (t : Tree) (done : List Bytes), Inv s → s.tree b = some t →
      (∀ k ∈ L, CanonKey k ∧ (keyPath k).isSome = true ∧ t.node (pathOf k) ≠ some .dir) →
      ∃ s', removeFiles b (L.map fun k => (pathOf k, k)) s done = (s', some (done.reverse ++ L)) ∧
        abs s' = { abs s with buckets := alInsert b (L.foldl (fun os k => alErase k os) (absTree s b t)) (abs s).buckets } ∧
        Inv s' := by
  intro L
  induction L with
  | nil =>
    intro s t done hi ht _
    refine ⟨s, by simp [removeFiles], ?_, hi⟩
    apply Store.ext'
    · simp only [List.foldl_nil]
      rw [abs_buckets]
      -- re-inserting the tree a bucket already has changes nothing
      have : ∀ (l : List (Bytes × Tree)), alLookup b l = some t →
          (l.map fun e => (e.1, absTree s e.1 e.2)) = alInsert b (absTree s b t) (l.map fun e => (e.1, absTree s e.1 e.2)) := by
        intro l
        induction l with
        | nil => intro h; simp at h
        | cons e r ih =>
          obtain ⟨a, v⟩ := e
          intro h
          by_cases ha : a = b
          · subst ha
            simp only [alLookup_cons, if_true, Option.some.injEq] at h
            subst h
            simp [alInsert]
          · simp only [alLookup_cons, ha, if_false] at h
            simp only [List.map_cons, alInsert, ha, if_false]
            rw [← ih h]
      exact this s.buckets ht
    · rfl
    · rfl
  | cons k rest ih =>
    intro s t done hi ht hall
    obtain ⟨hc, hs, hf⟩ := hall k (by simp)
    obtain ⟨hkp, hjoin, hp⟩ := pathOf_spec hc hs
    have hnode : s.node b (pathOf k) = t.node (pathOf k) := by simp [State.node, ht]
    cases hn : t.node (pathOf k) with
    | none =>
      -- nothing at the path (the key never existed, or an earlier item removed it): skipped, reported, nothing changes
      have hall' : ∀ k' ∈ rest, CanonKey k' ∧ (keyPath k').isSome = true ∧ t.node (pathOf k') ≠ some .dir :=
        fun k' hk' => hall k' (List.mem_cons_of_mem _ hk')
      obtain ⟨s', h1, h2, h3⟩ := ih s t (k :: done) hi ht hall'
      refine ⟨s', ?_, ?_, h3⟩
      · simp only [List.map_cons, removeFiles, hnode, hn]
        rw [h1]
        simp
      · rw [h2]
        have hlook : alLookup k (absTree s b t) = none := by
          have := abs_lookup_obj hi ht hp
          rw [hjoin, hn] at this
          exact this
        simp only [List.foldl_cons]
        rw [alErase_absent hlook]
    | some n =>
      cases n with
      | dir => exact absurd hn hf
      | file c =>
        have ht1 : (s.setTree b (alErase (pathOf k) t)).tree b = some (alErase (pathOf k) t) := by
          unfold State.tree State.setTree; exact alLookup_alInsert_self _ _ _
        obtain ⟨i1, i2, i3⟩ := inv_remove_buckets hi ht (p := pathOf k) rfl
        have hi1 : Inv (s.setTree b (alErase (pathOf k) t)) :=
          ⟨i1, i2, i3, hi.metaOk, hi.und, hi.pnd, hi.upIds, hi.partIds, hi.upMetaIds⟩
        have hall' : ∀ k' ∈ rest, CanonKey k' ∧ (keyPath k').isSome = true ∧
            Tree.node (alErase (pathOf k) t) (pathOf k') ≠ some .dir := by
          intro k' hk'
          obtain ⟨hc', hs', hf'⟩ := hall k' (List.mem_cons_of_mem _ hk')
          refine ⟨hc', hs', ?_⟩
          by_cases heq : pathOf k' = pathOf k
          · -- the same key again: by now nothing is there
            rw [heq]
            have : Tree.node (alErase (pathOf k) t) (pathOf k) = none := alLookup_alErase_self _ _
            rw [this]; simp
          · rw [node_alErase_ne heq]; exact hf'
        obtain ⟨s', h1, h2, h3⟩ := ih (s.setTree b (alErase (pathOf k) t)) (alErase (pathOf k) t) (k :: done) hi1 ht1
          hall'
        refine ⟨s', ?_, ?_, h3⟩
        · simp only [List.map_cons, removeFiles, hnode, hn, ht, Option.getD_some]
          rw [h1]
          simp
        · rw [h2]
          have habs1 : (abs (s.setTree b (alErase (pathOf k) t))).buckets =
              alInsert b (alErase k (absTree s b t)) (abs s).buckets :=
            abs_remove hi ht hp hjoin rfl rfl rfl
          have htree : absTree (s.setTree b (alErase (pathOf k) t)) b (alErase (pathOf k) t) =
              alErase k (absTree s b t) := by
            rw [absTree_congr (s := s) rfl rfl]
            exact absTree_erase hi ht hp hjoin
          apply Store.ext'
          · simp only [List.foldl_cons]
            rw [habs1, htree, alInsert_alInsert]
          · exact abs_uploads_congr rfl rfl rfl
          · rfl

theorem deleteObjects_refines (H : Hashes) (dl : Nat) {s : State} (hi : Inv s) {b : Bytes} {keys : List Bytes}
    (hg : DeleteObjectsOk s b keys) :
    (step H dl s (.deleteObjects b keys)).2 = (StoreSpec.step H (abs s) (.deleteObjects b keys)).2 ∧
    abs (step H dl s (.deleteObjects b keys)).1 = (StoreSpec.step H (abs s) (.deleteObjects b keys)).1 ∧
    Inv (step H dl s (.deleteObjects b keys)).1 := by
  obtain ⟨hbo, hall⟩ := hg
  have hbd := bucketDir_of_bucketOk hbo
  -- a key both sides refuse: `InvalidArgument`, whatever the bucket
  by_cases hk : keys.all keyOk = true
  case neg => simp [step, StoreSpec.step, resolveKeys b hbd, hk, hbo, hi]
  cases ht : s.tree b with
  | none =>
    have habs : (abs s).bucket b = none := by rw [abs_bucket, ht]; rfl
    have hh : alHas b s.buckets = false := by
      unfold State.tree at ht; simp [alHas, ht]
    simp [step, StoreSpec.step, resolveKeys b hbd, hk, hbd, hh, hbo, habs, hi]
  | some t =>
    rw [ht] at hall
    simp only at hall
    have hh : alHas b s.buckets = true := by
      unfold State.tree at ht; simp [alHas, ht]
    have habs : (abs s).bucket b = some (absTree s b t) := by rw [abs_bucket, ht]; rfl
    have hall' : ∀ k ∈ keys, CanonKey k ∧ (keyPath k).isSome = true ∧ t.node (pathOf k) ≠ some .dir := by
      intro k hkm
      obtain ⟨hc, hf⟩ := hall k hkm
      refine ⟨hc, ?_, hf⟩
      rw [← keyOk_iff_keyPath]
      exact List.all_eq_true.mp hk k hkm
    obtain ⟨s', h1, h2, h3⟩ := removeFiles_ok b keys s t [] hi ht hall'
    have hstep : step H dl s (.deleteObjects b keys) = (s', .deleted keys) := by
      simp only [step, resolveKeys b hbd, hk, if_true, hbd, hh, List.map_map]
      have : ((fun r : (Bytes × Path) × Bytes => (r.1.2, r.2)) ∘ fun k => ((b, pathOf k), k)) =
          fun k => (pathOf k, k) := rfl
      rw [this, h1]
      simp
    have hspec : StoreSpec.step H (abs s) (.deleteObjects b keys) =
        ({ abs s with buckets := alInsert b (keys.foldl (fun os k => alErase k os) (absTree s b t)) (abs s).buckets },
          .deleted keys) := by
      simp [StoreSpec.step, hbo, hk, habs]
    rw [hstep, hspec]
    exact ⟨rfl, h2, h3⟩

end S3V.FsStore
