import S3V.Thm.FsStoreGet
/-!
# C18: `head_object`, `delete_object` and the bucket operations refine the store
-/
namespace S3V.FsStore
open S3V.StoreSpec

/-- `head_object` comparable: names agree; for admissible names, when the bucket exists the path is not a leftover
    directory [else fs:leftover-directory]. A missing key in an existing bucket is inside since d6f1a3c (`NoSuchKey`
    on both sides; before: fs:head-missing-key-code); since 42c2f29 the answers agree in every member, the ETag included
    (before: fs:head-without-etag) -/
def HeadOk (s : State) (b k : Bytes) : Prop :=
  NameOk b ∧ CanonKey k ∧ sideTooLong b k false = false ∧
  (bucketOk b = true →
    match keyPath k with
    | none => True
    | some p =>
      match s.tree b with
      | none => True
      | some t => ReadableNode (t.node p))

theorem head_refines (H : Hashes) (dl : Nat) {s : State} (hi : Inv s) {b k : Bytes} (hg : HeadOk s b k) :
    (step H dl s (.headObject b k)).2 = (StoreSpec.step H (abs s) (.headObject b k)).2 ∧
    abs (step H dl s (.headObject b k)).1 = (StoreSpec.step H (abs s) (.headObject b k)).1 ∧
    Inv (step H dl s (.headObject b k)).1 := by
  obtain ⟨hname, ⟨hslash, hcanon⟩, hshort, hbucket⟩ := hg
  rcases hname.cases with ⟨hbo, hbd⟩ | ⟨hbo, hbd⟩
  · have hbucket := hbucket hbo
    cases hkp : keyPath k with
    | none =>
      have hko : keyOk k = false := by rw [keyOk_iff_keyPath, hkp]; rfl
      simp [step, StoreSpec.step, objPath, hbd, hkp, hbo, hko, hi]
    | some p =>
      have hko : keyOk k = true := by rw [keyOk_iff_keyPath, hkp]; rfl
      rw [hkp] at hcanon hbucket
      simp only at hcanon hbucket
      cases ht : s.tree b with
      | none =>
        have habs : (abs s).bucket b = none := by rw [abs_bucket, ht]; rfl
        have hh : alHas b s.buckets = false := by
          unfold State.tree at ht; simp [alHas, ht]
        simp [step, StoreSpec.step, objPath, hbd, hkp, hbo, hko, habs, State.node, ht, hh, hi]
      | some t =>
        rw [ht] at hbucket
        simp only at hbucket
        have hp : PathOk p := keyPath_pathOk hkp
        have habs : (abs s).bucket b = some (absTree s b t) := by rw [abs_bucket, ht]; rfl
        have hlook := abs_lookup_obj hi ht hp
        rw [hcanon] at hlook
        have hnode : s.node b p = t.node p := by simp [State.node, ht]
        cases hn : t.node p with
        | none =>
          have hh : alHas b s.buckets = true := by
            unfold State.tree at ht; simp [alHas, ht]
          rw [hn] at hlook
          simp [step, StoreSpec.step, objPath, hbd, hkp, hbo, hko, habs, hnode, hn, hlook, hh, hi]
        | some n =>
          cases n with
          | dir => rw [hn] at hbucket; exact absurd hbucket (by simp [ReadableNode])
          | file c =>
            rw [hn] at hlook
            simp only [Option.bind_some, nodeObj] at hlook
            have hload := loadMeta_eq hi hshort (b := b) (k := k)
            simp [step, StoreSpec.step, objPath, hbd, hkp, hbo, hko, habs, hnode, hn, hlook, hi, hload]
  · simp [step, StoreSpec.step, objPath, hbd, hbo, hi]

/-- how the abstraction sees a file removed at `p` (key `k`) of bucket `b` -/
theorem abs_remove {s s' : State} (hi : Inv s) {b k : Bytes} {t : Tree} {p : Path}
    (ht : s.tree b = some t) (hp : PathOk p) (hk : joinWith [slash] p = k)
    (hb : s'.buckets = alInsert b (alErase p t) s.buckets)
    (hm : s'.metas = s.metas) (hin : s'.infos = s.infos) :
    (abs s').buckets = alInsert b (alErase k (absTree s b t)) (abs s).buckets := by
  have hmem := tree_mem ht
  have hsame : ∀ (b2 : Bytes) (x : Path × Node), absObj s' b2 x = absObj s b2 x := by
    intro b2 x
    obtain ⟨q, n⟩ := x
    cases n with
    | dir => rfl
    | file c0 => simp only [absObj, absMeta]; rw [hm, hin]
  rw [abs_buckets, hb, alInsert_map_val (fun b t => absTree s' b t)]
  have : (fun e : Bytes × Tree => (e.1, absTree s' e.1 e.2)) = fun e => (e.1, absTree s e.1 e.2) := by
    funext e
    unfold absTree
    rw [filterMap_congr_mem fun x _ => hsame e.1 x]
  rw [this, ← abs_buckets]
  congr 1
  unfold absTree
  apply filterMap_alErase (absObj s' b) (absObj s b) p k t
  · intro n _
    cases n with
    | dir => left; rfl
    | file c0 => right; exact ⟨⟨c0, absMeta s b k, (alLookup (b, k) s.infos).getD {}⟩, by simp [absObj, hk]⟩
  · intro q n _ _
    exact hsame b (q, n)
  · intro q n c' d' hq hne h
    rw [absObj_eq] at h
    cases hn : nodeObj s b (joinWith [slash] q) n with
    | none => simp [hn] at h
    | some o =>
      simp [hn] at h
      rw [← h.1]
      intro heq
      exact hne ((hi.paths _ hmem _ hq).join_inj hp (heq.trans hk.symm))

theorem inv_remove_buckets {s : State} (hi : Inv s) {b : Bytes} {t : Tree} {p : Path}
    (ht : s.tree b = some t) {bs : List (Bytes × Tree)} (hb : bs = alInsert b (alErase p t) s.buckets) :
    keysNodup bs ∧ (∀ e ∈ bs, keysNodup e.2) ∧ (∀ e ∈ bs, ∀ x ∈ e.2, PathOk x.1) := by
  have hmem := tree_mem ht
  subst hb
  refine ⟨keysNodup_alInsert hi.bnd, ?_, ?_⟩
  · intro e he
    rcases alInsert_mem he with he | he
    · subst he; exact keysNodup_alErase (hi.tnd _ hmem)
    · exact hi.tnd e he
  · intro e he x hx
    rcases alInsert_mem he with he | he
    · subst he; exact hi.paths _ hmem _ (alErase_mem hx)
    · exact hi.paths e he x hx

/-- `delete_object` comparable: names agree; for admissible names, when the bucket exists the path is not a leftover
    directory [else fs:leftover-directory]. A key that does not exist (success on both sides; before:
    fs:delete-missing-key-error) and a missing bucket (`NoSuchBucket` on both sides; before:
    fs:missing-bucket-reported-as-missing-key) are inside since 20fee59 -/
def DeleteOk (s : State) (b k : Bytes) : Prop :=
  NameOk b ∧ CanonKey k ∧
  (bucketOk b = true →
    match keyPath k with
    | none => True
    | some p =>
      match s.tree b with
      | none => True
      | some t => ReadableNode (t.node p))

theorem delete_refines (H : Hashes) (dl : Nat) {s : State} (hi : Inv s) {b k : Bytes} (hg : DeleteOk s b k) :
    (step H dl s (.deleteObject b k)).2 = (StoreSpec.step H (abs s) (.deleteObject b k)).2 ∧
    abs (step H dl s (.deleteObject b k)).1 = (StoreSpec.step H (abs s) (.deleteObject b k)).1 ∧
    Inv (step H dl s (.deleteObject b k)).1 := by
  obtain ⟨hname, ⟨hslash, hcanon⟩, hbucket⟩ := hg
  rcases hname.cases with ⟨hbo, hbd⟩ | ⟨hbo, hbd⟩
  · have hbucket := hbucket hbo
    cases hkp : keyPath k with
    | none =>
      have hko : keyOk k = false := by rw [keyOk_iff_keyPath, hkp]; rfl
      simp [step, StoreSpec.step, objPath, hbd, hkp, hbo, hko, hi]
    | some p =>
      have hko : keyOk k = true := by rw [keyOk_iff_keyPath, hkp]; rfl
      rw [hkp] at hcanon hbucket
      simp only at hcanon hbucket
      cases ht : s.tree b with
      | none =>
        have habs : (abs s).bucket b = none := by rw [abs_bucket, ht]; rfl
        simp [step, StoreSpec.step, objPath, hbd, hkp, hbo, hko, habs, ht, hi]
      | some t =>
        rw [ht] at hbucket
        simp only at hbucket
        have hp : PathOk p := keyPath_pathOk hkp
        have habs : (abs s).bucket b = some (absTree s b t) := by rw [abs_bucket, ht]; rfl
        cases hn : t.node p with
        | none =>
          -- nothing to delete: the store erases a key it does not hold and puts the bucket back
          have hlook := abs_lookup_obj hi ht hp
          rw [hcanon, hn] at hlook
          simp only [Option.bind_none] at hlook
          have hstep : step H dl s (.deleteObject b k) = (s, .ok) := by
            simp [step, objPath, hbd, hkp, ht, hn]
          have hsame : alInsert b (alErase k (absTree s b t)) (abs s).buckets = (abs s).buckets := by
            rw [alErase_absent hlook]
            exact alInsert_same (by simpa [Store.bucket] using habs)
          have hspec : StoreSpec.step H (abs s) (.deleteObject b k) = (abs s, .ok) := by
            simp [StoreSpec.step, hbo, hko, habs, hsame]
          rw [hstep, hspec]
          exact ⟨rfl, rfl, hi⟩
        | some n =>
          cases n with
          | dir => rw [hn] at hbucket; exact absurd hbucket (by simp [ReadableNode])
          | file c =>
            have hstep : step H dl s (.deleteObject b k) = (s.setTree b (alErase p t), .ok) := by
              simp [step, objPath, hbd, hkp, ht, hn, hslash]
            have hspec : StoreSpec.step H (abs s) (.deleteObject b k) =
                ({ abs s with buckets := alInsert b (alErase k (absTree s b t)) (abs s).buckets }, .ok) := by
              simp [StoreSpec.step, hbo, hko, habs]
            rw [hstep, hspec]
            refine ⟨rfl, ?_, ?_⟩
            · apply Store.ext'
              · exact abs_remove hi ht hp hcanon rfl rfl rfl
              · exact abs_uploads_congr rfl rfl rfl
              · rfl
            · obtain ⟨i1, i2, i3⟩ := inv_remove_buckets hi ht (p := p) rfl
              exact ⟨i1, i2, i3, hi.metaOk, hi.und, hi.pnd, hi.upIds, hi.partIds, hi.upMetaIds⟩
  · simp [step, StoreSpec.step, objPath, hbd, hbo, hi]

/-! ## buckets -/

theorem absTree_congr {s s' : State} (hm : s'.metas = s.metas) (hin : s'.infos = s.infos) (b : Bytes) (t : Tree) :
    absTree s' b t = absTree s b t := by
  unfold absTree
  apply filterMap_congr_mem
  intro x _
  obtain ⟨q, n⟩ := x
  cases n with
  | dir => rfl
  | file c0 => simp only [absObj, absMeta]; rw [hm, hin]

theorem abs_buckets_congr {s s' : State} (hm : s'.metas = s.metas) (hin : s'.infos = s.infos) :
    (abs s').buckets = s'.buckets.map fun e => (e.1, absTree s e.1 e.2) := by
  rw [abs_buckets]
  apply List.map_congr_left
  intro e _
  rw [absTree_congr hm hin]

theorem createBucket_refines (H : Hashes) (dl : Nat) {s : State} (hi : Inv s) {b : Bytes} (hg : NameOk b) :
    (step H dl s (.createBucket b)).2 = (StoreSpec.step H (abs s) (.createBucket b)).2 ∧
    abs (step H dl s (.createBucket b)).1 = (StoreSpec.step H (abs s) (.createBucket b)).1 ∧
    Inv (step H dl s (.createBucket b)).1 := by
  rcases hg.cases with ⟨hbo, hbd⟩ | ⟨hbo, hbd⟩
  · by_cases hh : alHas b s.buckets = true
    · simp [step, StoreSpec.step, hbd, hbo, abs_alHas, hh, hi]
    · have hh' : alHas b s.buckets = false := by simpa using hh
      have hnone : alLookup b s.buckets = none := by simpa [alHas] using hh'
      have hstep : step H dl s (.createBucket b) = ({ s with buckets := s.buckets ++ [(b, [])] }, .ok) := by
        simp [step, hbd, hh']
      have hspec : StoreSpec.step H (abs s) (.createBucket b) =
          ({ abs s with buckets := (abs s).buckets ++ [(b, [])] }, .ok) := by
        simp [StoreSpec.step, hbo, abs_alHas, hh']
      rw [hstep, hspec]
      refine ⟨rfl, ?_, ?_⟩
      · apply Store.ext'
        · have := abs_buckets_congr (s := s) (s' := { s with buckets := s.buckets ++ [(b, [])] }) rfl rfl
          rw [this]
          simp [abs_buckets, absTree]
        · exact abs_uploads_congr rfl rfl rfl
        · rfl
      · refine ⟨keysNodup_append_single hi.bnd hnone, ?_, ?_, hi.metaOk, hi.und, hi.pnd, hi.upIds, hi.partIds,
          hi.upMetaIds⟩
        · intro e he
          rcases List.mem_append.mp he with he | he
          · exact hi.tnd e he
          · simp at he; subst he; simp [keysNodup]
        · intro e he x hx
          rcases List.mem_append.mp he with he | he
          · exact hi.paths e he x hx
          · simp at he; subst he; simp at hx
  · simp [step, StoreSpec.step, hbd, hbo, hi]

/-- the abstraction of a bucket directory is empty exactly when the directory holds no file -/
theorem absTree_nil_iff_files {s : State} {b : Bytes} {t : Tree} : absTree s b t = [] ↔ t.files = [] := by
  unfold absTree Tree.files
  rw [List.filterMap_eq_nil_iff, List.filterMap_eq_nil_iff]
  constructor
  · intro h e he
    have := h e he
    obtain ⟨p, n⟩ := e
    cases n with
    | dir => rfl
    | file c => simp [absObj] at this
  · intro h e he
    have := h e he
    obtain ⟨p, n⟩ := e
    cases n with
    | dir => rfl
    | file c => simp at this

/-- `delete_bucket`: any name both sides accept or both refuse; a bucket that holds objects is refused by both
    (`BucketNotEmpty`, 24de822; before: fs:delete-nonempty-bucket), an empty one — directories left behind do not count —
    is gone on both sides -/
theorem deleteBucket_refines (H : Hashes) (dl : Nat) {s : State} (hi : Inv s) {b : Bytes} (hname : NameOk b) :
    (step H dl s (.deleteBucket b)).2 = (StoreSpec.step H (abs s) (.deleteBucket b)).2 ∧
    abs (step H dl s (.deleteBucket b)).1 = (StoreSpec.step H (abs s) (.deleteBucket b)).1 ∧
    Inv (step H dl s (.deleteBucket b)).1 := by
  rcases hname.cases with ⟨hbo, hbd⟩ | ⟨hbo, hbd⟩
  · cases ht : s.tree b with
    | none =>
      have habs : (abs s).bucket b = none := by rw [abs_bucket, ht]; rfl
      simp [step, StoreSpec.step, hbd, hbo, ht, habs, hi]
    | some t =>
      have habs : (abs s).bucket b = some (absTree s b t) := by rw [abs_bucket, ht]; rfl
      by_cases hempty : t.files = []
      · have hnil : absTree s b t = [] := absTree_nil_iff_files.mpr hempty
        have hstep : step H dl s (.deleteBucket b) = ({ s with buckets := alErase b s.buckets }, .ok) := by
          simp [step, hbd, ht, hempty]
        have hspec : StoreSpec.step H (abs s) (.deleteBucket b) =
            ({ abs s with buckets := alErase b (abs s).buckets }, .ok) := by
          simp [StoreSpec.step, hbo, habs, hnil]
        rw [hstep, hspec]
        refine ⟨rfl, ?_, ?_⟩
        · apply Store.ext'
          · have := abs_buckets_congr (s := s) (s' := { s with buckets := alErase b s.buckets }) rfl rfl
            rw [this, abs_buckets]
            exact alErase_map_val (fun b t => absTree s b t) b s.buckets
          · exact abs_uploads_congr rfl rfl rfl
          · rfl
        · refine ⟨keysNodup_alErase hi.bnd, ?_, ?_, hi.metaOk, hi.und, hi.pnd, hi.upIds, hi.partIds, hi.upMetaIds⟩
          · intro e he; exact hi.tnd e (alErase_mem he)
          · intro e he; exact hi.paths e (alErase_mem he)
      · have hne : absTree s b t ≠ [] := fun h => hempty (absTree_nil_iff_files.mp h)
        simp [step, StoreSpec.step, hbd, hbo, ht, habs, hempty, hne, hi]
  · simp [step, StoreSpec.step, hbd, hbo, hi]

theorem headBucket_refines (H : Hashes) (dl : Nat) {s : State} (hi : Inv s) {b : Bytes} (hg : NameOk b) :
    (step H dl s (.headBucket b)).2 = (StoreSpec.step H (abs s) (.headBucket b)).2 ∧
    abs (step H dl s (.headBucket b)).1 = (StoreSpec.step H (abs s) (.headBucket b)).1 ∧
    Inv (step H dl s (.headBucket b)).1 := by
  rcases hg.cases with ⟨hbo, hbd⟩ | ⟨hbo, hbd⟩
  · by_cases hh : alHas b s.buckets = true
    · simp [step, StoreSpec.step, hbd, hbo, abs_alHas, hh, hi]
    · have hh' : alHas b s.buckets = false := by simpa using hh
      simp [step, StoreSpec.step, hbd, hbo, abs_alHas, hh', hi]
  · simp [step, StoreSpec.step, hbd, hbo, hi]

theorem getBucketLocation_refines (H : Hashes) (dl : Nat) {s : State} (hi : Inv s) {b : Bytes} (hg : NameOk b) :
    (step H dl s (.getBucketLocation b)).2 = (StoreSpec.step H (abs s) (.getBucketLocation b)).2 ∧
    abs (step H dl s (.getBucketLocation b)).1 = (StoreSpec.step H (abs s) (.getBucketLocation b)).1 ∧
    Inv (step H dl s (.getBucketLocation b)).1 := by
  rcases hg.cases with ⟨hbo, hbd⟩ | ⟨hbo, hbd⟩
  · by_cases hh : alHas b s.buckets = true
    · simp [step, StoreSpec.step, hbd, hbo, abs_alHas, hh, hi]
    · have hh' : alHas b s.buckets = false := by simpa using hh
      simp [step, StoreSpec.step, hbd, hbo, abs_alHas, hh', hi]
  · simp [step, StoreSpec.step, hbd, hbo, hi]

theorem listBuckets_refines (H : Hashes) (dl : Nat) {s : State} (hi : Inv s) :
    (step H dl s .listBuckets).2 = (StoreSpec.step H (abs s) .listBuckets).2 ∧
    abs (step H dl s .listBuckets).1 = (StoreSpec.step H (abs s) .listBuckets).1 ∧
    Inv (step H dl s .listBuckets).1 := by
  simp [step, StoreSpec.step, abs_buckets, hi, Function.comp_def]

end S3V.FsStore
