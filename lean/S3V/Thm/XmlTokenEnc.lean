import S3V.Thm.XmlToken
import S3V.Thm.XmlRoundtrip
/-!
What the encoder produces is well-nested in the sense of `XmlToken.lean`, so the tokeniser reads it back.
-/
namespace S3V.Xml
open S3V

/-- the keys a generated `fn attributes(&self)` can list into one start tag (`attrPairs` with every member present):
for every member bound to an attribute the declaration of its prefix (if it has one) and its name -/
def attrKeys : Flds → List Bytes
  | .cons tag _ shape _ rest =>
    (match shape with
      | .attr => (nsDeclFor tag).map (·.1) ++ [tag]
      | _ => [])
    ++ attrKeys rest
  | .nil => []

mutual
  /-- every element name of the schema (members, list members, variants) is made of name bytes, and the attribute
  keys written into the start tag of a struct — `xmlns` of a root, the prefix declarations and the members bound to
  attributes — are pairwise distinct (quick-xml's attribute iterator refuses a key written twice; `check_attributes`
  of `xml/de.rs` runs it over every start tag since the repair of `xml-illformed-accepted:attribute-syntax`) -/
  def Sch.tagsGood : Sch → Bool
    | .struct fs => fs.tagsGood && distinct (xmlnsKey :: attrKeys fs)
    | .union vs => vs.tagsGood
    | _ => true
  def Flds.tagsGood : Flds → Bool
    | .nil => true
    | .cons t _ shape s r =>
      goodName t && (match shape with | .wrapped m => goodName m | _ => true) && s.tagsGood && r.tagsGood
  def Vars.tagsGood : Vars → Bool
    | .nil => true
    | .cons t s r => goodName t && s.tagsGood && r.tagsGood
end

/-- text as the serialiser writes it contains no `<` -/
theorem escapeText_no : ∀ (t : Bytes), ∀ x ∈ escapeText t, x ≠ cLt
  | [], x, hx => by simp [escapeText_nil] at hx
  | c :: cs, x, hx => by
    rw [escapeText_cons, List.mem_append] at hx
    rcases hx with hx | hx
    · by_cases hcr : c = 13
      · subst hcr; rw [escapeTextByte_cr] at hx; revert x; decide
      · cases hs : isSpecial c with
        | false =>
          rw [escapeTextByte_plain hs hcr, List.mem_singleton] at hx
          subst hx
          intro h; subst h; simp [isSpecial] at hs
        | true => rw [escapeTextByte_special hs] at hx; exact (escapeByte_no c x hx).1
    · exact escapeText_no cs x hx

/-- text as the serialiser writes it contains no `>` either (`escape` writes `&gt;`): it never holds `]]>` -/
theorem escapeText_noGt : ∀ (t : Bytes), ∀ x ∈ escapeText t, x ≠ cGt
  | [], x, hx => by simp [escapeText_nil] at hx
  | c :: cs, x, hx => by
    rw [escapeText_cons, List.mem_append] at hx
    rcases hx with hx | hx
    · by_cases hcr : c = 13
      · subst hcr; rw [escapeTextByte_cr] at hx; revert x; decide
      · cases hs : isSpecial c with
        | false =>
          rw [escapeTextByte_plain hs hcr, List.mem_singleton] at hx
          subst hx
          intro h; subst h; simp [isSpecial] at hs
        | true =>
          rw [escapeTextByte_special hs] at hx
          simp only [isSpecial, Bool.or_eq_true, decide_eq_true_eq] at hs
          rcases hs with (((h | h) | h) | h) | h <;> subst h <;> revert x <;> decide
    · exact escapeText_noGt cs x hx

theorem goodRest_nsAttr (ns : Option Bytes) : GoodRest (nsAttr ns) := by
  rw [nsAttr_eq]
  cases ns with
  | none => exact ⟨[], rfl, fun _ h => by simp at h, by simp⟩
  | some uri =>
    refine ⟨[(xmlnsKey, escape uri)], rfl, fun kv h => ?_, by simp⟩
    simp only [List.mem_singleton] at h
    subst h
    exact ⟨(by decide : goodName xmlnsKey = true), fun c hc => (escape_no uri c hc).2⟩

theorem attrPairs_good : ∀ (fs : Flds) (fvs : List FVal), fs.tagsGood = true →
    ∀ kv ∈ attrPairs fs fvs, goodName kv.1 = true ∧ ∀ c ∈ kv.2, c ≠ cQuot
  | .nil, _, _, kv, h => by simp [attrPairs] at h
  | .cons _ _ _ _ _, [], _, kv, h => by simp [attrPairs] at h
  | .cons tag p sh s rest, fv :: fvs, hg, kv, h => by
    simp only [Flds.tagsGood, Bool.and_eq_true] at hg
    obtain ⟨⟨⟨hgt, _⟩, _⟩, hgr⟩ := hg
    simp only [attrPairs, List.mem_append] at h
    rcases h with h | h
    · split at h
      · simp only [List.mem_append, List.mem_singleton] at h
        rcases h with h | h
        · rw [nsDeclFor_key tag kv h]
          exact ⟨(by decide : goodName xmlnsXsiKey = true), fun c hc => (escapeAttr_clean _ c hc).2.2.2.1⟩
        · subst h
          exact ⟨hgt, fun c hc => (escapeAttr_clean _ c hc).2.2.2.1⟩
      · simp at h
    · exact attrPairs_good rest fvs hgr kv h

theorem distinct_nodup : ∀ (l : List Bytes), distinct l = true → l.Nodup
  | [], _ => List.nodup_nil
  | t :: r, h => by
    have hn := distinct_cons_not_mem h
    simp only [distinct, Bool.and_eq_true] at h
    exact List.nodup_cons.mpr ⟨hn, distinct_nodup r h.2⟩

/-- the keys written for a value are among the keys of the table, in the same order -/
theorem attrPairs_keys_sublist : ∀ (fs : Flds) (fvs : List FVal),
    ((attrPairs fs fvs).map (·.1)).Sublist (attrKeys fs)
  | .nil, _ => by simp [attrPairs, attrKeys]
  | .cons _ _ _ _ _, [] => by simp [attrPairs]
  | .cons tag p sh s rest, fv :: fvs => by
    simp only [attrPairs, attrKeys, List.map_append]
    refine List.Sublist.append ?_ (attrPairs_keys_sublist rest fvs)
    split
    · simp
    · simp

/-- the keys `xmlns` (of a root) and those written for a value are pairwise distinct -/
theorem attrPairs_nodup (fs : Flds) (fvs : List FVal) (h : distinct (xmlnsKey :: attrKeys fs) = true) :
    (xmlnsKey :: (attrPairs fs fvs).map (·.1)).Nodup :=
  (distinct_nodup _ h).sublist ((attrPairs_keys_sublist fs fvs).cons₂ xmlnsKey)

/-- the attributes `start_of` writes for a value (`SerializeContent::attributes`, `attr_value`) -/
theorem goodRest_encAttrs (s : Sch) (v : Val) (hg : s.tagsGood = true) : GoodRest (encAttrs s v) := by
  cases s <;> cases v <;> first
    | exact GoodRest.nil
    | (rename_i fs vs
       simp only [Sch.tagsGood, Bool.and_eq_true] at hg
       exact ⟨attrPairs fs vs, rfl, attrPairs_good fs vs hg.1, (List.nodup_cons.mp (attrPairs_nodup fs vs hg.2)).2⟩)

/-- the start tag of a root: `xmlns` (`content_with_ns`) in front of the attributes of the value -/
theorem goodRest_ns_encAttrs (ns : Option Bytes) (s : Sch) (v : Val) (hg : s.tagsGood = true) :
    GoodRest (nsAttr ns ++ encAttrs s v) := by
  cases ns with
  | none => simpa [nsAttr] using goodRest_encAttrs s v hg
  | some uri =>
    have hns : ∀ kv ∈ [(xmlnsKey, escape uri)], goodName kv.1 = true ∧ ∀ c ∈ kv.2, c ≠ cQuot := by
      intro kv h
      simp only [List.mem_singleton] at h
      subst h
      exact ⟨(by decide : goodName xmlnsKey = true), fun c hc => (escape_no uri c hc).2⟩
    cases s <;> cases v <;> first
      | (rename_i fs vs
         simp only [Sch.tagsGood, Bool.and_eq_true] at hg
         refine ⟨(xmlnsKey, escape uri) :: attrPairs fs vs, ?_, ?_, ?_⟩
         · rw [nsAttr_eq, encAttrs_struct, ← attrsOf_append]; rfl
         · intro kv hkv
           rcases List.mem_cons.mp hkv with h | h
           · exact hns kv (by simp [h])
           · exact attrPairs_good fs vs hg.1 kv h
         · simpa using attrPairs_nodup fs vs hg.2)
      | (have h0 := goodRest_nsAttr (some uri)
         simpa [encAttrs] using h0)

theorem WN_textEv (st : List Bytes) (hst : st ≠ []) (x : Bytes) (t : List Ev) (ht : WN st t)
    (hh : headNotText t = true) : WN st (textEv (escapeText x) ++ t) := by
  unfold textEv
  split
  · simpa using ht
  · rename_i hne
    simp only [List.cons_append, List.nil_append, WN]
    exact ⟨⟨Or.inl hst, hasCdataEnd_of_noGt _ (escapeText_noGt x)⟩, hne, escapeText_no x, hh, ht⟩

theorem WN_elem (st : List Bytes) (tag : Bytes) (inner t : List Ev) (hg : goodName tag = true)
    (hi : WN (tag :: st) (inner ++ .stop tag :: t)) : WN st (elem tag inner ++ t) := by
  simp only [elem, List.cons_append, List.append_assoc, List.nil_append, WN]
  exact ⟨hg, GoodRest.nil, hi⟩

theorem WN_elemA (st : List Bytes) (tag a : Bytes) (inner t : List Ev) (hg : goodName tag = true) (ha : GoodRest a)
    (hi : WN (tag :: st) (inner ++ .stop tag :: t)) : WN st (elemA tag a inner ++ t) := by
  simp only [elemA, List.cons_append, List.append_assoc, List.nil_append, WN]
  exact ⟨hg, ha, hi⟩

theorem WN_stop (st : List Bytes) (tag : Bytes) (t : List Ev) (hg : goodName tag = true) (ht : WN st t) :
    WN (tag :: st) (.stop tag :: t) := by
  simp only [WN]
  exact ⟨hg, st, rfl, ht⟩

theorem headNotText_elem (tag : Bytes) (inner t : List Ev) : headNotText (elem tag inner ++ t) = true := by
  simp [elem, headNotText, Ev.isTextB]

theorem headNotText_elemA (tag a : Bytes) (inner t : List Ev) : headNotText (elemA tag a inner ++ t) = true := by
  simp [elemA, headNotText, Ev.isTextB]

/-- a run of elements (the items of a list) -/
theorem WN_items (st : List Bytes) (tag : Bytes) (s : Sch) (hg : goodName tag = true) (hsg : s.tagsGood = true)
    (hs : ∀ (v : Val) (st : List Bytes), st ≠ [] → ∀ (t : List Ev), WN st t → headNotText t = true →
      WN st (encode s v ++ t)) :
    ∀ (vs : List Val) (t : List Ev), WN st t → headNotText t = true →
      WN st ((vs.flatMap fun v => elemA tag (encAttrs s v) (encode s v)) ++ t) ∧
      headNotText ((vs.flatMap fun v => elemA tag (encAttrs s v) (encode s v)) ++ t) = true
  | [], t, ht, hh => by simpa using ⟨ht, hh⟩
  | v :: vs, t, ht, hh => by
    obtain ⟨ih1, _⟩ := WN_items st tag s hg hsg hs vs t ht hh
    simp only [List.flatMap_cons, List.append_assoc]
    refine ⟨WN_elemA st tag _ _ _ hg (goodRest_encAttrs s v hsg) ?_, headNotText_elemA _ _ _ _⟩
    exact hs v (tag :: st) (by simp) _ (WN_stop st tag _ hg ih1) (by simp [headNotText, Ev.isTextB])

mutual
  /-- the content of an element (`st ≠ []`: the serialiser writes character data only inside an element) -/
  theorem WN_encode : ∀ (s : Sch) (v : Val), s.tagsGood = true → ∀ (st : List Bytes), st ≠ [] → ∀ (t : List Ev),
      WN st t → headNotText t = true → WN st (encode s v ++ t)
    | .struct fs, .struct vs, hg, st, _, t, ht, hh => by
      simp only [Sch.tagsGood, Bool.and_eq_true] at hg
      simp only [encode]
      exact (WN_encodeFields fs vs hg.1 st t ht hh).1
    | .union vars, .union tag v, hg, st, _, t, ht, hh => by
      simp only [Sch.tagsGood] at hg
      simp only [encode]
      exact (WN_encodeVariant vars tag v hg st t ht hh).1
    | .str, .str b, _, st, hst, t, ht, hh => by simp only [encode]; exact WN_textEv st hst _ t ht hh
    | .enm, .str b, _, st, hst, t, ht, hh => by simp only [encode]; exact WN_textEv st hst _ t ht hh
    | .i32, .int i, _, st, hst, t, ht, hh => by simp only [encode]; exact WN_textEv st hst _ t ht hh
    | .i64, .int i, _, st, hst, t, ht, hh => by simp only [encode]; exact WN_textEv st hst _ t ht hh
    | .bool, .bool b, _, st, hst, t, ht, hh => by simp only [encode]; exact WN_textEv st hst _ t ht hh
    | .ts f, .ts x, _, st, hst, t, ht, hh => by simp only [encode]; exact WN_textEv st hst _ t ht hh
    | .str, .int _, _, _, _, _, ht, _ | .str, .bool _, _, _, _, _, ht, _ | .str, .ts _, _, _, _, _, ht, _
    | .str, .struct _, _, _, _, _, ht, _ | .str, .union _ _, _, _, _, _, ht, _ => by simpa [encode] using ht
    | .enm, .int _, _, _, _, _, ht, _ | .enm, .bool _, _, _, _, _, ht, _ | .enm, .ts _, _, _, _, _, ht, _
    | .enm, .struct _, _, _, _, _, ht, _ | .enm, .union _ _, _, _, _, _, ht, _ => by simpa [encode] using ht
    | .i32, .str _, _, _, _, _, ht, _ | .i32, .bool _, _, _, _, _, ht, _ | .i32, .ts _, _, _, _, _, ht, _
    | .i32, .struct _, _, _, _, _, ht, _ | .i32, .union _ _, _, _, _, _, ht, _ => by simpa [encode] using ht
    | .i64, .str _, _, _, _, _, ht, _ | .i64, .bool _, _, _, _, _, ht, _ | .i64, .ts _, _, _, _, _, ht, _
    | .i64, .struct _, _, _, _, _, ht, _ | .i64, .union _ _, _, _, _, _, ht, _ => by simpa [encode] using ht
    | .bool, .str _, _, _, _, _, ht, _ | .bool, .int _, _, _, _, _, ht, _ | .bool, .ts _, _, _, _, _, ht, _
    | .bool, .struct _, _, _, _, _, ht, _ | .bool, .union _ _, _, _, _, _, ht, _ => by simpa [encode] using ht
    | .ts _, .str _, _, _, _, _, ht, _ | .ts _, .int _, _, _, _, _, ht, _ | .ts _, .bool _, _, _, _, _, ht, _
    | .ts _, .struct _, _, _, _, _, ht, _ | .ts _, .union _ _, _, _, _, _, ht, _ => by simpa [encode] using ht
    | .struct _, .str _, _, _, _, _, ht, _ | .struct _, .int _, _, _, _, _, ht, _ | .struct _, .bool _, _, _, _, _, ht, _
    | .struct _, .ts _, _, _, _, _, ht, _ | .struct _, .union _ _, _, _, _, _, ht, _ => by simpa [encode] using ht
    | .union _, .str _, _, _, _, _, ht, _ | .union _, .int _, _, _, _, _, ht, _ | .union _, .bool _, _, _, _, _, ht, _
    | .union _, .ts _, _, _, _, _, ht, _ | .union _, .struct _, _, _, _, _, ht, _ => by simpa [encode] using ht
  theorem WN_encodeFields : ∀ (fs : Flds) (vs : List FVal), fs.tagsGood = true → ∀ (st : List Bytes) (t : List Ev),
      WN st t → headNotText t = true →
      WN st (encodeFields fs vs ++ t) ∧ headNotText (encodeFields fs vs ++ t) = true
    | .nil, _, _, st, t, ht, hh => by simpa [encodeFields] using ⟨ht, hh⟩
    | .cons _ _ _ _ _, [], _, st, t, ht, hh => by simpa [encodeFields] using ⟨ht, hh⟩
    | .cons tag p shape s r, fv :: fvs, hg, st, t, ht, hh => by
      simp only [Flds.tagsGood, Bool.and_eq_true] at hg
      obtain ⟨⟨⟨hgt, hgm⟩, hgs⟩, hgr⟩ := hg
      obtain ⟨ih1, ih2⟩ := WN_encodeFields r fvs hgr st t ht hh
      rw [encodeFields_cons, List.append_assoc]
      have hs := fun (v : Val) (st : List Bytes) (hst : st ≠ []) (t : List Ev) => WN_encode s v hgs st hst t
      cases shape with
      | single =>
        cases fv with
        | one v =>
          simp only [encField]
          exact ⟨WN_elemA st tag _ _ _ hgt (goodRest_encAttrs s v hgs)
              (hs v _ (by simp) _ (WN_stop st tag _ hgt ih1) (by simp [headNotText, Ev.isTextB])),
            headNotText_elemA _ _ _ _⟩
        | absent => simpa [encField] using ⟨ih1, ih2⟩
        | many _ => simpa [encField] using ⟨ih1, ih2⟩
      | wrapped m =>
        cases fv with
        | many vs =>
          simp only [encField]
          refine ⟨WN_elem st tag _ _ hgt ?_, headNotText_elem _ _ _⟩
          exact (WN_items (tag :: st) m s hgm hgs hs vs _ (WN_stop st tag _ hgt ih1) (by simp [headNotText, Ev.isTextB])).1
        | absent => simpa [encField] using ⟨ih1, ih2⟩
        | one _ => simpa [encField] using ⟨ih1, ih2⟩
      | flat =>
        cases fv with
        | many vs =>
          simp only [encField]
          exact WN_items st tag s hgt hgs hs vs _ ih1 ih2
        | absent => simpa [encField] using ⟨ih1, ih2⟩
        | one _ => simpa [encField] using ⟨ih1, ih2⟩
      | attr =>
        -- no element: the member stands in the start tag
        have : encField tag .attr s fv = [] := by cases fv <;> rfl
        simpa [this] using ⟨ih1, ih2⟩
  theorem WN_encodeVariant : ∀ (vars : Vars) (tag : Bytes) (v : Val), vars.tagsGood = true →
      ∀ (st : List Bytes) (t : List Ev), WN st t → headNotText t = true →
      WN st (encodeVariant vars tag v ++ t) ∧ headNotText (encodeVariant vars tag v ++ t) = true
    | .nil, _, _, _, st, t, ht, hh => by simpa [encodeVariant] using ⟨ht, hh⟩
    | .cons tg s r, tag, v, hg, st, t, ht, hh => by
      simp only [Vars.tagsGood, Bool.and_eq_true] at hg
      obtain ⟨⟨hgt, hgs⟩, hgr⟩ := hg
      simp only [encodeVariant]
      split
      · exact ⟨WN_elemA st tg _ _ _ hgt (goodRest_encAttrs s v hgs)
            (WN_encode s v hgs _ (by simp) _ (WN_stop st tg _ hgt ht) (by simp [headNotText, Ev.isTextB])),
          headNotText_elemA _ _ _ _⟩
      · exact WN_encodeVariant r tag v hgr st t ht hh
end

/-- good root element names -/
def SerRoot.tagsGood : SerRoot → Bool
  | .named t _ => goodName t
  | .nested o i _ => goodName o && goodName i
  | .location t _ => goodName t

/-- **`Deserializer` over the bytes `Serializer` wrote sees exactly the events that were written** -/
theorem tokenize_write_doc (root : SerRoot) (s : Sch) (v : Val) (hr : root.tagsGood = true) (hs : s.tagsGood = true) :
    deEvents (tokenize (write (encodeDoc root s v))) = encodeDoc root s v := by
  have hnil : WN [] [] := trivial
  cases root with
  | named tag ns =>
    simp only [SerRoot.tagsGood] at hr
    apply tokenize_write
    · simp [encodeDoc, headNotText, Ev.isTextB]
    · simp only [encodeDoc, WN]
      refine ⟨hr, goodRest_ns_encAttrs ns s v hs, ?_⟩
      exact WN_encode s v hs [tag] (by simp) [.stop tag] (WN_stop [] tag [] hr hnil) (by simp [headNotText, Ev.isTextB])
  | nested o i ns =>
    simp only [SerRoot.tagsGood, Bool.and_eq_true] at hr
    apply tokenize_write
    · simp [encodeDoc, headNotText, Ev.isTextB]
    · simp only [encodeDoc, WN, List.cons_append]
      refine ⟨hr.1, goodRest_nsAttr ns, ?_⟩
      have := WN_elemA [o] i (encAttrs s v) (encode s v) [.stop o] hr.2 (goodRest_encAttrs s v hs)
        (WN_encode s v hs [i, o] (by simp) [.stop i, .stop o] (WN_stop [o] i [.stop o] hr.2 (WN_stop [] o [] hr.1 hnil))
          (by simp [headNotText, Ev.isTextB]))
      simpa using this
  | location tag ns =>
    simp only [SerRoot.tagsGood] at hr
    have key : (∃ b, encodeDoc (.location tag ns) s v = .start tag (nsAttr ns) :: (textEv (escapeText b) ++ [.stop tag])) ∨
        encodeDoc (.location tag ns) s v = [.start tag (nsAttr ns), .stop tag] := by
      simp only [encodeDoc]
      split
      · exact Or.inl ⟨_, rfl⟩
      · exact Or.inr rfl
    rcases key with ⟨b, hb⟩ | hb
    · rw [hb]
      apply tokenize_write
      · simp [headNotText, Ev.isTextB]
      · simp only [WN]
        exact ⟨hr, goodRest_nsAttr ns, WN_textEv [tag] (by simp) _ [.stop tag] (WN_stop [] tag [] hr hnil)
          (by simp [headNotText, Ev.isTextB])⟩
    · rw [hb]
      apply tokenize_write
      · simp [headNotText, Ev.isTextB]
      · simp only [WN]
        exact ⟨hr, goodRest_nsAttr ns, hr, [], rfl, trivial⟩

end S3V.Xml
