import S3V.Gen.Bindings
import S3V.Thm.HttpDe
/-!
# The generated binding table as input of the binding-helper model

`S3V.Drv.Service.helperModelVerdict` turns a row of the generated table (`S3V.Gen.Binding`) into a statement of the
hand-written helper model (`S3V.HttpDe.Bind`). That conversion is copied here (`opBinds`) so that theorems can be
stated about it; the only difference is that the test "the member name ends in `attributes`" is made on the byte
list of the table (`List.isSuffixOf`) instead of on a `String` (string literals do not reduce in the kernel).

Covered locations: `header` and `query` — exactly the rows for which `bindKind` of the driver answers `some`.
Rows bound to the URI path (`label`), to the `x-amz-meta-*` family (`pfx`, helper `parse_opt_metadata`, which is
not a `Kind` of `decodeAll`) and to the payload are dropped by the conversion, here as in the driver.
-/
namespace S3V.HttpDeTable
open S3V S3V.Gen S3V.HttpDe S3V.HttpBinding

variable {V : Type}

/-! ## the conversion of `helperModelVerdict` -/

/-- `bindKind` of `S3V/Drv/Service.lean`, verbatim -/
def bindKind (b : Binding) : Option Kind :=
  match b.loc, b.required with
  | .header, true => some .reqHeader
  | .header, false => some .optHeader
  | .query, true => some .reqQuery
  | .query, false => some .optQuery
  | _, _ => none

/-- `"attributes"` -/
def attributesSuffix : Bytes := [97, 116, 116, 114, 105, 98, 117, 116, 101, 115]

/-- `(bytesToString b.member).endsWith "attributes"` of the driver, on the byte list: the list-valued header
    members (`parse_list_header`) of the S3 model are the object-attribute lists -/
def isListMember (b : Binding) : Bool := attributesSuffix.isSuffixOf b.member

/-- the `binds` of `helperModelVerdict`, with the scalar decoder of each row a parameter (the driver takes
    `fun _ => some`, i.e. `V = Bytes`, identity) -/
def opBinds (dec : Binding → Bytes → Option V) (op : Op) : List (Bind V) :=
  (implInputs op).filterMap fun b =>
    let isList := isListMember b
    match bindKind b with
    | some k =>
      let k' := if isList then Kind.listHeader b.required else k
      some ⟨k', b.wire, dec b⟩
    | none => none

/-- decoder and encoder of one member's scalar type -/
structure Codec (V : Type) where
  dec : Bytes → Option V
  enc : V → Bytes

/-- the helper-model kind of a table row -/
def rowKind (b : Binding) : Option Kind :=
  (bindKind b).map fun k => if isListMember b then Kind.listHeader b.required else k

def rowEB (c : Binding → Codec V) (b : Binding) : Option (EB V) :=
  (rowKind b).map fun k => ⟨⟨k, b.wire, (c b).dec⟩, (c b).enc⟩

/-- the bindings of `op` together with the encoder of each member (what `C02_decode_encode` is about) -/
def opEBs (c : Binding → Codec V) (op : Op) : List (EB V) := (implInputs op).filterMap (rowEB c)

/-- the binding list of `opEBs` is the driver's `binds` -/
theorem opEBs_bind (c : Binding → Codec V) (op : Op) :
    (opEBs c op).map (·.bind) = opBinds (fun b => (c b).dec) op := by
  simp only [opEBs, opBinds, List.map_filterMap]
  congr 1
  funext b
  simp only [rowEB, rowKind]
  cases bindKind b <;> rfl

/-! ## which rows are converted -/

def isHQ (b : Binding) : Bool := b.loc == .header || b.loc == .query

theorem bindKind_isSome (b : Binding) : (bindKind b).isSome = isHQ b := by
  obtain ⟨m, l, w, r, f⟩ := b
  cases l <;> cases r <;> rfl

theorem rowKind_isSome (b : Binding) : (rowKind b).isSome = isHQ b := by
  rw [rowKind, Option.isSome_map, bindKind_isSome]

theorem rowEB_isSome (c : Binding → Codec V) (b : Binding) : (rowEB c b).isSome = isHQ b := by
  rw [rowEB, Option.isSome_map, rowKind_isSome]

theorem rowEB_wire {c : Binding → Codec V} {b : Binding} {eb : EB V} (h : rowEB c b = some eb) :
    eb.bind.wire = b.wire := by
  simp only [rowEB, Option.map_eq_some_iff] at h
  obtain ⟨k, _, rfl⟩ := h
  rfl

/-- the wire names of the converted rows are those of the header / query rows of the table, in statement order -/
theorem opEBs_wires (c : Binding → Codec V) (l : List Binding) :
    (l.filterMap (rowEB c)).map (·.bind.wire) = (l.filter isHQ).map (·.wire) := by
  induction l with
  | nil => rfl
  | cons b l ih =>
    have hs := rowEB_isSome c b
    cases h : rowEB c b with
    | none =>
      have : isHQ b = false := by rw [← hs, h]; rfl
      simp only [List.filterMap_cons, h, List.filter_cons, this, Bool.false_eq_true, if_false]
      exact ih
    | some eb =>
      have : isHQ b = true := by rw [← hs, h]; rfl
      simp only [List.filterMap_cons, h, List.filter_cons, this, if_true, List.map_cons, ih, rowEB_wire h]

/-- a converted row is of header kind iff it is bound to a header, provided list members are header members -/
theorem rowEB_isHeaderKind {c : Binding → Codec V} {b : Binding} {eb : EB V} (h : rowEB c b = some eb)
    (hl : isListMember b = true → b.loc = .header) :
    isHeaderKind eb.bind.kind = (b.loc == .header) := by
  simp only [rowEB, rowKind, Option.map_eq_some_iff] at h
  obtain ⟨k, ⟨k₀, hk₀, rfl⟩, rfl⟩ := h
  obtain ⟨m, l, w, r, f⟩ := b
  cases hi : isListMember ⟨m, l, w, r, f⟩ with
  | true =>
    have := hl hi
    simp only at this
    subst this
    simp [isHeaderKind]
  | false =>
    simp only [Bool.false_eq_true, if_false]
    cases l <;> cases r <;> simp [bindKind] at hk₀ <;> subst hk₀ <;> rfl

/-- Boolean form of "list members are header members" for one operation -/
def listMembersAreHeaders (op : Op) : Bool := (implInputs op).all fun b => !isListMember b || b.loc == .header

theorem mem_opEBs {c : Binding → Codec V} {op : Op} {eb : EB V} (h : eb ∈ opEBs c op) :
    ∃ b ∈ implInputs op, rowEB c b = some eb := by
  simpa [opEBs, List.mem_filterMap] using h

/-- a converted row comes from a table row with the same wire name, bound to a header iff of header kind -/
theorem mem_opEBs_row {c : Binding → Codec V} {op : Op} (hl : listMembersAreHeaders op = true) {eb : EB V}
    (h : eb ∈ opEBs c op) :
    ∃ b ∈ implInputs op, eb.bind.wire = b.wire ∧ isHQ b = true ∧
      isHeaderKind eb.bind.kind = (b.loc == .header) := by
  obtain ⟨b, hb, hr⟩ := mem_opEBs h
  refine ⟨b, hb, rowEB_wire hr, ?_, rowEB_isHeaderKind hr ?_⟩
  · rw [← rowEB_isSome c b, hr]; rfl
  · intro hi
    have := List.all_eq_true.mp hl b hb
    simpa [hi] using this

/-! ## `Distinct` through a decidable checker on the (location, wire name) shape -/

def shape (bs : List (EB V)) : List (Bool × Name) := bs.map fun b => (isHeaderKind b.bind.kind, b.bind.wire)

def distinctB : List (Bool × Name) → Bool
  | [] => true
  | a :: l => l.all (fun b => !(a.1 == b.1 && a.2 == b.2)) && distinctB l

theorem distinct_of_distinctB : ∀ (bs : List (EB V)), distinctB (shape bs) = true → Distinct bs
  | [], _ => List.Pairwise.nil
  | a :: bs, h => by
    simp only [shape, List.map_cons, distinctB, Bool.and_eq_true, List.all_eq_true] at h
    refine List.Pairwise.cons ?_ (distinct_of_distinctB bs h.2)
    intro b hb hk hw
    have := h.1 (isHeaderKind b.bind.kind, b.bind.wire) (List.mem_map.mpr ⟨b, hb, rfl⟩)
    simp [hk, hw] at this

/-- the shape of an operation's bindings, read off the table (no codec in it) -/
def opShape (op : Op) : List (Bool × Name) :=
  (implInputs op).filterMap fun b => (rowKind b).map fun k => (isHeaderKind k, b.wire)

theorem shape_opEBs (c : Binding → Codec V) (op : Op) : shape (opEBs c op) = opShape op := by
  simp only [shape, opEBs, opShape, List.map_filterMap]
  congr 1
  funext b
  simp only [rowEB]
  cases rowKind b <;> rfl

/-! ## a decidable checker for `Conf` (for non-vacuity examples with concrete values) -/

def conformsB [DecidableEq V] (b : EB V) (s : Slot V) : Bool :=
  (match b.bind.kind, s with
    | .reqHeader, .one _ => true
    | .optHeader, .opt _ => true
    | .listHeader req, .many vs => (!req || !vs.isEmpty) && vs.all fun v => lineItems (b.enc v) == [b.enc v]
    | .reqQuery, .one _ => true
    | .optQuery, .opt _ => true
    | _, _ => false) &&
  (slotValues s).all fun v => b.bind.dec (b.enc v) == some v

def confB [DecidableEq V] : List (EB V) → List (Slot V) → Bool
  | [], [] => true
  | b :: bs, s :: ss => conformsB b s && confB bs ss
  | _, _ => false

theorem conforms_of_conformsB [DecidableEq V] (b : EB V) (s : Slot V) (h : conformsB b s = true) :
    Conforms b s := by
  obtain ⟨⟨k, w, d⟩, e⟩ := b
  simp only [conformsB, Bool.and_eq_true, List.all_eq_true, beq_iff_eq] at h
  refine ⟨?_, h.2⟩
  have h1 := h.1
  cases k <;> cases s <;> simp_all
  rintro rfl
  simpa using h1.1

theorem conf_of_confB [DecidableEq V] : ∀ (bs : List (EB V)) (ss : List (Slot V)), confB bs ss = true → Conf bs ss
  | [], [], _ => trivial
  | [], _ :: _, h => by simp [confB] at h
  | _ :: _, [], h => by simp [confB] at h
  | b :: bs, s :: ss, h => by
    simp only [confB, Bool.and_eq_true] at h
    exact ⟨conforms_of_conformsB b s h.1, conf_of_confB bs ss h.2⟩

end S3V.HttpDeTable
