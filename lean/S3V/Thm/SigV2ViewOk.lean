import S3V.Thm.SigV2Sts
import S3V.Thm.SigV2Inj
/-!
# Lemmas: the side conditions of `render_injective` follow from conditions on the request (C11)
-/
namespace S3V.SigV2Thm
open S3V S3V.SigV2

/-- request-level conditions: no `\n` in the method, header values are `to_str` strings, header names
    contain neither `:` nor `\n` (they are HTTP tokens), a presigned `Expires` contains no `\n`, and the
    resource starts with `/` (a virtual-host bucket, or an origin-form path) -/
def reqOk (mode : SigV2Spec.Mode) (r : SigV2Spec.Req) : Bool :=
  r.method.all (· ≠ 10) && valuesVisible r
    && r.headers.all (fun h => h.1.all fun c => c ≠ 58 && c ≠ 10)
    && (mode = .header || (SigV2Spec.paramValues r (sp!"Expires")).all fun v => v.all (· ≠ 10))
    && (r.vhBucket.isSome || r.path.head? = some 47)

theorem commaJoin_all (p : UInt8 → Bool) (hp : p 44 = true) (vs : List Bytes) (h : ∀ v ∈ vs, v.all p = true) :
    (SigV2Spec.commaJoin vs).all p = true := by
  cases vs with
  | nil => rfl
  | cons v ws =>
    simp only [SigV2Spec.commaJoin, List.all_append, Bool.and_eq_true]
    refine ⟨h v (by simp), ?_⟩
    rw [List.all_eq_true]
    intro c hc
    obtain ⟨w, hw, hcw⟩ := List.mem_flatMap.mp hc
    rcases List.mem_cons.mp hcw with rfl | hcw
    · exact hp
    · exact List.all_eq_true.mp (h w (by simp [hw])) c hcw

theorem visible_ne_nl (v : Bytes) (h : v.all isVisibleAscii = true) : v.all (· ≠ 10) = true := by
  rw [List.all_eq_true] at h ⊢
  intro c hc
  have := h c hc
  simp only [decide_eq_true_eq]
  intro e; subst e; revert this; decide

theorem trimOws_all (p : UInt8 → Bool) (v : Bytes) (h : v.all p = true) : (SigV2Spec.trimOws v).all p = true := by
  rw [List.all_eq_true] at h ⊢
  intro c hc
  unfold SigV2Spec.trimOws at hc
  have h1 := (List.dropWhile_sublist _).subset (List.mem_reverse.mp hc)
  exact h c ((List.dropWhile_sublist _).subset (List.mem_reverse.mp h1))

theorem mem_mergeEqual {x : Bytes} {l : List Bytes} (h : x ∈ SigV2Spec.mergeEqual l) : x ∈ l := by
  fun_induction SigV2Spec.mergeEqual l <;> grind

theorem mem_sortNames {x : Bytes} {l : List Bytes} : x ∈ SigV2Spec.sortNames l ↔ x ∈ l := by
  induction l with
  | nil => simp [SigV2Spec.sortNames]
  | cons y ys ih => simp [SigV2Spec.sortNames, mem_insertName, ih]

theorem mem_amzNames {n : Bytes} {r : SigV2Spec.Req} (h : n ∈ SigV2Spec.amzNames r) :
    SigV2Spec.isAmzName n = true ∧ ∃ x ∈ r.headers, n = SigV2Spec.lower x.1 := by
  unfold SigV2Spec.amzNames at h
  have h1 := mem_sortNames.mp (mem_mergeEqual h)
  obtain ⟨h2, h3⟩ := List.mem_filter.mp h1
  obtain ⟨x, hx, rfl⟩ := List.mem_map.mp h2
  exact ⟨h3, x, hx, rfl⟩

theorem isAmzName_head {n : Bytes} (h : SigV2Spec.isAmzName n = true) : n.head? = some 120 := by
  cases n with
  | nil => simp [SigV2Spec.isAmzName, SigV2Spec.isPrefixOf] at h
  | cons c cs =>
    simp only [SigV2Spec.isAmzName, SigV2Spec.isPrefixOf, Bool.and_eq_true, decide_eq_true_eq] at h
    simp [← h.1]

theorem lowerByte_ne (c : UInt8) (h : (c ≠ 58 && c ≠ 10) = true) :
    (SigV2Spec.lowerByte c ≠ 58 && SigV2Spec.lowerByte c ≠ 10) = true := by
  unfold SigV2Spec.lowerByte
  split
  · rename_i hc
    have h1 : (c + 32).toNat = c.toNat + 32 := by
      rw [UInt8.toNat_add]
      have : (32 : UInt8).toNat = 32 := rfl
      omega
    have h58 : (58 : UInt8).toNat = 58 := rfl
    have h10 : (10 : UInt8).toNat = 10 := rfl
    have h2 : c + 32 ≠ 58 := fun e => by have := congrArg UInt8.toNat e; rw [h1, h58] at this; omega
    have h3 : c + 32 ≠ 10 := fun e => by have := congrArg UInt8.toNat e; rw [h1, h10] at this; omega
    simp [h2, h3]
  · exact h

theorem lower_all (n : Bytes) (h : n.all (fun c => c ≠ 58 && c ≠ 10) = true) :
    (SigV2Spec.lower n).all (fun c => c ≠ 58 && c ≠ 10) = true := by
  unfold SigV2Spec.lower
  rw [List.all_map]
  rw [List.all_eq_true] at h ⊢
  intro c hc
  exact lowerByte_ne c (h c hc)

theorem resource_head (r : SigV2Spec.Req) (hr : (r.vhBucket.isSome || r.path.head? = some 47) = true) :
    (SigV2Spec.canonicalizedResource r).head? = some 47 := by
  unfold SigV2Spec.canonicalizedResource
  cases hb : r.vhBucket with
  | some b => simp
  | none =>
    rw [hb] at hr
    simp only [Option.isSome_none, Bool.false_eq_true, false_or, Bool.or_eq_true, decide_eq_true_eq] at hr
    cases hp : r.path with
    | nil => rw [hp] at hr; simp at hr
    | cons c cs => rw [hp] at hr; simp at hr; simp [hr]

theorem view_ok_of_reqOk (mode : SigV2Spec.Mode) (r : SigV2Spec.Req) (h : reqOk mode r = true) :
    (SigV2Spec.view mode r).ok = true := by
  simp only [reqOk, Bool.and_eq_true] at h
  obtain ⟨⟨⟨⟨hm, hv⟩, hn⟩, he⟩, hr⟩ := h
  have hfv : ∀ n, ∀ v ∈ SigV2Spec.fieldValues r n, v.all (· ≠ 10) = true :=
    fun n v hvm => visible_ne_nl v (fieldValues_visible r hv n v hvm)
  have hpos : ∀ n, (SigV2Spec.positional r n).all (· ≠ 10) = true :=
    fun n => commaJoin_all _ (by decide) _ (hfv n)
  simp only [SigV2Spec.View.ok, SigV2Spec.view, Bool.and_eq_true]
  refine ⟨⟨⟨⟨⟨hm, hpos _⟩, hpos _⟩, ?_⟩, ?_⟩, ?_⟩
  · -- date element
    cases mode with
    | header =>
      simp only [SigV2Spec.dateElement]
      split
      · rfl
      · exact hpos _
    | query =>
      simp only [SigV2Spec.dateElement]
      apply commaJoin_all _ (by decide)
      simp only [Bool.or_eq_true, decide_eq_true_eq, reduceCtorEq, false_or] at he
      exact fun v hvm => List.all_eq_true.mp he v hvm
  · -- canonical x-amz pairs
    rw [List.all_eq_true]
    intro p hp
    unfold SigV2Spec.amzHeaders at hp
    obtain ⟨n, hnm, rfl⟩ := List.mem_map.mp hp
    obtain ⟨hamz, x, hx, rfl⟩ := mem_amzNames hnm
    simp only [Bool.and_eq_true, decide_eq_true_eq]
    refine ⟨⟨isAmzName_head hamz, lower_all _ (List.all_eq_true.mp hn x hx)⟩, ?_⟩
    apply commaJoin_all _ (by decide)
    intro v hvm
    obtain ⟨w, hw, rfl⟩ := List.mem_map.mp hvm
    exact trimOws_all _ w (hfv _ w hw)
  · exact decide_eq_true (resource_head r hr)

end S3V.SigV2Thm
