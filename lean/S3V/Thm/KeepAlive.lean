import S3V.Model.KeepAlive
import S3V.Spec.KeepAlive
/-!
# Lemmas about the keep-alive state machine and the header-map helpers (C03, hand-written half)
-/
namespace S3V.KeepAlive
open S3V.KeepAliveSpec

/-! ## phases of a `KeepAliveBody` -/

/-- initial frame already sent, future not yet completed -/
def Waiting (s : KA) : Prop := s.initial = none ∧ s.response = none ∧ s.done = false

/-- the future completed with `Ok r`; the response's body is being forwarded -/
def Draining (s : KA) (r : Resp) : Prop := s.initial = none ∧ s.response = some r ∧ s.done = false

/-- value returned while waiting: a space when the tick fired, else `Pending` -/
def waitOut (i : PollInput) : PollOutput := if i.tick then .data space else .pending

/-- a non-final poll of the response body is handed through unchanged -/
def passOut : BodyPoll → PollOutput
  | .pending => .pending
  | .data d => .data d
  | .trailers t => .trailers t
  | .err => .error
  | .eos => .eos

/-- concatenation of the data frames a body produced -/
def bodyData : List BodyPoll → Bytes
  | [] => []
  | .data d :: rest => d ++ bodyData rest
  | _ :: rest => bodyData rest

/-- trailer frames the body itself produced (handed through) -/
def bodyTrailers : List BodyPoll → List Hdrs
  | [] => []
  | .trailers t :: rest => t :: bodyTrailers rest
  | _ :: rest => bodyTrailers rest

def spaces (k : Nat) : Bytes := List.replicate k 32

theorem run_nil (s : KA) : run s [] = (s, []) := rfl

theorem run_cons (s : KA) (i : PollInput) (rest : List PollInput) :
    run s (i :: rest) = ((run (step s i).1 rest).1, (step s i).2 :: (run (step s i).1 rest).2) := rfl

theorem run_append (s : KA) (a b : List PollInput) :
    run s (a ++ b) = ((run (run s a).1 b).1, (run s a).2 ++ (run (run s a).1 b).2) := by
  induction a generalizing s with
  | nil => simp [run_nil]
  | cons i rest ih => simp [run_cons, ih]

theorem step_done {s : KA} (h : s.done = true) (i : PollInput) : step s i = (s, .eos) := by
  simp [step, h]

theorem run_done {s : KA} (h : s.done = true) (ins : List PollInput) :
    run s ins = (s, ins.map fun _ => .eos) := by
  induction ins with
  | nil => rfl
  | cons i rest ih => simp [run_cons, step_done h, ih]

theorem step_initial {s : KA} {b : Bytes} (hd : s.done = false) (hi : s.initial = some b) (i : PollInput) :
    step s i = ({ s with initial := none }, .data b) := by
  simp [step, hd, hi]

theorem step_waiting_pending {s : KA} (h : Waiting s) {i : PollInput} (hi : i.inner = .pending) :
    step s i = (s, waitOut i) := by
  obtain ⟨h1, h2, h3⟩ := h
  simp only [step, h1, h2, h3, hi, waitOut]
  cases i.tick <;> simp

theorem step_waiting_err {s : KA} (h : Waiting s) {i : PollInput} (hi : i.inner = .readyErr) :
    step s i = ({ s with done := true }, .error) := by
  obtain ⟨h1, h2, h3⟩ := h
  simp [step, h1, h2, h3, hi]

theorem step_waiting_ok {s : KA} (h : Waiting s) {i : PollInput} {r : Resp} (hi : i.inner = .readyOk r) :
    step s i = drain { s with response := some r } r i.body := by
  obtain ⟨h1, h2, h3⟩ := h
  simp [step, h1, h2, h3, hi]

theorem step_draining {s : KA} {r : Resp} (h : Draining s r) (i : PollInput) :
    step s i = drain s r i.body := by
  obtain ⟨h1, h2, h3⟩ := h
  simp [step, h1, h2, h3]

theorem drain_not_eos (s : KA) (r : Resp) {b : BodyPoll} (hb : b ≠ .eos) :
    drain s r b = (s, passOut b) := by
  cases b <;> simp_all [drain, passOut]

theorem drain_eos (s : KA) (r : Resp) :
    drain s r .eos = ({ s with response := some { r with headers := [] }, done := true }, .trailers r.headers) := rfl

theorem waiting_to_draining {s : KA} (h : Waiting s) (r : Resp) : Draining { s with response := some r } r :=
  ⟨h.1, rfl, h.2.2⟩

theorem run_waiting {s : KA} (h : Waiting s) (pre : List PollInput) (hp : ∀ i ∈ pre, i.inner = .pending) :
    run s pre = (s, pre.map waitOut) := by
  induction pre with
  | nil => rfl
  | cons i rest ih =>
    have hi := hp i (by simp)
    have hr : ∀ j ∈ rest, j.inner = .pending := fun j hj => hp j (by simp [hj])
    simp [run_cons, step_waiting_pending h hi, ih hr]

theorem run_draining {s : KA} {r : Resp} (h : Draining s r) (bs : List PollInput)
    (hb : ∀ i ∈ bs, i.body ≠ .eos) : run s bs = (s, bs.map fun i => passOut i.body) := by
  induction bs with
  | nil => rfl
  | cons i rest ih =>
    have hi := hb i (by simp)
    have hr : ∀ j ∈ rest, j.body ≠ .eos := fun j hj => hb j (by simp [hj])
    simp [run_cons, step_draining h, drain_not_eos s r hi, ih hr]

/-- from the poll at which the future is `Ready(Ok r)` to the end: every non-final body poll is
    handed through, the body's end turns into `trailers r.headers`, afterwards `Ready(None)` for ever -/
theorem run_from_ready {s : KA} (h : Waiting s) {r : Resp} (dr : List PollInput) (fin : PollInput)
    (post : List PollInput) (hr : ∃ rdy tl, dr ++ [fin] = rdy :: tl ∧ rdy.inner = .readyOk r)
    (hd : ∀ i ∈ dr, i.body ≠ .eos) (hf : fin.body = .eos) :
    run s (dr ++ [fin] ++ post) =
      ({ s with response := some { r with headers := [] }, done := true },
        (dr.map fun i => passOut i.body) ++ [.trailers r.headers] ++ post.map fun _ => .eos) := by
  obtain ⟨rdy, tl, hsplit, hrdy⟩ := hr
  have hdrn := waiting_to_draining h r
  cases dr with
  | nil =>
    simp only [List.nil_append, List.cons.injEq] at hsplit
    obtain ⟨h1, _⟩ := hsplit
    subst h1
    simp only [List.nil_append, List.map_nil, List.cons_append, run_cons, step_waiting_ok h hrdy, hf, drain_eos]
    rw [run_done (by rfl)]
  | cons d ds =>
    simp only [List.cons_append, List.cons.injEq] at hsplit
    obtain ⟨h1, _⟩ := hsplit
    subst h1
    have hd0 := hd d (by simp)
    have hds : ∀ i ∈ ds, i.body ≠ .eos := fun i hi => hd i (by simp [hi])
    simp only [List.cons_append, List.map_cons, run_cons, step_waiting_ok h hrdy, drain_not_eos _ r hd0]
    rw [List.append_assoc, run_append, run_draining hdrn ds hds]
    simp only [List.singleton_append, run_cons, step_draining hdrn, hf, drain_eos]
    rw [run_done (by rfl)]
    simp

theorem stripPrefix?_eq_some (p s rest : Bytes) : stripPrefix? p s = some rest ↔ s = p ++ rest := by
  induction p generalizing s with
  | nil => simp [stripPrefix?, eq_comm]
  | cons a ps ih =>
    cases s with
    | nil => simp [stripPrefix?]
    | cons c cs =>
      by_cases hac : a = c
      · subst hac; simp [stripPrefix?, ih]
      · have : ¬ c = a := fun e => hac e.symm
        simp [stripPrefix?, hac, this]

/-! ## closed form of `run` for EVERY list of poll inputs -/

def innerPending (i : PollInput) : Bool :=
  match i.inner with
  | .pending => true
  | _ => false

def bodyNotEos (i : PollInput) : Bool :=
  match i.body with
  | .eos => false
  | _ => true

/-- from the poll at which the future is ready with `Ok r` on: body polls are handed through up to
    the body's end, which becomes `trailers r.headers`; every later poll returns `Ready(None)` -/
def transcriptDrain (r : Resp) (ins : List PollInput) : List PollOutput :=
  ((ins.takeWhile bodyNotEos).map fun i => passOut i.body) ++
    match ins.dropWhile bodyNotEos with
    | [] => []
    | _ :: post => .trailers r.headers :: post.map fun _ => .eos

/-- after the initial frame: a space per fired tick while the future is pending, then the branch the
    future's result selects -/
def transcriptWaiting (ins : List PollInput) : List PollOutput :=
  (ins.takeWhile innerPending).map waitOut ++
    match ins.dropWhile innerPending with
    | [] => []
    | i :: more =>
      match i.inner with
      | .readyOk r => transcriptDrain r (i :: more)
      | .readyErr => .error :: more.map fun _ => .eos
      | .pending => []

/-- what a `KeepAliveBody::new(_, _, initial)` returns, poll by poll, on ANY list of poll inputs -/
def transcript (initial : Option Bytes) (ins : List PollInput) : List PollOutput :=
  match initial, ins with
  | some _, [] => []
  | some b, _ :: rest => .data b :: transcriptWaiting rest
  | none, ins => transcriptWaiting ins

theorem bodyNotEos_iff (i : PollInput) : bodyNotEos i = true ↔ i.body ≠ .eos := by
  cases hb : i.body <;> simp [bodyNotEos, hb]

theorem run_draining_all {s : KA} {r : Resp} (h : Draining s r) (ins : List PollInput) :
    (run s ins).2 = transcriptDrain r ins := by
  induction ins with
  | nil => rfl
  | cons i rest ih =>
    by_cases hb : i.body = .eos
    · have hf : bodyNotEos i = false := by simp [bodyNotEos, hb]
      simp only [run_cons, step_draining h, hb, drain_eos, transcriptDrain, List.takeWhile_cons, hf,
        List.dropWhile_cons]
      rw [run_done (by rfl)]
      simp
    · have ht : bodyNotEos i = true := (bodyNotEos_iff i).mpr hb
      simp only [run_cons, step_draining h, drain_not_eos s r hb, ih, transcriptDrain, List.takeWhile_cons, ht,
        List.dropWhile_cons]
      simp

theorem run_ready_cons {s : KA} (h : Waiting s) {i : PollInput} {r : Resp} (hi : i.inner = .readyOk r)
    (rest : List PollInput) : (run s (i :: rest)).2 = transcriptDrain r (i :: rest) := by
  have hdrn := waiting_to_draining h r
  by_cases hb : i.body = .eos
  · have hf : bodyNotEos i = false := by simp [bodyNotEos, hb]
    simp only [run_cons, step_waiting_ok h hi, hb, drain_eos, transcriptDrain, List.takeWhile_cons, hf,
      List.dropWhile_cons]
    rw [run_done (by rfl)]
    simp
  · have ht : bodyNotEos i = true := (bodyNotEos_iff i).mpr hb
    simp only [run_cons, step_waiting_ok h hi, drain_not_eos _ r hb, run_draining_all hdrn, transcriptDrain,
      List.takeWhile_cons, ht, List.dropWhile_cons]
    simp

theorem run_waiting_all {s : KA} (h : Waiting s) (ins : List PollInput) :
    (run s ins).2 = transcriptWaiting ins := by
  induction ins with
  | nil => rfl
  | cons i rest ih =>
    cases hi : i.inner with
    | pending =>
      have ht : innerPending i = true := by simp [innerPending, hi]
      simp only [run_cons, step_waiting_pending h hi, ih, transcriptWaiting, List.takeWhile_cons, ht,
        List.dropWhile_cons]
      simp
    | readyOk r =>
      have hf : innerPending i = false := by simp [innerPending, hi]
      rw [run_ready_cons h hi]
      simp [transcriptWaiting, hf, hi]
    | readyErr =>
      have hf : innerPending i = false := by simp [innerPending, hi]
      simp only [run_cons, step_waiting_err h hi]
      rw [run_done (by rfl)]
      simp [transcriptWaiting, hf, hi]

theorem run_new (initial : Option Bytes) (ins : List PollInput) :
    (run (KA.new initial) ins).2 = transcript initial ins := by
  cases initial with
  | none => exact run_waiting_all ⟨rfl, rfl, rfl⟩ ins
  | some b =>
    cases ins with
    | nil => rfl
    | cons i rest =>
      simp only [run_cons, step_initial (s := KA.new (some b)) rfl rfl, transcript]
      rw [run_waiting_all ⟨rfl, rfl, rfl⟩]

/-! ## the emitted bytes -/

theorem dataOf_append (a b : List PollOutput) : dataOf (a ++ b) = dataOf a ++ dataOf b := by
  induction a with
  | nil => rfl
  | cons o rest ih => cases o <;> simp [dataOf, ih]

theorem trailersOf_append (a b : List PollOutput) : trailersOf (a ++ b) = trailersOf a ++ trailersOf b := by
  induction a with
  | nil => rfl
  | cons o rest ih => cases o <;> simp [trailersOf, ih]

theorem dataOf_wait (pre : List PollInput) :
    dataOf (pre.map waitOut) = spaces (pre.countP (·.tick)) := by
  induction pre with
  | nil => rfl
  | cons i rest ih =>
    by_cases ht : i.tick = true
    · simp [waitOut, ht, dataOf, ih, spaces, space, List.replicate_succ]
    · simp [waitOut, ht, dataOf, ih]

theorem trailersOf_wait (pre : List PollInput) : trailersOf (pre.map waitOut) = [] := by
  induction pre with
  | nil => rfl
  | cons i rest ih =>
    by_cases ht : i.tick = true <;> simp [waitOut, ht, trailersOf, ih]

theorem dataOf_passOut (bps : List BodyPoll) : dataOf (bps.map passOut) = bodyData bps := by
  induction bps with
  | nil => rfl
  | cons b rest ih => cases b <;> simp [passOut, dataOf, bodyData, ih]

theorem trailersOf_passOut (bps : List BodyPoll) : trailersOf (bps.map passOut) = bodyTrailers bps := by
  induction bps with
  | nil => rfl
  | cons b rest ih => cases b <;> simp [passOut, trailersOf, bodyTrailers, ih]

theorem map_pass (bs : List PollInput) :
    (bs.map fun i => passOut i.body) = (bs.map (·.body)).map passOut := by
  simp [List.map_map, Function.comp_def]

theorem dataOf_pass (bs : List PollInput) :
    dataOf (bs.map fun i => passOut i.body) = bodyData (bs.map (·.body)) := by
  rw [map_pass, dataOf_passOut]

theorem trailersOf_pass (bs : List PollInput) :
    trailersOf (bs.map fun i => passOut i.body) = bodyTrailers (bs.map (·.body)) := by
  rw [map_pass, trailersOf_passOut]

theorem dataOf_eos (post : List PollInput) : dataOf (post.map fun _ => PollOutput.eos) = [] := by
  induction post with
  | nil => rfl
  | cons i rest ih => simp [dataOf, ih]

theorem trailersOf_eos (post : List PollInput) : trailersOf (post.map fun _ => PollOutput.eos) = [] := by
  induction post with
  | nil => rfl
  | cons i rest ih => simp [trailersOf, ih]

theorem spaces_all_ws (k : Nat) : ∀ c ∈ spaces k, isXmlWs c = true := by
  intro c hc
  simp [spaces] at hc
  rw [hc.2]; decide

/-! ## the executable white-space judge is the declarative clause -/

theorem wsThenDocB_iff (rest doc : Bytes) :
    wsThenDocB rest doc = true ↔ ∃ ws : Bytes, (∀ c ∈ ws, isXmlWs c = true) ∧ rest = ws ++ doc := by
  induction rest with
  | nil =>
    simp only [wsThenDocB, beq_iff_eq]
    constructor
    · intro h; exact ⟨[], by simp, by simp [h]⟩
    · rintro ⟨ws, _, h⟩
      have := congrArg List.length h
      simp at this
      exact List.eq_nil_of_length_eq_zero (by omega)
  | cons c cs ih =>
    simp only [wsThenDocB, Bool.or_eq_true, beq_iff_eq, Bool.and_eq_true, ih]
    constructor
    · rintro (h | ⟨hc, ws, hws, h⟩)
      · exact ⟨[], by simp, by simp [h]⟩
      · refine ⟨c :: ws, ?_, by simp [h]⟩
        intro x hx
        rcases List.mem_cons.mp hx with rfl | hx
        · exact hc
        · exact hws x hx
    · rintro ⟨ws, hws, h⟩
      cases ws with
      | nil => left; simpa using h
      | cons w ws' =>
        right
        simp only [List.cons_append, List.cons.injEq] at h
        obtain ⟨rfl, h2⟩ := h
        exact ⟨hws c (by simp), ws', fun x hx => hws x (by simp [hx]), h2⟩

theorem stripWs_ws_append {ws doc : Bytes} (hws : ∀ c ∈ ws, isXmlWs c = true)
    (hdoc : ∀ c, doc.head? = some c → isXmlWs c = false) : stripWs (ws ++ doc) = doc := by
  induction ws with
  | nil =>
    cases doc with
    | nil => rfl
    | cons d ds =>
      have := hdoc d rfl
      simp [stripWs, this]
  | cons w ws' ih =>
    have hw := hws w (by simp)
    simp only [stripWs, List.cons_append, List.dropWhile, hw]
    exact ih fun c hc => hws c (by simp [hc])

/-! ## header maps -/

theorem hGetAll_hSetAll (h : Hdrs) (n : HName) (vs : List HVal) (m : HName) :
    hGetAll (hSetAll h n vs) m = if m = n then vs else hGetAll h m := by
  induction h with
  | nil =>
    by_cases hm : m = n
    · simp [hSetAll, hGetAll, hm]
    · have : ¬ n = m := fun e => hm e.symm
      simp [hSetAll, hGetAll, hm, this]
  | cons kv rest ih =>
    obtain ⟨k, ws⟩ := kv
    by_cases hk : k = n
    · subst hk
      by_cases hm : m = k
      · simp [hSetAll, hGetAll, hm]
      · have : ¬ k = m := fun e => hm e.symm
        simp [hSetAll, hGetAll, hm, this]
    · simp only [hSetAll, hk, if_false, hGetAll]
      by_cases hkm : k = m
      · subst hkm; simp [hk]
      · simp [hkm, ih]

/-- the values a header list carries for a name (first entry of that name) -/
def srcLookup (src : Hdrs) (m : HName) : Option (List HVal) :=
  match src with
  | [] => none
  | (k, vs) :: rest => if k = m then some vs else srcLookup rest m

theorem srcLookup_of_mem {src : Hdrs} (hn : (src.map (·.1)).Nodup) {n : HName} {vs : List HVal}
    (h : (n, vs) ∈ src) : srcLookup src n = some vs := by
  induction src with
  | nil => cases h
  | cons kv rest ih =>
    obtain ⟨k, ws⟩ := kv
    simp only [List.map_cons, List.nodup_cons] at hn
    rcases List.mem_cons.mp h with heq | hmem
    · cases heq; simp [srcLookup]
    · have hkn : k ≠ n := by
        intro e; subst e
        exact hn.1 (List.mem_map.mpr ⟨(k, vs), hmem, rfl⟩)
      simp [srcLookup, hkn, ih hn.2 hmem]

theorem srcLookup_none_of_not_mem {src : Hdrs} {m : HName} (h : m ∉ src.map (·.1)) : srcLookup src m = none := by
  induction src with
  | nil => rfl
  | cons kv rest ih =>
    obtain ⟨k, ws⟩ := kv
    simp only [List.map_cons, List.mem_cons, not_or] at h
    have : ¬ k = m := fun e => h.1 e.symm
    simp [srcLookup, this, ih h.2]

/-- `extend` with a header map (names unique): its entries win, everything else stays -/
theorem hGetAll_hExtend (h src : Hdrs) (hn : (src.map (·.1)).Nodup) (m : HName) :
    hGetAll (hExtend h src) m = (srcLookup src m).getD (hGetAll h m) := by
  induction src generalizing h with
  | nil => simp [hExtend, srcLookup]
  | cons kv rest ih =>
    obtain ⟨k, ws⟩ := kv
    simp only [List.map_cons, List.nodup_cons] at hn
    have hstep : hExtend h ((k, ws) :: rest) = hExtend (hSetAll h k ws) rest := by simp [hExtend]
    rw [hstep, ih _ hn.2]
    by_cases hkm : k = m
    · subst hkm
      rw [srcLookup_none_of_not_mem hn.1]
      simp [srcLookup, hGetAll_hSetAll]
    · have : ¬ m = k := fun e => hkm e.symm
      simp [srcLookup, hkm, hGetAll_hSetAll, this]

/-- the value GetObject's response carries for a name before the content-length rule:
    backend header, else overridden (`response-*`) header, else serialized header -/
def getObjectMerged (ser : Resp) (overridden s3hdrs : Hdrs) (m : HName) : List HVal :=
  (srcLookup s3hdrs m).getD ((srcLookup overridden m).getD (hGetAll ser.headers m))

theorem hGetAll_hRemove_ne (h : Hdrs) (n m : HName) (hne : m ≠ n) : hGetAll (hRemove h n) m = hGetAll h m := by
  induction h with
  | nil => rfl
  | cons kv rest ih =>
    obtain ⟨k, ws⟩ := kv
    by_cases hk : k = n
    · subst hk
      have : ¬ k = m := fun e => hne e.symm
      simp [hRemove, hGetAll, this]
    · simp only [hRemove, hk, if_false, hGetAll]
      by_cases hkm : k = m <;> simp [hkm, ih]

theorem hGetAll_eq_nil_of_not_mem {h : Hdrs} {m : HName} (hm : m ∉ h.map (·.1)) : hGetAll h m = [] := by
  induction h with
  | nil => rfl
  | cons kv rest ih =>
    obtain ⟨k, ws⟩ := kv
    simp only [List.map_cons, List.mem_cons, not_or] at hm
    have : ¬ k = m := fun e => hm.1 e.symm
    simp [hGetAll, this, ih hm.2]

theorem hGetAll_hRemove_self (h : Hdrs) (n : HName) (hn : (h.map (·.1)).Nodup) : hGetAll (hRemove h n) n = [] := by
  induction h with
  | nil => rfl
  | cons kv rest ih =>
    obtain ⟨k, ws⟩ := kv
    simp only [List.map_cons, List.nodup_cons] at hn
    by_cases hk : k = n
    · subst hk
      simp only [hRemove, if_true]
      exact hGetAll_eq_nil_of_not_mem hn.1
    · simp [hRemove, hk, hGetAll, ih hn.2]

theorem names_hSetAll (h : Hdrs) (n : HName) (vs : List HVal) :
    (hSetAll h n vs).map (·.1) = if n ∈ h.map (·.1) then h.map (·.1) else h.map (·.1) ++ [n] := by
  induction h with
  | nil => simp [hSetAll]
  | cons kv rest ih =>
    obtain ⟨k, ws⟩ := kv
    by_cases hk : k = n
    · subst hk; simp [hSetAll]
    · have : ¬ n = k := fun e => hk e.symm
      simp only [hSetAll, hk, if_false, List.map_cons, ih, List.mem_cons, this, false_or]
      split <;> simp

theorem nodup_hSetAll {h : Hdrs} (hn : (h.map (·.1)).Nodup) (n : HName) (vs : List HVal) :
    ((hSetAll h n vs).map (·.1)).Nodup := by
  rw [names_hSetAll]
  split
  · exact hn
  · rename_i hnot
    rw [List.nodup_append]
    refine ⟨hn, by simp, ?_⟩
    intro a ha b hb
    simp at hb
    subst hb
    intro e; subst e
    exact hnot ha

theorem nodup_hExtend {h : Hdrs} (hn : (h.map (·.1)).Nodup) (src : Hdrs) :
    ((hExtend h src).map (·.1)).Nodup := by
  induction src generalizing h with
  | nil => simpa [hExtend] using hn
  | cons kv rest ih =>
    have hstep : hExtend h (kv :: rest) = hExtend (hSetAll h kv.1 kv.2) rest := by simp [hExtend]
    rw [hstep]
    exact ih (nodup_hSetAll hn _ _)

/-- folding `add_opt_header` over distinct names: a `Some` member is present with exactly its value,
    every other name keeps what it had -/
theorem hGetAll_foldl_addOpt (nvs : List (HName × Option HVal)) (hn : (nvs.map (·.1)).Nodup) (h : Hdrs)
    (m : HName) :
    hGetAll (nvs.foldl (fun h nv => addOptHeader h nv.1 nv.2) h) m =
      match (nvs.find? (·.1 = m)).bind (·.2) with
      | some v => [v]
      | none => hGetAll h m := by
  induction nvs generalizing h with
  | nil => simp
  | cons nv rest ih =>
    obtain ⟨n, ov⟩ := nv
    simp only [List.map_cons, List.nodup_cons] at hn
    simp only [List.foldl_cons]
    rw [ih hn.2]
    by_cases hnm : n = m
    · subst hnm
      have hnone : rest.find? (·.1 = n) = none := by
        rw [List.find?_eq_none]
        intro x hx hxe
        simp at hxe
        exact hn.1 (List.mem_map.mpr ⟨x, hx, hxe⟩)
      simp only [hnone, Option.bind_none, List.find?_cons, decide_true, Option.bind_some]
      cases ov with
      | none => simp [addOptHeader]
      | some v => simp [addOptHeader, hInsert, hGetAll_hSetAll]
    · have hdec : decide (n = m) = false := by simp [hnm]
      simp only [List.find?_cons, hdec]
      cases hf : (rest.find? (·.1 = m)).bind (·.2) with
      | some v => simp
      | none =>
        simp only
        cases ov with
        | none => simp [addOptHeader]
        | some v =>
          have : ¬ m = n := fun e => hnm e.symm
          simp [addOptHeader, hInsert, hGetAll_hSetAll, this]

end S3V.KeepAlive
