import S3V.Model.FsWrite
/-!
# Lemmas for C19: one writer, a fault after any step
-/
namespace S3V.FsWrite

/-- the state an interrupted or failed call had reached -/
def outSt : Except (Code × St) St → St
  | .ok s => s
  | .error (_, s) => s

theorem dropAfter_eq (k : Nat) (prog : List Step) (s : St) :
    dropAfter k prog s = cleanup (outSt (prefixRun k prog s)) := by
  unfold dropAfter outSt
  split <;> simp_all

/-- what the steps after the body guarantee, started in a state where the `FileWriter` exists: `nPre` of them
    come before the rename -/
def TailOk (tail : List Step) (nPre : Nat) : Prop :=
  ∀ (s : St) (k : Nat), s.owned = true → s.tmp = true →
    (cleanup (outSt (prefixRun k tail s))).tmp = false ∧
    ((cleanup (outSt (prefixRun k tail s))).dest = s.dest ∨ (cleanup (outSt (prefixRun k tail s))).dest = some s.acc) ∧
    (k ≤ nPre → (cleanup (outSt (prefixRun k tail s))).dest = s.dest) ∧
    (((cleanup (outSt (prefixRun k tail s))).mdata ≠ s.mdata ∨ (cleanup (outSt (prefixRun k tail s))).info ≠ s.info) →
      (cleanup (outSt (prefixRun k tail s))).dest = some s.acc)

theorem putTail_ok (c : Cfg) :
    TailOk ([.flush, .check c.checksumsEqual, .mkdirs c.mkdirsFails, .rename c.renameFails] ++
      (if c.hasMeta then [.saveMeta c.metaFails] else [.dropMeta c.metaFails]) ++ [.saveInfo c.infoFails]) 3 := by
  intro s k ho ht
  rcases k with _ | _ | _ | _ | _ | _ | _ | k <;>
    cases c.checksumsEqual <;> cases c.mkdirsFails <;> cases c.renameFails <;> cases c.hasMeta <;>
    cases c.metaFails <;> cases c.infoFails <;> simp [prefixRun, exec, cleanup, outSt, ho]

theorem uploadPartTail_ok (c : Cfg) : TailOk [.flush, .mkdirs c.mkdirsFails, .rename c.renameFails] 2 := by
  intro s k ho ht
  rcases k with _ | _ | _ | _ | k <;> cases c.mkdirsFails <;> cases c.renameFails <;>
    simp [prefixRun, exec, cleanup, outSt, ho]

theorem completeTail_ok (c : Cfg) : TailOk [.mkdirs c.mkdirsFails, .rename c.renameFails] 1 := by
  intro s k ho ht
  rcases k with _ | _ | _ | k <;> cases c.mkdirsFails <;> cases c.renameFails <;>
    simp [prefixRun, exec, cleanup, outSt, ho]

/-- the body frames, then a good tail: at every fault point the temporary file goes away and the destination is
    the previous content or previous `acc` ++ all body bytes; before the rename it is the previous content -/
theorem frames_then_tail {tail : List Step} {nPre : Nat} (ht : TailOk tail nPre) (frames : List Frame) :
    ∀ (s : St) (k : Nat), s.owned = true → s.tmp = true →
      (cleanup (outSt (prefixRun k (frames.map .frame ++ tail) s))).tmp = false ∧
      ((cleanup (outSt (prefixRun k (frames.map .frame ++ tail) s))).dest = s.dest ∨
        ∃ all, allBytes frames = some all ∧
          (cleanup (outSt (prefixRun k (frames.map .frame ++ tail) s))).dest = some (s.acc ++ all)) ∧
      (k ≤ frames.length + nPre → (cleanup (outSt (prefixRun k (frames.map .frame ++ tail) s))).dest = s.dest) ∧
      (((cleanup (outSt (prefixRun k (frames.map .frame ++ tail) s))).mdata ≠ s.mdata ∨
          (cleanup (outSt (prefixRun k (frames.map .frame ++ tail) s))).info ≠ s.info) →
        ∃ all, allBytes frames = some all ∧
          (cleanup (outSt (prefixRun k (frames.map .frame ++ tail) s))).dest = some (s.acc ++ all)) := by
  induction frames with
  | nil =>
    intro s k ho htm
    obtain ⟨h1, h2, h3, h4⟩ := ht s k ho htm
    refine ⟨h1, ?_, by simpa using h3, fun h => ⟨[], rfl, by simpa using h4 (by simpa using h)⟩⟩
    rcases h2 with h2 | h2
    · exact .inl h2
    · exact .inr ⟨[], rfl, by simpa using h2⟩
  | cons f r ih =>
    intro s k ho htm
    cases k with
    | zero => simp [prefixRun, outSt, cleanup, ho]
    | succ k =>
      cases f with
      | err => simp [prefixRun, exec, outSt, cleanup, ho]
      | ok b =>
        simp only [List.map_cons, List.cons_append, prefixRun, exec]
        obtain ⟨h1, h2, h3, h4⟩ := ih { s with acc := s.acc ++ b, pulled := s.pulled + 1 } k ho htm
        refine ⟨h1, ?_, ?_, ?_⟩
        · rcases h2 with h2 | ⟨all, ha, h2⟩
          · exact .inl h2
          · exact .inr ⟨b ++ all, by simp [allBytes, ha], by simpa [List.append_assoc] using h2⟩
        · intro hk
          exact h3 (by simp only [List.length_cons] at hk; omega)
        · intro h
          obtain ⟨all, ha, h5⟩ := h4 h
          exact ⟨b ++ all, by simp [allBytes, ha], by simpa [List.append_assoc] using h5⟩

theorem parts_then_tail {tail : List Step} {nPre : Nat} (ht : TailOk tail nPre) (parts : List Part) :
    ∀ (s : St) (k : Nat), s.owned = true → s.tmp = true →
      (cleanup (outSt (prefixRun k (parts.map .part ++ tail) s))).tmp = false ∧
      ((cleanup (outSt (prefixRun k (parts.map .part ++ tail) s))).dest = s.dest ∨
        ∃ all, allParts parts = some all ∧
          (cleanup (outSt (prefixRun k (parts.map .part ++ tail) s))).dest = some (s.acc ++ all)) ∧
      (k ≤ parts.length + nPre → (cleanup (outSt (prefixRun k (parts.map .part ++ tail) s))).dest = s.dest) := by
  induction parts with
  | nil =>
    intro s k ho htm
    obtain ⟨h1, h2, h3, _⟩ := ht s k ho htm
    refine ⟨h1, ?_, by simpa using h3⟩
    rcases h2 with h2 | h2
    · exact .inl h2
    · exact .inr ⟨[], rfl, by simpa using h2⟩
  | cons p r ih =>
    intro s k ho htm
    cases k with
    | zero => simp [prefixRun, outSt, cleanup, ho]
    | succ k =>
      cases p with
      | missing => simp [prefixRun, exec, outSt, cleanup, ho]
      | present b sizeOk =>
        cases sizeOk with
        | false => simp [prefixRun, exec, outSt, cleanup, ho]
        | true =>
          simp only [List.map_cons, List.cons_append, prefixRun, exec, ↓reduceIte]
          obtain ⟨h1, h2, h3⟩ := ih { s with acc := s.acc ++ b, partsGone := s.partsGone + 1 } k ho htm
          refine ⟨h1, ?_, ?_⟩
          · rcases h2 with h2 | ⟨all, ha, h2⟩
            · exact .inl h2
            · exact .inr ⟨b ++ all, by simp [allParts, ha], by simpa [List.append_assoc] using h2⟩
          · intro hk
            exact h3 (by simp only [List.length_cons] at hk; omega)

/-- `create`, `adopt`, then the rest: every fault point except "between `create` and `adopt`" (k = 1) -/
theorem create_adopt_then {rest : List Step} {s : St} (hs : s.tmp = false ∧ s.owned = false) (k : Nat) (hk : k ≠ 1) :
    (k = 0 ∧ cleanup (outSt (prefixRun k (.create :: .adopt :: rest) s)) = s) ∨
    (∃ k', k = k' + 2 ∧ cleanup (outSt (prefixRun k (.create :: .adopt :: rest) s)) =
      cleanup (outSt (prefixRun k' rest { s with tmp := true, owned := true }))) := by
  rcases k with _ | _ | k
  · left; simp [prefixRun, outSt, cleanup, hs.2]
  · exact absurd rfl hk
  · right; exact ⟨k, rfl, by simp [prefixRun, exec]⟩

/-! ## complete runs -/

theorem run_eq_drop (prog : List Step) (s : St) : (run prog s).2 = dropAfter prog.length prog s := by
  rw [dropAfter_eq]
  induction prog generalizing s with
  | nil => simp [run, prefixRun, outSt]
  | cons st r ih =>
    simp only [run, List.length_cons, prefixRun]
    cases h : exec s st with
    | ok s' => simpa using ih s'
    | error e => obtain ⟨c, s'⟩ := e; simp [outSt]

/-- running the body: all frames good → continue with all bytes appended; otherwise `InternalError` with the
    core of the state untouched (`pulled` and `acc` are bookkeeping) -/
theorem run_frames (frames : List Frame) (tail : List Step) :
    ∀ s : St, ∃ p a, run (frames.map .frame ++ tail) s =
      match allBytes frames with
      | some all => run tail { s with acc := s.acc ++ all, pulled := p }
      | none => (.internalError, cleanup { s with acc := a, pulled := p }) := by
  induction frames with
  | nil => intro s; exact ⟨s.pulled, [], by simp [allBytes]⟩
  | cons f r ih =>
    intro s
    cases f with
    | err => exact ⟨s.pulled + 1, s.acc, by simp [run, exec, allBytes]⟩
    | ok b =>
      obtain ⟨p, a, h⟩ := ih { s with acc := s.acc ++ b, pulled := s.pulled + 1 }
      refine ⟨p, a, ?_⟩
      simp only [List.map_cons, List.cons_append, run, exec, allBytes]
      rw [h]
      cases allBytes r <;> simp [List.append_assoc]

/-- running the part loop of `complete_multipart_upload` -/
theorem run_parts (parts : List Part) (tail : List Step) :
    ∀ s : St, ∃ p a code, code ≠ Code.ok ∧ run (parts.map .part ++ tail) s =
      match allParts parts with
      | some all => run tail { s with acc := s.acc ++ all, partsGone := p }
      | none => (code, cleanup { s with acc := a, partsGone := p }) := by
  induction parts with
  | nil => intro s; exact ⟨s.partsGone, [], .internalError, by decide, by simp [allParts]⟩
  | cons pt r ih =>
    intro s
    cases pt with
    | missing => exact ⟨s.partsGone, s.acc, .internalError, by decide, by simp [run, exec, allParts]⟩
    | present b sizeOk =>
      cases sizeOk with
      | false => exact ⟨s.partsGone, s.acc ++ b, .entityTooSmall, by decide, by simp [run, exec, allParts]⟩
      | true =>
        obtain ⟨p, a, code, hc, h⟩ := ih { s with acc := s.acc ++ b, partsGone := s.partsGone + 1 }
        refine ⟨p, a, code, hc, ?_⟩
        simp only [List.map_cons, List.cons_append, run, exec, allParts, ↓reduceIte]
        rw [h]
        cases allParts r <;> simp [List.append_assoc]

theorem putObjectProg_eq (c : Cfg) :
    putObjectProg c = .create :: .adopt :: (c.frames.map .frame ++
      ([.flush, .check c.checksumsEqual, .mkdirs c.mkdirsFails, .rename c.renameFails] ++
        (if c.hasMeta then [.saveMeta c.metaFails] else [.dropMeta c.metaFails]) ++ [.saveInfo c.infoFails])) := by
  simp [putObjectProg, List.append_assoc]

end S3V.FsWrite
