import S3V.Model.FsWrite
/-!
# Lemmas for C19: one writer, a fault after any step
-/
namespace S3V.FsWrite

/-- the state an interrupted or failed call had reached -/
def outSt : Except (Code × St) St → St
  | .ok s => s
  | .error (_, s) => s

theorem dropAfter_eq (k : Nat) (prog : List Step) (s : St) :
    dropAfter k prog s = cleanup (outSt (prefixRun k prog s)) := by
  unfold dropAfter outSt
  split <;> simp_all

/-- what the steps after the body guarantee, started in a state where the `FileWriter` exists: `nPre` of them
    come before the rename -/
def TailOk (tail : List Step) (nPre : Nat) : Prop :=
  ∀ (s : St) (k : Nat), s.owned = true → s.tmp = true →
    (cleanup (outSt (prefixRun k tail s))).tmp = false ∧
    ((cleanup (outSt (prefixRun k tail s))).dest = s.dest ∨ (cleanup (outSt (prefixRun k tail s))).dest = some s.acc) ∧
    (k ≤ nPre → (cleanup (outSt (prefixRun k tail s))).dest = s.dest) ∧
    (((cleanup (outSt (prefixRun k tail s))).mdata ≠ s.mdata ∨ (cleanup (outSt (prefixRun k tail s))).info ≠ s.info ∨
        (cleanup (outSt (prefixRun k tail s))).uploadRec ≠ s.uploadRec ∨
        (cleanup (outSt (prefixRun k tail s))).partsGone ≠ s.partsGone) →
      (cleanup (outSt (prefixRun k tail s))).dest = some s.acc)

theorem putTail_ok (c : Cfg) :
    TailOk ([.flush, .check c.checksumsEqual, .mkdirs c.mkdirsFails, .rename c.renameFails] ++
      (if c.hasMeta then [.saveMeta c.metaFails] else [.dropMeta c.metaFails]) ++ [.saveInfo c.infoFails]) 3 := by
  intro s k ho ht
  rcases k with _ | _ | _ | _ | _ | _ | _ | k <;>
    cases c.checksumsEqual <;> cases c.mkdirsFails <;> cases c.renameFails <;> cases c.hasMeta <;>
    cases c.metaFails <;> cases c.infoFails <;> simp [prefixRun, exec, cleanup, outSt, ho]

theorem uploadPartTail_ok (c : Cfg) : TailOk [.flush, .mkdirs c.mkdirsFails, .rename c.renameFails] 2 := by
  intro s k ho ht
  rcases k with _ | _ | _ | _ | k <;> cases c.mkdirsFails <;> cases c.renameFails <;>
    simp [prefixRun, exec, cleanup, outSt, ho]

/-- the steps that follow the rename: they touch neither the destination nor a temporary file -/
def PostStep : Step → Prop
  | .saveMeta _ | .dropMeta _ | .saveInfo _ | .dropPart | .consume => True
  | _ => False

theorem post_preserves {post : List Step} (hp : ∀ st ∈ post, PostStep st) :
    ∀ (k : Nat) (s : St),
      (outSt (prefixRun k post s)).dest = s.dest ∧ (outSt (prefixRun k post s)).tmp = s.tmp ∧
      (outSt (prefixRun k post s)).owned = s.owned := by
  induction post with
  | nil => intro k s; cases k <;> simp [prefixRun, outSt]
  | cons st r ih =>
    intro k s
    cases k with
    | zero => simp [prefixRun, outSt]
    | succ k =>
      have hr : ∀ st ∈ r, PostStep st := fun x hx => hp x (List.mem_cons_of_mem _ hx)
      have hst := hp st (by simp)
      cases st <;> simp only [PostStep] at hst
      case saveMeta fails =>
        cases fails <;> simp only [prefixRun, exec, Bool.false_eq_true, ↓reduceIte]
        · have := ih hr k { s with mdata := .new }; simpa using this
        · simp [outSt]
      case dropMeta fails =>
        cases fails <;> simp only [prefixRun, exec, Bool.false_eq_true, ↓reduceIte]
        · have := ih hr k { s with mdata := .absent }; simpa using this
        · simp [outSt]
      case saveInfo fails =>
        cases fails <;> simp only [prefixRun, exec, Bool.false_eq_true, ↓reduceIte]
        · have := ih hr k { s with info := .new }; simpa using this
        · simp [outSt]
      case dropPart =>
        simp only [prefixRun, exec]
        have := ih hr k { s with partsGone := s.partsGone + 1 }; simpa using this
      case consume =>
        simp only [prefixRun, exec]
        have := ih hr k { s with uploadRec := false }; simpa using this

/-- `done()` followed by steps that leave destination and temporary file alone: whatever they are and however many -/
theorem doneThenPost_ok (mf rf : Bool) {post : List Step} (hp : ∀ st ∈ post, PostStep st) :
    TailOk (.mkdirs mf :: .rename rf :: post) 1 := by
  intro s k ho ht
  rcases k with _ | _ | k
  · simp [prefixRun, outSt, cleanup, ho]
  · cases mf <;> simp [prefixRun, exec, outSt, cleanup, ho]
  · cases mf
    · cases rf
      · simp only [prefixRun, exec, Bool.false_eq_true, ↓reduceIte]
        obtain ⟨h1, h2, h3⟩ := post_preserves hp k
          { s with dirs := true, dest := some s.acc, tmp := false, owned := false }
        simp only at h1 h2 h3
        have hc : cleanup (outSt (prefixRun k post { s with dirs := true, dest := some s.acc, tmp := false, owned := false })) =
            outSt (prefixRun k post { s with dirs := true, dest := some s.acc, tmp := false, owned := false }) := by
          unfold cleanup; rw [h3]; rfl
        rw [hc]
        exact ⟨h2, .inr h1, fun hk => absurd hk (by omega), fun _ => h1⟩
      · simp [prefixRun, exec, outSt, cleanup, ho]
    · simp [prefixRun, exec, outSt, cleanup, ho]

theorem completePost_post (c : Cfg) : ∀ st ∈ completePost c, PostStep st := by
  intro st hst
  simp only [completePost, List.mem_cons, List.mem_append, List.mem_map, List.mem_nil_iff, or_false] at hst
  rcases hst with (rfl | rfl | ⟨_, _, rfl⟩) | rfl
  · cases c.hasMeta <;> trivial
  all_goals trivial

theorem completeTail_ok (c : Cfg) : TailOk (.mkdirs c.mkdirsFails :: .rename c.renameFails :: completePost c) 1 :=
  doneThenPost_ok _ _ (completePost_post c)

/-- the body frames, then a good tail: at every fault point the temporary file goes away and the destination is
    the previous content or previous `acc` ++ all body bytes; before the rename it is the previous content -/
theorem frames_then_tail {tail : List Step} {nPre : Nat} (ht : TailOk tail nPre) (frames : List Frame) :
    ∀ (s : St) (k : Nat), s.owned = true → s.tmp = true →
      (cleanup (outSt (prefixRun k (frames.map .frame ++ tail) s))).tmp = false ∧
      ((cleanup (outSt (prefixRun k (frames.map .frame ++ tail) s))).dest = s.dest ∨
        ∃ all, allBytes frames = some all ∧
          (cleanup (outSt (prefixRun k (frames.map .frame ++ tail) s))).dest = some (s.acc ++ all)) ∧
      (k ≤ frames.length + nPre → (cleanup (outSt (prefixRun k (frames.map .frame ++ tail) s))).dest = s.dest) ∧
      (((cleanup (outSt (prefixRun k (frames.map .frame ++ tail) s))).mdata ≠ s.mdata ∨
          (cleanup (outSt (prefixRun k (frames.map .frame ++ tail) s))).info ≠ s.info ∨
          (cleanup (outSt (prefixRun k (frames.map .frame ++ tail) s))).uploadRec ≠ s.uploadRec ∨
          (cleanup (outSt (prefixRun k (frames.map .frame ++ tail) s))).partsGone ≠ s.partsGone) →
        ∃ all, allBytes frames = some all ∧
          (cleanup (outSt (prefixRun k (frames.map .frame ++ tail) s))).dest = some (s.acc ++ all)) := by
  induction frames with
  | nil =>
    intro s k ho htm
    obtain ⟨h1, h2, h3, h4⟩ := ht s k ho htm
    refine ⟨h1, ?_, by simpa using h3, fun h => ⟨[], rfl, by simpa using h4 (by simpa using h)⟩⟩
    rcases h2 with h2 | h2
    · exact .inl h2
    · exact .inr ⟨[], rfl, by simpa using h2⟩
  | cons f r ih =>
    intro s k ho htm
    cases k with
    | zero => simp [prefixRun, outSt, cleanup, ho]
    | succ k =>
      cases f with
      | err => simp [prefixRun, exec, outSt, cleanup, ho]
      | ok b =>
        simp only [List.map_cons, List.cons_append, prefixRun, exec]
        obtain ⟨h1, h2, h3, h4⟩ := ih { s with acc := s.acc ++ b, pulled := s.pulled + 1 } k ho htm
        refine ⟨h1, ?_, ?_, ?_⟩
        · rcases h2 with h2 | ⟨all, ha, h2⟩
          · exact .inl h2
          · exact .inr ⟨b ++ all, by simp [allBytes, ha], by simpa [List.append_assoc] using h2⟩
        · intro hk
          exact h3 (by simp only [List.length_cons] at hk; omega)
        · intro h
          obtain ⟨all, ha, h5⟩ := h4 h
          exact ⟨b ++ all, by simp [allBytes, ha], by simpa [List.append_assoc] using h5⟩

/-- the validation of `complete_multipart_upload` passes: every listed part exists and the size rule holds -/
def validParts (parts : List Part) : Bool := parts.all Part.there && parts.all Part.fine

theorem allParts_valid : ∀ (parts : List Part), (allParts parts).isSome = validParts parts := by
  intro parts
  induction parts with
  | nil => rfl
  | cons p r ih =>
    cases p with
    | missing => simp [allParts, validParts, Part.there]
    | present b ok =>
      cases ok with
      | false => simp [allParts, validParts, Part.fine]
      | true =>
        simp only [allParts, Option.isSome_map, ih]
        simp [validParts, Part.there, Part.fine]

/-- the validation steps never change anything; at every fault position the state is the one it started in, or the
    validation has passed and the rest of the program runs from that same state -/
theorem probes_then (rest : List Step) (f : Bool) : ∀ (parts : List Part) (s : St) (k : Nat),
    outSt (prefixRun k (parts.map .probe ++ .sizes f :: rest) s) = s ∨
    ((parts.all Part.there && f) = true ∧ ∃ k', k = parts.length + 1 + k' ∧
      prefixRun k (parts.map .probe ++ .sizes f :: rest) s = prefixRun k' rest s) := by
  intro parts
  induction parts with
  | nil =>
    intro s k
    cases k with
    | zero => left; simp [prefixRun, outSt]
    | succ k =>
      cases f with
      | false => left; simp [prefixRun, exec, outSt]
      | true => right; exact ⟨rfl, k, by simp only [List.length_nil]; omega, by simp [prefixRun, exec]⟩
  | cons p r ih =>
    intro s k
    cases k with
    | zero => left; simp [prefixRun, outSt]
    | succ k =>
      cases p with
      | missing => left; simp [prefixRun, exec, outSt, Part.there]
      | present b ok =>
        simp only [List.map_cons, List.cons_append, prefixRun, exec, Part.there, ↓reduceIte]
        rcases ih s k with h | ⟨h1, k', hk, h2⟩
        · exact .inl h
        · refine .inr ⟨by simpa [Part.there] using h1, k', by simp only [List.length_cons]; omega, h2⟩

/-- the validation, run to its end: it passes and the rest runs from the same state, or the call fails with nothing changed -/
theorem run_probes (rest : List Step) (f : Bool) : ∀ (parts : List Part) (s : St),
    ∃ code, code ≠ Code.ok ∧ run (parts.map .probe ++ .sizes f :: rest) s =
      if (parts.all Part.there && f) = true then run rest s else (code, cleanup s) := by
  intro parts
  induction parts with
  | nil =>
    intro s
    cases f with
    | false => exact ⟨.entityTooSmall, by decide, by simp [run, exec]⟩
    | true => exact ⟨.entityTooSmall, by decide, by simp [run, exec]⟩
  | cons p r ih =>
    intro s
    cases p with
    | missing => exact ⟨.invalidPart, by decide, by simp [run, exec, Part.there]⟩
    | present b ok =>
      obtain ⟨code, hc, h⟩ := ih s
      exact ⟨code, hc, by simpa [run, exec, Part.there] using h⟩

/-- the copy loop over parts that passed the validation, then a good tail: at every fault point the temporary file goes
    away and the destination is the previous content or previous `acc` ++ all parts; before the rename it is the previous
    content; and nothing else (metadata, checksum record, upload record, part files) has changed unless the content is
    in place -/
theorem parts_then_tail {tail : List Step} {nPre : Nat} (ht : TailOk tail nPre) :
    ∀ (parts : List Part) (all : Bytes), allParts parts = some all →
    ∀ (s : St) (k : Nat), s.owned = true → s.tmp = true →
      (cleanup (outSt (prefixRun k (parts.map .part ++ tail) s))).tmp = false ∧
      ((cleanup (outSt (prefixRun k (parts.map .part ++ tail) s))).dest = s.dest ∨
          (cleanup (outSt (prefixRun k (parts.map .part ++ tail) s))).dest = some (s.acc ++ all)) ∧
      (k ≤ parts.length + nPre → (cleanup (outSt (prefixRun k (parts.map .part ++ tail) s))).dest = s.dest) ∧
      (((cleanup (outSt (prefixRun k (parts.map .part ++ tail) s))).mdata ≠ s.mdata ∨
          (cleanup (outSt (prefixRun k (parts.map .part ++ tail) s))).info ≠ s.info ∨
          (cleanup (outSt (prefixRun k (parts.map .part ++ tail) s))).uploadRec ≠ s.uploadRec ∨
          (cleanup (outSt (prefixRun k (parts.map .part ++ tail) s))).partsGone ≠ s.partsGone) →
        (cleanup (outSt (prefixRun k (parts.map .part ++ tail) s))).dest = some (s.acc ++ all)) := by
  intro parts
  induction parts with
  | nil =>
    intro all ha s k ho htm
    simp only [allParts, Option.some.injEq] at ha
    subst ha
    obtain ⟨h1, h2, h3, h4⟩ := ht s k ho htm
    exact ⟨h1, by simpa using h2, by simpa using h3, by simpa using h4⟩
  | cons p r ih =>
    intro all ha s k ho htm
    cases p with
    | missing => simp [allParts] at ha
    | present b ok =>
      cases ok with
      | false => simp [allParts] at ha
      | true =>
        simp only [allParts, Option.map_eq_some_iff] at ha
        obtain ⟨all', ha', rfl⟩ := ha
        cases k with
        | zero => simp [prefixRun, outSt, cleanup, ho]
        | succ k =>
          simp only [List.map_cons, List.cons_append, prefixRun, exec]
          obtain ⟨h1, h2, h3, h4⟩ := ih all' ha' { s with acc := s.acc ++ b } k ho htm
          refine ⟨h1, ?_, ?_, ?_⟩
          · simpa [List.append_assoc] using h2
          · intro hk
            exact h3 (by simp only [List.length_cons] at hk; omega)
          · intro h
            simpa [List.append_assoc] using h4 h

/-- `create`, then the rest: at every fault point — the temporary file and the `FileWriter` come into being in one step -/
theorem create_then {rest : List Step} {s : St} (hs : s.tmp = false ∧ s.owned = false) (k : Nat) :
    (k = 0 ∧ cleanup (outSt (prefixRun k (.create :: rest) s)) = s) ∨
    (∃ k', k = k' + 1 ∧ cleanup (outSt (prefixRun k (.create :: rest) s)) =
      cleanup (outSt (prefixRun k' rest { s with tmp := true, owned := true }))) := by
  rcases k with _ | k
  · left; simp [prefixRun, outSt, cleanup, hs.2]
  · right; exact ⟨k, rfl, by simp [prefixRun, exec]⟩

/-! ## complete runs -/

theorem run_eq_drop (prog : List Step) (s : St) : (run prog s).2 = dropAfter prog.length prog s := by
  rw [dropAfter_eq]
  induction prog generalizing s with
  | nil => simp [run, prefixRun, outSt]
  | cons st r ih =>
    simp only [run, List.length_cons, prefixRun]
    cases h : exec s st with
    | ok s' => simpa using ih s'
    | error e => obtain ⟨c, s'⟩ := e; simp [outSt]

/-- running the body: all frames good → continue with all bytes appended; otherwise `InternalError` with the
    core of the state untouched (`pulled` and `acc` are bookkeeping) -/
theorem run_frames (frames : List Frame) (tail : List Step) :
    ∀ s : St, ∃ p a, run (frames.map .frame ++ tail) s =
      match allBytes frames with
      | some all => run tail { s with acc := s.acc ++ all, pulled := p }
      | none => (.internalError, cleanup { s with acc := a, pulled := p }) := by
  induction frames with
  | nil => intro s; exact ⟨s.pulled, [], by simp [allBytes]⟩
  | cons f r ih =>
    intro s
    cases f with
    | err => exact ⟨s.pulled + 1, s.acc, by simp [run, exec, allBytes]⟩
    | ok b =>
      obtain ⟨p, a, h⟩ := ih { s with acc := s.acc ++ b, pulled := s.pulled + 1 }
      refine ⟨p, a, ?_⟩
      simp only [List.map_cons, List.cons_append, run, exec, allBytes]
      rw [h]
      cases allBytes r <;> simp [List.append_assoc]

/-- running the copy loop of `complete_multipart_upload` over parts that passed the validation -/
theorem run_parts (tail : List Step) : ∀ (parts : List Part) (all : Bytes), allParts parts = some all →
    ∀ s : St, run (parts.map .part ++ tail) s = run tail { s with acc := s.acc ++ all } := by
  intro parts
  induction parts with
  | nil =>
    intro all ha s
    simp only [allParts, Option.some.injEq] at ha
    subst ha
    simp
  | cons p r ih =>
    intro all ha s
    cases p with
    | missing => simp [allParts] at ha
    | present b ok =>
      cases ok with
      | false => simp [allParts] at ha
      | true =>
        simp only [allParts, Option.map_eq_some_iff] at ha
        obtain ⟨all', ha', rfl⟩ := ha
        simp only [List.map_cons, List.cons_append, run, exec]
        rw [ih all' ha']
        simp [List.append_assoc]

/-- running the steps after the rename (no fault among them): the metadata is the upload's (none if it has none), the
    checksum record is new, every listed part file and the upload record are gone; destination and temporary file are not
    touched -/
theorem run_completePost (c : Cfg) (hf : c.metaFails = false) (hi : c.infoFails = false) (s : St) :
    run (completePost c) s =
      (.ok, cleanup { s with mdata := if c.hasMeta then .new else .absent, info := .new,
                             partsGone := s.partsGone + c.parts.length, uploadRec := false }) := by
  have hdrop : ∀ (n : Nat) (s : St), run ((List.replicate n Step.dropPart) ++ [.consume]) s =
      (.ok, cleanup { s with partsGone := s.partsGone + n, uploadRec := false }) := by
    intro n
    induction n with
    | zero => intro s; simp [run, exec]
    | succ n ih =>
      intro s
      simp only [List.replicate_succ, List.cons_append, run, exec]
      rw [ih]
      simp [Nat.add_assoc, Nat.add_comm 1 n]
  have hmap : (c.parts.map fun _ => Step.dropPart) = List.replicate c.parts.length Step.dropPart :=
    List.map_const' ..
  unfold completePost
  rw [hmap, List.cons_append, List.cons_append, hf, hi]
  cases hm : c.hasMeta <;> simp only [run, exec, Bool.false_eq_true, ↓reduceIte] <;> rw [hdrop]

/-- the program of a complete whose part list names a part -/
theorem completeProg_eq (c : Cfg) (h : c.parts ≠ []) :
    completeProg c = c.parts.map .probe ++ .sizes (c.parts.all Part.fine) :: .create ::
      (c.parts.map .part ++ .mkdirs c.mkdirsFails :: .rename c.renameFails :: completePost c) := by
  unfold completeProg
  cases hp : c.parts with
  | nil => exact absurd hp h
  | cons p r => simp

/-- the program of a complete without a part list or with an empty one (0fcb858): the refusal -/
theorem completeProg_nil (c : Cfg) (h : c.parts = []) : completeProg c = [.listed false] := by
  unfold completeProg
  simp [h]

/-- … which answers `MalformedXML` and changes nothing, at any fault position -/
theorem refusal_changes_nothing (s : St) (ho : s.owned = false) :
    run [.listed false] s = (.malformedXML, s) ∧ ∀ k, cleanup (outSt (prefixRun k [.listed false] s)) = s := by
  refine ⟨by simp [run, exec, cleanup, ho], fun k => ?_⟩
  rcases k with _ | k <;> simp [prefixRun, exec, outSt, cleanup, ho]

theorem putObjectProg_eq (c : Cfg) :
    putObjectProg c = .create :: (c.frames.map .frame ++
      ([.flush, .check c.checksumsEqual, .mkdirs c.mkdirsFails, .rename c.renameFails] ++
        (if c.hasMeta then [.saveMeta c.metaFails] else [.dropMeta c.metaFails]) ++ [.saveInfo c.infoFails])) := by
  simp [putObjectProg, List.append_assoc]

end S3V.FsWrite
