import S3V.Spec.Multipart
/-!
# Lemmas: the executable reference `beforeFirst` is the declarative "first occurrence" (`FirstOcc`)
-/
namespace S3V.MultipartSpec
open S3V

theorem occursAt_cons (pat cs b' : Bytes) (c : UInt8) :
    OccursAt pat (c :: cs) (c :: b') ↔ OccursAt pat cs b' := by
  simp [OccursAt, List.cons_prefix_cons]

theorem occursAt_nil_iff (pat d : Bytes) : OccursAt pat d [] ↔ pat <+: d := by
  simp [OccursAt]

theorem firstOcc_cons_of_not_prefix {pat cs : Bytes} {c : UInt8} (hn : ¬ pat <+: c :: cs) (before : Bytes) :
    FirstOcc pat (c :: cs) before ↔ ∃ b', before = c :: b' ∧ FirstOcc pat cs b' := by
  constructor
  · rintro ⟨ho, hmin⟩
    cases before with
    | nil => exact absurd ((occursAt_nil_iff _ _).mp ho) hn
    | cons a b' =>
      have hac : a = c := by
        have := ho
        simp only [OccursAt, List.cons_append, List.cons_prefix_cons] at this
        exact this.1
      subst hac
      refine ⟨b', rfl, (occursAt_cons _ _ _ _).mp ho, ?_⟩
      intro b'' hb''
      have := hmin (a :: b'') ((occursAt_cons _ _ _ _).mpr hb'')
      simpa using this
  · rintro ⟨b', rfl, ho, hmin⟩
    refine ⟨(occursAt_cons _ _ _ _).mpr ho, ?_⟩
    intro b'' hb''
    cases b'' with
    | nil => exact absurd ((occursAt_nil_iff _ _).mp hb'') hn
    | cons a b3 =>
      have hac : a = c := by
        have := hb''
        simp only [OccursAt, List.cons_append, List.cons_prefix_cons] at this
        exact this.1
      subst hac
      have := hmin b3 ((occursAt_cons _ _ _ _).mp hb'')
      simpa using this

/-- the executable reference computes exactly the bytes before the first occurrence -/
theorem beforeFirst_eq_some_iff (pat : Bytes) : ∀ (d before : Bytes),
    beforeFirst pat d = some before ↔ FirstOcc pat d before
  | [], before => by
    by_cases hp : pat = []
    · subst hp
      simp only [beforeFirst, if_true, Option.some.injEq, FirstOcc, OccursAt, List.append_nil,
        List.prefix_nil]
      constructor
      · rintro rfl; exact ⟨rfl, fun b' hb' => by simp [hb']⟩
      · rintro ⟨h, -⟩; exact h.symm
    · simp only [beforeFirst, if_neg hp, FirstOcc, OccursAt, List.prefix_nil, List.append_eq_nil_iff]
      constructor
      · intro h; cases h
      · rintro ⟨⟨-, h⟩, -⟩; exact absurd h hp
  | c :: cs, before => by
    rw [beforeFirst]
    by_cases hpre : pat.isPrefixOf (c :: cs) = true
    · rw [if_pos hpre]
      have hp := List.isPrefixOf_iff_prefix.mp hpre
      constructor
      · intro h
        cases h
        exact ⟨(occursAt_nil_iff _ _).mpr hp, fun b' _ => Nat.zero_le _⟩
      · rintro ⟨-, hmin⟩
        have := hmin [] ((occursAt_nil_iff _ _).mpr hp)
        cases before with
        | nil => rfl
        | cons _ _ => simp at this
    · rw [if_neg hpre]
      have hn : ¬ pat <+: c :: cs := fun h => hpre (List.isPrefixOf_iff_prefix.mpr h)
      rw [firstOcc_cons_of_not_prefix hn]
      have ih := beforeFirst_eq_some_iff pat cs
      cases hb : beforeFirst pat cs with
      | none =>
        simp only [reduceCtorEq, false_iff]
        rintro ⟨b', -, hf⟩
        have := (ih b').mpr hf
        rw [hb] at this; cases this
      | some b0 =>
        simp only [Option.some.injEq]
        constructor
        · rintro rfl; exact ⟨b0, rfl, (ih b0).mp hb⟩
        · rintro ⟨b', rfl, hf⟩
          have := (ih b').mpr hf
          rw [hb] at this; cases this; rfl

/-- `none` exactly when the delimiter does not occur at all -/
theorem beforeFirst_eq_none_iff (pat d : Bytes) :
    beforeFirst pat d = none ↔ ∀ b', ¬ OccursAt pat d b' := by
  constructor
  · intro h b' hb'
    -- an occurrence gives a first occurrence: take the function's own answer
    induction d generalizing b' with
    | nil =>
      by_cases hp : pat = []
      · simp [beforeFirst, hp] at h
      · simp only [OccursAt, List.prefix_nil, List.append_eq_nil_iff] at hb'
        exact hp hb'.2
    | cons c cs ih =>
      rw [beforeFirst] at h
      by_cases hpre : pat.isPrefixOf (c :: cs) = true
      · rw [if_pos hpre] at h; cases h
      · rw [if_neg hpre] at h
        have hn : ¬ pat <+: c :: cs := fun h => hpre (List.isPrefixOf_iff_prefix.mpr h)
        cases b' with
        | nil => exact hn ((occursAt_nil_iff _ _).mp hb')
        | cons a b3 =>
          have hac : a = c := by
            have := hb'
            simp only [OccursAt, List.cons_append, List.cons_prefix_cons] at this
            exact this.1
          subst hac
          cases hb : beforeFirst pat cs with
          | none => exact ih hb b3 ((occursAt_cons _ _ _ _).mp hb')
          | some b0 => rw [hb] at h; cases h
  · intro h
    cases hb : beforeFirst pat d with
    | none => rfl
    | some b0 => exact absurd ((beforeFirst_eq_some_iff pat d b0).mp hb).1 (h b0)

end S3V.MultipartSpec
