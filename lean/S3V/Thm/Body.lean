import S3V.Model.Body
import S3V.Spec.Multipart
/-! # Lemmas: buffered and plain bodies against `MultipartSpec.specPlain` / `specBuffered` (C09 a, b) -/
namespace S3V.Body
open S3V S3V.MultipartSpec

def Full.toSpec : Full → Buffered
  | .ok b => .ok b
  | .internalError => .internalError
  | .missingContentLength => .missingContentLength
  | .incompleteBody => .incompleteBody

theorem Full.toSpec_injective {a b : Full} (h : a.toSpec = b.toSpec) : a = b := by
  cases a <;> cases b <;> simp [Full.toSpec] at h ⊢ <;> exact h

theorem streamBody_spec (frames : List (Option Bytes)) :
    ((streamBody frames).1.flatten, (streamBody frames).2) = specPlain frames := by
  induction frames with
  | nil => rfl
  | cons f fs ih =>
    cases f with
    | none => rfl
    | some f =>
      simp only [specPlain, Prod.mk.injEq] at ih
      simp [streamBody, specPlain, dataBeforeError, hasError, ih.1, ih.2]

theorem storeAll_eq (frames : List (Option Bytes)) :
    storeAll frames = if hasError frames then none else some (dataBeforeError frames) := by
  induction frames with
  | nil => rfl
  | cons f fs ih =>
    cases f with
    | none => rfl
    | some f =>
      simp only [storeAll, ih, hasError, dataBeforeError]
      by_cases h : hasError fs = true <;> simp [h]

theorem extractFullBody_spec (declared : Option Nat) (frames : List (Option Bytes)) :
    (extractFullBody declared frames).toSpec
      = specBuffered declared (dataBeforeError frames) (hasError frames) := by
  unfold extractFullBody specBuffered
  rw [storeAll_eq]
  by_cases he : hasError frames = true
  · simp [he, Full.toSpec]
  · simp only [he, Bool.false_eq_true, if_false]
    by_cases hd : dataBeforeError frames = []
    · simp [hd, Full.toSpec]
    · simp only [hd, ne_eq, not_false_eq_true, if_true, if_false]
      cases declared with
      | none => rfl
      | some n =>
        by_cases hn : (dataBeforeError frames).length = n
        · simp [hn, Full.toSpec]
        · simp [hn, Full.toSpec]

end S3V.Body
