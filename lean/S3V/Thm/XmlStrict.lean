import S3V.Thm.XmlWf
/-!
Strictness of the generic XML decoder: what must hold of a document for `decode` / `decodeDoc` to accept it.
Each lemma is one clause of the property (expected root, known elements, no repeated single-valued member,
required members present, nothing after the root).
-/
namespace S3V.Xml
open S3V

/-- character data: a text piece or a CDATA section -/
def Ev.isText : Ev → Bool
  | .text _ => true
  | .cdata _ => true
  | _ => false

/-! ### cursor facts -/

theorem skipText_split : ∀ (evs : List Ev), ∃ pre, evs = pre ++ skipText evs ∧ pre.all Ev.isText = true
  | [] => ⟨[], by simp [skipText]⟩
  | .text raw :: r => by
    obtain ⟨pre, h1, h2⟩ := skipText_split r
    refine ⟨.text raw :: pre, ?_, by simp [Ev.isText, h2]⟩
    simp only [skipText, List.cons_append]
    exact congrArg _ h1
  | .cdata c :: r => by
    obtain ⟨pre, h1, h2⟩ := skipText_split r
    refine ⟨.cdata c :: pre, ?_, by simp [Ev.isText, h2]⟩
    simp only [skipText, List.cons_append]
    exact congrArg _ h1
  | .start n a :: r => ⟨[], by simp [skipText]⟩
  | .stop n :: r => ⟨[], by simp [skipText]⟩
  | .bad e :: r => ⟨[], by simp [skipText]⟩

theorem expectStart_ok {name a : Bytes} {evs r : List Ev} (h : expectStart name evs = .ok (a, r)) :
    ∃ pre, evs = pre ++ .start name a :: r ∧ pre.all Ev.isText = true := by
  obtain ⟨pre, h1, h2⟩ := skipText_split evs
  unfold expectStart at h
  split at h
  · rename_i n a' r' heq
    split at h
    · rename_i hn
      cases h
      exact ⟨pre, by rw [heq, hn] at h1; exact h1, h2⟩
    · cases h
  all_goals cases h

theorem expectEnd_ok {name : Bytes} {evs r : List Ev} (h : expectEnd name evs = .ok r) :
    ∃ pre, evs = pre ++ .stop name :: r ∧ pre.all Ev.isText = true := by
  obtain ⟨pre, h1, h2⟩ := skipText_split evs
  unfold expectEnd at h
  split at h
  · cases h
  · rename_i n r' heq
    split at h
    · rename_i hn
      cases h
      exact ⟨pre, by rw [heq, hn] at h1; exact h1, h2⟩
    · cases h
  all_goals cases h

theorem expectEof_ok {evs : List Ev} (h : expectEof evs = .ok ()) : evs.all Ev.isText = true := by
  obtain ⟨pre, h1, h2⟩ := skipText_split evs
  unfold expectEof at h
  split at h
  case h_6 heq => rw [heq, List.append_nil] at h1; rw [h1]; exact h2
  all_goals cases h

/-! ### clause: expected root, nothing after the root -/

/-- an accepted document is: text*, `<root …>`, a content the type's decoder accepts, text*, `</root>`, text*, end.
In particular there is no second element, no stray end tag and no tokeniser error after the root. -/
theorem decodeDoc_named_ok (X : Ext) {root : Bytes} {s : Sch} {evs : List Ev} {v : Val}
    (h : decodeDoc X (.named root) s evs = .ok v) :
    ∃ pre a body post mid tail,
      evs = pre ++ .start root a :: body ∧ pre.all Ev.isText = true ∧
      decode X s a body = .ok (v, post) ∧
      post = mid ++ .stop root :: tail ∧ mid.all Ev.isText = true ∧ tail.all Ev.isText = true := by
  unfold decodeDoc at h
  simp only at h
  cases h1 : expectStart root evs with
  | error e => simp [h1] at h
  | ok ar =>
    obtain ⟨a, r⟩ := ar
    simp only [h1] at h
    cases h2 : decode X s a r with
    | error e => simp [h2] at h
    | ok p =>
      obtain ⟨v', r'⟩ := p
      simp only [h2] at h
      cases h3 : expectEnd root r' with
      | error e => simp [h3] at h
      | ok r'' =>
        simp only [h3] at h
        cases h4 : expectEof r'' with
        | error e => simp [h4] at h
        | ok u =>
          simp only [h4] at h
          cases h
          obtain ⟨pre, he, hp⟩ := expectStart_ok h1
          obtain ⟨mid, hm, hmt⟩ := expectEnd_ok h3
          exact ⟨pre, a, r, r', mid, r'', he, hp, h2, hm, hmt, expectEof_ok h4⟩

theorem decodeField_ne' (X : Ext) {name tag : Bytes} (h : name ≠ tag) {pres : Pres} {shape : Shape} {s : Sch}
    {rest : Flds} {a : Bytes} {evs : List Ev} {slot : FVal} {accRest : List FVal} :
    decodeField X (.cons tag pres shape s rest) name a evs (slot :: accRest)
      = (match decodeField X rest name a evs accRest with
         | .error e => .error e
         | .ok (acc', r) => .ok (slot :: acc', r)) := by
  cases shape <;> simp only [decodeField, if_neg h] <;> cases decodeField X rest name a evs accRest <;> rfl

/-- a member bound to an attribute has no arm: an element of its name goes on to the other members -/
theorem decodeField_attr (X : Ext) {name tag : Bytes} {pres : Pres} {s : Sch}
    {rest : Flds} {a : Bytes} {evs : List Ev} {slot : FVal} {accRest : List FVal} :
    decodeField X (.cons tag pres .attr s rest) name a evs (slot :: accRest)
      = (match decodeField X rest name a evs accRest with
         | .error e => .error e
         | .ok (acc', r) => .ok (slot :: acc', r)) := by
  by_cases h : name = tag
  · simp only [decodeField, if_pos h]
    cases decodeField X rest name a evs accRest <;> rfl
  · exact decodeField_ne' X h

/-! ### clause: nothing but white space outside the root (code since d51737b)

`Deserializer::read_event` keeps the nesting depth and refuses character data outside the document element. On
the event level: in what `deEvents` hands out, every character-data event at depth 0 is a white-space text
(`TopClean`). What a decoder consumes is a sequence of complete elements and character data (`Consumes`, by
mutual induction on the schema), so the cursor is back at depth 0 behind the root's end tag. -/

/-- a text piece that is white space only (space, tab, CR, LF); a CDATA section is not -/
def Ev.isWsText : Ev → Bool
  | .text raw => raw.all isWs
  | _ => false

/-- nesting depth behind the events `evs` when it is `d` in front of them (`End` saturates like the code) -/
def depthAfter : Nat → List Ev → Nat
  | d, [] => d
  | d, .start _ _ :: t => depthAfter (d + 1) t
  | d, .stop _ :: t => depthAfter (d - 1) t
  | d, _ :: t => depthAfter d t

/-- `TopClean d evs`: with `d` elements open in front of `evs`, every character-data event of `evs` that stands
outside all elements is a white-space text (no CDATA section there) -/
def TopClean : Nat → List Ev → Prop
  | _, [] => True
  | d, .start _ _ :: t => TopClean (d + 1) t
  | d, .stop _ :: t => TopClean (d - 1) t
  | d, .text raw :: t => (d = 0 → raw.all isWs = true) ∧ TopClean d t
  | d, .cdata _ :: t => d ≠ 0 ∧ TopClean d t
  | d, .bad _ :: t => TopClean d t

/-- **what `read_event` hands out is clean outside the root**, for every token sequence and every depth -/
theorem deEventsAt_topClean : ∀ (q : List QEv) (d : Nat), TopClean d (deEventsAt d q)
  | [], d => by simp [deEventsAt, TopClean]
  | .start n r :: t, d => by
    simp only [deEventsAt]
    split
    · simp only [TopClean]; exact deEventsAt_topClean t (d + 1)
    · simp [TopClean]
  | .stop n :: t, d => by simp only [deEventsAt, TopClean]; exact deEventsAt_topClean t (d - 1)
  | .empty n r :: t, d => by
    simp only [deEventsAt]
    split
    · simp only [TopClean, Nat.add_sub_cancel]; exact deEventsAt_topClean t d
    · simp [TopClean]
  | .text raw :: t, d => by
    simp only [deEventsAt]
    split
    · simp [TopClean]
    · rename_i hc
      split
      · simp [TopClean]
      · simp only [TopClean]
        refine ⟨fun hd => ?_, deEventsAt_topClean t d⟩
        cases hw : raw.all isWs with
        | true => rfl
        | false => exact absurd ⟨hd, hw⟩ hc
  | .cdata c :: t, d => by
    simp only [deEventsAt]
    split
    · simp [TopClean]
    · rename_i hc
      simp only [TopClean]
      exact ⟨hc, deEventsAt_topClean t d⟩
  | .err :: t, d => by simp [deEventsAt, TopClean]
  | .comment :: t, d => by simp only [deEventsAt]; exact deEventsAt_topClean t d
  | .decl :: t, d => by simp only [deEventsAt]; exact deEventsAt_topClean t d
  | .pi c :: t, d => by
    simp only [deEventsAt]
    split
    · exact deEventsAt_topClean t d
    · simp [TopClean]
  | .doctype :: t, d => by simp only [deEventsAt]; exact deEventsAt_topClean t d

theorem depthAfter_append : ∀ (a b : List Ev) (d : Nat), depthAfter d (a ++ b) = depthAfter (depthAfter d a) b
  | [], _, _ => rfl
  | .start _ _ :: t, b, d => by simp only [List.cons_append, depthAfter]; exact depthAfter_append t b (d + 1)
  | .stop _ :: t, b, d => by simp only [List.cons_append, depthAfter]; exact depthAfter_append t b (d - 1)
  | .text _ :: t, b, d => by simp only [List.cons_append, depthAfter]; exact depthAfter_append t b d
  | .cdata _ :: t, b, d => by simp only [List.cons_append, depthAfter]; exact depthAfter_append t b d
  | .bad _ :: t, b, d => by simp only [List.cons_append, depthAfter]; exact depthAfter_append t b d

/-- cleanliness is handed on to what follows, at the depth reached -/
theorem topClean_append : ∀ (a b : List Ev) (d : Nat), TopClean d (a ++ b) → TopClean (depthAfter d a) b
  | [], _, _, h => h
  | .start _ _ :: t, b, d, h => by
    simp only [List.cons_append, TopClean] at h; exact topClean_append t b (d + 1) h
  | .stop _ :: t, b, d, h => by
    simp only [List.cons_append, TopClean] at h; exact topClean_append t b (d - 1) h
  | .text _ :: t, b, d, h => by
    simp only [List.cons_append, TopClean] at h; exact topClean_append t b d h.2
  | .cdata _ :: t, b, d, h => by
    simp only [List.cons_append, TopClean] at h; exact topClean_append t b d h.2
  | .bad _ :: t, b, d, h => by
    simp only [List.cons_append, TopClean] at h; exact topClean_append t b d h

theorem depthAfter_texts : ∀ (pre : List Ev) (d : Nat), pre.all Ev.isText = true → depthAfter d pre = d
  | [], _, _ => rfl
  | .text _ :: t, d, h => by
    simp only [List.all_cons, Ev.isText, Bool.true_and] at h; simp only [depthAfter]; exact depthAfter_texts t d h
  | .cdata _ :: t, d, h => by
    simp only [List.all_cons, Ev.isText, Bool.true_and] at h; simp only [depthAfter]; exact depthAfter_texts t d h
  | .start _ _ :: _, _, h | .stop _ :: _, _, h | .bad _ :: _, _, h => by simp [Ev.isText] at h

/-- character data outside every element is white-space text -/
theorem topClean_texts : ∀ (pre rest : List Ev), pre.all Ev.isText = true → TopClean 0 (pre ++ rest) →
    pre.all Ev.isWsText = true
  | [], _, _, _ => rfl
  | .text raw :: t, rest, h, hc => by
    simp only [List.all_cons, Ev.isText, Bool.true_and] at h
    simp only [List.cons_append, TopClean] at hc
    have hws : raw.all isWs = true := hc.1 (by trivial)
    simp only [List.all_cons, Ev.isWsText, hws, Bool.true_and]
    exact topClean_texts t rest h hc.2
  | .cdata _ :: t, rest, h, hc => by
    simp only [List.cons_append, TopClean] at hc
    exact absurd rfl hc.1
  | .start _ _ :: _, _, h, _ | .stop _ :: _, _, h, _ | .bad _ :: _, _, h, _ => by simp [Ev.isText] at h

/-- `Consumes evs post`: `post` is what is left of `evs` after a sequence of complete elements and character data
has been taken from its front — the depth behind the taken part is the depth in front of it -/
def Consumes (evs post : List Ev) : Prop := ∃ c, evs = c ++ post ∧ ∀ d, depthAfter d c = d

theorem Consumes.refl (evs : List Ev) : Consumes evs evs := ⟨[], rfl, fun _ => rfl⟩

theorem Consumes.trans {a b c : List Ev} (h1 : Consumes a b) (h2 : Consumes b c) : Consumes a c := by
  obtain ⟨x, hx, hbx⟩ := h1
  obtain ⟨y, hy, hby⟩ := h2
  refine ⟨x ++ y, by rw [hx, hy, List.append_assoc], fun d => ?_⟩
  rw [depthAfter_append, hbx, hby]

theorem Consumes.texts {pre rest : List Ev} (h : pre.all Ev.isText = true) : Consumes (pre ++ rest) rest :=
  ⟨pre, rfl, fun d => depthAfter_texts pre d h⟩

theorem Consumes.skipText (evs : List Ev) : Consumes evs (skipText evs) := by
  obtain ⟨pre, h1, h2⟩ := skipText_split evs
  have := Consumes.texts (rest := Xml.skipText evs) h2
  rwa [← h1] at this

/-- a whole element: start tag, a consumed content, end tag -/
theorem Consumes.elem {n a m : Bytes} {body rest : List Ev} (h : Consumes body (.stop m :: rest)) :
    Consumes (.start n a :: body) rest := by
  obtain ⟨c, hc, hb⟩ := h
  refine ⟨.start n a :: (c ++ [.stop m]), by simp [hc], fun d => ?_⟩
  simp only [depthAfter, depthAfter_append, hb, Nat.add_sub_cancel]

theorem Consumes.expectEnd {name : Bytes} {evs r : List Ev} (h : expectEnd name evs = .ok r) :
    Consumes evs (.stop name :: r) := by
  obtain ⟨pre, h1, h2⟩ := expectEnd_ok h
  rw [h1]; exact Consumes.texts h2

theorem topClean_consumes {evs post : List Ev} {d : Nat} (h : Consumes evs post) (hc : TopClean d evs) :
    TopClean d post := by
  obtain ⟨c, hcc, hb⟩ := h
  have := topClean_append c post d (hcc ▸ hc)
  rwa [hb] at this

/-- `Deserializer::text` takes character data only -/
theorem textLoop_consumes : ∀ (evs : List Ev) (single joined : Option Bytes) (raw : Bytes) (r : List Ev),
    textLoop single joined evs = .ok (raw, r) → Consumes evs r
  | [], _, _, _, _, h => by simp [textLoop] at h
  | .start _ _ :: _, _, _, _, _, h => by simp [textLoop] at h
  | .bad _ :: _, _, _, _, _, h => by simp [textLoop] at h
  | .stop n :: t, single, joined, raw, r, h => by
    have : r = .stop n :: t := by
      simp only [textLoop] at h
      cases joined with
      | some s => simp at h; exact h.2.symm
      | none =>
        cases single with
        | some x => simp at h; exact h.2.symm
        | none => simp at h; exact h.2.symm
    rw [this]; exact Consumes.refl _
  | .text x :: t, single, joined, raw, r, h => by
    have hstep : Consumes (.text x :: t) t := Consumes.texts (pre := [.text x]) (by simp [Ev.isText])
    simp only [textLoop] at h
    split at h
    · exact hstep.trans (textLoop_consumes t _ _ raw r h)
    · split at h
      · cases h
      · split at h
        · cases h
        · exact hstep.trans (textLoop_consumes t _ _ raw r h)
  | .cdata c :: t, single, joined, raw, r, h => by
    have hstep : Consumes (.cdata c :: t) t := Consumes.texts (pre := [.cdata c]) (by simp [Ev.isText])
    simp only [textLoop] at h
    split at h
    · cases h
    · split at h
      · exact hstep.trans (textLoop_consumes t _ _ raw r h)
      · cases h

/-- `for_each_element` takes complete elements (and the character data between them) when its callback does -/
theorem forEach_consumes {α : Type} (f : Bytes → Bytes → List Ev → α → R α)
    (hf : ∀ n a evs acc acc' r, f n a evs acc = .ok (acc', r) → Consumes evs r) :
    ∀ (fuel : Nat) (evs : List Ev) (acc acc' : α) (rest : List Ev),
      forEach f fuel evs acc = .ok (acc', rest) → Consumes evs rest
  | 0, _, _, _, _, h => by simp [forEach] at h
  | fuel + 1, evs, acc, acc', rest, h => by
    have hskip := Consumes.skipText evs
    simp only [forEach] at h
    split at h
    · rename_i n a r heq
      rw [heq] at hskip
      cases hfr : f n a r acc with
      | error e => simp [hfr] at h
      | ok p =>
        obtain ⟨acc1, r1⟩ := p
        simp only [hfr] at h
        cases hend : expectEnd n r1 with
        | error e => simp [hend] at h
        | ok r2 =>
          simp only [hend] at h
          have h1 := hf n a r acc acc1 r1 hfr
          have h2 := Consumes.expectEnd hend
          have h3 := forEach_consumes f hf fuel r2 acc1 acc' rest h
          exact hskip.trans ((Consumes.elem (n := n) (a := a) (h1.trans h2)).trans h3)
    · cases h
    · rename_i heq _ _
      cases h
      exact hskip

theorem decode_scalar_inv (X : Ext) {s : Sch} {a : Bytes} {evs post : List Ev} {v : Val} (hs : isScalar s = true)
    (h : decode X s a evs = .ok (v, post)) : ∃ raw, textOf evs = .ok (raw, post) := by
  cases s <;> first
    | (simp [isScalar] at hs; done)
    | (rw [decode.eq_3 X _ _ _ (by intros; contradiction) (by intros; contradiction)] at h
       cases ht : textOf evs with
       | error e => simp [ht] at h
       | ok p =>
         obtain ⟨raw, r⟩ := p
         simp only [ht] at h
         split at h
         · cases h
         · cases h; exact ⟨raw, rfl⟩)

theorem decode_scalar_consumes (X : Ext) {s : Sch} {a : Bytes} {evs post : List Ev} {v : Val}
    (hs : isScalar s = true) (h : decode X s a evs = .ok (v, post)) : Consumes evs post := by
  obtain ⟨raw, hr⟩ := decode_scalar_inv X hs h
  exact textLoop_consumes evs none none raw post hr

mutual
  /-- **what a decoder takes from the event stream is a sequence of complete elements and character data** -/
  theorem decode_consumes (X : Ext) : ∀ (s : Sch) (a : Bytes) (evs : List Ev) (v : Val) (post : List Ev),
      decode X s a evs = .ok (v, post) → Consumes evs post
    | .struct fs, a, evs, v, post, h => by
      rw [decode.eq_1] at h
      split at h
      · cases h; exact Consumes.refl _
      · cases hi : fs.initAcc a with
        | error e => simp [hi] at h
        | ok acc0 =>
          simp only [hi] at h
          cases hl : forEach (fun name a evs acc => decodeField X fs name a evs acc) (evs.length + 1) evs acc0 with
          | error e => simp [hl] at h
          | ok p =>
            obtain ⟨acc, r⟩ := p
            simp only [hl] at h
            cases hfin : fs.finish acc with
            | error e => simp [hfin] at h
            | ok fvs =>
              simp only [hfin] at h
              cases h
              exact forEach_consumes _
                (fun n a evs acc acc' r hh => decodeField_consumes X fs n a evs acc acc' r hh) _ _ _ _ _ hl
    | .union vs, _, evs, v, post, h => by
      rw [decode.eq_2] at h
      have hskip := Consumes.skipText evs
      split at h
      · rename_i n a r heq
        rw [heq] at hskip
        cases hv : decodeVariant X vs n a r with
        | error e => simp [hv] at h
        | ok p =>
          obtain ⟨v1, r1⟩ := p
          simp only [hv] at h
          cases hend : expectEnd n r1 with
          | error e => simp [hend] at h
          | ok r2 =>
            simp only [hend] at h
            cases h
            have h1 := decodeVariant_consumes X vs n a r v r1 hv
            exact hskip.trans (Consumes.elem (n := n) (a := a) (h1.trans (Consumes.expectEnd hend)))
      · cases h
      · cases h
    | .str, _, _, _, _, h => decode_scalar_consumes X rfl h
    | .enm, _, _, _, _, h => decode_scalar_consumes X rfl h
    | .i32, _, _, _, _, h => decode_scalar_consumes X rfl h
    | .i64, _, _, _, _, h => decode_scalar_consumes X rfl h
    | .bool, _, _, _, _, h => decode_scalar_consumes X rfl h
    | .ts _, _, _, _, _, h => decode_scalar_consumes X rfl h
  theorem decodeField_consumes (X : Ext) : ∀ (fs : Flds) (name a : Bytes) (evs : List Ev) (acc acc' : List FVal)
      (r : List Ev), decodeField X fs name a evs acc = .ok (acc', r) → Consumes evs r
    | .nil, _, _, _, _, _, _, h => by simp [decodeField] at h
    | .cons tag pres shape s rest, name, a, evs, [], _, _, h => by cases shape <;> simp [decodeField] at h
    | .cons tag pres shape s rest, name, a, evs, slot :: accRest, acc', r, h => by
      have hskip : ∀ {x : List FVal × List Ev},
          (match decodeField X rest name a evs accRest with
            | .error e => (.error e : R (List FVal))
            | .ok (acc', r) => .ok (slot :: acc', r)) = .ok x → Consumes evs x.2 := by
        intro x hx
        cases hd : decodeField X rest name a evs accRest with
        | error e => simp [hd] at hx
        | ok p =>
          obtain ⟨a1, r1⟩ := p
          simp only [hd] at hx
          cases hx
          exact decodeField_consumes X rest name a evs accRest a1 _ hd
      by_cases hn : name = tag
      · cases shape with
        | single =>
          simp only [decodeField, if_pos hn] at h
          split at h
          · cases hd : decode X s a evs with
            | error e => simp [hd] at h
            | ok p =>
              obtain ⟨v, r1⟩ := p
              simp only [hd] at h
              cases h
              exact decode_consumes X s a evs v _ hd
          · cases h
        | wrapped m =>
          simp only [decodeField, if_pos hn] at h
          split at h
          · cases hd : forEach (listItem (fun a evs => decode X s a evs) m) (evs.length + 1) evs [] with
            | error e => simp [hd] at h
            | ok p =>
              obtain ⟨l, r1⟩ := p
              simp only [hd] at h
              cases h
              refine forEach_consumes _ ?_ _ _ _ _ _ hd
              intro n a' evs' l0 l1 r' hh
              simp only [listItem] at hh
              split at hh
              · cases hd' : decode X s a' evs' with
                | error e => simp [hd'] at hh
                | ok p' =>
                  obtain ⟨v', r''⟩ := p'
                  simp only [hd'] at hh
                  cases hh
                  exact decode_consumes X s a' evs' v' _ hd'
              · cases hh
          · cases h
        | flat =>
          simp only [decodeField, if_pos hn] at h
          cases hd : decode X s a evs with
          | error e => simp [hd] at h
          | ok p =>
            obtain ⟨v, r1⟩ := p
            simp only [hd] at h
            cases h
            exact decode_consumes X s a evs v _ hd
        | attr =>
          rw [decodeField_attr X] at h
          exact hskip h
      · rw [decodeField_ne' X hn] at h
        exact hskip h
  theorem decodeVariant_consumes (X : Ext) : ∀ (vars : Vars) (name a : Bytes) (evs : List Ev) (v : Val)
      (r : List Ev), decodeVariant X vars name a evs = .ok (v, r) → Consumes evs r
    | .nil, _, _, _, _, _, h => by simp [decodeVariant] at h
    | .cons t s rest, name, a, evs, v, r, h => by
      by_cases hn : name = t
      · simp only [decodeVariant, if_pos hn] at h
        cases hd : decode X s a evs with
        | error e => simp [hd] at h
        | ok p =>
          obtain ⟨v1, r1⟩ := p
          simp only [hd] at h
          cases h
          exact decode_consumes X s a evs v1 _ hd
      · simp only [decodeVariant, if_neg hn] at h
        exact decodeVariant_consumes X rest name a evs v r h
end

/-- **an accepted document has nothing but white space around its root element.** For every token sequence `q`
the deserialiser can be given: if the document is accepted, the events are `ws* <root …> content text* </root> ws*`
and the end of input, where `ws` is a white-space-only text piece — no other character data, no CDATA section. -/
theorem decodeDoc_named_clean (X : Ext) {root : Bytes} {s : Sch} {q : List QEv} {v : Val}
    (h : decodeDoc X (.named root) s (deEvents q) = .ok v) :
    ∃ pre a body post mid tail,
      deEvents q = pre ++ .start root a :: body ∧ pre.all Ev.isWsText = true ∧
      decode X s a body = .ok (v, post) ∧
      post = mid ++ .stop root :: tail ∧ mid.all Ev.isText = true ∧ tail.all Ev.isWsText = true := by
  obtain ⟨pre, a, body, post, mid, tail, he, hp, hd, hm, hmt, ht⟩ := decodeDoc_named_ok X h
  have hclean : TopClean 0 (deEvents q) := deEventsAt_topClean q 0
  refine ⟨pre, a, body, post, mid, tail, he, ?_, hd, hm, hmt, ?_⟩
  · rw [he] at hclean
    exact topClean_texts pre _ hp hclean
  · rw [he] at hclean
    have h1 : TopClean 0 (.start root a :: body) := by
      have := topClean_append pre _ 0 hclean
      rwa [depthAfter_texts pre 0 hp] at this
    have h2 : TopClean 1 body := by simpa [TopClean] using h1
    have h3 : TopClean 1 post := topClean_consumes (decode_consumes X s a body v post hd) h2
    rw [hm] at h3
    have h4 : TopClean 1 (.stop root :: tail) := by
      have := topClean_append mid _ 1 h3
      rwa [depthAfter_texts mid 1 hmt] at this
    have h5 : TopClean 0 tail := by simpa [TopClean] using h4
    have := topClean_texts tail [] ht (by simpa using h5)
    exact this

/-! ### clause: known elements -/

/-- the element-name dispatch of a struct deserialiser succeeds only for the element name of a member that is read
from child elements (`Flds.elemTags`: a member bound to an attribute is not one — a child element of its name is as
unknown as any other) -/
theorem decodeField_known (X : Ext) : ∀ (fs : Flds) (name a : Bytes) (evs : List Ev) (acc : List FVal)
    (r : List FVal × List Ev), decodeField X fs name a evs acc = .ok r → name ∈ fs.elemTags
  | .nil, _, _, _, _, _, h => by simp [decodeField] at h
  | .cons tag pres shape s rest, name, a, evs, [], _, h => by cases shape <;> simp [decodeField] at h
  | .cons tag pres shape s rest, name, a, evs, slot :: acc, r, h => by
    have hrest : (∃ r', decodeField X rest name a evs acc = .ok r') → name ∈ (Flds.cons tag pres shape s rest).elemTags := by
      intro ⟨r', hr'⟩
      have := decodeField_known X rest name a evs acc r' hr'
      simp [Flds.elemTags, this]
    have hfall : (match decodeField X rest name a evs acc with
          | .error e => (.error e : R (List FVal))
          | .ok (acc', r) => .ok (slot :: acc', r)) = .ok r → ∃ r', decodeField X rest name a evs acc = .ok r' := by
      intro hx
      cases hd : decodeField X rest name a evs acc with
      | error e => simp [hd] at hx
      | ok r' => exact ⟨r', rfl⟩
    cases shape with
    | attr =>
      rw [decodeField_attr X] at h
      exact hrest (hfall h)
    | single =>
      by_cases hn : name = tag
      · simp [Flds.elemTags, hn]
      · rw [decodeField_ne' X hn] at h; exact hrest (hfall h)
    | wrapped m =>
      by_cases hn : name = tag
      · simp [Flds.elemTags, hn]
      · rw [decodeField_ne' X hn] at h; exact hrest (hfall h)
    | flat =>
      by_cases hn : name = tag
      · simp [Flds.elemTags, hn]
      · rw [decodeField_ne' X hn] at h; exact hrest (hfall h)

theorem decodeVariant_known (X : Ext) : ∀ (vars : Vars) (name a : Bytes) (evs : List Ev) (r : Val × List Ev),
    decodeVariant X vars name a evs = .ok r → name ∈ vars.tags
  | .nil, _, _, _, _, h => by simp [decodeVariant] at h
  | .cons t s rest, name, a, evs, r, h => by
    by_cases hn : name = t
    · simp [Vars.tags, hn]
    · simp only [decodeVariant, if_neg hn] at h
      have := decodeVariant_known X rest name a evs r h
      simp [Vars.tags, this]

/-! ### clause: no repeated single-valued member -/

/-- the member an element name is dispatched to (the first one with that name that is read from child elements),
with its current slot -/
def firstSlot : Flds → List FVal → Bytes → Option (Shape × FVal)
  | .cons tag _ shape _ rest, slot :: acc, name =>
    match shape with
    | .attr => firstSlot rest acc name
    | _ => if name = tag then some (shape, slot) else firstSlot rest acc name
  | _, _, _ => none

theorem firstSlot_attr {tag : Bytes} {pres : Pres} {s : Sch} {rest : Flds} {slot : FVal} {acc : List FVal}
    {name : Bytes} : firstSlot (.cons tag pres .attr s rest) (slot :: acc) name = firstSlot rest acc name := rfl

theorem firstSlot_elem {tag : Bytes} {pres : Pres} {shape : Shape} {s : Sch} {rest : Flds} {slot : FVal}
    {acc : List FVal} {name : Bytes} (hs : shape ≠ .attr) :
    firstSlot (.cons tag pres shape s rest) (slot :: acc) name
      = if name = tag then some (shape, slot) else firstSlot rest acc name := by
  cases shape <;> first | rfl | exact absurd rfl hs

theorem firstSlot_not_attr : ∀ (fs : Flds) (acc : List FVal) (name : Bytes) (shape : Shape) (slot : FVal),
    firstSlot fs acc name = some (shape, slot) → shape ≠ .attr
  | .nil, _, _, _, _, h => by simp [firstSlot] at h
  | .cons _ _ _ _ _, [], _, _, _, h => by simp [firstSlot] at h
  | .cons tag pres sh s rest, sl :: acc, name, shape, slot, h => by
    cases sh with
    | attr => exact firstSlot_not_attr rest acc name shape slot (by simpa [firstSlot] using h)
    | single =>
      rw [firstSlot_elem (by decide)] at h
      split at h
      · cases h; decide
      · exact firstSlot_not_attr rest acc name shape slot h
    | wrapped m =>
      rw [firstSlot_elem (by intro e; cases e)] at h
      split at h
      · cases h; intro e; cases e
      · exact firstSlot_not_attr rest acc name shape slot h
    | flat =>
      rw [firstSlot_elem (by decide)] at h
      split at h
      · cases h; decide
      · exact firstSlot_not_attr rest acc name shape slot h

/-- a second element for a member that is not a flattened list is refused -/
theorem decodeField_repeated (X : Ext) : ∀ (fs : Flds) (acc : List FVal) (name a : Bytes) (evs : List Ev)
    (shape : Shape) (slot : FVal), firstSlot fs acc name = some (shape, slot) → shape ≠ .flat →
    slot.isAbsent = false → decodeField X fs name a evs acc = .error .duplicateField
  | .nil, _, _, _, _, _, _, h, _, _ => by simp [firstSlot] at h
  | .cons _ _ _ _ _, [], _, _, _, _, _, h, _, _ => by simp [firstSlot] at h
  | .cons tag pres sh s rest, sl :: acc, name, a, evs, shape, slot, h, hflat, habs => by
    cases sh with
    | attr =>
      rw [firstSlot_attr] at h
      rw [decodeField_attr X, decodeField_repeated X rest acc name a evs shape slot h hflat habs]
    | single =>
      rw [firstSlot_elem (by decide)] at h
      by_cases hn : name = tag
      · simp only [if_pos hn] at h; cases h; subst hn; simp [decodeField, habs]
      · simp only [if_neg hn] at h
        rw [decodeField_ne' X hn, decodeField_repeated X rest acc name a evs shape slot h hflat habs]
    | wrapped m =>
      rw [firstSlot_elem (by intro e; cases e)] at h
      by_cases hn : name = tag
      · simp only [if_pos hn] at h; cases h; subst hn; simp [decodeField, habs]
      · simp only [if_neg hn] at h
        rw [decodeField_ne' X hn, decodeField_repeated X rest acc name a evs shape slot h hflat habs]
    | flat =>
      rw [firstSlot_elem (by decide)] at h
      by_cases hn : name = tag
      · simp only [if_pos hn] at h; cases h; exact absurd rfl hflat
      · simp only [if_neg hn] at h
        rw [decodeField_ne' X hn, decodeField_repeated X rest acc name a evs shape slot h hflat habs]

/-- what a dispatch that falls through to the other members yields -/
theorem decodeField_fall {X : Ext} {rest : Flds} {name a : Bytes} {evs : List Ev} {sl : FVal} {acc acc' : List FVal}
    {r : List Ev}
    (h : (match decodeField X rest name a evs acc with
          | .error e => (.error e : R (List FVal))
          | .ok (acc', r) => .ok (sl :: acc', r)) = .ok (acc', r)) :
    ∃ a'', decodeField X rest name a evs acc = .ok (a'', r) ∧ acc' = sl :: a'' := by
  cases hd : decodeField X rest name a evs acc with
  | error e => simp [hd] at h
  | ok p =>
    obtain ⟨a'', r''⟩ := p
    simp only [hd] at h
    cases h
    exact ⟨a'', rfl, rfl⟩

/-- after a successful dispatch the member's slot is filled … -/
theorem decodeField_fills (X : Ext) : ∀ (fs : Flds) (acc : List FVal) (name a : Bytes) (evs : List Ev)
    (acc' : List FVal) (r : List Ev), decodeField X fs name a evs acc = .ok (acc', r) →
    ∃ shape slot, firstSlot fs acc' name = some (shape, slot) ∧ slot.isAbsent = false
  | .nil, _, _, _, _, _, _, h => by simp [decodeField] at h
  | .cons tag pres sh s rest, [], name, a, evs, _, _, h => by cases sh <;> simp [decodeField] at h
  | .cons tag pres sh s rest, sl :: acc, name, a, evs, acc', r, h => by
    have hfall : ∀ (hs : sh = .attr ∨ name ≠ tag),
        (match decodeField X rest name a evs acc with
          | .error e => (.error e : R (List FVal))
          | .ok (acc', r) => .ok (sl :: acc', r)) = .ok (acc', r) →
        ∃ shape slot, firstSlot (.cons tag pres sh s rest) acc' name = some (shape, slot) ∧ slot.isAbsent = false := by
      intro hs hx
      obtain ⟨a'', h1, h2⟩ := decodeField_fall hx
      obtain ⟨shape, slot, hfs, ha⟩ := decodeField_fills X rest acc name a evs a'' r h1
      refine ⟨shape, slot, ?_, ha⟩
      subst h2
      rcases hs with hs | hs
      · subst hs; rw [firstSlot_attr]; exact hfs
      · cases sh with
        | attr => rw [firstSlot_attr]; exact hfs
        | single => rw [firstSlot_elem (by decide), if_neg hs]; exact hfs
        | wrapped m => rw [firstSlot_elem (by intro e; cases e), if_neg hs]; exact hfs
        | flat => rw [firstSlot_elem (by decide), if_neg hs]; exact hfs
    by_cases hn : name = tag
    · cases sh with
      | attr => rw [decodeField_attr X] at h; exact hfall (Or.inl rfl) h
      | single =>
        subst hn
        simp only [decodeField, if_true] at h
        split at h
        · cases hd : decode X s a evs with
          | error e => simp [hd] at h
          | ok p =>
            simp only [hd] at h
            cases h
            exact ⟨.single, .one p.1, by simp [firstSlot], rfl⟩
        · cases h
      | wrapped m =>
        subst hn
        simp only [decodeField, if_true] at h
        split at h
        · cases hd : forEach (listItem (fun a evs => decode X s a evs) m) (evs.length + 1) evs [] with
          | error e => simp [hd] at h
          | ok p =>
            simp only [hd] at h
            cases h
            exact ⟨.wrapped m, .many p.1, by simp [firstSlot], rfl⟩
        · cases h
      | flat =>
        subst hn
        simp only [decodeField, if_true] at h
        cases hd : decode X s a evs with
        | error e => simp [hd] at h
        | ok p =>
          simp only [hd] at h
          cases h
          refine ⟨.flat, sl.push p.1, by simp [firstSlot], ?_⟩
          cases sl <;> rfl
    · rw [decodeField_ne' X hn] at h
      exact hfall (Or.inr hn) h

/-- … and no dispatch ever empties a filled slot (so the slot is still filled when the name comes again) -/
theorem decodeField_keeps (X : Ext) : ∀ (fs : Flds) (acc : List FVal) (name a : Bytes) (evs : List Ev)
    (acc' : List FVal) (r : List Ev), decodeField X fs name a evs acc = .ok (acc', r) →
    ∀ (name' : Bytes) (shape : Shape) (slot : FVal), firstSlot fs acc name' = some (shape, slot) →
      slot.isAbsent = false → ∃ slot', firstSlot fs acc' name' = some (shape, slot') ∧ slot'.isAbsent = false
  | .nil, _, _, _, _, _, _, h => by simp [decodeField] at h
  | .cons tag pres sh s rest, [], name, a, evs, _, _, h => by cases sh <;> simp [decodeField] at h
  | .cons tag pres sh s rest, sl :: acc, name, a, evs, acc', r, h => by
    intro name' shape slot hfs habs
    -- the dispatch goes on to the other members: this member's slot stays as it is
    have hfall : (match decodeField X rest name a evs acc with
          | .error e => (.error e : R (List FVal))
          | .ok (acc', r) => .ok (sl :: acc', r)) = .ok (acc', r) →
        ∃ slot', firstSlot (.cons tag pres sh s rest) acc' name' = some (shape, slot') ∧ slot'.isAbsent = false := by
      intro hx
      obtain ⟨a'', h1, h2⟩ := decodeField_fall hx
      subst h2
      have ih := decodeField_keeps X rest acc name a evs a'' r h1 name' shape slot
      cases sh with
      | attr => rw [firstSlot_attr] at hfs ⊢; exact ih hfs habs
      | single =>
        rw [firstSlot_elem (by decide)] at hfs ⊢
        by_cases hn' : name' = tag
        · simp only [if_pos hn'] at hfs ⊢; exact ⟨slot, hfs, habs⟩
        · simp only [if_neg hn'] at hfs ⊢; exact ih hfs habs
      | wrapped m =>
        rw [firstSlot_elem (by intro e; cases e)] at hfs ⊢
        by_cases hn' : name' = tag
        · simp only [if_pos hn'] at hfs ⊢; exact ⟨slot, hfs, habs⟩
        · simp only [if_neg hn'] at hfs ⊢; exact ih hfs habs
      | flat =>
        rw [firstSlot_elem (by decide)] at hfs ⊢
        by_cases hn' : name' = tag
        · simp only [if_pos hn'] at hfs ⊢; exact ⟨slot, hfs, habs⟩
        · simp only [if_neg hn'] at hfs ⊢; exact ih hfs habs
    -- the head slot is rewritten: it was absent (single / wrapped) or is pushed to (flat); the others are unchanged
    have hhit : ∀ (hsh : sh ≠ .attr) (sl' : FVal), acc' = sl' :: acc → (sl.isAbsent = false → sl'.isAbsent = false) →
        name = tag →
        ∃ slot', firstSlot (.cons tag pres sh s rest) acc' name' = some (shape, slot') ∧ slot'.isAbsent = false := by
      intro hsh sl' he hk hn
      subst he
      rw [firstSlot_elem hsh] at hfs ⊢
      by_cases hn' : name' = tag
      · simp only [if_pos hn'] at hfs ⊢
        cases hfs
        exact ⟨sl', rfl, hk habs⟩
      · simp only [if_neg hn'] at hfs ⊢
        exact ⟨slot, hfs, habs⟩
    by_cases hn : name = tag
    · cases sh with
      | attr => rw [decodeField_attr X] at h; exact hfall h
      | single =>
        simp only [decodeField, if_pos hn] at h
        split at h
        · rename_i ha
          cases hd : decode X s a evs with
          | error e => simp [hd] at h
          | ok p =>
            simp only [hd] at h; cases h
            exact hhit (by decide) _ rfl (fun hc => by simp [ha] at hc) hn
        · cases h
      | wrapped m =>
        simp only [decodeField, if_pos hn] at h
        split at h
        · rename_i ha
          cases hd : forEach (listItem (fun a evs => decode X s a evs) m) (evs.length + 1) evs [] with
          | error e => simp [hd] at h
          | ok p =>
            simp only [hd] at h; cases h
            exact hhit (by intro e; cases e) _ rfl (fun hc => by simp [ha] at hc) hn
        · cases h
      | flat =>
        simp only [decodeField, if_pos hn] at h
        cases hd : decode X s a evs with
        | error e => simp [hd] at h
        | ok p =>
          simp only [hd] at h; cases h
          exact hhit (by decide) _ rfl (fun _ => by cases sl <;> rfl) hn
    · rw [decodeField_ne' X hn] at h
      exact hfall h

/-! ### clause: required members present -/

/-- every required member has a value -/
def ReqPresent : Flds → List FVal → Prop
  | .cons _ pres _ _ rest, fv :: fvs => (pres = .req → fv.isAbsent = false) ∧ ReqPresent rest fvs
  | _, _ => True

theorem finish_required : ∀ (fs : Flds) (acc v : List FVal), fs.finish acc = .ok v → ReqPresent fs v
  | .nil, _, v, h => by simp [Flds.finish] at h; subst h; simp [ReqPresent]
  | .cons _ _ _ _ _, [], v, h => by simp [Flds.finish] at h; subst h; simp [ReqPresent]
  | .cons t pres sh s rest, fv :: fvs, v, h => by
    simp only [Flds.finish] at h
    cases hr : rest.finish fvs with
    | error e => simp [hr] at h
    | ok tl =>
      simp only [hr] at h
      have ih := finish_required rest fvs tl hr
      cases pres with
      | req =>
        cases fv with
        | absent => simp at h
        | one x => simp at h; subst h; exact ⟨fun _ => rfl, ih⟩
        | many xs => simp at h; subst h; exact ⟨fun _ => rfl, ih⟩
      | opt =>
        simp at h; subst h
        exact ⟨fun hc => (by cases hc), ih⟩
      | dflt l =>
        cases fv with
        | absent => simp at h; subst h; exact ⟨fun hc => (by cases hc), ih⟩
        | one x => simp at h; subst h; exact ⟨fun hc => (by cases hc), ih⟩
        | many xs => simp at h; subst h; exact ⟨fun hc => (by cases hc), ih⟩

/-- a struct is accepted only with all its required members — those read from child elements and those bound to
attributes alike -/
theorem decode_struct_required (X : Ext) {fs : Flds} {a : Bytes} {evs rest : List Ev} {v : Val}
    (h : decode X (.struct fs) a evs = .ok (v, rest)) : ∃ fvs, v = .struct fvs ∧ ReqPresent fs fvs := by
  rw [decode.eq_1] at h
  split at h
  · cases h
    cases fs with
    | nil => exact ⟨[], rfl, by simp [ReqPresent]⟩
    | cons _ _ _ _ _ => rename_i hn; simp [Flds.isNil] at hn
  · cases hi : fs.initAcc a with
    | error e => simp [hi] at h
    | ok acc0 =>
      simp only [hi] at h
      cases hl : forEach (fun name a evs acc => decodeField X fs name a evs acc) (evs.length + 1) evs acc0 with
      | error e => simp [hl] at h
      | ok p =>
        obtain ⟨acc, r⟩ := p
        simp only [hl] at h
        cases hf : fs.finish acc with
        | error e => simp [hf] at h
        | ok fvs =>
          simp only [hf] at h
          cases h
          exact ⟨fvs, rfl, finish_required fs acc fvs hf⟩

end S3V.Xml
