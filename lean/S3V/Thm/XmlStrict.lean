import S3V.Thm.XmlWf
/-!
Strictness of the generic XML decoder: what must hold of a document for `decode` / `decodeDoc` to accept it.
Each lemma is one clause of the property (expected root, known elements, no repeated single-valued member,
required members present, nothing after the root).
-/
namespace S3V.Xml
open S3V

/-- character data: a text piece or a CDATA section -/
def Ev.isText : Ev → Bool
  | .text _ => true
  | .cdata _ => true
  | _ => false

/-! ### cursor facts -/

theorem skipText_split : ∀ (evs : List Ev), ∃ pre, evs = pre ++ skipText evs ∧ pre.all Ev.isText = true
  | [] => ⟨[], by simp [skipText]⟩
  | .text raw :: r => by
    obtain ⟨pre, h1, h2⟩ := skipText_split r
    refine ⟨.text raw :: pre, ?_, by simp [Ev.isText, h2]⟩
    simp only [skipText, List.cons_append]
    exact congrArg _ h1
  | .cdata c :: r => by
    obtain ⟨pre, h1, h2⟩ := skipText_split r
    refine ⟨.cdata c :: pre, ?_, by simp [Ev.isText, h2]⟩
    simp only [skipText, List.cons_append]
    exact congrArg _ h1
  | .start n a :: r => ⟨[], by simp [skipText]⟩
  | .stop n :: r => ⟨[], by simp [skipText]⟩
  | .bad :: r => ⟨[], by simp [skipText]⟩

theorem expectStart_ok {name : Bytes} {evs r : List Ev} (h : expectStart name evs = .ok r) :
    ∃ pre a, evs = pre ++ .start name a :: r ∧ pre.all Ev.isText = true := by
  obtain ⟨pre, h1, h2⟩ := skipText_split evs
  unfold expectStart at h
  split at h
  · rename_i n a r' heq
    split at h
    · rename_i hn
      cases h
      exact ⟨pre, a, by rw [heq, hn] at h1; exact h1, h2⟩
    · cases h
  all_goals cases h

theorem expectEnd_ok {name : Bytes} {evs r : List Ev} (h : expectEnd name evs = .ok r) :
    ∃ pre, evs = pre ++ .stop name :: r ∧ pre.all Ev.isText = true := by
  obtain ⟨pre, h1, h2⟩ := skipText_split evs
  unfold expectEnd at h
  split at h
  · cases h
  · rename_i n r' heq
    split at h
    · rename_i hn
      cases h
      exact ⟨pre, by rw [heq, hn] at h1; exact h1, h2⟩
    · cases h
  all_goals cases h

theorem expectEof_ok {evs : List Ev} (h : expectEof evs = .ok ()) : evs.all Ev.isText = true := by
  obtain ⟨pre, h1, h2⟩ := skipText_split evs
  unfold expectEof at h
  split at h
  case h_6 heq => rw [heq, List.append_nil] at h1; rw [h1]; exact h2
  all_goals cases h

/-! ### clause: expected root, nothing after the root -/

/-- an accepted document is: text*, `<root …>`, a content the type's decoder accepts, text*, `</root>`, text*, end.
In particular there is no second element, no stray end tag and no tokeniser error after the root. -/
theorem decodeDoc_named_ok (X : Ext) {root : Bytes} {s : Sch} {evs : List Ev} {v : Val}
    (h : decodeDoc X (.named root) s evs = .ok v) :
    ∃ pre a body post mid tail,
      evs = pre ++ .start root a :: body ∧ pre.all Ev.isText = true ∧
      decode X s body = .ok (v, post) ∧
      post = mid ++ .stop root :: tail ∧ mid.all Ev.isText = true ∧ tail.all Ev.isText = true := by
  unfold decodeDoc at h
  simp only at h
  cases h1 : expectStart root evs with
  | error e => simp [h1] at h
  | ok r =>
    simp only [h1] at h
    cases h2 : decode X s r with
    | error e => simp [h2] at h
    | ok p =>
      obtain ⟨v', r'⟩ := p
      simp only [h2] at h
      cases h3 : expectEnd root r' with
      | error e => simp [h3] at h
      | ok r'' =>
        simp only [h3] at h
        cases h4 : expectEof r'' with
        | error e => simp [h4] at h
        | ok u =>
          simp only [h4] at h
          cases h
          obtain ⟨pre, a, he, hp⟩ := expectStart_ok h1
          obtain ⟨mid, hm, hmt⟩ := expectEnd_ok h3
          exact ⟨pre, a, r, r', mid, r'', he, hp, h2, hm, hmt, expectEof_ok h4⟩

/-! ### clause: known elements -/

/-- the element-name dispatch of a struct deserialiser succeeds only for a member's element name -/
theorem decodeField_known (X : Ext) : ∀ (fs : Flds) (name : Bytes) (evs : List Ev) (acc : List FVal)
    (r : List FVal × List Ev), decodeField X fs name evs acc = .ok r → name ∈ fs.tags
  | .nil, _, _, _, _, h => by simp [decodeField] at h
  | .cons tag pres shape s rest, name, evs, [], _, h => by cases shape <;> simp [decodeField] at h
  | .cons tag pres shape s rest, name, evs, slot :: acc, r, h => by
    by_cases hn : name = tag
    · simp [Flds.tags, hn]
    · have : ∃ r', decodeField X rest name evs acc = .ok r' := by
        cases shape <;> simp only [decodeField, if_neg hn] at h <;>
          (cases hd : decodeField X rest name evs acc with
           | error e => simp [hd] at h
           | ok r' => exact ⟨r', rfl⟩)
      obtain ⟨r', hr'⟩ := this
      have := decodeField_known X rest name evs acc r' hr'
      simp [Flds.tags, this]

theorem decodeVariant_known (X : Ext) : ∀ (vars : Vars) (name : Bytes) (evs : List Ev) (r : Val × List Ev),
    decodeVariant X vars name evs = .ok r → name ∈ vars.tags
  | .nil, _, _, _, h => by simp [decodeVariant] at h
  | .cons t s rest, name, evs, r, h => by
    by_cases hn : name = t
    · simp [Vars.tags, hn]
    · simp only [decodeVariant, if_neg hn] at h
      have := decodeVariant_known X rest name evs r h
      simp [Vars.tags, this]

/-! ### clause: no repeated single-valued member -/

/-- the member an element name is dispatched to (the first one with that name), with its current slot -/
def firstSlot : Flds → List FVal → Bytes → Option (Shape × FVal)
  | .cons tag _ shape _ rest, slot :: acc, name => if name = tag then some (shape, slot) else firstSlot rest acc name
  | _, _, _ => none

/-- a second element for a member that is not a flattened list is refused -/
theorem decodeField_repeated (X : Ext) : ∀ (fs : Flds) (acc : List FVal) (name : Bytes) (evs : List Ev)
    (shape : Shape) (slot : FVal), firstSlot fs acc name = some (shape, slot) → shape ≠ .flat →
    slot.isAbsent = false → decodeField X fs name evs acc = .error .duplicateField
  | .nil, _, _, _, _, _, h, _, _ => by simp [firstSlot] at h
  | .cons _ _ _ _ _, [], _, _, _, _, h, _, _ => by simp [firstSlot] at h
  | .cons tag pres sh s rest, sl :: acc, name, evs, shape, slot, h, hflat, habs => by
    by_cases hn : name = tag
    · simp only [firstSlot, if_pos hn] at h
      cases h
      subst hn
      cases sh with
      | single => simp [decodeField, habs]
      | wrapped m => simp [decodeField, habs]
      | flat => exact absurd rfl hflat
    · simp only [firstSlot, if_neg hn] at h
      have ih := decodeField_repeated X rest acc name evs shape slot h hflat habs
      cases sh <;> simp [decodeField, hn, ih]

/-- after a successful dispatch the member's slot is filled … -/
theorem decodeField_fills (X : Ext) : ∀ (fs : Flds) (acc : List FVal) (name : Bytes) (evs : List Ev)
    (acc' : List FVal) (r : List Ev), decodeField X fs name evs acc = .ok (acc', r) →
    ∃ shape slot, firstSlot fs acc' name = some (shape, slot) ∧ slot.isAbsent = false
  | .nil, _, _, _, _, _, h => by simp [decodeField] at h
  | .cons tag pres sh s rest, [], name, evs, _, _, h => by cases sh <;> simp [decodeField] at h
  | .cons tag pres sh s rest, sl :: acc, name, evs, acc', r, h => by
    by_cases hn : name = tag
    · subst hn
      cases sh with
      | single =>
        simp only [decodeField, if_true] at h
        split at h
        · cases hd : decode X s evs with
          | error e => simp [hd] at h
          | ok p =>
            simp only [hd] at h
            cases h
            exact ⟨.single, .one p.1, by simp [firstSlot], rfl⟩
        · cases h
      | wrapped m =>
        simp only [decodeField, if_true] at h
        split at h
        · cases hd : forEach (listItem (fun evs => decode X s evs) m) (evs.length + 1) evs [] with
          | error e => simp [hd] at h
          | ok p =>
            simp only [hd] at h
            cases h
            exact ⟨.wrapped m, .many p.1, by simp [firstSlot], rfl⟩
        · cases h
      | flat =>
        simp only [decodeField, if_true] at h
        cases hd : decode X s evs with
        | error e => simp [hd] at h
        | ok p =>
          simp only [hd] at h
          cases h
          refine ⟨.flat, sl.push p.1, by simp [firstSlot], ?_⟩
          cases sl <;> rfl
    · have : ∃ a'', decodeField X rest name evs acc = .ok (a'', r) ∧ acc' = sl :: a'' := by
        cases sh <;> simp only [decodeField, if_neg hn] at h <;>
          (cases hd : decodeField X rest name evs acc with
           | error e => simp [hd] at h
           | ok p =>
             obtain ⟨a'', r''⟩ := p
             simp only [hd] at h
             cases h
             exact ⟨a'', rfl, rfl⟩)
      obtain ⟨a'', h1, h2⟩ := this
      obtain ⟨shape, slot, hs, ha⟩ := decodeField_fills X rest acc name evs a'' r h1
      exact ⟨shape, slot, by simp [h2, firstSlot, hn, hs], ha⟩

/-- … and no dispatch ever empties a filled slot (so the slot is still filled when the name comes again) -/
theorem decodeField_keeps (X : Ext) : ∀ (fs : Flds) (acc : List FVal) (name : Bytes) (evs : List Ev)
    (acc' : List FVal) (r : List Ev), decodeField X fs name evs acc = .ok (acc', r) →
    ∀ (name' : Bytes) (shape : Shape) (slot : FVal), firstSlot fs acc name' = some (shape, slot) →
      slot.isAbsent = false → ∃ slot', firstSlot fs acc' name' = some (shape, slot') ∧ slot'.isAbsent = false
  | .nil, _, _, _, _, _, h => by simp [decodeField] at h
  | .cons tag pres sh s rest, [], name, evs, _, _, h => by cases sh <;> simp [decodeField] at h
  | .cons tag pres sh s rest, sl :: acc, name, evs, acc', r, h => by
    intro name' shape slot hfs habs
    by_cases hn : name = tag
    · -- the head slot is rewritten: it was absent (single / wrapped) or is pushed to (flat); the others are unchanged
      subst hn
      have hhead : ∃ sl', acc' = sl' :: acc ∧ (sl.isAbsent = false → sl'.isAbsent = false) := by
        cases sh with
        | single =>
          simp only [decodeField, if_true] at h
          split at h
          · rename_i ha
            cases hd : decode X s evs with
            | error e => simp [hd] at h
            | ok p => simp only [hd] at h; cases h; exact ⟨_, rfl, fun hc => by simp [ha] at hc⟩
          · cases h
        | wrapped m =>
          simp only [decodeField, if_true] at h
          split at h
          · rename_i ha
            cases hd : forEach (listItem (fun evs => decode X s evs) m) (evs.length + 1) evs [] with
            | error e => simp [hd] at h
            | ok p => simp only [hd] at h; cases h; exact ⟨_, rfl, fun hc => by simp [ha] at hc⟩
          · cases h
        | flat =>
          simp only [decodeField, if_true] at h
          cases hd : decode X s evs with
          | error e => simp [hd] at h
          | ok p => simp only [hd] at h; cases h; exact ⟨_, rfl, fun _ => by cases sl <;> rfl⟩
      obtain ⟨sl', he, hk⟩ := hhead
      subst he
      by_cases hn' : name' = name
      · simp only [firstSlot, if_pos hn'] at hfs ⊢
        cases hfs
        exact ⟨sl', rfl, hk habs⟩
      · simp only [firstSlot, if_neg hn'] at hfs ⊢
        exact ⟨slot, hfs, habs⟩
    · have : ∃ a'', decodeField X rest name evs acc = .ok (a'', r) ∧ acc' = sl :: a'' := by
        cases sh <;> simp only [decodeField, if_neg hn] at h <;>
          (cases hd : decodeField X rest name evs acc with
           | error e => simp [hd] at h
           | ok p =>
             obtain ⟨a'', r''⟩ := p
             simp only [hd] at h
             cases h
             exact ⟨a'', rfl, rfl⟩)
      obtain ⟨a'', h1, h2⟩ := this
      subst h2
      by_cases hn' : name' = tag
      · simp only [firstSlot, if_pos hn'] at hfs ⊢
        exact ⟨slot, hfs, habs⟩
      · simp only [firstSlot, if_neg hn'] at hfs ⊢
        exact decodeField_keeps X rest acc name evs a'' r h1 name' shape slot hfs habs

/-! ### clause: required members present -/

/-- every required member has a value -/
def ReqPresent : Flds → List FVal → Prop
  | .cons _ pres _ _ rest, fv :: fvs => (pres = .req → fv.isAbsent = false) ∧ ReqPresent rest fvs
  | _, _ => True

theorem finish_required : ∀ (fs : Flds) (acc v : List FVal), fs.finish acc = .ok v → ReqPresent fs v
  | .nil, _, v, h => by simp [Flds.finish] at h; subst h; simp [ReqPresent]
  | .cons _ _ _ _ _, [], v, h => by simp [Flds.finish] at h; subst h; simp [ReqPresent]
  | .cons t pres sh s rest, fv :: fvs, v, h => by
    simp only [Flds.finish] at h
    cases hr : rest.finish fvs with
    | error e => simp [hr] at h
    | ok tl =>
      simp only [hr] at h
      have ih := finish_required rest fvs tl hr
      cases pres with
      | req =>
        cases fv with
        | absent => simp at h
        | one x => simp at h; subst h; exact ⟨fun _ => rfl, ih⟩
        | many xs => simp at h; subst h; exact ⟨fun _ => rfl, ih⟩
      | opt =>
        simp at h; subst h
        exact ⟨fun hc => (by cases hc), ih⟩
      | dflt l =>
        cases fv with
        | absent => simp at h; subst h; exact ⟨fun hc => (by cases hc), ih⟩
        | one x => simp at h; subst h; exact ⟨fun hc => (by cases hc), ih⟩
        | many xs => simp at h; subst h; exact ⟨fun hc => (by cases hc), ih⟩

/-- a struct is accepted only with all its required members -/
theorem decode_struct_required (X : Ext) {fs : Flds} {evs rest : List Ev} {v : Val}
    (h : decode X (.struct fs) evs = .ok (v, rest)) : ∃ fvs, v = .struct fvs ∧ ReqPresent fs fvs := by
  rw [decode.eq_1] at h
  split at h
  · cases h
    cases fs with
    | nil => exact ⟨[], rfl, by simp [ReqPresent]⟩
    | cons _ _ _ _ _ => rename_i hn; simp [Flds.isNil] at hn
  · cases hl : forEach (fun name evs acc => decodeField X fs name evs acc) (evs.length + 1) evs fs.emptyAcc with
    | error e => simp [hl] at h
    | ok p =>
      obtain ⟨acc, r⟩ := p
      simp only [hl] at h
      cases hf : fs.finish acc with
      | error e => simp [hf] at h
      | ok fvs =>
        simp only [hf] at h
        cases h
        exact ⟨fvs, rfl, finish_required fs acc fvs hf⟩

end S3V.Xml
