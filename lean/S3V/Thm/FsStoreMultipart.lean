import S3V.Thm.FsStoreCopy
/-!
# C18: multipart uploads — create, upload part, list parts, abort refine the store
-/
namespace S3V.FsStore
open S3V.StoreSpec

/-! ## uploads under the abstraction -/

/-- the abstract upload of an entry of `uploads` -/
def upOf (s : State) (id : Nat) (ui : UpInfo) : Upload :=
  ⟨ui.owner, ui.bucket, ui.key, (alLookup (ui.bucket, ui.key, id) s.upMetas).getD [], absParts s id⟩

theorem abs_uploads (s : State) : (abs s).uploads = s.uploads.map fun e => (e.1, upOf s e.1 e.2) := rfl

theorem abs_upload_lookup (s : State) (id : Nat) :
    alLookup id (abs s).uploads = (alLookup id s.uploads).map (upOf s id) := by
  rw [abs_uploads]
  exact alLookup_map_val (fun id ui => upOf s id ui) id s.uploads

section
variable {α β γ : Type} [DecidableEq α]

/-- changing the value under one key of a mapped association list -/
theorem map_eq_alInsert_map (g' g : α → β → γ) (k : α) (v : β) (l : List (α × β)) (hnd : keysNodup l)
    (hk : alLookup k l = some v) (h : ∀ e ∈ l, e.1 ≠ k → g' e.1 e.2 = g e.1 e.2) :
    (l.map fun e => (e.1, g' e.1 e.2)) = alInsert k (g' k v) (l.map fun e => (e.1, g e.1 e.2)) := by
  induction l with
  | nil => simp at hk
  | cons e t ih =>
    obtain ⟨a, b⟩ := e
    obtain ⟨hfresh, hnd'⟩ := keysNodup_cons hnd
    by_cases h' : a = k
    · subst h'
      simp only [alLookup_cons, if_true, Option.some.injEq] at hk
      subst hk
      simp only [List.map_cons, alInsert, if_true, List.cons.injEq, true_and]
      apply List.map_congr_left
      intro e he
      obtain ⟨a', b'⟩ := e
      have : a' ≠ a := by intro h; subst h; exact hfresh b' he
      simp [h (a', b') (List.mem_cons_of_mem _ he) this]
    · simp only [alLookup_cons, h', if_false] at hk
      simp only [List.map_cons, alInsert, h', if_false]
      rw [h (a, b) (by simp) h', ih hnd' hk fun e he => h e (List.mem_cons_of_mem _ he)]

theorem alErase_map_congr (g' g : α → β → γ) (k : α) (l : List (α × β))
    (h : ∀ e ∈ l, e.1 ≠ k → g' e.1 e.2 = g e.1 e.2) :
    (alErase k l).map (fun e => (e.1, g' e.1 e.2)) = alErase k (l.map fun e => (e.1, g e.1 e.2)) := by
  induction l with
  | nil => rfl
  | cons e t ih =>
    obtain ⟨a, b⟩ := e
    have ih' := ih fun e he => h e (List.mem_cons_of_mem _ he)
    by_cases h' : a = k
    · simp [alErase, h', ih']
    · simp only [alErase, h', if_false, List.map_cons]
      rw [h (a, b) (by simp) h', ih']

end

/-- parts of other uploads are not touched by writing a part of upload `id` -/
theorem absParts_insert_other {s : State} {id id' : Nat} (n : Int) (c : Bytes) (hne : id' ≠ id) :
    (alInsert (id, n) c s.parts).filterMap (fun p => if p.1.1 = id' then some (p.1.2, p.2) else none) =
      s.parts.filterMap (fun p => if p.1.1 = id' then some (p.1.2, p.2) else none) := by
  generalize s.parts = l
  induction l with
  | nil => simp [alInsert, hne.symm]
  | cons e t ih =>
    obtain ⟨⟨i, m⟩, b⟩ := e
    by_cases h : (i, m) = (id, n)
    · simp only [Prod.mk.injEq] at h
      obtain ⟨rfl, rfl⟩ := h
      simp [alInsert, hne.symm]
    · simp only [alInsert, h, if_false, List.filterMap_cons, ih]

theorem absParts_insert_self {s : State} (hi : Inv s) (id : Nat) (n : Int) (c : Bytes) :
    (alInsert (id, n) c s.parts).filterMap (fun p => if p.1.1 = id then some (p.1.2, p.2) else none) =
      alInsert n c (absParts s id) := by
  unfold absParts
  apply filterMap_alInsert _ _ (id, n) c n c s.parts hi.pnd
  · simp
  · intro b' _; exact ⟨b', by simp⟩
  · intro _ _ _ _; rfl
  · intro a' b' c' d' _ hne h
    obtain ⟨i, m⟩ := a'
    by_cases hi' : i = id
    · subst hi'
      simp at h
      rw [← h.1]
      intro e; exact hne (by rw [e])
    · simp [hi'] at h

end S3V.FsStore

namespace S3V.FsStore
open S3V.StoreSpec

/-- an upload that exists and was created for this bucket and key -/
def BoundUpload (s : State) (u : UploadRef) (b k : Bytes) : Prop :=
  match u with
  | none => False
  | some id =>
    match alLookup id s.uploads with
    | none => False
    | some ui => ui.bucket = b ∧ ui.key = k

instance (s : State) (u : UploadRef) (b k : Bytes) : Decidable (BoundUpload s u b k) := by
  unfold BoundUpload
  split
  · infer_instance
  · split <;> infer_instance

theorem BoundUpload.spec {s : State} {u : UploadRef} {b k : Bytes} (h : BoundUpload s u b k) :
    ∃ id ui, u = some id ∧ alLookup id s.uploads = some ui ∧ ui.bucket = b ∧ ui.key = k ∧
      (abs s).upload u b k = some (id, upOf s id ui) := by
  unfold BoundUpload at h
  cases u with
  | none => exact absurd h (by simp)
  | some id =>
    simp only at h
    cases hl : alLookup id s.uploads with
    | none => rw [hl] at h; exact absurd h (by simp)
    | some ui =>
      rw [hl] at h
      simp only at h
      refine ⟨id, ui, rfl, hl, h.1, h.2, ?_⟩
      unfold Store.upload
      simp only [abs_upload_lookup, hl, Option.map_some]
      simp [upOf, h.1, h.2]

/-- the upload `u` names does not exist under this bucket and key: the id is not a UUID, no upload has it, or the upload was
    created for another bucket or key (41e1cf2: `NoSuchUpload` on both sides; before: fs:upload-not-bound-to-key) -/
def AbsentUpload (s : State) (u : UploadRef) (b k : Bytes) : Prop :=
  match u with
  | none => True
  | some id =>
    match alLookup id s.uploads with
    | none => True
    | some ui => ¬ (ui.bucket = b ∧ ui.key = k)

/-- every request names an upload that exists under its bucket and key, or one that does not -/
theorem upload_cases (s : State) (u : UploadRef) (b k : Bytes) : BoundUpload s u b k ∨ AbsentUpload s u b k := by
  unfold BoundUpload AbsentUpload
  cases u with
  | none => exact .inr trivial
  | some id =>
    simp only
    cases alLookup id s.uploads with
    | none => exact .inr trivial
    | some ui => exact Decidable.em _

/-- an upload that does not exist under this bucket and key is unknown to the store as well -/
theorem AbsentUpload.upload {s : State} {u : UploadRef} {b k : Bytes} (h : AbsentUpload s u b k) :
    (abs s).upload u b k = none := by
  unfold AbsentUpload at h
  unfold Store.upload
  cases u with
  | none => rfl
  | some id =>
    simp only at h
    cases hl : alLookup id s.uploads with
    | none => simp [abs_upload_lookup, hl]
    | some ui =>
      rw [hl] at h
      have h' : ¬ (ui.bucket = b ∧ ui.key = k) := h
      simp [abs_upload_lookup, hl, upOf, h']

theorem AbsentUpload.find {s : State} {id : Nat} {b k : Bytes} (h : AbsentUpload s (some id) b k) :
    s.findUpload id b k = none := by
  unfold AbsentUpload at h
  simp only at h
  unfold State.findUpload
  cases hl : alLookup id s.uploads with
  | none => rfl
  | some ui =>
    rw [hl] at h
    have h' : ¬ (ui.bucket = b ∧ ui.key = k) := h
    simp [h']

theorem AbsentUpload.verify {s : State} {id : Nat} {b k : Bytes} (h : AbsentUpload s (some id) b k) (who : Who) :
    s.verify who id b k = some .NoSuchUpload := by
  simp [State.verify, h.find]

/-- the record `check_upload_exists` finds for an upload created for this bucket and key -/
theorem findUpload_bound {s : State} {id : Nat} {ui : UpInfo} {b k : Bytes} (hl : alLookup id s.uploads = some ui)
    (hb : ui.bucket = b) (hk : ui.key = k) : s.findUpload id b k = some ui := by
  simp [State.findUpload, hl, hb, hk]

/-- `create_multipart_upload` comparable: the bucket name agrees and the metadata file name fits
    [else fs:long-key-internal-error] -/
def CreateUploadOk (_s : State) (b k : Bytes) : Prop :=
  NameOk b ∧ sideTooLong b k true = false

theorem absParts_fresh {s : State} {id : Nat} (h : ∀ e ∈ s.parts, e.1.1 ≠ id) : absParts s id = [] := by
  unfold absParts
  apply List.filterMap_eq_nil_iff.mpr
  intro e he
  simp [h e he]

theorem createUpload_core {s s' : State} (hi : Inv s) {who : Who} {b k : Bytes} {md : Option Meta}
    (hiss : s'.issued = s.issued + 1)
    (hup : s'.uploads = alInsert (s.issued + 1) ⟨who, b, k⟩ s.uploads)
    (hum : s'.upMetas = md.elim s.upMetas fun m => alInsert (b, k, s.issued + 1) m s.upMetas)
    (hb : s'.buckets = s.buckets) (hm : s'.metas = s.metas) (hin : s'.infos = s.infos) (hpa : s'.parts = s.parts) :
    abs s' = { abs s with issued := s.issued + 1,
                          uploads := alInsert (s.issued + 1) ⟨who, b, k, md.getD [], []⟩ (abs s).uploads } ∧
    Inv s' := by
  have hfreshM : alLookup (b, k, s.issued + 1) s.upMetas = none := by
    apply alLookup_none_of_not_mem
    intro e he heq
    have := hi.upMetaIds e he
    rw [heq] at this
    simp only at this
    omega
  have hfreshP : ∀ e ∈ s'.parts, e.1.1 ≠ s.issued + 1 := by
    rw [hpa]; intro e he; have := hi.partIds e he; omega
  constructor
  · apply Store.ext'
    · rw [abs_buckets_congr hm hin, hb]; rfl
    · rw [abs_uploads, hup]
      simp only
      rw [alInsert_map_val (fun id ui => upOf s' id ui)]
      rw [alInsert_map_congr (fun id ui => upOf s' id ui) (fun id ui => upOf s id ui) (s.issued + 1) _ s.uploads hi.und]
      · rw [← abs_uploads]
        congr 1
        unfold upOf
        rw [absParts_fresh hfreshP, hum]
        congr 1
        cases md with
        | none => simp [hfreshM]
        | some m => simp [alLookup_alInsert_self]
      · intro e he hne
        unfold upOf absParts
        rw [hpa, hum]
        congr 2
        cases md with
        | none => rfl
        | some m =>
          simp only [Option.elim]
          apply alLookup_alInsert_ne
          intro heq
          simp only [Prod.mk.injEq] at heq
          exact hne heq.2.2
    · exact hiss
  · refine ⟨hb ▸ hi.bnd, hb ▸ hi.tnd, hb ▸ hi.paths, hm ▸ hi.metaOk, hup ▸ keysNodup_alInsert hi.und, hpa ▸ hi.pnd,
      ?_, ?_, ?_⟩
    · rw [hup, hiss]
      intro e he
      rcases alInsert_mem he with he | he
      · subst he; exact Nat.le_refl _
      · exact Nat.le_succ_of_le (hi.upIds e he)
    · rw [hpa, hiss]; exact fun e he => Nat.le_succ_of_le (hi.partIds e he)
    · rw [hum, hiss]
      intro e he
      cases md with
      | none => exact Nat.le_succ_of_le (hi.upMetaIds e he)
      | some m =>
        rcases alInsert_mem he with he | he
        · subst he; exact Nat.le_refl _
        · exact Nat.le_succ_of_le (hi.upMetaIds e he)

theorem createUpload_refines (H : Hashes) (dl : Nat) {s : State} (hi : Inv s) {who : Who} {b k : Bytes}
    {md : Option Meta} (hg : CreateUploadOk s b k) :
    (step H dl s (.createMultipartUpload who b k md)).2 =
      (StoreSpec.step H (abs s) (.createMultipartUpload who b k md)).2 ∧
    abs (step H dl s (.createMultipartUpload who b k md)).1 =
      (StoreSpec.step H (abs s) (.createMultipartUpload who b k md)).1 ∧
    Inv (step H dl s (.createMultipartUpload who b k md)).1 := by
  obtain ⟨hname, hshort⟩ := hg
  rcases hname.cases with ⟨hbo, hbd⟩ | ⟨hbo, hbd⟩
  · cases hkp : keyPath k with
    | none =>
      have hko : keyOk k = false := by rw [keyOk_iff_keyPath, hkp]; rfl
      simp [step, StoreSpec.step, objPath, hbd, hkp, hbo, hko, hi]
    | some p =>
      have hko : keyOk k = true := by rw [keyOk_iff_keyPath, hkp]; rfl
      by_cases hhas : alHas b s.buckets = true
      · have hstep : step H dl s (.createMultipartUpload who b k md) =
            ({ s with issued := s.issued + 1, uploads := alInsert (s.issued + 1) ⟨who, b, k⟩ s.uploads,
                      upMetas := md.elim s.upMetas fun m => alInsert (b, k, s.issued + 1) m s.upMetas },
              .created (s.issued + 1)) := by
          cases md <;> simp [step, objPath, hbd, hkp, hhas, hshort]
        have hiss : (abs s).issued = s.issued := rfl
        have hspec : StoreSpec.step H (abs s) (.createMultipartUpload who b k md) =
            ({ abs s with issued := s.issued + 1,
                          uploads := alInsert (s.issued + 1) ⟨who, b, k, md.getD [], []⟩ (abs s).uploads },
              .created (s.issued + 1)) := by
          simp [StoreSpec.step, hbo, hko, abs_alHas, hhas, hiss]
        rw [hstep, hspec]
        obtain ⟨h1, h2⟩ := createUpload_core (s' := { s with issued := s.issued + 1, uploads := alInsert (s.issued + 1) ⟨who, b, k⟩ s.uploads, upMetas := md.elim s.upMetas fun m => alInsert (b, k, s.issued + 1) m s.upMetas }) hi (who := who) (b := b) (k := k) (md := md) rfl rfl rfl rfl rfl rfl rfl
        exact ⟨rfl, h1, h2⟩
      · have hhas' : alHas b s.buckets = false := by simpa using hhas
        simp [step, StoreSpec.step, objPath, hbd, hkp, hbo, hko, abs_alHas, hhas', hi]
  · simp [step, StoreSpec.step, objPath, hbd, hbo, hi]

end S3V.FsStore

namespace S3V.FsStore
open S3V.StoreSpec

/-- an upload with part `n` (re)written -/
def withPart (up : Upload) (n : Int) (c : Bytes) : Upload := { up with parts := alInsert n c up.parts }

/-- abstraction and invariant after part `n` of upload `id` was written -/
theorem writePart_core {s s' : State} (hi : Inv s) {id : Nat} {ui : UpInfo} {n : Int} {c : Bytes}
    (hl : alLookup id s.uploads = some ui)
    (hpa : s'.parts = alInsert (id, n) c s.parts)
    (hb : s'.buckets = s.buckets) (hm : s'.metas = s.metas) (hin : s'.infos = s.infos)
    (hup : s'.uploads = s.uploads) (hum : s'.upMetas = s.upMetas) (hiss : s'.issued = s.issued) :
    abs s' = { abs s with uploads := alInsert id (withPart (upOf s id ui) n c) (abs s).uploads } ∧ Inv s' := by
  constructor
  · apply Store.ext'
    · rw [abs_buckets_congr hm hin, hb]; rfl
    · rw [abs_uploads, hup]
      rw [map_eq_alInsert_map (fun id ui => upOf s' id ui) (fun id ui => upOf s id ui) id ui s.uploads hi.und hl]
      · rw [← abs_uploads]
        congr 1
        unfold withPart upOf
        simp only [hum]
        congr 1
        unfold absParts
        rw [hpa]
        exact absParts_insert_self hi id n c
      · intro e _ hne
        unfold upOf
        simp only [hum]
        congr 1
        unfold absParts
        rw [hpa]
        exact absParts_insert_other n c hne
    · exact hiss
  · refine ⟨hb ▸ hi.bnd, hb ▸ hi.tnd, hb ▸ hi.paths, hm ▸ hi.metaOk, hup ▸ hi.und, hpa ▸ keysNodup_alInsert hi.pnd,
      ?_, ?_, ?_⟩
    · rw [hup, hiss]; exact hi.upIds
    · rw [hpa, hiss]
      intro e he
      rcases alInsert_mem he with he | he
      · subst he; exact hi.upIds _ (alLookup_mem hl)
      · exact hi.partIds e he
    · rw [hum, hiss]; exact hi.upMetaIds

theorem uploadPart_refines (H : Hashes) (dl : Nat) {s : State} (hi : Inv s) {who : Who} {b k : Bytes}
    {u : UploadRef} {n : Int} {c : Bytes} :
    (step H dl s (.uploadPart who b k u n c)).2 = (StoreSpec.step H (abs s) (.uploadPart who b k u n c)).2 ∧
    abs (step H dl s (.uploadPart who b k u n c)).1 = (StoreSpec.step H (abs s) (.uploadPart who b k u n c)).1 ∧
    Inv (step H dl s (.uploadPart who b k u n c)).1 := by
  by_cases hrange : n < 1 ∨ n > 10000
  · simp [step, StoreSpec.step, hrange, hi]
  · rcases upload_cases s u b k with hbound | habs
    case inr =>
      have hup := habs.upload
      cases u with
      | none => simp [step, StoreSpec.step, hrange, hup, hi]
      | some id => simp [step, StoreSpec.step, hrange, hup, habs.verify who, hi]
    obtain ⟨id, ui, rfl, hl, hb, hk, hup⟩ := hbound.spec
    by_cases hown : ui.owner = who
    · have hstep : step H dl s (.uploadPart who b k (some id) n c) =
          ({ s with parts := alInsert (id, n) c s.parts }, .part (some (etagOf H c))) := by
        simp [step, hrange, State.verify, findUpload_bound hl hb hk, hown]
      have hspec : StoreSpec.step H (abs s) (.uploadPart who b k (some id) n c) =
          ({ abs s with uploads := alInsert id (withPart (upOf s id ui) n c) (abs s).uploads }, .part (some (etagOf H c))) := by
        simp [StoreSpec.step, hrange, hup, upOf, hown, withPart]
      rw [hstep, hspec]
      obtain ⟨h1, h2⟩ := writePart_core (s' := { s with parts := alInsert (id, n) c s.parts }) hi hl rfl rfl rfl rfl rfl rfl rfl
      exact ⟨rfl, h1, h2⟩
    · have hown' : (upOf s id ui).owner ≠ who := hown
      simp [step, StoreSpec.step, hrange, State.verify, findUpload_bound hl hb hk, hown, hup, hown', hi]

theorem listParts_refines (H : Hashes) (dl : Nat) {s : State} (hi : Inv s) {who : Who} {b k : Bytes}
    {u : UploadRef} :
    (step H dl s (.listParts who b k u)).2 = (StoreSpec.step H (abs s) (.listParts who b k u)).2 ∧
    abs (step H dl s (.listParts who b k u)).1 = (StoreSpec.step H (abs s) (.listParts who b k u)).1 ∧
    Inv (step H dl s (.listParts who b k u)).1 := by
  rcases upload_cases s u b k with hg | habs
  case inr =>
    have hup := habs.upload
    cases u with
    | none => simp [step, StoreSpec.step, hup, hi]
    | some id => simp [step, StoreSpec.step, hup, habs.find, hi]
  obtain ⟨id, ui, rfl, hl, hb, hk, hup⟩ := BoundUpload.spec hg
  have hhas := findUpload_bound hl hb hk
  have : (absParts s id).map (fun p => (p.1, p.2.length)) =
      s.parts.filterMap fun e => if e.1.1 = id then some (e.1.2, e.2.length) else none := by
    unfold absParts
    rw [List.map_filterMap]
    congr 1
    funext e
    by_cases h : e.1.1 = id <;> simp [h]
  simp [step, StoreSpec.step, hup, upOf, this, hhas, hi]

theorem absParts_filter_other {s : State} {id id' : Nat} (hne : id' ≠ id) :
    (s.parts.filter fun e => e.1.1 ≠ id).filterMap (fun p => if p.1.1 = id' then some (p.1.2, p.2) else none) =
      s.parts.filterMap (fun p => if p.1.1 = id' then some (p.1.2, p.2) else none) := by
  generalize s.parts = l
  induction l with
  | nil => rfl
  | cons e t ih =>
    by_cases h : e.1.1 = id
    · have h' : ¬ e.1.1 = id' := by rw [h]; exact hne.symm
      rw [List.filter_cons, List.filterMap_cons]
      simp only [h, ne_eq, not_true_eq_false, decide_false, Bool.false_eq_true, if_false]
      have : (if id = id' then some (e.1.2, e.2) else none) = none := by
        rw [h] at h'; simp [h']
      rw [this]
      exact ih
    · simp only [List.filter_cons, h, ne_eq, not_false_eq_true, decide_true, if_true, List.filterMap_cons, ih]

theorem abort_refines (H : Hashes) (dl : Nat) {s : State} (hi : Inv s) {who : Who} {b k : Bytes}
    {u : UploadRef} :
    (step H dl s (.abortMultipartUpload who b k u)).2 = (StoreSpec.step H (abs s) (.abortMultipartUpload who b k u)).2 ∧
    abs (step H dl s (.abortMultipartUpload who b k u)).1 =
      (StoreSpec.step H (abs s) (.abortMultipartUpload who b k u)).1 ∧
    Inv (step H dl s (.abortMultipartUpload who b k u)).1 := by
  rcases upload_cases s u b k with hg | habs
  case inr =>
    have hup := habs.upload
    cases u with
    | none => simp [step, StoreSpec.step, hup, hi]
    | some id => simp [step, StoreSpec.step, hup, habs.verify who, hi]
  obtain ⟨id, ui, rfl, hl, hb, hk, hup⟩ := BoundUpload.spec hg
  by_cases hown : ui.owner = who
  · have hstep : step H dl s (.abortMultipartUpload who b k (some id)) =
        ({ s with upMetas := alErase (b, k, id) s.upMetas, parts := s.parts.filter (fun e => e.1.1 ≠ id),
                  uploads := alErase id s.uploads }, .ok) := by
      simp [step, State.verify, findUpload_bound hl hb hk, hown]
    have hspec : StoreSpec.step H (abs s) (.abortMultipartUpload who b k (some id)) =
        ({ abs s with uploads := alErase id (abs s).uploads }, .ok) := by
      simp [StoreSpec.step, hup, upOf, hown]
    rw [hstep, hspec]
    refine ⟨rfl, ?_, ?_⟩
    · apply Store.ext'
      · exact abs_buckets_congr (s := s) rfl rfl
      · rw [abs_uploads]
        simp only
        rw [alErase_map_congr (fun id ui => upOf _ id ui) (fun id ui => upOf s id ui) id s.uploads]
        · rw [← abs_uploads]
        · intro e _ hne
          unfold upOf
          simp only
          congr 1
          · congr 1
            apply alLookup_alErase_ne
            intro heq
            simp only [Prod.mk.injEq] at heq
            exact hne heq.2.2
          · unfold absParts
            exact absParts_filter_other hne
      · rfl
    · refine ⟨hi.bnd, hi.tnd, hi.paths, hi.metaOk, keysNodup_alErase hi.und, ?_, ?_, ?_, ?_⟩
      · unfold keysNodup
        exact (List.filter_sublist.map _).nodup hi.pnd
      · exact fun e he => hi.upIds e (alErase_mem he)
      · exact fun e he => hi.partIds e (List.mem_filter.mp he).1
      · exact fun e he => hi.upMetaIds e (alErase_mem he)
  · have hown' : (upOf s id ui).owner ≠ who := hown
    simp [step, StoreSpec.step, State.verify, findUpload_bound hl hb hk, hown, hup, hown', hi]

end S3V.FsStore
