import S3V.Thm.FsPathNames
/-!
# Lemmas: every entry of the may-touch table `plan` is allowed by C17 (`Allowed`)
-/
namespace S3V.FsPath

/-! ## `parentPath`, `covers` -/

theorem map_osStr_allNormal {m : List Comp} (h : AllNormal m) : m.map osStr = names m := by
  induction m with
  | nil => rfl
  | cons c r ih =>
    obtain ⟨n, rfl⟩ := h c (by simp)
    simp [osStr, names, ih h.tail]

theorem allNormal_append {a b : List Comp} (ha : AllNormal a) (hb : AllNormal b) : AllNormal (a ++ b) := by
  intro c hc
  rcases List.mem_append.mp hc with h | h
  · exact ha c h
  · exact hb c h

theorem allNormal_dropLast {a : List Comp} (ha : AllNormal a) : AllNormal a.dropLast :=
  fun c hc => ha c (List.dropLast_subset a hc)

theorem components_parentPath {e : Env} (hr : RootOk e.root) {p : Bytes} {ext : List Comp}
    (hc : components p = components e.root ++ ext) (hext : AllNormal ext) (hne : ext ≠ [])
    (ha : isAbsolute p = true) : components (parentPath p) = components e.root ++ ext.dropLast := by
  obtain ⟨l, hl, hn⟩ := hr.shape
  have hm : AllNormal (l ++ ext.dropLast) := allNormal_append hn (allNormal_dropLast hext)
  have hd : (components p).dropLast = .rootDir :: (l ++ ext.dropLast) := by
    rw [hc, hl, List.cons_append, List.dropLast_cons_of_ne_nil (by simp [hne]),
      List.dropLast_append_of_ne_nil hne]
  have hgood : ∀ n ∈ names (l ++ ext.dropLast), Good n := by
    intro n hnm
    apply mem_components (s := p)
    have : Comp.normal n ∈ (components p).dropLast := by
      rw [hd, ← map_normal_names hm]; simp [hnm]
    exact List.dropLast_subset _ this
  unfold parentPath
  rw [hd, ha, List.map_cons, map_osStr_allNormal hm]
  show components (render ([47] :: names (l ++ ext.dropLast)) true) = _
  rw [(components_render_abs hgood).1, map_normal_names hm, hl]
  rfl

theorem covers_path {e : Env} {p : Bytes} {q : List Comp} (h : covers e (.path p) q = true) :
    q = components p := by
  simp only [covers, beq_iff_eq] at h
  exact h.symm

theorem covers_subtree {e : Env} {p : Bytes} {q : List Comp} (h : covers e (.subtree p) q = true) :
    components p <+: q := by
  simp only [covers] at h
  exact List.isPrefixOf_iff_prefix.mp h

theorem covers_dirChain {e : Env} {p : Bytes} {q : List Comp} (h : covers e (.dirChain p) q = true) :
    components e.root <+: q ∧ (components e.root).length < q.length ∧ q <+: components p := by
  simp only [covers, Bool.and_eq_true, decide_eq_true_eq] at h
  exact ⟨List.isPrefixOf_iff_prefix.mp h.1.1, h.1.2, List.isPrefixOf_iff_prefix.mp h.2⟩

theorem covers_children {e : Env} {dir pre : Bytes} {q : List Comp}
    (h : covers e (.childrenPrefixed dir pre) q = true) :
    ∃ name, pre <+: name ∧ q = components dir ++ [.normal name] := by
  simp only [covers] at h
  split at h
  · rename_i name hl
    simp only [Bool.and_eq_true, beq_iff_eq] at h
    refine ⟨name, List.isPrefixOf_iff_prefix.mp h.2, ?_⟩
    rw [← h.1]
    have hne : q ≠ [] := by intro e; rw [e] at hl; cases hl
    have hlast : q.getLast hne = .normal name := by
      rw [List.getLast?_eq_some_getLast hne] at hl
      exact Option.some.inj hl
    rw [← hlast]
    exact (List.dropLast_concat_getLast hne).symm
  · cases h

/-- a node on the `create_dir_all` chain of a path inside a bucket is inside that bucket -/
theorem chain_inBucket {e : Env} {p : Bytes} {bn : Bytes} {rest q : List Comp}
    (hc : components p = components e.root ++ .normal bn :: rest)
    (h : covers e (.dirChain p) q = true) : (components e.root ++ [.normal bn]) <+: q := by
  obtain ⟨h1, h2, h3⟩ := covers_dirChain h
  obtain ⟨q', rfl⟩ := h1
  rw [hc] at h3
  have h4 : q' <+: .normal bn :: rest := (List.prefix_append_right_inj _).mp h3
  cases q' with
  | nil => simp at h2
  | cons c q'' =>
    have := List.cons_prefix_cons.mp h4
    rw [this.1]
    exact (List.prefix_append_right_inj _).mpr (List.cons_prefix_cons.mpr ⟨rfl, List.nil_prefix⟩)

theorem chain_root_empty {e : Env} {p : Bytes} {q : List Comp} (hc : components p = components e.root)
    (h : covers e (.dirChain p) q = true) : False := by
  obtain ⟨_, h2, h3⟩ := covers_dirChain h
  rw [hc] at h3
  have := h3.length_le
  omega

/-! ## the predicate on touches -/

theorem noDots_under {e : Env} (hr : RootOk e.root) {l ext : List Comp} (hl : l = components e.root ++ ext)
    (hext : AllNormal ext) : NoDots l := by
  obtain ⟨m, hm, hn⟩ := hr.shape
  exact ⟨m ++ ext, by rw [hl, hm]; rfl, allNormal_append hn hext⟩

theorem noDots_root {e : Env} (hr : RootOk e.root) : NoDots (components e.root) :=
  noDots_under hr (ext := []) (by simp) (by intro c hc; cases hc)

/-- the touch names a dot-free absolute location, and every node it denotes is one the property allows `op` to
    access in that way -/
structure P (e : Env) (enc : Bytes → Bytes) (op : Op) (t : Touch) : Prop where
  anchor : TgtOk t.tgt
  allowed : ∀ q, covers e t.tgt q = true → Allowed e enc op t.acc q

variable {e : Env} {enc : Bytes → Bytes} {op : Op}

theorem inBucket_of_prefix {b bn : Bytes} {q : List Comp} (hb : components b = [.normal bn])
    (h : (components e.root ++ [.normal bn]) <+: q) : InBucket e b q := ⟨bn, hb, h⟩

theorem allowedW {b : Bytes} {q : List Comp} {acc : Acc} (hb : b ∈ writeBuckets op) (h : InBucket e b q) :
    Allowed e enc op acc q := .inl ⟨b, hb, h⟩

theorem allowedR {b : Bytes} {q : List Comp} {acc : Acc} (hb : b ∈ readBuckets op) (h : InBucket e b q)
    (ha : acc = .read ∨ acc = .list) : Allowed e enc op acc q := .inr (.inl ⟨b, hb, h, ha⟩)

/-- where a bucket is named in `op`, and how it may be accessed -/
def BucketAcc (op : Op) (b : Bytes) (acc : Acc) : Prop :=
  b ∈ writeBuckets op ∨ (b ∈ readBuckets op ∧ (acc = .read ∨ acc = .list))

theorem allowedB {b : Bytes} {q : List Comp} {acc : Acc} (hb : BucketAcc op b acc) (h : InBucket e b q) :
    Allowed e enc op acc q := by
  rcases hb with hb | ⟨hb, ha⟩
  · exact allowedW hb h
  · exact allowedR hb h ha

theorem L_bucket (hr : RootOk e.root) {b p : Bytes} {acc : Acc} (hb : BucketAcc op b acc)
    (h : getBucketPath e b = .ok p) : P e enc op ⟨acc, .path p⟩ := by
  obtain ⟨bn, hbc, _, hpc, _⟩ := getBucketPath_shape e hr h
  refine ⟨noDots_under hr hpc (allNormal_map [bn]), fun q hq => ?_⟩
  rw [covers_path hq, hpc]
  exact allowedB hb (inBucket_of_prefix hbc (List.prefix_refl _))

theorem L_bucket_sub (hr : RootOk e.root) {b p : Bytes} {acc : Acc} (hb : BucketAcc op b acc)
    (h : getBucketPath e b = .ok p) : P e enc op ⟨acc, .subtree p⟩ := by
  obtain ⟨bn, hbc, _, hpc, _⟩ := getBucketPath_shape e hr h
  refine ⟨noDots_under hr hpc (allNormal_map [bn]), fun q hq => ?_⟩
  have := covers_subtree hq
  rw [hpc] at this
  exact allowedB hb (inBucket_of_prefix hbc this)

theorem obj_ext_allNormal {bn k : Bytes} (hall : AllNormal (body k)) : AllNormal (.normal bn :: body k) := by
  intro c hc
  rcases List.mem_cons.mp hc with rfl | hc
  · exact ⟨bn, rfl⟩
  · exact hall c hc

theorem L_obj (hr : RootOk e.root) {b k p : Bytes} {acc : Acc} (hb : BucketAcc op b acc)
    (h : getObjectPath e b k = .ok p) : P e enc op ⟨acc, .path p⟩ := by
  obtain ⟨bn, hbc, _, hall, _, _, hpc, _⟩ := getObjectPath_shape e hr h
  refine ⟨noDots_under hr hpc (obj_ext_allNormal hall), fun q hq => ?_⟩
  rw [covers_path hq, hpc]
  refine allowedB hb (inBucket_of_prefix hbc ?_)
  exact (List.prefix_append_right_inj _).mpr (List.cons_prefix_cons.mpr ⟨rfl, List.nil_prefix⟩)

theorem L_objChain (hr : RootOk e.root) {b k p : Bytes} {acc : Acc} (hb : BucketAcc op b acc)
    (h : getObjectPath e b k = .ok p) : P e enc op ⟨acc, .dirChain p⟩ := by
  obtain ⟨bn, hbc, _, hall, _, _, hpc, _⟩ := getObjectPath_shape e hr h
  refine ⟨noDots_under hr hpc (obj_ext_allNormal hall), fun q hq => ?_⟩
  exact allowedB hb (inBucket_of_prefix hbc (chain_inBucket hpc hq))

theorem L_objChainParent (hr : RootOk e.root) {b k p : Bytes} {acc : Acc} (hb : BucketAcc op b acc)
    (h : getObjectPath e b k = .ok p) : P e enc op ⟨acc, .dirChain (parentPath p)⟩ := by
  obtain ⟨bn, hbc, _, hall, hne, _, hpc, hpa⟩ := getObjectPath_shape e hr h
  have hext : AllNormal (.normal bn :: body k) := obj_ext_allNormal hall
  have hpp := components_parentPath hr hpc hext (by simp) hpa
  refine ⟨noDots_under hr hpp (allNormal_dropLast hext), fun q hq => ?_⟩
  rw [List.dropLast_cons_of_ne_nil hne] at hpp
  exact allowedB hb (inBucket_of_prefix hbc (chain_inBucket hpp hq))

theorem L_name (hr : RootOk e.root) {n p : Bytes} {acc : Acc} (hg : Good n ∧ n.head? = some 46)
    (ho : OwnName enc op acc n) (h : resolveAbsPath e n = .ok p) : P e enc op ⟨acc, .path p⟩ := by
  have hs := (resolve_good_shape e hr hg.1 h).1
  refine ⟨noDots_under hr hs (allNormal_map [n]), fun q hq => ?_⟩
  rw [covers_path hq, hs]
  exact .inr (.inr (.inl ⟨n, ho, hg.2, rfl⟩))

theorem L_nameChainParent (hr : RootOk e.root) {n p : Bytes} {acc : Acc} (hg : Good n ∧ n.head? = some 46)
    (h : resolveAbsPath e n = .ok p) : P e enc op ⟨acc, .dirChain (parentPath p)⟩ := by
  obtain ⟨hc, ha⟩ := resolve_good_shape e hr hg.1 h
  have hpp := components_parentPath hr hc (allNormal_map [n]) (by simp) ha
  refine ⟨noDots_under hr hpp (allNormal_dropLast (allNormal_map [n])), fun q hq => ?_⟩
  exact (chain_root_empty (by simpa using hpp) hq).elim

theorem L_rootList (hr : RootOk e.root) (h : listsRoot op = true) : P e enc op ⟨.list, .path e.root⟩ := by
  refine ⟨noDots_root hr, fun q hq => ?_⟩
  rw [covers_path hq]
  exact .inr (.inr (.inr (.inl ⟨h, rfl, rfl⟩)))

theorem L_children_buckets (hr : RootOk e.root) :
    P e enc .listBuckets ⟨.read, .childrenPrefixed e.root []⟩ := by
  refine ⟨noDots_root hr, fun q hq => ?_⟩
  obtain ⟨name, _, hqn⟩ := covers_children hq
  exact .inr (.inr (.inr (.inr ⟨rfl, rfl, name, hqn⟩)))

theorem head_of_prefix {pre n : Bytes} {c : UInt8} (hp : pre.head? = some c) (h : pre <+: n) : n.head? = some c := by
  obtain ⟨t, rfl⟩ := h
  cases pre with
  | nil => cases hp
  | cons a r => simpa using hp

theorem L_children_parts (hr : RootOk e.root) {x : Bytes} {acc : Acc}
    (ho : ∀ n, uploadPartPrefix x <+: n → OwnName enc op acc n) :
    P e enc op ⟨acc, .childrenPrefixed e.root (uploadPartPrefix x)⟩ := by
  refine ⟨noDots_root hr, fun q hq => ?_⟩
  obtain ⟨name, hpre, hqn⟩ := covers_children hq
  exact .inr (.inr (.inl ⟨name, ho name hpre, head_of_prefix (by simp [uploadPartPrefix, sUploadId]) hpre, hqn⟩))

/-! ## plumbing for `withPath` chains -/

theorem forall_withPath {Q : Touch → Prop} {r : Except Err Bytes} {sofar : List Touch} {k : Bytes → Plan}
    (h1 : ∀ t ∈ sofar, Q t) (h2 : ∀ p, r = .ok p → ∀ t ∈ (k p).touches, Q t) :
    ∀ t ∈ (withPath r sofar k).touches, Q t := by
  cases r with
  | error x => simpa [withPath, Plan.fail] using h1
  | ok p => simpa [withPath] using h2 p rfl

theorem forall_ok {Q : Touch → Prop} {l : List Touch} (h : ∀ t ∈ l, Q t) : ∀ t ∈ (Plan.ok l).touches, Q t := h
theorem forall_fail {Q : Touch → Prop} {l : List Touch} {x : Err} (h : ∀ t ∈ l, Q t) :
    ∀ t ∈ (Plan.fail l x).touches, Q t := h

theorem forall_nil {Q : Touch → Prop} : ∀ t ∈ ([] : List Touch), Q t := by simp
theorem forall_cons {Q : Touch → Prop} {a : Touch} {l : List Touch} (h1 : Q a) (h2 : ∀ t ∈ l, Q t) :
    ∀ t ∈ a :: l, Q t := by
  intro t ht
  rcases List.mem_cons.mp ht with rfl | ht
  · exact h1
  · exact h2 t ht
theorem forall_append {Q : Touch → Prop} {l1 l2 : List Touch} (h1 : ∀ t ∈ l1, Q t) (h2 : ∀ t ∈ l2, Q t) :
    ∀ t ∈ l1 ++ l2, Q t := by
  intro t ht
  rcases List.mem_append.mp ht with ht | ht
  · exact h1 t ht
  · exact h2 t ht

theorem forall_verifyUpload {Q : Touch → Prop} {u b key : Bytes} {sofar : List Touch} {k : List Touch → Plan}
    (h1 : ∀ t ∈ sofar, Q t)
    (h2 : ∀ info, uploadInfoPath e u = .ok info → Q (rd info) ∧ ∀ t ∈ (k (sofar ++ [rd info])).touches, Q t) :
    ∀ t ∈ (verifyUpload e u b key sofar k).touches, Q t := by
  refine forall_withPath h1 fun info hinfo => ?_
  by_cases ha : (e.uploadRec u).allows b key = true
  · simp only [if_pos ha]; exact (h2 info hinfo).2
  · simp only [if_neg ha]
    exact forall_fail (forall_append h1 (forall_cons (h2 info hinfo).1 forall_nil))

/-- split a goal `∀ t ∈ <explicit list>, Q t` into one goal per element -/
macro "touch_list" : tactic =>
  `(tactic| (simp only [Plan.ok, Plan.fail, rd, wr, cr, rm, List.forall_mem_cons, List.forall_mem_append,
      List.not_mem_nil, false_imp_iff, implies_true, and_true, true_and]; repeat' apply And.intro))

theorem forall_fileWrite {Q : Touch → Prop} {tmp dest par : Bytes}
    (h1 : ∀ acc, Q ⟨acc, .path tmp⟩) (h2 : Q ⟨.create, .dirChain par⟩) (h3 : ∀ acc, Q ⟨acc, .path dest⟩) :
    ∀ t ∈ fileWrite tmp dest par, Q t := by
  unfold fileWrite cr wr rm
  touch_list
  · exact h1 _
  · exact h1 _
  · exact h1 _
  · exact h2
  · exact h3 _
  · exact h3 _

/-! ## the operations -/

theorem bw {b : Bytes} {acc : Acc} (h : b ∈ writeBuckets op) : BucketAcc op b acc := .inl h
theorem brd {b : Bytes} (h : b ∈ readBuckets op) : BucketAcc op b .read := .inr ⟨h, .inl rfl⟩
theorem bls {b : Bytes} (h : b ∈ readBuckets op) : BucketAcc op b .list := .inr ⟨h, .inr rfl⟩

section ops
set_option linter.unusedSectionVars false
variable (e) (enc) (hr : RootOk e.root) (he : EncNoSlash enc)
include hr he

theorem plan_createBucket (b : Bytes) : ∀ t ∈ (plan e enc (.createBucket b)).touches, P e enc (.createBucket b) t := by
  simp only [plan]
  refine forall_withPath forall_nil fun p hp => ?_
  have h1 : ∀ acc, P e enc (.createBucket b) ⟨acc, .path p⟩ := fun _ => L_bucket hr (bw (by simp [writeBuckets])) hp
  touch_list <;> solve_by_elim

theorem plan_deleteBucket (b : Bytes) : ∀ t ∈ (plan e enc (.deleteBucket b)).touches, P e enc (.deleteBucket b) t := by
  simp only [plan]
  refine forall_withPath forall_nil fun p hp => ?_
  have h1 : ∀ acc, P e enc (.deleteBucket b) ⟨acc, .path p⟩ := fun _ => L_bucket hr (bw (by simp [writeBuckets])) hp
  have h2 : ∀ acc, P e enc (.deleteBucket b) ⟨acc, .subtree p⟩ :=
    fun _ => L_bucket_sub hr (bw (by simp [writeBuckets])) hp
  touch_list <;> solve_by_elim

theorem plan_headBucket (b : Bytes) : ∀ t ∈ (plan e enc (.headBucket b)).touches, P e enc (.headBucket b) t := by
  simp only [plan]
  refine forall_withPath forall_nil fun p hp => ?_
  have h1 : P e enc (.headBucket b) ⟨.read, .path p⟩ := L_bucket hr (brd (by simp [readBuckets])) hp
  touch_list <;> solve_by_elim

theorem plan_getBucketLocation (b : Bytes) :
    ∀ t ∈ (plan e enc (.getBucketLocation b)).touches, P e enc (.getBucketLocation b) t := by
  simp only [plan]
  refine forall_withPath forall_nil fun p hp => ?_
  have h1 : P e enc (.getBucketLocation b) ⟨.read, .path p⟩ := L_bucket hr (brd (by simp [readBuckets])) hp
  touch_list <;> solve_by_elim

theorem plan_listBuckets : ∀ t ∈ (plan e enc .listBuckets).touches, P e enc .listBuckets t := by
  simp only [plan]
  have h1 : P e enc .listBuckets ⟨.list, .path e.root⟩ := L_rootList hr rfl
  have h2 : P e enc .listBuckets ⟨.read, .childrenPrefixed e.root []⟩ := L_children_buckets hr
  touch_list <;> solve_by_elim

theorem plan_listObjects (b : Bytes) : ∀ t ∈ (plan e enc (.listObjects b)).touches, P e enc (.listObjects b) t := by
  simp only [plan]
  refine forall_withPath forall_nil fun p hp => ?_
  have h1 : P e enc (.listObjects b) ⟨.read, .path p⟩ := L_bucket hr (brd (by simp [readBuckets])) hp
  have h2 : P e enc (.listObjects b) ⟨.list, .subtree p⟩ := L_bucket_sub hr (bls (by simp [readBuckets])) hp
  have h3 : P e enc (.listObjects b) ⟨.read, .subtree p⟩ := L_bucket_sub hr (brd (by simp [readBuckets])) hp
  touch_list <;> solve_by_elim

theorem plan_listObjectsV2 (b : Bytes) :
    ∀ t ∈ (plan e enc (.listObjectsV2 b)).touches, P e enc (.listObjectsV2 b) t := by
  simp only [plan]
  refine forall_withPath forall_nil fun p hp => ?_
  have h1 : P e enc (.listObjectsV2 b) ⟨.read, .path p⟩ := L_bucket hr (brd (by simp [readBuckets])) hp
  have h2 : P e enc (.listObjectsV2 b) ⟨.list, .subtree p⟩ := L_bucket_sub hr (bls (by simp [readBuckets])) hp
  have h3 : P e enc (.listObjectsV2 b) ⟨.read, .subtree p⟩ := L_bucket_sub hr (brd (by simp [readBuckets])) hp
  touch_list <;> solve_by_elim

theorem plan_getObject (b k : Bytes) : ∀ t ∈ (plan e enc (.getObject b k)).touches, P e enc (.getObject b k) t := by
  simp only [plan]
  refine forall_withPath forall_nil fun p hp => ?_
  have h1 : P e enc (.getObject b k) ⟨.read, .path p⟩ := L_obj hr (brd (by simp [readBuckets])) hp
  refine forall_withPath (by touch_list <;> solve_by_elim) fun bp hbp => ?_
  have h0 : P e enc (.getObject b k) ⟨.read, .path bp⟩ := L_bucket hr (brd (by simp [readBuckets])) hbp
  refine forall_withPath (by touch_list <;> solve_by_elim) fun m hm => ?_
  have h2 : P e enc (.getObject b k) ⟨.read, .path m⟩ :=
    L_name hr (good_metadataName he b k (by simp)) ⟨rfl, .inl rfl⟩ hm
  refine forall_withPath (by touch_list <;> solve_by_elim) fun i hi => ?_
  have h3 : P e enc (.getObject b k) ⟨.read, .path i⟩ :=
    L_name hr (good_internalInfoName he b k) ⟨rfl, .inr rfl⟩ hi
  touch_list <;> solve_by_elim

theorem plan_headObject (b k : Bytes) : ∀ t ∈ (plan e enc (.headObject b k)).touches, P e enc (.headObject b k) t := by
  simp only [plan]
  refine forall_withPath forall_nil fun p hp => ?_
  have h1 : P e enc (.headObject b k) ⟨.read, .path p⟩ := L_obj hr (brd (by simp [readBuckets])) hp
  refine forall_withPath (by touch_list <;> solve_by_elim) fun bp hbp => ?_
  have h0 : P e enc (.headObject b k) ⟨.read, .path bp⟩ := L_bucket hr (brd (by simp [readBuckets])) hbp
  refine forall_withPath (by touch_list <;> solve_by_elim) fun m hm => ?_
  have h2 : P e enc (.headObject b k) ⟨.read, .path m⟩ :=
    L_name hr (good_metadataName he b k (by simp)) ⟨rfl, rfl⟩ hm
  touch_list <;> solve_by_elim

theorem plan_deleteObject (b k : Bytes) :
    ∀ t ∈ (plan e enc (.deleteObject b k)).touches, P e enc (.deleteObject b k) t := by
  simp only [plan]
  refine forall_withPath forall_nil fun p hp => ?_
  have h1 : ∀ acc, P e enc (.deleteObject b k) ⟨acc, .path p⟩ := fun _ => L_obj hr (bw (by simp [writeBuckets])) hp
  refine forall_withPath (by touch_list <;> solve_by_elim) fun bp hbp => ?_
  have h2 : P e enc (.deleteObject b k) ⟨.read, .path bp⟩ := L_bucket hr (bw (by simp [writeBuckets])) hbp
  touch_list <;> solve_by_elim

theorem deleteObjectsPlan_allowed (op : Op) (b : Bytes) (hb : b ∈ writeBuckets op) (ks : List Bytes) :
    ∀ (paths : List Bytes), (∀ p ∈ paths, ∀ a, P e enc op ⟨a, .path p⟩) →
      ∀ t ∈ (deleteObjectsPlan e b ks paths).touches, P e enc op t := by
  induction ks with
  | nil =>
    intro paths hp
    simp only [deleteObjectsPlan]
    refine forall_withPath forall_nil fun bp hbp => ?_
    have h0 : P e enc op ⟨.read, .path bp⟩ := L_bucket hr (bw hb) hbp
    refine forall_cons h0 ?_
    intro t ht
    obtain ⟨p, hpm, ht⟩ := List.mem_flatMap.mp ht
    simp only [rd, rm, List.mem_cons, List.not_mem_nil, or_false] at ht
    rcases ht with rfl | rfl <;> exact hp p hpm _
  | cons k rest ih =>
    intro paths hp
    simp only [deleteObjectsPlan]
    refine forall_withPath forall_nil fun p hpk => ?_
    have h1 : ∀ a, P e enc op ⟨a, .path p⟩ := fun _ => L_obj hr (bw hb) hpk
    refine ih _ ?_
    intro p' hp' a
    rcases List.mem_append.mp hp' with h | h
    · exact hp p' h a
    · simp at h; subst h; exact h1 a

theorem plan_deleteObjects (b : Bytes) (ks : List Bytes) :
    ∀ t ∈ (plan e enc (.deleteObjects b ks)).touches, P e enc (.deleteObjects b ks) t := by
  simp only [plan]
  exact deleteObjectsPlan_allowed e enc hr he _ b (by simp [writeBuckets]) ks [] (by simp)

theorem plan_copyObject (ap : Bool) (sb sk b k : Bytes) :
    ∀ t ∈ (plan e enc (.copyObject ap sb sk b k)).touches, P e enc (.copyObject ap sb sk b k) t := by
  simp only [plan]
  split
  · exact forall_nil
  refine forall_withPath forall_nil fun src hsrc => ?_
  refine forall_withPath forall_nil fun dst hdst => ?_
  have h1 : P e enc (.copyObject ap sb sk b k) ⟨.read, .path src⟩ := L_obj hr (brd (by simp [readBuckets])) hsrc
  refine forall_withPath (by touch_list <;> solve_by_elim) fun sbp hsbp => ?_
  have h0 : P e enc (.copyObject ap sb sk b k) ⟨.read, .path sbp⟩ := L_bucket hr (brd (by simp [readBuckets])) hsbp
  refine forall_withPath (by touch_list <;> solve_by_elim) fun bp hbp => ?_
  have h2 : ∀ acc, P e enc (.copyObject ap sb sk b k) ⟨acc, .path bp⟩ :=
    fun _ => L_bucket hr (bw (by simp [writeBuckets])) hbp
  have h3 : ∀ acc, P e enc (.copyObject ap sb sk b k) ⟨acc, .path dst⟩ :=
    fun _ => L_obj hr (bw (by simp [writeBuckets])) hdst
  have h4 : P e enc (.copyObject ap sb sk b k) ⟨.create, .dirChain (parentPath dst)⟩ :=
    L_objChainParent hr (bw (by simp [writeBuckets])) hdst
  refine forall_withPath (by touch_list <;> solve_by_elim) fun sm hsm => ?_
  have h5 : P e enc (.copyObject ap sb sk b k) ⟨.read, .path sm⟩ :=
    L_name hr (good_metadataName he sb sk (by simp)) (.inl ⟨rfl, .inl rfl⟩) hsm
  refine forall_withPath (by touch_list <;> solve_by_elim) fun dm hdm => ?_
  have h6 : ∀ acc, P e enc (.copyObject ap sb sk b k) ⟨acc, .path dm⟩ :=
    fun _ => L_name hr (good_metadataName he b k (by simp)) (.inr (.inl rfl)) hdm
  refine forall_withPath (by touch_list <;> solve_by_elim) fun si hsi => ?_
  have h7 : P e enc (.copyObject ap sb sk b k) ⟨.read, .path si⟩ :=
    L_name hr (good_internalInfoName he sb sk) (.inl ⟨rfl, .inr rfl⟩) hsi
  refine forall_withPath (by touch_list <;> solve_by_elim) fun di hdi => ?_
  have h8 : ∀ acc, P e enc (.copyObject ap sb sk b k) ⟨acc, .path di⟩ :=
    fun _ => L_name hr (good_internalInfoName he b k) (.inr (.inr rfl)) hdi
  touch_list <;> solve_by_elim

theorem plan_putObject (b k : Bytes) (hasBody hasMeta scOk lenPos : Bool) (c : Nat) :
    ∀ t ∈ (plan e enc (.putObject b k hasBody hasMeta scOk lenPos c)).touches,
      P e enc (.putObject b k hasBody hasMeta scOk lenPos c) t := by
  simp only [plan]
  split
  · exact forall_nil
  split
  · exact forall_nil
  refine forall_withPath forall_nil fun bp hbp => ?_
  have h0 : ∀ acc, P e enc (.putObject b k hasBody hasMeta scOk lenPos c) ⟨acc, .path bp⟩ :=
    fun _ => L_bucket hr (bw (by simp [writeBuckets])) hbp
  have hp0 : ∀ t ∈ [rd bp], P e enc (.putObject b k hasBody hasMeta scOk lenPos c) t :=
    forall_cons (h0 _) forall_nil
  split
  · split
    · exact hp0
    · refine forall_withPath hp0 fun p hp => ?_
      have h1 : P e enc (.putObject b k hasBody hasMeta scOk lenPos c) ⟨.create, .dirChain p⟩ :=
        L_objChain hr (bw (by simp [writeBuckets])) hp
      exact forall_append hp0 (forall_cons h1 forall_nil)
  · refine forall_withPath hp0 fun p hp => ?_
    refine forall_withPath hp0 fun tmp htmp => ?_
    have h1 : ∀ acc, P e enc (.putObject b k hasBody hasMeta scOk lenPos c) ⟨acc, .path p⟩ :=
      fun _ => L_obj hr (bw (by simp [writeBuckets])) hp
    have h2 : P e enc (.putObject b k hasBody hasMeta scOk lenPos c) ⟨.create, .dirChain (parentPath p)⟩ :=
      L_objChainParent hr (bw (by simp [writeBuckets])) hp
    have h3 : ∀ acc, P e enc (.putObject b k hasBody hasMeta scOk lenPos c) ⟨acc, .path tmp⟩ :=
      fun _ => L_name hr (good_tmpName c) (.inr (.inr rfl)) htmp
    have hfw : ∀ t ∈ [rd bp] ++ fileWrite tmp p (parentPath p),
        P e enc (.putObject b k hasBody hasMeta scOk lenPos c) t :=
      forall_append hp0 (forall_fileWrite h3 h2 h1)
    refine forall_withPath hfw fun m hm => ?_
    have h4 : ∀ acc, P e enc (.putObject b k hasBody hasMeta scOk lenPos c) ⟨acc, .path m⟩ :=
      fun _ => L_name hr (good_metadataName he b k (by simp)) (.inl rfl) hm
    split
    · have hpre : ∀ t ∈ [rd bp] ++ fileWrite tmp p (parentPath p) ++ [cr m, wr m],
          P e enc (.putObject b k hasBody hasMeta scOk lenPos c) t :=
        forall_append hfw (forall_cons (h4 _) (forall_cons (h4 _) forall_nil))
      refine forall_withPath hpre fun i hi => ?_
      have h5 : ∀ acc, P e enc (.putObject b k hasBody hasMeta scOk lenPos c) ⟨acc, .path i⟩ :=
        fun _ => L_name hr (good_internalInfoName he b k) (.inr (.inl rfl)) hi
      exact forall_append hpre (forall_cons (h5 _) (forall_cons (h5 _) forall_nil))
    · have hpre : ∀ t ∈ [rd bp] ++ fileWrite tmp p (parentPath p) ++ [rd m, rm m],
          P e enc (.putObject b k hasBody hasMeta scOk lenPos c) t :=
        forall_append hfw (forall_cons (h4 _) (forall_cons (h4 _) forall_nil))
      refine forall_withPath hpre fun i hi => ?_
      have h5 : ∀ acc, P e enc (.putObject b k hasBody hasMeta scOk lenPos c) ⟨acc, .path i⟩ :=
        fun _ => L_name hr (good_internalInfoName he b k) (.inr (.inl rfl)) hi
      exact forall_append hpre (forall_cons (h5 _) (forall_cons (h5 _) forall_nil))

theorem plan_createMultipartUpload (b k : Bytes) (hasMeta : Bool) (u : Bytes) (hu : (47 : UInt8) ∉ u) :
    ∀ t ∈ (plan e enc (.createMultipartUpload b k hasMeta u)).touches,
      P e enc (.createMultipartUpload b k hasMeta u) t := by
  simp only [plan]
  refine forall_withPath forall_nil fun _ _ => ?_
  refine forall_withPath forall_nil fun bp hbp => ?_
  have h0 : P e enc (.createMultipartUpload b k hasMeta u) ⟨.read, .path bp⟩ :=
    L_bucket hr (brd (by simp [readBuckets])) hbp
  have hp0 : ∀ t ∈ [rd bp], P e enc (.createMultipartUpload b k hasMeta u) t := forall_cons h0 forall_nil
  refine forall_withPath hp0 fun info hinfo => ?_
  have h1 : ∀ acc, P e enc (.createMultipartUpload b k hasMeta u) ⟨acc, .path info⟩ :=
    fun _ => L_name hr (good_uploadInfoName hu) (.inl rfl) hinfo
  have hp1 : ∀ t ∈ [rd bp] ++ [cr info, wr info], P e enc (.createMultipartUpload b k hasMeta u) t :=
    forall_append hp0 (forall_cons (h1 _) (forall_cons (h1 _) forall_nil))
  split
  · refine forall_withPath hp1 fun m hm => ?_
    have h2 : ∀ acc, P e enc (.createMultipartUpload b k hasMeta u) ⟨acc, .path m⟩ :=
      fun _ => L_name hr (good_metadataName he b k (by intro x hx; cases hx; exact hu)) (.inr rfl) hm
    exact forall_append hp1 (forall_cons (h2 _) (forall_cons (h2 _) forall_nil))
  · exact hp1

theorem plan_uploadPart (b k uid : Bytes) (part : Int) (hasBody : Bool) (c : Nat) :
    ∀ t ∈ (plan e enc (.uploadPart b k uid part hasBody c)).touches,
      P e enc (.uploadPart b k uid part hasBody c) t := by
  simp only [plan]
  split
  · exact forall_nil
  split
  · exact forall_nil
  cases hpu : parseUuid uid with
  | none => exact forall_nil
  | some u =>
    have hu := parseUuid_noSlash hpu
    refine forall_verifyUpload forall_nil fun info hinfo => ?_
    have h1 : P e enc (.uploadPart b k uid part hasBody c) ⟨.read, .path info⟩ :=
      L_name hr (good_uploadInfoName hu) ⟨u, hpu, .inl ⟨rfl, rfl⟩⟩ hinfo
    refine ⟨h1, ?_⟩
    have hpre : ∀ t ∈ ([] : List Touch) ++ [rd info], P e enc (.uploadPart b k uid part hasBody c) t := by
      touch_list <;> solve_by_elim
    refine forall_withPath hpre fun pp hpp => ?_
    refine forall_withPath hpre fun tmp htmp => ?_
    have h2 : ∀ acc, P e enc (.uploadPart b k uid part hasBody c) ⟨acc, .path pp⟩ :=
      fun _ => L_name hr (good_uploadPartName hu part) ⟨u, hpu, .inr (.inl rfl)⟩ hpp
    have h3 : ∀ acc, P e enc (.uploadPart b k uid part hasBody c) ⟨acc, .path tmp⟩ :=
      fun _ => L_name hr (good_tmpName c) ⟨u, hpu, .inr (.inr rfl)⟩ htmp
    have h4 : P e enc (.uploadPart b k uid part hasBody c) ⟨.create, .dirChain (parentPath pp)⟩ :=
      L_nameChainParent hr (good_uploadPartName hu part) hpp
    exact forall_append hpre (forall_fileWrite h3 h4 h2)

theorem plan_uploadPartCopy (ap : Bool) (sb sk b k uid : Bytes) (part : Int) (c : Nat) :
    ∀ t ∈ (plan e enc (.uploadPartCopy ap sb sk b k uid part c)).touches,
      P e enc (.uploadPartCopy ap sb sk b k uid part c) t := by
  simp only [plan]
  split
  · exact forall_nil
  cases hpu : parseUuid uid with
  | none => exact forall_nil
  | some u =>
    have hu := parseUuid_noSlash hpu
    refine forall_verifyUpload forall_nil fun info hinfo => ?_
    have h1 : P e enc (.uploadPartCopy ap sb sk b k uid part c) ⟨.read, .path info⟩ :=
      L_name hr (good_uploadInfoName hu) ⟨u, hpu, .inl ⟨rfl, rfl⟩⟩ hinfo
    refine ⟨h1, ?_⟩
    have hpre : ∀ t ∈ ([] : List Touch) ++ [rd info], P e enc (.uploadPartCopy ap sb sk b k uid part c) t := by
      touch_list <;> solve_by_elim
    split
    · exact hpre
    refine forall_withPath hpre fun src hsrc => ?_
    refine forall_withPath hpre fun pp hpp => ?_
    have h5 : P e enc (.uploadPartCopy ap sb sk b k uid part c) ⟨.read, .path src⟩ :=
      L_obj hr (brd (by simp [readBuckets])) hsrc
    have hpre1 : ∀ t ∈ ([] : List Touch) ++ [rd info] ++ [rd src],
        P e enc (.uploadPartCopy ap sb sk b k uid part c) t :=
      forall_append hpre (by touch_list <;> solve_by_elim)
    refine forall_withPath hpre1 fun sbp hsbp => ?_
    have h6 : P e enc (.uploadPartCopy ap sb sk b k uid part c) ⟨.read, .path sbp⟩ :=
      L_bucket hr (brd (by simp [readBuckets])) hsbp
    have hpre2 : ∀ t ∈ ([] : List Touch) ++ [rd info] ++ [rd src] ++ [rd sbp],
        P e enc (.uploadPartCopy ap sb sk b k uid part c) t :=
      forall_append hpre1 (by touch_list <;> solve_by_elim)
    refine forall_withPath hpre2 fun tmp htmp => ?_
    have h2 : ∀ acc, P e enc (.uploadPartCopy ap sb sk b k uid part c) ⟨acc, .path pp⟩ :=
      fun _ => L_name hr (good_uploadPartName hu part) ⟨u, hpu, .inr (.inl rfl)⟩ hpp
    have h3 : ∀ acc, P e enc (.uploadPartCopy ap sb sk b k uid part c) ⟨acc, .path tmp⟩ :=
      fun _ => L_name hr (good_tmpName c) ⟨u, hpu, .inr (.inr rfl)⟩ htmp
    have h4 : P e enc (.uploadPartCopy ap sb sk b k uid part c) ⟨.create, .dirChain (parentPath pp)⟩ :=
      L_nameChainParent hr (good_uploadPartName hu part) hpp
    exact forall_append hpre2 (forall_fileWrite h3 h4 h2)

theorem plan_listParts (b k uid : Bytes) :
    ∀ t ∈ (plan e enc (.listParts b k uid)).touches, P e enc (.listParts b k uid) t := by
  simp only [plan]
  cases hpu : parseUuid uid with
  | none => exact forall_nil
  | some u =>
    have hu := parseUuid_noSlash hpu
    refine forall_verifyUpload forall_nil fun info hinfo => ?_
    have h0 : P e enc (.listParts b k uid) ⟨.read, .path info⟩ :=
      L_name hr (good_uploadInfoName hu) ⟨u, hpu, rfl, .inl rfl⟩ hinfo
    refine ⟨h0, ?_⟩
    have h1 : P e enc (.listParts b k uid) ⟨.list, .path e.root⟩ := L_rootList hr rfl
    have h2 : P e enc (.listParts b k uid) ⟨.read, .childrenPrefixed e.root (uploadPartPrefix u)⟩ :=
      L_children_parts hr fun n h => ⟨u, hpu, rfl, .inr h⟩
    touch_list <;> solve_by_elim

theorem completeCheck_allowed {Q : Touch → Prop} (u : Bytes) (ps : List Int) :
    (∀ n ∈ ps, ∀ pp, uploadPartPath e u n = .ok pp → ∀ a, Q ⟨a, .path pp⟩) →
    ∀ (acc : List Touch) (pps : List Bytes), (∀ t ∈ acc, Q t) → (∀ pp ∈ pps, ∀ a, Q ⟨a, .path pp⟩) →
      (∀ pl, completeCheck e u ps acc pps = .error pl → ∀ t ∈ pl.touches, Q t) ∧
      (∀ t2 pps', completeCheck e u ps acc pps = .ok (t2, pps') →
        (∀ t ∈ t2, Q t) ∧ ∀ pp ∈ pps', ∀ a, Q ⟨a, .path pp⟩) := by
  induction ps with
  | nil =>
    intro _ acc pps ha hpps
    refine ⟨fun pl h => ?_, fun t2 pps' h => ?_⟩
    · simp [completeCheck] at h
    · simp only [completeCheck, Except.ok.injEq, Prod.mk.injEq] at h
      obtain ⟨rfl, rfl⟩ := h
      exact ⟨ha, hpps⟩
  | cons n rest ih =>
    intro hp acc pps ha hpps
    simp only [completeCheck]
    cases hpp : uploadPartPath e u n with
    | error x =>
      refine ⟨fun pl h => ?_, fun _ _ h => by cases h⟩
      cases h
      exact ha
    | ok pp =>
      have hq := hp n (by simp) pp hpp
      refine ih (fun m hm => hp m (List.mem_cons_of_mem _ hm)) _ _
        (forall_append ha (forall_cons (hq _) forall_nil)) ?_
      intro pp' hpp' a
      rcases List.mem_append.mp hpp' with h | h
      · exact hpps pp' h a
      · simp at h; subst h; exact hq a

theorem forall_map_path {Q : Touch → Prop} {pps : List Bytes} (f : Bytes → Touch) (a : Acc) (hf : ∀ p, f p = ⟨a, .path p⟩)
    (h : ∀ pp ∈ pps, ∀ a, Q ⟨a, .path pp⟩) : ∀ t ∈ pps.map f, Q t := by
  intro t ht
  obtain ⟨pp, hpp, rfl⟩ := List.mem_map.mp ht
  rw [hf]
  exact h pp hpp a

theorem plan_completeMultipartUpload (b k uid : Bytes) (parts : Option (List Int)) (c : Nat) :
    ∀ t ∈ (plan e enc (.completeMultipartUpload b k uid parts c)).touches,
      P e enc (.completeMultipartUpload b k uid parts c) t := by
  simp only [plan]
  cases parts with
  | none => exact forall_nil
  | some ps =>
    by_cases hemp : ps.isEmpty = true
    · simp only [hemp, if_true]; exact forall_nil
    simp only [hemp, Bool.false_eq_true, if_false]
    cases hpu : parseUuid uid with
    | none => exact forall_nil
    | some u =>
      have hu := parseUuid_noSlash hpu
      refine forall_verifyUpload forall_nil fun info hinfo => ?_
      have h1 : ∀ acc, P e enc (.completeMultipartUpload b k uid (some ps) c) ⟨acc, .path info⟩ :=
        fun _ => L_name hr (good_uploadInfoName hu) ⟨u, hpu, .inl rfl⟩ hinfo
      refine ⟨h1 _, ?_⟩
      have hp1 : ∀ t ∈ ([] : List Touch) ++ [rd info], P e enc (.completeMultipartUpload b k uid (some ps) c) t := by
        touch_list <;> solve_by_elim
      refine forall_withPath hp1 fun p hp => ?_
      have h5 : ∀ acc, P e enc (.completeMultipartUpload b k uid (some ps) c) ⟨acc, .path p⟩ :=
        fun _ => L_obj hr (bw (by simp [writeBuckets])) hp
      have h6 : P e enc (.completeMultipartUpload b k uid (some ps) c) ⟨.create, .dirChain (parentPath p)⟩ :=
        L_objChainParent hr (bw (by simp [writeBuckets])) hp
      have hparts : ∀ n ∈ ps, ∀ pp, uploadPartPath e u n = .ok pp →
          ∀ a, P e enc (.completeMultipartUpload b k uid (some ps) c) ⟨a, .path pp⟩ := by
        intro n hn pp hpp a
        exact L_name hr (good_uploadPartName hu n)
          ⟨u, hpu, .inr (.inr (.inr (.inr (.inr ⟨n, by simpa using hn, rfl⟩))))⟩ hpp
      by_cases hoo : outOfOrder ps = true
      · simp only [hoo, if_true]; exact hp1
      simp only [hoo, Bool.false_eq_true, if_false]
      have hchk := completeCheck_allowed e enc hr he u ps hparts _ [] hp1 (by simp)
      cases hcc : completeCheck e u ps (([] : List Touch) ++ [rd info]) [] with
      | error pl => exact hchk.1 pl hcc
      | ok r =>
        obtain ⟨t2, pps⟩ := r
        obtain ⟨ht2, hpps⟩ := hchk.2 t2 pps hcc
        simp only
        refine forall_withPath ht2 fun tmp htmp => ?_
        have h4 : ∀ acc, P e enc (.completeMultipartUpload b k uid (some ps) c) ⟨acc, .path tmp⟩ :=
          fun _ => L_name hr (good_tmpName c) ⟨u, hpu, .inr (.inr (.inr (.inr (.inl rfl))))⟩ htmp
        have hp3 : ∀ t ∈ t2 ++ [cr tmp, wr tmp] ++ pps.map rd ++
            [rm tmp, ⟨.create, .dirChain (parentPath p)⟩, cr p, wr p],
            P e enc (.completeMultipartUpload b k uid (some ps) c) t :=
          forall_append (forall_append (forall_append ht2 (by touch_list <;> solve_by_elim))
            (forall_map_path e enc hr he rd .read (fun _ => rfl) hpps)) (by touch_list <;> solve_by_elim)
        refine forall_withPath hp3 fun um hum => ?_
        have h2 : ∀ acc, P e enc (.completeMultipartUpload b k uid (some ps) c) ⟨acc, .path um⟩ :=
          fun _ => L_name hr (good_metadataName he b k (by intro x hx; cases hx; exact hu))
            ⟨u, hpu, .inr (.inl rfl)⟩ hum
        have hp4 := forall_append hp3 (show ∀ t ∈ [rd um], P e enc (.completeMultipartUpload b k uid (some ps) c) t by
          touch_list <;> solve_by_elim)
        refine forall_withPath hp4 fun m hm => ?_
        have h3 : ∀ acc, P e enc (.completeMultipartUpload b k uid (some ps) c) ⟨acc, .path m⟩ :=
          fun _ => L_name hr (good_metadataName he b k (by simp)) ⟨u, hpu, .inr (.inr (.inl rfl))⟩ hm
        have hp5 := forall_append hp4
          (show ∀ t ∈ [rd m, cr m, wr m, rm m, rm um], P e enc (.completeMultipartUpload b k uid (some ps) c) t by
            touch_list <;> solve_by_elim)
        refine forall_withPath hp5 fun i hi => ?_
        have h7 : ∀ acc, P e enc (.completeMultipartUpload b k uid (some ps) c) ⟨acc, .path i⟩ :=
          fun _ => L_name hr (good_internalInfoName he b k) ⟨u, hpu, .inr (.inr (.inr (.inl rfl)))⟩ hi
        have hp6 := forall_append (forall_append hp5
          (show ∀ t ∈ [cr i, wr i], P e enc (.completeMultipartUpload b k uid (some ps) c) t by
            touch_list <;> solve_by_elim)) (forall_map_path e enc hr he rm .delete (fun _ => rfl) hpps)
        refine forall_withPath hp6 fun info' hinfo' => ?_
        have h1' : ∀ acc, P e enc (.completeMultipartUpload b k uid (some ps) c) ⟨acc, .path info'⟩ :=
          fun _ => L_name hr (good_uploadInfoName hu) ⟨u, hpu, .inl rfl⟩ hinfo'
        exact forall_append hp6 (by touch_list <;> solve_by_elim)

theorem plan_abortMultipartUpload (b k uid : Bytes) :
    ∀ t ∈ (plan e enc (.abortMultipartUpload b k uid)).touches, P e enc (.abortMultipartUpload b k uid) t := by
  simp only [plan]
  cases hpu : parseUuid uid with
  | none => exact forall_nil
  | some u =>
    have hu := parseUuid_noSlash hpu
    refine forall_verifyUpload forall_nil fun info hinfo => ?_
    have h1 : ∀ acc, P e enc (.abortMultipartUpload b k uid) ⟨acc, .path info⟩ :=
      fun _ => L_name hr (good_uploadInfoName hu) ⟨u, hpu, .inl rfl⟩ hinfo
    refine ⟨h1 _, ?_⟩
    have hp1 : ∀ t ∈ ([] : List Touch) ++ [rd info], P e enc (.abortMultipartUpload b k uid) t := by
      touch_list <;> solve_by_elim
    refine forall_withPath hp1 fun um hum => ?_
    have h2 : ∀ acc, P e enc (.abortMultipartUpload b k uid) ⟨acc, .path um⟩ :=
      fun _ => L_name hr (good_metadataName he b k (by intro x hx; cases hx; exact hu))
        ⟨u, hpu, .inr (.inl rfl)⟩ hum
    refine forall_withPath (forall_append hp1 (by touch_list <;> solve_by_elim)) fun info' hinfo' => ?_
    have h1' : ∀ acc, P e enc (.abortMultipartUpload b k uid) ⟨acc, .path info'⟩ :=
      fun _ => L_name hr (good_uploadInfoName hu) ⟨u, hpu, .inl rfl⟩ hinfo'
    have h3 : P e enc (.abortMultipartUpload b k uid) ⟨.list, .path e.root⟩ := L_rootList hr rfl
    have h4 : P e enc (.abortMultipartUpload b k uid) ⟨.delete, .childrenPrefixed e.root (uploadPartPrefix u)⟩ :=
      L_children_parts hr fun n h => ⟨u, hpu, .inr (.inr h)⟩
    exact forall_append hp1 (by touch_list <;> solve_by_elim)

/-- every entry of the may-touch table of every operation denotes only nodes the property allows -/
theorem plan_allowed (op : Op) (hop : OpOk op) : ∀ t ∈ (plan e enc op).touches, P e enc op t := by
  cases op with
  | createBucket b => exact plan_createBucket e enc hr he b
  | deleteBucket b => exact plan_deleteBucket e enc hr he b
  | headBucket b => exact plan_headBucket e enc hr he b
  | getBucketLocation b => exact plan_getBucketLocation e enc hr he b
  | listBuckets => exact plan_listBuckets e enc hr he
  | listObjects b => exact plan_listObjects e enc hr he b
  | listObjectsV2 b => exact plan_listObjectsV2 e enc hr he b
  | getObject b k => exact plan_getObject e enc hr he b k
  | headObject b k => exact plan_headObject e enc hr he b k
  | deleteObject b k => exact plan_deleteObject e enc hr he b k
  | deleteObjects b ks => exact plan_deleteObjects e enc hr he b ks
  | copyObject ap sb sk b k => exact plan_copyObject e enc hr he ap sb sk b k
  | putObject b k hb hm so lp c => exact plan_putObject e enc hr he b k hb hm so lp c
  | createMultipartUpload b k hm u => exact plan_createMultipartUpload e enc hr he b k hm u hop
  | uploadPart b k uid part hb c => exact plan_uploadPart e enc hr he b k uid part hb c
  | uploadPartCopy ap sb sk b k uid part c => exact plan_uploadPartCopy e enc hr he ap sb sk b k uid part c
  | listParts b k uid => exact plan_listParts e enc hr he b k uid
  | completeMultipartUpload b k uid parts c => exact plan_completeMultipartUpload e enc hr he b k uid parts c
  | abortMultipartUpload b k uid => exact plan_abortMultipartUpload e enc hr he b k uid

end ops

end S3V.FsPath
