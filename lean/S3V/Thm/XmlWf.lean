import S3V.Model.Xml
/-!
Well-formed schemas and well-typed values in normal form for the generic XML codec (C13).
-/
namespace S3V.Xml

def Flds.tags : Flds → List Bytes
  | .nil => []
  | .cons t _ _ _ r => t :: r.tags

def Vars.tags : Vars → List Bytes
  | .nil => []
  | .cons t _ r => t :: r.tags

/-- the names of the members that are child elements: the arms of the `match x { … }` of a struct deserialiser
(a member bound to an attribute has no arm) -/
def Flds.elemTags : Flds → List Bytes
  | .nil => []
  | .cons t _ sh _ r => (match sh with | .attr => [] | _ => [t]) ++ r.elemTags

/-- `xmlns`: the attribute `content_with_ns` writes in front of the attributes of a root -/
def xmlnsKey : Bytes := [120, 109, 108, 110, 115]

/-- an attribute name that quick-xml's attribute iterator reads back as it was written — not empty, no `=`, no white
space — and that is not the name of a namespace declaration written next to it (`xmlns:xsi`, `xmlns`) -/
def attrKeyOk (k : Bytes) : Bool :=
  !k.isEmpty && k.all (fun c => !(c = 61 || isWs c)) && k != xmlnsXsiKey && k != xmlnsKey

/-- pairwise distinct, as a Bool that reduces in the kernel -/
def distinct : List Bytes → Bool
  | [] => true
  | t :: r => !r.contains t && distinct r

mutual
  /-- the member tags of every struct and the variant tags of every union are pairwise distinct
  (otherwise the `match x { b"A" => …, b"A" => … }` of the deserialiser would shadow a member, or two members would
  be bound to one attribute), and the name of a member bound to an attribute is a plain attribute name -/
  def Sch.wf : Sch → Bool
    | .struct fs => distinct fs.tags && fs.wf
    | .union vs => distinct vs.tags && vs.wf
    | _ => true
  def Flds.wf : Flds → Bool
    | .nil => true
    | .cons t _ sh s r => s.wf && (r.wf && (match sh with | .attr => attrKeyOk t | _ => true))
  def Vars.wf : Vars → Bool
    | .nil => true
    | .cons _ s r => s.wf && r.wf
end

/-- well-formed schema -/
def WfSch (s : Sch) : Prop := s.wf = true

instance (s : Sch) : Decidable (WfSch s) := inferInstanceAs (Decidable (s.wf = true))

end S3V.Xml
