import S3V.Model.Xml
/-!
Well-formed schemas and well-typed values in normal form for the generic XML codec (C13).
-/
namespace S3V.Xml

def Flds.tags : Flds → List Bytes
  | .nil => []
  | .cons t _ _ _ r => t :: r.tags

def Vars.tags : Vars → List Bytes
  | .nil => []
  | .cons t _ r => t :: r.tags

/-- pairwise distinct, as a Bool that reduces in the kernel -/
def distinct : List Bytes → Bool
  | [] => true
  | t :: r => !r.contains t && distinct r

mutual
  /-- the member tags of every struct and the variant tags of every union are pairwise distinct
  (otherwise the `match x { b"A" => …, b"A" => … }` of the deserialiser would shadow a member) -/
  def Sch.wf : Sch → Bool
    | .struct fs => distinct fs.tags && fs.wf
    | .union vs => distinct vs.tags && vs.wf
    | _ => true
  def Flds.wf : Flds → Bool
    | .nil => true
    | .cons _ _ _ s r => s.wf && r.wf
  def Vars.wf : Vars → Bool
    | .nil => true
    | .cons _ s r => s.wf && r.wf
end

/-- well-formed schema -/
def WfSch (s : Sch) : Prop := s.wf = true

instance (s : Sch) : Decidable (WfSch s) := inferInstanceAs (Decidable (s.wf = true))

end S3V.Xml
