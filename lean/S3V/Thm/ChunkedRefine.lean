import S3V.Thm.Chunked
/-!
# Lemmas: header parser equality, fuel irrelevance, and the refinement of the chunk loop

`parseMeta_eq_parseHeader`: the nom parser of the model and the header grammar of the spec are the same
function. `run_refines`: for any fuel above the number of remaining bytes, the main loop of the model,
seen through the stream abstraction, is the reference decoder on the concatenated bytes.
-/
namespace S3V.Chunked
open S3V S3V.ChunkedSpec

/-! ## header -/

theorem drop_length_takeWhile {α} (p : α → Bool) (l : List α) :
    l.drop (l.takeWhile p).length = l.dropWhile p := by
  induction l with
  | nil => rfl
  | cons a l ih =>
    by_cases h : p a = true
    · simp [h, ih]
    · simp [h]

theorem hexDigit?_none {c : UInt8} (h : isHex c = false) : hexDigit? c = none := by
  simp only [isHex, Bool.or_eq_false_iff, Bool.and_eq_false_iff, decide_eq_false_iff_not] at h
  unfold hexDigit?
  split
  · omega
  · split
    · omega
    · split
      · omega
      · rfl

theorem hexDigit?_some {c : UInt8} (h : isHex c = true) : hexDigit? c = some (hexDigitVal c) := by
  simp only [isHex, Bool.or_eq_true, Bool.and_eq_true, decide_eq_true_eq] at h
  unfold hexDigit? hexDigitVal
  split
  · rw [if_pos (by omega)]
  · split
    · rw [if_neg (by omega), if_neg (by omega)]
    · split
      · rw [if_neg (by omega), if_pos (by omega)]
      · omega

theorem sizeOfToken_eq (cs : Bytes) (k : Nat) (acc : Option Nat) :
    sizeOfToken cs k acc =
      (if (cs.takeWhile isHex).take k = [] then acc
       else some (((cs.takeWhile isHex).take k).foldl (fun a c => a * 16 + hexDigitVal c) (acc.getD 0))) := by
  induction cs generalizing k acc with
  | nil => simp [sizeOfToken]
  | cons c cs ih =>
    cases k with
    | zero => simp [sizeOfToken]
    | succ k =>
      rw [sizeOfToken]
      cases hh : isHex c with
      | false => simp [hexDigit?_none hh, hh]
      | true =>
        simp only [hexDigit?_some hh, List.takeWhile_cons, hh, if_true, List.take_succ_cons,
          List.foldl_cons]
        rw [ih]
        split
        · rename_i h; simp [h]
        · simp

theorem hexU32_eq (tok : Bytes) : hexU32 tok = sizeOfToken tok 8 none := by
  rw [sizeOfToken_eq]
  unfold hexU32
  by_cases h : tok.takeWhile isHex = []
  · simp [h]
  · have h8 : (tok.takeWhile isHex).take 8 ≠ [] := by
      cases hh : tok.takeWhile isHex with
      | nil => exact absurd hh h
      | cons a l => simp
    simp [h, h8]

theorem tag_eq : tagSig = tag := rfl

theorem parseMeta_eq_parseHeader (m : Bytes) : parseMeta m = parseHeader m := by
  unfold parseMeta parseHeader
  simp only [drop_length_takeWhile]
  generalize hrest : m.dropWhile (· != 59) = rest
  generalize htok : m.takeWhile (· != 59) = tok
  have hcond : (rest.take 17 = tagSig ∧ ((rest.drop 17).length = 66 ∧ (rest.drop 17).drop 64 = [CR, LF])) ↔
      (rest.length = 17 + 64 + 2 ∧ rest.take 17 = tag ∧ rest.drop 81 = crlf) := by
    rw [List.drop_drop, List.length_drop, tag_eq]
    simp only [CR, LF, crlf]
    constructor
    · rintro ⟨a, b, c⟩; exact ⟨by omega, a, c⟩
    · rintro ⟨a, b, c⟩; exact ⟨b, by omega, c⟩
  by_cases htk : tok = []
  · subst htk
    simp [sizeOfToken]
  · rw [if_neg htk, hexU32_eq]
    by_cases hc : rest.length = 17 + 64 + 2 ∧ rest.take 17 = tag ∧ rest.drop 81 = crlf
    · obtain ⟨a, b, c⟩ := hcond.mpr hc
      rw [if_pos hc]
      cases sizeOfToken tok 8 none with
      | none => rfl
      | some n => simp [a, b, c]
    · rw [if_neg hc]
      cases sizeOfToken tok 8 none with
      | none => rfl
      | some n =>
        simp only []
        by_cases ha : rest.take 17 = tagSig
        · rw [if_pos ha]
          by_cases hb : (rest.drop 17).length = 66 ∧ (rest.drop 17).drop 64 = [CR, LF]
          · exact absurd (hcond.mp ⟨ha, hb⟩) hc
          · rw [if_neg hb]
        · rw [if_neg ha]

/-! ## the chunk loop -/

theorem chunkBody_ok_length {n : Nat} {rest d r : Bytes} (h : chunkBody n rest = .ok d r) :
    r.length + 2 + n ≤ rest.length ∧ d = rest.take n ∧ rest = d ++ [13, 10] ++ r := by
  unfold chunkBody at h
  split at h
  · cases h
  · rename_i hlt
    split at h
    · cases h
    · split at h <;> cases h
    · rename_i c1 c2 r2 hd
      split at h
      · rename_i hc
        cases h
        have hl := congrArg List.length hd
        simp only [List.length_drop, List.length_cons] at hl
        refine ⟨by omega, rfl, ?_⟩
        have := List.take_append_drop n rest
        rw [hd, hc.1, hc.2] at this
        rw [List.append_assoc]
        exact this.symm
      · cases h

/-- the main loop is the reference decoder on `prev ++ transportBytes fs`, whatever the (sufficient) fuels -/
theorem run_refines (sig : Bytes → Bytes → Bytes) (declared : Nat) :
    ∀ (f1 f2 : Nat) (prev : Bytes) (fs : List Frame) (prevSig : Bytes) (total : Nat),
      (prev ++ transportBytes fs).length < f1 → (prev ++ transportBytes fs).length < f2 →
      (run sig declared f1 prev fs prevSig total).delivered.flatten =
          (decodeGo sig declared (transportBroken fs) f2 prevSig total (prev ++ transportBytes fs)).1 ∧
      (run sig declared f1 prev fs prevSig total).terminal =
          (decodeGo sig declared (transportBroken fs) f2 prevSig total (prev ++ transportBytes fs)).2.terminal := by
  intro f1
  induction f1 with
  | zero => intro f2 prev fs prevSig total h; omega
  | succ f1 ih =>
    intro f2 prev fs prevSig total h1 h2
    cases f2 with
    | zero => omega
    | succ f2 =>
      rw [run, decodeGo]
      have hm := readMeta_abs prev fs
      unfold specMeta at hm
      cases hrm : readMeta prev fs with
      | eof =>
        rw [hrm] at hm
        cases hs : splitLine (prev ++ transportBytes fs) with
        | none =>
          rw [hs] at hm
          cases hb : transportBroken fs with
          | false => simp [outOfBytes, Reason.terminal]
          | true => rw [hb] at hm; simp [MetaRes.abs] at hm
        | some p => rw [hs] at hm; simp [MetaRes.abs] at hm
      | err =>
        rw [hrm] at hm
        cases hs : splitLine (prev ++ transportBytes fs) with
        | none =>
          rw [hs] at hm
          cases hb : transportBroken fs with
          | true => simp [outOfBytes, Reason.terminal]
          | false => rw [hb] at hm; simp [MetaRes.abs] at hm
        | some p => rw [hs] at hm; simp [MetaRes.abs] at hm
      | ok line prev1 fs1 =>
        rw [hrm] at hm
        cases hs : splitLine (prev ++ transportBytes fs) with
        | none =>
          rw [hs] at hm
          cases hb : transportBroken fs <;> rw [hb] at hm <;> simp [MetaRes.abs] at hm
        | some p =>
          obtain ⟨l, rest⟩ := p
          rw [hs] at hm
          simp only [MetaRes.abs, AbsMeta.ok.injEq] at hm
          obtain ⟨hl, hrest, hbr⟩ := hm
          subst hl
          simp only []
          rw [parseMeta_eq_parseHeader]
          cases hp : parseHeader line with
          | none => simp [Reason.terminal]
          | some q =>
            obtain ⟨n, s⟩ := q
            simp only []
            have hd := readData_abs prev1 fs1 n
            rw [hrest] at hd
            cases hrd : readData prev1 fs1 n with
            | eof =>
              rw [hrd] at hd
              cases hcb : chunkBody n rest with
              | short =>
                rw [hcb] at hd
                cases hb : transportBroken fs with
                | false => simp [outOfBytes, Reason.terminal]
                | true => rw [hbr, hb] at hd; simp [ReadRes.abs, bodyAbs, oob] at hd
              | badCrlf => rw [hcb] at hd; simp [ReadRes.abs, bodyAbs] at hd
              | ok d r => rw [hcb] at hd; simp [ReadRes.abs, bodyAbs] at hd
            | underlying =>
              rw [hrd] at hd
              cases hcb : chunkBody n rest with
              | short =>
                rw [hcb] at hd
                cases hb : transportBroken fs with
                | true => simp [outOfBytes, Reason.terminal]
                | false => rw [hbr, hb] at hd; simp [ReadRes.abs, bodyAbs, oob] at hd
              | badCrlf => rw [hcb] at hd; simp [ReadRes.abs, bodyAbs] at hd
              | ok d r => rw [hcb] at hd; simp [ReadRes.abs, bodyAbs] at hd
            | format =>
              rw [hrd] at hd
              cases hcb : chunkBody n rest with
              | short =>
                rw [hcb] at hd
                cases hb : transportBroken fs1 <;> rw [hb] at hd <;> simp [ReadRes.abs, bodyAbs, oob] at hd
              | badCrlf => simp [Reason.terminal]
              | ok d r => rw [hcb] at hd; simp [ReadRes.abs, bodyAbs] at hd
            | ok pieces prev2 fs2 =>
              rw [hrd] at hd
              cases hcb : chunkBody n rest with
              | short =>
                rw [hcb] at hd
                cases hb : transportBroken fs1 <;> rw [hb] at hd <;> simp [ReadRes.abs, bodyAbs, oob] at hd
              | badCrlf => rw [hcb] at hd; simp [ReadRes.abs, bodyAbs] at hd
              | ok d r =>
                rw [hcb] at hd
                simp only [ReadRes.abs, bodyAbs, AbsRead.ok.injEq] at hd
                obtain ⟨hd1, hd2, hd3⟩ := hd
                simp only []
                rw [hd1]
                by_cases hsig : sig prevSig d ≠ s
                · simp [hsig, Reason.terminal]
                · rw [if_neg hsig, if_neg hsig]
                  by_cases hex : total + n > declared
                  · simp [hex, Reason.terminal]
                  · rw [if_neg hex, if_neg hex]
                    by_cases hn : n = 0
                    · subst hn
                      rw [if_pos rfl, if_pos rfl]
                      by_cases ht : total = declared
                      · simp [ht, Reason.terminal]
                      · simp [ht, Reason.terminal]
                    · rw [if_neg hn, if_neg hn]
                      have hlen := chunkBody_ok_length hcb
                      have hsl := (splitLine_some_eq hs).1
                      have hbs : (prev2 ++ transportBytes fs2).length < (prev ++ transportBytes fs).length := by
                        rw [hd2, hsl, List.length_append]; omega
                      have := ih f2 prev2 fs2 s (total + n) (by omega) (by omega)
                      rw [hd2, hd3, hbr] at this
                      simp only [Out.after, List.flatten_append, hd1]
                      exact ⟨by rw [this.1], this.2⟩

/-- one round of the loop leaves strictly fewer bytes -/
theorem round_shrinks {prev : Bytes} {fs : List Frame} {line prev1 : Bytes} {fs1 : List Frame} {n : Nat}
    {pieces : List Bytes} {prev2 : Bytes} {fs2 : List Frame}
    (hrm : readMeta prev fs = .ok line prev1 fs1) (hrd : readData prev1 fs1 n = .ok pieces prev2 fs2) :
    (prev2 ++ transportBytes fs2).length < (prev ++ transportBytes fs).length := by
  have hm := readMeta_abs prev fs
  rw [hrm] at hm
  unfold specMeta at hm
  cases hs : splitLine (prev ++ transportBytes fs) with
  | none => rw [hs] at hm; cases hb : transportBroken fs <;> rw [hb] at hm <;> simp [MetaRes.abs] at hm
  | some p =>
    obtain ⟨l, rest⟩ := p
    rw [hs] at hm
    simp only [MetaRes.abs, AbsMeta.ok.injEq] at hm
    obtain ⟨_, hrest, _⟩ := hm
    have hd := readData_abs prev1 fs1 n
    rw [hrd, hrest] at hd
    obtain ⟨hsl, l0, hl0, _⟩ := splitLine_some_eq hs
    cases hcb : chunkBody n rest with
    | short => rw [hcb] at hd; cases hb : transportBroken fs1 <;> rw [hb] at hd <;> simp [ReadRes.abs, bodyAbs, oob] at hd
    | badCrlf => rw [hcb] at hd; simp [ReadRes.abs, bodyAbs] at hd
    | ok d r =>
      rw [hcb] at hd
      simp only [ReadRes.abs, bodyAbs, AbsRead.ok.injEq] at hd
      have hlen := chunkBody_ok_length hcb
      rw [hd.2.1, hsl, List.length_append]
      omega

/-- the fuel of the main loop is irrelevant once it exceeds the number of remaining bytes: the result
    (including the partition of the delivered bytes into frames) is the same -/
theorem run_fuel (sig : Bytes → Bytes → Bytes) (declared : Nat) :
    ∀ (f1 f2 : Nat) (prev : Bytes) (fs : List Frame) (prevSig : Bytes) (total : Nat),
      (prev ++ transportBytes fs).length < f1 → (prev ++ transportBytes fs).length < f2 →
      run sig declared f1 prev fs prevSig total = run sig declared f2 prev fs prevSig total := by
  intro f1
  induction f1 with
  | zero => intro f2 prev fs prevSig total h; omega
  | succ f1 ih =>
    intro f2 prev fs prevSig total h1 h2
    cases f2 with
    | zero => omega
    | succ f2 =>
      rw [run, run]
      cases hrm : readMeta prev fs with
      | eof => rfl
      | err => rfl
      | ok line prev1 fs1 =>
        simp only []
        cases hp : parseMeta line with
        | none => rfl
        | some q =>
          obtain ⟨n, s⟩ := q
          simp only []
          cases hrd : readData prev1 fs1 n with
          | eof => rfl
          | underlying => rfl
          | format => rfl
          | ok pieces prev2 fs2 =>
            simp only []
            have := round_shrinks hrm hrd
            rw [ih f2 prev2 fs2 s (total + n) (by omega) (by omega)]

end S3V.Chunked
