import S3V.Thm.EvStream
/-!
# Lemmas for C15: the XML payload of Stats / Progress events is read back by the spec's reader

`readCounters root (xmlPayload root d) = some (some (countersOf d))` for every `Details` (all `Option Int`
combinations, every integer), via: `splitAt1` over a delimiter-free prefix, `parseLong ∘ fmtLong = id`
(resting on `digitsVal_fmtDec_zero` of `Base/Bytes.lean`), one child element, the three optional children.
-/
namespace S3V.EvStreamThm
open S3V S3V.EvStream S3V.EvStreamSpec

/-! ## the XML payload of Stats / Progress -/

theorem splitAt1_append (stop : UInt8) (a r : Bytes) (h : ∀ c ∈ a, c ≠ stop) :
    splitAt1 stop (a ++ stop :: r) = some (a, r) := by
  induction a with
  | nil => simp [splitAt1]
  | cons c cs ih =>
    have hc : c ≠ stop := h c (by simp)
    simp [splitAt1, hc, ih (fun c' hc' => h c' (by simp [hc']))]

theorem skipWs_lt (r : Bytes) : skipWs (60 :: r) = 60 :: r := by
  simp [skipWs, isWs]

/-- an element name the reader can take back: no `>` inside, not starting with `/` -/
def NameOk (n : Bytes) : Prop := (∀ c ∈ n, c ≠ 62) ∧ n.head? ≠ some 47

theorem openTag_elem (name r : Bytes) (hn : NameOk name) :
    openTag (60 :: (name ++ 62 :: r)) = some (name, r) := by
  unfold openTag
  rw [skipWs_lt]
  have : (name ++ 62 :: r).head? ≠ some 47 := by
    cases name with
    | nil => simp
    | cons c cs => simpa using hn.2
  simp only [this, if_false]
  exact splitAt1_append 62 name r hn.1

theorem closeTag_close (name r : Bytes) (hn : ∀ c ∈ name, c ≠ 62) :
    closeTag name (60 :: 47 :: (name ++ 62 :: r)) = some r := by
  unfold closeTag
  rw [skipWs_lt]
  simp [splitAt1_append 62 name r hn]

theorem closeTag_open (root : Bytes) (c : UInt8) (r : Bytes) (hc : c ≠ 47) :
    closeTag root (60 :: c :: r) = none := by
  unfold closeTag
  rw [skipWs_lt]
  split
  · rename_i r' heq
    simp at heq
    exact absurd heq.1 hc
  · rfl

theorem fmtDec_head_ne (n : Nat) (x : UInt8) (hx : isDigit x = false) : ∀ c ∈ fmtDec n, c ≠ x := by
  intro c hc heq
  have := fmtDec_all_digits n c hc
  rw [heq, hx] at this
  cases this

theorem parseLong_fmtLong (v : Int) : parseLong (fmtLong v) = some v := by
  unfold fmtLong
  by_cases hv : v < 0
  · simp only [hv, if_true, parseLong]
    have hne := fmtDec_ne_nil v.natAbs
    simp only [hne, if_false, digitsVal_fmtDec_zero, Option.map_some]
    congr 1
    simp only [Int.ofNat_eq_natCast]
    omega
  · simp only [hv, if_false]
    cases hf : fmtDec v.natAbs with
    | nil => exact absurd hf (fmtDec_ne_nil _)
    | cons c cs =>
      have hc : c ≠ 45 := fmtDec_head_ne v.natAbs 45 (by decide) c (by rw [hf]; simp)
      have hd := digitsVal_fmtDec_zero v.natAbs
      rw [hf] at hd
      unfold parseLong
      split
      · rename_i ds heq
        simp at heq
        exact absurd heq.1 hc
      · simp only [reduceCtorEq, if_false, hd, Option.map_some]
        congr 1
        simp only [Int.ofNat_eq_natCast]
        omega

theorem fmtLong_no_lt (v : Int) : ∀ c ∈ fmtLong v, c ≠ 60 := by
  unfold fmtLong
  intro c hc
  split at hc
  · simp only [List.mem_cons] at hc
    rcases hc with rfl | hc
    · decide
    · exact fmtDec_head_ne _ 60 (by decide) c hc
  · exact fmtDec_head_ne _ 60 (by decide) c hc


/-- one `<name>long</name>` child is read back and the reader continues behind it -/
theorem childrenFuel_child (root name : Bytes) (c0 : UInt8) (cs0 : Bytes) (hname : name = c0 :: cs0)
    (hc0 : c0 ≠ 47) (hn : ∀ c ∈ name, c ≠ 62) (v : Int) (f : Nat) (r : Bytes) :
    childrenFuel root (f + 1) (xmlElem name (fmtLong v) ++ r) =
      (childrenFuel root f r).map fun (cs, r') => ((name, v) :: cs, r') := by
  have hok : NameOk name := ⟨hn, by rw [hname]; simpa using hc0⟩
  have e1 : xmlElem name (fmtLong v) ++ r =
      60 :: (name ++ 62 :: (fmtLong v ++ 60 :: (47 :: (name ++ 62 :: r)))) := by
    simp [xmlElem]
  have hclose : closeTag root (xmlElem name (fmtLong v) ++ r) = none := by
    rw [e1, hname]; exact closeTag_open root c0 _ hc0
  rw [childrenFuel, hclose]
  simp only []
  rw [e1, openTag_elem name _ hok]
  simp only [Option.bind_some, splitAt1_append 60 (fmtLong v) _ (fmtLong_no_lt v), parseLong_fmtLong,
    closeTag_close name r hn]

theorem childrenFuel_end (root : Bytes) (hr : ∀ c ∈ root, c ≠ 62) (f : Nat) (r : Bytes) :
    childrenFuel root (f + 1) (60 :: 47 :: (root ++ 62 :: r)) = some ([], r) := by
  rw [childrenFuel, closeTag_close root r hr]

/-- the children the reader should find, in the order the serialiser writes them -/
def optChild (name : Bytes) : Option Int → List (Bytes × Int)
  | none => []
  | some v => [(name, v)]

def childrenOf (d : Details) : List (Bytes × Int) :=
  optChild nBytesProcessed d.bytesProcessed ++ (optChild nBytesReturned d.bytesReturned ++
    optChild nBytesScanned d.bytesScanned)

theorem childrenFuel_opt (root name : Bytes) (c0 : UInt8) (cs0 : Bytes) (hname : name = c0 :: cs0)
    (hc0 : c0 ≠ 47) (hn : ∀ c ∈ name, c ≠ 62) (v : Option Int) (f : Nat) (r : Bytes)
    (cs : List (Bytes × Int)) (r' : Bytes) (h : ∀ g, f ≤ g → childrenFuel root g r = some (cs, r')) :
    ∀ g, f + 1 ≤ g → childrenFuel root g (xmlOptLong name v ++ r) = some (optChild name v ++ cs, r') := by
  intro g hg
  cases v with
  | none => simpa [xmlOptLong, optChild] using h g (by omega)
  | some v =>
    obtain ⟨g', rfl⟩ : ∃ g', g = g' + 1 := ⟨g - 1, by omega⟩
    simp only [xmlOptLong, optChild]
    rw [childrenFuel_child root name c0 cs0 hname hc0 hn v g' r, h g' (by omega)]
    rfl

theorem childrenFuel_details (root : Bytes) (hr : ∀ c ∈ root, c ≠ 62) (d : Details) (r : Bytes) :
    ∀ g, 4 ≤ g → childrenFuel root g (detailsContent d ++ 60 :: 47 :: (root ++ 62 :: r))
      = some (childrenOf d, r) := by
  have h0 : ∀ g, 1 ≤ g → childrenFuel root g (60 :: 47 :: (root ++ 62 :: r)) = some ([], r) := by
    intro g hg
    obtain ⟨g', rfl⟩ : ∃ g', g = g' + 1 := ⟨g - 1, by omega⟩
    exact childrenFuel_end root hr g' r
  have h1 := childrenFuel_opt root nBytesScanned 66 _ rfl (by decide) (by decide) d.bytesScanned 1 _ _ _ h0
  have h2 := childrenFuel_opt root nBytesReturned 66 _ rfl (by decide) (by decide) d.bytesReturned 2 _ _ _ h1
  have h3 := childrenFuel_opt root nBytesProcessed 66 _ rfl (by decide) (by decide) d.bytesProcessed 3 _ _ _ h2
  intro g hg
  have := h3 g hg
  simpa [detailsContent, childrenOf, List.append_assoc] using this

/-- the middle of the XML declaration: `xml version="1.0" encoding="UTF-8"?` -/
def declMid : Bytes := [120, 109, 108, 32, 118, 101, 114, 115, 105, 111, 110, 61, 34, 49, 46, 48, 34,
  32, 101, 110, 99, 111, 100, 105, 110, 103, 61, 34, 85, 84, 70, 45, 56, 34, 63]

theorem parseDetailsDoc_xmlPayload (root : Bytes) (hroot : NameOk root) (d : Details) :
    parseDetailsDoc (xmlPayload root d) = some (root, childrenOf d) := by
  have e : xmlPayload root d =
      60 :: 63 :: (declMid ++ 62 :: (60 :: (root ++ 62 :: (detailsContent d ++ 60 :: 47 :: (root ++ 62 :: []))))) := by
    simp [xmlPayload, xmlDecl, declMid, xmlElem]
  unfold parseDetailsDoc
  have hfuel : 4 ≤ (xmlPayload root d).length + 1 := by rw [e]; simp; omega
  generalize (xmlPayload root d).length + 1 = fuel at hfuel
  rw [e, skipWs_lt]
  simp only [skipDecl, splitAt1_append 62 declMid _ (by decide), Option.map_some, Option.bind_some,
    openTag_elem root _ hroot, childrenFuel_details root hroot.1 d [] fuel hfuel]
  simp [skipWs]

theorem nameOk_stats : NameOk vStats := ⟨by decide, by decide⟩
theorem nameOk_progress : NameOk vProgress := ⟨by decide, by decide⟩

/-- the counters a reader should find -/
def countersOf (d : Details) : Counters := ⟨d.bytesScanned, d.bytesProcessed, d.bytesReturned⟩

theorem xmlPayload_ne_nil (root : Bytes) (d : Details) : xmlPayload root d ≠ [] := by
  simp [xmlPayload, xmlDecl]

theorem readCounters_xmlPayload (root : Bytes) (hroot : NameOk root) (d : Details) :
    readCounters root (xmlPayload root d) = some (some (countersOf d)) := by
  unfold readCounters
  simp only [xmlPayload_ne_nil, if_false, parseDetailsDoc_xmlPayload root hroot d, Option.bind_some, ne_eq,
    not_true_eq_false]
  obtain ⟨p, r, s⟩ := d
  cases p <;> cases r <;> cases s <;> rfl

end S3V.EvStreamThm
