import S3V.Thm.SigV2Verdict
/-!
# Lemmas: the verdict of the model is the verdict of the specification (C11)

The V2 branches of `check` accept a request for `ak` exactly when the specification's `Accepts` holds —
for every request whose header values are `to_str` strings.
-/
namespace S3V.SigV2Thm
open S3V S3V.SigV2

/-! ## the parsers -/

theorem stripPrefix_eq (p s : Bytes) : stripPrefix p s = SigV2Spec.dropPrefix p s := by
  induction p generalizing s with
  | nil => cases s <;> rfl
  | cons a as ih =>
    cases s with
    | nil => rfl
    | cons c cs => simp only [stripPrefix, SigV2Spec.dropPrefix, ih]

theorem splitOnce_eq (sep : UInt8) (s : Bytes) : splitOnce sep s = SigV2Spec.splitFirst sep s := by
  induction s with
  | nil => rfl
  | cons c cs ih =>
    simp only [splitOnce, SigV2Spec.splitFirst, ih]
    split
    · rfl
    · cases SigV2Spec.splitFirst sep cs with
      | none => rfl
      | some x => rfl

theorem parseAuthV2_eq (v : Bytes) : parseAuthV2 v = SigV2Spec.parseAuthorization v := by
  unfold parseAuthV2 SigV2Spec.parseAuthorization
  rw [stripPrefix_eq]
  cases SigV2Spec.dropPrefix (v2b!"AWS ") v with
  | none => rfl
  | some rest => simp [splitOnce_eq]

theorem digitsVal_eq (s : Bytes) (acc : Nat) :
    digitsVal s acc = if SigV2Spec.allDigits s then some (SigV2Spec.decValue s acc) else none := by
  induction s generalizing acc with
  | nil => rfl
  | cons c cs ih =>
    simp only [digitsVal, SigV2Spec.allDigits, SigV2Spec.decValue, isDigit]
    by_cases hc : (48 ≤ c.toNat && c.toNat ≤ 57) = true
    · simp only [hc, if_true, Bool.true_and]; exact ih _
    · have : (48 ≤ c.toNat && c.toNat ≤ 57) = false := by simpa using hc
      simp [this]

theorem digits1_eq (s : Bytes) :
    digits1 s = if s ≠ [] ∧ SigV2Spec.allDigits s = true then some (SigV2Spec.decValue s 0) else none := by
  unfold digits1
  by_cases hs : s = []
  · simp [hs]
  · simp only [hs, if_false, digitsVal_eq, ne_eq, not_false_eq_true, true_and]

theorem all_isDigit_eq (s : Bytes) : s.all isDigit = SigV2Spec.allDigits s := by
  induction s with
  | nil => rfl
  | cons c cs ih => simp only [List.all_cons, SigV2Spec.allDigits, isDigit, ih]

theorem isDecimal_plus (rest : Bytes) :
    isDecimal (43 :: rest) = (decide (rest ≠ []) && SigV2Spec.allDigits rest) := by
  unfold isDecimal
  simp only [stripPrefix, if_true, Option.getD_some, all_isDigit_eq]
  cases rest <;> simp

theorem isDecimal_other (c : UInt8) (rest : Bytes) (h : ¬ c = 43) :
    isDecimal (c :: rest) = SigV2Spec.allDigits (c :: rest) := by
  unfold isDecimal
  have : ¬ (43 : UInt8) = c := fun e => h e.symm
  simp only [stripPrefix, this, if_false, Option.getD_none, all_isDigit_eq]
  simp

/-- every second count beyond `i64` is clamped to the same instant as `i64::MAX` -/
theorem instant_big (n : Int) (h : ¬ n ≤ i64Max) : instantOfUnixTs i64Max = instantOfUnixTs n := by
  unfold instantOfUnixTs i64Max maxUnixTs at *
  have h1 : ¬ ((9223372036854775807 : Int) ≤ 253402300799) := by omega
  have h2 : ¬ (n ≤ 253402300799) := by omega
  simp only [h1, h2, if_false]

/-- the clamped instant is never after the second it stands for -/
theorem instant_le (e : Int) : instantOfUnixTs e ≤ e * 1000000000 := by
  unfold instantOfUnixTs maxUnixTs maxDateTimeNs
  split <;> omega

/-- and for a clock inside the range of `OffsetDateTime` it expires no earlier -/
theorem le_instant (nowNs e : Int) (hclock : nowNs ≤ maxDateTimeNs) (h : nowNs ≤ e * 1000000000) :
    nowNs ≤ instantOfUnixTs e := by
  unfold instantOfUnixTs
  split
  · exact h
  · exact hclock

/-- `parse_unix_timestamp` reads the specification's integer — any decimal number, however large —, insists
    on `0 ≤ ·` and yields its instant, clamped to 9999-12-31T23:59:59.999999999Z -/
theorem parseUnixTimestamp_eq (s : Bytes) :
    parseUnixTimestamp s =
      (SigV2Spec.expiresValue s).bind fun x => if 0 ≤ x then some (instantOfUnixTs x) else none := by
  unfold parseUnixTimestamp parseI64 SigV2Spec.expiresValue
  cases s with
  | nil => rfl
  | cons c rest =>
    simp only
    by_cases h43 : c = 43
    · subst h43
      simp only [if_true, digits1_eq, isDecimal_plus]
      by_cases hd : rest ≠ [] ∧ SigV2Spec.allDigits rest = true
      · simp only [hd, and_self, if_true, Option.bind_some, ne_eq, not_false_eq_true, decide_true, Bool.true_and]
        generalize SigV2Spec.decValue rest 0 = n
        by_cases h1 : (n : Int) ≤ i64Max
        · have h0 : ¬ ((n : Int) < 0) := by omega
          have h0' : (0 : Int) ≤ n := by omega
          simp only [h1, if_true, h0, if_false, h0']
        · have h0' : (0 : Int) ≤ n := by omega
          have hi : ¬ (i64Max < 0) := by unfold i64Max; omega
          simp only [h1, if_false, if_true, hi, h0', instant_big _ h1]
      · have hd' : (decide (rest ≠ []) && SigV2Spec.allDigits rest) = false := by
          cases hb : (decide (rest ≠ []) && SigV2Spec.allDigits rest) with
          | false => rfl
          | true =>
            simp only [Bool.and_eq_true, decide_eq_true_eq] at hb
            exact absurd hb hd
        simp only [hd, if_false, hd', Bool.false_eq_true, Option.bind_none]
    · by_cases h45 : c = 45
      · subst h45
        have h1 : ¬ (45 : UInt8) = 43 := by decide
        have h2 : SigV2Spec.allDigits (45 :: rest) = false := by simp [SigV2Spec.allDigits]
        simp only [h1, if_false, if_true, digits1_eq, isDecimal_other 45 rest h1, h2, Bool.false_eq_true]
        by_cases hd : rest ≠ [] ∧ SigV2Spec.allDigits rest = true
        · simp only [hd, and_self, if_true, Option.bind_some, ne_eq, not_false_eq_true]
          generalize SigV2Spec.decValue rest 0 = n
          by_cases hm : i64Min ≤ -(n : Int)
          · simp only [hm, if_true]
            by_cases hz : (n : Int) = 0
            · have a : ¬ (-(n : Int) < 0) := by omega
              have b : (0 : Int) ≤ -(n : Int) := by omega
              simp only [a, b, if_false, if_true]
            · have a : (-(n : Int) < 0) := by omega
              have b : ¬ (0 : Int) ≤ -(n : Int) := by omega
              simp only [a, b, if_false, if_true]
          · have b : ¬ (0 : Int) ≤ -(n : Int) := by unfold i64Min at hm; omega
            simp only [hm, b, if_false]
        · simp only [hd, if_false, Option.bind_none]
      · simp only [h43, h45, if_false, digits1_eq, isDecimal_other c rest h43]
        by_cases hd : SigV2Spec.allDigits (c :: rest) = true
        · simp only [hd, ne_eq, reduceCtorEq, not_false_eq_true, and_self, if_true, Option.bind_some]
          generalize SigV2Spec.decValue (c :: rest) 0 = n
          by_cases h1 : (n : Int) ≤ i64Max
          · have h0 : ¬ ((n : Int) < 0) := by omega
            have h0' : (0 : Int) ≤ n := by omega
            simp only [h1, if_true, h0, if_false, h0']
          · have h0' : (0 : Int) ≤ n := by omega
            have hi : ¬ (i64Max < 0) := by unfold i64Max; omega
            simp only [h1, if_false, if_true, hi, h0', instant_big _ h1]
        · simp [hd]

/-- what `PresignedUrlV2::parse` holds as expiry is the instant of the request's `Expires` parameter, read
    as the specification reads it -/
theorem parsePresigned_expires (q : Pairs) (p : Presigned) (h : parsePresigned q = some p) :
    ∃ ex e, getUnique q (v2b!"Expires") = some ex ∧ SigV2Spec.expiresValue ex = some e ∧ 0 ≤ e ∧
      p.expiresNs = instantOfUnixTs e := by
  unfold parsePresigned at h
  split at h
  · rename_i ak ex sg hak hex hsg
    rw [parseUnixTimestamp_eq] at h
    cases hev : SigV2Spec.expiresValue ex with
    | none => rw [hev] at h; cases h
    | some e =>
      rw [hev] at h
      simp only [Option.bind_some] at h
      by_cases h0 : 0 ≤ e
      · simp only [h0, if_true, Option.some.injEq] at h
        subst h
        exact ⟨ex, e, hex, hev, h0, rfl⟩
      · simp only [h0, if_false] at h
        cases h
  · cases h

/-! ## the credentials -/

/-- credentials as the model holds them: an `Expires` before the epoch does not parse in the model, any
    other is held as its instant, clamped to the last one the clock can show -/
def toPresented (c : SigV2Spec.Creds) : Option Presented :=
  match c.expires with
  | some e => if 0 ≤ e then some ⟨implMode c.mode, c.accessKey, c.signature, some (instantOfUnixTs e)⟩ else none
  | none => some ⟨implMode c.mode, c.accessKey, c.signature, none⟩

theorem paramValues_eq_nil_iff (r : SigV2Spec.Req) (n : Bytes) :
    SigV2Spec.paramValues r n = [] ↔ (r.query.any fun p => p.1 = n) = false := by
  unfold SigV2Spec.paramValues
  simp [List.filter_eq_nil_iff]

theorem presignedQs_ctxOf (r : SigV2Spec.Req) :
    presignedQs (ctxOf r).qs =
      if SigV2Spec.paramValues r (sp!"Signature") ≠ [] then some (sortByFirst r.query) else none := by
  simp only [ctxOf, implQs, presignedQs, has_sortByFirst]
  by_cases h : SigV2Spec.paramValues r (sp!"Signature") = []
  · have := (paramValues_eq_nil_iff r _).mp h
    simp only [h, ne_eq, not_true_eq_false, if_false]
    rw [this]; rfl
  · have : (r.query.any fun p => p.1 = sp!"Signature") = true := by
      cases hb : (r.query.any fun p => p.1 = sp!"Signature") with
      | true => rfl
      | false => exact absurd ((paramValues_eq_nil_iff r _).mpr hb) h
    simp only [h, ne_eq, not_false_eq_true, if_true]
    rw [this]; rfl

theorem presigned_case (r : SigV2Spec.Req) :
    (parsePresigned (sortByFirst r.query)).map
        (fun p => (⟨.presignedUrl, p.accessKey, p.signature, some p.expiresNs⟩ : Presented)) =
      (SigV2Spec.queryCredentials r).bind toPresented := by
  unfold parsePresigned SigV2Spec.queryCredentials
  rw [getUnique_query, getUnique_query, getUnique_query]
  generalize SigV2Spec.paramValues r (sp!"AWSAccessKeyId") = A
  generalize SigV2Spec.paramValues r (sp!"Signature") = S
  generalize SigV2Spec.paramValues r (sp!"Expires") = E
  match A, S, E with
  | [ak], [sg], [ex] =>
    simp only [theOnly]
    rw [parseUnixTimestamp_eq]
    cases hev : SigV2Spec.expiresValue ex with
    | none => simp
    | some e =>
      simp only [Option.bind_some, Option.map_some, toPresented]
      by_cases h0 : 0 ≤ e
      · simp [h0, implMode]
      · simp [h0]
  | [], _, _ => simp [theOnly]
  | _ :: _ :: _, _, _ => simp [theOnly]
  | [_], [], _ => simp [theOnly]
  | [_], _ :: _ :: _, _ => simp [theOnly]
  | [_], [_], [] => simp [theOnly]
  | [_], [_], _ :: _ :: _ => simp [theOnly]

/-- the credentials the code looks at are the credentials the specification reads off the request — for
    every request -/
theorem presented_ctxOf (r : SigV2Spec.Req) :
    presented (ctxOf r) = (SigV2Spec.credentials r).bind toPresented := by
  unfold presented SigV2Spec.credentials SigV2Spec.headerCredentials
  rw [presignedQs_ctxOf]
  have hga : getAll (ctxOf r).hs (v2b!"authorization") = SigV2Spec.fieldValues r (sp!"authorization") :=
    getAll_implHeaders r _
  have hgu : getUnique (ctxOf r).hs (v2b!"authorization") = theOnly (SigV2Spec.fieldValues r (sp!"authorization")) :=
    getUnique_implHeaders r _
  rw [hga, hgu]
  generalize SigV2Spec.fieldValues r (sp!"authorization") = F
  match F with
  | a :: b :: rest => simp
  | [] =>
    by_cases hS : SigV2Spec.paramValues r (sp!"Signature") = []
    · simp [hS, theOnly]
    · simp only [hS, ne_eq, not_false_eq_true, if_true, List.drop_nil, List.isEmpty_nil, List.length_nil,
        ge_iff_le]
      exact presigned_case r
  | [a] =>
    by_cases hS : SigV2Spec.paramValues r (sp!"Signature") = []
    · simp only [hS, ne_eq, not_true_eq_false, if_false, parseAuthV2_eq, theOnly, List.drop_succ_cons,
        List.drop_zero, List.isEmpty_nil, if_true, List.length_cons, List.length_nil, ge_iff_le]
      cases SigV2Spec.parseAuthorization a with
      | none => simp
      | some x => simp [toPresented, implMode]
    · have := presigned_case r
      simp only [hS, ne_eq, not_false_eq_true, if_true, List.drop_succ_cons, List.drop_zero, List.isEmpty_nil,
        List.length_cons, List.length_nil, ge_iff_le]
      simpa using this

/-- a time stamp for the code is a time stamp for the specification: any Date line or any x-amz-date line -/
theorem hasDate_ctxOf (r : SigV2Spec.Req) : hasDate (ctxOf r) = SigV2Spec.hasDate r := by
  unfold hasDate SigV2Spec.hasDate
  have h1 : getAll (ctxOf r).hs (v2b!"date") = SigV2Spec.fieldValues r (sp!"date") :=
    getAll_implHeaders r _
  have h2 : getAll (ctxOf r).hs (v2b!"x-amz-date") = SigV2Spec.fieldValues r (sp!"x-amz-date") :=
    getAll_implHeaders r _
  rw [h1, h2]
  cases SigV2Spec.fieldValues r (sp!"date") <;> cases SigV2Spec.fieldValues r (sp!"x-amz-date") <;> rfl

theorem credentials_mode (r : SigV2Spec.Req) (c : SigV2Spec.Creds) (h : SigV2Spec.credentials r = some c) :
    c.mode = if SigV2Spec.paramValues r (sp!"Signature") ≠ [] then .query else .header := by
  unfold SigV2Spec.credentials at h
  split at h
  · cases h
  · split at h
    · rename_i hS
      rw [if_pos hS]
      unfold SigV2Spec.queryCredentials at h
      split at h
      · cases hv : SigV2Spec.expiresValue _ with
        | none => rw [hv] at h; cases h
        | some e => rw [hv] at h; simp at h; rw [← h]
      · cases h
    · rename_i hS
      rw [if_neg hS]
      unfold SigV2Spec.headerCredentials at h
      split at h
      · cases hv : SigV2Spec.parseAuthorization _ with
        | none => rw [hv] at h; cases h
        | some x => rw [hv] at h; simp at h; rw [← h]
      · cases h

/-- credentials read off the query come with exactly one `Expires` -/
theorem expiresOnce_of_credentials (r : SigV2Spec.Req) (c : SigV2Spec.Creds)
    (hc : SigV2Spec.credentials r = some c) : expiresOnce c.mode r = true := by
  unfold SigV2Spec.credentials at hc
  split at hc
  · cases hc
  · split at hc
    · unfold SigV2Spec.queryCredentials at hc
      split at hc
      · rename_i ak sg ex h1 h2 h3
        simp [expiresOnce, h3]
      · cases hc
    · unfold SigV2Spec.headerCredentials at hc
      split at hc
      · cases hv : SigV2Spec.parseAuthorization _ with
        | none => rw [hv] at hc; cases hc
        | some x => rw [hv] at hc; simp at hc; rw [← hc]; simp [expiresOnce]
      · cases hc

theorem wf_of_credentials (r : SigV2Spec.Req) (c : SigV2Spec.Creds) (h : valuesVisible r = true)
    (hc : SigV2Spec.credentials r = some c) : wf c.mode r = true := by
  simp only [wf, Bool.and_eq_true]
  exact ⟨h, expiresOnce_of_credentials r c hc⟩

/-- for every request whose header values are `to_str` strings, and with a clock reading `OffsetDateTime`
    can show (from the epoch to 9999-12-31T23:59:59.999999999Z), the code accepts a request for `ak` exactly
    when the specification does -/
theorem accept_iff_spec (hmac : Bytes → Bytes → Bytes) (b64 : Bytes → Bytes) (lookup : Bytes → Option Bytes)
    (nowNs : Int) (r : SigV2Spec.Req) (ak : Bytes) (hnow : 0 ≤ nowNs) (hclock : nowNs ≤ maxDateTimeNs)
    (h : valuesVisible r = true) :
    check hmac b64 lookup nowNs (ctxOf r) = .accept ak ↔ SigV2Spec.Accepts hmac b64 lookup nowNs r ak := by
  rw [check_accept_iff, presented_ctxOf r]
  unfold SigV2Spec.Accepts SigV2Spec.signature
  constructor
  · rintro ⟨p, secret, hp, hak, hl, hs, hd, he⟩
    cases hc : SigV2Spec.credentials r with
    | none => rw [hc] at hp; cases hp
    | some c =>
      rw [hc] at hp
      simp only [Option.bind_some] at hp
      have hwf := wf_of_credentials r c h hc
      refine ⟨c, secret, rfl, ?_, hl, ?_, ?_, ?_⟩
      · unfold toPresented at hp
        split at hp
        · split at hp
          · simp only [Option.some.injEq] at hp; rw [← hp] at hak; exact hak
          · cases hp
        · simp only [Option.some.injEq] at hp; rw [← hp] at hak; exact hak
      · have hm : p.mode = implMode c.mode ∧ p.signature = c.signature := by
          unfold toPresented at hp
          split at hp
          · split at hp
            · simp only [Option.some.injEq] at hp; rw [← hp]; exact ⟨rfl, rfl⟩
            · cases hp
          · simp only [Option.some.injEq] at hp; rw [← hp]; exact ⟨rfl, rfl⟩
        rw [hm.1, hm.2, stsOf_ctxOf, stsImpl_eq_stsSpec c.mode r hwf] at hs
        exact hs
      · intro hmode
        have hm : p.mode = implMode c.mode := by
          unfold toPresented at hp
          split at hp
          · split at hp
            · simp only [Option.some.injEq] at hp; rw [← hp]
            · cases hp
          · simp only [Option.some.injEq] at hp; rw [← hp]
        rw [← hasDate_ctxOf r]
        exact hd (by rw [hm, hmode]; rfl)
      · intro e hce
        unfold toPresented at hp
        rw [hce] at hp
        simp only at hp
        split at hp
        · simp only [Option.some.injEq] at hp
          have := he (instantOfUnixTs e) (by rw [← hp])
          have := instant_le e
          omega
        · cases hp
  · rintro ⟨c, secret, hc, hak, hl, hs, hd, he⟩
    have hwf := wf_of_credentials r c h hc
    rw [hc]
    simp only [Option.bind_some]
    have hp : ∃ p, toPresented c = some p ∧ p.mode = implMode c.mode ∧ p.accessKey = c.accessKey ∧
        p.signature = c.signature ∧ p.expiresNs = c.expires.map instantOfUnixTs := by
      unfold toPresented
      cases hce : c.expires with
      | none => exact ⟨_, rfl, rfl, rfl, rfl, rfl⟩
      | some e =>
        have := he e hce
        have h0 : 0 ≤ e := by omega
        simp only [h0, if_true]
        exact ⟨_, rfl, rfl, rfl, rfl, rfl⟩
    obtain ⟨p, hp, hm, ha, hsg, hex⟩ := hp
    refine ⟨p, secret, hp, by rw [ha]; exact hak, hl, ?_, ?_, ?_⟩
    · rw [hm, hsg, stsOf_ctxOf, stsImpl_eq_stsSpec c.mode r hwf]; exact hs
    · intro hpm
      have hcm : c.mode = .header := by
        rw [hm] at hpm
        cases hcm : c.mode with
        | header => rfl
        | query => rw [hcm] at hpm; cases hpm
      rw [hasDate_ctxOf r]
      exact hd hcm
    · intro e hpe
      rw [hex] at hpe
      cases hce : c.expires with
      | none => rw [hce] at hpe; cases hpe
      | some e0 =>
        rw [hce] at hpe
        simp only [Option.map_some, Option.some.injEq] at hpe
        rw [← hpe]
        exact le_instant nowNs e0 hclock (he e0 hce)

/-- the executable reference the driver uses is the declarative `Accepts` -/
theorem acceptedKey_iff (hmac : Bytes → Bytes → Bytes) (b64 : Bytes → Bytes) (lookup : Bytes → Option Bytes)
    (nowNs : Int) (r : SigV2Spec.Req) (ak : Bytes) :
    SigV2Spec.acceptedKey hmac b64 lookup nowNs r = some ak ↔ SigV2Spec.Accepts hmac b64 lookup nowNs r ak := by
  unfold SigV2Spec.acceptedKey SigV2Spec.Accepts
  cases hc : SigV2Spec.credentials r with
  | none => simp
  | some c =>
    simp only [Option.some.injEq]
    cases hl : lookup c.accessKey with
    | none =>
      constructor
      · intro h; cases h
      · rintro ⟨c', secret, h1, h2, h3, -⟩
        subst h1; rw [← h2, hl] at h3; cases h3
    | some secret =>
      simp only
      constructor
      · intro h
        split at h
        · rename_i hcond
          simp only [Bool.and_eq_true, decide_eq_true_eq] at hcond
          simp only [Option.some.injEq] at h
          refine ⟨c, secret, rfl, h, by rw [← h]; exact hl, hcond.1.1, ?_, ?_⟩
          · intro hm; have := hcond.1.2; rw [hm] at this; exact this
          · intro e hce; have := hcond.2; rw [hce] at this; simpa [SigV2Spec.notExpired] using this
        · cases h
      · rintro ⟨c', secret', h1, h2, h3, h4, h5, h6⟩
        subst h1
        rw [← h2, hl] at h3
        simp only [Option.some.injEq] at h3
        subst h3
        have hcond : (decide (c.signature = SigV2Spec.signature hmac b64 secret (SigV2Spec.stringToSign c.mode r)) &&
            SigV2Spec.dateOk r c.mode && SigV2Spec.notExpired nowNs c.expires) = true := by
          simp only [Bool.and_eq_true, decide_eq_true_eq]
          refine ⟨⟨h4, ?_⟩, ?_⟩
          · cases hm : c.mode with
            | header => exact h5 hm
            | query => rfl
          · cases he : c.expires with
            | none => rfl
            | some e => simpa [SigV2Spec.notExpired] using h6 e he
        rw [if_pos hcond, h2]

end S3V.SigV2Thm
