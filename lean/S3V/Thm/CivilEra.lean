import S3V.Model.DtoCivil
/-!
# The 400-year era: `decDoe` and `encDoe` are inverse bijections between day-of-era 0 … 146096 and
valid (year-of-era, month-from-March, day) triples

Two finite facts, each checked by kernel evaluation (`decide +kernel`) through a binary-split
checker with a proved soundness lemma (a plain bounded `∀` would make the kernel recurse too deep).
This module is separate so that the two evaluations (~3 min each) are compiled once and cached.
-/
namespace S3V.Dto

def allBin (f : Nat → Bool) : Nat → Nat → Bool
  | 0, s => f s
  | d + 1, s => allBin f d s && allBin f d (s + 2 ^ d)

theorem allBin_sound (f : Nat → Bool) :
    ∀ d s, allBin f d s = true → ∀ i, s ≤ i → i < s + 2 ^ d → f i = true := by
  intro d
  induction d with
  | zero =>
    intro s h i h1 h2
    simp [allBin] at h
    have : i = s := by simp at h2; omega
    subst this; exact h
  | succ d ih =>
    intro s h i h1 h2
    simp only [allBin, Bool.and_eq_true] at h
    by_cases hi : i < s + 2 ^ d
    · exact ih s h.1 i h1 hi
    · exact ih (s + 2 ^ d) h.2 i (by omega) (by rw [Nat.pow_succ] at h2; omega)

/-- leap rule for the calendar year that contains January/February of era-year `yoe` (= `yoe + 1`) -/
def eraLeap (yoe : Nat) : Bool := (yoe + 1) % 4 = 0 && ((yoe + 1) % 100 ≠ 0 || (yoe + 1) % 400 = 0)

/-- length of month `mp` (0 = March … 11 = February) of era-year `yoe` -/
def eraMonthLen (yoe mp : Nat) : Nat :=
  if mp = 11 then (if eraLeap yoe then 29 else 28)
  else if mp = 1 || mp = 3 || mp = 6 || mp = 8 then 30 else 31

def validEra (yoe mp d : Nat) : Bool := yoe < 400 && mp < 12 && 1 ≤ d && d ≤ eraMonthLen yoe mp

def okDec (doe : Nat) : Bool :=
  doe ≥ 146097 ||
  (let (yoe, mp, d) := decDoe doe
   encDoe yoe mp d == doe && validEra yoe mp d)

def okEnc (i : Nat) : Bool :=
  let yoe := i / 384
  let mp := i / 32 % 12
  let d := i % 32
  !validEra yoe mp d ||
  (encDoe yoe mp d < 146097 && decDoe (encDoe yoe mp d) == (yoe, mp, d))

theorem okDec_bin : allBin okDec 18 0 = true := by decide +kernel
theorem okEnc_bin : allBin okEnc 18 0 = true := by decide +kernel

/-- every day of the era decodes to a valid triple that encodes back to it -/
theorem era_dec (doe : Nat) (h : doe < 146097) :
    encDoe (decDoe doe).1 (decDoe doe).2.1 (decDoe doe).2.2 = doe ∧
    validEra (decDoe doe).1 (decDoe doe).2.1 (decDoe doe).2.2 = true := by
  have := allBin_sound okDec 18 0 okDec_bin doe (by omega) (by omega)
  simp only [okDec, Bool.or_eq_true, decide_eq_true_eq, Bool.and_eq_true, beq_iff_eq] at this
  rcases this with h' | h'
  · omega
  · exact h'

/-- every valid triple encodes to a day of the era that decodes back to it -/
theorem era_enc (yoe mp d : Nat) (h : validEra yoe mp d = true) :
    encDoe yoe mp d < 146097 ∧ decDoe (encDoe yoe mp d) = (yoe, mp, d) := by
  have hv := h
  simp only [validEra, Bool.and_eq_true, decide_eq_true_eq] at hv
  obtain ⟨⟨⟨h1, h2⟩, h3⟩, h4⟩ := hv
  have hd : d ≤ 31 := by
    have : eraMonthLen yoe mp ≤ 31 := by
      unfold eraMonthLen; split
      · split <;> omega
      · split <;> omega
    omega
  have hi : yoe * 384 + mp * 32 + d < 0 + 2 ^ 18 := by omega
  have := allBin_sound okEnc 18 0 okEnc_bin (yoe * 384 + mp * 32 + d) (by omega) hi
  have e1 : (yoe * 384 + mp * 32 + d) / 384 = yoe := by omega
  have e2 : (yoe * 384 + mp * 32 + d) / 32 % 12 = mp := by omega
  have e3 : (yoe * 384 + mp * 32 + d) % 32 = d := by omega
  simp only [okEnc, e1, e2, e3, h, Bool.not_true, Bool.false_or, Bool.and_eq_true, decide_eq_true_eq,
    beq_iff_eq] at this
  exact this

end S3V.Dto
