import S3V.Thm.CivilEraA
import S3V.Thm.CivilEraB
/-!
# The 400-year era: `decDoe` and `encDoe` are inverse bijections between day-of-era 0 … 146096 and
valid (year-of-era, month-from-March, day) triples

Two finite facts, each checked by kernel evaluation (`decide +kernel`, no extra axiom) through a
binary-split checker with a proved soundness lemma, in chunks of 2^15 cases
(`CivilEraA` / `CivilEraB`, compiled in parallel, once, then cached).
-/
namespace S3V.Dto

/-- every day of the era decodes to a valid triple that encodes back to it -/
theorem era_dec (doe : Nat) (h : doe < 146097) :
    encDoe (decDoe doe).1 (decDoe doe).2.1 (decDoe doe).2.2 = doe ∧
    (decDoe doe).1 < 400 ∧ (decDoe doe).2.1 < 12 ∧ 1 ≤ (decDoe doe).2.2 ∧
    (decDoe doe).2.2 ≤ eraMonthLen (decDoe doe).1 (decDoe doe).2.1 := by
  have := five_chunks okDec okDec_0 okDec_1 okDec_2 okDec_3 okDec_4 doe (by omega)
  simp only [okDec, Bool.or_eq_true, Nat.ble_eq, Bool.and_eq_true] at this
  rcases this with h' | ⟨h1, h2⟩
  · omega
  · exact ⟨Nat.eq_of_beq_eq_true h1, (validEra_iff _ _ _).mp h2⟩

/-- every valid triple encodes to a day of the era that decodes back to it -/
theorem era_enc (yoe mp d : Nat) (h1 : yoe < 400) (h2 : mp < 12) (h3 : 1 ≤ d) (h4 : d ≤ eraMonthLen yoe mp) :
    encDoe yoe mp d < 146097 ∧ decDoe (encDoe yoe mp d) = (yoe, mp, d) := by
  have hd : d ≤ 31 := by
    have : eraMonthLen yoe mp ≤ 31 := by
      unfold eraMonthLen; split
      · split <;> omega
      · split <;> omega
    omega
  have := five_chunks okEnc okEnc_0 okEnc_1 okEnc_2 okEnc_3 okEnc_4 (yoe * 384 + mp * 32 + d) (by omega)
  have e1 : (yoe * 384 + mp * 32 + d) / 384 = yoe := by omega
  have e2 : (yoe * 384 + mp * 32 + d) / 32 % 12 = mp := by omega
  have e3 : (yoe * 384 + mp * 32 + d) % 32 = d := by omega
  have hv : validEraB yoe mp d = true := (validEra_iff _ _ _).mpr ⟨h1, h2, h3, h4⟩
  simp only [okEnc, e1, e2, e3, hv, Bool.not_true, Bool.false_or, Bool.and_eq_true, Nat.blt_eq] at this
  obtain ⟨⟨⟨a, b⟩, c⟩, e⟩ := this
  refine ⟨a, ?_⟩
  have b' := Nat.eq_of_beq_eq_true b
  have c' := Nat.eq_of_beq_eq_true c
  have e' := Nat.eq_of_beq_eq_true e
  exact Prod.ext b' (Prod.ext c' e')

end S3V.Dto
