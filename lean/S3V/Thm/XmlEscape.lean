import S3V.Model.Xml
/-!
Lemmas about the scalar text forms of the XML codec model: `unescape ∘ escape`, integers, booleans.
-/
namespace S3V.Xml
open S3V

/-- the five bytes `escape` rewrites -/
def isSpecial (c : UInt8) : Bool := c = cLt || c = cGt || c = cAmp || c = cApos || c = cQuot

theorem escapeByte_of_not_special {c : UInt8} (h : isSpecial c = false) : escapeByte c = [c] := by
  simp only [isSpecial, Bool.or_eq_false_iff, decide_eq_false_iff_not] at h
  obtain ⟨⟨⟨⟨h1, h2⟩, h3⟩, h4⟩, h5⟩ := h
  simp [escapeByte, h1, h2, h3, h4, h5]

theorem unescape_cons_of_ne_amp {c : UInt8} (h : c ≠ cAmp) (cs : Bytes) :
    unescape (c :: cs) = (unescape cs).map (c :: ·) := by
  simp [unescape, h]

theorem unescape_lt (r : Bytes) : unescape ([38, 108, 116, 59] ++ r) = (unescape r).map (cLt :: ·) := by
  simp [unescape, unescapeEnt, resolveEntity, cAmp, cSemi, cLt]

theorem unescape_gt (r : Bytes) : unescape ([38, 103, 116, 59] ++ r) = (unescape r).map (cGt :: ·) := by
  simp [unescape, unescapeEnt, resolveEntity, cAmp, cSemi, cGt]

theorem unescape_amp (r : Bytes) : unescape ([38, 97, 109, 112, 59] ++ r) = (unescape r).map (cAmp :: ·) := by
  simp [unescape, unescapeEnt, resolveEntity, cAmp, cSemi]

theorem unescape_apos (r : Bytes) : unescape ([38, 97, 112, 111, 115, 59] ++ r) = (unescape r).map (cApos :: ·) := by
  simp [unescape, unescapeEnt, resolveEntity, cAmp, cSemi, cApos]

theorem unescape_quot (r : Bytes) : unescape ([38, 113, 117, 111, 116, 59] ++ r) = (unescape r).map (cQuot :: ·) := by
  simp [unescape, unescapeEnt, resolveEntity, cAmp, cSemi, cQuot]

/-- `unescape (escape t) = t` for every byte string -/
theorem unescape_escape (t : Bytes) : unescape (escape t) = some t := by
  induction t with
  | nil => simp [escape, unescape]
  | cons c cs ih =>
    simp only [escape]
    by_cases h1 : c = cLt
    · subst h1; simp only [escapeByte, if_true]; rw [unescape_lt, ih]; rfl
    by_cases h2 : c = cGt
    · subst h2; simp only [escapeByte, if_neg h1, if_true]; rw [unescape_gt, ih]; rfl
    by_cases h3 : c = cAmp
    · subst h3; simp only [escapeByte, if_neg h1, if_neg h2, if_true]; rw [unescape_amp, ih]; rfl
    by_cases h4 : c = cApos
    · subst h4; simp only [escapeByte, if_neg h1, if_neg h2, if_neg h3, if_true]; rw [unescape_apos, ih]; rfl
    by_cases h5 : c = cQuot
    · subst h5; simp only [escapeByte, if_neg h1, if_neg h2, if_neg h3, if_neg h4, if_true]; rw [unescape_quot, ih]; rfl
    · simp only [escapeByte, if_neg h1, if_neg h2, if_neg h3, if_neg h4, if_neg h5, List.singleton_append]
      rw [unescape_cons_of_ne_amp h3, ih]; rfl

theorem escape_eq_self {t : Bytes} (h : ∀ c ∈ t, isSpecial c = false) : escape t = t := by
  induction t with
  | nil => rfl
  | cons c cs ih =>
    simp only [escape]
    rw [escapeByte_of_not_special (h c (by simp)), ih (fun c hc => h c (by simp [hc]))]
    rfl

theorem escape_eq_nil {t : Bytes} : escape t = [] ↔ t = [] := by
  constructor
  · intro h
    cases t with
    | nil => rfl
    | cons c cs =>
      simp only [escape, List.append_eq_nil_iff] at h
      exfalso
      have := h.1
      unfold escapeByte at this
      repeat' split at this
      all_goals simp at this
  · intro h; subst h; rfl

theorem escapeByte_no (c : UInt8) : ∀ x ∈ escapeByte c, x ≠ cLt ∧ x ≠ cQuot := by
  intro x hx
  unfold escapeByte at hx
  split at hx
  · revert x; decide
  split at hx
  · revert x; decide
  split at hx
  · revert x; decide
  split at hx
  · revert x; decide
  split at hx
  · revert x; decide
  · rename_i h1 _ _ _ h5
    simp only [List.mem_singleton] at hx
    subst hx
    exact ⟨h1, h5⟩

/-- escaped text contains neither `<` nor `"` -/
theorem escape_no : ∀ (t : Bytes), ∀ x ∈ escape t, x ≠ cLt ∧ x ≠ cQuot
  | [], x, hx => by simp [escape] at hx
  | c :: cs, x, hx => by
    simp only [escape, List.mem_append] at hx
    rcases hx with hx | hx
    · exact escapeByte_no c x hx
    · exact escape_no cs x hx

/-! ### `xml/ser.rs::text`: `escape`, then CR as `&#13;` -/

theorem replaceCr_append : ∀ (a b : Bytes), replaceCr (a ++ b) = replaceCr a ++ replaceCr b
  | [], _ => rfl
  | c :: cs, b => by simp [replaceCr, replaceCr_append cs b]

/-- what one byte becomes in a text event -/
def escapeTextByte (c : UInt8) : Bytes := replaceCr (escapeByte c)

theorem escapeText_cons (c : UInt8) (cs : Bytes) : escapeText (c :: cs) = escapeTextByte c ++ escapeText cs := by
  simp [escapeText, escape, replaceCr_append, escapeTextByte]

theorem escapeText_nil : escapeText [] = [] := rfl

theorem escapeTextByte_special {c : UInt8} (h : isSpecial c = true) : escapeTextByte c = escapeByte c := by
  simp only [isSpecial, Bool.or_eq_true, decide_eq_true_eq] at h
  rcases h with (((h | h) | h) | h) | h <;> subst h <;> decide

theorem escapeTextByte_cr : escapeTextByte 13 = [38, 35, 49, 51, 59] := by decide

theorem escapeTextByte_plain {c : UInt8} (h : isSpecial c = false) (hcr : c ≠ 13) : escapeTextByte c = [c] := by
  simp [escapeTextByte, escapeByte_of_not_special h, replaceCr, hcr]

theorem unescape_cr (r : Bytes) : unescape ([38, 35, 49, 51, 59] ++ r) = (unescape r).map (13 :: ·) := by
  have h13 : charRef [49, 51] = some [13] := by decide
  simp [unescape, unescapeEnt, resolveEntity, cAmp, cSemi, h13]

/-- `unescape (escapeText t) = t`: what the serialiser writes as text is read back unchanged -/
theorem unescape_escapeText (t : Bytes) : unescape (escapeText t) = some t := by
  induction t with
  | nil => simp [escapeText_nil, unescape]
  | cons c cs ih =>
    rw [escapeText_cons]
    by_cases hcr : c = 13
    · subst hcr
      rw [escapeTextByte_cr, unescape_cr, ih]; rfl
    · cases hs : isSpecial c with
      | false =>
        rw [escapeTextByte_plain hs hcr]
        have hamp : c ≠ cAmp := by
          intro h; subst h; simp [isSpecial] at hs
        rw [List.singleton_append, unescape_cons_of_ne_amp hamp, ih]; rfl
      | true =>
        rw [escapeTextByte_special hs]
        simp only [isSpecial, Bool.or_eq_true, decide_eq_true_eq] at hs
        rcases hs with (((h | h) | h) | h) | h <;> subst h
        · simp only [escapeByte, if_true]; rw [unescape_lt, ih]; rfl
        · rw [show escapeByte cGt = [38, 103, 116, 59] by decide, unescape_gt, ih]; rfl
        · rw [show escapeByte cAmp = [38, 97, 109, 112, 59] by decide, unescape_amp, ih]; rfl
        · rw [show escapeByte cApos = [38, 97, 112, 111, 115, 59] by decide, unescape_apos, ih]; rfl
        · rw [show escapeByte cQuot = [38, 113, 117, 111, 116, 59] by decide, unescape_quot, ih]; rfl

theorem escapeText_eq_self {t : Bytes} (h : ∀ c ∈ t, isSpecial c = false ∧ c ≠ 13) : escapeText t = t := by
  induction t with
  | nil => rfl
  | cons c cs ih =>
    rw [escapeText_cons, escapeTextByte_plain (h c (by simp)).1 (h c (by simp)).2,
      ih (fun c hc => h c (by simp [hc]))]
    rfl

theorem escapeTextByte_ne_nil (c : UInt8) : escapeTextByte c ≠ [] := by
  by_cases hcr : c = 13
  · subst hcr; decide
  · cases hs : isSpecial c with
    | false => simp [escapeTextByte_plain hs hcr]
    | true =>
      rw [escapeTextByte_special hs]
      unfold escapeByte
      repeat' split
      all_goals simp

theorem escapeText_eq_nil {t : Bytes} : escapeText t = [] ↔ t = [] := by
  constructor
  · intro h
    cases t with
    | nil => rfl
    | cons c cs =>
      rw [escapeText_cons] at h
      exact absurd (List.append_eq_nil_iff.mp h).1 (escapeTextByte_ne_nil c)
  · intro h; subst h; rfl

/-! ### line ends: what the serialiser writes as text holds no literal CR, so `Deserializer::text` leaves it alone -/

theorem contains_cr_false {x : Bytes} (h : ∀ c ∈ x, c ≠ 13) : x.contains 13 = false := by
  cases hc : x.contains 13 with
  | false => rfl
  | true => exact absurd rfl (h 13 (List.contains_iff_mem.mp hc))

theorem normLineEnds_of_noCr {x : Bytes} (h : ∀ c ∈ x, c ≠ 13) : normLineEnds x = x := by
  simp only [normLineEnds, contains_cr_false h, Bool.false_eq_true, if_false]

theorem normText_of_noCr {x : Bytes} (h : ∀ c ∈ x, c ≠ 13) : normText x = x := by
  simp only [normText, contains_cr_false h, Bool.false_eq_true, if_false]

theorem escapeByte_noCr (c : UInt8) (hc : c ≠ 13) : ∀ x ∈ escapeByte c, x ≠ 13 := by
  intro x hx
  unfold escapeByte at hx
  split at hx
  · revert x; decide
  split at hx
  · revert x; decide
  split at hx
  · revert x; decide
  split at hx
  · revert x; decide
  split at hx
  · revert x; decide
  · simp only [List.mem_singleton] at hx; subst hx; exact hc

theorem escapeTextByte_noCr (c : UInt8) : ∀ x ∈ escapeTextByte c, x ≠ 13 := by
  by_cases hcr : c = 13
  · subst hcr; decide
  · cases hs : isSpecial c with
    | false => rw [escapeTextByte_plain hs hcr]; intro x hx; simp only [List.mem_singleton] at hx; subst hx; exact hcr
    | true => rw [escapeTextByte_special hs]; exact escapeByte_noCr c hcr

/-- `xml/ser.rs::text` writes no literal carriage return (every CR goes out as `&#13;`) -/
theorem escapeText_noCr : ∀ (t : Bytes), ∀ x ∈ escapeText t, x ≠ 13
  | [], x, hx => by simp [escapeText_nil] at hx
  | c :: cs, x, hx => by
    rw [escapeText_cons, List.mem_append] at hx
    rcases hx with hx | hx
    · exact escapeTextByte_noCr c x hx
    · exact escapeText_noCr cs x hx

/-! ### `xml/ser.rs::attr_value`: `escape`, then tab, LF and CR as character references (since 680006e) -/

theorem replaceRef_append (c : UInt8) (ref : Bytes) : ∀ (a b : Bytes),
    replaceRef c ref (a ++ b) = replaceRef c ref a ++ replaceRef c ref b
  | [], _ => rfl
  | x :: xs, b => by simp [replaceRef, replaceRef_append c ref xs b]

/-- what one byte becomes in an attribute value -/
def escapeAttrByte (c : UInt8) : Bytes := replaceCr (replaceRef 10 lfRef (replaceRef 9 tabRef (escapeByte c)))

theorem escapeAttr_nil : escapeAttr [] = [] := rfl

theorem escapeAttr_cons (c : UInt8) (cs : Bytes) : escapeAttr (c :: cs) = escapeAttrByte c ++ escapeAttr cs := by
  simp [escapeAttr, escape, replaceCr_append, replaceRef_append, escapeAttrByte]

theorem escapeAttrByte_special {c : UInt8} (h : isSpecial c = true) : escapeAttrByte c = escapeByte c := by
  simp only [isSpecial, Bool.or_eq_true, decide_eq_true_eq] at h
  rcases h with (((h | h) | h) | h) | h <;> subst h <;> decide

theorem escapeAttrByte_tab : escapeAttrByte 9 = [38, 35, 57, 59] := by decide
theorem escapeAttrByte_lf : escapeAttrByte 10 = [38, 35, 49, 48, 59] := by decide
theorem escapeAttrByte_cr : escapeAttrByte 13 = [38, 35, 49, 51, 59] := by decide

theorem escapeAttrByte_plain {c : UInt8} (h : isSpecial c = false) (h9 : c ≠ 9) (h10 : c ≠ 10) (h13 : c ≠ 13) :
    escapeAttrByte c = [c] := by
  simp [escapeAttrByte, escapeByte_of_not_special h, replaceRef, replaceCr, h9, h10, h13]

theorem unescape_tab (r : Bytes) : unescape ([38, 35, 57, 59] ++ r) = (unescape r).map (9 :: ·) := by
  have h9 : charRef [57] = some [9] := by decide
  simp [unescape, unescapeEnt, resolveEntity, cAmp, cSemi, h9]

theorem unescape_lf (r : Bytes) : unescape ([38, 35, 49, 48, 59] ++ r) = (unescape r).map (10 :: ·) := by
  have h10 : charRef [49, 48] = some [10] := by decide
  simp [unescape, unescapeEnt, resolveEntity, cAmp, cSemi, h10]

/-- `unescape (escapeAttr t) = t`: what the serialiser writes as an attribute value is read back unchanged -/
theorem unescape_escapeAttr (t : Bytes) : unescape (escapeAttr t) = some t := by
  induction t with
  | nil => simp [escapeAttr_nil, unescape]
  | cons c cs ih =>
    rw [escapeAttr_cons]
    by_cases h9 : c = 9
    · subst h9; rw [escapeAttrByte_tab, unescape_tab, ih]; rfl
    by_cases h10 : c = 10
    · subst h10; rw [escapeAttrByte_lf, unescape_lf, ih]; rfl
    by_cases h13 : c = 13
    · subst h13; rw [escapeAttrByte_cr, unescape_cr, ih]; rfl
    cases hs : isSpecial c with
    | false =>
      rw [escapeAttrByte_plain hs h9 h10 h13]
      have hamp : c ≠ cAmp := by
        intro h; subst h; simp [isSpecial] at hs
      rw [List.singleton_append, unescape_cons_of_ne_amp hamp, ih]; rfl
    | true =>
      rw [escapeAttrByte_special hs]
      simp only [isSpecial, Bool.or_eq_true, decide_eq_true_eq] at hs
      rcases hs with (((h | h) | h) | h) | h <;> subst h
      · simp only [escapeByte, if_true]; rw [unescape_lt, ih]; rfl
      · rw [show escapeByte cGt = [38, 103, 116, 59] by decide, unescape_gt, ih]; rfl
      · rw [show escapeByte cAmp = [38, 97, 109, 112, 59] by decide, unescape_amp, ih]; rfl
      · rw [show escapeByte cApos = [38, 97, 112, 111, 115, 59] by decide, unescape_apos, ih]; rfl
      · rw [show escapeByte cQuot = [38, 113, 117, 111, 116, 59] by decide, unescape_quot, ih]; rfl

theorem escapeAttrByte_clean (c : UInt8) :
    ∀ x ∈ escapeAttrByte c, x ≠ 9 ∧ x ≠ 10 ∧ x ≠ 13 ∧ x ≠ cQuot ∧ x ≠ cLt := by
  by_cases h9 : c = 9
  · subst h9; decide
  by_cases h10 : c = 10
  · subst h10; decide
  by_cases h13 : c = 13
  · subst h13; decide
  cases hs : isSpecial c with
  | false =>
    rw [escapeAttrByte_plain hs h9 h10 h13]
    intro x hx
    simp only [List.mem_singleton] at hx
    subst hx
    refine ⟨h9, h10, h13, ?_, ?_⟩ <;> (intro h; subst h; simp [isSpecial] at hs)
  | true =>
    rw [escapeAttrByte_special hs]
    simp only [isSpecial, Bool.or_eq_true, decide_eq_true_eq] at hs
    rcases hs with (((h | h) | h) | h) | h <;> subst h <;> decide

/-- `attr_value` writes no literal tab, LF, CR, `"` or `<` -/
theorem escapeAttr_clean : ∀ (t : Bytes), ∀ x ∈ escapeAttr t, x ≠ 9 ∧ x ≠ 10 ∧ x ≠ 13 ∧ x ≠ cQuot ∧ x ≠ cLt
  | [], x, hx => by simp [escapeAttr_nil] at hx
  | c :: cs, x, hx => by
    rw [escapeAttr_cons, List.mem_append] at hx
    rcases hx with hx | hx
    · exact escapeAttrByte_clean c x hx
    · exact escapeAttr_clean cs x hx

/-- attribute-value normalisation leaves what `attr_value` wrote as it is -/
theorem attrNormalize_escapeAttr (t : Bytes) : attrNormalize (escapeAttr t) = escapeAttr t := by
  have hcr : ∀ c ∈ escapeAttr t, c ≠ 13 := fun c hc => (escapeAttr_clean t c hc).2.2.1
  unfold attrNormalize
  rw [normLineEnds_of_noCr hcr]
  have : ∀ (l : Bytes), (∀ c ∈ l, c ≠ 9 ∧ c ≠ 10) → l.map (fun c => if c = 9 || c = 10 then 32 else c) = l := by
    intro l
    induction l with
    | nil => intro _; rfl
    | cons c cs ih =>
      intro h
      have hc := h c (by simp)
      simp only [List.map_cons, hc.1, hc.2, decide_false, Bool.or_self, Bool.false_eq_true, if_false]
      rw [ih (fun x hx => h x (by simp [hx]))]
  exact this _ (fun c hc => ⟨(escapeAttr_clean t c hc).1, (escapeAttr_clean t c hc).2.1⟩)

/-! ### integers -/

theorem isDigit_not_special {c : UInt8} (h : isDigit c = true) : isSpecial c = false := by
  simp only [isDigit, Bool.and_eq_true, decide_eq_true_eq] at h
  simp only [isSpecial, cLt, cGt, cAmp, cApos, cQuot, Bool.or_eq_false_iff]
  refine ⟨⟨⟨⟨?_, ?_⟩, ?_⟩, ?_⟩, ?_⟩ <;> (apply decide_eq_false; intro hc; subst hc; simp at h)

theorem escape_fmtDec (n : Nat) : escape (fmtDec n) = fmtDec n :=
  escape_eq_self fun c hc => isDigit_not_special (fmtDec_all_digits n c hc)

theorem isDigit_ne_cr {c : UInt8} (h : isDigit c = true) : c ≠ 13 := by
  intro hc; subst hc; simp [isDigit] at h

theorem escapeText_fmtDec (n : Nat) : escapeText (fmtDec n) = fmtDec n :=
  escapeText_eq_self fun c hc =>
    ⟨isDigit_not_special (fmtDec_all_digits n c hc), isDigit_ne_cr (fmtDec_all_digits n c hc)⟩

theorem escapeText_fmtInt (i : Int) : escapeText (fmtInt i) = fmtInt i := by
  unfold fmtInt
  split
  · rw [escapeText_cons, escapeText_fmtDec, show escapeTextByte 45 = [45] by decide]
    rfl
  · exact escapeText_fmtDec _

theorem escape_fmtInt (i : Int) : escape (fmtInt i) = fmtInt i := by
  unfold fmtInt
  split
  · simp only [escape]
    rw [escape_fmtDec]
    simp [escapeByte, cLt, cGt, cAmp, cApos, cQuot]
  · exact escape_fmtDec _

theorem fmtInt_ne_nil (i : Int) : fmtInt i ≠ [] := by
  unfold fmtInt
  split
  · simp
  · exact fmtDec_ne_nil _

theorem fmtDec_head (n : Nat) : ∃ c r, fmtDec n = c :: r ∧ isDigit c = true := by
  cases h : fmtDec n with
  | nil => exact absurd h (fmtDec_ne_nil n)
  | cons c r => exact ⟨c, r, rfl, fmtDec_all_digits n c (by simp [h])⟩

theorem parseInt_fmtInt {lo hi i : Int} (h1 : lo ≤ i) (h2 : i ≤ hi) : parseInt lo hi (fmtInt i) = some i := by
  unfold fmtInt
  by_cases hneg : i < 0
  · simp only [if_pos hneg, parseInt, parseIntBody]
    have hne := fmtDec_ne_nil i.natAbs
    simp only [hne, if_false, digitsVal_fmtDec_zero, if_true]
    have : -((i.natAbs : Nat) : Int) = i := by omega
    simp [this, h1, h2]
  · simp only [if_neg hneg]
    obtain ⟨c, r, hcr, hd⟩ := fmtDec_head i.toNat
    have h43 : c ≠ 43 := by intro hc; subst hc; simp [isDigit] at hd
    have h45 : c ≠ 45 := by intro hc; subst hc; simp [isDigit] at hd
    have hv := digitsVal_fmtDec_zero i.toNat
    rw [hcr] at hv ⊢
    have hi' : ((i.toNat : Nat) : Int) = i := by omega
    unfold parseInt
    split
    · rename_i heq
      injection heq with ha hb
      exact absurd ha h43
    · rename_i heq
      injection heq with ha hb
      exact absurd ha h45
    · simp only [parseIntBody, List.cons_ne_nil, if_false, hv]
      simp [hi', h1, h2]

/-! ### booleans -/

theorem parseBool_fmtBool (b : Bool) : parseBool (fmtBool b) = some b := by
  cases b <;> simp [parseBool, fmtBool]

theorem escape_fmtBool (b : Bool) : escape (fmtBool b) = fmtBool b := by
  cases b <;> simp [fmtBool, escape, escapeByte, cLt, cGt, cAmp, cApos, cQuot]

theorem escapeText_fmtBool (b : Bool) : escapeText (fmtBool b) = fmtBool b := by
  cases b <;> decide

theorem fmtBool_ne_nil (b : Bool) : fmtBool b ≠ [] := by cases b <;> simp [fmtBool]

end S3V.Xml
