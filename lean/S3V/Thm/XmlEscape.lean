import S3V.Model.Xml
/-!
Lemmas about the scalar text forms of the XML codec model: `unescape ∘ escape`, integers, booleans.
-/
namespace S3V.Xml
open S3V

/-- the five bytes `escape` rewrites -/
def isSpecial (c : UInt8) : Bool := c = cLt || c = cGt || c = cAmp || c = cApos || c = cQuot

theorem escapeByte_of_not_special {c : UInt8} (h : isSpecial c = false) : escapeByte c = [c] := by
  simp only [isSpecial, Bool.or_eq_false_iff, decide_eq_false_iff_not] at h
  obtain ⟨⟨⟨⟨h1, h2⟩, h3⟩, h4⟩, h5⟩ := h
  simp [escapeByte, h1, h2, h3, h4, h5]

theorem unescape_cons_of_ne_amp {c : UInt8} (h : c ≠ cAmp) (cs : Bytes) :
    unescape (c :: cs) = (unescape cs).map (c :: ·) := by
  simp [unescape, h]

theorem unescape_lt (r : Bytes) : unescape ([38, 108, 116, 59] ++ r) = (unescape r).map (cLt :: ·) := by
  simp [unescape, unescapeEnt, resolveEntity, cAmp, cSemi, cLt]

theorem unescape_gt (r : Bytes) : unescape ([38, 103, 116, 59] ++ r) = (unescape r).map (cGt :: ·) := by
  simp [unescape, unescapeEnt, resolveEntity, cAmp, cSemi, cGt]

theorem unescape_amp (r : Bytes) : unescape ([38, 97, 109, 112, 59] ++ r) = (unescape r).map (cAmp :: ·) := by
  simp [unescape, unescapeEnt, resolveEntity, cAmp, cSemi]

theorem unescape_apos (r : Bytes) : unescape ([38, 97, 112, 111, 115, 59] ++ r) = (unescape r).map (cApos :: ·) := by
  simp [unescape, unescapeEnt, resolveEntity, cAmp, cSemi, cApos]

theorem unescape_quot (r : Bytes) : unescape ([38, 113, 117, 111, 116, 59] ++ r) = (unescape r).map (cQuot :: ·) := by
  simp [unescape, unescapeEnt, resolveEntity, cAmp, cSemi, cQuot]

/-- `unescape (escape t) = t` for every byte string -/
theorem unescape_escape (t : Bytes) : unescape (escape t) = some t := by
  induction t with
  | nil => simp [escape, unescape]
  | cons c cs ih =>
    simp only [escape]
    by_cases h1 : c = cLt
    · subst h1; simp only [escapeByte, if_true]; rw [unescape_lt, ih]; rfl
    by_cases h2 : c = cGt
    · subst h2; simp only [escapeByte, if_neg h1, if_true]; rw [unescape_gt, ih]; rfl
    by_cases h3 : c = cAmp
    · subst h3; simp only [escapeByte, if_neg h1, if_neg h2, if_true]; rw [unescape_amp, ih]; rfl
    by_cases h4 : c = cApos
    · subst h4; simp only [escapeByte, if_neg h1, if_neg h2, if_neg h3, if_true]; rw [unescape_apos, ih]; rfl
    by_cases h5 : c = cQuot
    · subst h5; simp only [escapeByte, if_neg h1, if_neg h2, if_neg h3, if_neg h4, if_true]; rw [unescape_quot, ih]; rfl
    · simp only [escapeByte, if_neg h1, if_neg h2, if_neg h3, if_neg h4, if_neg h5, List.singleton_append]
      rw [unescape_cons_of_ne_amp h3, ih]; rfl

theorem escape_eq_self {t : Bytes} (h : ∀ c ∈ t, isSpecial c = false) : escape t = t := by
  induction t with
  | nil => rfl
  | cons c cs ih =>
    simp only [escape]
    rw [escapeByte_of_not_special (h c (by simp)), ih (fun c hc => h c (by simp [hc]))]
    rfl

theorem escape_eq_nil {t : Bytes} : escape t = [] ↔ t = [] := by
  constructor
  · intro h
    cases t with
    | nil => rfl
    | cons c cs =>
      simp only [escape, List.append_eq_nil_iff] at h
      exfalso
      have := h.1
      unfold escapeByte at this
      repeat' split at this
      all_goals simp at this
  · intro h; subst h; rfl

/-! ### `xml/ser.rs::text`: `escape`, then CR as `&#13;` -/

theorem replaceCr_append : ∀ (a b : Bytes), replaceCr (a ++ b) = replaceCr a ++ replaceCr b
  | [], _ => rfl
  | c :: cs, b => by simp [replaceCr, replaceCr_append cs b]

/-- what one byte becomes in a text event -/
def escapeTextByte (c : UInt8) : Bytes := replaceCr (escapeByte c)

theorem escapeText_cons (c : UInt8) (cs : Bytes) : escapeText (c :: cs) = escapeTextByte c ++ escapeText cs := by
  simp [escapeText, escape, replaceCr_append, escapeTextByte]

theorem escapeText_nil : escapeText [] = [] := rfl

theorem escapeTextByte_special {c : UInt8} (h : isSpecial c = true) : escapeTextByte c = escapeByte c := by
  simp only [isSpecial, Bool.or_eq_true, decide_eq_true_eq] at h
  rcases h with (((h | h) | h) | h) | h <;> subst h <;> decide

theorem escapeTextByte_cr : escapeTextByte 13 = [38, 35, 49, 51, 59] := by decide

theorem escapeTextByte_plain {c : UInt8} (h : isSpecial c = false) (hcr : c ≠ 13) : escapeTextByte c = [c] := by
  simp [escapeTextByte, escapeByte_of_not_special h, replaceCr, hcr]

theorem unescape_cr (r : Bytes) : unescape ([38, 35, 49, 51, 59] ++ r) = (unescape r).map (13 :: ·) := by
  have h13 : charRef [49, 51] = some [13] := by decide
  simp [unescape, unescapeEnt, resolveEntity, cAmp, cSemi, h13]

/-- `unescape (escapeText t) = t`: what the serialiser writes as text is read back unchanged -/
theorem unescape_escapeText (t : Bytes) : unescape (escapeText t) = some t := by
  induction t with
  | nil => simp [escapeText_nil, unescape]
  | cons c cs ih =>
    rw [escapeText_cons]
    by_cases hcr : c = 13
    · subst hcr
      rw [escapeTextByte_cr, unescape_cr, ih]; rfl
    · cases hs : isSpecial c with
      | false =>
        rw [escapeTextByte_plain hs hcr]
        have hamp : c ≠ cAmp := by
          intro h; subst h; simp [isSpecial] at hs
        rw [List.singleton_append, unescape_cons_of_ne_amp hamp, ih]; rfl
      | true =>
        rw [escapeTextByte_special hs]
        simp only [isSpecial, Bool.or_eq_true, decide_eq_true_eq] at hs
        rcases hs with (((h | h) | h) | h) | h <;> subst h
        · simp only [escapeByte, if_true]; rw [unescape_lt, ih]; rfl
        · rw [show escapeByte cGt = [38, 103, 116, 59] by decide, unescape_gt, ih]; rfl
        · rw [show escapeByte cAmp = [38, 97, 109, 112, 59] by decide, unescape_amp, ih]; rfl
        · rw [show escapeByte cApos = [38, 97, 112, 111, 115, 59] by decide, unescape_apos, ih]; rfl
        · rw [show escapeByte cQuot = [38, 113, 117, 111, 116, 59] by decide, unescape_quot, ih]; rfl

theorem escapeText_eq_self {t : Bytes} (h : ∀ c ∈ t, isSpecial c = false ∧ c ≠ 13) : escapeText t = t := by
  induction t with
  | nil => rfl
  | cons c cs ih =>
    rw [escapeText_cons, escapeTextByte_plain (h c (by simp)).1 (h c (by simp)).2,
      ih (fun c hc => h c (by simp [hc]))]
    rfl

theorem escapeTextByte_ne_nil (c : UInt8) : escapeTextByte c ≠ [] := by
  by_cases hcr : c = 13
  · subst hcr; decide
  · cases hs : isSpecial c with
    | false => simp [escapeTextByte_plain hs hcr]
    | true =>
      rw [escapeTextByte_special hs]
      unfold escapeByte
      repeat' split
      all_goals simp

theorem escapeText_eq_nil {t : Bytes} : escapeText t = [] ↔ t = [] := by
  constructor
  · intro h
    cases t with
    | nil => rfl
    | cons c cs =>
      rw [escapeText_cons] at h
      exact absurd (List.append_eq_nil_iff.mp h).1 (escapeTextByte_ne_nil c)
  · intro h; subst h; rfl

/-! ### line ends: what the serialiser writes as text holds no literal CR, so `Deserializer::text` leaves it alone -/

theorem contains_cr_false {x : Bytes} (h : ∀ c ∈ x, c ≠ 13) : x.contains 13 = false := by
  cases hc : x.contains 13 with
  | false => rfl
  | true => exact absurd rfl (h 13 (List.contains_iff_mem.mp hc))

theorem normLineEnds_of_noCr {x : Bytes} (h : ∀ c ∈ x, c ≠ 13) : normLineEnds x = x := by
  simp only [normLineEnds, contains_cr_false h, Bool.false_eq_true, if_false]

theorem normText_of_noCr {x : Bytes} (h : ∀ c ∈ x, c ≠ 13) : normText x = x := by
  simp only [normText, contains_cr_false h, Bool.false_eq_true, if_false]

theorem escapeByte_noCr (c : UInt8) (hc : c ≠ 13) : ∀ x ∈ escapeByte c, x ≠ 13 := by
  intro x hx
  unfold escapeByte at hx
  split at hx
  · revert x; decide
  split at hx
  · revert x; decide
  split at hx
  · revert x; decide
  split at hx
  · revert x; decide
  split at hx
  · revert x; decide
  · simp only [List.mem_singleton] at hx; subst hx; exact hc

theorem escapeTextByte_noCr (c : UInt8) : ∀ x ∈ escapeTextByte c, x ≠ 13 := by
  by_cases hcr : c = 13
  · subst hcr; decide
  · cases hs : isSpecial c with
    | false => rw [escapeTextByte_plain hs hcr]; intro x hx; simp only [List.mem_singleton] at hx; subst hx; exact hcr
    | true => rw [escapeTextByte_special hs]; exact escapeByte_noCr c hcr

/-- `xml/ser.rs::text` writes no literal carriage return (every CR goes out as `&#13;`) -/
theorem escapeText_noCr : ∀ (t : Bytes), ∀ x ∈ escapeText t, x ≠ 13
  | [], x, hx => by simp [escapeText_nil] at hx
  | c :: cs, x, hx => by
    rw [escapeText_cons, List.mem_append] at hx
    rcases hx with hx | hx
    · exact escapeTextByte_noCr c x hx
    · exact escapeText_noCr cs x hx

/-! ### integers -/

theorem isDigit_not_special {c : UInt8} (h : isDigit c = true) : isSpecial c = false := by
  simp only [isDigit, Bool.and_eq_true, decide_eq_true_eq] at h
  simp only [isSpecial, cLt, cGt, cAmp, cApos, cQuot, Bool.or_eq_false_iff]
  refine ⟨⟨⟨⟨?_, ?_⟩, ?_⟩, ?_⟩, ?_⟩ <;> (apply decide_eq_false; intro hc; subst hc; simp at h)

theorem escape_fmtDec (n : Nat) : escape (fmtDec n) = fmtDec n :=
  escape_eq_self fun c hc => isDigit_not_special (fmtDec_all_digits n c hc)

theorem isDigit_ne_cr {c : UInt8} (h : isDigit c = true) : c ≠ 13 := by
  intro hc; subst hc; simp [isDigit] at h

theorem escapeText_fmtDec (n : Nat) : escapeText (fmtDec n) = fmtDec n :=
  escapeText_eq_self fun c hc =>
    ⟨isDigit_not_special (fmtDec_all_digits n c hc), isDigit_ne_cr (fmtDec_all_digits n c hc)⟩

theorem escapeText_fmtInt (i : Int) : escapeText (fmtInt i) = fmtInt i := by
  unfold fmtInt
  split
  · rw [escapeText_cons, escapeText_fmtDec, show escapeTextByte 45 = [45] by decide]
    rfl
  · exact escapeText_fmtDec _

theorem escape_fmtInt (i : Int) : escape (fmtInt i) = fmtInt i := by
  unfold fmtInt
  split
  · simp only [escape]
    rw [escape_fmtDec]
    simp [escapeByte, cLt, cGt, cAmp, cApos, cQuot]
  · exact escape_fmtDec _

theorem fmtInt_ne_nil (i : Int) : fmtInt i ≠ [] := by
  unfold fmtInt
  split
  · simp
  · exact fmtDec_ne_nil _

theorem fmtDec_head (n : Nat) : ∃ c r, fmtDec n = c :: r ∧ isDigit c = true := by
  cases h : fmtDec n with
  | nil => exact absurd h (fmtDec_ne_nil n)
  | cons c r => exact ⟨c, r, rfl, fmtDec_all_digits n c (by simp [h])⟩

theorem parseInt_fmtInt {lo hi i : Int} (h1 : lo ≤ i) (h2 : i ≤ hi) : parseInt lo hi (fmtInt i) = some i := by
  unfold fmtInt
  by_cases hneg : i < 0
  · simp only [if_pos hneg, parseInt, parseIntBody]
    have hne := fmtDec_ne_nil i.natAbs
    simp only [hne, if_false, digitsVal_fmtDec_zero, if_true]
    have : -((i.natAbs : Nat) : Int) = i := by omega
    simp [this, h1, h2]
  · simp only [if_neg hneg]
    obtain ⟨c, r, hcr, hd⟩ := fmtDec_head i.toNat
    have h43 : c ≠ 43 := by intro hc; subst hc; simp [isDigit] at hd
    have h45 : c ≠ 45 := by intro hc; subst hc; simp [isDigit] at hd
    have hv := digitsVal_fmtDec_zero i.toNat
    rw [hcr] at hv ⊢
    have hi' : ((i.toNat : Nat) : Int) = i := by omega
    unfold parseInt
    split
    · rename_i heq
      injection heq with ha hb
      exact absurd ha h43
    · rename_i heq
      injection heq with ha hb
      exact absurd ha h45
    · simp only [parseIntBody, List.cons_ne_nil, if_false, hv]
      simp [hi', h1, h2]

/-! ### booleans -/

theorem parseBool_fmtBool (b : Bool) : parseBool (fmtBool b) = some b := by
  cases b <;> simp [parseBool, fmtBool]

theorem escape_fmtBool (b : Bool) : escape (fmtBool b) = fmtBool b := by
  cases b <;> simp [fmtBool, escape, escapeByte, cLt, cGt, cAmp, cApos, cQuot]

theorem escapeText_fmtBool (b : Bool) : escapeText (fmtBool b) = fmtBool b := by
  cases b <;> decide

theorem fmtBool_ne_nil (b : Bool) : fmtBool b ≠ [] := by cases b <;> simp [fmtBool]

end S3V.Xml
