import S3V.Thm.FsStoreMultipart
/-!
# C18: `complete_multipart_upload` refines the store (concatenation in part order, ownership)
-/
namespace S3V.FsStore
open S3V.StoreSpec

theorem optMapM_cons {α β : Type} (f : α → Option β) (a : α) (l : List α) :
    (a :: l).mapM f = (f a).bind fun b => (l.mapM f).map (b :: ·) := by
  rw [List.mapM_cons]
  cases f a <;> cases l.mapM f <;> rfl

def fp (id' : Nat) : (Nat × Int) × Bytes → Option (Int × Bytes) :=
  fun p => if p.1.1 = id' then some (p.1.2, p.2) else none

/-- `ps` is `parts` with some part files of upload `id` removed -/
def Erased (id : Nat) (parts ps : List ((Nat × Int) × Bytes)) : Prop :=
  keysNodup parts → (keysNodup ps ∧ (∀ e ∈ ps, e ∈ parts) ∧ ∀ id', id' ≠ id → ps.filterMap (fp id') = parts.filterMap (fp id'))

theorem Erased.refl (id : Nat) (parts : List ((Nat × Int) × Bytes)) : Erased id parts parts :=
  fun h => ⟨h, fun _ he => he, fun _ _ => rfl⟩

theorem filterMap_erase_other (id id' : Nat) (n : Int) (hne : id' ≠ id) (l : List ((Nat × Int) × Bytes)) :
    (alErase (id, n) l).filterMap (fp id') = l.filterMap (fp id') := by
  induction l with
  | nil => rfl
  | cons e t ih =>
    obtain ⟨⟨i, m⟩, b⟩ := e
    by_cases h : (i, m) = (id, n)
    · simp only [Prod.mk.injEq] at h
      obtain ⟨rfl, rfl⟩ := h
      simp only [alErase, if_true, List.filterMap_cons, ih]
      have : fp id' ((i, m), b) = none := by simp [fp, hne.symm]
      rw [this]
    · simp only [alErase, h, if_false, List.filterMap_cons, ih]

theorem Erased.step {id : Nat} {n : Int} {parts ps : List ((Nat × Int) × Bytes)}
    (h : Erased id (alErase (id, n) parts) ps) : Erased id parts ps := by
  intro hnd
  obtain ⟨h1, h2, h3⟩ := h (keysNodup_alErase hnd)
  refine ⟨h1, fun e he => alErase_mem (h2 e he), ?_⟩
  intro id' hne
  rw [h3 id' hne, filterMap_erase_other id id' n hne]

theorem sizesOk_cons {c : Bytes} {cs : List Bytes} (h : sizesOk (c :: cs) = true) :
    sizesOk cs = true ∧ (cs ≠ [] → c.length ≥ minPartSize) := by
  cases cs with
  | nil => exact ⟨rfl, fun h => absurd rfl h⟩
  | cons d ds =>
    simp only [sizesOk, Bool.and_eq_true, decide_eq_true_eq] at h
    exact ⟨h.2, fun _ => h.1⟩

theorem optMapM_length {α β : Type} (f : α → Option β) :
    ∀ (l : List α) (r : List β), l.mapM f = some r → r.length = l.length := by
  intro l
  induction l with
  | nil => intro r h; simp at h; subst h; rfl
  | cons a t ih =>
    intro r h
    rw [optMapM_cons] at h
    cases hf : f a with
    | none => simp [hf] at h
    | some b =>
      cases ht : t.mapM f with
      | none => simp [hf, ht] at h
      | some bs =>
        simp [hf, ht] at h
        subst h
        simp [ih bs ht]

/-- first pass: the numbers of the listed parts, as the store reads them -/
theorem partNumbers_eq : ∀ (pl : List (Option Int)), partNumbers pl = pl.mapM (fun x => x)
  | [] => by simp [partNumbers]
  | none :: t => by rw [optMapM_cons]; rfl
  | some n :: t => by
    rw [optMapM_cons, ← partNumbers_eq t]
    simp only [partNumbers]
    cases partNumbers t <;> rfl

/-- second pass: the order test of the code (`windows(2).any(|w| w[0] >= w[1])`) is the store's (not strictly ascending) -/
theorem outOfOrder_eq : ∀ (ns : List Int), outOfOrder ns = !ascending ns
  | [] => rfl
  | [_] => rfl
  | a :: b :: t => by
    have ih := outOfOrder_eq (b :: t)
    by_cases h : a < b
    · have h' : ¬ a ≥ b := by omega
      simp [outOfOrder, ascending, h, h', ih]
    · have h' : a ≥ b := by omega
      simp [outOfOrder, ascending, h, h']

/-- strictly ascending, as a `Pairwise` -/
theorem ascending_pairwise : ∀ (ns : List Int), ascending ns = true → ns.Pairwise (· < ·)
  | [] => fun _ => List.Pairwise.nil
  | [_] => fun _ => by simp
  | a :: b :: t => fun h => by
    simp only [ascending, Bool.and_eq_true, decide_eq_true_eq] at h
    have ih := ascending_pairwise (b :: t) h.2
    rw [List.pairwise_cons]
    refine ⟨?_, ih⟩
    intro x hx
    rcases List.mem_cons.mp hx with rfl | hx
    · exact h.1
    · have := (List.pairwise_cons.mp ih).1 x hx
      omega

/-- third pass: the contents of the part files of the listed numbers, in list order — what the store looks up -/
theorem partFiles_contents (id : Nat) (parts : List ((Nat × Int) × Bytes)) :
    ∀ (ns : List Int), (partFiles id parts ns).map (·.map (·.2)) = ns.mapM (fun n => alLookup (id, n) parts)
  | [] => by simp [partFiles]
  | n :: t => by
    rw [optMapM_cons, ← partFiles_contents id parts t]
    simp only [partFiles]
    cases alLookup (id, n) parts with
    | none => rfl
    | some c => cases partFiles id parts t <;> rfl

/-- … paired with exactly the listed numbers -/
theorem partFiles_numbers (id : Nat) (parts : List ((Nat × Int) × Bytes)) :
    ∀ (ns : List Int) (ps : List (Int × Bytes)), partFiles id parts ns = some ps → ps.map (·.1) = ns
  | [], ps, h => by simp [partFiles] at h; subst h; rfl
  | n :: t, ps, h => by
    unfold partFiles at h
    cases hl : alLookup (id, n) parts with
    | none => simp [hl] at h
    | some c =>
      cases ht : partFiles id parts t with
      | none => simp [hl, ht] at h
      | some qs =>
        simp [hl, ht] at h
        subst h
        simp [partFiles_numbers id parts t qs ht]

/-- … each content being that of the part file of its number -/
theorem partFiles_mem (id : Nat) (parts : List ((Nat × Int) × Bytes)) :
    ∀ (ns : List Int) (ps : List (Int × Bytes)), partFiles id parts ns = some ps →
      ∀ e ∈ ps, alLookup (id, e.1) parts = some e.2
  | [], ps, h => by simp [partFiles] at h; subst h; simp
  | n :: t, ps, h => by
    unfold partFiles at h
    cases hl : alLookup (id, n) parts with
    | none => simp [hl] at h
    | some c =>
      cases ht : partFiles id parts t with
      | none => simp [hl, ht] at h
      | some qs =>
        simp [hl, ht] at h
        subst h
        intro e he
        rcases List.mem_cons.mp he with rfl | he
        · exact hl
        · exact partFiles_mem id parts t qs ht e he

/-- fourth pass: the size rule of the code (a part other than the last listed is below the minimum) is the store's -/
theorem partTooSmall_eq : ∀ (ps : List (Int × Bytes)), partTooSmall ps = !sizesOk (ps.map (·.2))
  | [] => rfl
  | [_] => rfl
  | a :: b :: t => by
    have ih := partTooSmall_eq (b :: t)
    simp only [List.map_cons] at ih
    by_cases h : a.2.length < minPartSize
    · have h' : ¬ a.2.length ≥ minPartSize := by omega
      simp [partTooSmall, sizesOk, h, h']
    · have h' : a.2.length ≥ minPartSize := by omega
      simp [partTooSmall, sizesOk, h, h', ih]

/-- removing the listed part files removes part files of this upload only -/
theorem eraseParts_erased (id : Nat) : ∀ (ns : List Int) (parts : List ((Nat × Int) × Bytes)),
    Erased id parts (eraseParts id ns parts) := by
  intro ns
  induction ns with
  | nil => intro parts; exact Erased.refl id parts
  | cons n r ih =>
    intro parts
    have : eraseParts id (n :: r) parts = eraseParts id r (alErase (id, n) parts) := rfl
    rw [this]
    exact (ih (alErase (id, n) parts)).step

end S3V.FsStore

namespace S3V.FsStore
open S3V.StoreSpec

theorem absParts_lookup {s : State} (hi : Inv s) (id : Nat) (n : Int) :
    alLookup n (absParts s id) = alLookup (id, n) s.parts := by
  unfold absParts
  rw [alLookup_filterMap (fun p => if p.1.1 = id then some (p.1.2, p.2) else none) (id, n) n s.parts hi.pnd]
  · cases alLookup (id, n) s.parts <;> simp
  · intro b' cd _ h
    simp at h
    rw [← h]
  · intro a' b' c' d' _ hne h
    obtain ⟨i, m⟩ := a'
    by_cases hi' : i = id
    · subst hi'
      simp at h
      rw [← h.1]
      intro e; exact hne (by rw [e])
    · simp [hi'] at h

theorem sideTooLong_mono {b k : Bytes} (h : sideTooLong b k true = false) : sideTooLong b k false = false := by
  unfold sideTooLong at h ⊢
  simp only [if_true, decide_eq_false_iff_not, Nat.not_lt] at h
  simp only [Bool.false_eq_true, if_false, decide_eq_false_iff_not, Nat.not_lt]
  omega

/-- what must hold for an owner's `complete_multipart_upload` that passes validation to be compared with the store: when the
    bucket exists, the key's path is free and the side-file names fit. A bucket that no longer exists is inside: both sides
    answer `NoSuchBucket` and change nothing (b29f222; before, the backend wrote the object and so recreated the bucket
    directory: fs:complete-into-missing-bucket). (Since 47e9b00 the metadata and the checksums of the object it replaces do
    not matter: they are replaced too; before: fs:stale-metadata-after-complete, fs:stale-checksum-after-complete.) -/
def CompleteSuccessOk (s : State) (b k : Bytes) (_id : Nat) : Prop :=
  match keyPath k with
  | none => False
  | some p =>
    match s.tree b with
    | none => True
    | some t => sideTooLong b k true = false ∧ WriteOk t p

/-- the contents of the listed parts of upload `id`, in list order, when the part list passes the validation the store
    prescribes: every listed part has a number, the numbers are strictly ascending, every listed part was uploaded, every
    part but the last has the minimum size -/
def validParts (parts : List ((Nat × Int) × Bytes)) (id : Nat) (pl : List (Option Int)) : Option (List Bytes) :=
  match pl.mapM (fun x => x) with
  | none => none
  | some ns =>
    if ascending ns then
      match ns.mapM (fun n => alLookup (id, n) parts) with
      | none => none
      | some cs => if sizesOk cs then some cs else none
    else none

/-- what must hold for the owner's `complete_multipart_upload` to be compared with the store: the names are admissible and
    the key canonical. EVERY part list is inside (dbb8684, 0fcb858; before, only the lists `1, 2, …, m` were:
    fs:complete-requires-consecutive-parts, fs:complete-part-list-validation): a complete that fails validation — a part
    without a number (`MalformedXML`), numbers not strictly ascending (`InvalidPartOrder`), a listed part that was never
    uploaded (`InvalidPart`), a part other than the last below the minimum size (`EntityTooSmall`), in this order — is
    answered alike and changes nothing (0096ef4); one that passes (`validParts`) must meet `CompleteSuccessOk` -/
def CompleteOwnerOk (s : State) (b k : Bytes) (id : Nat) (pl : List (Option Int)) : Prop :=
  bucketOk b = true ∧ CanonKey k ∧ (keyPath k).isSome = true ∧
  (match validParts s.parts id pl with
    | none => True
    | some _ => CompleteSuccessOk s b k id)

/-- `complete_multipart_upload` comparable: a request without a part list or with an empty one is inside (`MalformedXML` on
    both sides, before the upload is looked at: 0fcb858; before: fs:complete-part-list-validation); the upload does not
    exist under this bucket and key (`NoSuchUpload` on both sides since 4609ab3 and, for an upload created for another
    bucket or key, 41e1cf2; before: fs:unknown-upload-code, fs:upload-not-bound-to-key), or, if the requester owns it, the
    request meets `CompleteOwnerOk` -/
def CompleteOk (s : State) (who : Who) (b k : Bytes) (u : UploadRef) (parts : Option (List (Option Int))) : Prop :=
  match parts with
  | none => True
  | some pl =>
    match u with
    | none => True
    | some id =>
      match alLookup id s.uploads with
      | none => True
      | some ui => ui.bucket = b ∧ ui.key = k → ui.owner = who → CompleteOwnerOk s b k id pl

end S3V.FsStore

namespace S3V.FsStore
open S3V.StoreSpec

/-- abstraction and invariant after the successful path of `complete_multipart_upload` -/
theorem complete_core {s s' : State} (hi : Inv s) {b k c : Bytes} {id : Nat} {ui : UpInfo} {t ds : Tree} {p : Path}
    {ps : List ((Nat × Int) × Bytes)}
    (_hl : alLookup id s.uploads = some ui) (hub : ui.bucket = b) (huk : ui.key = k)
    (ht : s.tree b = some t) (hp : PathOk p) (hcanon : joinWith [slash] p = k) (hw : t.node p ≠ some Node.dir)
    (hds : ∀ e ∈ ds, e.2 = Node.dir ∧ e.1 ∈ prefixes p.dropLast) (hnd : keysNodup (t ++ ds))
    (her : Erased id s.parts ps)
    (hb' : s'.buckets = alInsert b (alInsert p (.file c) (t ++ ds)) s.buckets)
    (hmetas : s'.metas = (alLookup (b, k, id) s.upMetas).elim (alErase (b, k) s.metas)
      (fun m => alInsert (b, k) (.good m) s.metas))
    (hupm : s'.upMetas = (alLookup (b, k, id) s.upMetas).elim s.upMetas (fun _ => alErase (b, k, id) s.upMetas))
    (hinfos : s'.infos = alInsert (b, k) {} s.infos) (hu : s'.uploads = alErase id s.uploads) (hpa : s'.parts = ps)
    (hiss : s'.issued = s.issued) :
    abs s' = { ((abs s).setObj b k ⟨c, (upOf s id ui).md, {}⟩) with uploads := alErase id (abs s).uploads } ∧
    Inv s' := by
  obtain ⟨e1, e2, e3⟩ := her hi.pnd
  have hm : ∀ x, x ≠ (b, k) → alLookup x s'.metas = alLookup x s.metas := by
    intro x hx
    rw [hmetas]
    cases alLookup (b, k, id) s.upMetas with
    | none => exact alLookup_alErase_ne hx _
    | some m => exact alLookup_alInsert_ne hx _ _
  have hin : ∀ x, x ≠ (b, k) → alLookup x s'.infos = alLookup x s.infos := fun x hx => by
    rw [hinfos]; exact alLookup_alInsert_ne hx _ _
  have hmok : ∀ e ∈ s'.metas, e.2 ≠ MetaFile.corrupt := by
    rw [hmetas]
    intro e he
    cases hum : alLookup (b, k, id) s.upMetas with
    | none => rw [hum] at he; exact hi.metaOk e (alErase_mem he)
    | some m =>
      rw [hum] at he
      rcases alInsert_mem he with he | he
      · subst he; simp
      · exact hi.metaOk e he
  obtain ⟨h1, i1, i2, i3⟩ := write_core hi ht hp hcanon hw hds hnd hb' hm hin hmok
  constructor
  · apply Store.ext'
    · rw [h1]
      have emd : absMeta s' b k = (upOf s id ui).md := by
        unfold absMeta upOf
        rw [hmetas, hub, huk]
        cases hum : alLookup (b, k, id) s.upMetas with
        | none => simp [alLookup_alErase_self]
        | some m => simp [alLookup_alInsert_self]
      have eck : (alLookup (b, k) s'.infos).getD {} = ({} : Cks) := by rw [hinfos, alLookup_alInsert_self]; rfl
      rw [emd, eck]
    · rw [abs_uploads, hu]
      rw [alErase_map_congr (fun id ui => upOf s' id ui) (fun id ui => upOf s id ui) id s.uploads]
      · rw [← abs_uploads]
      · intro e _ hne
        unfold upOf
        congr 1
        · rw [hupm]
          cases alLookup (b, k, id) s.upMetas with
          | none => rfl
          | some m =>
            simp only [Option.elim]
            congr 1
            apply alLookup_alErase_ne
            intro heq
            simp only [Prod.mk.injEq] at heq
            exact hne heq.2.2
        · unfold absParts
          rw [hpa]
          exact e3 e.1 hne
    · exact hiss
  · refine ⟨i1, i2, i3, hmok, hu ▸ keysNodup_alErase hi.und, hpa ▸ e1, ?_, ?_, ?_⟩
    · rw [hu, hiss]; exact fun e he => hi.upIds e (alErase_mem he)
    · rw [hpa, hiss]; exact fun e he => hi.partIds e (e2 e he)
    · rw [hupm, hiss]
      intro e he
      cases hum : alLookup (b, k, id) s.upMetas with
      | none => rw [hum] at he; exact hi.upMetaIds e he
      | some m => rw [hum] at he; exact hi.upMetaIds e (alErase_mem he)

theorem complete_refines (H : Hashes) (dl : Nat) {s : State} (hi : Inv s) {who : Who} {b k : Bytes} {u : UploadRef}
    {parts : Option (List (Option Int))} (hg : CompleteOk s who b k u parts) :
    (step H dl s (.completeMultipartUpload who b k u parts)).2 =
      (StoreSpec.step H (abs s) (.completeMultipartUpload who b k u parts)).2 ∧
    abs (step H dl s (.completeMultipartUpload who b k u parts)).1 =
      (StoreSpec.step H (abs s) (.completeMultipartUpload who b k u parts)).1 ∧
    Inv (step H dl s (.completeMultipartUpload who b k u parts)).1 := by
  unfold CompleteOk at hg
  cases parts with
  | none =>
    -- no part list: `MalformedXML` on both sides
    simp [step, StoreSpec.step, hi]
  | some pl =>
  cases pl with
  | nil =>
    -- an empty part list: `MalformedXML` on both sides
    simp [step, StoreSpec.step, hi]
  | cons o t =>
    simp only at hg
    cases u with
    | none => simp [step, StoreSpec.step, Store.upload, hi]
    | some id =>
      simp only at hg
      cases hl : alLookup id s.uploads with
      | none =>
        have habs : AbsentUpload s (some id) b k := by simp [AbsentUpload, hl]
        have hup := habs.upload
        simp [step, StoreSpec.step, hup, habs.verify who, hi]
      | some ui =>
        rw [hl] at hg
        simp only at hg
        by_cases hbk : ui.bucket = b ∧ ui.key = k
        case neg =>
          -- created for another bucket or key: `NoSuchUpload` on both sides (41e1cf2)
          have habs : AbsentUpload s (some id) b k := by simp only [AbsentUpload, hl]; exact hbk
          have hup := habs.upload
          simp [step, StoreSpec.step, hup, habs.verify who, hi]
        obtain ⟨hub, huk⟩ := hbk
        have hsucc := hg ⟨hub, huk⟩
        have hup : (abs s).upload (some id) b k = some (id, upOf s id ui) := by
          unfold Store.upload
          simp only [abs_upload_lookup, hl, Option.map_some]
          simp [upOf, hub, huk]
        by_cases hown : ui.owner = who
        · obtain ⟨hbo, ⟨_, hcanon⟩, hksome, hrest⟩ := hsucc hown
          have hbd := bucketDir_of_bucketOk hbo
          cases hkp : keyPath k with
          | none => rw [hkp] at hksome; exact absurd hksome (by simp)
          | some p =>
            rw [hkp] at hcanon
            simp only at hcanon
            have hown' : ¬ (upOf s id ui).owner ≠ who := by simp [upOf, hown]
            have hpp : (upOf s id ui).parts = absParts s id := rfl
            have hlook : ∀ ns : List Int, ns.mapM (fun n => alLookup n (absParts s id)) =
                ns.mapM (fun n => alLookup (id, n) s.parts) := by
              intro ns; congr 1; funext n; exact absParts_lookup hi id n
            have hpn := partNumbers_eq (o :: t)
            -- first pass: the numbers
            cases hs1 : (o :: t).mapM (fun x => x) with
            | none =>
              rw [hs1] at hpn
              have hstep : step H dl s (.completeMultipartUpload who b k (some id) (some (o :: t))) =
                  (s, .err .MalformedXML) := by
                simp [step, State.verify, findUpload_bound hl hub huk, hown, objPath, hbd, hkp, hpn]
              have hspec : StoreSpec.step H (abs s) (.completeMultipartUpload who b k (some id) (some (o :: t))) =
                  (abs s, .err .MalformedXML) := by
                simp [StoreSpec.step, hup, hown', hs1]
              rw [hstep, hspec]
              exact ⟨rfl, rfl, hi⟩
            | some ns =>
            rw [hs1] at hpn
            have hoo := outOfOrder_eq ns
            -- second pass: the order
            cases hs2 : ascending ns with
            | false =>
              rw [hs2] at hoo
              have hstep : step H dl s (.completeMultipartUpload who b k (some id) (some (o :: t))) =
                  (s, .err .InvalidPartOrder) := by
                simp [step, State.verify, findUpload_bound hl hub huk, hown, objPath, hbd, hkp, hpn, hoo]
              have hspec : StoreSpec.step H (abs s) (.completeMultipartUpload who b k (some id) (some (o :: t))) =
                  (abs s, .err .InvalidPartOrder) := by
                simp [StoreSpec.step, hup, hown', hs1, hs2]
              rw [hstep, hspec]
              exact ⟨rfl, rfl, hi⟩
            | true =>
            rw [hs2] at hoo
            simp only [Bool.not_true] at hoo
            have hpc := partFiles_contents id s.parts ns
            -- third pass: the part files
            cases hpf : partFiles id s.parts ns with
            | none =>
              -- a listed part was never uploaded: `InvalidPart` on both sides, nothing changes
              rw [hpf] at hpc
              have hs4 : ns.mapM (fun n => alLookup n (absParts s id)) = none := by rw [hlook]; exact hpc.symm
              have hstep : step H dl s (.completeMultipartUpload who b k (some id) (some (o :: t))) =
                  (s, .err .InvalidPart) := by
                simp [step, State.verify, findUpload_bound hl hub huk, hown, objPath, hbd, hkp, hpn, hoo, hpf]
              have hspec : StoreSpec.step H (abs s) (.completeMultipartUpload who b k (some id) (some (o :: t))) =
                  (abs s, .err .InvalidPart) := by
                simp [StoreSpec.step, hup, hown', hs1, hs2, hpp, hs4]
              rw [hstep, hspec]
              exact ⟨rfl, rfl, hi⟩
            | some ps =>
              rw [hpf] at hpc
              simp only [Option.map_some] at hpc
              have hs4 : ns.mapM (fun n => alLookup n (absParts s id)) = some (ps.map (·.2)) := by
                rw [hlook]; exact hpc.symm
              have hts := partTooSmall_eq ps
              -- fourth pass: the sizes
              cases hsz : sizesOk (ps.map (·.2)) with
              | false =>
                -- a part other than the last is too small: `EntityTooSmall` on both sides, nothing changes
                rw [hsz] at hts
                have hstep : step H dl s (.completeMultipartUpload who b k (some id) (some (o :: t))) =
                    (s, .err .EntityTooSmall) := by
                  simp [step, State.verify, findUpload_bound hl hub huk, hown, objPath, hbd, hkp, hpn, hoo, hpf, hts]
                have hspec : StoreSpec.step H (abs s) (.completeMultipartUpload who b k (some id) (some (o :: t))) =
                    (abs s, .err .EntityTooSmall) := by
                  simp [StoreSpec.step, hup, hown', hs1, hs2, hpp, hs4, hsz]
                rw [hstep, hspec]
                exact ⟨rfl, rfl, hi⟩
              | true =>
                rw [hsz] at hts
                simp only [Bool.not_true] at hts
                have hvalid : validParts s.parts id (o :: t) = some (ps.map (·.2)) := by
                  simp [validParts, hs1, hs2, ← hpc, hsz]
                rw [hvalid] at hrest
                have hpath : CompleteSuccessOk s b k id := hrest
                unfold CompleteSuccessOk at hpath
                rw [hkp] at hpath
                simp only at hpath
                cases ht : s.tree b with
                | none =>
                  -- the bucket no longer exists: `NoSuchBucket` on both sides, nothing changes
                  have hno : alHas b s.buckets = false := by unfold State.tree at ht; simp [alHas, ht]
                  have hno' : alHas b (abs s).buckets = false := by rw [abs_alHas]; exact hno
                  have hstep : step H dl s (.completeMultipartUpload who b k (some id) (some (o :: t))) =
                      (s, .err .NoSuchBucket) := by
                    simp [step, State.verify, findUpload_bound hl hub huk, hown, objPath, hbd, hkp, hpn, hoo, hpf, hts, hno]
                  have hspec : StoreSpec.step H (abs s) (.completeMultipartUpload who b k (some id) (some (o :: t))) =
                      (abs s, .err .NoSuchBucket) := by
                    simp [StoreSpec.step, hup, hown', hs1, hs2, hpp, hs4, hsz, hno']
                  rw [hstep, hspec]
                  exact ⟨rfl, rfl, hi⟩
                | some tr =>
                  rw [ht] at hpath
                  simp only at hpath
                  obtain ⟨hshort, hpath⟩ := hpath
                  have hshort' := sideTooLong_mono hshort
                  have hyes : alHas b s.buckets = true := by unfold State.tree at ht; simp [alHas, ht]
                  have hp : PathOk p := keyPath_pathOk hkp
                  have hmem := tree_mem ht
                  have her : Erased id s.parts (eraseParts id (ps.map (·.1)) s.parts) :=
                    eraseParts_erased id _ s.parts
                  have hhas : alHas b (abs s).buckets = true := by
                    rw [abs_alHas]; unfold State.tree at ht; simp [alHas, ht]
                  have hspec : StoreSpec.step H (abs s) (.completeMultipartUpload who b k (some id) (some (o :: t))) =
                      ({ ((abs s).setObj b k ⟨(ps.map (·.2)).flatten, (upOf s id ui).md, {}⟩) with
                          uploads := alErase id (abs s).uploads }, .completed (some (etagOf H (ps.map (·.2)).flatten))) := by
                    simp [StoreSpec.step, hup, hown', hs1, hs2, hpp, hs4, hsz, hhas, Store.setObj]
                  obtain ⟨ds, hds, hnd, hcommit⟩ := commitFile_ok s b p (ps.map (·.2)).flatten tr
                    (by show (alLookup b s.buckets).getD [] = tr; unfold State.tree at ht; rw [ht]; rfl)
                    hpath (hi.tnd _ hmem) hp
                  cases hum : alLookup (b, k, id) s.upMetas with
                  | none =>
                    have hstep : step H dl s (.completeMultipartUpload who b k (some id) (some (o :: t))) =
                        ({ s with buckets := alInsert b (alInsert p (.file (ps.map (·.2)).flatten) (tr ++ ds)) s.buckets,
                                  metas := alErase (b, k) s.metas, infos := alInsert (b, k) {} s.infos,
                                  parts := eraseParts id (ps.map (·.1)) s.parts,
                                  uploads := alErase id s.uploads },
                          .completed (some (etagOf H (ps.map (·.2)).flatten))) := by
                      simp [step, State.verify, findUpload_bound hl hub huk, hown, hshort, hshort', hum, objPath, hbd, hkp, hpn, hoo, hpf, hts, hyes, hcommit]
                    rw [hstep, hspec]
                    obtain ⟨h1, h2⟩ := complete_core (s' := { s with buckets := alInsert b (alInsert p (.file (ps.map (·.2)).flatten) (tr ++ ds)) s.buckets, metas := alErase (b, k) s.metas, infos := alInsert (b, k) {} s.infos, parts := eraseParts id (ps.map (·.1)) s.parts, uploads := alErase id s.uploads })
                      hi hl hub huk ht hp hcanon hpath.2 hds hnd her rfl (by rw [hum]; rfl) (by rw [hum]; rfl)
                      rfl rfl rfl rfl
                    exact ⟨rfl, h1, h2⟩
                  | some m =>
                    have hstep : step H dl s (.completeMultipartUpload who b k (some id) (some (o :: t))) =
                        ({ s with buckets := alInsert b (alInsert p (.file (ps.map (·.2)).flatten) (tr ++ ds)) s.buckets,
                                  metas := alInsert (b, k) (.good m) s.metas, upMetas := alErase (b, k, id) s.upMetas,
                                  infos := alInsert (b, k) {} s.infos,
                                  parts := eraseParts id (ps.map (·.1)) s.parts,
                                  uploads := alErase id s.uploads },
                          .completed (some (etagOf H (ps.map (·.2)).flatten))) := by
                      simp [step, State.verify, findUpload_bound hl hub huk, hown, hshort, hshort', hum, objPath, hbd, hkp, hpn, hoo, hpf, hts, hyes, hcommit]
                    rw [hstep, hspec]
                    obtain ⟨h1, h2⟩ := complete_core (s' := { s with buckets := alInsert b (alInsert p (.file (ps.map (·.2)).flatten) (tr ++ ds)) s.buckets, metas := alInsert (b, k) (.good m) s.metas, upMetas := alErase (b, k, id) s.upMetas, infos := alInsert (b, k) {} s.infos, parts := eraseParts id (ps.map (·.1)) s.parts, uploads := alErase id s.uploads })
                      hi hl hub huk ht hp hcanon hpath.2 hds hnd her rfl (by rw [hum]; rfl) (by rw [hum]; rfl)
                      rfl rfl rfl rfl
                    exact ⟨rfl, h1, h2⟩
        · have hown' : (upOf s id ui).owner ≠ who := hown
          simp [step, StoreSpec.step, State.verify, findUpload_bound hl hub huk, hown, hup, hown', hi]

end S3V.FsStore
