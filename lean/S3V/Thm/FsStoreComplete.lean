import S3V.Thm.FsStoreMultipart
/-!
# C18: `complete_multipart_upload` refines the store (concatenation in part order, ownership)
-/
namespace S3V.FsStore
open S3V.StoreSpec

theorem optMapM_cons {α β : Type} (f : α → Option β) (a : α) (l : List α) :
    (a :: l).mapM f = (f a).bind fun b => (l.mapM f).map (b :: ·) := by
  rw [List.mapM_cons]
  cases f a <;> cases l.mapM f <;> rfl

/-- the part list names parts `c+1, c+2, …` -/
def ConsecFrom : Nat → List (Option Int) → Prop
  | _, [] => True
  | c, o :: t => o = some ((c : Int) + 1) ∧ ConsecFrom (c + 1) t

instance : ∀ (c : Nat) (l : List (Option Int)), Decidable (ConsecFrom c l)
  | _, [] => isTrue trivial
  | c, o :: t =>
    have := instDecidableConsecFrom (c + 1) t
    by unfold ConsecFrom; infer_instance

/-- contents of the listed parts of upload `id`, in list order -/
def partsOf (parts : List ((Nat × Int) × Bytes)) (id : Nat) (pl : List (Option Int)) : Option (List Bytes) :=
  pl.mapM fun o => o.bind fun n => alLookup (id, n) parts

def fp (id' : Nat) : (Nat × Int) × Bytes → Option (Int × Bytes) :=
  fun p => if p.1.1 = id' then some (p.1.2, p.2) else none

/-- `ps` is `parts` with some part files of upload `id` removed -/
def Erased (id : Nat) (parts ps : List ((Nat × Int) × Bytes)) : Prop :=
  keysNodup parts → (keysNodup ps ∧ (∀ e ∈ ps, e ∈ parts) ∧ ∀ id', id' ≠ id → ps.filterMap (fp id') = parts.filterMap (fp id'))

theorem Erased.refl (id : Nat) (parts : List ((Nat × Int) × Bytes)) : Erased id parts parts :=
  fun h => ⟨h, fun _ he => he, fun _ _ => rfl⟩

theorem filterMap_erase_other (id id' : Nat) (n : Int) (hne : id' ≠ id) (l : List ((Nat × Int) × Bytes)) :
    (alErase (id, n) l).filterMap (fp id') = l.filterMap (fp id') := by
  induction l with
  | nil => rfl
  | cons e t ih =>
    obtain ⟨⟨i, m⟩, b⟩ := e
    by_cases h : (i, m) = (id, n)
    · simp only [Prod.mk.injEq] at h
      obtain ⟨rfl, rfl⟩ := h
      simp only [alErase, if_true, List.filterMap_cons, ih]
      have : fp id' ((i, m), b) = none := by simp [fp, hne.symm]
      rw [this]
    · simp only [alErase, h, if_false, List.filterMap_cons, ih]

theorem Erased.step {id : Nat} {n : Int} {parts ps : List ((Nat × Int) × Bytes)}
    (h : Erased id (alErase (id, n) parts) ps) : Erased id parts ps := by
  intro hnd
  obtain ⟨h1, h2, h3⟩ := h (keysNodup_alErase hnd)
  refine ⟨h1, fun e he => alErase_mem (h2 e he), ?_⟩
  intro id' hne
  rw [h3 id' hne, filterMap_erase_other id id' n hne]

theorem sizesOk_cons {c : Bytes} {cs : List Bytes} (h : sizesOk (c :: cs) = true) :
    sizesOk cs = true ∧ (cs ≠ [] → c.length ≥ minPartSize) := by
  cases cs with
  | nil => exact ⟨rfl, fun h => absurd rfl h⟩
  | cons d ds =>
    simp only [sizesOk, Bool.and_eq_true, decide_eq_true_eq] at h
    exact ⟨h.2, fun _ => h.1⟩

theorem optMapM_length {α β : Type} (f : α → Option β) :
    ∀ (l : List α) (r : List β), l.mapM f = some r → r.length = l.length := by
  intro l
  induction l with
  | nil => intro r h; simp at h; subst h; rfl
  | cons a t ih =>
    intro r h
    rw [optMapM_cons] at h
    cases hf : f a with
    | none => simp [hf] at h
    | some b =>
      cases ht : t.mapM f with
      | none => simp [hf, ht] at h
      | some bs =>
        simp [hf, ht] at h
        subst h
        simp [ih bs ht]

/-- contents numbered `c+1, c+2, …` -/
def numbered : Nat → List Bytes → List (Int × Bytes)
  | _, [] => []
  | c, x :: t => ((c : Int) + 1, x) :: numbered (c + 1) t

theorem numbered_contents : ∀ (c : Nat) (cs : List Bytes), (numbered c cs).map (·.2) = cs
  | _, [] => rfl
  | c, x :: t => by simp [numbered, numbered_contents (c + 1) t]

/-- the validation loop of `complete_multipart_upload` on the part list `cnt+1, cnt+2, …` whose parts all exist: the
    listed parts with their contents, in list order -/
theorem completeParts_ok (id : Nat) (parts : List ((Nat × Int) × Bytes)) :
    ∀ (l : List (Option Int)) (cnt : Nat) (cs : List Bytes),
      ConsecFrom cnt l → partsOf parts id l = some cs → completeParts id parts l cnt = .ok (numbered cnt cs) := by
  intro l
  induction l with
  | nil =>
    intro cnt cs _ hp
    unfold partsOf at hp
    simp at hp
    subst hp
    rfl
  | cons o t ih =>
    intro cnt cs hcons hp
    obtain ⟨ho, ht⟩ := hcons
    subst ho
    unfold partsOf at hp
    rw [optMapM_cons] at hp
    simp only [Option.bind_some] at hp
    cases hl : alLookup (id, (cnt : Int) + 1) parts with
    | none => simp [hl] at hp
    | some c =>
      cases hrest : t.mapM (fun o => o.bind fun n => alLookup (id, n) parts) with
      | none => simp [hl, hrest] at hp
      | some cs' =>
        simp [hl, hrest] at hp
        subst hp
        have hcast : ((cnt + 1 : Nat) : Int) = (cnt : Int) + 1 := by omega
        have := ih (cnt + 1) cs' ht hrest
        unfold completeParts
        simp only [hcast, ne_eq, not_true_eq_false, if_false, hl, this, numbered]

/-- … one of whose parts was never uploaded: `InvalidPart` -/
theorem completeParts_missing (id : Nat) (parts : List ((Nat × Int) × Bytes)) :
    ∀ (l : List (Option Int)) (cnt : Nat),
      ConsecFrom cnt l → partsOf parts id l = none → completeParts id parts l cnt = .error .InvalidPart := by
  intro l
  induction l with
  | nil =>
    intro cnt _ hp
    unfold partsOf at hp
    simp at hp
  | cons o t ih =>
    intro cnt hcons hp
    obtain ⟨ho, ht⟩ := hcons
    subst ho
    unfold partsOf at hp
    rw [optMapM_cons] at hp
    simp only [Option.bind_some] at hp
    have hcast : ((cnt + 1 : Nat) : Int) = (cnt : Int) + 1 := by omega
    cases hl : alLookup (id, (cnt : Int) + 1) parts with
    | none =>
      unfold completeParts
      simp only [hcast, ne_eq, not_true_eq_false, if_false, hl]
    | some c =>
      cases hrest : t.mapM (fun o => o.bind fun n => alLookup (id, n) parts) with
      | some cs' => simp [hl, hrest] at hp
      | none =>
        have := ih (cnt + 1) ht hrest
        unfold completeParts
        simp only [hcast, ne_eq, not_true_eq_false, if_false, hl, this]

/-- the size rule of the code (`part_number != total && size < 5 MiB`) on parts numbered up to `total` is the store's
    (every part but the last has the minimum size) -/
theorem partTooSmall_numbered (total : Nat) :
    ∀ (cs : List Bytes) (cnt : Nat), total = cnt + cs.length → partTooSmall total (numbered cnt cs) = !sizesOk cs := by
  intro cs
  induction cs with
  | nil => intro _ _; rfl
  | cons x t ih =>
    intro cnt htot
    cases t with
    | nil =>
      simp only [List.length_cons, List.length_nil] at htot
      have : ((cnt : Int) + 1 ≠ (total : Int)) = False := by
        apply propext; constructor
        · intro h; exact h (by omega)
        · intro h; exact h.elim
      simp [partTooSmall, numbered, sizesOk, this]
    | cons y r =>
      have hrec := ih (cnt + 1) (by simp only [List.length_cons] at htot ⊢; omega)
      have hne : (cnt : Int) + 1 ≠ (total : Int) := by
        simp only [List.length_cons] at htot; omega
      have hstep : partTooSmall total (numbered cnt (x :: y :: r)) =
          (decide (x.length < minPartSize) || partTooSmall total (numbered (cnt + 1) (y :: r))) := by
        simp [partTooSmall, numbered, hne]
      rw [hstep, hrec]
      by_cases hx : x.length < minPartSize
      · have : ¬ x.length ≥ minPartSize := by omega
        simp [sizesOk, hx, this]
      · have : x.length ≥ minPartSize := by omega
        simp [sizesOk, hx, this]

/-- removing the listed part files removes part files of this upload only -/
theorem eraseParts_erased (id : Nat) : ∀ (ns : List Int) (parts : List ((Nat × Int) × Bytes)),
    Erased id parts (eraseParts id ns parts) := by
  intro ns
  induction ns with
  | nil => intro parts; exact Erased.refl id parts
  | cons n r ih =>
    intro parts
    have : eraseParts id (n :: r) parts = eraseParts id r (alErase (id, n) parts) := rfl
    rw [this]
    exact (ih (alErase (id, n) parts)).step

end S3V.FsStore

namespace S3V.FsStore
open S3V.StoreSpec

/-- what the store computes from a part list `c+1, c+2, …`: the numbers, ascending, and the same contents -/
theorem consec_spec {β : Type} (P : List (Int × β)) :
    ∀ (pl : List (Option Int)) (c : Nat), ConsecFrom c pl →
      ∃ ns, pl.mapM (fun x => x) = some ns ∧ ascending ns = true ∧ (∀ x, ns.head? = some x → (c : Int) < x) ∧
        ns.mapM (fun n => alLookup n P) = pl.mapM (fun o => o.bind fun n => alLookup n P) := by
  intro pl
  induction pl with
  | nil => intro c _; exact ⟨[], by simp, rfl, by simp, by simp⟩
  | cons o t ih =>
    intro c hc
    obtain ⟨ho, ht⟩ := hc
    subst ho
    obtain ⟨ns, h1, h2, h3, h4⟩ := ih (c + 1) ht
    refine ⟨((c : Int) + 1) :: ns, ?_, ?_, ?_, ?_⟩
    · rw [optMapM_cons, h1]; rfl
    · cases ns with
      | nil => rfl
      | cons b r =>
        have := h3 b rfl
        simp only [ascending, Bool.and_eq_true, decide_eq_true_eq]
        exact ⟨by omega, h2⟩
    · intro x hx
      simp at hx
      omega
    · rw [optMapM_cons, optMapM_cons, h4]
      rfl

theorem absParts_lookup {s : State} (hi : Inv s) (id : Nat) (n : Int) :
    alLookup n (absParts s id) = alLookup (id, n) s.parts := by
  unfold absParts
  rw [alLookup_filterMap (fun p => if p.1.1 = id then some (p.1.2, p.2) else none) (id, n) n s.parts hi.pnd]
  · cases alLookup (id, n) s.parts <;> simp
  · intro b' cd _ h
    simp at h
    rw [← h]
  · intro a' b' c' d' _ hne h
    obtain ⟨i, m⟩ := a'
    by_cases hi' : i = id
    · subst hi'
      simp at h
      rw [← h.1]
      intro e; exact hne (by rw [e])
    · simp [hi'] at h

theorem sideTooLong_mono {b k : Bytes} (h : sideTooLong b k true = false) : sideTooLong b k false = false := by
  unfold sideTooLong at h ⊢
  simp only [if_true, decide_eq_false_iff_not, Nat.not_lt] at h
  simp only [Bool.false_eq_true, if_false, decide_eq_false_iff_not, Nat.not_lt]
  omega

/-- what must hold for an owner's `complete_multipart_upload` that passes validation to be compared with the store: when the
    bucket exists, the key's path is free and the side-file names fit. A bucket that no longer exists is inside: both sides
    answer `NoSuchBucket` and change nothing (b29f222; before, the backend wrote the object and so recreated the bucket
    directory: fs:complete-into-missing-bucket). (Since 47e9b00 the metadata and the checksums of the object it replaces do
    not matter: they are replaced too; before: fs:stale-metadata-after-complete, fs:stale-checksum-after-complete.) -/
def CompleteSuccessOk (s : State) (b k : Bytes) (_id : Nat) : Prop :=
  match keyPath k with
  | none => False
  | some p =>
    match s.tree b with
    | none => True
    | some t => sideTooLong b k true = false ∧ WriteOk t p

/-- what must hold for the owner's `complete_multipart_upload` to be compared with the store: the part list is
    `1, 2, …, m` [else fs:complete-requires-consecutive-parts, fs:complete-part-list-validation]; the names are admissible
    and the key canonical. A complete that fails validation — a listed part was never uploaded (`InvalidPart`), a part
    other than the last is below the minimum size (`EntityTooSmall`) — is inside (since the repair of
    fs:failed-complete-consumes-upload / fs:complete-missing-part-internal-error nothing is changed by it); one that passes
    must meet `CompleteSuccessOk` -/
def CompleteOwnerOk (s : State) (b k : Bytes) (id : Nat) (pl : List (Option Int)) : Prop :=
  ConsecFrom 0 pl ∧ bucketOk b = true ∧ CanonKey k ∧ (keyPath k).isSome = true ∧
  (match partsOf s.parts id pl with
    | none => True
    | some cs => sizesOk cs = true → CompleteSuccessOk s b k id)

/-- `complete_multipart_upload` comparable: a non-empty part list is given [else fs:complete-part-list-validation]; the
    upload does not exist under this bucket and key (`NoSuchUpload` on both sides since 4609ab3 and, for an upload created
    for another bucket or key, 41e1cf2; before: fs:unknown-upload-code, fs:upload-not-bound-to-key), or, if the requester owns
    it, the request meets `CompleteOwnerOk` -/
def CompleteOk (s : State) (who : Who) (b k : Bytes) (u : UploadRef) (parts : Option (List (Option Int))) : Prop :=
  match parts with
  | none => False
  | some pl =>
    pl ≠ [] ∧
    match u with
    | none => True
    | some id =>
      match alLookup id s.uploads with
      | none => True
      | some ui => ui.bucket = b ∧ ui.key = k → ui.owner = who → CompleteOwnerOk s b k id pl

end S3V.FsStore

namespace S3V.FsStore
open S3V.StoreSpec

/-- abstraction and invariant after the successful path of `complete_multipart_upload` -/
theorem complete_core {s s' : State} (hi : Inv s) {b k c : Bytes} {id : Nat} {ui : UpInfo} {t ds : Tree} {p : Path}
    {ps : List ((Nat × Int) × Bytes)}
    (_hl : alLookup id s.uploads = some ui) (hub : ui.bucket = b) (huk : ui.key = k)
    (ht : s.tree b = some t) (hp : PathOk p) (hcanon : joinWith [slash] p = k) (hw : t.node p ≠ some Node.dir)
    (hds : ∀ e ∈ ds, e.2 = Node.dir ∧ e.1 ∈ prefixes p.dropLast) (hnd : keysNodup (t ++ ds))
    (her : Erased id s.parts ps)
    (hb' : s'.buckets = alInsert b (alInsert p (.file c) (t ++ ds)) s.buckets)
    (hmetas : s'.metas = (alLookup (b, k, id) s.upMetas).elim (alErase (b, k) s.metas)
      (fun m => alInsert (b, k) (.good m) s.metas))
    (hupm : s'.upMetas = (alLookup (b, k, id) s.upMetas).elim s.upMetas (fun _ => alErase (b, k, id) s.upMetas))
    (hinfos : s'.infos = alInsert (b, k) {} s.infos) (hu : s'.uploads = alErase id s.uploads) (hpa : s'.parts = ps)
    (hiss : s'.issued = s.issued) :
    abs s' = { ((abs s).setObj b k ⟨c, (upOf s id ui).md, {}⟩) with uploads := alErase id (abs s).uploads } ∧
    Inv s' := by
  obtain ⟨e1, e2, e3⟩ := her hi.pnd
  have hm : ∀ x, x ≠ (b, k) → alLookup x s'.metas = alLookup x s.metas := by
    intro x hx
    rw [hmetas]
    cases alLookup (b, k, id) s.upMetas with
    | none => exact alLookup_alErase_ne hx _
    | some m => exact alLookup_alInsert_ne hx _ _
  have hin : ∀ x, x ≠ (b, k) → alLookup x s'.infos = alLookup x s.infos := fun x hx => by
    rw [hinfos]; exact alLookup_alInsert_ne hx _ _
  have hmok : ∀ e ∈ s'.metas, e.2 ≠ MetaFile.corrupt := by
    rw [hmetas]
    intro e he
    cases hum : alLookup (b, k, id) s.upMetas with
    | none => rw [hum] at he; exact hi.metaOk e (alErase_mem he)
    | some m =>
      rw [hum] at he
      rcases alInsert_mem he with he | he
      · subst he; simp
      · exact hi.metaOk e he
  obtain ⟨h1, i1, i2, i3⟩ := write_core hi ht hp hcanon hw hds hnd hb' hm hin hmok
  constructor
  · apply Store.ext'
    · rw [h1]
      have emd : absMeta s' b k = (upOf s id ui).md := by
        unfold absMeta upOf
        rw [hmetas, hub, huk]
        cases hum : alLookup (b, k, id) s.upMetas with
        | none => simp [alLookup_alErase_self]
        | some m => simp [alLookup_alInsert_self]
      have eck : (alLookup (b, k) s'.infos).getD {} = ({} : Cks) := by rw [hinfos, alLookup_alInsert_self]; rfl
      rw [emd, eck]
    · rw [abs_uploads, hu]
      rw [alErase_map_congr (fun id ui => upOf s' id ui) (fun id ui => upOf s id ui) id s.uploads]
      · rw [← abs_uploads]
      · intro e _ hne
        unfold upOf
        congr 1
        · rw [hupm]
          cases alLookup (b, k, id) s.upMetas with
          | none => rfl
          | some m =>
            simp only [Option.elim]
            congr 1
            apply alLookup_alErase_ne
            intro heq
            simp only [Prod.mk.injEq] at heq
            exact hne heq.2.2
        · unfold absParts
          rw [hpa]
          exact e3 e.1 hne
    · exact hiss
  · refine ⟨i1, i2, i3, hmok, hu ▸ keysNodup_alErase hi.und, hpa ▸ e1, ?_, ?_, ?_⟩
    · rw [hu, hiss]; exact fun e he => hi.upIds e (alErase_mem he)
    · rw [hpa, hiss]; exact fun e he => hi.partIds e (e2 e he)
    · rw [hupm, hiss]
      intro e he
      cases hum : alLookup (b, k, id) s.upMetas with
      | none => rw [hum] at he; exact hi.upMetaIds e he
      | some m => rw [hum] at he; exact hi.upMetaIds e (alErase_mem he)

theorem complete_refines (H : Hashes) (dl : Nat) {s : State} (hi : Inv s) {who : Who} {b k : Bytes} {u : UploadRef}
    {parts : Option (List (Option Int))} (hg : CompleteOk s who b k u parts) :
    (step H dl s (.completeMultipartUpload who b k u parts)).2 =
      (StoreSpec.step H (abs s) (.completeMultipartUpload who b k u parts)).2 ∧
    abs (step H dl s (.completeMultipartUpload who b k u parts)).1 =
      (StoreSpec.step H (abs s) (.completeMultipartUpload who b k u parts)).1 ∧
    Inv (step H dl s (.completeMultipartUpload who b k u parts)).1 := by
  unfold CompleteOk at hg
  cases parts with
  | none => exact absurd hg (by simp)
  | some pl =>
    simp only at hg
    obtain ⟨hne, hg⟩ := hg
    cases u with
    | none =>
      cases pl with
      | nil => exact absurd rfl hne
      | cons o t => simp [step, StoreSpec.step, Store.upload, hi]
    | some id =>
      simp only at hg
      cases hl : alLookup id s.uploads with
      | none =>
        have habs : AbsentUpload s (some id) b k := by simp [AbsentUpload, hl]
        have hup := habs.upload
        cases pl with
        | nil => exact absurd rfl hne
        | cons o t => simp [step, StoreSpec.step, hup, habs.verify who, hi]
      | some ui =>
        rw [hl] at hg
        simp only at hg
        by_cases hbk : ui.bucket = b ∧ ui.key = k
        case neg =>
          -- created for another bucket or key: `NoSuchUpload` on both sides (41e1cf2)
          have habs : AbsentUpload s (some id) b k := by simp only [AbsentUpload, hl]; exact hbk
          have hup := habs.upload
          cases pl with
          | nil => exact absurd rfl hne
          | cons o t => simp [step, StoreSpec.step, hup, habs.verify who, hi]
        obtain ⟨hub, huk⟩ := hbk
        have hsucc := hg ⟨hub, huk⟩
        have hup : (abs s).upload (some id) b k = some (id, upOf s id ui) := by
          unfold Store.upload
          simp only [abs_upload_lookup, hl, Option.map_some]
          simp [upOf, hub, huk]
        cases pl with
        | nil => exact absurd rfl hne
        | cons o t =>
          by_cases hown : ui.owner = who
          · obtain ⟨hcons, hbo, ⟨_, hcanon⟩, hksome, hrest⟩ := hsucc hown
            have hbd := bucketDir_of_bucketOk hbo
            cases hkp : keyPath k with
            | none => rw [hkp] at hksome; exact absurd hksome (by simp)
            | some p =>
              rw [hkp] at hcanon
              simp only at hcanon
              -- the store's side of the validation
              obtain ⟨ns, hs1, hs2, _, hs4⟩ := consec_spec (absParts s id) (o :: t) 0 hcons
              have hs4' : ns.mapM (fun n => alLookup n (absParts s id)) = partsOf s.parts id (o :: t) := by
                rw [hs4]
                unfold partsOf
                congr 1
                funext o'
                cases o' with
                | none => rfl
                | some n => simp [absParts_lookup hi]
              have hown' : ¬ (upOf s id ui).owner ≠ who := by simp [upOf, hown]
              have hpp : (upOf s id ui).parts = absParts s id := rfl
              cases hcs : partsOf s.parts id (o :: t) with
              | none =>
                -- a listed part was never uploaded: `InvalidPart` on both sides, nothing changes
                have hm := completeParts_missing id s.parts (o :: t) 0 hcons hcs
                rw [hcs] at hs4'
                have hstep : step H dl s (.completeMultipartUpload who b k (some id) (some (o :: t))) =
                    (s, .err .InvalidPart) := by
                  simp [step, State.verify, findUpload_bound hl hub huk, hown, objPath, hbd, hkp, hm]
                have hspec : StoreSpec.step H (abs s) (.completeMultipartUpload who b k (some id) (some (o :: t))) =
                    (abs s, .err .InvalidPart) := by
                  simp [StoreSpec.step, hup, hown', hs1, hs2, hpp, hs4']
                rw [hstep, hspec]
                exact ⟨rfl, rfl, hi⟩
              | some cs =>
                rw [hcs] at hs4' hrest
                simp only at hrest
                have hm := completeParts_ok id s.parts (o :: t) 0 cs hcons hcs
                have hlen : cs.length = (o :: t).length := by
                  unfold partsOf at hcs
                  exact optMapM_length _ _ _ hcs
                have hts := partTooSmall_numbered (t.length + 1) cs 0 (by simp only [List.length_cons] at hlen; omega)
                cases hsz : sizesOk cs with
                | false =>
                  -- a part other than the last is too small: `EntityTooSmall` on both sides, nothing changes
                  rw [hsz] at hts
                  have hstep : step H dl s (.completeMultipartUpload who b k (some id) (some (o :: t))) =
                      (s, .err .EntityTooSmall) := by
                    simp [step, State.verify, findUpload_bound hl hub huk, hown, objPath, hbd, hkp, hm, hts]
                  have hspec : StoreSpec.step H (abs s) (.completeMultipartUpload who b k (some id) (some (o :: t))) =
                      (abs s, .err .EntityTooSmall) := by
                    simp [StoreSpec.step, hup, hown', hs1, hs2, hpp, hs4', hsz]
                  rw [hstep, hspec]
                  exact ⟨rfl, rfl, hi⟩
                | true =>
                  rw [hsz] at hts
                  have hpath := hrest hsz
                  unfold CompleteSuccessOk at hpath
                  rw [hkp] at hpath
                  simp only at hpath
                  cases ht : s.tree b with
                  | none =>
                    -- the bucket no longer exists: `NoSuchBucket` on both sides, nothing changes
                    have hno : alHas b s.buckets = false := by unfold State.tree at ht; simp [alHas, ht]
                    have hno' : alHas b (abs s).buckets = false := by rw [abs_alHas]; exact hno
                    have hstep : step H dl s (.completeMultipartUpload who b k (some id) (some (o :: t))) =
                        (s, .err .NoSuchBucket) := by
                      simp [step, State.verify, findUpload_bound hl hub huk, hown, objPath, hbd, hkp, hm, hts, hno]
                    have hspec : StoreSpec.step H (abs s) (.completeMultipartUpload who b k (some id) (some (o :: t))) =
                        (abs s, .err .NoSuchBucket) := by
                      simp [StoreSpec.step, hup, hown', hs1, hs2, hpp, hs4', hsz, hno']
                    rw [hstep, hspec]
                    exact ⟨rfl, rfl, hi⟩
                  | some tr =>
                    rw [ht] at hpath
                    simp only at hpath
                    obtain ⟨hshort, hpath⟩ := hpath
                    have hshort' := sideTooLong_mono hshort
                    have hyes : alHas b s.buckets = true := by unfold State.tree at ht; simp [alHas, ht]
                    have hp : PathOk p := keyPath_pathOk hkp
                    have hmem := tree_mem ht
                    have her : Erased id s.parts (eraseParts id ((numbered 0 cs).map (·.1)) s.parts) :=
                      eraseParts_erased id _ s.parts
                    have hcont : ((numbered 0 cs).map (·.2)).flatten = cs.flatten := by rw [numbered_contents]
                    have hhas : alHas b (abs s).buckets = true := by
                      rw [abs_alHas]; unfold State.tree at ht; simp [alHas, ht]
                    have hspec : StoreSpec.step H (abs s) (.completeMultipartUpload who b k (some id) (some (o :: t))) =
                        ({ ((abs s).setObj b k ⟨cs.flatten, (upOf s id ui).md, {}⟩) with
                            uploads := alErase id (abs s).uploads }, .completed (some (etagOf H cs.flatten))) := by
                      simp [StoreSpec.step, hup, hown', hs1, hs2, hpp, hs4', hsz, hhas, Store.setObj]
                    obtain ⟨ds, hds, hnd, hcommit⟩ := commitFile_ok s b p cs.flatten tr
                      (by show (alLookup b s.buckets).getD [] = tr; unfold State.tree at ht; rw [ht]; rfl)
                      hpath (hi.tnd _ hmem) hp
                    cases hum : alLookup (b, k, id) s.upMetas with
                    | none =>
                      have hstep : step H dl s (.completeMultipartUpload who b k (some id) (some (o :: t))) =
                          ({ s with buckets := alInsert b (alInsert p (.file cs.flatten) (tr ++ ds)) s.buckets,
                                    metas := alErase (b, k) s.metas, infos := alInsert (b, k) {} s.infos,
                                    parts := eraseParts id ((numbered 0 cs).map (·.1)) s.parts,
                                    uploads := alErase id s.uploads },
                            .completed (some (etagOf H cs.flatten))) := by
                        simp [step, State.verify, findUpload_bound hl hub huk, hown, hshort, hshort', hum, objPath, hbd, hkp, hm, hts, hyes, hcont, hcommit]
                      rw [hstep, hspec]
                      obtain ⟨h1, h2⟩ := complete_core (s' := { s with buckets := alInsert b (alInsert p (.file cs.flatten) (tr ++ ds)) s.buckets, metas := alErase (b, k) s.metas, infos := alInsert (b, k) {} s.infos, parts := eraseParts id ((numbered 0 cs).map (·.1)) s.parts, uploads := alErase id s.uploads })
                        hi hl hub huk ht hp hcanon hpath.2 hds hnd her rfl (by rw [hum]; rfl) (by rw [hum]; rfl)
                        rfl rfl rfl rfl
                      exact ⟨rfl, h1, h2⟩
                    | some m =>
                      have hstep : step H dl s (.completeMultipartUpload who b k (some id) (some (o :: t))) =
                          ({ s with buckets := alInsert b (alInsert p (.file cs.flatten) (tr ++ ds)) s.buckets,
                                    metas := alInsert (b, k) (.good m) s.metas, upMetas := alErase (b, k, id) s.upMetas,
                                    infos := alInsert (b, k) {} s.infos,
                                    parts := eraseParts id ((numbered 0 cs).map (·.1)) s.parts,
                                    uploads := alErase id s.uploads },
                            .completed (some (etagOf H cs.flatten))) := by
                        simp [step, State.verify, findUpload_bound hl hub huk, hown, hshort, hshort', hum, objPath, hbd, hkp, hm, hts, hyes, hcont, hcommit]
                      rw [hstep, hspec]
                      obtain ⟨h1, h2⟩ := complete_core (s' := { s with buckets := alInsert b (alInsert p (.file cs.flatten) (tr ++ ds)) s.buckets, metas := alInsert (b, k) (.good m) s.metas, upMetas := alErase (b, k, id) s.upMetas, infos := alInsert (b, k) {} s.infos, parts := eraseParts id ((numbered 0 cs).map (·.1)) s.parts, uploads := alErase id s.uploads })
                        hi hl hub huk ht hp hcanon hpath.2 hds hnd her rfl (by rw [hum]; rfl) (by rw [hum]; rfl)
                        rfl rfl rfl rfl
                      exact ⟨rfl, h1, h2⟩
          · have hown' : (upOf s id ui).owner ≠ who := hown
            simp [step, StoreSpec.step, State.verify, findUpload_bound hl hub huk, hown, hup, hown', hi]

end S3V.FsStore
