import S3V.Thm.FsStoreMultipart
/-!
# C18: `complete_multipart_upload` refines the store (concatenation in part order, ownership)
-/
namespace S3V.FsStore
open S3V.StoreSpec

theorem optMapM_cons {α β : Type} (f : α → Option β) (a : α) (l : List α) :
    (a :: l).mapM f = (f a).bind fun b => (l.mapM f).map (b :: ·) := by
  rw [List.mapM_cons]
  cases f a <;> cases l.mapM f <;> rfl

/-- the part list names parts `c+1, c+2, …` -/
def ConsecFrom : Nat → List (Option Int) → Prop
  | _, [] => True
  | c, o :: t => o = some ((c : Int) + 1) ∧ ConsecFrom (c + 1) t

instance : ∀ (c : Nat) (l : List (Option Int)), Decidable (ConsecFrom c l)
  | _, [] => isTrue trivial
  | c, o :: t =>
    have := instDecidableConsecFrom (c + 1) t
    by unfold ConsecFrom; infer_instance

/-- contents of the listed parts of upload `id`, in list order -/
def partsOf (parts : List ((Nat × Int) × Bytes)) (id : Nat) (pl : List (Option Int)) : Option (List Bytes) :=
  pl.mapM fun o => o.bind fun n => alLookup (id, n) parts

def fp (id' : Nat) : (Nat × Int) × Bytes → Option (Int × Bytes) :=
  fun p => if p.1.1 = id' then some (p.1.2, p.2) else none

/-- `ps` is `parts` with some part files of upload `id` removed -/
def Erased (id : Nat) (parts ps : List ((Nat × Int) × Bytes)) : Prop :=
  keysNodup parts → (keysNodup ps ∧ (∀ e ∈ ps, e ∈ parts) ∧ ∀ id', id' ≠ id → ps.filterMap (fp id') = parts.filterMap (fp id'))

theorem Erased.refl (id : Nat) (parts : List ((Nat × Int) × Bytes)) : Erased id parts parts :=
  fun h => ⟨h, fun _ he => he, fun _ _ => rfl⟩

theorem filterMap_erase_other (id id' : Nat) (n : Int) (hne : id' ≠ id) (l : List ((Nat × Int) × Bytes)) :
    (alErase (id, n) l).filterMap (fp id') = l.filterMap (fp id') := by
  induction l with
  | nil => rfl
  | cons e t ih =>
    obtain ⟨⟨i, m⟩, b⟩ := e
    by_cases h : (i, m) = (id, n)
    · simp only [Prod.mk.injEq] at h
      obtain ⟨rfl, rfl⟩ := h
      simp only [alErase, if_true, List.filterMap_cons, ih]
      have : fp id' ((i, m), b) = none := by simp [fp, hne.symm]
      rw [this]
    · simp only [alErase, h, if_false, List.filterMap_cons, ih]

theorem Erased.step {id : Nat} {n : Int} {parts ps : List ((Nat × Int) × Bytes)}
    (h : Erased id (alErase (id, n) parts) ps) : Erased id parts ps := by
  intro hnd
  obtain ⟨h1, h2, h3⟩ := h (keysNodup_alErase hnd)
  refine ⟨h1, fun e he => alErase_mem (h2 e he), ?_⟩
  intro id' hne
  rw [h3 id' hne, filterMap_erase_other id id' n hne]

theorem partsOf_erase (id : Nat) (c0 : Nat) (parts : List ((Nat × Int) × Bytes)) :
    ∀ (t : List (Option Int)) (c : Nat), c0 ≤ c → ConsecFrom c t →
      partsOf (alErase (id, (c0 : Int)) parts) id t = partsOf parts id t := by
  intro t
  induction t with
  | nil => intro _ _ _; rfl
  | cons o t ih =>
    intro c hc hcons
    obtain ⟨ho, ht⟩ := hcons
    subst ho
    unfold partsOf at ih ⊢
    rw [optMapM_cons, optMapM_cons, ih (c + 1) (by omega) ht]
    simp only [Option.bind_some]
    have : ((id, (c : Int) + 1) : Nat × Int) ≠ (id, (c0 : Int)) := by
      intro h
      simp only [Prod.mk.injEq, true_and] at h
      omega
    rw [alLookup_alErase_ne this]

theorem sizesOk_cons {c : Bytes} {cs : List Bytes} (h : sizesOk (c :: cs) = true) :
    sizesOk cs = true ∧ (cs ≠ [] → c.length ≥ minPartSize) := by
  cases cs with
  | nil => exact ⟨rfl, fun h => absurd rfl h⟩
  | cons d ds =>
    simp only [sizesOk, Bool.and_eq_true, decide_eq_true_eq] at h
    exact ⟨h.2, fun _ => h.1⟩

theorem optMapM_length {α β : Type} (f : α → Option β) :
    ∀ (l : List α) (r : List β), l.mapM f = some r → r.length = l.length := by
  intro l
  induction l with
  | nil => intro r h; simp at h; subst h; rfl
  | cons a t ih =>
    intro r h
    rw [optMapM_cons] at h
    cases hf : f a with
    | none => simp [hf] at h
    | some b =>
      cases ht : t.mapM f with
      | none => simp [hf, ht] at h
      | some bs =>
        simp [hf, ht] at h
        subst h
        simp [ih bs ht]

/-- the loop of `complete_multipart_upload` on the part list `cnt+1, cnt+2, …, total` whose parts exist and have the
    minimum size: it ends with the concatenation, having removed part files of this upload only -/
theorem completeLoop_ok (id total : Nat) :
    ∀ (l : List (Option Int)) (cnt : Nat) (acc : Bytes) (parts : List ((Nat × Int) × Bytes)) (cs : List Bytes),
      ConsecFrom cnt l → total = cnt + l.length → partsOf parts id l = some cs → sizesOk cs = true →
      ∃ ps, completeLoop id total l cnt acc parts = (ps, .ok (acc ++ cs.flatten)) ∧ Erased id parts ps := by
  intro l
  induction l with
  | nil =>
    intro cnt acc parts cs _ _ hp _
    unfold partsOf at hp
    simp at hp
    subst hp
    exact ⟨parts, by simp [completeLoop], Erased.refl id parts⟩
  | cons o t ih =>
    intro cnt acc parts cs hcons htot hp hsz
    obtain ⟨ho, ht⟩ := hcons
    subst ho
    unfold partsOf at hp
    rw [optMapM_cons] at hp
    simp only [Option.bind_some] at hp
    cases hl : alLookup (id, (cnt : Int) + 1) parts with
    | none => simp [hl] at hp
    | some c =>
      cases hrest : t.mapM (fun o => o.bind fun n => alLookup (id, n) parts) with
      | none => simp [hl, hrest] at hp
      | some cs' =>
        simp [hl, hrest] at hp
        subst hp
        obtain ⟨hsz', hmin⟩ := sizesOk_cons hsz
        have hlen : cs'.length = t.length := optMapM_length _ t cs' hrest
        have hrest' : partsOf (alErase (id, ((cnt + 1 : Nat) : Int)) parts) id t = some cs' := by
          rw [partsOf_erase id (cnt + 1) parts t (cnt + 1) (Nat.le_refl _) ht]
          exact hrest
        obtain ⟨ps, hloop, her⟩ := ih (cnt + 1) (acc ++ c) (alErase (id, ((cnt + 1 : Nat) : Int)) parts) cs' ht
          (by simp at htot; omega) hrest' hsz'
        refine ⟨ps, ?_, her.step⟩
        have hcast : ((cnt + 1 : Nat) : Int) = (cnt : Int) + 1 := by omega
        have hsmall : ¬ ((cnt : Int) + 1 ≠ (total : Int) ∧ c.length < minPartSize) := by
          rintro ⟨h1, h2⟩
          by_cases hte : cs' = []
          · subst hte
            simp at hlen
            have : t = [] := List.length_eq_zero_iff.mp hlen.symm
            subst this
            simp at htot
            omega
          · have := hmin hte
            omega
        rw [hcast] at hloop
        unfold completeLoop
        simp only [hcast, ne_eq, not_true_eq_false, if_false, hl, hsmall]
        rw [hloop]
        simp [List.append_assoc]

end S3V.FsStore

namespace S3V.FsStore
open S3V.StoreSpec

/-- what the store computes from a part list `c+1, c+2, …`: the numbers, ascending, and the same contents -/
theorem consec_spec {β : Type} (P : List (Int × β)) :
    ∀ (pl : List (Option Int)) (c : Nat), ConsecFrom c pl →
      ∃ ns, pl.mapM (fun x => x) = some ns ∧ ascending ns = true ∧ (∀ x, ns.head? = some x → (c : Int) < x) ∧
        ns.mapM (fun n => alLookup n P) = pl.mapM (fun o => o.bind fun n => alLookup n P) := by
  intro pl
  induction pl with
  | nil => intro c _; exact ⟨[], by simp, rfl, by simp, by simp⟩
  | cons o t ih =>
    intro c hc
    obtain ⟨ho, ht⟩ := hc
    subst ho
    obtain ⟨ns, h1, h2, h3, h4⟩ := ih (c + 1) ht
    refine ⟨((c : Int) + 1) :: ns, ?_, ?_, ?_, ?_⟩
    · rw [optMapM_cons, h1]; rfl
    · cases ns with
      | nil => rfl
      | cons b r =>
        have := h3 b rfl
        simp only [ascending, Bool.and_eq_true, decide_eq_true_eq]
        exact ⟨by omega, h2⟩
    · intro x hx
      simp at hx
      omega
    · rw [optMapM_cons, optMapM_cons, h4]
      rfl

theorem absParts_lookup {s : State} (hi : Inv s) (id : Nat) (n : Int) :
    alLookup n (absParts s id) = alLookup (id, n) s.parts := by
  unfold absParts
  rw [alLookup_filterMap (fun p => if p.1.1 = id then some (p.1.2, p.2) else none) (id, n) n s.parts hi.pnd]
  · cases alLookup (id, n) s.parts <;> simp
  · intro b' cd _ h
    simp at h
    rw [← h]
  · intro a' b' c' d' _ hne h
    obtain ⟨i, m⟩ := a'
    by_cases hi' : i = id
    · subst hi'
      simp at h
      rw [← h.1]
      intro e; exact hne (by rw [e])
    · simp [hi'] at h

theorem sideTooLong_mono {b k : Bytes} (h : sideTooLong b k true = false) : sideTooLong b k false = false := by
  unfold sideTooLong at h ⊢
  simp only [if_true, decide_eq_false_iff_not, Nat.not_lt] at h
  simp only [Bool.false_eq_true, if_false, decide_eq_false_iff_not, Nat.not_lt]
  omega

/-- what must hold for the owner's `complete_multipart_upload` to be compared with the store: the part list is
    `1, 2, …, m` [else fs:complete-requires-consecutive-parts, fs:complete-part-list-validation], every listed part exists
    [fs:complete-missing-part-internal-error] with the minimum size [a failed complete consumes the upload:
    fs:failed-complete-consumes-upload]; the bucket exists [fs:complete-into-missing-bucket], the key is canonical and its
    path free; side-file names fit; an upload without metadata does not meet an old metadata file
    [fs:stale-metadata-after-complete]; no checksums are recorded for the key [fs:stale-checksum-after-complete] -/
def CompleteSuccessOk (s : State) (b k : Bytes) (id : Nat) (pl : List (Option Int)) : Prop :=
  ConsecFrom 0 pl ∧
  (match partsOf s.parts id pl with
    | none => False
    | some cs => sizesOk cs = true) ∧
  bucketOk b = true ∧ CanonKey k ∧ sideTooLong b k true = false ∧
  (match keyPath k with
    | none => False
    | some p =>
      match s.tree b with
      | none => False
      | some t => WriteOk t p) ∧
  (alLookup (b, k, id) s.upMetas = none → alLookup (b, k) s.metas = none) ∧
  (alLookup (b, k) s.infos).getD {} = {}

/-- `complete_multipart_upload` comparable: a non-empty part list is given [else fs:complete-part-list-validation], the
    upload exists for this bucket and key [fs:unknown-upload-code, fs:upload-not-bound-to-key], and if the requester owns
    it the request is one that succeeds (`CompleteSuccessOk`) -/
def CompleteOk (s : State) (who : Who) (b k : Bytes) (u : UploadRef) (parts : Option (List (Option Int))) : Prop :=
  match parts with
  | none => False
  | some pl =>
    pl ≠ [] ∧
    match u with
    | none => False
    | some id =>
      match alLookup id s.uploads with
      | none => False
      | some ui => ui.bucket = b ∧ ui.key = k ∧ (ui.owner = who → CompleteSuccessOk s b k id pl)

end S3V.FsStore

namespace S3V.FsStore
open S3V.StoreSpec

/-- abstraction and invariant after the successful path of `complete_multipart_upload` -/
theorem complete_core {s s' : State} (hi : Inv s) {b k c : Bytes} {id : Nat} {ui : UpInfo} {t ds : Tree} {p : Path}
    {ps : List ((Nat × Int) × Bytes)}
    (_hl : alLookup id s.uploads = some ui) (hub : ui.bucket = b) (huk : ui.key = k)
    (ht : s.tree b = some t) (hp : PathOk p) (hcanon : joinWith [slash] p = k) (hw : t.node p ≠ some Node.dir)
    (hds : ∀ e ∈ ds, e.2 = Node.dir ∧ e.1 ∈ prefixes p.dropLast) (hnd : keysNodup (t ++ ds))
    (her : Erased id s.parts ps)
    (hmeta : alLookup (b, k, id) s.upMetas = none → alLookup (b, k) s.metas = none)
    (hcks : (alLookup (b, k) s.infos).getD {} = {})
    (hb' : s'.buckets = alInsert b (alInsert p (.file c) (t ++ ds)) s.buckets)
    (hmetas : s'.metas = (alLookup (b, k, id) s.upMetas).elim s.metas (fun m => alInsert (b, k) (.good m) s.metas))
    (hupm : s'.upMetas = (alLookup (b, k, id) s.upMetas).elim s.upMetas (fun _ => alErase (b, k, id) s.upMetas))
    (hinfos : s'.infos = s.infos) (hu : s'.uploads = alErase id s.uploads) (hpa : s'.parts = ps)
    (hiss : s'.issued = s.issued) :
    abs s' = { ((abs s).setObj b k ⟨c, (upOf s id ui).md, {}⟩) with uploads := alErase id (abs s).uploads } ∧
    Inv s' := by
  obtain ⟨e1, e2, e3⟩ := her hi.pnd
  have hm : ∀ x, x ≠ (b, k) → alLookup x s'.metas = alLookup x s.metas := by
    intro x hx
    rw [hmetas]
    cases alLookup (b, k, id) s.upMetas with
    | none => rfl
    | some m => exact alLookup_alInsert_ne hx _ _
  have hin : ∀ x, x ≠ (b, k) → alLookup x s'.infos = alLookup x s.infos := fun x _ => by rw [hinfos]
  have hmok : ∀ e ∈ s'.metas, e.2 ≠ MetaFile.corrupt := by
    rw [hmetas]
    intro e he
    cases hum : alLookup (b, k, id) s.upMetas with
    | none => rw [hum] at he; exact hi.metaOk e he
    | some m =>
      rw [hum] at he
      rcases alInsert_mem he with he | he
      · subst he; simp
      · exact hi.metaOk e he
  obtain ⟨h1, i1, i2, i3⟩ := write_core hi ht hp hcanon hw hds hnd hb' hm hin hmok
  constructor
  · apply Store.ext'
    · rw [h1]
      have emd : absMeta s' b k = (upOf s id ui).md := by
        unfold absMeta upOf
        rw [hmetas, hub, huk]
        cases hum : alLookup (b, k, id) s.upMetas with
        | none => simp [hmeta hum]
        | some m => simp [alLookup_alInsert_self]
      have eck : (alLookup (b, k) s'.infos).getD {} = ({} : Cks) := by rw [hinfos, hcks]
      rw [emd, eck]
    · rw [abs_uploads, hu]
      rw [alErase_map_congr (fun id ui => upOf s' id ui) (fun id ui => upOf s id ui) id s.uploads]
      · rw [← abs_uploads]
      · intro e _ hne
        unfold upOf
        congr 1
        · rw [hupm]
          cases alLookup (b, k, id) s.upMetas with
          | none => rfl
          | some m =>
            simp only [Option.elim]
            congr 1
            apply alLookup_alErase_ne
            intro heq
            simp only [Prod.mk.injEq] at heq
            exact hne heq.2.2
        · unfold absParts
          rw [hpa]
          exact e3 e.1 hne
    · exact hiss
  · refine ⟨i1, i2, i3, hmok, hu ▸ keysNodup_alErase hi.und, hpa ▸ e1, ?_, ?_, ?_⟩
    · rw [hu, hiss]; exact fun e he => hi.upIds e (alErase_mem he)
    · rw [hpa, hiss]; exact fun e he => hi.partIds e (e2 e he)
    · rw [hupm, hiss]
      intro e he
      cases hum : alLookup (b, k, id) s.upMetas with
      | none => rw [hum] at he; exact hi.upMetaIds e he
      | some m => rw [hum] at he; exact hi.upMetaIds e (alErase_mem he)

theorem complete_refines (H : Hashes) (dl : Nat) {s : State} (hi : Inv s) {who : Who} {b k : Bytes} {u : UploadRef}
    {parts : Option (List (Option Int))} (hg : CompleteOk s who b k u parts) :
    (step H dl s (.completeMultipartUpload who b k u parts)).2 =
      (StoreSpec.step H (abs s) (.completeMultipartUpload who b k u parts)).2 ∧
    abs (step H dl s (.completeMultipartUpload who b k u parts)).1 =
      (StoreSpec.step H (abs s) (.completeMultipartUpload who b k u parts)).1 ∧
    Inv (step H dl s (.completeMultipartUpload who b k u parts)).1 := by
  unfold CompleteOk at hg
  cases parts with
  | none => exact absurd hg (by simp)
  | some pl =>
    simp only at hg
    obtain ⟨hne, hg⟩ := hg
    cases u with
    | none => exact absurd hg (by simp)
    | some id =>
      simp only at hg
      cases hl : alLookup id s.uploads with
      | none => rw [hl] at hg; exact absurd hg (by simp)
      | some ui =>
        rw [hl] at hg
        simp only at hg
        obtain ⟨hub, huk, hsucc⟩ := hg
        have hup : (abs s).upload (some id) b k = some (id, upOf s id ui) := by
          unfold Store.upload
          simp only [abs_upload_lookup, hl, Option.map_some]
          simp [upOf, hub, huk]
        cases pl with
        | nil => exact absurd rfl hne
        | cons o t =>
          by_cases hown : ui.owner = who
          · obtain ⟨hcons, hparts, hbo, ⟨_, hcanon⟩, hshort, hpath, hmeta, hcks⟩ := hsucc hown
            have hbd := bucketDir_of_bucketOk hbo
            cases hcs : partsOf s.parts id (o :: t) with
            | none => rw [hcs] at hparts; exact absurd hparts (by simp)
            | some cs =>
              rw [hcs] at hparts
              simp only at hparts
              cases hkp : keyPath k with
              | none => rw [hkp] at hpath; exact absurd hpath (by simp)
              | some p =>
                rw [hkp] at hpath hcanon
                simp only at hpath hcanon
                cases ht : s.tree b with
                | none => rw [ht] at hpath; exact absurd hpath (by simp)
                | some tr =>
                  rw [ht] at hpath
                  simp only at hpath
                  have hp : PathOk p := keyPath_pathOk hkp
                  have hmem := tree_mem ht
                  obtain ⟨ps, hloop, her⟩ := completeLoop_ok id (t.length + 1) (o :: t) 0 [] s.parts cs hcons
                    (by simp) hcs hparts
                  -- the store's side
                  obtain ⟨ns, hs1, hs2, _, hs4⟩ := consec_spec (absParts s id) (o :: t) 0 hcons
                  have hs4' : ns.mapM (fun n => alLookup n (absParts s id)) = some cs := by
                    rw [hs4, ← hcs]
                    unfold partsOf
                    congr 1
                    funext o'
                    cases o' with
                    | none => rfl
                    | some n => simp [absParts_lookup hi]
                  have hhas : alHas b (abs s).buckets = true := by
                    rw [abs_alHas]; unfold State.tree at ht; simp [alHas, ht]
                  have hspec : StoreSpec.step H (abs s) (.completeMultipartUpload who b k (some id) (some (o :: t))) =
                      ({ ((abs s).setObj b k ⟨cs.flatten, (upOf s id ui).md, {}⟩) with
                          uploads := alErase id (abs s).uploads }, .completed (some (etagOf H cs.flatten))) := by
                    have hown' : ¬ (upOf s id ui).owner ≠ who := by simp [upOf, hown]
                    have hpp : (upOf s id ui).parts = absParts s id := rfl
                    simp [StoreSpec.step, hup, hown', hs1, hs2, hpp, hs4', hparts, hhas, Store.setObj]
                  cases hum : alLookup (b, k, id) s.upMetas with
                  | none =>
                    obtain ⟨ds, hds, hnd, hcommit⟩ := commitFile_ok
                      ({ s with uploads := alErase id s.uploads, parts := ps } : State) b p cs.flatten tr
                      (by show (alLookup b s.buckets).getD [] = tr; unfold State.tree at ht; rw [ht]; rfl)
                      hpath (hi.tnd _ hmem) hp
                    have hstep : step H dl s (.completeMultipartUpload who b k (some id) (some (o :: t))) =
                        ({ s with uploads := alErase id s.uploads, parts := ps, buckets := alInsert b (alInsert p (.file cs.flatten) (tr ++ ds)) s.buckets },
                          .completed (some (etagOf H cs.flatten))) := by
                      simp [step, State.verify, hl, hown, hshort, hum, objPath, hbd, hkp, hloop, hcommit]
                    rw [hstep, hspec]
                    obtain ⟨h1, h2⟩ := complete_core (s' := { s with uploads := alErase id s.uploads, parts := ps, buckets := alInsert b (alInsert p (.file cs.flatten) (tr ++ ds)) s.buckets })
                      hi hl hub huk ht hp hcanon hpath.2 hds hnd her hmeta hcks rfl (by rw [hum]; rfl) (by rw [hum]; rfl)
                      rfl rfl rfl rfl
                    exact ⟨rfl, h1, h2⟩
                  | some m =>
                    obtain ⟨ds, hds, hnd, hcommit⟩ := commitFile_ok
                      ({ s with uploads := alErase id s.uploads, metas := alInsert (b, k) (.good m) s.metas, upMetas := alErase (b, k, id) s.upMetas, parts := ps } : State) b p cs.flatten tr
                      (by show (alLookup b s.buckets).getD [] = tr; unfold State.tree at ht; rw [ht]; rfl)
                      hpath (hi.tnd _ hmem) hp
                    have hstep : step H dl s (.completeMultipartUpload who b k (some id) (some (o :: t))) =
                        ({ s with uploads := alErase id s.uploads, metas := alInsert (b, k) (.good m) s.metas, upMetas := alErase (b, k, id) s.upMetas, parts := ps, buckets := alInsert b (alInsert p (.file cs.flatten) (tr ++ ds)) s.buckets },
                          .completed (some (etagOf H cs.flatten))) := by
                      simp [step, State.verify, hl, hown, hshort, hum, objPath, hbd, hkp, hloop, hcommit]
                    rw [hstep, hspec]
                    obtain ⟨h1, h2⟩ := complete_core (s' := { s with uploads := alErase id s.uploads, metas := alInsert (b, k) (.good m) s.metas, upMetas := alErase (b, k, id) s.upMetas, parts := ps, buckets := alInsert b (alInsert p (.file cs.flatten) (tr ++ ds)) s.buckets })
                      hi hl hub huk ht hp hcanon hpath.2 hds hnd her hmeta hcks rfl (by rw [hum]; rfl) (by rw [hum]; rfl)
                      rfl rfl rfl rfl
                    exact ⟨rfl, h1, h2⟩
          · have hown' : (upOf s id ui).owner ≠ who := hown
            simp [step, StoreSpec.step, State.verify, hl, hown, hup, hown', hi]

end S3V.FsStore
