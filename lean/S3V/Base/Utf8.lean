import S3V.Base.Bytes
/-! Strict UTF-8 (what `str::from_utf8` accepts): no overlong forms, no surrogates, ≤ U+10FFFF. -/
namespace S3V

def isCont (b : UInt8) : Bool := b.toNat / 64 = 2

/-- decode one scalar value from the front -/
def utf8DecodeOne : Bytes → Option (Nat × Bytes)
  | [] => none
  | b0 :: rest =>
    let n0 := b0.toNat
    if n0 < 0x80 then some (n0, rest)
    else if n0 < 0xC2 then none
    else if n0 < 0xE0 then
      match rest with
      | b1 :: r => if isCont b1 then some ((n0 - 0xC0) * 64 + (b1.toNat - 0x80), r) else none
      | _ => none
    else if n0 < 0xF0 then
      match rest with
      | b1 :: b2 :: r =>
        if isCont b1 && isCont b2 then
          let cp := (n0 - 0xE0) * 4096 + (b1.toNat - 0x80) * 64 + (b2.toNat - 0x80)
          if cp < 0x800 || (0xD800 ≤ cp && cp ≤ 0xDFFF) then none else some (cp, r)
        else none
      | _ => none
    else if n0 < 0xF5 then
      match rest with
      | b1 :: b2 :: b3 :: r =>
        if isCont b1 && isCont b2 && isCont b3 then
          let cp := (n0 - 0xF0) * 262144 + (b1.toNat - 0x80) * 4096 + (b2.toNat - 0x80) * 64 + (b3.toNat - 0x80)
          if cp < 0x10000 || cp > 0x10FFFF then none else some (cp, r)
        else none
      | _ => none
    else none

def utf8DecodeFuel : Nat → Bytes → Option (List Nat)
  | _, [] => some []
  | 0, _ :: _ => none
  | fuel + 1, b =>
    match utf8DecodeOne b with
    | none => none
    | some (cp, r) => (utf8DecodeFuel fuel r).map (cp :: ·)

/-- every step consumes at least one byte, so `length` fuel suffices -/
def utf8Decode (b : Bytes) : Option (List Nat) := utf8DecodeFuel b.length b

def utf8Valid (b : Bytes) : Bool := (utf8Decode b).isSome

def utf8EncodeOne (cp : Nat) : Bytes :=
  if cp < 0x80 then [UInt8.ofNat cp]
  else if cp < 0x800 then [UInt8.ofNat (0xC0 + cp / 64), UInt8.ofNat (0x80 + cp % 64)]
  else if cp < 0x10000 then
    [UInt8.ofNat (0xE0 + cp / 4096), UInt8.ofNat (0x80 + cp / 64 % 64), UInt8.ofNat (0x80 + cp % 64)]
  else
    [UInt8.ofNat (0xF0 + cp / 262144), UInt8.ofNat (0x80 + cp / 4096 % 64),
     UInt8.ofNat (0x80 + cp / 64 % 64), UInt8.ofNat (0x80 + cp % 64)]

def utf8Encode (cps : List Nat) : Bytes := cps.flatMap utf8EncodeOne

end S3V
