/-! Alphabet shared by the wildcard model and its specification. -/
namespace S3V
abbrev Sym := Nat
def star : Sym := 42
def qm : Sym := 63
theorem star_ne_qm : star ≠ qm := by decide
end S3V
