/-!
# Base: byte strings, hex and decimal text, line protocol helpers

Import-free (core Lean only) so that every driver links as a `lean_exe`.
`Bytes := List UInt8` is the one text representation used by all models: a Rust `&str`/`&[u8]`
is its UTF-8 bytes.
-/

abbrev Bytes := List UInt8

namespace S3V

/-- bytes of an ASCII/UTF-8 Lean string (driver side only; literals do not reduce in the kernel) -/
def sb (s : String) : Bytes := s.toUTF8.toList

def hexDigit (n : Nat) : Char :=
  if n < 10 then Char.ofNat (48 + n) else Char.ofNat (87 + n)

def hexEncode (b : Bytes) : String :=
  String.ofList (b.flatMap fun x => [hexDigit (x.toNat / 16), hexDigit (x.toNat % 16)])

def hexVal (c : Char) : Option Nat :=
  if '0' ≤ c ∧ c ≤ '9' then some (c.toNat - 48)
  else if 'a' ≤ c ∧ c ≤ 'f' then some (c.toNat - 87)
  else if 'A' ≤ c ∧ c ≤ 'F' then some (c.toNat - 55)
  else none

def hexDecodeAux : List Char → Bytes → Option Bytes
  | [], acc => some acc.reverse
  | [_], _ => none
  | a :: b :: rest, acc =>
    match hexVal a, hexVal b with
    | some x, some y => hexDecodeAux rest (UInt8.ofNat (x * 16 + y) :: acc)
    | _, _ => none

def hexDecode (s : String) : Option Bytes := hexDecodeAux s.toList []

/-- Option field: `-` is none, `+hex` is some -/
def optHexDecode (s : String) : Option (Option Bytes) :=
  if s = "-" then some none
  else match s.toList with
    | '+' :: rest => (hexDecodeAux rest []).map some
    | _ => none

def optHexEncode : Option Bytes → String
  | none => "-"
  | some b => "+" ++ hexEncode b

/-- `,`-joined hex items; the empty string is the empty list, a lone `.` is one empty item -/
def listHexDecode (s : String) : Option (List Bytes) :=
  if s = "" then some []
  else (s.splitOn ",").mapM fun it => if it = "." then some [] else hexDecode it

def listHexEncode (l : List Bytes) : String :=
  ",".intercalate (l.map fun b => if b = [] then "." else hexEncode b)

def boolStr (b : Bool) : String := if b then "1" else "0"

/-! ## decimal text -/

def digitChar (d : Nat) : UInt8 := UInt8.ofNat (48 + d)

/-- decimal formatting, most significant digit first (`itoa` / `{}` for unsigned integers) -/
def fmtDec (n : Nat) : Bytes :=
  if _h : n < 10 then [digitChar n] else fmtDec (n / 10) ++ [digitChar (n % 10)]
termination_by n
decreasing_by omega

def isDigit (c : UInt8) : Bool := 48 ≤ c.toNat && c.toNat ≤ 57

/-- value of an all-digit string (accumulator form); `none` as soon as a non-digit is seen -/
def digitsVal : Bytes → Nat → Option Nat
  | [], acc => some acc
  | c :: cs, acc => if isDigit c then digitsVal cs (acc * 10 + (c.toNat - 48)) else none

theorem digitChar_toNat {d : Nat} (h : d < 10) : (digitChar d).toNat = 48 + d := by
  simp [digitChar, UInt8.toNat_ofNat]; omega

theorem isDigit_digitChar {d : Nat} (h : d < 10) : isDigit (digitChar d) = true := by
  simp [isDigit, digitChar_toNat h]; omega

theorem digitsVal_append (xs ys : Bytes) (a : Nat) :
    digitsVal (xs ++ ys) a = (digitsVal xs a).bind (fun v => digitsVal ys v) := by
  induction xs generalizing a with
  | nil => simp [digitsVal]
  | cons c cs ih =>
    simp only [List.cons_append, digitsVal]
    split
    · exact ih _
    · rfl

theorem digitsVal_single {d : Nat} (h : d < 10) (a : Nat) :
    digitsVal [digitChar d] a = some (a * 10 + d) := by
  have := digitChar_toNat h
  simp [digitsVal, isDigit, this]; omega

theorem digitsVal_fmtDec (n : Nat) :
    ∀ a, digitsVal (fmtDec n) a = some (a * 10 ^ (fmtDec n).length + n) := by
  induction n using Nat.strongRecOn with
  | _ n ih =>
    intro a
    rw [fmtDec]
    split
    · rename_i h
      rw [digitsVal_single h]; simp
    · rename_i h
      have hlt : n / 10 < n := by omega
      rw [digitsVal_append, ih _ hlt, Option.bind_some, digitsVal_single (by omega)]
      simp only [List.length_append, List.length_singleton, Nat.pow_succ]
      congr 1
      have := Nat.div_add_mod n 10
      rw [Nat.add_mul, Nat.mul_assoc]
      omega

/-- decimal text round trip: the lemma every length / offset / timestamp field rests on -/
theorem digitsVal_fmtDec_zero (n : Nat) : digitsVal (fmtDec n) 0 = some n := by
  simpa using digitsVal_fmtDec n 0

theorem fmtDec_ne_nil (n : Nat) : fmtDec n ≠ [] := by
  rw [fmtDec]; split <;> simp

theorem fmtDec_all_digits (n : Nat) : ∀ c ∈ fmtDec n, isDigit c = true := by
  induction n using Nat.strongRecOn with
  | _ n ih =>
    rw [fmtDec]
    split
    · rename_i h
      intro c hc; simp at hc; subst hc; exact isDigit_digitChar h
    · rename_i h
      intro c hc
      simp only [List.mem_append, List.mem_singleton] at hc
      rcases hc with hc | hc
      · exact ih (n / 10) (by omega) c hc
      · subst hc; exact isDigit_digitChar (by omega)

/-! ## line protocol -/

def fields (line : String) : List String :=
  (line.dropEndWhile (fun c => c = '\n' || c = '\r')).toString.splitOn "\t"

/-- split the case line at the `|` field: inputs, implementation outputs -/
def splitBar (fs : List String) : List String × List String :=
  let ins := fs.takeWhile (· ≠ "|")
  (ins, (fs.dropWhile (· ≠ "|")).drop 1)

/-- drive a per-line judge over stdin; each answer line is `id \t VERDICT \t class \t detail` -/
partial def driveLoop (h : IO.FS.Stream) (judge : List String → String) (n : Nat) : IO Nat := do
  let line ← h.getLine
  if line.isEmpty then return n
  if line = "\n" then driveLoop h judge n
  else
    IO.println (judge (fields line))
    driveLoop h judge (n + 1)

def driveMain (judge : List String → String) : IO Unit := do
  let stdin ← IO.getStdin
  let n ← driveLoop stdin judge 0
  IO.println s!"STATS\tlines={n}"

def agree (id : String) (cls : String := "") : String := s!"{id}\tAGREE\t{cls}\t"
def disagree (id model impl : String) : String := s!"{id}\tDISAGREE\t\tmodel={model} impl={impl}"
def specfail (id cls detail : String) : String := s!"{id}\tSPECFAIL\t{cls}\t{detail}"
def unmodelled (id reason : String) : String := s!"{id}\tUNMODELLED\t{reason}\t"
def badline (id : String) : String := s!"{id}\tBADLINE\t\t"

end S3V
