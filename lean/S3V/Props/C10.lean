import S3V.Thm.MultipartCompose
import S3V.Thm.MultipartFields
/-!
# C10 — POST form uploads: stored exactly (the multipart half of the property)

Covered here: "an accepted upload reaches the backend … whose content is exactly the bytes of the file
part, whatever those bytes are", and how form fields are looked up (`find_field_value`: names are
lower-cased, of duplicates the LAST one sent wins). NOT covered here: the signature over the policy
(SigV4 worker) and the evaluation of the policy's expiration and conditions (the code never decodes the
policy — see DESIGN §6 C10).
-/
namespace S3V.C10
open S3V S3V.Multipart S3V.MultipartSpec

/-- "stored exactly", file stream alone: whatever the parser left over (`rest`) and however the remaining
    body is framed, if `content` is what precedes the first `CRLF--boundary` in
    `rest ++ (data before a transport error)`, the stream hands on exactly `content` — for ALL contents,
    including CR/LF runs, proper prefixes of the delimiter and binary data — and ends `ok` -/
theorem C10_file_part_exact (b rest : Bytes) (frames : List (Option Bytes)) (content : Bytes)
    (hc : FirstOcc (crlfPat b) (rest ++ dataBeforeError frames) content) :
    (fileStream b rest frames).1.flatten = content ∧ (fileStream b rest frames).2 = .ok := by
  have h := fileStream_spec b rest frames
  simp only [Refines, specFile, (beforeFirst_eq_some_iff _ _ _).mpr hc, Prod.mk.injEq] at h
  refine ⟨h.1, ?_⟩
  cases ht : (fileStream b rest frames).2 <;> simp [ht, FTerm.toSpec] at h ⊢

/-- "stored exactly", whole upload (corollary of the C09d refinement): if the form parses on the whole
    body with the file part starting at `start`, and `content` precedes the first `CRLF--boundary` from
    there on, then under EVERY framing the run yields that form, exactly `content`, and ends `ok` -/
theorem C10_post_content_exact (b : Bytes) (frames : List (Option Bytes))
    (f : List (Bytes × Bytes)) (n c : Bytes) (start : Nat) (content : Bytes)
    (hp : tryParse b (dataBeforeError frames) = .parsed f n c start)
    (hc : FirstOcc (crlfPat b) ((dataBeforeError frames).drop start) content) :
    (run b frames).form = some (f, n, c) ∧ (run b frames).chunks.flatten = content ∧
    (run b frames).terminal = .ok := by
  have h := run_spec b frames
  have hpat : crlfPat b = 13 :: 10 :: 45 :: 45 :: b := rfl
  simp only [specOutcome, oneShot, hp, specFile, ← hpat, (beforeFirst_eq_some_iff _ _ _).mpr hc] at h
  cases hf : (run b frames).form with
  | none => simp [observe, hf] at h
  | some f' =>
    simp only [observe, hf, Obs.mk.injEq, Option.some.injEq] at h
    refine ⟨by rw [h.1], h.2.1, ?_⟩
    apply Terminal.toEnd_injective
    rw [h.2.2]; rfl

/-- without the delimiter nothing is accepted as complete: the upload ends `incomplete` (or `underlying`
    after a transport error), never `ok` -/
theorem C10_no_delimiter_not_ok (b rest : Bytes) (frames : List (Option Bytes))
    (hn : ∀ b', ¬ OccursAt (crlfPat b) (rest ++ dataBeforeError frames) b') :
    (fileStream b rest frames).2 ≠ .ok := by
  have h := fileStream_spec b rest frames
  simp only [Refines, specFile, (beforeFirst_eq_none_iff _ _).mpr hn, Prod.mk.injEq] at h
  intro hok
  rw [hok] at h
  have h2 := h.2
  by_cases he : hasError frames = true
  · rw [if_pos he] at h2; simp [FTerm.toSpec] at h2
  · rw [if_neg he] at h2; simp [FTerm.toSpec] at h2

/-- field mapping, what the code does: `find_field_value` on the field list built by `try_parse`
    (`raw` = the fields in the order they were sent) returns the value of the LAST field whose
    ASCII-lower-cased name equals `name`; it is `none` iff there is no such field -/
theorem C10_field_lookup (raw : List (Bytes × Bytes)) (name : Bytes) :
    findFieldValue (finishFields raw) name = lastField name (raw.map fun f => (asciiLower f.1, f.2)) :=
  findFieldValue_finishFields raw name

/-- the field list handed on is sorted by name (what `partition_point` relies on) -/
theorem C10_fields_sorted (raw : List (Bytes × Bytes)) :
    (finishFields raw).Pairwise fun x y => bytesLe x.1 y.1 = true :=
  sortFields_sorted _

/-! ## non-vacuity: a form with duplicate names in two spellings and a file full of look-alikes

    --b / Content-Disposition: form-data; name="Key" / / v1
    --b / Content-Disposition: form-data; name="key" / / v2
    --b / Content-Disposition: form-data; name="file"; filename="f" / Content-Type: t / / A CR CR LF - -
    --b--
-/

def exBody : Bytes := [45, 45, 98, 13, 10, 67, 111, 110, 116, 101, 110, 116, 45, 68, 105, 115, 112, 111, 115, 105, 116, 105, 111, 110, 58, 32, 102, 111, 114, 109, 45, 100, 97, 116, 97, 59, 32, 110, 97, 109, 101, 61, 34, 75, 101, 121, 34, 13, 10, 13, 10, 118, 49, 13, 10, 45, 45, 98, 13, 10, 67, 111, 110, 116, 101, 110, 116, 45, 68, 105, 115, 112, 111, 115, 105, 116, 105, 111, 110, 58, 32, 102, 111, 114, 109, 45, 100, 97, 116, 97, 59, 32, 110, 97, 109, 101, 61, 34, 107, 101, 121, 34, 13, 10, 13, 10, 118, 50, 13, 10, 45, 45, 98, 13, 10, 67, 111, 110, 116, 101, 110, 116, 45, 68, 105, 115, 112, 111, 115, 105, 116, 105, 111, 110, 58, 32, 102, 111, 114, 109, 45, 100, 97, 116, 97, 59, 32, 110, 97, 109, 101, 61, 34, 102, 105, 108, 101, 34, 59, 32, 102, 105, 108, 101, 110, 97, 109, 101, 61, 34, 102, 34, 13, 10, 67, 111, 110, 116, 101, 110, 116, 45, 84, 121, 112, 101, 58, 32, 116, 13, 10, 13, 10, 65, 13, 13, 10, 45, 45, 13, 10, 45, 45, 98, 45, 45, 13, 10]
def exContent : Bytes := [65, 13, 13, 10, 45, 45]

/-- the hypotheses of `C10_post_content_exact` hold for it … -/
example : tryParse [98] exBody = .parsed [([107, 101, 121], [118, 49]), ([107, 101, 121], [118, 50])] [102] [116] 193 := by
  decide +kernel

example : beforeFirst (crlfPat [98]) (exBody.drop 193) = some exContent := by decide +kernel

/-- … so under a framing that cuts inside the first boundary line and inside the file's CR run the run
    delivers exactly the file bytes -/
example : (run [98] [some (exBody.take 7), some ((exBody.drop 7).take 189), some (exBody.drop 196)]).chunks.flatten
    = exContent := by
  have hd : dataBeforeError [some (exBody.take 7), some ((exBody.drop 7).take 189), some (exBody.drop 196)] = exBody := by
    decide +kernel
  have := C10_post_content_exact [98] _ [([107, 101, 121], [118, 49]), ([107, 101, 121], [118, 50])] [102] [116]
    193 exContent (by rw [hd]; decide +kernel)
    (by rw [hd]; exact (beforeFirst_eq_some_iff _ _ _).mp (by decide +kernel))
  exact this.2.1

/-- … and the lookup of `key` answers the value sent last (`v2`), `Key` (not lower-case) is not found -/
example : findFieldValue (finishFields [([75, 101, 121], [118, 49]), ([107, 101, 121], [118, 50])]) [107, 101, 121] = some [118, 50] := by
  decide +kernel
example : findFieldValue (finishFields [([75, 101, 121], [118, 49]), ([107, 101, 121], [118, 50])]) [75, 101, 121] = none := by
  decide +kernel

end S3V.C10
