import S3V.Props.C17
import S3V.Model.FsPathSys
/-!
# C17 at the system-call level: what the model predicts for component `fspathsys` is confined

`FsPath.sysPredicted` reads the may-touch table `plan` as a set of path-taking system calls (table entries with a compatible
access, plus the named rules `probe-before-change`, `enumerate-before-delete`, `mkdir-root`). The driver reports DISAGREE for every
system call of the real backend that this prediction does not contain; the theorems below say that everything it does contain
is confined, for all inputs.
-/
namespace S3V.C17
open S3V S3V.FsPath

/-- a predicted system call is anchored at a table entry that covers the node, or is the `mkdir`/`stat` of the root itself -/
theorem C17_syscall_predicted_anchored (e : Env) (touches : List Touch) (k : SysKind) (q : List Comp) (r : String)
    (h : sysPredicted e touches k q = some r) :
    (∃ t ∈ touches, covers e t.tgt q = true) ∨ q = components e.root := by
  unfold sysPredicted at h
  split at h
  · rename_i h1
    obtain ⟨t, ht, hc⟩ := List.any_eq_true.mp h1
    exact .inl ⟨t, ht, (Bool.and_eq_true _ _ ▸ hc : _ ∧ _).2⟩
  · split at h
    · rename_i h1
      obtain ⟨t, ht, hc⟩ := List.any_eq_true.mp h1
      exact .inl ⟨t, ht, (Bool.and_eq_true _ _ ▸ hc : _ ∧ _).2⟩
    · split at h
      · rename_i h1
        obtain ⟨t, ht, hc⟩ := List.any_eq_true.mp h1
        exact .inl ⟨t, ht, (Bool.and_eq_true _ _ ▸ hc : _ ∧ _).2⟩
      · split at h
        · rename_i h1
          obtain ⟨t, _, hc⟩ := List.any_eq_true.mp h1
          right
          unfold mkdirRoot at hc
          split at hc
          · exact eq_of_beq ((Bool.and_eq_true _ _ ▸ hc : _ ∧ _).2)
          · exact eq_of_beq ((Bool.and_eq_true _ _ ▸ hc : _ ∧ _).2)
          · exact absurd hc (by simp)
        · exact absurd h (by simp)

/-- **Every predicted system call stays under the root.** For every operation and all inputs: a path-taking system call that
    the model predicts (table or named rule) concerns the root directory or a node below it. -/
theorem C17_syscall_predicted_under_root (e : Env) (enc : Bytes → Bytes) (hr : RootOk e.root) (he : EncNoSlash enc)
    (op : Op) (hop : OpOk op) (k : SysKind) (q : List Comp) (r : String)
    (h : sysPredicted e (plan e enc op).touches k q = some r) : components e.root <+: q := by
  rcases C17_syscall_predicted_anchored e _ k q r h with ⟨t, ht, hc⟩ | rfl
  · exact (C17_touched_under_root e enc hr he op hop t ht).2 q hc
  · exact List.prefix_refl _

/-- **Every predicted system call stays in the operation's own bucket(s) and bookkeeping.** The node is one the property
    allows the operation to touch (`Allowed`, under the access of the table entry that anchors the prediction), or it is the
    root directory itself (`mkdir-root`: a `mkdir` that cannot succeed and the `stat` that follows it). -/
theorem C17_syscall_predicted_in_own_bucket (e : Env) (enc : Bytes → Bytes) (hr : RootOk e.root) (he : EncNoSlash enc)
    (op : Op) (hop : OpOk op) (k : SysKind) (q : List Comp) (r : String)
    (h : sysPredicted e (plan e enc op).touches k q = some r) :
    (∃ acc, Allowed e enc op acc q) ∨ q = components e.root := by
  rcases C17_syscall_predicted_anchored e _ k q r h with ⟨t, ht, hc⟩ | rfl
  · exact .inl ⟨t.acc, C17_touched_in_own_bucket e enc hr he op hop t ht q hc⟩
  · exact .inr rfl

/-- **Construction is confined.** What the model lets `FileSystem::new` do: look at the root and its ancestors, enumerate the
    root, remove a child of the root whose name starts with `.tmp.` — never a write, never anything else. -/
theorem C17_construction_confined (e : Env) (k : SysKind) (q : List Comp) (h : newAllows e k q = true) :
    (k = .read ∧ q <+: components e.root) ∨ (k = .list ∧ q = components e.root) ∨
      (k = .delete ∧ ∃ name, q.getLast? = some (.normal name) ∧ q.dropLast = components e.root ∧ sTmpDot <+: name) := by
  unfold newAllows at h
  cases k with
  | read => exact .inl ⟨rfl, List.isPrefixOf_iff_prefix.mp h⟩
  | list => exact .inr (.inl ⟨rfl, eq_of_beq h⟩)
  | delete =>
    refine .inr (.inr ⟨rfl, ?_⟩)
    simp only at h
    split at h
    · rename_i name hl
      simp only [Bool.and_eq_true] at h
      exact ⟨name, hl, eq_of_beq h.1.1, List.isPrefixOf_iff_prefix.mp h.1.2⟩
    · exact absurd h (by simp)
  | write => exact absurd h (by simp)
  | create => exact absurd h (by simp)

/-! non-vacuity: root `/r`; `upload_part` into upload U1 predicts the `mkdir` of the root; `head_object` predicts the probe of
    the bucket directory -/
example : sysPredicted exEnv (plan exEnv id (.headObject [98, 107] [97])).touches .read (components [47, 114, 47, 98, 107])
    = some "table" := by decide
example : newAllows exEnv .read (components [47]) = true := by decide

end S3V.C17
