import S3V.Thm.Body
import S3V.Thm.MultipartFile
import S3V.Thm.MultipartSpec
import S3V.Thm.MultipartParse
/-!
# C09 — results do not depend on how the request body is framed or when frames arrive

Clauses (a) plain streamed bodies, (b) buffered bodies, (d) multipart/form-data.
Clause (c) chunk-signed uploads: theorem `C09c_framing_independent` in `S3V/Props/C08.lean` (other worker).

A transport body is a list of frames, `some bytes` or `none` (a transport error; nothing after it is
read). Quantifier: every list of frames — every split point, empty frames, any number of frames — no
bound on sizes. "When frames arrive" (Pending/ready schedules) is not visible to the models: only the
hand-written `poll_*` functions are modelled, the async glue is trusted (DESIGN §4.6) and validated by the
harness, which injects `Poll::Pending` at PRNG-chosen polls.
-/
namespace S3V.C09
open S3V S3V.Multipart S3V.MultipartSpec

/-! ## (a) plain streamed bodies -/

/-- clause (a): a streamed body hands on exactly the data frames in front of the first transport error —
    their concatenation is `dataBeforeError frames` — and then reports the error iff there is one -/
theorem C09a_plain_identity (frames : List (Option Bytes)) :
    ((Body.streamBody frames).1.flatten, (Body.streamBody frames).2) = specPlain frames :=
  Body.streamBody_spec frames

/-- clause (a), two framings: same bytes, same error flag, same delivery -/
theorem C09a_plain_framing_independent (fr₁ fr₂ : List (Option Bytes))
    (hd : dataBeforeError fr₁ = dataBeforeError fr₂) (he : hasError fr₁ = hasError fr₂) :
    (Body.streamBody fr₁).1.flatten = (Body.streamBody fr₂).1.flatten ∧
    (Body.streamBody fr₁).2 = (Body.streamBody fr₂).2 := by
  have h1 := C09a_plain_identity fr₁
  have h2 := C09a_plain_identity fr₂
  simp only [specPlain, Prod.mk.injEq] at h1 h2
  exact ⟨by rw [h1.1, h2.1, hd], by rw [h1.2, h2.2, he]⟩

/-! ## (b) buffered bodies -/

/-- clause (b): `extract_full_body` (with `store_all_unlimited`) depends only on the concatenation of the
    frames, the error flag and the declared length — and it is the specified function of them -/
theorem C09b_buffered_depends_on_concat (declared : Option Nat) (frames : List (Option Bytes)) :
    (Body.extractFullBody declared frames).toSpec
      = specBuffered declared (dataBeforeError frames) (hasError frames) :=
  Body.extractFullBody_spec declared frames

/-- clause (b), two framings -/
theorem C09b_buffered_framing_independent (declared : Option Nat) (fr₁ fr₂ : List (Option Bytes))
    (hd : dataBeforeError fr₁ = dataBeforeError fr₂) (he : hasError fr₁ = hasError fr₂) :
    Body.extractFullBody declared fr₁ = Body.extractFullBody declared fr₂ := by
  apply Body.Full.toSpec_injective
  rw [C09b_buffered_depends_on_concat, C09b_buffered_depends_on_concat, hd, he]

/-! ## (d) multipart/form-data -/

/-- the statement asked for in the plan. It is FALSE of the current code (`S3V/Findings/C09.lean`,
    `C09d_try_parse_prefix_stable_counterexample`): `CrlfLines::split_to` takes an unterminated trailing
    `--boundary` for the delimiter line, so a buffer ending there can fail early on a non-UTF-8 value. -/
def C09d_try_parse_prefix_stable_full : Prop :=
  ∀ b p q : Bytes, (tryParse b p).definitive = true → p <+: q → tryParse b q = tryParse b p

/-- excluded region of the partial theorem: the buffer ends in `--boundary` -/
def endsInBareDelimiter (b p : Bytes) : Bool := (dashBoundary b).isSuffixOf p

/-- clause (d), reparse-from-start: once `try_parse` has given a definitive answer on the accumulated
    buffer it gives the same answer (same fields, same file name and type, same start of the file part)
    on every longer buffer — unless the buffer ends in an unterminated `--boundary` -/
theorem C09d_try_parse_prefix_stable_partial (b p q : Bytes) (hex : endsInBareDelimiter b p = false)
    (hdef : (tryParse b p).definitive = true) (hpq : p <+: q) : tryParse b q = tryParse b p := by
  obtain ⟨t, rfl⟩ := hpq
  apply tryParse_append b p t hdef
  right
  intro h
  have : endsInBareDelimiter b p = true := List.isSuffixOf_iff_suffix.mpr h
  rw [this] at hex; cases hex

/-- clause (d): a SUCCESSFUL parse is stable without any exclusion -/
theorem C09d_try_parse_parsed_stable (b p q : Bytes) (f : List (Bytes × Bytes)) (n c : Bytes) (s : Nat)
    (hp : tryParse b p = .parsed f n c s) (hpq : p <+: q) : tryParse b q = .parsed f n c s := by
  obtain ⟨t, rfl⟩ := hpq
  rw [tryParse_append b p t (by rw [hp]; rfl) (Or.inl ⟨f, n, c, s, hp⟩), hp]

/-- clause (d), the file part: for every left-over `rest` of the parser and every list of frames, the
    `FileStream` DFA hands on exactly the bytes in front of the first `CRLF--boundary` of
    `rest ++ (data before the first transport error)` and ends `ok`; if there is none it ends
    `incomplete` (`underlying` after a transport error), having handed on everything except a trailing
    proper prefix of the delimiter -/
theorem C09d_filestream_refines (b rest : Bytes) (frames : List (Option Bytes)) :
    ((fileStream b rest frames).1.flatten, (fileStream b rest frames).2.toSpec)
      = specFile (crlfPat b) (rest ++ dataBeforeError frames) (hasError frames) :=
  fileStream_spec b rest frames

/-- the executable reference in `specFile` is the declarative "before the FIRST occurrence" -/
theorem C09d_reference_is_first_occurrence (pat d before : Bytes) :
    (beforeFirst pat d = some before ↔ FirstOcc pat d before) ∧
    (beforeFirst pat d = none ↔ ∀ b', ¬ OccursAt pat d b') :=
  ⟨beforeFirst_eq_some_iff pat d before, beforeFirst_eq_none_iff pat d⟩

/-- clause (d), file part, two framings of the same bytes -/
theorem C09d_filestream_framing_independent (b rest : Bytes) (fr₁ fr₂ : List (Option Bytes))
    (hd : dataBeforeError fr₁ = dataBeforeError fr₂) (he : hasError fr₁ = hasError fr₂) :
    (fileStream b rest fr₁).1.flatten = (fileStream b rest fr₂).1.flatten ∧
    (fileStream b rest fr₁).2 = (fileStream b rest fr₂).2 := by
  have h1 := C09d_filestream_refines b rest fr₁
  have h2 := C09d_filestream_refines b rest fr₂
  rw [hd, he] at h1
  rw [← h2] at h1
  simp only [Prod.mk.injEq] at h1
  refine ⟨h1.1, ?_⟩
  cases h3 : (fileStream b rest fr₁).2 <;> cases h4 : (fileStream b rest fr₂).2 <;>
    simp [h3, h4, FTerm.toSpec] at h1 ⊢

end S3V.C09
