import S3V.Thm.Body
import S3V.Thm.MultipartFile
import S3V.Thm.MultipartSpec
import S3V.Thm.MultipartParse
import S3V.Thm.MultipartCompose
import S3V.Props.C08
/-!
# C09 — results do not depend on how the request body is framed or when frames arrive

Clauses (a) plain streamed bodies, (b) buffered bodies, (d) multipart/form-data.
Clause (c) chunk-signed uploads: theorem `C09c_framing_independent` in `S3V/Props/C08.lean` (component
`chunked`, other worker), restated below as `C09c_chunk_signed_framing_independent`.

A transport body is a list of frames, `some bytes` or `none` (a transport error; nothing after it is
read). Quantifier: every list of frames — every split point, empty frames, any number of frames — no
bound on sizes. "When frames arrive" (Pending/ready schedules) is not visible to the models: only the
hand-written `poll_*` functions are modelled, the async glue is trusted (DESIGN §4.6) and validated by the
harness, which injects `Poll::Pending` at PRNG-chosen polls.
-/
namespace S3V.C09
open S3V S3V.Multipart S3V.MultipartSpec

/-! ## (a) plain streamed bodies -/

/-- clause (a): a streamed body hands on exactly the data frames in front of the first transport error —
    their concatenation is `dataBeforeError frames` — and then reports the error iff there is one -/
theorem C09a_plain_identity (frames : List (Option Bytes)) :
    ((Body.streamBody frames).1.flatten, (Body.streamBody frames).2) = specPlain frames :=
  Body.streamBody_spec frames

/-- clause (a), two framings: same bytes, same error flag, same delivery -/
theorem C09a_plain_framing_independent (fr₁ fr₂ : List (Option Bytes))
    (hd : dataBeforeError fr₁ = dataBeforeError fr₂) (he : hasError fr₁ = hasError fr₂) :
    (Body.streamBody fr₁).1.flatten = (Body.streamBody fr₂).1.flatten ∧
    (Body.streamBody fr₁).2 = (Body.streamBody fr₂).2 := by
  have h1 := C09a_plain_identity fr₁
  have h2 := C09a_plain_identity fr₂
  simp only [specPlain, Prod.mk.injEq] at h1 h2
  exact ⟨by rw [h1.1, h2.1, hd], by rw [h1.2, h2.2, he]⟩

/-! ## (b) buffered bodies -/

/-- clause (b): `extract_full_body` (with `store_all_unlimited`) depends only on the concatenation of the
    frames, the error flag and the declared length — and it is the specified function of them -/
theorem C09b_buffered_depends_on_concat (declared : Option Nat) (frames : List (Option Bytes)) :
    (Body.extractFullBody declared frames).toSpec
      = specBuffered declared (dataBeforeError frames) (hasError frames) :=
  Body.extractFullBody_spec declared frames

/-- clause (b), two framings -/
theorem C09b_buffered_framing_independent (declared : Option Nat) (fr₁ fr₂ : List (Option Bytes))
    (hd : dataBeforeError fr₁ = dataBeforeError fr₂) (he : hasError fr₁ = hasError fr₂) :
    Body.extractFullBody declared fr₁ = Body.extractFullBody declared fr₂ := by
  apply Body.Full.toSpec_injective
  rw [C09b_buffered_depends_on_concat, C09b_buffered_depends_on_concat, hd, he]

/-! ## (c) chunk-signed uploads — proved by the `chunked` component in `S3V/Props/C08.lean`; restated -/

/-- clause (c): two framings of the same chunk-signed byte string give the same delivered bytes and the
    same end, for every chunk-signature function (`S3V.C08.C09c_framing_independent`; the variant with
    transport errors is `S3V.C08.C09c_framing_independent_faulty`) -/
theorem C09c_chunk_signed_framing_independent (sig : Bytes → Bytes → Bytes) (seed : Bytes) (declared : Nat)
    (fs₁ fs₂ : List Bytes) (h : fs₁.flatten = fs₂.flatten) :
    (S3V.Chunked.decodeStream sig seed declared (fs₁.map S3V.Chunked.Frame.data)).delivered.flatten =
      (S3V.Chunked.decodeStream sig seed declared (fs₂.map S3V.Chunked.Frame.data)).delivered.flatten ∧
    (S3V.Chunked.decodeStream sig seed declared (fs₁.map S3V.Chunked.Frame.data)).terminal =
      (S3V.Chunked.decodeStream sig seed declared (fs₂.map S3V.Chunked.Frame.data)).terminal :=
  S3V.C08.C09c_framing_independent sig seed declared fs₁ fs₂ h

/-! ## (d) multipart/form-data -/

/-- the statement asked for in the plan. It is FALSE of the current code (`S3V/Findings/C09.lean`,
    `C09d_try_parse_prefix_stable_counterexample`): `CrlfLines::split_to` takes an unterminated trailing
    `--boundary` for the delimiter line, so a buffer ending there can fail early on a non-UTF-8 value. -/
def C09d_try_parse_prefix_stable_full : Prop :=
  ∀ b p q : Bytes, (tryParse b p).definitive = true → p <+: q → tryParse b q = tryParse b p

/-- excluded region of the partial theorem: the buffer ends in `--boundary` -/
def endsInBareDelimiter (b p : Bytes) : Bool := (dashBoundary b).isSuffixOf p

/-- clause (d), reparse-from-start: once `try_parse` has given a definitive answer on the accumulated
    buffer it gives the same answer (same fields, same file name and type, same start of the file part)
    on every longer buffer — unless the buffer ends in an unterminated `--boundary` -/
theorem C09d_try_parse_prefix_stable_partial (b p q : Bytes) (hex : endsInBareDelimiter b p = false)
    (hdef : (tryParse b p).definitive = true) (hpq : p <+: q) : tryParse b q = tryParse b p := by
  obtain ⟨t, rfl⟩ := hpq
  apply tryParse_append b p t hdef
  right
  intro h
  have : endsInBareDelimiter b p = true := List.isSuffixOf_iff_suffix.mpr h
  rw [this] at hex; cases hex

/-- clause (d): a SUCCESSFUL parse is stable without any exclusion -/
theorem C09d_try_parse_parsed_stable (b p q : Bytes) (f : List (Bytes × Bytes)) (n c : Bytes) (s : Nat)
    (hp : tryParse b p = .parsed f n c s) (hpq : p <+: q) : tryParse b q = .parsed f n c s := by
  obtain ⟨t, rfl⟩ := hpq
  rw [tryParse_append b p t (by rw [hp]; rfl) (Or.inl ⟨f, n, c, s, hp⟩), hp]

/-- clause (d), the file part: for every left-over `rest` of the parser and every list of frames, the
    `FileStream` DFA hands on exactly the bytes in front of the first `CRLF--boundary` of
    `rest ++ (data before the first transport error)` and ends `ok`; if there is none it ends
    `incomplete` (`underlying` after a transport error), having handed on everything except a trailing
    proper prefix of the delimiter -/
theorem C09d_filestream_refines (b rest : Bytes) (frames : List (Option Bytes)) :
    ((fileStream b rest frames).1.flatten, (fileStream b rest frames).2.toSpec)
      = specFile (crlfPat b) (rest ++ dataBeforeError frames) (hasError frames) :=
  fileStream_spec b rest frames

/-- the executable reference in `specFile` is the declarative "before the FIRST occurrence" -/
theorem C09d_reference_is_first_occurrence (pat d before : Bytes) :
    (beforeFirst pat d = some before ↔ FirstOcc pat d before) ∧
    (beforeFirst pat d = none ↔ ∀ b', ¬ OccursAt pat d b') :=
  ⟨beforeFirst_eq_some_iff pat d before, beforeFirst_eq_none_iff pat d⟩

/-- clause (d), file part, two framings of the same bytes -/
theorem C09d_filestream_framing_independent (b rest : Bytes) (fr₁ fr₂ : List (Option Bytes))
    (hd : dataBeforeError fr₁ = dataBeforeError fr₂) (he : hasError fr₁ = hasError fr₂) :
    (fileStream b rest fr₁).1.flatten = (fileStream b rest fr₂).1.flatten ∧
    (fileStream b rest fr₁).2 = (fileStream b rest fr₂).2 := by
  have h1 := C09d_filestream_refines b rest fr₁
  have h2 := C09d_filestream_refines b rest fr₂
  rw [hd, he] at h1
  rw [← h2] at h1
  simp only [Prod.mk.injEq] at h1
  refine ⟨h1.1, ?_⟩
  cases h3 : (fileStream b rest fr₁).2 <;> cases h4 : (fileStream b rest fr₂).2 <;>
    simp [h3, h4, FTerm.toSpec] at h1 ⊢

/-- clause (d): where `try_parse` is NOT stable (`Findings/C09.lean`) it still never turns a failure into
    a success: `InvalidFormat` on a buffer means no longer buffer parses -/
theorem C09d_try_parse_invalid_never_parsed (b p q : Bytes) (hp : tryParse b p = .invalid) (hpq : p <+: q) :
    ∀ f n c s, tryParse b q ≠ .parsed f n c s := by
  obtain ⟨t, rfl⟩ := hpq
  exact tryParse_invalid_ext b p t hp

/-- clause (d), composition, general form (transport errors included): the observable outcome of
    `transform_multipart` + draining the file stream — form fields, file name, content type, delivered
    bytes, and how it ends — is the single-frame semantics of (data before the first error, error flag):
    one `try_parse` of the whole data, then the bytes before the first `CRLF--boundary` after the part
    headers. No hypothesis on the framing. -/
theorem C09d_multipart_refines_single_frame (b : Bytes) (frames : List (Option Bytes)) :
    observe (run b frames) = specOutcome (oneShot b) b (dataBeforeError frames) (hasError frames) :=
  run_spec b frames

/-- … in particular the run on ANY framing equals the run on the single frame holding the concatenation -/
theorem C09d_multipart_equals_single_frame_run (b : Bytes) (frames : List Bytes) :
    observe (run b (frames.map some)) = observe (run b [some frames.flatten]) := by
  rw [run_spec, run_spec, dataBeforeError_map_some, hasError_map_some]
  simp [dataBeforeError, hasError]

/-- clause (d), composition with transport errors: same data before the error and same error flag give
    the same observable outcome -/
theorem C09d_multipart_framing_independent_err (b : Bytes) (fr₁ fr₂ : List (Option Bytes))
    (hd : dataBeforeError fr₁ = dataBeforeError fr₂) (he : hasError fr₁ = hasError fr₂) :
    observe (run b fr₁) = observe (run b fr₂) := by
  rw [run_spec, run_spec, hd, he]

/-- clause (d), composition as planned: two error-free framings of the same bytes give the same parsed
    form (fields, file name, content type), the same delivered file bytes and the same exact terminal
    (`ok | incomplete | invalidFormat`) -/
theorem C09d_multipart_framing_independent (b : Bytes) (frames₁ frames₂ : List Bytes)
    (h : frames₁.flatten = frames₂.flatten) :
    (run b (frames₁.map some)).form = (run b (frames₂.map some)).form ∧
    (run b (frames₁.map some)).chunks.flatten = (run b (frames₂.map some)).chunks.flatten ∧
    (run b (frames₁.map some)).terminal = (run b (frames₂.map some)).terminal := by
  have hobs : observe (run b (frames₁.map some)) = observe (run b (frames₂.map some)) := by
    apply C09d_multipart_framing_independent_err
    · rw [dataBeforeError_map_some, dataBeforeError_map_some, h]
    · rw [hasError_map_some, hasError_map_some]
  have e1 := hasError_map_some frames₁
  have e2 := hasError_map_some frames₂
  cases h1 : (run b (frames₁.map some)).form with
  | none =>
    cases h2 : (run b (frames₂.map some)).form with
    | none =>
      refine ⟨rfl, ?_, ?_⟩
      · rw [run_form_none_chunks b _ h1, run_form_none_chunks b _ h2]
      · rw [run_form_none_terminal b _ e1 h1, run_form_none_terminal b _ e2 h2]
    | some f2 => simp [observe, h1, h2] at hobs
  | some f1 =>
    cases h2 : (run b (frames₂.map some)).form with
    | none => simp [observe, h1, h2] at hobs
    | some f2 =>
      simp only [observe, h1, h2, Obs.mk.injEq, Option.some.injEq] at hobs
      exact ⟨by rw [hobs.1], hobs.2.1, Terminal.toEnd_injective hobs.2.2⟩

/-- model hygiene for clause (d): the fuel given to the two `loop`s of the model (`try_parse`'s part loop,
    `split_to`) never runs out — any fuel above the slice length gives the same answer, so their
    `fuel = 0` branches are dead and `tryParse` mirrors the unbounded Rust loops -/
theorem C09d_fuel_irrelevant (b s : Bytes) (fields : List (Bytes × Bytes)) (n : Nat) (h : s.length < n) :
    partsLoop b n s fields = partsLoop b (s.length + 1) s fields ∧
    splitToLoop (dashBoundary b) s n s 0 = splitTo (dashBoundary b) s :=
  ⟨partsLoop_fuel b n _ s fields h (Nat.lt_succ_self _),
   splitToLoop_fuel _ s n _ s 0 h (Nat.lt_succ_self _)⟩

/-! ## non-vacuity

The form of the repaired finding (boundary `9431149156168`, field `key=acl`, file `MyFilename.jpg`,
`image/jpg`, content `file_content`), cut after 5 bytes — the framing that used to be rejected. -/

def exBoundary : Bytes := [57, 52, 51, 49, 49, 52, 57, 49, 53, 54, 49, 54, 56]
def exBody : Bytes := [45, 45, 57, 52, 51, 49, 49, 52, 57, 49, 53, 54, 49, 54, 56, 13, 10, 67, 111, 110, 116, 101, 110, 116, 45, 68, 105, 115, 112, 111, 115, 105, 116, 105, 111, 110, 58, 32, 102, 111, 114, 109, 45, 100, 97, 116, 97, 59, 32, 110, 97, 109, 101, 61, 34, 107, 101, 121, 34, 13, 10, 13, 10, 97, 99, 108, 13, 10, 45, 45, 57, 52, 51, 49, 49, 52, 57, 49, 53, 54, 49, 54, 56, 13, 10, 67, 111, 110, 116, 101, 110, 116, 45, 68, 105, 115, 112, 111, 115, 105, 116, 105, 111, 110, 58, 32, 102, 111, 114, 109, 45, 100, 97, 116, 97, 59, 32, 110, 97, 109, 101, 61, 34, 102, 105, 108, 101, 34, 59, 32, 102, 105, 108, 101, 110, 97, 109, 101, 61, 34, 77, 121, 70, 105, 108, 101, 110, 97, 109, 101, 46, 106, 112, 103, 34, 13, 10, 67, 111, 110, 116, 101, 110, 116, 45, 84, 121, 112, 101, 58, 32, 105, 109, 97, 103, 101, 47, 106, 112, 103, 13, 10, 13, 10, 102, 105, 108, 101, 95, 99, 111, 110, 116, 101, 110, 116, 13, 10, 45, 45, 57, 52, 51, 49, 49, 52, 57, 49, 53, 54, 49, 54, 56, 45, 45, 13, 10]

/-- hypotheses of `C09d_try_parse_prefix_stable_partial` / `_parsed_stable`: the whole body is a
    definitive success and does not end in a bare delimiter -/
example : tryParse exBoundary exBody =
    .parsed [([107, 101, 121], [97, 99, 108])] [77, 121, 70, 105, 108, 101, 110, 97, 109, 101, 46, 106, 112, 103] [105, 109, 97, 103, 101, 47, 106, 112, 103] 184 := by decide +kernel
example : endsInBareDelimiter exBoundary exBody = false := by decide +kernel
/-- … while its first five bytes only ask for more data (the repaired behaviour) -/
example : tryParse exBoundary (exBody.take 5) = .needMore := by decide +kernel
/-- hypothesis of `C09d_try_parse_invalid_never_parsed`: a wrong first boundary line is a definitive failure -/
example : tryParse exBoundary ([45, 45, 57, 52, 51, 120] ++ [13, 10]) = .invalid := by decide +kernel
/-- hypothesis and conclusion of `C09d_multipart_framing_independent` on the two framings -/
example : [exBody.take 5, exBody.drop 5].flatten = [exBody].flatten := by decide +kernel
example : (run exBoundary ([exBody.take 5, exBody.drop 5].map some)).chunks.flatten = [102, 105, 108, 101, 95, 99, 111, 110, 116, 101, 110, 116] ∧
    (run exBoundary ([exBody.take 5, exBody.drop 5].map some)).terminal = .ok := by decide +kernel
/-- hypotheses of the clause (a)/(b) independence theorems: a body in one and in three frames, one empty -/
example : dataBeforeError [some [1, 2, 3]] = dataBeforeError [some [1], some [], some [2, 3]] ∧
    hasError [some [1, 2, 3]] = hasError [some [1], some [], some [2, 3]] := by decide

end S3V.C09
