import S3V.Model.FsStoreAbs
/-!
# C18 — the file-system backend behaves like an in-memory object store (property theorems only)
-/
namespace S3V.C18
open S3V S3V.FsStore S3V.StoreSpec

/-- the abstraction of the empty directory is the empty store -/
theorem C18_abs_empty : abs {} = {} := rfl

end S3V.C18
