import S3V.Thm.FsStoreRefine
/-!
# C18 — the file-system backend behaves like an in-memory object store (property theorems only)

Objects: `FsStore.step` is the operation-level model of `crates/s3s-fs/src/s3.rs` (tied to the real `FileSystem` by
replaying whole histories, component `fs`), `StoreSpec.step` the abstract store (S3 semantics, RFC 9110 ranges),
`FsStore.abs` the abstraction (files ↦ objects, side files ↦ metadata / checksums, upload files ↦ uploads) and
`FsStore.Inv` the invariant of reachable states. The hash functions `H` (MD5 for ETags, CRC/SHA for checksums) and
the size `dl` the OS reports for a directory are parameters: every theorem holds for all of them.

Shape of every per-operation theorem: for a state satisfying `Inv` and a request satisfying the operation's
predicate, the model answers exactly as the store answers from `abs s`, the abstraction of the new state is the
store's new state, and `Inv` is preserved. The predicates (`PutOk`, `GetOk`, … in `S3V/Thm/FsStore*.lean`) are
explicit and decidable; each conjunct that is not about "names both sides accept or both refuse" excludes one
recorded deviation of the backend (finding class named in the predicate's doc comment, witness history in
`corpus/fs.txt`, kernel-checked counterexample in `S3V/Findings/C18.lean`). `_partial` marks theorems whose
predicate excludes a deviation; the unrestricted statement is `C18_full`.
No bound on sizes, lengths, number of objects or history length appears in any statement.
-/
namespace S3V.C18
open S3V S3V.FsStore S3V.StoreSpec

/-- the answers of the backend and of the store on a history started from nothing -/
def C18_full : Prop :=
  ∀ (H : Hashes) (dl : Nat) (ops : List Op), (run H dl {} ops).2 = (StoreSpec.run H {} ops).2

/-- the empty directory satisfies the invariant and stands for the empty store -/
theorem C18_initial : Inv {} ∧ abs {} = {} := ⟨inv_empty, rfl⟩

/-! ## buckets -/

/-- create_bucket: full (any name both sides accept or both refuse) -/
theorem C18_create_bucket_refines (H : Hashes) (dl : Nat) {s : State} (hi : Inv s) {b : Bytes} (hg : NameOk b) :
    (step H dl s (.createBucket b)).2 = (StoreSpec.step H (abs s) (.createBucket b)).2 ∧
    abs (step H dl s (.createBucket b)).1 = (StoreSpec.step H (abs s) (.createBucket b)).1 ∧
    Inv (step H dl s (.createBucket b)).1 := createBucket_refines H dl hi hg

/-- delete_bucket: full (any name both sides accept or both refuse) — a bucket that still holds objects is refused with
    `BucketNotEmpty` by both and stays (24de822; before: fs:delete-nonempty-bucket), an empty bucket is gone -/
theorem C18_delete_bucket_refines (H : Hashes) (dl : Nat) {s : State} (hi : Inv s) {b : Bytes} (hg : NameOk b) :
    (step H dl s (.deleteBucket b)).2 = (StoreSpec.step H (abs s) (.deleteBucket b)).2 ∧
    abs (step H dl s (.deleteBucket b)).1 = (StoreSpec.step H (abs s) (.deleteBucket b)).1 ∧
    Inv (step H dl s (.deleteBucket b)).1 := deleteBucket_refines H dl hi hg

/-- head_bucket: full -/
theorem C18_head_bucket_refines (H : Hashes) (dl : Nat) {s : State} (hi : Inv s) {b : Bytes} (hg : NameOk b) :
    (step H dl s (.headBucket b)).2 = (StoreSpec.step H (abs s) (.headBucket b)).2 ∧
    abs (step H dl s (.headBucket b)).1 = (StoreSpec.step H (abs s) (.headBucket b)).1 ∧
    Inv (step H dl s (.headBucket b)).1 := headBucket_refines H dl hi hg

/-- get_bucket_location: full -/
theorem C18_get_bucket_location_refines (H : Hashes) (dl : Nat) {s : State} (hi : Inv s) {b : Bytes} (hg : NameOk b) :
    (step H dl s (.getBucketLocation b)).2 = (StoreSpec.step H (abs s) (.getBucketLocation b)).2 ∧
    abs (step H dl s (.getBucketLocation b)).1 = (StoreSpec.step H (abs s) (.getBucketLocation b)).1 ∧
    Inv (step H dl s (.getBucketLocation b)).1 := getBucketLocation_refines H dl hi hg

/-- list_buckets: full (names as a sorted set) -/
theorem C18_list_buckets_refines (H : Hashes) (dl : Nat) {s : State} (hi : Inv s) :
    (step H dl s .listBuckets).2 = (StoreSpec.step H (abs s) .listBuckets).2 ∧
    abs (step H dl s .listBuckets).1 = (StoreSpec.step H (abs s) .listBuckets).1 ∧
    Inv (step H dl s .listBuckets).1 := listBuckets_refines H dl hi

/-! ## objects -/

/-- put_object: the written content, metadata (none given = none kept) and checksums become the object, the answer carries
    the MD5 ETag; a missing bucket, bad digests and refused names are answered alike. Partial — excluded: non-canonical /
    directory keys (fs:key-normalised, fs:directory-key), a path that is not free (prefix-freedom, fs:leftover-directory),
    over-long side-file names (fs:long-key-internal-error) -/
theorem C18_put_refines_partial (H : Hashes) (dl : Nat) {s : State} (hi : Inv s) {b k c : Bytes} {md : Option Meta}
    {cks : Cks} {clen : Option Int} (hg : PutOk s b k) :
    (step H dl s (.putObject b k c md cks clen)).2 = (StoreSpec.step H (abs s) (.putObject b k c md cks clen)).2 ∧
    abs (step H dl s (.putObject b k c md cks clen)).1 = (StoreSpec.step H (abs s) (.putObject b k c md cks clen)).1 ∧
    Inv (step H dl s (.putObject b k c md cks clen)).1 := put_refines H dl hi hg

/-- put_object of a (non-directory) key whose side files — the metadata and the checksum record, named after the encoded
    bucket and key — would not fit a file name: nothing is written, in any state and for any body, and the request is refused;
    in an existing bucket, for a key the backend maps into it, with `KeyTooLongError` (c3dcb24; before, the object file was
    written and the request then failed with `InternalError`, the store changed by a request that failed). The store accepts
    such keys: they stay outside `PutOk` (fs:long-key-internal-error stays open, narrowed for put_object to the refusal) -/
theorem C18_put_long_key_changes_nothing (H : Hashes) (dl : Nat) (s : State) {b k c : Bytes} {md : Option Meta}
    {cks : Cks} {clen : Option Int} (hslash : endsWithSlash k = false) (hlong : sideTooLong b k false = true) :
    (step H dl s (.putObject b k c md cks clen)).1 = s ∧
    (∃ e, (step H dl s (.putObject b k c md cks clen)).2 = .err e) ∧
    (∀ bd p, bucketDir b = some bd → alHas bd s.buckets = true → keyPath k = some p →
      (step H dl s (.putObject b k c md cks clen)).2 = .err .KeyTooLongError) := put_long_key H dl s hslash hlong

set_option maxRecDepth 8000 in
/-- non-vacuity: a key of 200 bytes in bucket `bka` is such a key, and a key of 100 bytes is not -/
example : endsWithSlash (List.replicate 200 76) = false ∧ sideTooLong [98, 107, 97] (List.replicate 200 76) false = true ∧
    sideTooLong [98, 107, 97] (List.replicate 100 76) false = false := by decide

/-- get_object, whole and with ANY range (int, open-ended, suffix of any length): the most recently written content,
    metadata, MD5 ETag; for a range the RFC 9110 slice (`rfcInterval`) with `Content-Range` and `Content-Length`,
    `InvalidRange` when unsatisfiable; a missing key is `NoSuchKey`, a missing bucket `NoSuchBucket` (cc244fc; before:
    fs:missing-bucket-reported-as-missing-key). Partial — excluded: leftover directories, non-canonical keys -/
theorem C18_get_refines_partial (H : Hashes) (dl : Nat) {s : State} (hi : Inv s) {b k : Bytes} {range : Option Range}
    (hg : GetOk s b k) :
    (step H dl s (.getObject b k range)).2 = (StoreSpec.step H (abs s) (.getObject b k range)).2 ∧
    abs (step H dl s (.getObject b k range)).1 = (StoreSpec.step H (abs s) (.getObject b k range)).1 ∧
    Inv (step H dl s (.getObject b k range)).1 := get_refines H dl hi hg

/-- range_slice: what the store (hence, by `C18_get_refines_partial`, the backend) answers to a range that selects bytes:
    exactly the bytes `[st, en)` of the object, `Content-Length = en - st`, `Content-Range: bytes st-(en-1)/len`,
    and with a `Content-Range` present the HTTP layer answers 206 -/
theorem C18_range_slice (H : Hashes) (o : Obj) (r : Range) (st en : Nat)
    (h : DtoSpec.rfcInterval (toByteRange r) o.content.length = some (st, en)) (hne : st < en) :
    readObj H o (some r) =
      .get ((o.content.drop st).take (en - st)) (en - st) (some (fmtContentRange st (en - 1) o.content.length))
        (some (etagOf H o.content)) o.md o.cks ∧
    status (readObj H o (some r)) = 206 := by
  simp [readObj, h, hne, slice, status]

/-- `Range::check` is the RFC 9110 interval, for every range and every length (full) -/
theorem C18_range_check (r : Range) (len : Nat) :
    rangeCheck r len = DtoSpec.rfcInterval (toByteRange r) len := rangeCheck_eq r len

/-- head_object: length, metadata and MD5 ETag of the most recent write — the answers agree in every member (42c2f29;
    before, head_object returned no ETag: fs:head-without-etag); a missing key in an existing bucket (`NoSuchKey`) and a
    missing bucket (`NoSuchBucket`) are answered alike (d6f1a3c; before: fs:head-missing-key-code). Partial — excluded: a
    directory left behind at the path (fs:leftover-directory) -/
theorem C18_head_refines_partial (H : Hashes) (dl : Nat) {s : State} (hi : Inv s) {b k : Bytes} (hg : HeadOk s b k) :
    (step H dl s (.headObject b k)).2 = (StoreSpec.step H (abs s) (.headObject b k)).2 ∧
    abs (step H dl s (.headObject b k)).1 = (StoreSpec.step H (abs s) (.headObject b k)).1 ∧
    Inv (step H dl s (.headObject b k)).1 := head_refines H dl hi hg

/-- delete_object: deleted objects are gone; deleting a key that does not exist succeeds and changes nothing, a missing
    bucket is `NoSuchBucket` (20fee59; before: fs:delete-missing-key-error and the delete_object part of
    fs:missing-bucket-reported-as-missing-key). Partial — excluded only: a directory left behind at the path
    (fs:leftover-directory), non-canonical keys -/
theorem C18_delete_refines_partial (H : Hashes) (dl : Nat) {s : State} (hi : Inv s) {b k : Bytes} (hg : DeleteOk s b k) :
    (step H dl s (.deleteObject b k)).2 = (StoreSpec.step H (abs s) (.deleteObject b k)).2 ∧
    abs (step H dl s (.deleteObject b k)).1 = (StoreSpec.step H (abs s) (.deleteObject b k)).1 ∧
    Inv (step H dl s (.deleteObject b k)).1 := delete_refines H dl hi hg

/-- delete_objects: all named objects are gone and every requested key is reported as deleted, in request order — also a key
    that does not exist and a key the request names more than once (c55c267; before, keys that did not exist were left out
    of the answer: fs:delete-objects-omits-missing-keys, and a repeated key failed with `InternalError` after the first
    removal: fs:delete-objects-duplicate-key); a request with a key both sides refuse is `InvalidArgument` and changes
    nothing; on a bucket that does not exist the answer is `NoSuchBucket` whatever the keys (`InvalidArgument` when one is
    refused; 0f31b61, before: fs:delete-objects-in-missing-bucket). Partial — excluded only, when the bucket exists: a
    directory left behind at a key's path (fs:leftover-directory), non-canonical keys (fs:key-normalised,
    fs:directory-key) -/
theorem C18_delete_objects_refines_partial (H : Hashes) (dl : Nat) {s : State} (hi : Inv s) {b : Bytes}
    {keys : List Bytes} (hg : DeleteObjectsOk s b keys) :
    (step H dl s (.deleteObjects b keys)).2 = (StoreSpec.step H (abs s) (.deleteObjects b keys)).2 ∧
    abs (step H dl s (.deleteObjects b keys)).1 = (StoreSpec.step H (abs s) (.deleteObjects b keys)).1 ∧
    Inv (step H dl s (.deleteObjects b keys)).1 := deleteObjects_refines H dl hi hg

/-- copy_object: the destination becomes the source's content, metadata and checksums — whatever metadata or checksums the
    object it replaces had: they are replaced by the source's, or removed when the source has none (8faafe7; before:
    fs:stale-metadata-after-copy, fs:stale-checksum-after-copy); an object copied onto itself stays as it is; a missing
    source bucket is `NoSuchBucket` on both sides (cc244fc). Partial — excluded only: a directory left behind at either path
    (fs:leftover-directory), non-canonical keys, over-long side-file names (fs:long-key-internal-error) -/
theorem C18_copy_refines_partial (H : Hashes) (dl : Nat) {s : State} (hi : Inv s) {sb sk db dk : Bytes}
    (hg : CopyOk s sb sk db dk) :
    (step H dl s (.copyObject sb sk db dk)).2 = (StoreSpec.step H (abs s) (.copyObject sb sk db dk)).2 ∧
    abs (step H dl s (.copyObject sb sk db dk)).1 = (StoreSpec.step H (abs s) (.copyObject sb sk db dk)).1 ∧
    Inv (step H dl s (.copyObject sb sk db dk)).1 := copy_refines H dl hi hg

/-! ## listings -/

/-- list_objects_v2: the keys under the prefix (a plain string prefix) after `start-after`, in byte order, rolled up into
    CommonPrefixes by any delimiter (the empty one rolls up nothing), cut at `max-keys` (default 1000; none for 0 or less)
    with `IsTruncated`, `KeyCount` = keys + common prefixes — every member equal to the store's (fe72881; before:
    fs:list-delimiter-not-rolled-up, fs:list-delimiter-rewrites-keys, fs:list-ignores-max-keys, and prefixes such as `d//e`
    read as paths). Partial — excluded: a prefix that starts with `/` (fs:list-prefix-as-path: its leading slashes are
    dropped, as the integration test `test_list_objects_v2` of s3s-fs demands) -/
theorem C18_list_v2_refines_partial (H : Hashes) (dl : Nat) {s : State} (hi : Inv s) {b : Bytes}
    {pfx delim after : Option Bytes} {maxKeys : Option Int} (hg : ListOk b pfx) :
    (step H dl s (.listObjectsV2 b pfx delim after maxKeys)).2 =
      (StoreSpec.step H (abs s) (.listObjectsV2 b pfx delim after maxKeys)).2 ∧
    abs (step H dl s (.listObjectsV2 b pfx delim after maxKeys)).1 =
      (StoreSpec.step H (abs s) (.listObjectsV2 b pfx delim after maxKeys)).1 ∧
    Inv (step H dl s (.listObjectsV2 b pfx delim after maxKeys)).1 := listV2_refines H dl hi hg

/-- list_objects (v1, `marker`): as v2 -/
theorem C18_list_v1_refines_partial (H : Hashes) (dl : Nat) {s : State} (hi : Inv s) {b : Bytes}
    {pfx delim marker : Option Bytes} {maxKeys : Option Int} (hg : ListOk b pfx) :
    (step H dl s (.listObjects b pfx delim marker maxKeys)).2 =
      (StoreSpec.step H (abs s) (.listObjects b pfx delim marker maxKeys)).2 ∧
    abs (step H dl s (.listObjects b pfx delim marker maxKeys)).1 =
      (StoreSpec.step H (abs s) (.listObjects b pfx delim marker maxKeys)).1 ∧
    Inv (step H dl s (.listObjects b pfx delim marker maxKeys)).1 := listV1_refines H dl hi hg

/-- what the store's listing is (so, by the two theorems above, the backend's): exactly the keys of the bucket that start
    with the prefix and come after the marker, each once with its size, in strictly ascending byte order -/
theorem C18_listing_exact (objs : List (Bytes × Obj)) (pfx after : Option Bytes) (maxKeys : Option Int)
    (hnd : keysNodup objs) (hlim : objs.length ≤ listLimit maxKeys) :
    ∃ items, listing objs pfx none after maxKeys = .listed items items.length false [] ∧
      items.Pairwise (fun x y => bytesLt x.1 y.1 = true) ∧
      ∀ k n, (k, n) ∈ items ↔
        (∃ o, alLookup k objs = some o ∧ n = o.content.length) ∧ (pfx.getD []).isPrefixOf k = true ∧
          (∀ m, after = some m → bytesLt m k = true) := listing_exact objs pfx after maxKeys hnd hlim

/-! ## multipart uploads -/

/-- create_multipart_upload: a missing bucket and refused names are answered alike. Partial — excluded only: over-long
    metadata file names (fs:long-key-internal-error) -/
theorem C18_create_upload_refines_partial (H : Hashes) (dl : Nat) {s : State} (hi : Inv s) {who : Who} {b k : Bytes}
    {md : Option Meta} (hg : CreateUploadOk s b k) :
    (step H dl s (.createMultipartUpload who b k md)).2 =
      (StoreSpec.step H (abs s) (.createMultipartUpload who b k md)).2 ∧
    abs (step H dl s (.createMultipartUpload who b k md)).1 =
      (StoreSpec.step H (abs s) (.createMultipartUpload who b k md)).1 ∧
    Inv (step H dl s (.createMultipartUpload who b k md)).1 := createUpload_refines H dl hi hg

/-- upload_part: only the creating identity may add a part (`AccessDenied` otherwise); an upload that does not exist — never
    issued, completed, aborted, or an id that is no UUID — is `NoSuchUpload` on both sides (4609ab3; before:
    fs:unknown-upload-code); a part number outside 1..10000 is `InvalidArgument` on both sides (205d9a8; before, numbers below
    1 were accepted: fs:part-number-not-validated); an upload exists only under the bucket and key it was created for: under
    any other it is `NoSuchUpload` on both sides, for the creator and for anybody else (41e1cf2; before, the upload id was
    accepted under any bucket and key: fs:upload-not-bound-to-key). Full: every state satisfying `Inv`, every request -/
theorem C18_upload_part_refines (H : Hashes) (dl : Nat) {s : State} (hi : Inv s) {who : Who} {b k : Bytes}
    {u : UploadRef} {n : Int} {c : Bytes} :
    (step H dl s (.uploadPart who b k u n c)).2 = (StoreSpec.step H (abs s) (.uploadPart who b k u n c)).2 ∧
    abs (step H dl s (.uploadPart who b k u n c)).1 = (StoreSpec.step H (abs s) (.uploadPart who b k u n c)).1 ∧
    Inv (step H dl s (.uploadPart who b k u n c)).1 := uploadPart_refines H dl hi

/-- upload_part_copy: the part becomes the source object, or its `bytes=first-last` slice; ANY other value of
    `x-amz-copy-source-range` — open-ended, suffix form, beyond the end of the source, first after last, a signed or
    overflowing position, any other byte string — is `InvalidArgument` on both sides and changes nothing (18203b6: the
    backend's reader accepts exactly what the store accepts, `copyRange_eq`; before, open-ended ranges and ranges beyond the
    end were accepted: fs:part-copy-range-unchecked); a part number outside 1..10000 is `InvalidArgument` (205d9a8; before
    it was not checked: fs:part-number-not-validated), an upload that does not exist — at all, or under this bucket and key
    (41e1cf2; before: fs:upload-not-bound-to-key) — `NoSuchUpload`, on both sides. The predicate only asks for comparable
    source names and sizes -/
theorem C18_upload_part_copy_refines_partial (H : Hashes) (dl : Nat) {s : State} (hi : Inv s) {who : Who} {b k : Bytes}
    {u : UploadRef} {n : Int} {sb sk : Bytes} {range : Option Bytes} (hg : UploadPartCopyOk s b k u n sb sk range) :
    (step H dl s (.uploadPartCopy who b k u n sb sk range)).2 =
      (StoreSpec.step H (abs s) (.uploadPartCopy who b k u n sb sk range)).2 ∧
    abs (step H dl s (.uploadPartCopy who b k u n sb sk range)).1 =
      (StoreSpec.step H (abs s) (.uploadPartCopy who b k u n sb sk range)).1 ∧
    Inv (step H dl s (.uploadPartCopy who b k u n sb sk range)).1 := uploadPartCopy_refines H dl hi hg

/-- list_parts: the part numbers and sizes uploaded so far, in ascending part-number order (`C18_list_parts_exact`) — the
    order is part of the answer on both sides: the code sorts the parts it read from the directory (764f144; before, it
    returned them in directory-read order and the comparison with the real code had to ignore the order:
    fs:list-parts-unordered); of an upload that does not exist: `NoSuchUpload` on both sides (4609ab3; before, an empty
    list: fs:list-parts-unknown-upload) — also of an upload that exists under another bucket or key (41e1cf2; before, its
    parts were listed: fs:upload-not-bound-to-key). Full: every state satisfying `Inv`, every request -/
theorem C18_list_parts_refines (H : Hashes) (dl : Nat) {s : State} (hi : Inv s) {who : Who} {b k : Bytes}
    {u : UploadRef} :
    (step H dl s (.listParts who b k u)).2 = (StoreSpec.step H (abs s) (.listParts who b k u)).2 ∧
    abs (step H dl s (.listParts who b k u)).1 = (StoreSpec.step H (abs s) (.listParts who b k u)).1 ∧
    Inv (step H dl s (.listParts who b k u)).1 := listParts_refines H dl hi

/-- what the store's answer to list_parts is (so, by `C18_list_parts_refines`, the backend's): exactly the parts uploaded so far, each
    once with its size, in strictly ascending part-number order (the parts of an upload are keyed by their number:
    `keysNodup`, which `alInsert` maintains) -/
theorem C18_list_parts_exact (parts : List (Int × Bytes)) (hnd : keysNodup parts) :
    (sortParts (parts.map fun p => (p.1, p.2.length))).Pairwise (fun x y => x.1 < y.1) ∧
    ∀ n sz, (n, sz) ∈ sortParts (parts.map fun p => (p.1, p.2.length)) ↔ ∃ c, (n, c) ∈ parts ∧ sz = c.length := by
  constructor
  · apply sortParts_strict
    unfold keysNodup at hnd ⊢
    rw [List.map_map]
    exact hnd
  · intro n sz
    rw [sortParts_mem, List.mem_map]
    constructor
    · rintro ⟨p, hp, he⟩
      simp only [Prod.mk.injEq] at he
      exact ⟨p.2, by rw [← he.1]; exact hp, he.2.symm⟩
    · rintro ⟨c, hc, rfl⟩
      exact ⟨(n, c), hc, rfl⟩

/-- complete_multipart_upload: the object becomes the concatenation of the listed parts — ANY strictly ascending selection
    of the uploaded parts, with or without gaps in the numbers (dbb8684; before, only `1, 2, …, m` was accepted:
    fs:complete-requires-consecutive-parts) — in list (= ascending part-number) order, with the upload's metadata; the upload
    is gone; an identity other than the creator gets `AccessDenied` and changes nothing; an upload that does not exist — at
    all, or under this bucket and key (41e1cf2; before: fs:upload-not-bound-to-key) — is `NoSuchUpload` on both sides
    (4609ab3). EVERY part list is inside the predicate, and a complete that fails validation is answered alike and changes
    nothing — the upload stays and can be completed later (0096ef4; before the upload was consumed first:
    fs:failed-complete-consumes-upload, and a missing part was `InternalError`: fs:complete-missing-part-internal-error) —
    with the store's code, in the store's order (0fcb858; before: fs:complete-part-list-validation): no part list or an
    empty one `MalformedXML` (before anything else is looked at), then, for the owner, a part without a number
    `MalformedXML`, numbers not strictly ascending (unordered, repeated) `InvalidPartOrder`, a listed part that was never
    uploaded `InvalidPart`, a part other than the last listed below the minimum size `EntityTooSmall`; the metadata and the
    checksums of an object it replaces are replaced with it — by the upload's metadata, or none, and by no checksums
    (47e9b00; before: fs:stale-metadata-after-complete, fs:stale-checksum-after-complete); a complete that passes
    validation but whose bucket no longer exists is `NoSuchBucket` on both sides and changes nothing — the bucket is not
    recreated, the upload stays (b29f222; before: fs:complete-into-missing-bucket). Partial — what the predicate still
    asks of a complete by the owner: admissible bucket name, canonical key, and for one that passes validation a free path
    and side-file names that fit (fs:key-normalised, fs:leftover-directory, fs:long-key-internal-error) -/
theorem C18_complete_refines_partial (H : Hashes) (dl : Nat) {s : State} (hi : Inv s) {who : Who} {b k : Bytes}
    {u : UploadRef} {parts : Option (List (Option Int))} (hg : CompleteOk s who b k u parts) :
    (step H dl s (.completeMultipartUpload who b k u parts)).2 =
      (StoreSpec.step H (abs s) (.completeMultipartUpload who b k u parts)).2 ∧
    abs (step H dl s (.completeMultipartUpload who b k u parts)).1 =
      (StoreSpec.step H (abs s) (.completeMultipartUpload who b k u parts)).1 ∧
    Inv (step H dl s (.completeMultipartUpload who b k u parts)).1 := complete_refines H dl hi hg

/-- the four validation passes of complete_multipart_upload, for EVERY part list, compute what the store prescribes: the
    numbers it reads are the store's (a part without a number: none), its order test is the negation of the store's
    "strictly ascending", and for any list of numbers `ns`: if every listed part exists, the third pass yields exactly the
    listed numbers (`ps.map (·.1) = ns`: in list order, which is strictly ascending part-number order when the order test
    passed, whatever gaps the numbers have), each paired with the content of its part file, what is then written is the
    concatenation of these contents in that order (`cs.flatten`), the size rule is the store's (`sizesOk`: every part but
    the last listed), and the final clean-up removes only part files of that upload; if a listed part does not exist the
    third pass fails (`InvalidPart`) -/
theorem C18_complete_concatenates (id : Nat) (pl : List (Option Int)) (parts : List ((Nat × Int) × Bytes)) :
    partNumbers pl = pl.mapM (fun x => x) ∧
    ∀ ns : List Int,
      outOfOrder ns = !ascending ns ∧
      (ascending ns = true → ns.Pairwise (· < ·)) ∧
      match ns.mapM (fun n => alLookup (id, n) parts) with
      | some cs =>
        ∃ ps, partFiles id parts ns = some ps ∧ ps.map (·.1) = ns ∧ ps.map (·.2) = cs ∧
          (∀ e ∈ ps, alLookup (id, e.1) parts = some e.2) ∧
          (ps.map (·.2)).flatten = cs.flatten ∧ partTooSmall ps = !sizesOk cs ∧
          Erased id parts (eraseParts id (ps.map (·.1)) parts)
      | none => partFiles id parts ns = none := by
  refine ⟨partNumbers_eq pl, fun ns => ⟨outOfOrder_eq ns, ascending_pairwise ns, ?_⟩⟩
  have hpc := partFiles_contents id parts ns
  cases hpf : partFiles id parts ns with
  | none =>
    rw [hpf] at hpc
    rw [← hpc]
    rfl
  | some ps =>
    rw [hpf] at hpc
    rw [← hpc]
    simp only [Option.map_some]
    exact ⟨ps, rfl, partFiles_numbers id parts ns ps hpf, rfl, partFiles_mem id parts ns ps hpf, rfl,
      partTooSmall_eq ps, eraseParts_erased id _ parts⟩

/-- a part list with gaps passes: parts 2, 5, 9 uploaded (in another order) and listed `2, 5, 9` are concatenated in that
    order; the same parts listed `5, 2` fail the order test -/
example :
    let parts : List ((Nat × Int) × Bytes) := [((1, 9), [9, 9]), ((1, 2), [2]), ((2, 5), [0]), ((1, 5), [5, 5, 5])]
    partNumbers [some 2, some 5, some 9] = some [2, 5, 9] ∧ outOfOrder [2, 5, 9] = false ∧
    partFiles 1 parts [2, 5, 9] = some [(2, [2]), (5, [5, 5, 5]), (9, [9, 9])] ∧
    outOfOrder [5, 2] = true ∧ outOfOrder [2, 2] = true ∧ partFiles 1 parts [2, 3] = none ∧
    partNumbers [some 2, none] = none := by decide

/-- abort_multipart_upload: only by the creator; the upload is gone; of an upload that does not exist — at all, or under this
    bucket and key (41e1cf2; before, an upload could be aborted under any key: fs:upload-not-bound-to-key) — `NoSuchUpload` on
    both sides and nothing changes. Full: every state satisfying `Inv`, every request -/
theorem C18_abort_refines (H : Hashes) (dl : Nat) {s : State} (hi : Inv s) {who : Who} {b k : Bytes}
    {u : UploadRef} :
    (step H dl s (.abortMultipartUpload who b k u)).2 = (StoreSpec.step H (abs s) (.abortMultipartUpload who b k u)).2 ∧
    abs (step H dl s (.abortMultipartUpload who b k u)).1 =
      (StoreSpec.step H (abs s) (.abortMultipartUpload who b k u)).1 ∧
    Inv (step H dl s (.abortMultipartUpload who b k u)).1 := abort_refines H dl hi

/-! ## one request, whole histories -/

/-- any request in `Good` (the disjunction, by operation, of the per-operation predicates) -/
theorem C18_step_refines_partial (H : Hashes) (dl : Nat) {s : State} (hi : Inv s) {op : Op} (hg : Good s op) :
    (step H dl s op).2 = (StoreSpec.step H (abs s) op).2 ∧
    abs (step H dl s op).1 = (StoreSpec.step H (abs s) op).1 ∧ Inv (step H dl s op).1 :=
  step_refines H dl hi hg

/-- all operation lists, by induction: if every request meets `Good` in the state in which it arrives, the backend's
    answers are the store's, its final state abstracts to the store's final state, and the
    invariant holds throughout -/
theorem C18_history_refines_partial (H : Hashes) (dl : Nat) (ops : List Op) (s : State) (hi : Inv s)
    (hg : GoodRun H dl s ops) :
    (run H dl s ops).2 = (StoreSpec.run H (abs s) ops).2 ∧
    abs (run H dl s ops).1 = (StoreSpec.run H (abs s) ops).1 ∧ Inv (run H dl s ops).1 :=
  history_refines H dl ops s hi hg

/-- histories from the empty directory against the empty store -/
theorem C18_history_from_empty_partial (H : Hashes) (dl : Nat) (ops : List Op) (hg : GoodRun H dl {} ops) :
    (run H dl {} ops).2 = (StoreSpec.run H {} ops).2 ∧
    abs (run H dl {} ops).1 = (StoreSpec.run H {} ops).1 :=
  let h := history_refines H dl ops {} inv_empty hg
  ⟨h.1, h.2.1⟩

/-! ## non-vacuity: a realistic history meets the hypotheses -/

/-- hash functions for evaluating examples in the kernel (any functions do: the theorems quantify over them) -/
def H0 : Hashes := ⟨fun c => c.take 2, fun _ => [1], fun _ => [2], fun _ => [3], fun _ => [4]⟩

def bka : Bytes := [98, 107, 97]
def kDE : Bytes := [100, 47, 101]       -- "d/e"
def kDF : Bytes := [100, 47, 102]       -- "d/f"
def kA : Bytes := [97]                  -- "a"
def kX : Bytes := [120]                 -- "x"
def alice : Who := some [65]
def bob : Who := some [66]

/-- a realistic history inside `Good`: bucket, writes with and without metadata (also over an object that had some),
    whole / ranged / suffix reads (suffix longer than the object, suffix of an empty object), a copy onto itself, head
    (of an object and of a key that does not exist), prefix listing with marker, copy, delete (also of the key just deleted), a multipart upload driven by its owner and refused to another identity, whose completion first fails twice (a listed part was never uploaded: `InvalidPart`; a part other than the last is too small: `EntityTooSmall`) and then succeeds, after which the upload is unknown to every operation (`NoSuchUpload`, as is an id that was never issued or is no UUID),
    delete_bucket while the bucket holds objects (refused) and after they are deleted (the directory `d` is left behind) -/
def demo : List Op := [
  .createBucket bka,
  .putObject bka kDE [1, 2, 3, 4, 5] (some [([109], [118])]) {} none,
  .putObject bka kA [] none {} none,
  .putObject bka kDE [1, 2, 3, 4, 5] none {} none,
  .putObject bka kDE [1, 2, 3, 4, 5] (some [([109], [118])]) {} none,
  .getObject bka kDE none,
  .getObject bka kDE (some (.int 1 (some 3))),
  .getObject bka kDE (some (.int 2 none)),
  .getObject bka kDE (some (.suffix 2)),
  .getObject bka kDE (some (.suffix 9)),
  .getObject bka kA (some (.suffix 3)),
  .getObject bka kDE (some (.int 7 none)),
  .copyObject bka kDE bka kDE,
  .headObject bka kDE,
  .headObject bka kX,
  .listObjectsV2 bka (some [100, 47]) none (some kA) none,
  .copyObject bka kDE bka kDF,
  .listObjects bka none none none (some 1000),
  .deleteObject bka kA,
  .deleteObject bka kA,
  .createMultipartUpload alice bka kX (some [([116], [117])]),
  .uploadPart bob bka kX (some 1) 1 [7],
  .uploadPart alice bka kX (some 1) 1 [7, 8, 9],
  .listParts alice bka kX (some 1),
  .completeMultipartUpload bob bka kX (some 1) (some [some 1]),
  .completeMultipartUpload alice bka kX (some 1) (some [some 1, some 2]),
  .uploadPart alice bka kX (some 1) 2 [5],
  .completeMultipartUpload alice bka kX (some 1) (some [some 1, some 2]),
  .completeMultipartUpload alice bka kX (some 1) (some [some 1]),
  .getObject bka kX none,
  .listParts alice bka kX (some 1), .uploadPart alice bka kX (some 1) 3 [1], .abortMultipartUpload alice bka kX none,
  .completeMultipartUpload bob bka kX (some 7) (some [some 1]),
  .createMultipartUpload bob bka kA none,
  .abortMultipartUpload bob bka kA (some 2),
  .deleteBucket bka,
  .deleteObjects bka [kDE, kDF], .deleteObject bka kX,
  .deleteBucket bka,
  .listBuckets ]

/-- the hypotheses of the history theorem hold of `demo` from the empty directory (kernel evaluation) -/
example : GoodRun H0 4096 {} demo := by decide

/-- … so the theorem applies to it -/
example : (run H0 4096 {} demo).2 = (StoreSpec.run H0 {} demo).2 :=
  (C18_history_from_empty_partial H0 4096 demo (by decide)).1

/-- listings with a delimiter (also one other than `/`, also the empty one), a prefix that is no path (`d//`, `d/./`), a
    marker and `max-keys` (also 0 and negative) are inside `Good`: on the state after `d/e`, `a`, `d/f` were written the
    backend rolls `d/e`, `d/f` up into the common prefix `d/`, cuts after one entry and says so; only a prefix that starts
    with `/` is outside -/
example :
    let s := (run H0 4096 {} (demo.take 17)).1
    Good s (.listObjectsV2 bka none (some [47]) none (some 1)) ∧
    (step H0 4096 s (.listObjectsV2 bka none (some [47]) none (some 1))).2 = .listed [(kA, 0)] 1 true [] ∧
    (step H0 4096 s (.listObjectsV2 bka none (some [47]) (some kA) (some 1))).2 = .listed [] 1 false [[100, 47]] ∧
    (step H0 4096 s (.listObjects bka (some [100]) (some [47]) none none)).2 = .listed [] 1 false [[100, 47]] ∧
    (step H0 4096 s (.listObjects bka none (some [101]) none none)).2 = .listed [(kA, 0), (kDF, 5)] 3 false [kDE] ∧
    Good s (.listObjects bka (some [100, 47, 47]) (some []) none (some 0)) ∧
    Good s (.listObjectsV2 bka (some [100, 47, 46, 47]) (some [45]) (some kDE) (some (-1))) ∧
    ¬ Good s (.listObjectsV2 bka (some [47, 100]) none none none) := by decide

/-- the per-operation predicates are inhabited on a state with objects: an overwrite carrying metadata, a ranged read,
    a copy between objects that both have metadata files -/
example : PutOk (run H0 4096 {} (demo.take 3)).1 bka kDE := by decide
example : GetOk (run H0 4096 {} (demo.take 3)).1 bka kDE := by decide
example : CopyOk (run H0 4096 {} (demo.take 11)).1 bka kDE bka kDF := by decide
/-- head_object of a key that does not exist in an existing bucket, and of a key in a bucket that does not exist -/
example : HeadOk (run H0 4096 {} (demo.take 3)).1 bka kX := by decide
example : HeadOk (run H0 4096 {} (demo.take 3)).1 [98, 107, 98] kX := by decide
/-- get_object, copy_object and upload_part_copy with a (source) bucket that does not exist -/
example : GetOk (run H0 4096 {} (demo.take 3)).1 [98, 107, 98] kX := by decide
example : CopyOk (run H0 4096 {} (demo.take 3)).1 [98, 107, 98] kX bka kDF := by decide
example : UploadPartCopyOk (run H0 4096 {} (demo.take 23)).1 bka kX (some 1) 2 [98, 107, 98] kDE none := by decide
/-- delete_objects on a bucket that does not exist (also with a repeated key and with a key both sides refuse) -/
example : DeleteObjectsOk (run H0 4096 {} (demo.take 3)).1 [98, 107, 98] [kX, kX, [46, 46]] := by decide
/-- delete_objects on an existing bucket with a key that does not exist, a key named twice and (second example) a key both
    sides refuse: inside the predicate (c55c267); every requested key is reported, the object is gone -/
example :
    let s := (run H0 4096 {} (demo.take 3)).1
    DeleteObjectsOk s bka [kA, kX, kA, kDE] ∧
    (step H0 4096 s (.deleteObjects bka [kA, kX, kA, kDE])).2 = .deleted [kA, kX, kA, kDE] ∧
    (step H0 4096 (step H0 4096 s (.deleteObjects bka [kA, kX, kA, kDE])).1 (.getObject bka kA none)).2 =
      .err .NoSuchKey := by decide
example : DeleteObjectsOk (run H0 4096 {} (demo.take 3)).1 bka [kA, [46, 46]] ∧
    (step H0 4096 (run H0 4096 {} (demo.take 3)).1 (.deleteObjects bka [kA, [46, 46]])).2 = .err .InvalidArgument := by
  decide
/-- … and it still excludes the recorded deviations: a key that is not in canonical form (fs:key-normalised) -/
example : ¬ DeleteObjectsOk (run H0 4096 {} (demo.take 3)).1 bka [[100, 47, 47, 101]] := by decide
/-- delete_object of a key that does not exist, in an existing bucket and in a bucket that does not exist -/
example : DeleteOk (run H0 4096 {} (demo.take 3)).1 bka kX := by decide
example : DeleteOk (run H0 4096 {} (demo.take 3)).1 [98, 107, 98] kX := by decide
/-- delete_bucket of a bucket that holds objects is inside `Good` (any admissible name is), and is refused -/
example : Good (run H0 4096 {} (demo.take 3)).1 (.deleteBucket bka) ∧
    (step H0 4096 (run H0 4096 {} (demo.take 3)).1 (.deleteBucket bka)).2 = .err .BucketNotEmpty := by decide
/-- a ranged part copy `bytes=1-3` from an existing object into the owner's upload -/
example : UploadPartCopyOk (run H0 4096 {} (demo.take 23)).1 bka kX (some 1) 2 bka kDE
    (some [98, 121, 116, 101, 115, 61, 49, 45, 51]) := by decide
/-- … and every other value of `x-amz-copy-source-range` is inside too (18203b6; they were the excluded region
    fs:part-copy-range-unchecked): beyond the end (`bytes=0-20` of 5 bytes), open-ended (`bytes=3-`), suffix form
    (`bytes=-3`), a signed position (`bytes=+1-3`), first after last (`bytes=3-1`), a second dash (`bytes=1-3-5`), no unit
    (`1-3`) — all refused with `InvalidArgument`, and the last byte alone (`bytes=4-4`) is copied -/
example :
    let s := (run H0 4096 {} (demo.take 23)).1
    let bad : List Bytes := [[98, 121, 116, 101, 115, 61, 48, 45, 50, 48], [98, 121, 116, 101, 115, 61, 51, 45],
      [98, 121, 116, 101, 115, 61, 45, 51], [98, 121, 116, 101, 115, 61, 43, 49, 45, 51],
      [98, 121, 116, 101, 115, 61, 51, 45, 49], [98, 121, 116, 101, 115, 61, 49, 45, 51, 45, 53], [49, 45, 51], []]
    (∀ r ∈ bad, Good s (.uploadPartCopy alice bka kX (some 1) 2 bka kDE (some r)) ∧
      (step H0 4096 s (.uploadPartCopy alice bka kX (some 1) 2 bka kDE (some r))).2 = .err .InvalidArgument) ∧
    Good s (.uploadPartCopy alice bka kX (some 1) 2 bka kDE (some [98, 121, 116, 101, 115, 61, 52, 45, 52])) ∧
    (step H0 4096 s (.uploadPartCopy alice bka kX (some 1) 2 bka kDE (some [98, 121, 116, 101, 115, 61, 52, 45, 52]))).2 =
      .part (some (etagOf H0 [5])) := by decide
/-- a copy onto an object that has a metadata file, from a source without one, is inside `CopyOk` (8faafe7; it was the
    excluded region fs:stale-metadata-after-copy), and the object read afterwards has no metadata -/
example : CopyOk (run H0 4096 {} (demo.take 5)).1 bka kA bka kDE ∧
    (run H0 4096 {} (demo.take 5 ++ [.copyObject bka kA bka kDE, .getObject bka kDE none])).2.getLast? =
      some (.get [] 0 none (some (etagOf H0 [])) [] {}) := by decide
/-- … and they do exclude the recorded deviations: a key that is not in canonical form (fs:key-normalised) -/
example : ¬ CopyOk (run H0 4096 {} (demo.take 5)).1 bka kA bka [100, 47, 47, 101] := by decide
/-- part numbers outside 1..10000 are inside `Good` for upload_part and upload_part_copy (and refused), and so are all five
    upload operations on an upload id that was never issued or is no UUID -/
example : Good (run H0 4096 {} (demo.take 23)).1 (.uploadPart alice bka kX (some 1) 0 [1]) ∧
    Good (run H0 4096 {} (demo.take 23)).1 (.uploadPartCopy alice bka kX (some 1) 10001 bka kDE none) ∧
    (step H0 4096 (run H0 4096 {} (demo.take 23)).1 (.uploadPartCopy alice bka kX (some 1) 10001 bka kDE none)).2 =
      .err .InvalidArgument ∧
    Good (run H0 4096 {} (demo.take 23)).1 (.uploadPart alice bka kX (some 9) 1 [1]) ∧
    Good (run H0 4096 {} (demo.take 23)).1 (.uploadPartCopy alice bka kX none 1 bka kDE none) ∧
    Good (run H0 4096 {} (demo.take 23)).1 (.listParts alice bka kX (some 9)) ∧
    Good (run H0 4096 {} (demo.take 23)).1 (.completeMultipartUpload alice bka kX none (some [some 1])) ∧
    Good (run H0 4096 {} (demo.take 23)).1 (.abortMultipartUpload alice bka kX (some 9)) := by decide
/-- a complete that replaces an object which has metadata and a recorded checksum, by an upload without metadata, is
    inside `Good` (and the object read afterwards has neither) -/
example :
    let ops : List Op := [.createBucket bka, .putObject bka kA [1] (some [([109], [118])]) { crc32 := some [1] } none,
      .createMultipartUpload alice bka kA none, .uploadPart alice bka kA (some 1) 1 [2],
      .completeMultipartUpload alice bka kA (some 1) (some [some 1]), .getObject bka kA none]
    GoodRun H0 4096 {} ops ∧ (run H0 4096 {} ops).2.getLast? = some (.get [2] 1 none (some (etagOf H0 [2])) [] {}) := by
  decide
/-- a complete into a bucket that was deleted after the upload was created is inside `Good` (b29f222; it was the excluded
    region fs:complete-into-missing-bucket): it is refused, the bucket stays away and the upload stays -/
example :
    let ops : List Op := [.createBucket bka, .createMultipartUpload alice bka kA none, .uploadPart alice bka kA (some 1) 1 [2],
      .deleteBucket bka, .completeMultipartUpload alice bka kA (some 1) (some [some 1]), .listBuckets]
    GoodRun H0 4096 {} ops ∧ (run H0 4096 {} ops).2.drop 4 = [.err .NoSuchBucket, .buckets []] ∧
    (alLookup 1 (run H0 4096 {} ops).1.uploads).isSome = true := by decide
/-- parts uploaded out of order (3, 1, 2) are listed in ascending order, inside `Good` -/
example :
    let ops : List Op := [.createBucket bka, .createMultipartUpload alice bka kA none, .uploadPart alice bka kA (some 1) 3 [7],
      .uploadPart alice bka kA (some 1) 1 [8, 9], .uploadPart alice bka kA (some 1) 2 [], .listParts alice bka kA (some 1)]
    GoodRun H0 4096 {} ops ∧ (run H0 4096 {} ops).2.getLast? = some (.parts [(1, 2), (2, 0), (3, 1)]) := by decide
/-- the owner's failing completes are inside `Good`, are refused, and leave the upload in place -/
example : Good (run H0 4096 {} (demo.take 25)).1 (demo.getD 25 .listBuckets) ∧
    (run H0 4096 {} (demo.take 28)).2.drop 25 = [.err .InvalidPart, .part (some (etagOf H0 [5])), .err .EntityTooSmall] ∧
    (alLookup 1 (run H0 4096 {} (demo.take 28)).1.uploads).isSome = true := by decide

/-- every part list is inside `Good` (dbb8684, 0fcb858; before, only `1, 2, …, m` was), is answered with the store's code in
    the store's order and, when refused, leaves the upload in place: on an upload that holds the parts 9, 2, 5 — no part
    list, an empty one (also for an upload that does not exist), a part without a number: `MalformedXML`; unordered or
    repeated numbers: `InvalidPartOrder` (also when a listed part does not exist); a part that was never uploaded:
    `InvalidPart`; the gapped list 2, 5, 9, whose parts other than the last are small: `EntityTooSmall`; the single part 9
    (a list that does not start at 1) completes to that part's content -/
example :
    let pre : List Op := [.createBucket bka, .createMultipartUpload alice bka kA none,
      .uploadPart alice bka kA (some 1) 9 [9, 9], .uploadPart alice bka kA (some 1) 2 [2],
      .uploadPart alice bka kA (some 1) 5 [5]]
    let tries : List Op := [.completeMultipartUpload alice bka kA (some 1) none,
      .completeMultipartUpload alice bka kA (some 1) (some []),
      .completeMultipartUpload bob bka kA (some 7) (some []),
      .completeMultipartUpload alice bka kA (some 1) (some [some 2, none]),
      .completeMultipartUpload alice bka kA (some 1) (some [some 5, some 2]),
      .completeMultipartUpload alice bka kA (some 1) (some [some 2, some 2]),
      .completeMultipartUpload alice bka kA (some 1) (some [some 3, some 2]),
      .completeMultipartUpload alice bka kA (some 1) (some [some 2, some 3]),
      .completeMultipartUpload alice bka kA (some 1) (some [some (-1), some 2]),
      .completeMultipartUpload alice bka kA (some 1) (some [some 2, some 5, some 9]),
      .listParts alice bka kA (some 1),
      .completeMultipartUpload alice bka kA (some 1) (some [some 9]),
      .getObject bka kA none]
    GoodRun H0 4096 {} (pre ++ tries) ∧
    (run H0 4096 {} (pre ++ tries)).2.drop 5 =
      [.err .MalformedXML, .err .MalformedXML, .err .MalformedXML, .err .MalformedXML, .err .InvalidPartOrder,
       .err .InvalidPartOrder, .err .InvalidPartOrder, .err .InvalidPart, .err .InvalidPart, .err .EntityTooSmall,
       .parts [(2, 1), (5, 1), (9, 2)], .completed (some (etagOf H0 [9, 9])),
       .get [9, 9] 2 none (some (etagOf H0 [9, 9])) [] {}] := by decide

end S3V.C18
