import S3V.Gen.Bindings
/-!
# C03 — what the backend returns is what a standard S3 client decodes (property theorems; table half)

`implOutputs` / `implStatus` are read from every `serialize_http` in `ops/generated.rs`, `smithyOutputs` /
`smithyStatus` from `data/s3.json`; regenerated and re-decided on every run. The keep-alive body and the
response helpers are in `Props/C03KeepAlive.lean`.
-/
namespace S3V.C03
open S3V.Gen

/-- every output member of every operation travels in the location / under the wire name / in the timestamp
    format the Smithy model prescribes -/
theorem C03_out_bindings_match_smithy : ∀ op : Op, implOutputs op = smithyOutputs op := by
  intro op; cases op <;> decide +kernel

/-- the success status is the one the API model prescribes. One documented exception: `PutBucketPolicy`
    answers 204 where the model says 200 — real S3 answers 204 and the SDKs accept it
    (awslabs/smithy-rs discussion 2308, quoted in codegen); any other difference fails this obligation. -/
theorem C03_status_matches_smithy : ∀ op : Op,
    implStatus op = smithyStatus op ∨ (op = .PutBucketPolicy ∧ implStatus op = 204 ∧ smithyStatus op = 200) := by
  intro op; cases op <;> decide

/-- ranged reads: the only conditional status is GetObject's 206, switched by the presence of `content_range` -/
theorem C03_partial_content_rule : ∀ op : Op,
    implStatusIf op = if op = .GetObject then some ([99, 111, 110, 116, 101, 110, 116, 114, 97, 110, 103, 101], 206) else none := by
  intro op; cases op <;> decide

/-- the backend's explicit status override is applied by every operation whose status line is not already
    sent when the backend answers (all but the keep-alive completion of multipart uploads) -/
theorem C03_status_override_applied : ∀ op : Op, (callTemplate op).2 = true ∨ op = keepAliveOp := by
  intro op; cases op <;> decide

/-- keep-alive completion: exactly the header-bound output members are announced as HTTP trailers -/
theorem C03_trailers_are_the_header_members :
    let hdrs := ((implOutputs keepAliveOp).filter (fun b => b.loc == .header)).map (·.wire)
    (∀ w ∈ hdrs, w ∈ keepAliveTrailers) ∧ (∀ w ∈ keepAliveTrailers, w ∈ hdrs) := by
  decide +kernel

end S3V.C03
