import S3V.Props.C01Compose
import S3V.Thm.Prepare
/-!
# C01 through the middle of `ops::prepare` (property theorems only)

`S3V/Props/C01.lean` is about the generated router on its own view `RReq`; `C01Compose.lean` puts C12's
path classification in front of it. This file is about what `ops::prepare` does *between* the two —
the model `S3V.Prepare.prepare` (S3V/Model/Prepare.lean, mirrored statement by statement):
query-string extraction, the signature check's result, the custom route, the POST-multipart branch,
the `events` refusal, the access check and the buffered-body check.

Quantifiers: every method, every classified path, every raw query string (any bytes), every set of
discriminating headers, every result of the signature check (error, or credentials / transformed body /
multipart form in any combination — the check itself is C05/C06/C10/C11), every access hook, every
custom-route matcher, every identity type `I` and error type `E`. No bound on any length.

Outside (said in the registry text): the signature check itself, `route.is_match` / the access hook as
code (they are parameters), the POST-object policy gate's own logic (C10; here its verdict per bucket),
`http`/`hyper` handing over method, query and headers as modelled, `atoi` of the Content-Length header.
-/
namespace S3V.C01
open S3V S3V.Net S3V.Host S3V.Path S3V.PathSpec S3V.Gen S3V.Route S3V.RouteSpec S3V.RouteCompose S3V.C12
open S3V.Prepare S3V.PostPolicyModel

/-! ## 1. the router's view of the query string -/

/-- `extract_qs` + the router's atoms: two raw query strings whose `form_urlencoded` decodings are the
    same (name, value) pairs up to order — any order of the parameters, any percent-spelling, `+` or
    `%20`, empty items — are indistinguishable for the router: `qs.has(name)` and `qs.get_unique(name)`
    (the only two ways `resolve_route` and the `events` test read the query) agree for every name, so the
    router's view `queryView` is the same function and `resolve_route` selects the same operation. -/
theorem C01_qs_view_spelling_independent (q₁ q₂ : Bytes)
    (h : (SigV4.formParse q₁).Perm (SigV4.formParse q₂)) :
    (∀ name, SigV4.qsHas (SigV4.orderedQs q₁) name = SigV4.qsHas (SigV4.orderedQs q₂) name ∧
             SigV4.getUnique (SigV4.orderedQs q₁) name = SigV4.getUnique (SigV4.orderedQs q₂) name) ∧
    queryView (extractQs (some q₁)) = queryView (extractQs (some q₂)) ∧
    (∀ method path hh, resolve (routerReq method path (extractQs (some q₁)) hh) =
                       resolve (routerReq method path (extractQs (some q₂)) hh)) := by
  have hv : queryView (extractQs (some q₁)) = queryView (extractQs (some q₂)) := by
    funext k
    exact presOf_perm h (keyBytes k)
  refine ⟨fun name => lookups_perm h name, hv, fun method path hh => ?_⟩
  simp only [routerReq, hv]

/-- what the view is, from the decoded pairs alone: a name is `absent` when no decoded pair carries it,
    `once v` when exactly one does (with that pair's value), `many` otherwise — whatever the order -/
theorem C01_qs_view_of_decoded_pairs (q name : Bytes) :
    presOf (extractQs (some q)) name =
      match ((SigV4.formParse q).filter fun p => p.1 = name).map (·.2) with
      | [] => .absent
      | [v] => .once (valOf v)
      | _ => .many :=
  presOf_sorted (SigV4.formParse q) name

/-- a request without `?` is, for the router, a request with an empty query string -/
theorem C01_no_query_is_empty_query :
    queryView (extractQs none) = (fun _ => .absent) ∧ queryView (extractQs (some [])) = (fun _ => .absent) :=
  ⟨rfl, rfl⟩

/-- … and so is the whole of `prepare`: replacing the raw query string by another spelling / order of the
    same decoded pairs changes nothing in the result (the signature check's result being the same) -/
theorem C01_prepare_query_spelling_independent {I E : Type} (ctx : Ctx I E) (path : S3Path) (r : Request I E)
    (q₁ q₂ : Bytes) (h : (SigV4.formParse q₁).Perm (SigV4.formParse q₂)) :
    prepare ctx path { r with rawQuery := some q₁ } = prepare ctx path { r with rawQuery := some q₂ } := by
  obtain ⟨hl, hv, _⟩ := C01_qs_view_spelling_independent q₁ q₂ h
  have he : ∀ op, eventsHack op (extractQs (some q₁)) = eventsHack op (extractQs (some q₂)) := by
    intro op
    simp only [eventsHack, extractQs, Option.map_some]
    rw [(hl sEvents).1]
  simp only [prepare, resolveOp, viaRouter, routerReq, afterResolve, hv, he]

/-! ## 2. no form, no custom route: `prepare` resolves exactly `resolve_route` -/

/-- the router's view of a request apart from the path, as `prepare` computes it -/
def restOf {I E : Type} (r : Request I E) : RRest := ⟨r.method, queryView (extractQs r.rawQuery), r.h⟩

/-- for a request whose signature check passed (`hsig`), that is not a POST form (`hform`: no multipart
    was parsed, or the method is not POST) and that no custom route claims (`hroute`): `unknown_operation`
    exactly when the generated router knows no operation, otherwise the router's operation and flag go
    through the three gates of `afterResolve` (the `events` refusal, the access check, the buffered-body
    check), which never exchange them (`C01_prepare_operation_is_the_routers`). -/
theorem C01_prepare_resolves_route {I E : Type} (ctx : Ctx I E) (path : S3Path) (r : Request I E)
    (s : SigResult I) (hsig : r.sig = .ok s) (hform : s.multipart = none ∨ r.method ≠ .POST)
    (hroute : routeClaims ctx r s = false) :
    (prepare ctx path r).outcome =
      match resolve (view (restOf r) path) with
      | none => .error (.code .notImplemented)
      | some (op, full) =>
        afterResolve ctx s.credentials path (extractQs r.rawQuery) (prepare ctx path r).contentLength r.body
          op full := by
  rw [prepare_not_routed ctx path r hsig hroute, (prepare_fields ctx path r hsig).2]
  have hres : resolveOp r.method path (extractQs r.rawQuery) r.h s.multipart =
      viaRouter r.method path (extractQs r.rawQuery) r.h := by
    unfold resolveOp
    rcases hform with h | h
    · rw [h]
    · cases s.multipart with
      | none => rfl
      | some g => simp only [if_neg h]
  rw [hres, viaRouter, routerReq_eq_view]
  show _ = match resolve (view ⟨r.method, queryView (extractQs r.rawQuery), r.h⟩ path) with
    | none => _ | some (op, full) => _
  cases resolve (view ⟨r.method, queryView (extractQs r.rawQuery), r.h⟩ path) with
  | none => rfl
  | some p => cases p; rfl

/-- under the same hypotheses, whatever operation `prepare` hands on is the one the router selected for
    `(method, path kind, query view, headers)`, with the router's body flag: all theorems of C01 about
    `resolve` (`C01_route_sound`, `C01_route_complete`, `C01_denotes_unique`) apply to it -/
theorem C01_prepare_operation_is_the_routers {I E : Type} (ctx : Ctx I E) (path : S3Path) (r : Request I E)
    (s : SigResult I) (hsig : r.sig = .ok s) (hform : s.multipart = none ∨ r.method ≠ .POST)
    (hroute : routeClaims ctx r s = false) (op : Op) (full : Bool)
    (h : (prepare ctx path r).outcome = .s3 op full) :
    resolve (view (restOf r) path) = some (op, full) ∧ WeaklyDenotes (smithySpec op) (view (restOf r) path) := by
  rw [C01_prepare_resolves_route ctx path r s hsig hform hroute] at h
  cases hres : resolve (view (restOf r) path) with
  | none => rw [hres] at h; cases h
  | some p =>
    obtain ⟨op', full'⟩ := p
    rw [hres] at h
    obtain ⟨h1, h2⟩ := afterResolve_s3 h
    subst h1 h2
    exact ⟨rfl, C01_route_sound _ _ _ hres⟩

/-- the documented exception, exactly: the `events` refusal strikes iff the selected operation is
    `ListObjects` and some decoded query pair is named `events` (any value, any number of times) -/
theorem C01_events_refusal_iff (op : Op) (rawQuery : Option Bytes) :
    eventsHack op (extractQs rawQuery) = true ↔
      op = .ListObjects ∧ ∃ q, rawQuery = some q ∧ ∃ p ∈ SigV4.formParse q, p.1 = sEvents := by
  cases rawQuery with
  | none => simp [eventsHack, extractQs]
  | some q =>
    simp only [eventsHack, extractQs, Option.map_some, SigV4.orderedQs, qsHas_sorted, Bool.and_eq_true,
      decide_eq_true_eq, List.any_eq_true, Option.some.injEq, exists_eq_left']

/-- a request the router resolves to `ListObjects` that carries `events` is refused with `NotImplemented`
    before the access check; every other resolved request is handed on iff the access check and (for an
    operation with a buffered body) the body check pass -/
theorem C01_prepare_after_route {I E : Type} (ctx : Ctx I E) (path : S3Path) (r : Request I E)
    (s : SigResult I) (hsig : r.sig = .ok s) (hform : s.multipart = none ∨ r.method ≠ .POST)
    (hroute : routeClaims ctx r s = false) (op : Op) (full : Bool)
    (hres : resolve (view (restOf r) path) = some (op, full)) :
    (eventsHack op (extractQs r.rawQuery) = true →
        (prepare ctx path r).outcome = .error (.code .notImplemented)) ∧
    ((prepare ctx path r).outcome = .s3 op full ↔
        eventsHack op (extractQs r.rawQuery) = false ∧ accessCheck ctx s.credentials path op = .ok () ∧
        (full = true → extractFullBody (prepare ctx path r).contentLength r.body = .ok ())) := by
  rw [C01_prepare_resolves_route ctx path r s hsig hform hroute, hres]
  refine ⟨fun he => ?_, afterResolve_eq_s3_iff⟩
  simp only [afterResolve, he, if_true]

/-- `C01_intended_operation_reached_in_both_styles` through `prepare`: the request for a valid bucket `b`
    and a UTF-8 key `k` of at most 1024 bytes (`k = ""`: the bucket itself), sent path-style as any
    percent-spelling `e₁` of `/b/k` or virtual-hosted-style as any percent-spelling `e₂` of `/k` under host
    `b.t`, with any raw query string, whose signature check passed, that is not a POST form and that no
    custom route claims: both forms leave `prepare` with the same result record; if the intended request
    denotes `op` per the Smithy model, that result is `op` with the flag its decoder needs once the
    `events` refusal, the access check and the body check let it through — and never another operation;
    if it denotes no operation, it is `unknown_operation` (NotImplemented) in both forms. -/
theorem C01_intended_operation_reached_through_prepare {I E : Type} (cfg cfg' : HostCfg)
    (host' : Option Bytes) (d t b k e₁ e₂ : Bytes)
    (hc : ConfiguredDomain cfg d) (ht : toAsciiLower t = toAsciiLower d)
    (hs : headerToStrOk (b ++ dot :: t) = true)
    (hip : isSocketAddrOrIpAddr (b ++ dot :: t) = false) (hps : PathStyleChosen cfg' host')
    (hb : checkBucketName b = true) (hk : k.length ≤ 1024) (hu : utf8Valid k = true)
    (hsp₁ : Spelling e₁ (slash :: (b ++ slash :: k))) (hsp₂ : Spelling e₂ (slash :: k))
    (ctx : Ctx I E) (r : Request I E) (s : SigResult I) (hsig : r.sig = .ok s)
    (hform : s.multipart = none ∨ r.method ≠ .POST) (hroute : routeClaims ctx r s = false) :
    prepareAt cfg' host' e₁ ctx r = .ok (prepare ctx (target b k) r) ∧
    prepareAt cfg (some (b ++ dot :: t)) e₂ ctx r = .ok (prepare ctx (target b k) r) ∧
    (∀ op, Denotes (smithySpec op) (intended (restOf r) k) →
      (prepare ctx (target b k) r).outcome =
        afterResolve ctx s.credentials (target b k) (extractQs r.rawQuery)
          (prepare ctx (target b k) r).contentLength r.body op (usesBufferedBody op) ∧
      (∀ op' full', (prepare ctx (target b k) r).outcome = .s3 op' full' →
        op' = op ∧ full' = usesBufferedBody op) ∧
      (eventsHack op (extractQs r.rawQuery) = false →
        accessCheck ctx s.credentials (target b k) op = .ok () →
        (usesBufferedBody op = true →
          extractFullBody (prepare ctx (target b k) r).contentLength r.body = .ok ()) →
        (prepare ctx (target b k) r).outcome = .s3 op (usesBufferedBody op))) ∧
    ((∀ op, ¬ WeaklyDenotes (smithySpec op) (intended (restOf r) k)) →
      (prepare ctx (target b k) r).outcome = .error (.code .notImplemented)) := by
  have h1 : prepareAt cfg' host' e₁ ctx r = .ok (prepare ctx (target b k) r) := by
    simp only [prepareAt, classify_path_target hps hb hk hu hsp₁, Except.map]
  have h2 : prepareAt cfg (some (b ++ dot :: t)) e₂ ctx r = .ok (prepare ctx (target b k) r) := by
    simp only [prepareAt, classify_vhost_target hc ht hs hip hb hk hu hsp₂, Except.map]
  have hout := C01_prepare_resolves_route ctx (target b k) r s hsig hform hroute
  rw [view_target] at hout
  refine ⟨h1, h2, fun op hd => ?_, fun hn => ?_⟩
  · rw [C01_route_complete op _ hd] at hout
    refine ⟨hout, fun op' full' h' => ?_, fun he ha hb' => ?_⟩
    · rw [hout] at h'; exact afterResolve_s3 h'
    · rw [hout]; exact afterResolve_eq_s3_iff.mpr ⟨he, ha, hb'⟩
  · rw [C01_route_none _ hn] at hout; exact hout

/-! ## 3. the POST form -/

/-- a POST form (the signature check parsed a multipart body and the method is POST) addressed to a
    bucket, not claimed by a custom route: the policy gate decides. It reaches `PutObject` — with
    `needs_full_body = false`, through the access check — iff the gate passes; a refusing gate answers its
    own error code; no other operation is ever selected, whatever the query string and the headers say. -/
theorem C01_post_form_bucket {I E : Type} (ctx : Ctx I E) (b : Bytes) (r : Request I E) (s : SigResult I)
    (gate : Bytes → Gate) (hsig : r.sig = .ok s) (hmp : s.multipart = some gate) (hm : r.method = .POST)
    (hroute : routeClaims ctx r s = false) :
    ((prepare ctx (.bucket b) r).outcome = .s3 .PutObject false ↔
        gate b = .pass ∧ accessCheck ctx s.credentials (.bucket b) .PutObject = .ok ()) ∧
    (∀ op full, (prepare ctx (.bucket b) r).outcome = .s3 op full →
        op = .PutObject ∧ full = false ∧ gate b = .pass) ∧
    (gate b ≠ .pass → ∃ c, gateResult (gate b) = .error c ∧
        (prepare ctx (.bucket b) r).outcome = .error (.code c)) := by
  have hout := prepare_not_routed ctx (.bucket b) r hsig hroute
  have hres : resolveOp r.method (.bucket b) (extractQs r.rawQuery) r.h s.multipart = gateResult (gate b) := by
    simp only [resolveOp, hmp, hm, if_true]
  rw [hres] at hout
  have hev : eventsHack .PutObject (extractQs r.rawQuery) = false := by simp [eventsHack]
  cases hg : gate b with
  | pass =>
    rw [hg] at hout
    simp only [gateResult] at hout
    refine ⟨?_, fun op full h => ?_, fun hne => absurd rfl hne⟩
    · rw [hout, afterResolve_eq_s3_iff]
      simp [hev]
    · rw [hout] at h
      obtain ⟨h1, h2⟩ := afterResolve_s3 h
      exact ⟨h1, h2, rfl⟩
  | invalidPolicyDocument | accessDenied | entityTooSmall | entityTooLarge =>
    rw [hg] at hout
    simp only [gateResult] at hout
    refine ⟨?_, fun op full h => ?_, fun _ => ⟨_, rfl, hout⟩⟩
    · rw [hout]; simp
    · rw [hout] at h; cases h

/-- a POST form addressed to an object is refused with `MethodNotAllowed`, one addressed to the root with
    `unknown_operation` (NotImplemented), whatever else the request carries (the `FIXME` of the code:
    `POST /bucket/key` forms are not served) -/
theorem C01_post_form_object_and_root {I E : Type} (ctx : Ctx I E) (r : Request I E) (s : SigResult I)
    (gate : Bytes → Gate) (hsig : r.sig = .ok s) (hmp : s.multipart = some gate) (hm : r.method = .POST)
    (hroute : routeClaims ctx r s = false) :
    (∀ b k, (prepare ctx (.object b k) r).outcome = .error (.code .methodNotAllowed)) ∧
    (prepare ctx .root r).outcome = .error (.code .notImplemented) := by
  refine ⟨fun b k => ?_, ?_⟩
  · rw [prepare_not_routed ctx _ r hsig hroute]
    simp only [resolveOp, hmp, hm, if_true]
  · rw [prepare_not_routed ctx _ r hsig hroute]
    simp only [resolveOp, hmp, hm, if_true]

/-- a parsed multipart form under any method other than POST does not enter the form branch: the request
    goes through the generated router like any other (instance of `C01_prepare_resolves_route`; in the code
    the signature check parses a form only for POST, so this case does not arise) -/
theorem C01_form_with_other_method_is_routed {I E : Type} (ctx : Ctx I E) (path : S3Path) (r : Request I E)
    (s : SigResult I) (hsig : r.sig = .ok s) (hm : r.method ≠ .POST) (hroute : routeClaims ctx r s = false) :
    (prepare ctx path r).outcome =
      match resolve (view (restOf r) path) with
      | none => .error (.code .notImplemented)
      | some (op, full) =>
        afterResolve ctx s.credentials path (extractQs r.rawQuery) (prepare ctx path r).contentLength r.body
          op full :=
  C01_prepare_resolves_route ctx path r s hsig (Or.inr hm) hroute

/-! ## 4. the custom route -/

/-- `prepare` answers `Prepare::CustomRoute` exactly when the signature check passed and the configured
    route's `is_match` claims the request: the route is consulted after the signature check (a request
    whose check fails gets that error, route or not) and before any routing — a claimed request pre-empts
    every S3 operation, whatever method, path, query, form or access hook. -/
theorem C01_custom_route_preempts {I E : Type} (ctx : Ctx I E) (path : S3Path) (r : Request I E) :
    ((prepare ctx path r).outcome = .customRoute ↔ ∃ s, r.sig = .ok s ∧ routeClaims ctx r s = true) ∧
    (∀ e, r.sig = .error e → (prepare ctx path r).outcome = .error (.sig e)) ∧
    (∀ s, r.sig = .ok s → routeClaims ctx r s = true →
      ∀ op full, (prepare ctx path r).outcome ≠ .s3 op full) := by
  refine ⟨⟨fun h => ?_, fun ⟨s, hs, hr⟩ => prepare_routed ctx path r hs hr⟩, fun e he => ?_, fun s hs hr op full h => ?_⟩
  · cases hsig : r.sig with
    | error e => rw [prepare_sig_error ctx path r hsig] at h; cases h
    | ok s =>
      refine ⟨s, rfl, ?_⟩
      cases hr : routeClaims ctx r s with
      | true => rfl
      | false =>
        rw [prepare_not_routed ctx path r hsig hr] at h
        cases hres : resolveOp r.method path (extractQs r.rawQuery) r.h s.multipart with
        | error c => rw [hres] at h; cases h
        | ok p =>
          obtain ⟨op, full⟩ := p
          rw [hres] at h
          simp only [afterResolve] at h
          repeat' split at h
          all_goals cases h
  · rw [prepare_sig_error ctx path r he]
  · rw [prepare_routed ctx path r hs hr] at h; cases h

/-- without a configured route, or with one whose `is_match` declines, `prepare` never answers
    `CustomRoute` -/
theorem C01_no_custom_route {I E : Type} (ctx : Ctx I E) (path : S3Path) (r : Request I E)
    (h : ctx.route = none ∨ ∃ m, ctx.route = some m ∧ ∀ v, m v = false) :
    (prepare ctx path r).outcome ≠ .customRoute := by
  intro hc
  obtain ⟨s, _, hr⟩ := (C01_custom_route_preempts ctx path r).1.mp hc
  unfold routeClaims at hr
  rcases h with h | ⟨m, h, hm⟩
  · rw [h] at hr; cases hr
  · rw [h] at hr; simp only [hm] at hr; cases hr

/-! ## non-vacuity -/

/-- `prefix=a%2Fb&list-type=2` and `list-type=2&&prefix=a/b`: two spellings and orders of the same pairs -/
def exQuery₁ : Bytes := b!"prefix=a%2Fb&list-type=2"
def exQuery₂ : Bytes := b!"list-type=2&&prefix=a/b"

theorem exQuery_perm : (SigV4.formParse exQuery₁).Perm (SigV4.formParse exQuery₂) := by
  have h1 : SigV4.formParse exQuery₁ = [(b!"prefix", b!"a/b"), (b!"list-type", b!"2")] := by decide
  have h2 : SigV4.formParse exQuery₂ = [(b!"list-type", b!"2"), (b!"prefix", b!"a/b")] := by decide
  rw [h1, h2]
  exact List.Perm.swap _ _ _

example : queryView (extractQs (some exQuery₁)) = queryView (extractQs (some exQuery₂)) :=
  (C01_qs_view_spelling_independent _ _ exQuery_perm).2.1

/-- an anonymous plain `GET` without query, no provider, no hook, no route -/
def exCtx : Ctx Nat Unit := ⟨false, none, none⟩
def exGet : Request Nat Unit :=
  { method := .GET, rawQuery := none, h := fun _ => false, clHeader := none, contentLength := none,
    decodedContentLength := none, sig := .ok ⟨none, false, none⟩, body := .buffered }

example : restOf exGet = exPlainGet := rfl

/-- escape the letter `a` and every byte other than lower-case letters, digits, `.`, `-`, `/` -/
def exMask : UInt8 → Bool := fun c => c = 97 || !(isLowerAlnum c || c = 46 || c = 45 || c = 47)

/-- `GetObject` of key `a/ %é`, both styles, through `prepare` -/
example :
    prepareAt (.single exDomain) (some exIpHost)
        (pctEncode exMask (slash :: (exBucket ++ slash :: exKey))) exCtx exGet =
      .ok (prepare exCtx (target exBucket exKey) exGet) ∧
    prepareAt (.single exDomain) (some (exBucket ++ dot :: exDomainMixed)) (slash :: exRest) exCtx exGet =
      .ok (prepare exCtx (target exBucket exKey) exGet) ∧
    (prepare exCtx (target exBucket exKey) exGet).outcome = .s3 .GetObject false := by
  have h := C01_intended_operation_reached_through_prepare (.single exDomain) (.single exDomain)
    (some exIpHost) exDomain exDomainMixed exBucket exKey
    (pctEncode exMask (slash :: (exBucket ++ slash :: exKey))) (slash :: exRest) (Or.inl rfl) (by decide)
    (by decide) (by decide) (Or.inr ⟨_, rfl, by decide, Or.inr (by decide)⟩) (by decide) (by decide)
    (by decide) (C12_pctEncode_is_spelling exMask _) exSpelling_rest exCtx exGet ⟨none, false, none⟩ rfl
    (Or.inl rfl) rfl
  exact ⟨h.1, h.2.1, (h.2.2.1 .GetObject exPlainGet_denotes).2.2 rfl rfl (fun h => by cases h)⟩

/-- a POST form whose gate passes for the bucket `my.bucket-1` only, presented by signer `7`, behind a
    provider without hook -/
def exFormCtx : Ctx Nat Unit := ⟨true, none, none⟩
def exForm : Request Nat Unit :=
  { method := .POST, rawQuery := some b!"uploads", h := fun _ => false, clHeader := some b!"1234",
    contentLength := some 1234, decodedContentLength := none,
    sig := .ok ⟨some 7, false, some fun b => if b = exBucket then .pass else .accessDenied⟩,
    body := .buffered }

example : (prepare exFormCtx (.bucket exBucket) exForm).outcome = .s3 .PutObject false :=
  (C01_post_form_bucket exFormCtx exBucket exForm _ _ rfl rfl rfl rfl).1.mpr ⟨by decide, rfl⟩

example : (prepare exFormCtx (.bucket b!"other-bucket") exForm).outcome = .error (.code .accessDenied) := by
  obtain ⟨c, hc, h⟩ := (C01_post_form_bucket exFormCtx b!"other-bucket" exForm _ _ rfl rfl rfl rfl).2.2
    (by decide)
  have : c = .accessDenied := by
    have h' : gateResult .accessDenied = .error c := hc
    injection h' with h'; exact h'.symm
  rw [this] at h; exact h

/-- a route that claims every request -/
def exRouteCtx : Ctx Nat Unit := ⟨true, none, some fun _ => true⟩

example : (prepare exRouteCtx (.bucket exBucket) exForm).outcome = .customRoute :=
  (C01_custom_route_preempts exRouteCtx _ exForm).1.mpr ⟨_, rfl, rfl⟩

end S3V.C01

#print axioms S3V.C01.C01_qs_view_spelling_independent
#print axioms S3V.C01.C01_qs_view_of_decoded_pairs
#print axioms S3V.C01.C01_no_query_is_empty_query
#print axioms S3V.C01.C01_prepare_query_spelling_independent
#print axioms S3V.C01.C01_prepare_resolves_route
#print axioms S3V.C01.C01_prepare_operation_is_the_routers
#print axioms S3V.C01.C01_events_refusal_iff
#print axioms S3V.C01.C01_prepare_after_route
#print axioms S3V.C01.C01_intended_operation_reached_through_prepare
#print axioms S3V.C01.C01_post_form_bucket
#print axioms S3V.C01.C01_post_form_object_and_root
#print axioms S3V.C01.C01_form_with_other_method_is_routed
#print axioms S3V.C01.C01_custom_route_preempts
#print axioms S3V.C01.C01_no_custom_route
#print axioms S3V.C01.exQuery_perm
