import S3V.Gen.Consts
import S3V.Props.C06
/-!
# C06 — constants of the hand-written code, re-read from the source on every run (tie A, translate/consts.py)
-/
namespace S3V.C06
open S3V

/-- the clock-skew tolerance in `v4_check_presigned_url` (`max_skew_time`) is the 15 minutes the property states; the
    model (`v4CheckPresignedUrl`) and `C06_window_exact` are written with 900 s -/
theorem C06_skew_constant_from_source : Gen.Consts.maxSkewSeconds = 15 * 60 := by decide

end S3V.C06
