import S3V.Gen.Consts
import S3V.Props.C11
/-!
# C11 — constants of the hand-written code, re-read from the source on every run (tie A, translate/consts.py)
-/
namespace S3V.C11
open S3V

/-- the sub-resource list of `sig_v2::create_string_to_sign` (`INCLUDED_QUERY`, in source order) is the list the model
    uses — which `C11_whitelist_eq_doc` proves equal to the list of the AWS document -/
theorem C11_whitelist_from_source : Gen.Consts.v2IncludedQuery = SigV2.includedQuery := by decide

end S3V.C11
