import S3V.Thm.Policy
import S3V.Thm.PolicyGrammar
import S3V.Thm.PolicyStable
import S3V.Thm.PolicyExamples
/-!
# C20 — policy documents through JSON (property theorems only)

"Every policy document value survives JSON encoding and decoding unchanged, single values and
one-element forms are kept distinct as written, and JSON that is outside the IAM policy grammar
(unknown effect or version, wrong shapes) is refused."

Quantifier: every `Policy` value / every JSON value (`Json`: objects are ordered member lists in which
names may repeat, strings arbitrary byte strings, numbers arbitrary tokens); no bound on the number of
statements, members, list lengths or nesting.

Model: `S3V.Policy.toJson` / `fromJson` (`S3V/Model/Policy.lean`), the serde impls of
`s3s-policy/src/model.rs` at JSON-value level. Specification: `S3V.PolicySpec` (`S3V/Spec/Policy.lean`),
the IAM grammar (`inGrammar`: as published; `inStringGrammar`: condition values strings only) and
`canon` ("as written").
-/
namespace S3V.C20
open S3V S3V.Policy S3V.PolicySpec

/-- full statement of the round trip: every value whose maps satisfy the `IndexMap` invariant (that is,
    every Rust value) survives. FALSE of the model and of the code: see
    `S3V.C20.C20_policy_roundtrip_full_false` in `S3V/Findings/C20Policy.lean`. -/
def C20_policy_roundtrip_full : Prop := ∀ p : Policy, p.mapsWf → fromJson (toJson p) = .ok p

/-- "every policy document value survives JSON encoding and decoding unchanged" — for every value in
    which no `Action`/`NotAction`/`Resource`/`NotResource` is `One("*")` (that value is written `"*"`,
    which is read as `Wildcard`: the excluded region is the decidable `Policy.hasOneStar`) -/
theorem C20_policy_roundtrip_partial (p : Policy) (hw : p.mapsWf) (hs : p.hasOneStar = false) :
    fromJson (toJson p) = .ok p := by
  simp [fromJson, fromJson?_toJson p hw hs]

/-- whatever is decoded (from *any* accepted document, in the grammar or not) is a value of the
    round-trip domain: encoding it and decoding again gives the same value -/
theorem C20_policy_decode_stable (j : Json) (p : Policy) (h : fromJson j = .ok p) :
    fromJson (toJson p) = .ok p := by
  have h' : fromJson? j = some p := (fromJson_ok_iff j p).mp h
  obtain ⟨hw, hs⟩ := fromJson?_wf j p h'
  exact C20_policy_roundtrip_partial p hw hs

/-- different values are written differently (in particular `One(x)` and `More([x])`, at every place
    the datatype has the choice) -/
theorem C20_policy_encoding_injective (p q : Policy) (hp : p.mapsWf) (hq : q.mapsWf)
    (hps : p.hasOneStar = false) (hqs : q.hasOneStar = false) (h : toJson p = toJson q) : p = q := by
  have h1 := C20_policy_roundtrip_partial p hp hps
  have h2 := C20_policy_roundtrip_partial q hq hqs
  rw [h] at h1
  rw [h1] at h2
  cases h2; rfl

/-- "kept … as written": every document of the grammar (string condition values) is accepted, and the
    value read is written back as `canon` of the document — its blocks in the grammar's order, absent
    optional scalars as `null`, foreign members dropped, everything below a block unchanged (a single
    string stays a string, a one-element list stays a list); the hypothesis `mapNamesUnique` excludes
    only documents that repeat a name inside a principal or condition map -/
theorem C20_policy_json_stable (j : Json) (hg : inStringGrammar j = true) :
    ∃ p, fromJson j = .ok p ∧ (mapNamesUnique j = true → toJson p = canon j) := by
  have hv : violation false j = none := by simpa [inStringGrammar] using hg
  obtain ⟨p, hp, hc⟩ := fromJson?_of_grammar j hv
  exact ⟨p, (fromJson_ok_iff j p).mpr hp, hc⟩

/-- "single values and one-element forms are kept distinct": a bare string and the one-element list of
    it are read as different values and written as different JSON, for action/resource patterns, for
    principal identifiers / condition values, and for the statement itself -/
theorem C20_policy_one_vs_many_distinct (s : Bytes) (ms : List (Bytes × Json)) (st : Statement) :
    (oomOfJson (.str s) = some (.one s) ∧ oomOfJson (.arr [.str s]) = some (.more [s])) ∧
    (woomOfJson (.str s) = some (if s = nStar then .wildcard else .one s) ∧
      woomOfJson (.arr [.str s]) = some (.more [s])) ∧
    (oomJson (.one s) = .str s ∧ oomJson (.more [s]) = .arr [.str s]) ∧
    (woomJson (.one s) = .str s ∧ woomJson (.more [s]) = .arr [.str s]) ∧
    (statementsOfJson (.obj ms) = (statementOfMembers ms).map .one ∧
      statementsOfJson (.arr [.obj ms]) = (statementOfMembers ms).map fun x => .more [x]) ∧
    (statementsJson (.one st) = statementJson st ∧ statementsJson (.more [st]) = .arr [statementJson st]) ∧
    Json.str s ≠ Json.arr [.str s] ∧ statementJson st ≠ Json.arr [statementJson st] := by
  refine ⟨⟨rfl, rfl⟩, ⟨?_, rfl⟩, ⟨rfl, rfl⟩, ⟨rfl, rfl⟩, ⟨rfl, ?_⟩, ⟨rfl, rfl⟩, by simp, by simp [statementJson]⟩
  · by_cases h : s = nStar <;> simp [woomOfJson, h]
  · simp only [statementsOfJson, List.mapM_cons, List.mapM_nil, statementOfJson]
    cases statementOfMembers ms <;> rfl

/-- value side of the same clause, as the correspondence run judges the real encoder's output: at
    every place the datatype has the choice, `One` is written as a bare value and `More` as a list of
    the same length (`valueShape`, specification side) -/
theorem C20_policy_encoder_one_vs_many (p : Policy) : valueShape p (toJson p) = true :=
  valueShape_toJson p

/-- "JSON that is outside the IAM policy grammar is refused" — for every JSON value, no region excluded.
    In particular a document that is not an object (an array of the three fields included), a
    `Version`/`Effect` written `{"<name>": null}`, a statement with two principal, two action or two
    resource blocks and a statement whose principal block has a malformed value are refused (these were
    four excluded regions of a `…_partial` theorem until the readers of `Statement`, of `Policy` and of
    `Version`/`Effect` were repaired). -/
theorem C20_policy_outside_grammar_refused (j : Json) (hg : inGrammar j = false) :
    fromJson j = .error .refused := by
  cases h : fromJson? j with
  | none => simp [fromJson, h]
  | some p =>
    have := violation_mono j (grammar_of_fromJson? j p h)
    simp [inGrammar, this] at hg

/-- the same as one proposition (it was stated as a `def` while it was false of the code) -/
def C20_policy_outside_grammar_refused_full : Prop :=
  ∀ j : Json, inGrammar j = false → fromJson j = .error .refused

/-- the documents accepted are exactly those of the grammar with string condition values -/
theorem C20_policy_accept_iff (j : Json) : (∃ p, fromJson j = .ok p) ↔ inStringGrammar j = true := by
  constructor
  · rintro ⟨p, hp⟩
    simp [inStringGrammar, grammar_of_fromJson? j p ((fromJson_ok_iff j p).mp hp)]
  · intro hg
    obtain ⟨p, hp, _⟩ := C20_policy_json_stable j hg
    exact ⟨p, hp⟩

/-- "wrong shapes": a document that is not a JSON object — an array (of any length: the three-element
    array `[version, id, statement]` was accepted until the reader of `Policy` was repaired), a string,
    a number, a Boolean, null — is refused, whatever it contains -/
theorem C20_policy_non_object_refused (j : Json) (h : ∀ ms, j ≠ .obj ms) : fromJson j = .error .refused := by
  cases j with
  | obj ms => exact absurd rfl (h ms)
  | _ => rfl

/-- the grammar used in the two theorems above lies inside the published one (which also allows
    numbers and Booleans as condition values) -/
theorem C20_policy_string_grammar_in_grammar (j : Json) (h : inStringGrammar j = true) : inGrammar j = true := by
  have hv : violation false j = none := by simpa [inStringGrammar] using h
  simp [inGrammar, violation_mono j hv]

/-- the stated shapes are refused with no assumption about the rest of the document: a document is
    refused as soon as (`headMust`) it is not an object, a `Version` is neither null nor a known version, an `Id` is neither
    null nor a string, or `Statement` is missing; or (`stmtMust`) something standing where a statement
    belongs is not an object, has a `Sid` that is neither string nor null, has no `Effect` or an
    `Effect` other than the strings `Allow`/`Deny`, has no action (resource) block, more than one (under either
    name), or one that is not a string or a list of strings (a number, an object, null, a list
    containing a non-string), has more than one principal block or one whose value is neither `"*"` nor
    a map of strings / string lists, or has a `Condition` that is not a map of maps of strings / string
    lists -/
theorem C20_policy_stated_shapes_refused (j : Json)
    (h : headMust j = false ∨ ∃ x ∈ statementNodes j, stmtMust x = false) :
    fromJson j = .error .refused := by
  cases hj : fromJson? j with
  | none => simp [fromJson, hj]
  | some p =>
    obtain ⟨h1, h2⟩ := fromJson?_must j p hj
    rcases h with h | ⟨x, hx, hm⟩
    · rw [h1] at h; cases h
    · rw [h2 x hx] at hm; cases hm

/-- "wrong shapes": a `Version` or an `Effect` written as the one-member object `{"<name>": null}` (the
    form serde_json's `deserialize_enum` takes for a unit-variant enum, accepted until the readers of
    `Version` and `Effect` were repaired) makes the document refused, whatever name the object carries
    and whatever else the document contains -/
theorem C20_policy_enum_object_form_refused (j : Json)
    (h : (∃ ms, j = .obj ms ∧ ∃ v ∈ valuesOf kVersion ms, enumObjectForm v = true) ∨
         ∃ x ∈ statementNodes j, ∃ ms, x = .obj ms ∧ ∃ v ∈ valuesOf kEffect ms, enumObjectForm v = true) :
    fromJson j = .error .refused := by
  apply C20_policy_stated_shapes_refused
  rcases h with ⟨ms, rfl, v, hv, he⟩ | ⟨x, hx, ms, rfl, v, hv, he⟩
  · left
    cases hh : headMust (.obj ms) with
    | false => rfl
    | true =>
      simp only [headMust, Bool.and_eq_true, List.all_eq_true] at hh
      have := hh.1.1.2 v hv
      rw [enumObjectForm_version v he] at this
      cases this
  · right
    refine ⟨_, hx, ?_⟩
    cases hh : stmtMust (.obj ms) with
    | false => rfl
    | true =>
      simp only [stmtMust, Bool.and_eq_true, List.all_eq_true] at hh
      have := hh.1.1.1.1.1.1.1.2 v hv
      rw [enumObjectForm_effect v he] at this
      cases this

/-! ## non-vacuity -/

/-- a value with a principal map, one/many forms and a condition meets the round-trip hypotheses … -/
example : Ex.policyA.mapsWf ∧ Ex.policyA.hasOneStar = false := by
  refine ⟨?_, by decide⟩
  intro s hs
  simp only [Ex.policyA, OneOrMore.toList, List.mem_cons, List.not_mem_nil, or_false] at hs
  rcases hs with rfl | rfl
  · refine ⟨fun r hr => ?_, fun c hc => ?_⟩
    · cases hr; simp [PrincipalRule.wf, Principal.wf, keysUnique]
    · cases hc; simp [conditionWf, keysUnique]
  · refine ⟨fun r hr => ?_, fun c hc => ?_⟩
    · cases hr; trivial
    · cases hc
/-- … and `example2_json` of the crate's tests is in the grammar, is read as the expected value and
    written back as its `canon` -/
example : inStringGrammar Ex.doc2 = true ∧ mapNamesUnique Ex.doc2 = true ∧
    fromJson? Ex.doc2 = some (Ex.policy2 (some .v2012_10_17)) := by decide
/-- one-element list, other member order, foreign member: accepted, list kept a list -/
example : inStringGrammar Ex.doc2List = true ∧
    (fromJson? Ex.doc2List).map (·.statement) =
      some (.more [{ sid := none, principal := none, effect := .allow, action := .action (.more [Ex.sListBucket]),
                     resource := .resource (.one Ex.sArn), condition := none }]) := by decide
/-- the refusal theorem applies to (and the model refuses) each stated shape -/
example : ∀ j ∈ [Ex.docUnknownEffect, Ex.docUnknownVersion, Ex.docNumberAction, Ex.docObjectEffect, Ex.docNoAction,
      Ex.docTwoSids, Ex.docBothActions, Ex.docNotActionThenAction, Ex.docResourceTwice, Ex.docBothPrincipals,
      Ex.docNumberPrincipal, Ex.docStringPrincipal, Ex.docNullPrincipal, Ex.docArrayForm, Ex.docArrayFormList,
      Ex.docArrayFormShort, Ex.docArrayFormLong, Ex.docEffectObjectForm, Ex.docVersionObjectForm,
      Ex.docEffectObjectFormInList, Ex.docBothObjectForms],
    inGrammar j = false ∧ fromJson? j = none := by decide
example : ∀ j ∈ [Ex.docUnknownEffect, Ex.docNumberAction, Ex.docObjectEffect, Ex.docNoAction, Ex.docTwoSids,
      Ex.docBothActions, Ex.docNotActionThenAction, Ex.docResourceTwice, Ex.docBothPrincipals,
      Ex.docNumberPrincipal, Ex.docStringPrincipal, Ex.docNullPrincipal],
    ∃ x ∈ statementNodes j, stmtMust x = false := by decide
example : headMust Ex.docUnknownVersion = false ∧ headMust Ex.docArrayForm = false := by decide
example : ∀ ms, Ex.docArrayForm ≠ .obj ms := fun _ h => nomatch h
/-- the hypothesis of `C20_policy_enum_object_form_refused`, both disjuncts -/
example : (∃ v ∈ valuesOf kVersion [(kVersion, .obj [(n2012, .null)]), (kStatement, Ex.stmtWith (.str nAllow) [])],
      enumObjectForm v = true) ∧
    (∃ x ∈ statementNodes Ex.docEffectObjectFormInList, ∃ ms, x = .obj ms ∧
      ∃ v ∈ valuesOf kEffect ms, enumObjectForm v = true) := by
  refine ⟨⟨.obj [(n2012, .null)], ?_, rfl⟩, ⟨Ex.stmtWith (.obj [(nDeny, .null)]) [], ?_, _, rfl,
    .obj [(nDeny, .null)], ?_, rfl⟩⟩
  · simp (config := { decide := true }) [valuesOf]
  · simp (config := { decide := true }) [statementNodes, Ex.docEffectObjectFormInList, valuesOf, stmtItems]
  · simp (config := { decide := true }) [valuesOf]

end S3V.C20
