import S3V.Thm.SigV4Presigned
import S3V.Thm.SigV4Calendar
/-!
# C06 — SigV4 presigned URLs: correctly signed and inside their window (property theorems only)

`now` (nanoseconds since the epoch), the hash and the MAC are parameters: every statement holds for all times and
arbitrary functions. No bound on the number or size of parameters and headers.
-/
namespace S3V.C06
open S3V S3V.SigV4

/-- the verdict logic, exactly (no well-formedness hypothesis): `v4_check_presigned_url` accepts, and attributes the
    request to the access key / region / service of `X-Amz-Credential`, iff the six parameters parse, the algorithm
    is AWS4-HMAC-SHA256, the credential scope names the day of `X-Amz-Date`, every listed header is in the request,
    `x-amz-content-sha256` (if present; edge SP / HTAB removed, d453cd3) is admissible, the date is a calendar instant, the key
    is known, `now` lies in `[date − 900 s, date + expires]`, and the recomputed signature is the presented one -/
theorem C06_accept_conditions (sha256hex : Bytes → Bytes) (hmac : Bytes → Bytes → Bytes)
    (look : Bytes → Option Bytes) (nowNs : Int) (c : Ctx) (ak region service : Bytes) :
    v4CheckPresignedUrl sha256hex hmac (some look) nowNs c = .accept ak region service ↔
      ∃ p secret date, PresignedChecks look c p secret date ∧
        p.credential.accessKey = ak ∧ p.credential.region = region ∧ p.credential.service = service ∧
        SigV4Spec.inWindow nowNs date p.expires ∧
        presignedSignature sha256hex hmac c p secret = p.signature :=
  presigned_accept_iff sha256hex hmac look nowNs c ak region service

/-- the two comparisons of the code (`duration < 0 ∧ |duration| > 15 min` refused, `duration > expires` refused) are
    exactly the window of the property, edges included, at nanosecond resolution -/
theorem C06_window_exact (nowNs date : Int) (expires : Nat) :
    (¬ ((nowNs - date * 1000000000 < 0 && -(nowNs - date * 1000000000) > 900 * 1000000000) = true) ∧
     ¬ (nowNs - date * 1000000000 > (expires : Int) * 1000000000)) ↔ SigV4Spec.inWindow nowNs date expires :=
  window_iff nowNs date expires

/-- FULL statement: accepted iff the signature is the specified one over method, path, all other query parameters
    and the signed headers, under the credential's scope, and `now` is inside the window. False (`Findings.C05`) only
    through the open class `sigv4-dup-query-unsorted` (the one remaining deviation), and for `X-Amz-SignedHeaders`
    lists outside the specification's domain (unsorted, repeating a name, or listing `authorization`). -/
def C06_presigned_iff_full : Prop :=
  ∀ (sha256hex : Bytes → Bytes) (hmac : Bytes → Bytes → Bytes) (look : Bytes → Option Bytes) (nowNs : Int) (c : Ctx)
    (raw : List (Bytes × Bytes)) (ak region service : Bytes), orderedHeaders raw = some c.hs →
    (v4CheckPresignedUrl sha256hex hmac (some look) nowNs c = .accept ak region service ↔
      ∃ p secret date, PresignedChecks look c p secret date ∧
        p.credential.accessKey = ak ∧ p.credential.region = region ∧ p.credential.service = service ∧
        SigV4Spec.inWindow nowNs date p.expires ∧
        p.signature = SigV4Spec.signature sha256hex hmac secret p.amzDate.fmtIso8601
          ⟨p.credential.date, region, service⟩
          (SigV4Spec.presignedRequest c.method c.path c.qs (effectiveRaw c.http2 c.authority raw) p.signedHeaders))

/-- for every context satisfying `wfPresignedCtx` (the names of `X-Amz-SignedHeaders` sorted, distinct, not
    `authorization`; duplicate parameter names with ascending values), all times `now`, arbitrary hash and MAC.
    `PresignedChecks` contains the code's own checks that the credential scope names the day of `X-Amz-Date` (4011296)
    and that every listed header is in the request (d4ba65c). -/
theorem C06_presigned_iff_partial (sha256hex : Bytes → Bytes) (hmac : Bytes → Bytes → Bytes)
    (look : Bytes → Option Bytes) (nowNs : Int) (c : Ctx) (raw : List (Bytes × Bytes)) (ak region service : Bytes)
    (hraw : orderedHeaders raw = some c.hs) (hwf : wfPresignedCtx c = true) :
    v4CheckPresignedUrl sha256hex hmac (some look) nowNs c = .accept ak region service ↔
      ∃ p secret date, PresignedChecks look c p secret date ∧
        p.credential.accessKey = ak ∧ p.credential.region = region ∧ p.credential.service = service ∧
        SigV4Spec.inWindow nowNs date p.expires ∧
        p.signature = SigV4Spec.signature sha256hex hmac secret p.amzDate.fmtIso8601
          ⟨p.credential.date, region, service⟩
          (SigV4Spec.presignedRequest c.method c.path c.qs (effectiveRaw c.http2 c.authority raw) p.signedHeaders) :=
  presigned_verdict_iff_spec sha256hex hmac look nowNs c raw ak region service hraw hwf

/-- every query parameter other than `X-Amz-Signature` — expiry, date, credential, signed-header list included — is
    part of the signed view (in its encoded form) -/
theorem C06_every_query_param_bound (method path : Bytes) (qs headers : List (Bytes × Bytes)) (signed : List Bytes)
    {k v : Bytes} (hmem : (k, v) ∈ qs) (hk : k ≠ SigV4Spec.xAmzSignature) :
    (SigV4Spec.uriEncode false k, SigV4Spec.uriEncode false v) ∈
      (signedView (SigV4Spec.presignedRequest method path qs headers signed)).query :=
  param_in_view method path qs headers signed hmem hk

/-- so a URL in which such a parameter no longer occurs with that value has another signed view (and, by
    `C05_tamper_changes_signature`, another specified signature unless hash or MAC collide on the two messages) -/
theorem C06_param_change_changes_view (method path : Bytes) (qs qs' headers headers' : List (Bytes × Bytes))
    (signed signed' : List Bytes) {k v : Bytes} (hmem : (k, v) ∈ qs) (hk : k ≠ SigV4Spec.xAmzSignature)
    (hnot : (k, v) ∉ qs') :
    signedView (SigV4Spec.presignedRequest method path qs headers signed) ≠
      signedView (SigV4Spec.presignedRequest method path qs' headers' signed') :=
  param_change_changes_view method path qs qs' headers headers' signed signed' hmem hk hnot

/-- a URL in which one of the six `X-Amz-*` authentication parameters is missing or occurs more than once is
    refused with InvalidRequest, whatever else it contains and whatever the time (`c.qs` is the sorted list
    `OrderedQs::parse` produces) -/
theorem C06_duplicate_or_missing_xamz_rejected (sha256hex : Bytes → Bytes) (hmac : Bytes → Bytes → Bytes)
    (lookup : Option (Bytes → Option Bytes)) (nowNs : Int) (c : Ctx) (hsorted : SortedBy c.qs)
    (name : Bytes) (hname : name ∈ xAmzNames) (hcount : (c.qs.filter fun p => p.1 = name).length ≠ 1) :
    v4CheckPresignedUrl sha256hex hmac lookup nowNs c = .err .InvalidRequest := by
  unfold v4CheckPresignedUrl
  rw [parsePresigned_none hname (getUnique_none_of_count hsorted hcount)]

/-- the sorted list the previous theorem assumes is what `OrderedQs::parse` yields -/
theorem C06_ordered_qs_sorted (query : Bytes) : SortedBy (orderedQs query) := sortByFirst_sorted _

/-- calendar: `AmzDate::to_time` (Hinnant's era algorithm, the model of `time::Date`) is the instant the counting
    definition of the proleptic Gregorian calendar assigns — days in whole years + days in whole months + day — and
    exists exactly for valid civil times; for every year 0…9999 and beyond (no bound) -/
theorem C06_to_time_correct (d : AmzDate) :
    d.toTime = if SigV4Spec.validCivil d.year d.month d.day d.hour d.minute d.second = true then
      some (SigV4Spec.civilToUnix d.year d.month d.day d.hour d.minute d.second) else none :=
  toTime_eq_spec d

/-- the underlying day count -/
theorem C06_days_from_civil (y m d : Nat) (h1 : 1 ≤ m) (h2 : m ≤ 12) (h3 : 1 ≤ d) :
    daysFromCivil y m d =
      ((SigV4Spec.daysBeforeYear y + SigV4Spec.daysBeforeMonth y m + (d - 1) : Nat) : Int) - 719528 :=
  daysFromCivil_eq y m d h1 h2 h3

/-! non-vacuity -/
example : SigV4Spec.inWindow (1369353600 * 1000000000 + 5) 1369353600 86400 := by decide
example : ¬ SigV4Spec.inWindow ((1369353600 - 901) * 1000000000) 1369353600 86400 := by decide
example : (⟨2013, 5, 24, 0, 0, 0⟩ : AmzDate).toTime = some 1369353600 := by decide
example : (⟨2023, 2, 29, 0, 0, 0⟩ : AmzDate).toTime = none := by decide

end S3V.C06
