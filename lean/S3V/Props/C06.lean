import S3V.Model.SigV4
import S3V.Spec.SigV4
/-! # C06 (placeholder while the theorems are being written) -/
namespace S3V.C06
end S3V.C06
