import S3V.Gen.Consts
import S3V.Props.C05
import S3V.Crypto.All
/-!
# C05 — constants of the hand-written code, re-read from the source on every run (tie A, translate/consts.py)
-/
namespace S3V.C05
open S3V

/-- `EMPTY_STRING_SHA256_HASH` (the payload line of GET/HEAD requests and of empty chunks) is the constant of the model
    and IS the lower-case hex SHA-256 of the empty string (computed by the kernel with the executable SHA-256 of the
    driver) -/
theorem C05_empty_payload_digest_from_source :
    Gen.Consts.emptySha256Hex = SigV4.emptySha256 ∧
    Gen.Consts.emptySha256Hex = Crypto.hexLower (Crypto.sha256 []) := by decide +kernel

end S3V.C05
